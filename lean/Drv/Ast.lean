import Goyang.Model.Proto
import Goyang.Model.Ast
import Goyang.Spec.Ast
import Goyang.Gen.AstSchema
/-
Driver for the AST builder model (property C03), always over the regenerated table
`Goyang.Gen.AstSchema.table`.

  build <stmt>*                 -> `ok (M|S <node>)*`  |  `err <class> <line> <col>`  |  `err <class> - -`
        Modules.Parse on the top-level statements the generic parser returned (fresh Modules):
        every statement is built and added; M = landed in Modules, S = in SubModules.
  spec.mirrors <stmt>* | <answer of the Go side>
                                -> `true` | `false`: the executable Mirrors predicate on every
        (top-level statement, Go node) pair, plus M/S agreeing with the statement's keyword.
  spec.accepts <stmt>*          -> `true` | `false`: the specification's reading of "must not be rejected"
        (every top-level statement is a module/submodule whose tree has none of the four defects).

Wire format of a statement (tokens separated by blanks; the same as lib.WireStmt on the Go side):
  stmt := "(" kw-hex arg line col stmt* ")"        arg := "~" (no argument) | hex ("-" = empty)
Canonical node dump:
  node := "N" type name-hex src parent "{" (tag "[" node* "]")* "}" "[" ref* "]"
  src  := line ":" col ":" kw-hex | "-"            parent := type | "-"
  ref  := line ":" col ":" kw-hex ":" arg          (extension statements, in order)
Only non-empty substatement fields are listed, in struct order.
-/
open Goyang Goyang.Proto Goyang.Model.Ast

namespace Drv.Ast

def table : Schema := Goyang.Gen.AstSchema.table

/-! ### decoding -/

mutual
def decStmt (fuel : Nat) : List String → Option (Stmt × List String)
  | kwx :: argx :: l :: c :: rest =>
    match fuel with
    | 0 => none
    | fuel + 1 => do
      let kw ← decBytes kwx
      let (hasArg, arg) ← if argx == "~" then some (false, []) else (decBytes argx).map (true, ·)
      let line ← decNat l
      let col ← decNat c
      let (subs, rest) ← decStmts fuel rest
      match rest with
      | ")" :: rest => some (Stmt.mk kw hasArg arg line col subs, rest)
      | _ => none
  | _ => none
def decStmts (fuel : Nat) : List String → Option (List Stmt × List String)
  | "(" :: rest =>
    match fuel with
    | 0 => none
    | fuel + 1 => do
      let (s, rest) ← decStmt fuel rest
      let (ss, rest) ← decStmts fuel rest
      some (s :: ss, rest)
  | rest => some ([], rest)
end

/-! ### printing -/

def ascii (bs : Bytes) : String := String.ofList (bs.map fun b => Char.ofNat b.toNat)

def tyName (t : Nat) : String :=
  match table.typeNames[t]? with
  | some n => ascii n
  | none => s!"?{t}"

def kwStr (k : Nat) : String :=
  match table.kwNames[k]? with
  | some n => ascii n
  | none => s!"?{k}"

def srcRef (s : Stmt) : String := s!"{s.line}:{s.col}:{encBytes s.kw}"

def extRef (s : Stmt) : String :=
  s!"{s.line}:{s.col}:{encBytes s.kw}:{if s.hasArg then encBytes s.arg else "~"}"

mutual
def dumpNode : ANode → String
  | .mk ty name src parent fields exts =>
    let T := table.types[ty]?
    let tags := match T with
      | some T => T.fields.map (fun f => (f.kind.isSub, kwStr f.tag))
      | none => []
    "N " ++ tyName ty ++ " " ++ encBytes name ++ " " ++
      (match src with | some s => srcRef s | none => "-") ++ " " ++
      (match parent with | some p => tyName p | none => "-") ++ " {" ++
      dumpFields tags fields ++ " } [" ++ String.join (exts.map fun e => " " ++ extRef e) ++ " ]"
def dumpFields : List (Bool × String) → List (List ANode) → String
  | (isSub, tag) :: tags, kids :: rest =>
    (if isSub && !kids.isEmpty then " " ++ tag ++ " [" ++ dumpKids kids ++ " ]" else "") ++ dumpFields tags rest
  | [], kids :: rest =>
    (if !kids.isEmpty then " ? [" ++ dumpKids kids ++ " ]" else "") ++ dumpFields [] rest
  | _, [] => ""
def dumpKids : List ANode → String
  | [] => ""
  | k :: ks => " " ++ dumpNode k ++ dumpKids ks
end

def clsStr : ErrClass → String
  | .unknownStmt => "unknown-statement"
  | .unknownField => "unknown-field"
  | .alreadySet => "already-set"
  | .noExt => "no-ext"
  | .missing => "missing"
  | .notModule => "not-module"
  | .duplicate => "duplicate"
  | .badName => "bad-name"
  | .crash => "crash"

def errStr (e : Err) : String :=
  match e.pos with
  | some (l, c) => s!"err {clsStr e.cls} {l} {c}"
  | none => s!"err {clsStr e.cls} - -"

def opBuild (toks : List String) : String :=
  match decStmts (toks.length + 1) toks with
  | some (ss, []) =>
    match parseTop table (fun _ _ => false) ss with
    | .error e => errStr e
    | .ok mods => "ok" ++ String.join (mods.map fun m => (if m.isSub then " S " else " M ") ++ dumpNode m.node)
  | _ => "bad-op"

/-! ### the Go side's dump, read back for the specification ops -/

/-- All statements of a forest, to find the one a `line:col:kw` reference names. -/
def allStmts (fuel : Nat) (ss : List Stmt) : List Stmt :=
  match fuel with
  | 0 => []
  | fuel + 1 => ss.flatMap fun s => s :: allStmts fuel s.subs

def splitRef (r : String) : List String := r.splitOn ":"

/-- Resolve `line:col:kw[:arg]` to the statement at that position (same keyword); a reference that
names no statement of the text becomes a childless statement with these data, which equals none
of the real ones unless it is one. -/
def resolveRef (pool : List Stmt) (r : String) : Option Stmt :=
  match splitRef r with
  | l :: c :: k :: rest => do
    let line ← decNat l
    let col ← decNat c
    let kw ← decBytes k
    let (hasArg, arg) ← match rest with
      | [] => some (false, [])
      | a :: _ => if a == "~" then some (false, []) else (decBytes a).map (true, ·)
    match pool.find? (fun s => s.line == line && s.col == col && s.kw == kw) with
    | some s => some s
    | none => some (Stmt.mk kw hasArg arg line col [])
  | _ => none

def tyId (n : String) : Option Nat :=
  let i := table.typeNames.idxOf n.toUTF8.toList
  if i < table.typeNames.length then some i else none

def kwIdS (n : String) : Option Nat := table.kwId n.toUTF8.toList

mutual
/-- Parse `N type name src parent { … } [ … ]` (the leading `N` already consumed). -/
def decNode (fuel : Nat) (pool : List Stmt) : List String → Option (ANode × List String)
  | tyS :: nameX :: srcS :: parS :: "{" :: rest =>
    match fuel with
    | 0 => none
    | fuel + 1 => do
      let ty ← tyId tyS
      let T ← table.types[ty]?
      let name ← decBytes nameX
      let src ← if srcS == "-" then some none else (resolveRef pool srcS).map some
      let parent ← if parS == "-" then some none else (tyId parS).map some
      let (fl, rest) ← decFieldList fuel pool rest
      match rest with
      | "[" :: rest =>
        let (refs, rest) := rest.span (· != "]")
        match rest with
        | "]" :: rest =>
          let exts ← refs.mapM (resolveRef pool)
          -- one child list per struct field; an unknown or repeated tag makes the node unreadable
          let fields := T.fields.map fun f =>
            if f.kind.isSub then
              match fl.find? (fun (k, _) => k == f.tag) with
              | some (_, kids) => kids
              | none => []
            else []
          if fl.all (fun (k, _) => T.fields.any (fun f => f.kind.isSub && f.tag == k)) &&
             (fl.map (·.1)).eraseDups.length == fl.length then
            some (ANode.mk ty name src parent fields exts, rest)
          else none
        | _ => none
      | _ => none
  | _ => none
/-- `(tag [ node* ])* }` -/
def decFieldList (fuel : Nat) (pool : List Stmt) : List String → Option (List (Nat × List ANode) × List String)
  | "}" :: rest => some ([], rest)
  | tag :: "[" :: rest =>
    match fuel with
    | 0 => none
    | fuel + 1 => do
      let k ← kwIdS tag
      let (kids, rest) ← decKids fuel pool rest
      let (more, rest) ← decFieldList fuel pool rest
      some ((k, kids) :: more, rest)
  | _ => none
/-- `node* ]` -/
def decKids (fuel : Nat) (pool : List Stmt) : List String → Option (List ANode × List String)
  | "]" :: rest => some ([], rest)
  | "N" :: rest =>
    match fuel with
    | 0 => none
    | fuel + 1 => do
      let (n, rest) ← decNode fuel pool rest
      let (ns, rest) ← decKids fuel pool rest
      some (n :: ns, rest)
  | _ => none
end

/-- `(M|S node)*` -/
def decTops (fuel : Nat) (pool : List Stmt) : List String → Option (List (Bool × ANode))
  | [] => some []
  | m :: "N" :: rest =>
    match fuel with
    | 0 => none
    | fuel + 1 => do
      let isSub ← if m == "S" then some true else if m == "M" then some false else none
      let (n, rest) ← decNode (rest.length + 1) pool rest
      let more ← decTops fuel pool rest
      some ((isSub, n) :: more)
  | _ => none

def opSpecMirrors (toks : List String) : String :=
  let (st, rest) := toks.span (· != "|")
  match decStmts (st.length + 1) st, rest with
  | some (ss, []), "|" :: "ok" :: dump =>
    match decTops (dump.length + 1) (allStmts (st.length + 1) ss) dump with
    | some tops => toString (Goyang.Spec.Ast.mirrorsTop table tops ss)
    | none => "false"     -- not the dump of any generic node over this table
  | _, _ => "bad-op"

def opSpecAccepts (toks : List String) : String :=
  match decStmts (toks.length + 1) toks with
  | some (ss, []) => toString (Goyang.Spec.Ast.acceptsTop table ss)
  | _ => "bad-op"

def handle : List String → String
  | "build" :: toks => opBuild toks
  | "spec.mirrors" :: toks => opSpecMirrors toks
  | "spec.accepts" :: toks => opSpecAccepts toks
  | _ => "bad-op"

end Drv.Ast

def main : IO Unit := Proto.loop Drv.Ast.handle
