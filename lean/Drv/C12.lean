import Goyang.Model.Pipeline
/-
Driver of property C12: the resolver model like `drv_res`, but the dump also holds the trees of
the submodules (`ToEntry(ms.SubModules[x])` on the Go side), labelled `sub:<full name>`: content
written in a submodule must report the namespace and the name of the module it belongs to also
when it is reached through the submodule's own tree.
  process <ignoreCircular 0/1> <ignoreNotSupported 0/1> <files in wire format>
      -> `outsideModel <why>` | dump of the module trees ` ; ` dump of the submodule trees
-/
open Goyang Goyang.Proto Goyang.Model

/-- The trees of all distinct submodules, in full-name order (none when Process reported errors). -/
def dumpSubs (o : Outcome) : List String :=
  if !o.errors.isEmpty then [] else
  let subs := sortBy (fun (a b : Mod) => a.fullName < b.fullName) o.reg.distinctSubs
  (subs.map fun m =>
    match o.forest.tree? m.seq with
    | some root => dumpTree o.reg o.forest ("sub:" ++ m.fullName) root m.seq (entryDepth root + 1) [] root
    | none => [s!"N {hexS ("sub:" ++ m.fullName)} missing"]).flatten

def handle : List String → String
  | "process" :: ic :: ins :: rest =>
    match Wire.decFiles (rest.length + 1) rest with
    | some (files, []) =>
      let opts : Opts := { ignoreCircular := ic == "1", ignoreNotSupported := ins == "1" }
      match processFiles opts files with
      | .error why => "outsideModel " ++ why
      | .ok o =>
        let subs := dumpSubs o
        if subs.isEmpty then dumpOutcome o else dumpOutcome o ++ " ; " ++ " ; ".intercalate subs
    | _ => "outsideModel undecodable"
  | _ => "bad-op"

def main : IO Unit := Proto.loop handle
