import Goyang.Model.Pipeline
import Goyang.Spec.ConfigNs
/-
Driver of property C12: the resolver model like `drv_res`, but the dump also holds the trees of
the submodules (`ToEntry(ms.SubModules[x])` on the Go side), labelled `sub:<full name>`: content
written in a submodule must report the namespace and the name of the module it belongs to also
when it is reached through the submodule's own tree.
  process <ignoreCircular 0/1> <ignoreNotSupported 0/1> <files in wire format>
      -> `outsideModel <why>` | dump of the module trees ` ; ` dump of the submodule trees
         ` ; ` one record `Q <namespace hex> <module name hex | !>` per direct
         `FindModuleByNamespace` question (only when Process reported no errors)
The questions are derived from the declared namespaces in the same way on both sides
(harness/cmd/corr-c12 `nsQueries`): every declared namespace and near-twin spellings of it that
need not be declared (ASCII upper / lower case, a trailing slash or blank added or removed,
K/k <-> KELVIN SIGN, %2F <-> %2f <-> /).
-/
open Goyang Goyang.Proto Goyang.Model

/-- The trees of all distinct submodules, in full-name order (none when Process reported errors). -/
def dumpSubs (o : Outcome) : List String :=
  if !o.errors.isEmpty then [] else
  let subs := sortBy (fun (a b : Mod) => a.fullName < b.fullName) o.reg.distinctSubs
  (subs.map fun m =>
    match o.forest.tree? m.seq with
    | some root => dumpTree o.reg o.forest ("sub:" ++ m.fullName) root m.seq (entryDepth root + 1) [] root
    | none => [s!"N {hexS ("sub:" ++ m.fullName)} missing"]).flatten

def kelvin : String := String.singleton (Char.ofNat 0x212A)

/-- Near-twin spellings of a namespace, the namespace itself first. -/
def nsVariants (ns : String) : List String :=
  [ ns, ns.map Char.toUpper, ns.map Char.toLower, ns ++ "/", ns ++ " ",
    (if ns.endsWith "/" || ns.endsWith " " then String.ofList ns.toList.dropLast else ns),
    (ns.replace "K" kelvin).replace "k" kelvin, ns.replace kelvin "K", ns.replace kelvin "k",
    ns.replace "%2F" "%2f", ns.replace "%2f" "%2F", (ns.replace "%2F" "/").replace "%2f" "/", ns.replace "/" "%2F" ]

/-- The direct questions for a registry: variants of every declared namespace (in byte order of
the namespaces), without repetitions. -/
def nsQueries (reg : Registry) : List String :=
  let declared := (sortBy (fun (a b : String) => a < b)
    (reg.distinctModules.map fun m => (m.stmt.argOf? "namespace").getD "")).eraseDups
  (declared.map nsVariants).flatten.eraseDups

def dumpQueries (o : Outcome) : List String :=
  if !o.errors.isEmpty then [] else
  (nsQueries o.reg).map fun q =>
    "Q " ++ hexS q ++ " " ++ (match Spec.ConfigNs.findByNamespace o.reg q with | some n => hexS n | none => "!")

def handle : List String → String
  | "process" :: ic :: ins :: rest =>
    match Wire.decFiles (rest.length + 1) rest with
    | some (files, []) =>
      let opts : Opts := { ignoreCircular := ic == "1", ignoreNotSupported := ins == "1" }
      match processFiles opts files with
      | .error why => "outsideModel " ++ why
      | .ok o =>
        let extra := dumpSubs o ++ dumpQueries o
        if extra.isEmpty then dumpOutcome o else dumpOutcome o ++ " ; " ++ " ; ".intercalate extra
    | _ => "outsideModel undecodable"
  | _ => "bad-op"

def main : IO Unit := Proto.loop handle
