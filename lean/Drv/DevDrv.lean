import Goyang.Model.Proto
import Goyang.Spec.Deviate
import Goyang.Spec.DevTarget
/-
Driver for the executable C08 specification (RFC 7950 §7.20.3 transcription, Goyang.Spec.Deviate).

  spec.deviate <ignoreNotSupported 0/1> <node> <stmt>*
     node := <listLike 0/1> <leafList 0/1> <cfg> <mand> <def> <min> <max> <units> <type>
     stmt := <kind> <cfg> <mand> <def> <min> <max> <units> <type>
       cfg, mand : unset | true | false            def : [hex,hex,…] as in the dump
       node min/max : decimal (max 18446744073709551615 = unbounded)
       stmt min : - | decimal                      stmt max : - | unbounded | decimal
       units : hex (`-` = none / not given)        type : hex (`-` = none / not given)
       kind : add | replace | delete | not-supported | anything else (unknown)
  -> <state> ; <violations> ; <unsupported 0/1>
     state := removed | cfg=… mand=… def=[…] la=<min>:<max> units=… type=…
     violations := - | name:claimed(0/1),…    (every broken §7.20.3.2 condition, in order)

Target resolution (Goyang.Spec.DevTarget: RFC 7950 §6.5 schema node identifiers on the schema tree the
dump of the run WITHOUT the deviating modules shows):

  spec.target <root hex> <n> <step hex>*n <node>*
     root : the module (tree) the first prefix of the deviation argument denotes
     step : the node identifiers of the argument, prefixes removed
     node : hex of the dump path of one node of that tree ("/root/a/b"), followed by `!` for an rpc / action
  -> names | missing <i>       (i = first step that names no child of the node reached so far)

  spec.missing <reported 0/1> <changed>
     what the property demands of a run that holds a deviation naming no node
  -> holds | violates:not-reported | violates:not-reported+changed | violates:changed

  spec.refused <allNamed 0/1> <allowed 0/1> <noTargetReported 0/1> <anyErrorReported 0/1>
     the converse: what the property demands of a run whose every deviation names a node of the tree the
     run without the deviating modules yields (spec.target), and (allowed) breaks no §7.20.3.2 condition
  -> holds | violates:target-exists-but-reported-missing | violates:applicable-deviation-refused
-/
open Goyang Goyang.Proto Goyang.Spec.Deviate

def maxU64 : Nat := 18446744073709551615

def decTri : String → Option (Option Bool)
  | "unset" => some none | "true" => some (some true) | "false" => some (some false) | _ => none

def encTri : Option Bool → String
  | none => "unset" | some true => "true" | some false => "false"

def decStrField (s : String) : Option String := do
  let bs ← decBytes s
  String.fromUTF8? (ByteArray.mk bs.toArray)

/-- `[hex,hex]` -/
def decDefs (s : String) : Option (List String) :=
  if !(s.startsWith "[" && s.endsWith "]") then none else
  let inner : String := String.ofList ((s.toList.drop 1).dropLast)
  if inner.isEmpty then some [] else (inner.splitOn ",").mapM decStrField

def encDefs (l : List String) : String := "[" ++ ",".intercalate (l.map encStr) ++ "]"

def decOptStr (s : String) : Option (Option String) :=
  if s == "-" then some none else (decStrField s).map some

def encOptStr : Option String → String
  | none => "-" | some s => encStr s

def decBool (s : String) : Option Bool := if s == "1" then some true else if s == "0" then some false else none

def decNode : List String → Option (NodeProps × List String)
  | ll :: lf :: cfg :: mand :: df :: mn :: mx :: un :: ty :: rest => do
    let ll ← decBool ll
    let lf ← decBool lf
    let cfg ← decTri cfg
    let mand ← decTri mand
    let df ← decDefs df
    let mn ← decNat mn
    let mx ← decNat mx
    let un ← decOptStr un
    let ty ← decOptStr ty
    some ({ listLike := ll, leafList := lf, config := cfg, mandatory := mand, default := df, min := mn,
            max := if mx == maxU64 then none else some mx, units := un, type := ty }, rest)
  | _ => none

def decKind : String → DevKind
  | "add" => .add | "replace" => .replace | "delete" => .delete | "not-supported" => .notSupported | _ => .other

def decStmts : (fuel : Nat) → List String → Option (List DeviateStmt)
  | _, [] => some []
  | 0, _ => none
  | fuel + 1, k :: cfg :: mand :: df :: mn :: mx :: un :: ty :: rest => do
    let cfg ← decTri cfg
    let mand ← decTri mand
    let df ← decDefs df
    let mn ← if mn == "-" then some none else (decNat mn).map some
    let mx ← if mx == "-" then some none
             else if mx == "unbounded" then some (some none)
             else (decNat mx).map fun v => some (if v == maxU64 then none else some v)
    let un ← decOptStr un
    let ty ← decOptStr ty
    let more ← decStmts fuel rest
    some ({ kind := decKind k, config := cfg, mandatory := mand, default := df, min := mn, max := mx, units := un,
            type := ty } :: more)
  | _, _ => none

def encState : Option NodeProps → String
  | none => "removed"
  | some p =>
    s!"cfg={encTri p.config} mand={encTri p.mandatory} def={encDefs p.default} la={p.min}:{p.max.getD maxU64} " ++
    s!"units={encOptStr p.units} type={encOptStr p.type}"

def decSNode (s : String) : Option Goyang.Spec.DevTarget.SNode := do
  let rpc := s.endsWith "!"
  let h : String := if rpc then String.ofList s.toList.dropLast else s
  let p ← decStrField h
  some { path := (p.splitOn "/").filter (· ≠ ""), rpc := rpc }

def handleTarget : List String → String
  | root :: n :: rest =>
    match decStrField root, decNat n with
    | some root, some n =>
      match (rest.take n).mapM decStrField, (rest.drop n).mapM decSNode with
      | some steps, some tree =>
        if steps.length != n then "bad-op" else
        match Goyang.Spec.DevTarget.resolve tree root steps with
        | none => "names"
        | some i => s!"missing {i}"
      | _, _ => "bad-op"
    | _, _ => "bad-op"
  | _ => "bad-op"

def handle : List String → String
  | "spec.target" :: rest => handleTarget rest
  | ["spec.missing", rep, ch] =>
    match decBool rep, decNat ch with
    | some rep, some ch => Goyang.Spec.DevTarget.missingVerdict rep ch
    | _, _ => "bad-op"
  | ["spec.refused", an, al, nt, ae] =>
    match decBool an, decBool al, decBool nt, decBool ae with
    | some an, some al, some nt, some ae => Goyang.Spec.DevTarget.refusedVerdict an al nt ae
    | _, _, _, _ => "bad-op"
  | "spec.deviate" :: ins :: rest =>
    match decBool ins, decNode rest with
    | some ins, some (p, rest) =>
      match decStmts (rest.length + 1) rest with
      | some ss =>
        let r := deviateSeq ins p ss
        let vs := if r.errs.isEmpty then "-"
          else ",".intercalate (r.errs.map fun e => s!"{e.name}:{if e.claimed then 1 else 0}")
        s!"{encState r.node} ; {vs} ; {if r.unsupported then 1 else 0}"
      | none => "bad-op"
    | _, _ => "bad-op"
  | _ => "bad-op"

def main : IO Unit := Proto.loop handle
