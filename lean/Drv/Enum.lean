import Goyang.Model.Proto
import Goyang.Model.Enum
import Goyang.Spec.Enum
import Goyang.Spec.Number
/-
Driver for the enum / bit field model.  kind = `e` (NewEnumType) | `b` (NewBitfield).
  enum.ops  <kind> (<name-hex> <int|->)*     direct calls: Set(name, int) or, for `-`, SetNext(name); a failing call is recorded, the next one follows
  enum.text <kind> (<name-hex> <hex|nil>)*   the `set` closure of Type.resolve on the written argument (nil = no value/position statement)
      -> errs=<idx:class,...> names=<hex,...> values=<int,...> namemap=<hex:int,...> valuemap=<int:hex,...>
  enum.steps <kind> (<name-hex> <int|->)*    the same calls, with the table read back after EVERY call:
      -> err=<class|-> names=... values=... namemap=... valuemap=...  |  err=...   (one block per call; the table after call k
         is that of `fold` over the first k calls, the error that of call k)
  spec.assign <kind> (<name-hex> <int|->)*   -> none | ok <hex:int,...>   (RFC 7950 assignment, table listed by ascending name)
  spec.steps  <kind> (<name-hex> <int|->)*   -> the spec.assign answer of every non-empty prefix of the calls, separated by ` | `
      (the table read back after call k is judged against the RFC assignment of the first k calls)
  enum.after <kind> <n> (<name-hex> <hex|nil>)^n (<name-hex> <int|->)*   a table that was RESOLVED from n written members
      (the `set` closure of Type.resolve, as enum.text) and is then operated on through Set / SetNext (as enum.steps): the calls go on
      from the state the written members left (the members, last = the highest value so far)
      -> err=- <table as resolved>  |  err=<class|-> <table after call 1>  |  ...     (err=written(<idx:class,...>) alone when the written list has errors)
  spec.after <kind> <n> (<name-hex> <hex|nil>)^n (<name-hex> <int|->)*   -> the spec.assign answer of the written members followed by the
      first i calls, i = 0 .. number of calls, separated by ` | ` (na / none as spec.text when a written argument is outside the literal form)
  spec.text   <kind> (<name-hex> <hex|nil>)* -> na | none | ok <...>       (na: some argument is an integer in a spelling outside the claimed literal form `[-] digits` without superfluous leading zeros; none also when some argument is no integer at all)
-/
open Goyang Goyang.Proto
open Goyang.Model.Enum

def commaSep (xs : List String) : String := ",".intercalate xs

def showTable (e : EnumType) : String :=
  "names=" ++ commaSep (e.names.map encBytes) ++
  " values=" ++ commaSep (e.values.map toString) ++
  " namemap=" ++ commaSep (e.nameMap.map fun (n, v) => s!"{encBytes n}:{v}") ++
  " valuemap=" ++ commaSep (e.valueMap.map fun (v, n) => s!"{v}:{encBytes n}")

/-- the table and the error after each of the calls: call k is judged by `fold` over the first k calls -/
def showSteps (e : EnumType) (ms : List Member) : String :=
  " | ".intercalate ((List.range ms.length).map fun k =>
    let (ek, errs) := fold e (ms.take (k + 1))
    let err := match errs.find? (fun p => p.1 == k) with
      | some (_, c) => c.name
      | none => "-"
    "err=" ++ err ++ " " ++ showTable ek)

def showState (r : EnumType × List (Nat × EnumErr)) : String :=
  let (e, errs) := r
  "errs=" ++ commaSep (errs.map fun (i, c) => s!"{i}:{c.name}") ++
  " names=" ++ commaSep (e.names.map encBytes) ++
  " values=" ++ commaSep (e.values.map toString) ++
  " namemap=" ++ commaSep (e.nameMap.map fun (n, v) => s!"{encBytes n}:{v}") ++
  " valuemap=" ++ commaSep (e.valueMap.map fun (v, n) => s!"{v}:{encBytes n}")

def kindOf (s : String) : Option (EnumType × Spec.Enum.Kind) :=
  if s == "e" then some (newEnumType, .enumeration) else if s == "b" then some (newBitfield, .bits) else none

def opsArgs : List String → Option (List Member)
  | [] => some []
  | n :: v :: rest => do
    let n ← decBytes n
    let val ← if v == "-" then some MemberVal.implicit else (decInt v).map MemberVal.explicit
    let r ← opsArgs rest
    some ({ name := n, val := val } :: r)
  | _ => none

def textArgs : List String → Option (List (Name × Option (List UInt8)))
  | [] => some []
  | n :: v :: rest => do
    let n ← decBytes n
    let val ← if v == "nil" then some none else (decBytes v).map some
    let r ← textArgs rest
    some ((n, val) :: r)
  | _ => none

def specArgs : List String → Option (List (Name × Option Int))
  | [] => some []
  | n :: v :: rest => do
    let n ← decBytes n
    let val ← if v == "-" then some none else (decInt v).map some
    let r ← specArgs rest
    some ((n, val) :: r)
  | _ => none

/-- the integer an argument text denotes, when it is of the claimed literal form -/
def litValue (s : List UInt8) : Option Int :=
  match Spec.Number.readLit s with
  | some l => if l.proper ∧ l.fp = none ∧ l.noLeadingZero then some l.num else none
  | none => none

/-- not an integer under any reading: the text has no decimal digit at all (empty, a bare sign, words).
RFC 7950 9.6.4.2 / 9.7.4.2: the argument of `value` / `position` is an integer, so a type with such
a member is invalid.  (Texts that do contain digits but are not of the claimed literal form — other
radices, blanks, a fraction, an exponent — stay outside the claim: `na`.) -/
def notInteger (s : List UInt8) : Bool := !s.any (fun b => 48 ≤ b && b ≤ 57)

def anyNotInteger : List (Name × Option (List UInt8)) → Bool
  | [] => false
  | (_, none) :: rest => anyNotInteger rest
  | (_, some s) :: rest => notInteger s || anyNotInteger rest

def specTextArgs : List (Name × Option (List UInt8)) → Option (List (Name × Option Int))
  | [] => some []
  | (n, none) :: rest => (specTextArgs rest).map ((n, none) :: ·)
  | (n, some s) :: rest => do
    let v ← litValue s
    let r ← specTextArgs rest
    some ((n, some v) :: r)

def showSpec (k : Spec.Enum.Kind) (ms : List (Name × Option Int)) : String :=
  match Spec.Enum.assign k ms with
  | none => "none"
  | some t => "ok " ++ commaSep ((sortBy (fun a b => nameLt a.1 b.1) t).map fun (n, v) => s!"{encBytes n}:{v}")

/-- the specification after every call: the RFC assignment of the first k members, k = 1 .. n -/
def showSpecSteps (k : Spec.Enum.Kind) (ms : List (Name × Option Int)) : String :=
  " | ".intercalate ((List.range ms.length).map fun i => showSpec k (ms.take (i + 1)))

/-- `<n> x1 .. x2n y...` ↦ (the 2n fields of the written members, the fields of the calls) -/
def splitAfter : List String → Option (List String × List String)
  | [] => none
  | n :: more =>
    match n.toNat? with
    | some k => if 2 * k ≤ more.length then some (more.take (2 * k), more.drop (2 * k)) else none
    | none => none

/-- a resolved table (the text fold of the written members) and the calls made on it afterwards -/
def showAfter (e : EnumType) (tms : List (Name × Option (List UInt8))) (oms : List Member) : String :=
  let (e0, errs0) := foldText e tms
  if errs0.isEmpty then
    " | ".intercalate (("err=- " ++ showTable e0) :: (if oms.isEmpty then [] else [showSteps e0 oms]))
  else
    "err=written(" ++ commaSep (errs0.map fun (i, c) => s!"{i}:{c.name}") ++ ")"

/-- the RFC assignment of the written members followed by the first i calls, i = 0 .. number of calls -/
def showSpecAfter (k : Spec.Enum.Kind) (ms : List (Name × Option Int)) (oms : List (Name × Option Int)) : String :=
  " | ".intercalate ((List.range (oms.length + 1)).map fun i => showSpec k (ms ++ oms.take i))

def handle : List String → String
  | "enum.ops" :: k :: rest =>
    match kindOf k, opsArgs rest with
    | some (e, _), some ms => showState (fold e ms)
    | _, _ => "bad-op"
  | "enum.steps" :: k :: rest =>
    match kindOf k, opsArgs rest with
    | some (e, _), some ms => showSteps e ms
    | _, _ => "bad-op"
  | "enum.text" :: k :: rest =>
    match kindOf k, textArgs rest with
    | some (e, _), some ms => showState (foldText e ms)
    | _, _ => "bad-op"
  | "spec.assign" :: k :: rest =>
    match kindOf k, specArgs rest with
    | some (_, k), some ms => showSpec k ms
    | _, _ => "bad-op"
  | "spec.steps" :: k :: rest =>
    match kindOf k, specArgs rest with
    | some (_, k), some ms => showSpecSteps k ms
    | _, _ => "bad-op"
  | "enum.after" :: k :: rest =>
    match kindOf k, splitAfter rest with
    | some (e, _), some (tx, ops) =>
      match textArgs tx, opsArgs ops with
      | some tms, some oms => showAfter e tms oms
      | _, _ => "bad-op"
    | _, _ => "bad-op"
  | "spec.after" :: k :: rest =>
    match kindOf k, splitAfter rest with
    | some (_, k), some (tx, ops) =>
      match textArgs tx, specArgs ops with
      | some tms, some oms =>
        match specTextArgs tms with
        | some ms => showSpecAfter k ms oms
        | none => if anyNotInteger tms then "none" else "na"
      | _, _ => "bad-op"
    | _, _ => "bad-op"
  | "spec.text" :: k :: rest =>
    match kindOf k, textArgs rest with
    | some (_, k), some ms =>
      match specTextArgs ms with
      | some ms => showSpec k ms
      | none => if anyNotInteger ms then "none" else "na"
    | _, _ => "bad-op"
  | _ => "bad-op"

def main : IO Unit := Proto.loop handle
