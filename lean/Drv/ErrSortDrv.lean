import Goyang.Model.Proto
import Goyang.Model.ErrorSort
import Goyang.Spec.ErrorSort
/-
Driver for the errorSort model (property C05).  Messages travel hex encoded (`-` = empty).
  sort <messages…>         -> `=` followed by the messages of `Model.ErrorSort.errorSort`
  spec.sorted <messages…>  -> 1 | 0   (Spec.ErrorSort.sortedB: ordered by file, line, col; no duplicates)
  less <a> <b>             -> 1 | 0
  atoi <s>                 -> none | the integer
  fields <s>               -> the pieces of strings.SplitN(s, ":", 4)
-/
open Goyang Goyang.Proto

def decAll (fs : List String) : Option (List (List UInt8)) := fs.mapM decBytes

def handle : List String → String
  | "sort" :: ms =>
    match decAll ms with
    | some l => " ".intercalate ("=" :: (Model.ErrorSort.errorSort l).map encBytes)
    | none => "bad-op"
  | "spec.sorted" :: ms =>
    match decAll ms with
    | some l => if Spec.ErrorSort.sortedB l then "1" else "0"
    | none => "bad-op"
  | ["less", a, b] =>
    match decBytes a, decBytes b with
    | some a, some b => if Model.ErrorSort.less a b then "1" else "0"
    | _, _ => "bad-op"
  | ["atoi", s] =>
    match decBytes s with
    | some s => match Model.ErrorSort.atoi s with | some v => toString v | none => "none"
    | none => "bad-op"
  | ["fields", s] =>
    match decBytes s with
    | some s => let (a, r) := Model.ErrorSort.fields s; " ".intercalate ((a :: r).map encBytes)
    | none => "bad-op"
  | _ => "bad-op"

def main : IO Unit := Proto.loop handle
