import Goyang.Model.Proto
import Goyang.Model.ErrorSort
import Goyang.Spec.ErrorSort
import Goyang.Model.Cli
/-
Driver for the errorSort model (property C05).  Messages travel hex encoded (`-` = empty).
  sort <messages…>         -> `=` followed by the messages of `Model.ErrorSort.errorSort`
  spec.sorted <messages…>  -> 1 | 0   (Spec.ErrorSort.sortedB: ordered by file, line, col; no duplicates)
  less <a> <b>             -> 1 | 0
  atoi <s>                 -> none | the integer
  fields <s>               -> the pieces of strings.SplitN(s, ":", 4)
  tree <k> <tree>*k        -> hex of Model.Cli.doTree (what `goyang --format tree` prints for these entries)
      tree = N name shown description nexts (kind nname)* rpc ro type|~ hasDir isList key ninp nout ndir tree*
             (children in the order the Go map handed them out)
-/
open Goyang Goyang.Proto

def decAll (fs : List String) : Option (List (List UInt8)) := fs.mapM decBytes

open Goyang.Model.Cli in
mutual
def decTree : Nat → List String → Option (Tree × List String)
  | 0, _ => none
  | fuel + 1, "N" :: name :: shown :: desc :: nexts :: rest => do
    let name ← decBytes name
    let shown ← decBytes shown
    let desc ← decBytes desc
    let ne ← decNat nexts
    let (exts, rest) ← decExts ne rest
    match rest with
    | rpc :: ro :: ty :: hasDir :: isList :: key :: ninp :: nout :: ndir :: rest =>
      let ty ← if ty == "~" then some none else (decBytes ty).map some
      let key ← decBytes key
      let (inp, rest) ← decTrees fuel (← decNat ninp) rest
      let (out, rest) ← decTrees fuel (← decNat nout) rest
      let (dir, rest) ← decTrees fuel (← decNat ndir) rest
      some (.mk { name := name, shown := shown, description := desc, exts := exts, isRpc := rpc == "1", readOnly := ro == "1",
                  typeName := ty, hasDir := hasDir == "1", isList := isList == "1", key := key } inp out dir, rest)
    | _ => none
  | _, _ => none
def decTrees : Nat → Nat → List String → Option (List Tree × List String)
  | _, 0, toks => some ([], toks)
  | 0, _ + 1, _ => none
  | fuel + 1, n + 1, toks => do
    let (t, rest) ← decTree fuel toks
    let (ts, rest) ← decTrees fuel n rest
    some (t :: ts, rest)
def decExts : Nat → List String → Option (List (List UInt8 × List UInt8) × List String)
  | 0, toks => some ([], toks)
  | n + 1, k :: a :: rest => do
    let k ← decBytes k
    let a ← decBytes a
    let (xs, rest) ← decExts n rest
    some ((k, a) :: xs, rest)
  | _ + 1, _ => none
end

def handle : List String → String
  | "sort" :: ms =>
    match decAll ms with
    | some l => " ".intercalate ("=" :: (Model.ErrorSort.errorSort l).map encBytes)
    | none => "bad-op"
  | "spec.sorted" :: ms =>
    match decAll ms with
    | some l => if Spec.ErrorSort.sortedB l then "1" else "0"
    | none => "bad-op"
  | ["less", a, b] =>
    match decBytes a, decBytes b with
    | some a, some b => if Model.ErrorSort.less a b then "1" else "0"
    | _, _ => "bad-op"
  | ["atoi", s] =>
    match decBytes s with
    | some s => match Model.ErrorSort.atoi s with | some v => toString v | none => "none"
    | none => "bad-op"
  | ["fields", s] =>
    match decBytes s with
    | some s => let (a, r) := Model.ErrorSort.fields s; " ".intercalate ((a :: r).map encBytes)
    | none => "bad-op"
  | "tree" :: k :: toks =>
    match decNat k with
    | some k =>
      match decTrees (toks.length + k + 1) k toks with
      | some (ts, []) => encBytes (Model.Cli.doTree ts)
      | _ => "bad-op"
    | none => "bad-op"
  | _ => "bad-op"

def main : IO Unit := Proto.loop handle
