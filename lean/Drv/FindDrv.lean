import Goyang.Model.Pipeline
import Goyang.Spec.Find
/-
Driver of property C17 (schema path lookup).

  find <ignoreCircular 0/1> <ignoreNotSupported 0/1> <n> (<tree> <steps> <ctx> <path-hex>){n} <files in wire format>
      runs the whole pipeline (`processFiles`), then the n lookups one after the other on the
      resulting forest (a lookup may create an absent rpc input/output or record an error, and the
      next lookup sees that, exactly as in Go)
      -> `outsideModel <why>` | `errors` (Process reported errors: no trees) |
         `ok wf=<0/1> <answer>{n}`,  answer = `none:<dn>:<de>` | `<tree>/<steps>/<Path() hex>:<dn>:<de>`
         (dn = nodes created by this lookup, de = errors recorded by it)
  spec.paths <ignoreCircular> <ignoreNotSupported> <files in wire format>
      -> `ok wf=<0/1> <record>*`, one record per node of every tree except the roots:
         `<tree>|<steps>|<absPath hex>|<wfKeys of the tree 0/1>|<ctx>` where absPath is the specification's
         absolute prefixed schema path with the tree's own module prefix on every step and ctx is the
         (sub)module the model takes the node's prefix table from (`nodeMod` = Go's RootNode(e.Node);
         for an implied case: that of the node it wraps)

  <tree>  = `m<hex full name>` (module) | `s<hex full name>` (submodule)
  <steps> = `-` (the root) | steps joined by `.`: `c<hex name>` | `i` | `o`
-/
open Goyang Goyang.Proto Goyang.Model Goyang.Spec.Find

def encStep : Step → String
  | .child k => "c" ++ encStr k
  | .input => "i"
  | .output => "o"

def encSteps (p : Path) : String := if p.isEmpty then "-" else ".".intercalate (p.map encStep)

def decStep (s : String) : Option Step :=
  if s == "i" then some .input
  else if s == "o" then some .output
  else match s.toList with
    | 'c' :: rest => (Wire.decStr (String.ofList rest)).map .child
    | _ => none

def decSteps (s : String) : Option Path :=
  if s == "-" then some [] else (s.splitOn ".").mapM decStep

def treeRef (m : Mod) : String := (if m.isSub then "s" else "m") ++ encStr m.fullName

/-- The loaded (sub)module a tree reference names. -/
def resolveTree (reg : Registry) (ref : String) : Option Mod :=
  match ref.toList with
  | 'm' :: rest => (Wire.decStr (String.ofList rest)).bind fun n => reg.distinctModules.find? (·.fullName == n)
  | 's' :: rest => (Wire.decStr (String.ofList rest)).bind fun n => reg.distinctSubs.find? (·.fullName == n)
  | _ => none

mutual
def entrySize : Entry → Nat
  | .mk _ c i o => 1 + sizeL c + sizeL i + sizeL o
def sizeL : List Entry → Nat
  | [] => 0
  | e :: es => entrySize e + sizeL es
end

def forestSize (f : Forest) : Nat := f.trees.foldl (fun n it => n + entrySize it.2) 0
def forestErrs (f : Forest) : Nat := f.trees.foldl (fun n it => n + it.2.allErrors.length) 0

structure Query where
  start : String
  steps : String
  ctx : String
  path : String

def takeQueries : Nat → List String → Option (List Query × List String)
  | 0, rest => some ([], rest)
  | n + 1, a :: b :: c :: d :: rest => (takeQueries n rest).map fun (qs, r) => ({ start := a, steps := b, ctx := c, path := d } :: qs, r)
  | _, _ => none

def answerOne (reg : Registry) (f : Forest) (q : Query) : String × Forest :=
  match resolveTree reg q.start, decSteps q.steps, resolveTree reg q.ctx, Wire.decStr q.path with
  | some sm, some p, some cm, some name =>
    let (r, f') := find reg f (sm.seq, p) cm.seq name
    let dn := forestSize f' - forestSize f
    let de := forestErrs f' - forestErrs f
    let loc := match r with
      | none => "none"
      | some (t, rp) =>
        match reg.byId t, f'.tree? t with
        | some tm, some root => s!"{treeRef tm}/{encSteps rp}/{encStr (root.pathString rp)}"
        | _, _ => "lost"
    (s!"{loc}:{dn}:{de}", f')
  | _, _, _, _ => ("bad-query", f)

def withOutcome (ic ins : String) (rest : List String) (k : Outcome → String) : String :=
  match Wire.decFiles (rest.length + 1) rest with
  | some (files, []) =>
    let opts : Opts := { ignoreCircular := ic == "1", ignoreNotSupported := ins == "1" }
    match processFiles opts files with
    | .error why => "outsideModel " ++ why
    | .ok o => if !o.errors.isEmpty then "errors" else k o
  | _ => "outsideModel undecodable"

def b01 (b : Bool) : String := if b then "1" else "0"

def handle : List String → String
  | "find" :: ic :: ins :: n :: rest =>
    match (decNat n).bind fun n => takeQueries n rest with
    | none => "bad-op"
    | some (qs, files) =>
      withOutcome ic ins files fun o =>
        let (answers, _) := qs.foldl (fun (acc : List String × Forest) q =>
          let (a, f') := answerOne o.reg acc.2 q
          (a :: acc.1, f')) ([], o.forest)
        " ".intercalate (s!"ok wf={b01 (wfForest o.forest)}" :: answers.reverse)
  | "spec.paths" :: ic :: ins :: files =>
    withOutcome ic ins files fun o =>
      let recs := o.forest.trees.flatMap fun (id, root) =>
        match o.reg.byId id with
        | none => []
        | some m =>
          ((nodes root).filter (fun px => !px.1.isEmpty)).map fun px =>
            let ctx := match o.reg.byId px.2.d.nodeMod with | some cm => treeRef cm | none => "?"
            s!"{treeRef m}|{encSteps px.1}|{encStr (absPath m.getPrefix px.1)}|{b01 (wfKeys root)}|{ctx}"
      " ".intercalate (s!"ok wf={b01 (wfForest o.forest)}" :: recs)
  | _ => "bad-op"

def main : IO Unit := Proto.loop handle
