import Goyang.Model.Proto
import Goyang.Model.Identity
import Goyang.Spec.Identity
import Goyang.Spec.IdentityReport
/-
Driver for identity resolution (C11).

  ident <oracle> <files in wire format>
      -> ok <item>* ; <error>*          every token hex encoded, items and errors sorted, errors de-duplicated
         item  = root>module:name=module:name,…      one per identity statement of every loaded (sub)module
                                                     (root = its name@latest-revision),
                                                     Values in model order
               | @root:node=member|member…   identityref / union nodes (top level, also from a used grouping; direct or through
                                                     local typedef chains): member = declRoot>module:name~list seen | -
         error = file:line:col:class
      -> linkfail <error>*              an include/import did not resolve (outside the C11 model)
      -> loaderr | fuel | outsideModel
  spec.ident <files in wire format> | <item>* ; <error>*        (the errors Go reported, as above)
      -> holds | violates <hex reason> | outside <hex reason>
         errors: Spec.Identity.judge on their number, then Spec.Identity.judgeReports (Spec/IdentityReport.lean): every
         derivation cycle and every undefined base has to be named by an error of its own
         one statement per vertex: judged over Spec.Identity.graph; several (duplicates, several revisions of a
         module): over Spec.Identity.survivorGraph and the items of the surviving statements (both always answer:
         Props.C11.specification_answers; they agree up to order without duplicates: survivor_graph_is_graph)
-/
open Goyang Goyang.Proto Goyang.Model

namespace Drv.Ident
open Goyang.Model.Identity

def sortStrings (l : List String) : List String := l.mergeSort (fun a b => decide (a ≤ b))

def dedup (l : List String) : List String := l.eraseDups

def vtxText (v : Vtx) : String := v.1 ++ ":" ++ v.2

/-- Name printed for the owner of `m`: `module(m).Name`, or `~belongs-to` when that module is absent. -/
def ownerText (r : Registry) (m : Mod) : String :=
  match r.owner m with
  | some ow => ow.name
  | none => "~" ++ (m.belongsTo?.getD "")

def identityItems (r : Registry) (res : Result) : List String :=
  (tableMods r).flatMap fun m =>
    (identities m).zipIdx.map fun (s, i) =>
      let v : Vtx := (ownerText r m, s.arg)
      let vals :=
        match res.dict.get? v.key with
        | some e => if e.root == m.seq && e.idx == i then res.vals e.vtx else []
        | none => []
      m.fullName ++ ">" ++ vtxText v ++ "=" ++ ",".intercalate (vals.map vtxText)

/-- `@root:node=member|member|…`, member = `declaringRoot>module:name~v,…` (the identity object the
type points at, by the (sub)module revision that declares it, and the list seen through it) or `-`. -/
def leafItems (r : Registry) (res : Result)
    (leaves : List (String × String × List (Option DEntry) × List Err)) : List String :=
  leaves.map fun (root, leaf, ms, _) =>
    "@" ++ root ++ ":" ++ leaf ++ "=" ++ "|".intercalate (ms.map fun x =>
      match x with
      | some e =>
        (match r.byId e.root with | some m => m.fullName | none => "?") ++ ">" ++ vtxText e.vtx ++ "~" ++
          ",".intercalate ((res.vals e.vtx).map vtxText)
      | none => "-")

def encAll (l : List String) : String := String.join (l.map fun s => " " ++ encStr s)

def runIdent (oracle : Nat) (files : List SrcFile) : String :=
  match loadAll files with
  | .error _ => "loaderr"
  | .ok r =>
    match run (Oracle.ofNat oracle) r with
    | .outOfFuel => "fuel"
    | .linkFailed errs => "linkfail" ++ encAll (sortStrings (dedup (errs.map Err.render)))
    | .done res leaves =>
      let items := sortStrings (identityItems r res ++ leafItems r res leaves)
      let errs := sortStrings (dedup ((processErrs r res leaves).map Err.render))
      "ok" ++ encAll items ++ " ;" ++ encAll errs

/-! ### spec.ident -/

open Goyang.Spec.Identity in
def parseVertex (s : String) : Vertex :=
  match s.splitOn ":" with
  | m :: rest => (m, ":".intercalate rest)
  | [] => ("", s)

/-- `root>module:name=v,…` → (root, vertex, list) -/
def parseIdentityItem (s : String) : Option (String × (String × String) × List (String × String)) :=
  match s.splitOn ">" with
  | [root, rest] =>
    match rest.splitOn "=" with
    | [k, vs] => some (root, parseVertex k, if vs.isEmpty then [] else (vs.splitOn ",").map parseVertex)
    | _ => none
  | _ => none

/-- One member `declRoot>module:name~v,…` → (vertex, list seen); `-` → none. -/
def parseMember (mtxt : String) : Option ((String × String) × List (String × String)) :=
  match mtxt.splitOn "~" with
  | [obj, vs] =>
    let vtx := match obj.splitOn ">" with
      | [_, x] => x
      | _ => obj
    some (parseVertex vtx, if vs.isEmpty then [] else (vs.splitOn ",").map parseVertex)
  | _ => none

/-- `@root:node=member|member|…` → (root:node, the members that resolved). -/
def parseLeafItem (s : String) : Option (String × List ((String × String) × List (String × String))) :=
  if s.startsWith "@" then
    match (s.drop 1).toString.splitOn "=" with
    | [k, v] => some (k, (v.splitOn "|").filterMap parseMember)
    | _ => none
  else none

/-- `file:line:col:class` (`-` = no file) → error; the file name may hold colons. -/
def parseErr (s : String) : Option Err :=
  match (s.splitOn ":").reverse with
  | cls :: col :: line :: f :: fs =>
    match line.toNat?, col.toNat? with
    | some l, some c =>
      let file := ":".intercalate (f :: fs).reverse
      some { file := if file == "-" then "" else file, line := l, col := c, cls := cls }
    | _, _ => none
  | _ => none

open Goyang.Spec.Identity in
def runSpec (files : List SrcFile) (items : List String) (errs : List Err) : String :=
  let nErrors := errs.length
  match loadAll files with
  | .error _ => "outside " ++ encStr "the texts do not load"
  | .ok r =>
    match parts r, graph r, registrations r, survivorGraph r with
    | some ps, some G0, some R, some GS =>
      -- several identity statements for one vertex (RFC 7950 rules them out, goyang loads them): the
      -- verdict is taken over the graph of the surviving statements, and only the items of the
      -- surviving statements are judged (Props.C11: `…_surviving`; `survivor_graph_is_graph`: without
      -- duplicates the two graphs are the same up to order).  Several such statements within ONE
      -- (sub)module text give items with the same (root, vertex): the items do not say which statement
      -- carries which list, so of such a group ONE item has to carry the right list.
      let dup := G0.verts.eraseDups.length != G0.verts.length
      let G := if dup then GS else G0
      let sv := survivors R
      let partNames := ps.map (·.fullName)
      let cand := (items.filterMap parseIdentityItem).filter fun (root, v, _) =>
        partNames.contains root && (!dup || sv.any fun x => x.1 == v && x.2.1.fullName == root)
      let vals : List (Vertex × List Vertex) :=
        if dup then
          (cand.map fun (root, v, _) => (root, v)).eraseDups.filterMap fun (root, v) =>
            let grp := cand.filter fun (root', v', _) => root' == root && v' == v
            match grp.find? (fun (_, _, l) => valuesOK G v l == some true) with
            | some (_, _, l) => some (v, l)
            | none => grp.head?.map fun (_, _, l) => (v, l)
        else cand.map fun (_, v, l) => (v, l)
      let leaves := items.filterMap parseLeafItem
      -- the list seen through an identityref has to be the list of the identity it names
      let vals := vals ++ leaves.flatMap (·.2)
      -- every identityref member written on a node has to be among the members of its resolved type
      let rfs := (refs r).map fun (m, leaf, arg) =>
        let want := arg.bind (refTarget r G m)
        let seen := ((leaves.find? (·.1 == m.fullName ++ ":" ++ leaf)).map (·.2)).getD [] |>.map (·.1)
        (want, match want with
          | some w => if seen.contains w then some w else seen.head?
          | none => seen.head?)
      -- the identity statements that make up the vertices of `G`
      let stmts : List (Vertex × Mod × Stmt) :=
        if dup then sv else ps.flatMap fun m => (vertexStmts r m).map fun (v, s) => (v, m, s)
      match judge G vals rfs nErrors with
      | .holds =>
        -- which errors: one for every derivation cycle, one for every undefined base
        match judgeReports r G stmts errs with
        | .holds => "holds"
        | .violates why => "violates " ++ encStr why
        | .outside why => "outside " ++ encStr why
      | .violates why => "violates " ++ encStr why
      | .outside why => "outside " ++ encStr why
    | _, _, _, _ => "outside " ++ encStr "closure did not finish"

def splitAt (sep : String) (l : List String) : List String × List String :=
  (l.takeWhile (· != sep), (l.dropWhile (· != sep)).drop 1)

def decAll (l : List String) : Option (List String) := l.mapM Wire.decStr

end Drv.Ident

open Drv.Ident in
def handle : List String → String
  | "ident" :: o :: rest =>
    match decNat o, Wire.decFiles (rest.length + 1) rest with
    | some o, some (files, []) => runIdent o files
    | _, _ => "outsideModel"
  | "spec.ident" :: rest =>
    let (wire, tail) := splitAt "|" rest
    let (itemsX, errsX) := splitAt ";" tail
    match Wire.decFiles (wire.length + 1) wire, decAll itemsX, (decAll errsX).bind (·.mapM parseErr) with
    | some (files, []), some items, some errs => runSpec files items errs
    | some _, some _, none => "bad-op"
    | _, _, _ => "outsideModel"
  | _ => "bad-op"

def main : IO Unit := Proto.loop handle
