import Goyang.Model.Proto
import Goyang.Model.Identity
import Goyang.Spec.Identity
/-
Driver for identity resolution (C11).

  ident <oracle> <files in wire format>
      -> ok <item>* ; <error>*          every token hex encoded, items and errors sorted, errors de-duplicated
         item  = root>module:name=module:name,…      one per identity statement of every loaded (sub)module
                                                     (root = its name@latest-revision),
                                                     Values in model order
               | @root:node=declRoot>module:name~module:name,… | @root:node=-   identityref leaves/leaf-lists (direct, union
                                                     member, local typedef) as ToEntry(root) resolves them: object + list seen
         error = file:line:col:class
      -> linkfail <error>*              an include/import did not resolve (outside the C11 model)
      -> loaderr | fuel | outsideModel
  spec.ident <files in wire format> | <item>* ; <number of errors Go reported>
      -> holds | violates <hex reason> | outside <hex reason>
-/
open Goyang Goyang.Proto Goyang.Model

namespace Drv.Ident
open Goyang.Model.Identity

def sortStrings (l : List String) : List String := l.mergeSort (fun a b => decide (a ≤ b))

def dedup (l : List String) : List String := l.eraseDups

def vtxText (v : Vtx) : String := v.1 ++ ":" ++ v.2

/-- Name printed for the owner of `m`: `module(m).Name`, or `~belongs-to` when that module is absent. -/
def ownerText (r : Registry) (m : Mod) : String :=
  match r.owner m with
  | some ow => ow.name
  | none => "~" ++ (m.belongsTo?.getD "")

def identityItems (r : Registry) (res : Result) : List String :=
  r.mods.flatMap fun m =>
    (identities m).zipIdx.map fun (s, i) =>
      let v : Vtx := (ownerText r m, s.arg)
      let vals :=
        match res.dict.get? v.key with
        | some e => if e.root == m.seq && e.idx == i then res.vals e.vtx else []
        | none => []
      m.fullName ++ ">" ++ vtxText v ++ "=" ++ ",".intercalate (vals.map vtxText)

/-- `@root:node=declaringRoot>module:name~v,…`: the identity object the type points at (by the
(sub)module revision that declares it) and the list seen through it. -/
def leafItems (r : Registry) (res : Result) (leaves : List (String × String × Except Err DEntry)) : List String :=
  leaves.map fun (root, leaf, x) =>
    "@" ++ root ++ ":" ++ leaf ++ "=" ++
      (match x with
       | .ok e =>
         (match r.byId e.root with | some m => m.fullName | none => "?") ++ ">" ++ vtxText e.vtx ++ "~" ++
           ",".intercalate ((res.vals e.vtx).map vtxText)
       | .error _ => "-")

def encAll (l : List String) : String := String.join (l.map fun s => " " ++ encStr s)

def runIdent (oracle : Nat) (files : List SrcFile) : String :=
  match loadAll files with
  | .error _ => "loaderr"
  | .ok r =>
    match run (Oracle.ofNat oracle) r with
    | .outOfFuel => "fuel"
    | .linkFailed errs => "linkfail" ++ encAll (sortStrings (dedup (errs.map Err.render)))
    | .done res leaves =>
      let items := sortStrings (identityItems r res ++ leafItems r res leaves)
      let errs := sortStrings (dedup ((processErrs r res leaves).map Err.render))
      "ok" ++ encAll items ++ " ;" ++ encAll errs

/-! ### spec.ident -/

open Goyang.Spec.Identity in
def parseVertex (s : String) : Vertex :=
  match s.splitOn ":" with
  | m :: rest => (m, ":".intercalate rest)
  | [] => ("", s)

/-- `root>module:name=v,…` → (root, vertex, list) -/
def parseIdentityItem (s : String) : Option (String × (String × String) × List (String × String)) :=
  match s.splitOn ">" with
  | [root, rest] =>
    match rest.splitOn "=" with
    | [k, vs] => some (root, parseVertex k, if vs.isEmpty then [] else (vs.splitOn ",").map parseVertex)
    | _ => none
  | _ => none

/-- The list an identityref is seen to carry: (vertex, list) from `@k=root>module:name~v,…`. -/
def parseLeafSeen (s : String) : Option ((String × String) × List (String × String)) :=
  if s.startsWith "@" then
    match (s.drop 1).toString.splitOn "=" with
    | [_, v] =>
      match v.splitOn "~" with
      | [obj, vs] =>
        let vtx := match obj.splitOn ">" with
          | [_, x] => x
          | _ => obj
        some (parseVertex vtx, if vs.isEmpty then [] else (vs.splitOn ",").map parseVertex)
      | _ => none
    | _ => none
  else none

/-- `@root:node=declRoot>module:name~…` → (root:node, observed vertex) -/
def parseLeafItem (s : String) : Option (String × Option (String × String)) :=
  if s.startsWith "@" then
    match (s.drop 1).toString.splitOn "=" with
    | [k, v] =>
      -- v = declaringRoot>module:name~values
      let obj := ((v.splitOn "~").headD "")
      let vtx := match obj.splitOn ">" with
        | [_, x] => x
        | _ => obj
      some (k, if v == "-" then none else some (parseVertex vtx))
    | _ => none
  else none

open Goyang.Spec.Identity in
def runSpec (files : List SrcFile) (items : List String) (nErrors : Nat) : String :=
  match loadAll files with
  | .error _ => "outside " ++ encStr "the texts do not load"
  | .ok r =>
    match parts r, graph r with
    | some ps, some G =>
      let partNames := ps.map (·.fullName)
      let vals := (items.filterMap parseIdentityItem).filterMap fun (root, v, l) =>
        if partNames.contains root then some (v, l) else none
      -- the list seen through an identityref has to be the list of the identity it names
      let vals := vals ++ items.filterMap parseLeafSeen
      let leaves := items.filterMap parseLeafItem
      let rfs := (refs r).map fun (m, leaf, arg) =>
        (arg.bind (refTarget r G m), ((leaves.find? (·.1 == m.fullName ++ ":" ++ leaf)).bind (·.2)))
      match judge G vals rfs nErrors with
      | .holds => "holds"
      | .violates why => "violates " ++ encStr why
      | .outside why => "outside " ++ encStr why
    | _, _ => "outside " ++ encStr "closure did not finish"

def splitAt (sep : String) (l : List String) : List String × List String :=
  (l.takeWhile (· != sep), (l.dropWhile (· != sep)).drop 1)

def decAll (l : List String) : Option (List String) := l.mapM Wire.decStr

end Drv.Ident

open Drv.Ident in
def handle : List String → String
  | "ident" :: o :: rest =>
    match decNat o, Wire.decFiles (rest.length + 1) rest with
    | some o, some (files, []) => runIdent o files
    | _, _ => "outsideModel"
  | "spec.ident" :: rest =>
    let (wire, tail) := splitAt "|" rest
    let (itemsX, errsX) := splitAt ";" tail
    match Wire.decFiles (wire.length + 1) wire, decAll itemsX, errsX with
    | some (files, []), some items, [n] =>
      match decNat n with
      | some n => runSpec files items n
      | none => "bad-op"
    | _, _, _ => "outsideModel"
  | _ => "bad-op"

def main : IO Unit := Proto.loop handle
