import Goyang.Model.Proto
import Goyang.Model.Indent
import Goyang.Spec.Indent
/-
Driver for the indent model.
  indent <pre> <s>                          -> hex of indent.String(pre, s)
  spec.indent <pre> <s>                     -> hex of the byte-level rendering
  writes <pre> (<chunk> <accept>)*          -> reached ; n:err n:err ...     (accept = `-` success, else k with error)
  spec.count <pre> <atStart 0/1> <chunk> <k> -> number of caller bytes among the first k output bytes
  spec.writes <pre> (<chunk> <accept>)*     -> reached ; n:err ... | s s ...   what the specification asks of a
       history in which the caller goes on writing after short writes (Spec.Indent.history); s = line state
       after each call per the specification: 1 = at a line start, 0 = not, x = a cut inside a prefix (the
       answer stops at that call)
-/
open Goyang Goyang.Proto

def pairs : List String → Option (List (List UInt8 × Option Nat))
  | [] => some []
  | c :: a :: rest => do
    let cb ← decBytes c
    let u ← if a == "-" then some none else (decNat a).map some
    let r ← pairs rest
    some ((cb, u) :: r)
  | _ => none

def handle : List String → String
  | ["indent", p, s] =>
    match decBytes p, decBytes s with
    | some p, some s => encBytes (Model.Indent.indent p s)
    | _, _ => "bad-op"
  | ["spec.indent", p, s] =>
    match decBytes p, decBytes s with
    | some p, some s => encBytes (if p.isEmpty then s else Spec.Indent.render p true s)
    | _, _ => "bad-op"
  | "writes" :: p :: rest =>
    match decBytes p, pairs rest with
    | some p, some cs =>
      let (out, res) := Model.Indent.writes p false cs
      encBytes out ++ " ;" ++ String.join (res.map fun (n, e) => s!" {n}:{if e then 1 else 0}")
    | _, _ => "bad-op"
  | "spec.writes" :: p :: rest =>
    match decBytes p, pairs rest with
    | some p, some cs =>
      let (out, res) := Spec.Indent.history p true cs
      encBytes out ++ " ;" ++ String.join (res.map fun (n, e, _) => s!" {n}:{if e then 1 else 0}") ++ " |" ++
        String.join (res.map fun (_, _, st) => match st with | none => " x" | some true => " 1" | some false => " 0")
    | _, _ => "bad-op"
  | "nested" :: p1 :: p2 :: rest =>
    -- nested <inner prefix> <outer prefix> (<chunk> <o|i>)*   (o = Write on the outer writer)
    let rec ops : List String → Option (List (Bool × List UInt8))
      | [] => some []
      | c :: w :: r => do
        let cb ← decBytes c
        let tl ← ops r
        some ((w == "o", cb) :: tl)
      | _ => none
    match decBytes p1, decBytes p2, ops rest with
    | some p1, some p2, some l =>
      let (out, res) := Model.Indent.nestedWrites p1 p2 false false l
      encBytes out ++ " ;" ++ String.join (res.map fun n => s!" {n}")
    | _, _, _ => "bad-op"
  | ["spec.count", p, st, c, k] =>
    match decBytes p, decNat st, decBytes c, decNat k with
    | some p, some st, some c, some k => toString (Spec.Indent.callerBytesIn p (st == 1) c k)
    | _, _, _, _ => "bad-op"
  | _ => "bad-op"

def main : IO Unit := Proto.loop handle
