/-
Driver for the lexer/parser model and the reference reader (C02, C16).

  parse <file hex> <text hex>        impl model `Goyang.Model.Parse.parseText`
  spec.parse <file hex> <text hex>   reference reader `Goyang.Spec.Parse.parse`
  spec.pos <text hex> <byte offset>  `line col` of the character starting at that byte, from the text alone
  spec.marks <text hex>              what an error line may point at (`Goyang.Spec.Parse.marks`):
                                     space separated <kind><line>:<col>, kind ∈ t b e q d c

Answers (one line, the same serialisation for both readers):

  ok <F> <n> <stmt>…      F = 1 iff every statement carries the request's file name; n top-level statements;
                          stmt = <keyword hex>/<0|1 has argument>/<argument hex>/<line>/<col>/<k>  followed by
                          its k substatements (pre-order); `-` is the empty byte string
  rej <n> <err>…          err = <line>:<col>:<class> as printed by Go (`-:-:<class>` when no line:col is printed);
                          class ∈ sq dq cmt nonl esc many rbrace kw semi eof braces<N>; in the order written.
                          `spec.parse` answers a bare `rej` (the reference reader has no error messages)
  fault crash|outOfFuel   the model reached a state the Go code cannot be in (never happens; proved)
  inadmissible            spec.parse only: the text contains a construct the property excludes
  illformed               spec.parse / spec.pos only: the bytes are not valid UTF-8
-/
import Goyang.Model.Proto
import Goyang.Model.Parse
import Goyang.Spec.Parse

open Goyang Goyang.Proto
open Goyang.Model

def showCls : Lex.ErrClass → String
  | .missingSQuote => "sq"
  | .missingDQuote => "dq"
  | .missingCommentEnd => "cmt"
  | .noNewline => "nonl"
  | .invalidEscape => "esc"
  | .tooMany => "many"
  | .unexpectedRBrace => "rbrace"
  | .keywordNotUnquoted => "kw"
  | .expectedSemiOrBrace => "semi"
  | .unexpectedEOF => "eof"
  | .missingBraces n => s!"braces{n}"

def showErr (e : Lex.ErrLine) : String :=
  match e.pos with
  | some (l, c) => s!"{l}:{c}:{showCls e.cls}"
  | none => s!"-:-:{showCls e.cls}"

mutual
def showStmt : Parse.Statement → String
  | ⟨kw, has, arg, _, line, col, subs⟩ =>
    s!"{encBytes kw}/{if has then 1 else 0}/{encBytes arg}/{line}/{col}/{subs.length}" ++ showStmts subs
def showStmts : List Parse.Statement → String
  | [] => ""
  | s :: r => " " ++ showStmt s ++ showStmts r
end

mutual
def allFile (file : List UInt8) : Parse.Statement → Bool
  | ⟨_, _, _, f, _, _, subs⟩ => f == file && allFiles file subs
def allFiles (file : List UInt8) : List Parse.Statement → Bool
  | [] => true
  | s :: r => allFile file s && allFiles file r
end

def showResult (file : List UInt8) : Parse.ParseResult → String
  | .ok forest =>
    s!"ok {if allFiles file forest then 1 else 0} {forest.length}" ++ showStmts forest
  | .rejected errs => s!"rej {errs.length}" ++ String.join (errs.map fun e => " " ++ showErr e)
  | .fault .crash => "fault crash"
  | .fault _ => "fault outOfFuel"

def encChars (cs : List Char) : List UInt8 := cs.flatMap fun c => Utf8.encodeRune c.toNat

mutual
def showSpecStmt : Spec.Parse.Stmt → String
  | ⟨kw, arg, line, col, subs⟩ =>
    let (has, a) := match arg with
      | some a => (1, encChars a)
      | none => (0, [])
    s!"{encBytes (encChars kw)}/{has}/{encBytes a}/{line}/{col}/{subs.length}" ++ showSpecStmts subs
def showSpecStmts : List Spec.Parse.Stmt → String
  | [] => ""
  | s :: r => " " ++ showSpecStmt s ++ showSpecStmts r
end

def decodeText (bs : List UInt8) : Option (List Char) :=
  if Utf8.valid bs then some ((Utf8.runes bs).map Char.ofNat) else none

def handle : List String → String
  | ["parse", f, t] =>
    match decBytes f, decBytes t with
    | some f, some t => showResult f (Parse.parseText f t)
    | _, _ => "bad-op"
  | ["spec.parse", f, t] =>
    match decBytes f, decBytes t with
    | some _, some t =>
      match decodeText t with
      | none => "illformed"
      | some cs =>
        if !Spec.Parse.Admissible cs then "inadmissible"
        else match Spec.Parse.parse cs with
          | none => "rej"
          | some forest => s!"ok 1 {forest.length}" ++ showSpecStmts forest
    | _, _ => "bad-op"
  | ["spec.pos", t, off] =>
    match decBytes t, decNat off with
    | some t, some off =>
      match decodeText t, decodeText (t.take off) with
      | some cs, some pre => s!"{Spec.Parse.lineOf cs pre.length} {Spec.Parse.colOf cs pre.length}"
      | _, _ => "illformed"
    | _, _ => "bad-op"
  | ["spec.marks", t] =>
    match decBytes t with
    | some t =>
      match decodeText t with
      | some cs =>
        let ms := Spec.Parse.marks cs.length (cs.length + 1) cs
        String.intercalate " " (ms.map fun (k, o) => s!"{k}{Spec.Parse.lineOf cs o}:{Spec.Parse.colOf cs o}")
      | none => "illformed"
    | none => "bad-op"
  | _ => "bad-op"

def main : IO Unit := Proto.loop handle
