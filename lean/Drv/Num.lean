import Goyang.Model.Proto
import Goyang.Model.Number
import Goyang.Spec.Number
/-
Driver for the number model.  A number travels as three fields `value fd neg` (neg = 0/1).
  num.less  n m          -> 1 | 0 | panic              (Number.Less)
  num.equal n m          -> 1 | 0 | panic              (Number.Equal)
  num.trunc n            -> nat | panic                (Number.Trunc)
  num.str n              -> hex | panic                (Number.String)
  num.int n              -> ok <int> | err <class>     (Number.Int)
  num.fromint <int>      -> value fd neg               (FromInt)
  num.fromuint <nat>     -> value fd neg               (FromUint)
  num.parseint <hex>     -> ok value fd neg | err <class>   (ParseInt)
  num.parsedec <hex> <fd>-> ok value fd neg | err <class>   (ParseDecimal)
  num.asrange <hex|nil> <min> <max> -> ok <int> | err <class>   ((*Value).asRangeInt)
  num.addq n <i>         -> value fd neg               (addQuantum)
  num.roundtrip n        -> panic | ok value fd neg | err <class>   (ParseInt(n.String()) for fd = 0, else ParseDecimal(n.String(), fd))
  num.cmprow n m1 m2 ... -> per m four characters: Less(n,m) Equal(n,m) (1|0|p), then spec lt, spec eq (1|0)
  spec.less n m / spec.equal n m -> 1 | 0              (exact comparison of denotations)
  spec.int n             -> ok <int> | err             (exact conversion)
  spec.str n <hex>       -> 1 | 0   (the string is a literal `[-]digits[.digits]` denoting ⟦n⟧ with at most fd fraction digits)
  spec.parsedec <hex> <fd> -> na | ok value fd neg | err    (na: not of the form [sign] digits [. digits])
  spec.parseint <hex>    -> na | ok value fd neg | err      (na: not [sign] digits without superfluous leading zeros)
-/
open Goyang Goyang.Proto
open Goyang.Model.Number

def decNum (v fd neg : String) : Option Number := do
  let v ← decNat v
  let fd ← decNat fd
  let neg ← decNat neg
  some { value := v, fd := fd, neg := neg == 1 }

def showNum (n : Number) : String := s!"{n.value} {n.fd} {if n.neg then 1 else 0}"

def showOB : Option Bool → String
  | none => "panic"
  | some true => "1"
  | some false => "0"

def showB (b : Bool) : String := if b then "1" else "0"

def showEN : Except NumErr Number → String
  | .ok n => "ok " ++ showNum n
  | .error e => "err " ++ e.name

def showEI : Except NumErr Int → String
  | .ok i => s!"ok {i}"
  | .error e => "err " ++ e.name

def showON : Option Number → String
  | some n => "ok " ++ showNum n
  | none => "err"

def obChar : Option Bool → Char
  | none => 'p'
  | some true => '1'
  | some false => '0'

def cmpRow (n : Number) : List String → List Char → Option (List Char)
  | [], acc => some acc.reverse
  | a :: b :: c :: rest, acc =>
    match decNum a b c with
    | some m =>
      cmpRow n rest ((if decide (Spec.Number.eq n m) then '1' else '0') :: (if decide (Spec.Number.lt n m) then '1' else '0')
        :: obChar (equal? n m) :: obChar (less? n m) :: acc)
    | none => none
  | _, _ => none

def handle : List String → String
  | "num.cmprow" :: a :: b :: c :: rest =>
    match decNum a b c with
    | some n => match cmpRow n rest [] with | some cs => String.ofList cs | none => "bad-op"
    | none => "bad-op"
  | ["num.roundtrip", a, b, c] =>
    match decNum a b c with
    | some n =>
      match toStr? n with
      | none => "panic"
      | some s => showEN (if n.fd = 0 then parseInt s else parseDecimal s n.fd)
    | _ => "bad-op"
  | ["num.less", a, b, c, d, e, f] =>
    match decNum a b c, decNum d e f with
    | some n, some m => showOB (less? n m)
    | _, _ => "bad-op"
  | ["num.equal", a, b, c, d, e, f] =>
    match decNum a b c, decNum d e f with
    | some n, some m => showOB (equal? n m)
    | _, _ => "bad-op"
  | ["num.trunc", a, b, c] =>
    match decNum a b c with
    | some n => if truncPanics n then "panic" else toString (trunc n)
    | _ => "bad-op"
  | ["num.str", a, b, c] =>
    match decNum a b c with
    | some n => match toStr? n with | some s => encBytes s | none => "panic"
    | _ => "bad-op"
  | ["num.int", a, b, c] =>
    match decNum a b c with
    | some n => showEI (toInt n)
    | _ => "bad-op"
  | ["num.fromint", i] =>
    match decInt i with
    | some i => showNum (fromInt i)
    | _ => "bad-op"
  | ["num.fromuint", u] =>
    match decNat u with
    | some u => showNum (fromUint u)
    | _ => "bad-op"
  | ["num.parseint", s] =>
    match decBytes s with
    | some s => showEN (parseInt s)
    | _ => "bad-op"
  | ["num.parsedec", s, fd] =>
    match decBytes s, decNat fd with
    | some s, some fd => showEN (parseDecimal s fd)
    | _, _ => "bad-op"
  | ["num.asrange", s, lo, hi] =>
    match (if s == "nil" then some none else (decBytes s).map some), decInt lo, decInt hi with
    | some v, some lo, some hi => showEI (asRangeInt v lo hi)
    | _, _, _ => "bad-op"
  | ["num.addq", a, b, c, i] =>
    match decNum a b c, decNat i with
    | some n, some i => showNum (addQuantum n i)
    | _, _ => "bad-op"
  | ["spec.less", a, b, c, d, e, f] =>
    match decNum a b c, decNum d e f with
    | some n, some m => showB (decide (Spec.Number.lt n m))
    | _, _ => "bad-op"
  | ["spec.equal", a, b, c, d, e, f] =>
    match decNum a b c, decNum d e f with
    | some n, some m => showB (decide (Spec.Number.eq n m))
    | _, _ => "bad-op"
  | ["spec.int", a, b, c] =>
    match decNum a b c with
    | some n => match Spec.Number.toInt64 n with | some i => s!"ok {i}" | none => "err"
    | _ => "bad-op"
  | ["spec.str", a, b, c, s] =>
    match decNum a b c, decBytes s with
    | some n, some s =>
      match Spec.Number.readLit s with
      | some l =>
        showB (decide (l.proper ∧ l.sign ≠ some false ∧ l.scale ≤ n.fd ∧ (n.fd = 0 → l.fp = none) ∧
          l.num * (10 : Int) ^ n.fd = Spec.Number.num n * (10 : Int) ^ l.scale))
      | none => "0"
    | _, _ => "bad-op"
  | ["spec.parsedec", s, fd] =>
    match decBytes s, decNat fd with
    | some s, some fd =>
      match Spec.Number.readLit s with
      | some l => if l.proper ∧ 1 ≤ fd ∧ fd ≤ 18 then showON (Spec.Number.parseDecimalSpec l fd) else "na"
      | none => "na"
    | _, _ => "bad-op"
  | ["spec.parseint", s] =>
    match decBytes s with
    | some s =>
      match Spec.Number.readLit s with
      | some l => if l.proper ∧ l.fp = none ∧ l.noLeadingZero then showON (Spec.Number.parseIntSpec l) else "na"
      | none => "na"
    | _ => "bad-op"
  | _ => "bad-op"

def main : IO Unit := Proto.loop handle
