import Goyang.Model.Proto
import Goyang.Model.Number
import Goyang.Model.Range
import Goyang.Spec.Range
/-
Driver for the range model.

A range list travels as one field: `-` for the empty list, else parts joined by `,`, a part is
`min~max`, a number is `value/fd/neg` (neg = 0/1).  A base is `none` (empty parent, the receiver of
ParseRangesInt/Decimal), `nil` (no length yet: parent is Uint64Range), a built-in name `int8` … `uint64`,
`dec` (the decimal64 range at the given fraction-digits) or `raw:<range list>`.

  base <base> <fd>                       -> <range list> <hex of String()>
  chain <base> <dec 0/1> <fd> <hex>...   -> per restriction `ok <range list> <hex of String()>` | `err <class>`,
                                            joined by ` ; `, stops after the first error   (types.go range overlay,
                                            with base none: ParseRangesInt / ParseRangesDecimal)
  lenchain <base> <hex>...               -> the same for length restrictions (base nil or raw:…)
  contains <A> <B>                       -> 1 | 0      (A.Contains(B))
  equal <A> <B>                          -> 1 | 0      (A.Equal(B))
  validate <A>                           -> ok | err <class>
  sort <A>                               -> <range list>      (A.Sort(), at most 12 parts: insertion sort)
  str <A>                                -> hex of A.String()
  spec.step <parent: none | range list> <mode: int|dec|len> <fd> <hex> <outcome: err | range list>
                                         -> holds | violates:<why>    (the specification on an observed outcome)
  spec.contains <A> <B>                  -> 1 | 0 | na   (A = [] or ⟦B⟧ ⊆ ⟦A⟧; na unless both are sorted-disjoint-coalesced)
  spec.sdc <A>                           -> 1 | 0
-/
open Goyang Goyang.Proto
open Goyang.Model.Number
open Goyang.Model.Range

def decNumF (s : String) : Option Number :=
  match s.splitOn "/" with
  | [v, fd, neg] => do
    let v ← decNat v
    let fd ← decNat fd
    let neg ← decNat neg
    some { value := v, fd := fd, neg := neg == 1 }
  | _ => none

def decPart (s : String) : Option YRange :=
  match s.splitOn "~" with
  | [a, b] => do
    let a ← decNumF a
    let b ← decNumF b
    some { min := a, max := b }
  | _ => none

def decRange (s : String) : Option YangRange :=
  if s == "-" then some [] else (s.splitOn ",").mapM decPart

def showNumF (n : Number) : String := s!"{n.value}/{n.fd}/{if n.neg then 1 else 0}"

def showRange (r : YangRange) : String :=
  if r.isEmpty then "-" else ",".intercalate (r.map fun p => showNumF p.min ++ "~" ++ showNumF p.max)

def showFull (r : YangRange) : String := showRange r ++ " " ++ encBytes (toStr r)

def builtinRange (name : String) : Option YangRange :=
  match name with
  | "int8" => some int8Range | "int16" => some int16Range | "int32" => some int32Range
  | "int64" => some int64Range | "uint8" => some uint8Range | "uint16" => some uint16Range
  | "uint32" => some uint32Range | "uint64" => some uint64Range
  | _ => none

def decBase (b : String) (fd : Nat) : Option YangRange :=
  if b == "none" || b == "nil" then some []
  else if b == "dec" then some (decimalBase fd)
  else if b.startsWith "raw:" then decRange (b.drop 4).toString
  else builtinRange b

def showSteps (l : List (YangRange × Option RangeErr)) : String :=
  " ; ".intercalate (l.map fun (r, e) => match e with
    | some e => "err " ++ e.name
    | none => "ok " ++ showFull r)

def showB (b : Bool) : String := if b then "1" else "0"

def absRange (r : YangRange) : List Spec.Range.Iv := r.map fun p => (Spec.Number.num p.min, Spec.Number.num p.max)

/-- all numbers have `fd` fraction digits and a 64-bit magnitude -/
def uniform (fd : Nat) (r : YangRange) : Bool :=
  r.all fun p => p.min.fd == fd && p.max.fd == fd && decide (p.min.value < W) && decide (p.max.value < W)

def showIvs (ivs : List Spec.Range.Iv) : String :=
  "|".intercalate (ivs.map fun r => s!"{r.1}..{r.2}")

def specStep (parent : Option YangRange) (mode : String) (fd : Nat) (s : List UInt8) (out : Option YangRange) : String :=
  let dec := mode == "dec"
  let f := if dec then fd else 0
  let w := Spec.Range.read (Spec.Range.lit dec f) s
  let p := parent.map absRange
  match out with
  | some o =>
    if !uniform f o then "violates:result is not at the scale of the type"
    else if Spec.Range.conforms p w (some (absRange o)) then "holds"
    else
      match w with
      | none => "violates:accepted although syntactically invalid"
      | some w =>
        match Spec.Range.mustAccept p w with
        | none => "violates:accepted although a part is out of order, outside the parent's set or uses min/max without a parent"
        | some ivs =>
          if !Spec.Range.sdcB (absRange o) then "violates:result is not sorted, disjoint and coalesced"
          else "violates:result does not denote the written set " ++ showIvs ivs
  | none =>
    if Spec.Range.conforms p w none then "holds"
    -- RFC 7950 length-arg has no negative literals: rejecting a length text with a minus sign is permitted
    else if mode == "len" && s.contains 45 then "holds"
    else "violates:rejected although well-formed, ordered and within the parent's set"

def handle : List String → String
  | ["base", name, fd] =>
    match decNat fd with
    | some fd => match decBase name fd with | some r => showFull r | none => "bad-op"
    | none => "bad-op"
  | "chain" :: base :: dec :: fd :: rest =>
    match decNat dec, decNat fd, rest.mapM decBytes with
    | some dec, some fd, some ss =>
      match decBase base fd with
      | some y => showSteps (rangeChain (dec == 1) fd y ss)
      | none => "bad-op"
    | _, _, _ => "bad-op"
  | "lenchain" :: base :: rest =>
    match decBase base 0, rest.mapM decBytes with
    | some y, some ss => showSteps (lengthChain y ss)
    | _, _ => "bad-op"
  | ["contains", a, b] =>
    match decRange a, decRange b with
    | some a, some b => showB (contains a b)
    | _, _ => "bad-op"
  | ["equal", a, b] =>
    match decRange a, decRange b with
    | some a, some b => showB (equal a b)
    | _, _ => "bad-op"
  | ["validate", a] =>
    match decRange a with
    | some a => match validate a with | none => "ok" | some e => "err " ++ e.name
    | _ => "bad-op"
  | ["sort", a] =>
    match decRange a with
    | some a => showRange (sort a)
    | _ => "bad-op"
  | ["str", a] =>
    match decRange a with
    | some a => encBytes (toStr a)
    | _ => "bad-op"
  | ["spec.step", parent, mode, fd, s, out] =>
    match (if parent == "none" then some none else (decRange parent).map some), decNat fd, decBytes s,
          (if out == "err" then some none else (decRange out).map some) with
    | some parent, some fd, some s, some out => specStep parent mode fd s out
    | _, _, _, _ => "bad-op"
  | ["spec.contains", a, b] =>
    match decRange a, decRange b with
    | some a, some b =>
      if Spec.Range.sdcB (absRange a) && Spec.Range.sdcB (absRange b) then
        showB (a.isEmpty || Spec.Range.subsetB (absRange b) (absRange a))
      else "na"
    | _, _ => "bad-op"
  | ["spec.sdc", a] =>
    match decRange a with
    | some a => showB (Spec.Range.sdcB (absRange a))
    | _ => "bad-op"
  | _ => "bad-op"

def main : IO Unit := Proto.loop handle
