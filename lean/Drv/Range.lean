import Goyang.Model.Proto
import Goyang.Model.Number
import Goyang.Model.Range
import Goyang.Spec.Range
/-
Driver for the range model.

A range list travels as one field: `-` for the empty list, else parts joined by `,`, a part is
`min~max`, a number is `value/fd/neg` (neg = 0/1).  A base is `none` (empty parent, the receiver of
ParseRangesInt/Decimal), `nil` (no length yet: parent is Uint64Range), a built-in name `int8` … `uint64`,
`dec` (the decimal64 range at the given fraction-digits) or `raw:<range list>`.

  base <base> <fd>                       -> <range list> <hex of String()>
  chain <base> <dec 0/1> <fd> <hex>...   -> per restriction `ok <range list> <hex of String()>` | `err <class>`,
                                            joined by ` ; `, stops after the first error   (types.go range overlay,
                                            with base none: ParseRangesInt / ParseRangesDecimal)
  lenchain <base> <hex>...               -> the same for length restrictions (base nil or raw:…)
  contains <A> <B>                       -> 1 | 0      (A.Contains(B))
  equal <A> <B>                          -> 1 | 0      (A.Equal(B))
  validate <A>                           -> ok | err <class>
  sort <A>                               -> <range list>      (A.Sort(), at most 12 parts: insertion sort)
  str <A>                                -> hex of A.String()
  spec.step <parent: none | range list> <mode: int|dec|len> <fd> <hex> <outcome: err | range list>
                                         -> holds | violates:<why>    (the specification on an observed outcome)
  spec.written <parent> <mode> <fd> <hex> <outcome>
                                         -> holds | violates:<why> | na   (the same judgement as spec.step, but every literal is
                                            read by its *written value* in exact arithmetic — `Written.lit`, which shares nothing
                                            with the model's digit loops, 64-bit words or fraction-digit counter; na when a
                                            boundary is not a plain `[sign] digits [. digits]` literal or min / max)
  spec.contains <A> <B>                  -> 1 | 0 | na   (A = [] or ⟦B⟧ ⊆ ⟦A⟧; na unless both are sorted-disjoint-coalesced)
  spec.sdc <A>                           -> 1 | 0
-/
open Goyang Goyang.Proto
open Goyang.Model.Number
open Goyang.Model.Range

def decNumF (s : String) : Option Number :=
  match s.splitOn "/" with
  | [v, fd, neg] => do
    let v ← decNat v
    let fd ← decNat fd
    let neg ← decNat neg
    some { value := v, fd := fd, neg := neg == 1 }
  | _ => none

def decPart (s : String) : Option YRange :=
  match s.splitOn "~" with
  | [a, b] => do
    let a ← decNumF a
    let b ← decNumF b
    some { min := a, max := b }
  | _ => none

def decRange (s : String) : Option YangRange :=
  if s == "-" then some [] else (s.splitOn ",").mapM decPart

def showNumF (n : Number) : String := s!"{n.value}/{n.fd}/{if n.neg then 1 else 0}"

def showRange (r : YangRange) : String :=
  if r.isEmpty then "-" else ",".intercalate (r.map fun p => showNumF p.min ++ "~" ++ showNumF p.max)

def showFull (r : YangRange) : String := showRange r ++ " " ++ encBytes (toStr r)

def builtinRange (name : String) : Option YangRange :=
  match name with
  | "int8" => some int8Range | "int16" => some int16Range | "int32" => some int32Range
  | "int64" => some int64Range | "uint8" => some uint8Range | "uint16" => some uint16Range
  | "uint32" => some uint32Range | "uint64" => some uint64Range
  | _ => none

def decBase (b : String) (fd : Nat) : Option YangRange :=
  if b == "none" || b == "nil" then some []
  else if b == "dec" then some (decimalBase fd)
  else if b.startsWith "raw:" then decRange (b.drop 4).toString
  else builtinRange b

def showSteps (l : List (YangRange × Option RangeErr)) : String :=
  " ; ".intercalate (l.map fun (r, e) => match e with
    | some e => "err " ++ e.name
    | none => "ok " ++ showFull r)

def showB (b : Bool) : String := if b then "1" else "0"

def absRange (r : YangRange) : List Spec.Range.Iv := r.map fun p => (Spec.Number.num p.min, Spec.Number.num p.max)

/-- all numbers have `fd` fraction digits and a 64-bit magnitude -/
def uniform (fd : Nat) (r : YangRange) : Bool :=
  r.all fun p => p.min.fd == fd && p.max.fd == fd && decide (p.min.value < W) && decide (p.max.value < W)

def showIvs (ivs : List Spec.Range.Iv) : String :=
  "|".intercalate (ivs.map fun r => s!"{r.1}..{r.2}")

def specStepWith (lit : List UInt8 → Option Int) (parent : Option YangRange) (mode : String) (f : Nat) (s : List UInt8)
    (out : Option YangRange) : String :=
  let w := Spec.Range.read lit s
  let p := parent.map absRange
  match out with
  | some o =>
    if !uniform f o then "violates:result is not at the scale of the type"
    else if Spec.Range.conforms p w (some (absRange o)) then "holds"
    else
      match w with
      | none => "violates:accepted although syntactically invalid"
      | some w =>
        match Spec.Range.mustAccept p w with
        | none => "violates:accepted although a part is out of order, outside the parent's set or uses min/max without a parent"
        | some ivs =>
          if !Spec.Range.sdcB (absRange o) then "violates:result is not sorted, disjoint and coalesced"
          else "violates:result does not denote the written set " ++ showIvs ivs
  | none =>
    if Spec.Range.conforms p w none then "holds"
    -- RFC 7950 length-arg has no negative literals: rejecting a length text with a minus sign is permitted
    else if mode == "len" && s.contains 45 then "holds"
    else "violates:rejected although well-formed, ordered and within the parent's set"

/-- The literal syntax of a boundary, stated on the characters alone (the token arrives trimmed; `min` / `max` are
recognised before): a decimal64 bound is `[sign] digits [ "." digits ]` - at most one sign, in front, at most ONE
point, nothing but digits otherwise (the Go code lets either digit string be empty, DESIGN 7.10); an integer or
length bound has no point at all.  Whatever else is written is syntactically invalid, whatever a parser makes of it. -/
def boundShape (dec : Bool) (t : List UInt8) : Bool :=
  if dec then (Goyang.Spec.Number.readLit t).isSome else !t.contains 46

/-- the literal reader of `spec.step`: the shape is checked first, the value is read only of a token of that shape -/
def shapedLit (dec : Bool) (f : Nat) (t : List UInt8) : Option Int :=
  if boundShape dec t then Spec.Range.lit dec f t else none

def specStep (parent : Option YangRange) (mode : String) (fd : Nat) (s : List UInt8) (out : Option YangRange) : String :=
  let dec := mode == "dec"
  let f := if dec then fd else 0
  specStepWith (shapedLit dec f) parent mode f s out

/-! ### literals by their written value

An independent reading of plain literals `[sign] digits [. digits]` (`Spec.Number.readLit`), in exact
arithmetic on unbounded naturals: no digit loop with overflow tests, no 64-bit word, no counter that could
wrap, whatever the length of the literal.  Leading zeros are dropped before the digits are evaluated (they
do not change the value), and more than 40 remaining digits are more than any 64-bit magnitude.

* decimal64 at `f` fraction digits (`Spec.Number.parseDecimalSpec`): at most `f` digits may be written after
  the point, the value scaled by `10^f` must be a signed 64-bit integer;
* integers and lengths, in the base-0 syntax the Go code documents: no fraction part; an integer part with a
  superfluous leading zero is octal (a digit 8 or 9 in it is invalid); the magnitude must be below 2^64.

Literals with an empty integer or fraction part (`.5`, `5.`, `.`), base prefixes and underscores are not
judged here (`judged`): `spec.step` is the judgement for those. -/
namespace Written
open Goyang.Spec.Number (Lit readLit digitsVal)

def plainChars (t : List UInt8) : Bool :=
  t.all fun c => c == 43 || c == 45 || c == 46 || (48 ≤ c.toNat && c.toNat ≤ 57)

/-- value of a decimal digit string of any length (`none`: at least 10^40) -/
def magnitude (ds : List Nat) : Option Nat :=
  let ds := ds.dropWhile (· == 0)
  if ds.length > 40 then none else some (digitsVal ds)

def octal (ds : List Nat) : Option Nat :=
  let ds := ds.dropWhile (· == 0)
  if ds.any (· ≥ 8) then none
  else if ds.length > 40 then none
  else some (ds.foldl (fun a d => a * 8 + d) 0)

def signed (neg : Bool) (m : Nat) : Int := if neg then -(m : Int) else (m : Int)

def litInt (l : Lit) : Option Int :=
  if l.fp.isSome then none
  else
    let m := if l.ip.length ≤ 1 || l.ip.head? != some 0 then magnitude l.ip else octal l.ip
    match m with
    | some m => if m < 2 ^ 64 then some (signed l.neg m) else none
    | none => none

def litDec (f : Nat) (l : Lit) : Option Int :=
  if l.scale > f then none
  else
    match magnitude (l.ip ++ l.fp.getD []) with
    | some m0 =>
      let m := m0 * 10 ^ (f - l.scale)
      if (if l.neg then m ≤ 2 ^ 63 else m < 2 ^ 63) then some (signed l.neg m) else none
    | none => none

/-- the literal reader handed to `Spec.Range.read` (the token arrives trimmed) -/
def lit (dec : Bool) (f : Nat) (t : List UInt8) : Option Int :=
  match readLit t with
  | some l => if dec then litDec f l else litInt l
  | none => none

/-- is this boundary judged by its written value: a keyword, or made of sign, digit and point characters only
and, when it has the shape of a literal, with both digit strings non-empty -/
def judgedBound (t : List UInt8) : Bool :=
  let t := Spec.Range.trim t
  t == Spec.Range.kwMin || t == Spec.Range.kwMax ||
    (plainChars t && match readLit t with
      | some l => !l.ip.isEmpty && l.fp != some []
      | none => true)

def judged (s : List UInt8) : Bool :=
  (Spec.Range.splitOn Spec.Range.sepBar s).all fun p =>
    (Spec.Range.splitOn Spec.Range.sepDots p).all judgedBound

end Written

def specWritten (parent : Option YangRange) (mode : String) (fd : Nat) (s : List UInt8) (out : Option YangRange) : String :=
  let dec := mode == "dec"
  let f := if dec then fd else 0
  if !Written.judged s then "na" else specStepWith (Written.lit dec f) parent mode f s out

def handle : List String → String
  | ["base", name, fd] =>
    match decNat fd with
    | some fd => match decBase name fd with | some r => showFull r | none => "bad-op"
    | none => "bad-op"
  | "chain" :: base :: dec :: fd :: rest =>
    match decNat dec, decNat fd, rest.mapM decBytes with
    | some dec, some fd, some ss =>
      match decBase base fd with
      | some y => showSteps (rangeChain (dec == 1) fd y ss)
      | none => "bad-op"
    | _, _, _ => "bad-op"
  | "lenchain" :: base :: rest =>
    match decBase base 0, rest.mapM decBytes with
    | some y, some ss => showSteps (lengthChain y ss)
    | _, _ => "bad-op"
  | ["contains", a, b] =>
    match decRange a, decRange b with
    | some a, some b => showB (contains a b)
    | _, _ => "bad-op"
  | ["equal", a, b] =>
    match decRange a, decRange b with
    | some a, some b => showB (equal a b)
    | _, _ => "bad-op"
  | ["validate", a] =>
    match decRange a with
    | some a => match validate a with | none => "ok" | some e => "err " ++ e.name
    | _ => "bad-op"
  | ["sort", a] =>
    match decRange a with
    | some a => showRange (sort a)
    | _ => "bad-op"
  | ["str", a] =>
    match decRange a with
    | some a => encBytes (toStr a)
    | _ => "bad-op"
  | ["spec.step", parent, mode, fd, s, out] =>
    match (if parent == "none" then some none else (decRange parent).map some), decNat fd, decBytes s,
          (if out == "err" then some none else (decRange out).map some) with
    | some parent, some fd, some s, some out => specStep parent mode fd s out
    | _, _, _, _ => "bad-op"
  | ["spec.written", parent, mode, fd, s, out] =>
    match (if parent == "none" then some none else (decRange parent).map some), decNat fd, decBytes s,
          (if out == "err" then some none else (decRange out).map some) with
    | some parent, some fd, some s, some out => specWritten parent mode fd s out
    | _, _, _, _ => "bad-op"
  | ["spec.contains", a, b] =>
    match decRange a, decRange b with
    | some a, some b =>
      if Spec.Range.sdcB (absRange a) && Spec.Range.sdcB (absRange b) then
        showB (a.isEmpty || Spec.Range.subsetB (absRange b) (absRange a))
      else "na"
    | _, _ => "bad-op"
  | ["spec.sdc", a] =>
    match decRange a with
    | some a => showB (Spec.Range.sdcB (absRange a))
    | _ => "bad-op"
  | _ => "bad-op"

def main : IO Unit := Proto.loop handle
