import Goyang.Model.Proto
import Goyang.Model.Ctx
import Goyang.Model.File
import Goyang.Spec.Registry
import Goyang.Spec.File
/-
Driver for C13 (a) registry / revision binding and (b) the file chooser.

  registry <load>* <query>*
      load  = ("m" | "s" | "+m" | "+s") name file k rev*k     module / submodule header, loaded from `file`;
              with `+` it is a further statement of the same text as the load before it (one Parse call
              per text: all of its statements are added, or none)
      query = ("imp" | "inc") name (rev | "~")  import / include, with or without revision-date
    -> loads=<ok|dup|badname per text>,… modules=<key:file#position in text:fullName>,… subs=… q=<file:fullName|nil>,…
       (hex fields; bindings sorted by hex key; `-` for an empty list)
  spec.registry <same>   -> the same line computed by Goyang.Spec.Registry from the headers
       (`undef` where revisions are not dates, `*` for a query about which the property is silent)
  find <tree> | <path entry>* | <name>   -> file <returned name> <ms.Path afterwards,…> | none | outside
       tree = "f" | "[" (name tree)* "]"
  spec.find <tree> | <path entry>* | <name> -> some <chosen name> | none | outside | na (not a module name)
  paths <tree> | <start>                 -> paths <dir>,… | outside
-/
open Goyang Goyang.Proto Goyang.Model

namespace Drv.Registry

def commaJoin (xs : List String) : String := if xs.isEmpty then "-" else ",".intercalate xs

/-! ### registry -/

structure Load where
  sub : Bool
  name : String
  file : String
  revs : List String
  /-- continues the text of the load before it (`+m` / `+s`) -/
  cont : Bool := false
  /-- position among the statements of its text -/
  idx : Nat := 0

inductive Query where
  | mk (isInclude : Bool) (name : String) (rev : Option String)

def takeStrs : Nat → List String → Option (List String × List String)
  | 0, rest => some ([], rest)
  | n + 1, x :: rest => do
    let s ← Wire.decStr x
    let (ss, rest) ← takeStrs n rest
    some (s :: ss, rest)
  | _ + 1, [] => none

def parseReq : Nat → List String → Option (List Load × List Query)
  | _, [] => some ([], [])
  | 0, _ => none
  | fuel + 1, kind :: namex :: rest =>
    if kind == "m" || kind == "s" || kind == "+m" || kind == "+s" then
      match rest with
      | filex :: kx :: rest => do
        let name ← Wire.decStr namex
        let file ← Wire.decStr filex
        let k ← decNat kx
        let (revs, rest) ← takeStrs k rest
        let (ls, qs) ← parseReq fuel rest
        some ({ sub := kind == "s" || kind == "+s", name, file, revs, cont := kind.startsWith "+" } :: ls, qs)
      | _ => none
    else if kind == "imp" || kind == "inc" then
      match rest with
      | revx :: rest => do
        let name ← Wire.decStr namex
        let rev ← if revx == "~" then some none else (Wire.decStr revx).map some
        let (ls, qs) ← parseReq fuel rest
        some (ls, .mk (kind == "inc") name rev :: qs)
      | _ => none
    else none
  | _, _ => none

/-- The statement of a load; the `idx`-th statement of a text stands on line `idx + 1`. -/
def Load.stmt (l : Load) : Stmt :=
  let leaf (kw arg : String) (subs : List Stmt) := Stmt.mk kw true arg l.file (l.idx + 1) 1 subs
  let bt := if l.sub then [leaf "belongs-to" "owner" [leaf "prefix" "o" []]] else []
  Stmt.mk (if l.sub then "submodule" else "module") true l.name l.file (l.idx + 1) 1
    (bt ++ l.revs.map fun r => leaf "revision" r [])

/-- Group the loads into texts (a load with `cont` joins the text before it). -/
def texts : List Load → List (List Load)
  | [] => []
  | l :: rest =>
    match texts rest with
    | (l' :: t) :: ts => if l'.cont then ({ l with idx := 0 } :: (l' :: t).map fun x => { x with idx := x.idx + 1 }) :: ts
                         else [{ l with idx := 0 }] :: (l' :: t) :: ts
    | ts => [{ l with idx := 0 }] :: ts

def Query.stmt : Query → Stmt
  | .mk inc name rev =>
    Stmt.mk (if inc then "include" else "import") true name "" 0 0
      (match rev with | some r => [Stmt.mk "revision-date" true r "" 0 0 []] | none => [])

def sortStrs (xs : List String) : List String := xs.mergeSort fun a b => decide (a ≤ b)

/-- A loaded module: the file and the position of its statement in the text, and its full name. -/
def showAt (file : String) (idx : Nat) (full : String) : String :=
  encStr (file ++ "#" ++ toString idx) ++ ":" ++ encStr full

def showMod (m : Mod) : String := showAt m.stmt.file (m.stmt.line - 1) m.fullName

def showBindings (r : Registry) (km : KeyMap) : String :=
  commaJoin <| sortStrs <| km.map fun (k, id) =>
    encStr k ++ ":" ++ (match r.byId id with | some m => showMod m | none => "dangling")

def runRegistry (ls : List Load) (qs : List Query) : String :=
  let (r, out) := Registry.loadTexts ((texts ls).map fun t => t.map Load.stmt)
  let loads := commaJoin (out.map fun o => match o with
    | none => "ok" | some (.duplicate _ _) => "dup" | some (.badName _ _) => "badname")
  let q := commaJoin <| qs.map fun q =>
    match q with
    | .mk inc _ _ => match r.findModule inc q.stmt with
      | some m => showMod m
      | none => "nil"
  s!"loads={loads} modules={showBindings r r.modules} subs={showBindings r r.subModules} q={q}"

open Spec.Registry in
def specRegistry (ls : List Load) (qs : List Query) : String :=
  let hdr (l : Load) : Header :=
    let m : Mod := { seq := 0, stmt := l.stmt }
    ⟨l.sub, l.name, m.current⟩
  let ts := texts ls
  let loads := commaJoin ((textsOutcomesAfter [] (ts.map fun t => t.map hdr)).map fun o => match o with
    | .ok => "ok" | .dup => "dup" | .badName => "badname")
  -- the loads of the accepted texts; their headers are what names are looked up among
  let acc : List Load := ts.foldl (fun acc t =>
    if textOutcome (acc.map hdr) (t.map hdr) = .ok then acc ++ t else acc) []
  let hs := acc.map hdr
  let full (h : Header) : String := if h.rev = "" then h.name else h.name ++ "@" ++ h.rev
  let showH (h : Header) : String := match acc.find? (fun l => hdr l = h) with
    | some l => showAt l.file l.idx (full h)
    | none => "unknown"
  let wf := hs.all fun h => h.rev == "" || (Spec.parseDate h.rev.toList).isSome
  let bindings (sub : Bool) : String :=
    let keys := ((hs.filter (·.isSub == sub)).flatMap fun h => [h.name, full h]).eraseDups
    commaJoin <| sortStrs <| keys.map fun k =>
      encStr k ++ ":" ++ (match denotes hs sub k with | some h => showH h | none => "undef")
  let q := commaJoin <| qs.map fun q =>
    match q with
    | .mk inc name rev => match resolve hs inc name rev with
      | .is (some h) => showH h
      | .is none => if hs.any (fun h => h.isSub == inc && h.name == name) then "undef" else "nil"
      | .noClaim => "*"
  if wf then s!"loads={loads} modules={bindings false} subs={bindings true} q={q}" else "undef"

/-! ### file chooser -/
open Model.File

def decName (x : String) : Option Name := (Wire.decStr x).map (·.toList)
def encName (n : Name) : String := encStr (String.ofList n)

mutual
def decNode : Nat → List String → Option (FsNode × List String)
  | _, "f" :: rest => some (.file, rest)
  | fuel + 1, "[" :: rest => do
    let (es, rest) ← decEntries fuel rest
    some (.dir es, rest)
  | _, _ => none
def decEntries : Nat → List String → Option (List (Name × FsNode) × List String)
  | _, "]" :: rest => some ([], rest)
  | fuel + 1, nx :: rest => do
    let n ← decName nx
    let (x, rest) ← decNode fuel rest
    let (es, rest) ← decEntries fuel rest
    some ((n, x) :: es, rest)
  | _, _ => none
end

def decNames : List String → Option (List Name × List String)
  | "|" :: rest => some ([], rest)
  | x :: rest => do
    let n ← decName x
    let (ns, rest) ← decNames rest
    some (n :: ns, rest)
  | [] => none

def showFound : Found → String
  | .file n path => "file " ++ encName n ++ " " ++ commaJoin (path.map encName)
  | .noSuchFile => "none"
  | .outside => "outside"

def specFind (root : FsNode) (path : List Name) (name : Name) : String :=
  if name.contains '/' || hasSuffix name dotYang then "na" else
  match parsePath path with
  | none => "outside"
  | some es =>
    match Spec.File.choose root.norm es name with
    | some p => "some " ++ encName (render p)
    | none => "none"

def handle : List String → String
  | "registry" :: rest =>
    match parseReq (rest.length + 1) rest with
    | some (ls, qs) => runRegistry ls qs
    | none => "bad-op"
  | "spec.registry" :: rest =>
    match parseReq (rest.length + 1) rest with
    | some (ls, qs) => specRegistry ls qs
    | none => "bad-op"
  | "find" :: rest =>
    match decNode (rest.length + 1) rest with
    | some (root, "|" :: rest) =>
      match decNames rest with
      | some (path, [nx]) =>
        match decName nx with
        | some name => showFound (findFile root path name)
        | none => "bad-op"
      | _ => "bad-op"
    | _ => "bad-op"
  | "spec.find" :: rest =>
    match decNode (rest.length + 1) rest with
    | some (root, "|" :: rest) =>
      match decNames rest with
      | some (path, [nx]) =>
        match decName nx with
        | some name => specFind root path name
        | none => "bad-op"
      | _ => "bad-op"
    | _ => "bad-op"
  | "paths" :: rest =>
    match decNode (rest.length + 1) rest with
    | some (root, ["|", sx]) =>
      match decName sx with
      | some start =>
        match pathsWithModules root start with
        | some ps => "paths " ++ commaJoin (ps.map encName)
        | none => "outside"
      | none => "bad-op"
    | _ => "bad-op"
  | _ => "bad-op"

end Drv.Registry

def main : IO Unit := Goyang.Proto.loop Drv.Registry.handle
