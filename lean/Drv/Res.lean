import Goyang.Model.Dump
import Goyang.Model.TypesLite
import Goyang.Model.Types
/-
Resolver driver.
  process <ignoreCircular 0/1> <ignoreNotSupported 0/1> <files in wire format>
      -> `outsideModel <why>` | canonical dump of the Process outcome (Goyang.Model.Dump)
-/
open Goyang Goyang.Proto Goyang.Model

/-- Statements the resolver model does not interpret. -/
partial def outside (s : Stmt) (parentKw : String) : Option String :=
  if s.kw == "refine" then some "refine"
  else if s.kw == "augment" && parentKw == "uses" then some "uses-augment"
  else if s.kw == "augment" && !s.arg.startsWith "/" then some "relative-augment"
  else if (s.kw.splitOn ":").length == 2 && (s.kw.splitOn "posix-pattern").length > 1 then some "posix-pattern"
  else s.subs.findSome? fun c => outside c s.kw

/-- `Modules.Parse` (after the repair it is atomic: either every top-level statement of the text
is added or none). -/
def loadFile (reg : Registry) (f : SrcFile) : Registry :=
  match f.stmts.foldlM (fun r s => r.add s) reg with
  | .ok r => r
  | .error _ => reg

def loadFiles (files : List SrcFile) : Registry := files.foldl loadFile {}

def plugLite : Plug := { tres := typesLite, identityErrs := fun _ => [], typedefErrs := fun _ => [] }

/-- Which statement of a cyclic type definition Go reports depends on where the cycle is entered
first (memoisation); the dump compares such errors without their position. -/
def normTypeErr (e : Err) : Err := if e.cls == "cycle" then Err.bare "type-cycle" else e

/-- The other layers plugged in: type resolution (C09 layer) and identity resolution (C11 layer),
with the environment (links, identity dictionary) built once per registry. -/
def plugFull (reg : Registry) : Plug :=
  let env := Types.Env.of reg
  { tres := { resolve := fun _ root scope t =>
      let (y, errs) := Types.resolveTypeE env root scope t
      (y.map fun y => { dump := y.dump, hasDefault := y.hasDefault, default := y.default }, errs.map normTypeErr) },
    identityErrs := fun reg =>
      match Identity.run (Identity.Oracle.ofNat 0) reg with
      | .done res _ => res.errs
      | _ => [],
    typedefErrs := fun _ => (Types.resolveAllTypedefsE env).map normTypeErr }

def handle : List String → String
  | "process" :: ic :: ins :: rest =>
    match Wire.decFiles (rest.length + 1) rest with
    | some (files, []) =>
      match files.findSome? fun f => f.stmts.findSome? fun s => outside s "" with
      | some why => "outsideModel " ++ why
      | none =>
        let reg := loadFiles files
        let opts : Opts := { ignoreCircular := ic == "1", ignoreNotSupported := ins == "1" }
        dumpOutcome (processAll reg opts (plugFull reg))
    | _ => "outsideModel undecodable"
  | _ => "bad-op"

def main : IO Unit := Proto.loop handle
