import Goyang.Model.Pipeline
import Goyang.Model.Load
/-
Resolver driver.
  process <ignoreCircular 0/1> <ignoreNotSupported 0/1> <files in wire format>
      -> `outsideModel <why>` | canonical dump of the Process outcome (Goyang.Model.Dump)
  processText <ignoreCircular 0/1> <ignoreNotSupported 0/1> (<file name hex> <text hex>)*
      -> `L <load results>` ` ; ` the same dump: the whole pipeline from raw text in Lean
         (generic parser → AST builder → registry → resolver); a text that is not accepted is
         skipped, as `Modules.Parse` returning an error leaves the set unchanged
-/
open Goyang Goyang.Proto Goyang.Model

def decPairs : List String → Option (List (List UInt8 × List UInt8))
  | [] => some []
  | n :: t :: rest => do
    let nb ← decBytes n
    let tb ← decBytes t
    let r ← decPairs rest
    some ((nb, tb) :: r)
  | _ => none

def loadResultName : LoadResult → String
  | .accepted => "accepted" | .rejectedSyntax => "syntax" | .rejectedBuild => "build" | .rejectedTop => "top"
  | .rejectedAdd => "add" | .outside w => "outside:" ++ w

def handle : List String → String
  | "processText" :: ic :: ins :: rest =>
    match decPairs rest with
    | none => "outsideModel undecodable"
    | some texts =>
      let (reg, results) := loadTexts texts
      match results.find? (fun r => match r with | .outside _ => true | _ => false) with
      | some r => "outsideModel " ++ loadResultName r
      | none =>
        match reg.mods.findSome? fun m => outside "" m.stmt with
        | some why => "outsideModel " ++ why
        | none =>
          let opts : Opts := { ignoreCircular := ic == "1", ignoreNotSupported := ins == "1" }
          "L " ++ " ".intercalate (results.map loadResultName) ++ " ; " ++ dumpOutcome (processAll reg opts (plugFull reg))
  | "process" :: ic :: ins :: rest =>
    match Wire.decFiles (rest.length + 1) rest with
    | some (files, []) =>
      let opts : Opts := { ignoreCircular := ic == "1", ignoreNotSupported := ins == "1" }
      match processFiles opts files with
      | .error why => "outsideModel " ++ why
      | .ok o => dumpOutcome o
    | _ => "outsideModel undecodable"
  | _ => "bad-op"

def main : IO Unit := Proto.loop handle
