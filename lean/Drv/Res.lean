import Goyang.Model.Dump
import Goyang.Model.TypesLite
/-
Resolver driver.
  process <ignoreCircular 0/1> <ignoreNotSupported 0/1> <files in wire format>
      -> `outsideModel <why>` | canonical dump of the Process outcome (Goyang.Model.Dump)
-/
open Goyang Goyang.Proto Goyang.Model

/-- Statements the resolver model does not interpret. -/
partial def outside (s : Stmt) (parentKw : String) : Option String :=
  if s.kw == "refine" then some "refine"
  else if s.kw == "augment" && parentKw == "uses" then some "uses-augment"
  else if s.kw == "augment" && !s.arg.startsWith "/" then some "relative-augment"
  else if (s.kw.splitOn ":").length == 2 && (s.kw.splitOn "posix-pattern").length > 1 then some "posix-pattern"
  else s.subs.findSome? fun c => outside c s.kw

def loadFiles (files : List SrcFile) : Registry :=
  files.foldl (fun reg f =>
    -- Modules.Parse stops at the first statement that cannot be added
    (f.stmts.foldl (fun (acc : Registry × Bool) s =>
      if acc.2 then acc else
      match acc.1.add s with
      | .ok r => (r, false)
      | .error _ => (acc.1, true)) (reg, false)).1) {}

def plugLite : Plug := { tres := typesLite, identityErrs := fun _ => [], typedefErrs := fun _ => [] }

def handle : List String → String
  | "process" :: ic :: ins :: rest =>
    match Wire.decFiles (rest.length + 1) rest with
    | some (files, []) =>
      match files.findSome? fun f => f.stmts.findSome? fun s => outside s "" with
      | some why => "outsideModel " ++ why
      | none =>
        let reg := loadFiles files
        let opts : Opts := { ignoreCircular := ic == "1", ignoreNotSupported := ins == "1" }
        dumpOutcome (processAll reg opts plugLite)
    | _ => "outsideModel undecodable"
  | _ => "bad-op"

def main : IO Unit := Proto.loop handle
