import Goyang.Model.Dump
import Goyang.Model.TypesLite
/-
Resolver driver.
  process <ignoreCircular 0/1> <ignoreNotSupported 0/1> <files in wire format>
      -> `outsideModel <why>` | canonical dump of the Process outcome (Goyang.Model.Dump)
-/
open Goyang Goyang.Proto Goyang.Model

/-- Statements the resolver model does not interpret. -/
partial def outside (s : Stmt) (parentKw : String) : Option String :=
  if s.kw == "refine" then some "refine"
  else if s.kw == "augment" && parentKw == "uses" then some "uses-augment"
  else if s.kw == "augment" && !s.arg.startsWith "/" then some "relative-augment"
  else if (s.kw.splitOn ":").length == 2 && (s.kw.splitOn "posix-pattern").length > 1 then some "posix-pattern"
  else s.subs.findSome? fun c => outside c s.kw

/-- `Modules.Parse` (after the repair it is atomic: either every top-level statement of the text
is added or none). -/
def loadFile (reg : Registry) (f : SrcFile) : Registry :=
  match f.stmts.foldlM (fun r s => r.add s) reg with
  | .ok r => r
  | .error _ => reg

def loadFiles (files : List SrcFile) : Registry := files.foldl loadFile {}

def plugLite : Plug := { tres := typesLite, identityErrs := fun _ => [], typedefErrs := fun _ => [] }

def handle : List String → String
  | "process" :: ic :: ins :: rest =>
    match Wire.decFiles (rest.length + 1) rest with
    | some (files, []) =>
      match files.findSome? fun f => f.stmts.findSome? fun s => outside s "" with
      | some why => "outsideModel " ++ why
      | none =>
        let reg := loadFiles files
        let opts : Opts := { ignoreCircular := ic == "1", ignoreNotSupported := ins == "1" }
        dumpOutcome (processAll reg opts plugLite)
    | _ => "outsideModel undecodable"
  | _ => "bad-op"

def main : IO Unit := Proto.loop handle
