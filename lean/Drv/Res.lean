import Goyang.Model.Pipeline
/-
Resolver driver.
  process <ignoreCircular 0/1> <ignoreNotSupported 0/1> <files in wire format>
      -> `outsideModel <why>` | canonical dump of the Process outcome (Goyang.Model.Dump)
-/
open Goyang Goyang.Proto Goyang.Model

def handle : List String → String
  | "process" :: ic :: ins :: rest =>
    match Wire.decFiles (rest.length + 1) rest with
    | some (files, []) =>
      let opts : Opts := { ignoreCircular := ic == "1", ignoreNotSupported := ins == "1" }
      match processFiles opts files with
      | .error why => "outsideModel " ++ why
      | .ok o => dumpOutcome o
    | _ => "outsideModel undecodable"
  | _ => "bad-op"

def main : IO Unit := Proto.loop handle
