import Goyang.Model.Session
/-
Session driver (property C18): one request = one history on one `Modules` value.

  session <ignoreCircular 0/1> <ignoreNotSupported 0/1> <op>*
      op := "T" <file name hex> <text hex>                                load of a raw text (Modules.Parse): generic
                                                                          parser, AST builder and registry run in Lean
          | "L" <buildOk 0/1> <file in wire format: F name stmts E>       load of a text given as statement trees;
                                                                          buildOk: what parser + builder said in Go
          | "P"                                                           process
          | "R" <key-hex> <path-hex>                                      read  (ToEntry(ms.Modules[key]).Find(path))
      -> `outsideModel <why>` | the answers, one per op, joined by " || ":
           load:    `accepted` | `rejected-syntax` | `rejected-build` | `rejected-add` (duplicate) | `rejected-notmodule`
           process: the canonical dump of the outcome (Goyang.Model.Dump, records joined by " ; ")
           read:    `found <hex of Entry.Path()>` | `found ~` (nil) | `nomodule` | `unprocessed`

A text the generic parser rejected travels in the L form as `L 0 F name E` (no statements).
-/
open Goyang Goyang.Proto Goyang.Model

inductive DecErr | outside (why : String) | undecodable

/-- Decode the ops. -/
def decOps : (fuel : Nat) → List String → Except DecErr (List Op)
  | 0, _ => .error .undecodable
  | _, [] => .ok []
  | fuel + 1, "P" :: rest => (decOps fuel rest).map (Op.process :: ·)
  | fuel + 1, "R" :: k :: p :: rest =>
    match Wire.decStr k, Wire.decStr p with
    | some k, some p => (decOps fuel rest).map (Op.read k p :: ·)
    | _, _ => .error .undecodable
  | fuel + 1, "T" :: n :: t :: rest =>
    match decBytes n, decBytes t with
    | some n, some t => (decOps fuel rest).map (Op.load (.text n t) :: ·)
    | _, _ => .error .undecodable
  | fuel + 1, "L" :: ok :: rest =>
    match rest with
    | "F" :: _ =>
      match Wire.decFiles 1 rest with
      | some ([f], rest) =>
        match outsideL "" f.stmts with
        | some why => .error (.outside why)
        | none => (decOps fuel rest).map (Op.load (.stmts f (ok == "1")) :: ·)
      | _ => .error .undecodable
    | _ => .error .undecodable
  | _, _ => .error .undecodable

def showOut (s : Session) : Out → String
  | .accepted => "accepted"
  | .rejected .build => "rejected-build"
  | .rejected (.add _) => "rejected-add"
  | .rejected (.notModule _) => "rejected-notmodule"
  | .rejected (.text .rejectedSyntax) => "rejected-syntax"
  | .rejected (.text .rejectedBuild) => "rejected-build"
  | .rejected (.text .rejectedTop) => "rejected-notmodule"
  | .rejected (.text .rejectedAdd) => "rejected-add"
  | .rejected (.text (.outside w)) => "outside " ++ w
  | .rejected (.text .accepted) => "rejected-?"      -- not produced by `tryLoadSrc`
  | .processed o => dumpOutcome o
  | .found none => "found ~"
  | .found (some loc) =>
    match s.cache.bind fun o => o.forest.tree? loc.1 with
    | some root => "found " ++ hexS (root.pathString loc.2)
    | none => "found ?"
  | .noModule => "nomodule"
  | .unprocessed => "unprocessed"

/-- Run the ops, rendering each answer in the state it left behind (a found node is printed as
its path in the tree of that state).  `none`: a loaded module holds a statement the resolver model
does not interpret, or the front end declined a text. -/
def runShow (s : Session) : List Op → Except String (List String)
  | [] => .ok []
  | op :: ops =>
    let (s', o) := Session.step plugFull s op
    match o with
    | .rejected (.text (.outside w)) => .error w
    | _ =>
      -- statements of modules that were just added
      match (s'.reg.mods.drop s.reg.mods.length).findSome? fun m => outside "" m.stmt with
      | some why => .error why
      | none => (runShow s' ops).map (showOut s' o :: ·)

def handle : List String → String
  | "session" :: ic :: ins :: rest =>
    match decOps (rest.length + 1) rest with
    | .error (.outside why) => "outsideModel " ++ why
    | .error .undecodable => "outsideModel undecodable"
    | .ok ops =>
      let opts : Opts := { ignoreCircular := ic == "1", ignoreNotSupported := ins == "1" }
      match runShow { opts := opts } ops with
      | .error why => "outsideModel " ++ why
      | .ok answers => " || ".intercalate answers
  | _ => "bad-op"

def main : IO Unit := Proto.loop handle
