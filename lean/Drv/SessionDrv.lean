import Goyang.Model.Session
/-
Session driver (property C18): one request = one history on one `Modules` value.

  session <ignoreCircular 0/1> <ignoreNotSupported 0/1> <op>*
      op := "L" <buildOk 0/1> <file in wire format: F name stmts E>     load  (Modules.Parse)
          | "P"                                                           process
          | "R" <key-hex> <path-hex>                                      read  (ToEntry(ms.Modules[key]).Find(path))
      -> `outsideModel <why>` | the answers, one per op, joined by " || ":
           load:    `accepted` | `rejected-build` | `rejected-add` (duplicate) | `rejected-notmodule`
           process: the canonical dump of the outcome (Goyang.Model.Dump, records joined by " ; ")
           read:    `found <hex of Entry.Path()>` | `found ~` (nil) | `nomodule` | `unprocessed`

A text the generic parser rejected travels as `L 0 F name E` (no statements).
-/
open Goyang Goyang.Proto Goyang.Model

inductive DecErr | outside (why : String) | undecodable

/-- Decode the ops. -/
def decOps : (fuel : Nat) → List String → Except DecErr (List Op)
  | 0, _ => .error .undecodable
  | _, [] => .ok []
  | fuel + 1, "P" :: rest => (decOps fuel rest).map (Op.process :: ·)
  | fuel + 1, "R" :: k :: p :: rest =>
    match Wire.decStr k, Wire.decStr p with
    | some k, some p => (decOps fuel rest).map (Op.read k p :: ·)
    | _, _ => .error .undecodable
  | fuel + 1, "L" :: ok :: rest =>
    match rest with
    | "F" :: _ =>
      match Wire.decFiles 1 rest with
      | some ([f], rest) =>
        match outsideL "" f.stmts with
        | some why => .error (.outside why)
        | none => (decOps fuel rest).map (Op.load f (ok == "1") :: ·)
      | _ => .error .undecodable
    | _ => .error .undecodable
  | _, _ => .error .undecodable

def showOut (s : Session) : Out → String
  | .accepted => "accepted"
  | .rejected .build => "rejected-build"
  | .rejected (.add _) => "rejected-add"
  | .rejected (.notModule _) => "rejected-notmodule"
  | .processed o => dumpOutcome o
  | .found none => "found ~"
  | .found (some loc) =>
    match s.cache.bind fun o => o.forest.tree? loc.1 with
    | some root => "found " ++ hexS (root.pathString loc.2)
    | none => "found ?"
  | .noModule => "nomodule"
  | .unprocessed => "unprocessed"

/-- Run the ops, rendering each answer in the state it left behind (a found node is printed as
its path in the tree of that state). -/
def runShow (s : Session) : List Op → List String
  | [] => []
  | op :: ops =>
    let (s', o) := Session.step plugFull s op
    showOut s' o :: runShow s' ops

def handle : List String → String
  | "session" :: ic :: ins :: rest =>
    match decOps (rest.length + 1) rest with
    | .error (.outside why) => "outsideModel " ++ why
    | .error .undecodable => "outsideModel undecodable"
    | .ok ops =>
      let opts : Opts := { ignoreCircular := ic == "1", ignoreNotSupported := ins == "1" }
      " || ".intercalate (runShow { opts := opts } ops)
  | _ => "bad-op"

def main : IO Unit := Proto.loop handle
