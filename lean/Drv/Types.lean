import Goyang.Model.Proto
import Goyang.Model.Types
import Goyang.Spec.Types
/-
Driver for type resolution (C09).

  types <files in wire format>
      -> ok ID <n> <err>*n TD <n> <err>*n ( L <key> <dump|nil> <defaults> <n> <err>*n )*
         ID: the errors of `resolveIdentities` (Goyang.Model.Identity; `process` reports them beside TD);
         TD: the errors of `resolveTypedefs` (document order);
         L:  one item per `leaf` / `leaf-list` statement of every loaded (sub)module (load order,
             document order), key = file:line:col of the statement, `dump` = `YType.dump` of what
             `Type.YangType` holds after `Type.resolve` (`nil` when unset), `defaults` = hex list
             of `Entry.DefaultValues()`, then the errors `Type.resolve` returned
      -> linkfail        an include or import does not resolve (what is linked then depends on
                         iteration order: outside the type model)
      -> loaderr | outsideModel
  spec.types <files in wire format>
      -> ok ( L <key> <verdict> )* ( D <key> <typedef verdict> )*
         D: one item per `typedef` statement of every loaded (sub)module, at any scope, used or not
            (key = file:line:col of the typedef statement), see `tdItem`
         verdict = T<projection>  the specification binds every name of the derivation and the
                                  resolved type must show this projection (`Spec.Types.SType.dump`)
                 | ERR            a name is unknown, a prefix unknown, or the derivation is cyclic:
                                  the reference must be reported as an error
                 | NOCLAIM:<why>  the schema is outside the claim (two visible typedefs of one name
                                  in one scope or module, re-listed enum/bit members, …)
-/
open Goyang Goyang.Proto Goyang.Model

namespace Drv.Types
open Goyang.Model.Types

def errsText (es : List Err) : String :=
  toString es.length ++ String.join (es.map fun e => " " ++ e.render)

/-- `strconv.ParseUint(s, 10, 64)` for a plain decimal numeral (what the generator writes). -/
def minElements (s : Stmt) : Nat :=
  match s.argOf? "min-elements" with
  | some a => a.toNat?.getD 0
  | none => 0

def leafItem (env : Env) (m : Mod) (leaf : Stmt) (up : List Stmt) : String :=
  let key := leaf.location
  match leaf.one? "type" with
  | none => " L " ++ key ++ " nil [] 1 " ++ (Err.at_ leaf "crash").render
  | some t =>
    let (ty, errs) := resolveTypeE env m (leaf :: up) t
    let isLL := leaf.kw == "leaf-list"
    let own := (leaf.all "default").map Stmt.arg
    let dv := defaultValues own isLL (leaf.argOf? "mandatory") (minElements leaf) ty
    " L " ++ key ++ " " ++ (match ty with | some y => y.dump | none => "nil") ++ " " ++ hexList dv ++ " " ++ errsText errs

def runTypes (files : List SrcFile) : String :=
  match Identity.loadAll files with
  | .error _ => "loaderr"
  | .ok reg =>
    if !linkOk reg then "linkfail" else
    let env := Env.of reg
    let td := resolveAllTypedefsE env
    let idErrs := match Identity.resolveIdentities (Identity.Oracle.ofNat 0) reg env.link (fun _ => []) with
      | some res => res.errs
      | none => [Err.bare "out-of-fuel"]
    let leaves := reg.mods.flatMap fun m =>
      (collect ["leaf", "leaf-list"] [] m.stmt).map fun (l, up) => leafItem env m l up
    "ok ID " ++ errsText idErrs ++ " TD " ++ errsText td ++ String.join leaves

/-! ### Typedef statements themselves, used or not

"An unknown, unresolvable or cyclic type reference is an error" also where the reference is the
`type` of a typedef that no leaf reaches: every typedef statement of the schema (any scope) is
judged by the specification on its own. -/

/-- The positions of `t` and of every statement below it. -/
def locsBelow (t : Stmt) : List String := (descendants t).map Stmt.location

/-- How the runner renders an error that carries no position (`lib.ErrLine`). -/
def noPosition : String := "-:0:0"

/-- Where an error raised for the type statement `t` (standing in the (sub)module `root`) is
positioned when it does not carry the position of a statement of `t`: the library reports an
identity base it cannot find with the position of the (sub)module statement, or with no position
(`base` below a type statement, C11's subject); a `require-instance` argument that is not a boolean
and an extension statement whose prefix is unknown are reported with no position.  Such an error
ends the resolution of every type statement that names the typedef of `t` before the member types
of that statement are looked at: it is then the only error of the derivation. -/
def unplaced (root : Mod) (t : Stmt) : List String :=
  (if (t.all "base").isEmpty then [] else [root.stmt.location, noPosition]) ++
  (if t.subs.any (fun s => (s.kw == "require-instance" && s.arg != "true" && s.arg != "false") || s.kw.contains ':')
   then [noPosition] else [])

open Goyang.Spec.Types in
/-- The statements of the derivation of the type statement `t` (in module `root`, enclosed by
`scope`): `t`, its member types, the typedef its name denotes (`bindType`) with that typedef's type
statement, and so on (the closure of `Spec.Types.Uses`); the positions of these statements and of
everything below the type statements, and the positions `unplaced` lists for an error of a type
statement that does not name a statement.  `acc.1`: the type statements visited so far.  Where a name
of the derivation denotes two typedefs (or a typedef without a type) the statements beyond are not
determined: the mark `?` is added. -/
def reach (reg : Registry) : Nat → Mod → List Stmt → Stmt → (List Key × List String) → (List Key × List String)
  | 0, _, _, _, acc => acc
  | fuel + 1, root, scope, t, (vis, out) =>
    let key : Key := (root.seq, t.line, t.col)
    if vis.contains key then (vis, out) else
    let acc : List Key × List String := (key :: vis, out ++ locsBelow t ++ unplaced root t)
    let acc := (t.all "type").foldl (fun acc ut => reach reg fuel root (t :: scope) ut acc) acc
    match bindType reg root scope t.arg with
    | .typedef m td sc =>
      match td.one? "type" with
      | some tt => reach reg fuel m (td :: sc) tt (acc.1, acc.2 ++ [td.location])
      | none => (acc.1, acc.2 ++ ["?"])
    | .ambiguous => (acc.1, acc.2 ++ ["?"])
    | _ => acc

open Goyang.Spec.Types in
/-- The verdict for the typedef statement `td` (in module `m`, enclosed by `up`, nearest first):
`OK` | `NOCLAIM:<why>` | `ERR <direct> <n> <position>*n` — the type of the typedef is unknown,
unresolvable or cyclic: an error must be reported; `direct` is the position of the typedef's type
statement when its own name is unbound (then the error stands exactly there), else `-`; the
positions are those of the statements of the derivation (some error must stand at one of them; where
the derivation holds a `base`, a non-boolean `require-instance` or an extension statement also the
positions of `unplaced`: the (sub)module statement, no position). -/
def tdItem (reg : Registry) (m : Mod) (td : Stmt) (up : List Stmt) : String :=
  " D " ++ td.location ++ " " ++
  match up with
  | [] => "NOCLAIM:no-scope"
  | p :: _ =>
    if (declared p td.arg).length != 1 then "NOCLAIM:not-declared-once-in-a-scope" else
    match td.one? "type" with
    | none => "NOCLAIM:typedef-without-type"
    | some t =>
      match specResolve reg (specFuel reg) m (td :: up) t [] with
      | .ok _ => "OK"
      | .noClaim why => "NOCLAIM:" ++ why
      | .error =>
        let direct := match bindType reg m (td :: up) t.arg with
          | .unbound => t.location
          | _ => "-"
        let cl := (reach reg (specFuel reg) m (td :: up) t ([], [td.location])).2.eraseDups
        if direct == "-" && cl.contains "?" then "NOCLAIM:ambiguous-name-in-the-derivation" else
        let cl := cl.filter (· != "?")
        "ERR " ++ direct ++ " " ++ toString cl.length ++ String.join (cl.map (" " ++ ·))

open Goyang.Spec.Types in
def runSpec (files : List SrcFile) : String :=
  match Identity.loadAll files with
  | .error _ => "loaderr"
  | .ok reg =>
    let leaves := reg.mods.flatMap fun m =>
      (collect ["leaf", "leaf-list"] [] m.stmt).map fun (l, up) =>
        " L " ++ l.location ++ " " ++
          (match l.one? "type" with
           | none => "NOCLAIM"
           | some t =>
             match specResolve reg (specFuel reg) m (l :: up) t [] with
             | .ok st => "T" ++ st.dump
             | .error => "ERR"
             | .noClaim why => "NOCLAIM:" ++ why)
    let tds := reg.mods.flatMap fun m =>
      (collect ["typedef"] [] m.stmt).map fun (td, up) => tdItem reg m td up
    "ok" ++ String.join leaves ++ String.join tds

end Drv.Types

open Drv.Types in
def handle : List String → String
  | "types" :: rest =>
    match Wire.decFiles (rest.length + 1) rest with
    | some (files, []) => runTypes files
    | _ => "outsideModel"
  | "spec.types" :: rest =>
    match Wire.decFiles (rest.length + 1) rest with
    | some (files, []) => runSpec files
    | _ => "outsideModel"
  | _ => "bad-op"

def main : IO Unit := Proto.loop handle
