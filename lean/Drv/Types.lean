import Goyang.Model.Proto
import Goyang.Model.Types
import Goyang.Spec.Types
/-
Driver for type resolution (C09).

  types <files in wire format>
      -> ok ID <n> <err>*n TD <n> <err>*n ( L <key> <dump|nil> <defaults> <n> <err>*n )*
         ID: the errors of `resolveIdentities` (Goyang.Model.Identity; `process` reports them beside TD);
         TD: the errors of `resolveTypedefs` (document order);
         L:  one item per `leaf` / `leaf-list` statement of every loaded (sub)module (load order,
             document order), key = file:line:col of the statement, `dump` = `YType.dump` of what
             `Type.YangType` holds after `Type.resolve` (`nil` when unset), `defaults` = hex list
             of `Entry.DefaultValues()`, then the errors `Type.resolve` returned
      -> linkfail        an include or import does not resolve (what is linked then depends on
                         iteration order: outside the type model)
      -> loaderr | outsideModel
  spec.types <files in wire format>
      -> ok ( L <key> <verdict> )*
         verdict = T<projection>  the specification binds every name of the derivation and the
                                  resolved type must show this projection (`Spec.Types.SType.dump`)
                 | ERR            a name is unknown, a prefix unknown, or the derivation is cyclic:
                                  the reference must be reported as an error
                 | NOCLAIM:<why>  the schema is outside the claim (two visible typedefs of one name
                                  in one scope or module, re-listed enum/bit members, …)
-/
open Goyang Goyang.Proto Goyang.Model

namespace Drv.Types
open Goyang.Model.Types

def errsText (es : List Err) : String :=
  toString es.length ++ String.join (es.map fun e => " " ++ e.render)

/-- `strconv.ParseUint(s, 10, 64)` for a plain decimal numeral (what the generator writes). -/
def minElements (s : Stmt) : Nat :=
  match s.argOf? "min-elements" with
  | some a => a.toNat?.getD 0
  | none => 0

def leafItem (env : Env) (m : Mod) (leaf : Stmt) (up : List Stmt) : String :=
  let key := leaf.location
  match leaf.one? "type" with
  | none => " L " ++ key ++ " nil [] 1 " ++ (Err.at_ leaf "crash").render
  | some t =>
    let (ty, errs) := resolveTypeE env m (leaf :: up) t
    let isLL := leaf.kw == "leaf-list"
    let own := (leaf.all "default").map Stmt.arg
    let dv := defaultValues own isLL (leaf.argOf? "mandatory") (minElements leaf) ty
    " L " ++ key ++ " " ++ (match ty with | some y => y.dump | none => "nil") ++ " " ++ hexList dv ++ " " ++ errsText errs

def runTypes (files : List SrcFile) : String :=
  match Identity.loadAll files with
  | .error _ => "loaderr"
  | .ok reg =>
    if !linkOk reg then "linkfail" else
    let env := Env.of reg
    let td := resolveAllTypedefsE env
    let idErrs := match Identity.resolveIdentities (Identity.Oracle.ofNat 0) reg env.link (fun _ => []) with
      | some res => res.errs
      | none => [Err.bare "out-of-fuel"]
    let leaves := reg.mods.flatMap fun m =>
      (collect ["leaf", "leaf-list"] [] m.stmt).map fun (l, up) => leafItem env m l up
    "ok ID " ++ errsText idErrs ++ " TD " ++ errsText td ++ String.join leaves

open Goyang.Spec.Types in
def runSpec (files : List SrcFile) : String :=
  match Identity.loadAll files with
  | .error _ => "loaderr"
  | .ok reg =>
    let leaves := reg.mods.flatMap fun m =>
      (collect ["leaf", "leaf-list"] [] m.stmt).map fun (l, up) =>
        " L " ++ l.location ++ " " ++
          (match l.one? "type" with
           | none => "NOCLAIM"
           | some t =>
             match specResolve reg (specFuel reg) m (l :: up) t [] with
             | .ok st => "T" ++ st.dump
             | .error => "ERR"
             | .noClaim why => "NOCLAIM:" ++ why)
    "ok" ++ String.join leaves

end Drv.Types

open Drv.Types in
def handle : List String → String
  | "types" :: rest =>
    match Wire.decFiles (rest.length + 1) rest with
    | some (files, []) => runTypes files
    | _ => "outsideModel"
  | "spec.types" :: rest =>
    match Wire.decFiles (rest.length + 1) rest with
    | some (files, []) => runSpec files
    | _ => "outsideModel"
  | _ => "bad-op"

def main : IO Unit := Proto.loop handle
