-- Root of the `Goyang` library: the model, the specifications and the property theorems.
import Goyang.Model.Proto
