import Goyang.Model.Ast
import Goyang.Spec.Ast
/-
Helper lemmas for property C03 (AST builder): reading the table by id versus by spelling, the
function-table scan, the loop invariant of `buildSubs`.
-/
namespace Goyang.Lemmas.Ast
open Goyang.Model.Ast Goyang.Spec.Ast

@[simp] theorem kw_mk (k : Bytes) (h : Bool) (a : Bytes) (l c : Nat) (s : List Stmt) : (Stmt.mk k h a l c s).kw = k := rfl
@[simp] theorem arg_mk (k : Bytes) (h : Bool) (a : Bytes) (l c : Nat) (s : List Stmt) : (Stmt.mk k h a l c s).arg = a := rfl
@[simp] theorem subs_mk (k : Bytes) (h : Bool) (a : Bytes) (l c : Nat) (s : List Stmt) : (Stmt.mk k h a l c s).subs = s := rfl
@[simp] theorem line_mk (k : Bytes) (h : Bool) (a : Bytes) (l c : Nat) (s : List Stmt) : (Stmt.mk k h a l c s).line = l := rfl
@[simp] theorem col_mk (k : Bytes) (h : Bool) (a : Bytes) (l c : Nat) (s : List Stmt) : (Stmt.mk k h a l c s).col = c := rfl

/-! ### generic list facts -/

theorem nodupNat_iff (l : List Nat) : nodupNat l = true ↔ l.Nodup := by
  induction l with
  | nil => simp [nodupNat]
  | cons x xs ih => simp [nodupNat, List.nodup_cons, ih]

theorem nodupBytes_iff (l : List Bytes) : nodupBytes l = true ↔ l.Nodup := by
  induction l with
  | nil => simp [nodupBytes]
  | cons x xs ih => simp [nodupBytes, List.nodup_cons, ih]

theorem nodup_filter_map_inj {α : Type} {p : α → Bool} {g : α → Nat} :
    ∀ {l : List α}, ((l.filter p).map g).Nodup →
      ∀ (i j : Nat) (a b : α), l[i]? = some a → l[j]? = some b → p a = true → p b = true → g a = g b → i = j := by
  intro l
  induction l with
  | nil => intro _ i j a b hi; simp at hi
  | cons x xs ih =>
    intro hnd i j a b hi hj pa pb hg
    have htail : ((xs.filter p).map g).Nodup := by
      by_cases px : p x = true
      · simp [px, List.nodup_cons] at hnd; exact hnd.2
      · simp [px] at hnd; exact hnd
    have notin : ∀ (k : Nat) (c : α), xs[k]? = some c → p c = true → p x = true → g c ≠ g x := by
      intro k c hk pc px hgc
      simp [px, List.nodup_cons] at hnd
      exact hnd.1 c (List.mem_of_getElem? hk) pc hgc
    cases i with
    | zero =>
      cases j with
      | zero => rfl
      | succ j =>
        simp at hi hj; subst hi
        exact absurd hg.symm (notin j b hj pb pa)
    | succ i =>
      cases j with
      | zero =>
        simp at hi hj; subst hj
        exact absurd hg (notin i a hi pa pb)
      | succ j =>
        simp at hi hj
        rw [ih htail i j a b hi hj pa pb hg]

/-- Induction over statement trees with the hypothesis for all substatements. -/
theorem Stmt.induct {P : Stmt → Prop}
    (h : ∀ kw ha a l c subs, (∀ ss ∈ subs, P ss) → P (.mk kw ha a l c subs)) : ∀ s, P s := by
  intro s
  exact Stmt.rec (motive_1 := P) (motive_2 := fun l => ∀ ss ∈ l, P ss)
    (fun kw ha a l c subs ih => h kw ha a l c subs ih)
    (by intro ss hss; cases hss)
    (fun hd tl ih1 ih2 => by
      intro ss hss
      cases hss with
      | head => exact ih1
      | tail _ h' => exact ih2 ss h') s


/-! ### the well-formedness predicate, unpacked -/

/-- `wfType` as propositions. -/
structure WFT (tbl : Schema) (T : TypeDef) : Prop where
  isNode : T.isNode = true
  hasStr : T.hasKind .str = true
  hasStmt : T.hasKind .stmt = true
  hasIface : T.hasKind .iface = true
  hasExt : T.hasKind .ext = true
  subInj : ∀ (i j : Nat) (f g : Field), T.fields[i]? = some f → T.fields[j]? = some g →
    f.kind.isSub = true → g.kind.isSub = true → f.tag = g.tag → i = j
  tagRange : ∀ f ∈ T.fields, f.tag < tbl.kwNames.length
  reqRange : ∀ f ∈ T.fields, ∀ k ∈ f.reqKinds, k < tbl.kwNames.length
  metaPlain : ∀ f ∈ T.fields, f.kind.isSub = false → f.required = false ∧ f.reqKinds = []
  sub : ∀ f ∈ T.fields, f.kind.isSub = true →
    f.elem < tbl.types.length ∧ tbl.alias f.tag = f.tag ∧ tbl.typeOf f.tag = some f.elem

theorem hasKind_of_count {T : TypeDef} {k : FKind} (h : (countKind T k == 1) = true) :
    T.hasKind k = true := by
  simp only [countKind, beq_iff_eq] at h
  simp only [TypeDef.hasKind, List.any_eq_true]
  have hne : T.fields.filter (fun f => decide (f.kind = k)) ≠ [] := by
    intro h0; rw [h0] at h; simp at h
  obtain ⟨f, hf⟩ := List.exists_mem_of_ne_nil _ hne
  rw [List.mem_filter] at hf
  exact ⟨f, hf.1, hf.2⟩

theorem wfType_iff {tbl : Schema} {T : TypeDef} (h : wfType tbl T = true) : WFT tbl T := by
  simp only [wfType, Bool.and_eq_true] at h
  obtain ⟨⟨⟨⟨⟨⟨⟨⟨⟨hn, _⟩, _⟩, _⟩, h1⟩, h2⟩, h3⟩, h4⟩, hnd⟩, hall⟩ := h
  rw [List.all_eq_true] at hall
  refine ⟨hn, hasKind_of_count h1, hasKind_of_count h2, hasKind_of_count h3, hasKind_of_count h4,
    ?_, ?_, ?_, ?_, ?_⟩
  · intro i j f g hi hj hf hg ht
    exact nodup_filter_map_inj (p := fun f => f.kind.isSub) (g := fun f => f.tag)
      ((nodupNat_iff _).1 hnd) i j f g hi hj hf hg ht
  · intro f hf
    have := hall f hf
    simp only [Bool.and_eq_true, decide_eq_true_eq] at this
    exact this.1.1.1
  · intro f hf k hk
    have := hall f hf
    simp only [Bool.and_eq_true, decide_eq_true_eq, List.all_eq_true] at this
    exact this.1.1.2 k hk
  · intro f hf hs
    have := hall f hf
    simp only [Bool.and_eq_true, Bool.or_eq_true, hs, Bool.false_eq_true, false_or,
      Bool.not_eq_true', List.isEmpty_iff] at this
    exact this.1.2
  · intro f hf hs
    have := hall f hf
    simp only [Bool.and_eq_true, Bool.or_eq_true, hs, Bool.not_true, Bool.false_eq_true, false_or,
      decide_eq_true_eq, beq_iff_eq] at this
    exact ⟨this.2.1.1, this.2.1.2, this.2.2⟩

/-- `wf` as propositions. -/
structure WFP (tbl : Schema) : Prop where
  names : tbl.kwNames.Nodup
  mapKeys : (tbl.nameMap.map (·.1)).Nodup
  mapRange : ∀ kt ∈ tbl.nameMap, kt.1 < tbl.kwNames.length ∧ kt.2 < tbl.types.length
  aliasRange : ∀ ab ∈ tbl.aliases, ab.1 < tbl.kwNames.length ∧ ab.2 < tbl.kwNames.length
  aliasKeys : (tbl.aliases.map (·.1)).Nodup
  types : ∀ T ∈ tbl.types, WFT tbl T
  top : wfTop tbl = true

theorem WF.toP {tbl : Schema} (h : WF tbl) : WFP tbl := by
  simp only [WF, wf, Bool.and_eq_true] at h
  obtain ⟨⟨⟨⟨⟨⟨h1, h2⟩, h3⟩, h4⟩, h5⟩, h6⟩, h7⟩ := h
  rw [List.all_eq_true] at h3 h4 h6
  refine ⟨(nodupBytes_iff _).1 h1, (nodupNat_iff _).1 h2, ?_, ?_, (nodupNat_iff _).1 h5, ?_, h7⟩
  · intro kt hkt
    have := h3 kt hkt
    simpa using this
  · intro ab hab
    have := h4 ab hab
    simpa using this
  · intro T hT
    exact wfType_iff (h6 T hT)


/-! ### ids versus spellings -/

theorem kwId_name {tbl : Schema} {kw : Bytes} {i : Nat} (h : tbl.kwId kw = some i) :
    tbl.kwName i = some kw := by
  simp only [Schema.kwId] at h
  split at h
  · rename_i hlt
    simp only [Option.some.injEq] at h
    subst h
    simp only [Schema.kwName]
    rw [List.getElem?_eq_getElem hlt, List.getElem_idxOf hlt]
  · cases h

theorem kwId_of_name {tbl : Schema} (hn : tbl.kwNames.Nodup) {kw : Bytes} {i : Nat}
    (h : tbl.kwName i = some kw) : tbl.kwId kw = some i := by
  simp only [Schema.kwName] at h
  obtain ⟨hi, hget⟩ := List.getElem?_eq_some_iff.1 h
  have : tbl.kwNames.idxOf kw = i := by
    rw [← hget]; exact List.Nodup.idxOf_getElem hn i hi
  simp only [Schema.kwId, this, hi, if_true]

theorem kwId_none {tbl : Schema} {kw : Bytes} (h : tbl.kwId kw = none) (i : Nat) :
    tbl.kwName i ≠ some kw := by
  intro hi
  simp only [Schema.kwId] at h
  split at h
  · cases h
  · rename_i hnlt
    apply hnlt
    apply List.idxOf_lt_length_of_mem
    simp only [Schema.kwName] at hi
    exact List.mem_of_getElem? hi

theorem kwName_inj {tbl : Schema} (hn : tbl.kwNames.Nodup) {i j : Nat} {kw : Bytes}
    (hi : tbl.kwName i = some kw) (hj : tbl.kwName j = some kw) : i = j := by
  have h1 := kwId_of_name hn hi
  have h2 := kwId_of_name hn hj
  rw [h1] at h2
  exact Option.some.inj h2

/-- With distinct names, "the name of id `k` is `kw`" is "`k` is the id of `kw`". -/
theorem name_beq_iff {tbl : Schema} (hn : tbl.kwNames.Nodup) (k : Nat) (kw : Bytes) :
    (tbl.kwName k == some kw) = (tbl.kwId kw == some k) := by
  by_cases h : tbl.kwName k = some kw
  · simp [h, kwId_of_name hn h]
  · have : tbl.kwId kw ≠ some k := fun h' => h (kwId_name h')
    rw [beq_eq_false_iff_ne.2 h, beq_eq_false_iff_ne.2 this]

theorem find?_congr' {α : Type} {p q : α → Bool} : ∀ {l : List α}, (∀ x ∈ l, p x = q x) → l.find? p = l.find? q := by
  intro l
  induction l with
  | nil => intro _; rfl
  | cons x xs ih =>
    intro h
    simp only [List.find?_cons, h x (List.mem_cons_self)]
    rw [ih (fun y hy => h y (List.mem_cons_of_mem _ hy))]

theorem lookup_eq_find? (k : Nat) : ∀ (l : List (Nat × Nat)),
    l.lookup k = (l.find? (fun ab => ab.1 == k)).map (·.2) := by
  intro l
  induction l with
  | nil => rfl
  | cons x xs ih =>
    obtain ⟨a, b⟩ := x
    simp only [List.lookup_cons, List.find?_cons]
    by_cases h : k = a
    · subst h; simp
    · have h' : (a == k) = false := by simp; exact fun e => h e.symm
      have h'' : (k == a) = false := by simp [h]
      simp [h', h'', ih]

/-- Looking a spelling up in an id-keyed association list. -/
theorem find?_by_name {tbl : Schema} (hn : tbl.kwNames.Nodup) (l : List (Nat × Nat)) (kw : Bytes) :
    (l.find? (fun ab => tbl.kwName ab.1 == some kw)).map (·.2) = (tbl.kwId kw).bind (fun i => List.lookup i l) := by
  cases hk : tbl.kwId kw with
  | none =>
    have : l.find? (fun ab => tbl.kwName ab.1 == some kw) = none := by
      rw [List.find?_eq_none]
      intro x _ hx
      exact kwId_none hk x.1 (by simpa using hx)
    simp [this]
  | some i =>
    have : l.find? (fun ab => tbl.kwName ab.1 == some kw) = l.find? (fun ab => ab.1 == i) := by
      apply find?_congr'
      intro x _
      rw [name_beq_iff hn, hk]
      simp only [Option.some_beq_some]
      exact BEq.comm
    rw [this, Option.bind_some, lookup_eq_find?]


theorem find?_name_none {tbl : Schema} {kw : Bytes} (hk : tbl.kwId kw = none) (l : List (Nat × Nat)) :
    l.find? (fun ab => tbl.kwName ab.1 == some kw) = none := by
  rw [List.find?_eq_none]
  intro x _ hx
  exact kwId_none hk x.1 (by simpa using hx)

theorem find?_name_some {tbl : Schema} (hn : tbl.kwNames.Nodup) {kw : Bytes} {i : Nat}
    (hk : tbl.kwId kw = some i) (l : List (Nat × Nat)) :
    l.find? (fun ab => tbl.kwName ab.1 == some kw) = l.find? (fun ab => ab.1 == i) := by
  apply find?_congr'
  intro x _
  rw [name_beq_iff hn, hk]
  simp only [Option.some_beq_some]
  exact BEq.comm

/-- The spelling a keyword is read as, by id. -/
theorem kwId_aliasName {tbl : Schema} (h : WFP tbl) (kw : Bytes) :
    tbl.kwId (aliasName tbl kw) = (tbl.kwId kw).map tbl.alias := by
  cases hk : tbl.kwId kw with
  | none =>
    simp only [aliasName, find?_name_none hk, Option.map_none]
    exact hk
  | some i =>
    simp only [aliasName, find?_name_some h.names hk, Option.map_some, Schema.alias, lookup_eq_find?]
    cases hf : tbl.aliases.find? (fun ab => ab.1 == i) with
    | none => simp [hk]
    | some ab =>
      have hmem : ab ∈ tbl.aliases := List.mem_of_find?_eq_some hf
      have hr := (h.aliasRange ab hmem).2
      have hname : tbl.kwName ab.2 = some tbl.kwNames[ab.2] := by
        simp only [Schema.kwName]; exact List.getElem?_eq_getElem hr
      simp only [hname, Option.map_some]
      exact kwId_of_name h.names hname

/-- The type registered for a keyword: the specification's reading by spelling agrees with the
builder's lookups. -/
theorem typeFor_eq {tbl : Schema} (h : WFP tbl) (kw : Bytes) :
    typeFor tbl kw = ((tbl.kwId kw).map tbl.alias).bind tbl.typeOf := by
  unfold typeFor
  rw [find?_by_name h.names, kwId_aliasName h]
  rfl


/-! ### the function table `y.funcs` -/

def isFn (tbl : Schema) (k : Nat) (f : Field) : Bool := f.kind.isSub && tbl.alias f.tag == k

theorem funcIdxAux_some {tbl : Schema} {k : Nat} : ∀ (fs : List Field) (n : Nat) (acc : Option Nat) (i : Nat),
    TypeDef.funcIdxAux tbl k fs n acc = some i →
      acc = some i ∨ ∃ (j : Nat) (f : Field), fs[j]? = some f ∧ i = n + j ∧ isFn tbl k f = true := by
  intro fs
  induction fs with
  | nil => intro n acc i h; left; simpa [TypeDef.funcIdxAux] using h
  | cons f fs ih =>
    intro n acc i h
    simp only [TypeDef.funcIdxAux] at h
    rcases ih (n + 1) _ i h with h1 | ⟨j, g, hj, hi, hg⟩
    · by_cases hf : (f.kind.isSub && tbl.alias f.tag == k) = true
      · rw [if_pos hf] at h1
        right
        exact ⟨0, f, by simp, by simpa using (Option.some.inj h1).symm, hf⟩
      · rw [if_neg hf] at h1
        left; exact h1
    · right
      exact ⟨j + 1, g, by simpa using hj, by omega, hg⟩

theorem funcIdxAux_none {tbl : Schema} {k : Nat} : ∀ (fs : List Field) (n : Nat) (acc : Option Nat),
    TypeDef.funcIdxAux tbl k fs n acc = none → acc = none ∧ ∀ f ∈ fs, isFn tbl k f = false := by
  intro fs
  induction fs with
  | nil => intro n acc h; exact ⟨by simpa [TypeDef.funcIdxAux] using h, by simp⟩
  | cons f fs ih =>
    intro n acc h
    simp only [TypeDef.funcIdxAux] at h
    obtain ⟨h1, h2⟩ := ih (n + 1) _ h
    by_cases hf : (f.kind.isSub && tbl.alias f.tag == k) = true
    · rw [if_pos hf] at h1; cases h1
    · rw [if_neg hf] at h1
      refine ⟨h1, ?_⟩
      intro g hg
      rcases List.mem_cons.1 hg with rfl | hg
      · simpa [isFn] using hf
      · exact h2 g hg

/-- `y.funcs[k]` present: it is the function of a substatement field registered under `k`. -/
theorem funcIdx_some {tbl : Schema} {T : TypeDef} {k i : Nat} (h : T.funcIdx tbl k = some i) :
    ∃ f, T.fields[i]? = some f ∧ f.kind.isSub = true ∧ tbl.alias f.tag = k := by
  rcases funcIdxAux_some T.fields 0 none i h with h0 | ⟨j, f, hj, hi, hf⟩
  · cases h0
  · simp only [Nat.zero_add] at hi
    subst hi
    simp only [isFn, Bool.and_eq_true, beq_iff_eq] at hf
    exact ⟨f, hj, hf.1, hf.2⟩

/-- `y.funcs[k]` absent: no substatement field is registered under `k`. -/
theorem funcIdx_none {tbl : Schema} {T : TypeDef} {k : Nat} (h : T.funcIdx tbl k = none) :
    ∀ f ∈ T.fields, f.kind.isSub = true → tbl.alias f.tag ≠ k := by
  intro f hf hs he
  have := (funcIdxAux_none T.fields 0 none h).2 f hf
  simp [isFn, hs, he] at this

/-! ### `strings.Split` versus counting colons -/

theorem splitColon_length (kw : Bytes) : (splitColon kw).length = kw.count 58 + 1 := by
  induction kw with
  | nil => simp [splitColon]
  | cons b rest ih =>
    simp only [splitColon]
    by_cases hb : b = 58
    · subst hb
      simp [ih]
    · rw [if_neg hb]
      have hc : List.count 58 (b :: rest) = List.count 58 rest := by
        rw [List.count_cons]
        have : (b == 58) = false := by simpa using hb
        simp [this]
      cases hs : splitColon rest with
      | nil => rw [hs] at ih; simp at ih
      | cons p ps => rw [hs] at ih; simp only [List.length_cons] at ih ⊢; omega

theorem isExtKw_eq (kw : Bytes) : isExtKw kw = prefixed kw := by
  simp only [isExtKw, prefixed, splitColon_length]
  by_cases h : List.count 58 kw = 1
  · simp [h]
  · have : ¬ (List.count 58 kw + 1 = 2) := by omega
    simp only [beq_eq_false_iff_ne.2 h, beq_eq_false_iff_ne.2 this]


/-! ### substatement keyword versus field -/

/-- K1: a function was found for `ss`: it belongs to a substatement field spelled like `ss`. -/
theorem fn_some {tbl : Schema} {T : TypeDef} (hT : WFT tbl T) {kw : Bytes} {i : Nat}
    (h : (tbl.kwId kw).bind (T.funcIdx tbl) = some i) :
    ∃ f, T.fields[i]? = some f ∧ f.kind.isSub = true ∧ tbl.kwName f.tag = some kw := by
  cases hk : tbl.kwId kw with
  | none => rw [hk] at h; cases h
  | some k =>
    rw [hk, Option.bind_some] at h
    obtain ⟨f, hf, hs, ha⟩ := funcIdx_some h
    have hmem : f ∈ T.fields := List.mem_of_getElem? hf
    rw [(hT.sub f hmem hs).2.1] at ha
    exact ⟨f, hf, hs, by rw [ha]; exact kwId_name hk⟩

/-- K2: no function for `ss`: its keyword is not known in the context. -/
theorem fn_none {tbl : Schema} (hw : WFP tbl) {T : TypeDef} (hT : WFT tbl T) {kw : Bytes}
    (h : (tbl.kwId kw).bind (T.funcIdx tbl) = none) : knownIn tbl T kw = false := by
  rw [Bool.eq_false_iff]
  intro hk
  simp only [knownIn, List.any_eq_true, fieldIs, Bool.and_eq_true, beq_iff_eq] at hk
  obtain ⟨f, hf, hs, hn⟩ := hk
  rw [kwId_of_name hw.names hn, Option.bind_some] at h
  exact funcIdx_none h f hf hs (hT.sub f hf hs).2.1

/-- The converse of K2. -/
theorem fn_of_known {tbl : Schema} (hw : WFP tbl) {T : TypeDef} (hT : WFT tbl T) {kw : Bytes}
    (h : knownIn tbl T kw = true) : ∃ i, (tbl.kwId kw).bind (T.funcIdx tbl) = some i := by
  cases hf : (tbl.kwId kw).bind (T.funcIdx tbl) with
  | some i => exact ⟨i, rfl⟩
  | none => rw [fn_none hw hT hf] at h; cases h

theorem known_of_field {tbl : Schema} {T : TypeDef} {f : Field} {i : Nat} {kw : Bytes}
    (hf : T.fields[i]? = some f) (hs : f.kind.isSub = true) (hn : tbl.kwName f.tag = some kw) :
    knownIn tbl T kw = true := by
  simp only [knownIn, List.any_eq_true, fieldIs, Bool.and_eq_true, beq_iff_eq]
  exact ⟨f, List.mem_of_getElem? hf, hs, hn⟩

/-- K3: another substatement field is spelled differently. -/
theorem other_field_ne {tbl : Schema} (hw : WFP tbl) {T : TypeDef} (hT : WFT tbl T) {kw : Bytes}
    {i j : Nat} {f g : Field} (hf : T.fields[i]? = some f) (hg : T.fields[j]? = some g)
    (hfs : f.kind.isSub = true) (hgs : g.kind.isSub = true) (hn : tbl.kwName f.tag = some kw)
    (hij : i ≠ j) : tbl.kwName g.tag ≠ some kw := by
  intro hgn
  exact hij (hT.subInj i j f g hf hg hfs hgs (kwName_inj hw.names hn hgn))

/-! ### pieces of `mirrors` and `accepts` -/

/-- What `mirrorsFields` asks of one field. -/
def fieldOk (tbl : Schema) (t : Nat) (subs : List Stmt) (f : Field) (kids : List ANode) : Bool :=
  if f.kind.isSub then
    mirrorsKids tbl t kids (subsOf tbl f subs) && (f.kind != .ptr || kids.length ≤ 1)
  else kids.isEmpty

theorem mirrorsFields_of_pointwise {tbl : Schema} {t : Nat} {subs : List Stmt} :
    ∀ (fs : List Field) (kidss : List (List ANode)), kidss.length = fs.length →
      (∀ (i : Nat) (f : Field) (kids : List ANode), fs[i]? = some f → kidss[i]? = some kids →
        fieldOk tbl t subs f kids = true) →
      mirrorsFields tbl t fs kidss subs = true := by
  intro fs
  induction fs with
  | nil =>
    intro kidss hl _
    cases kidss with
    | nil => simp [mirrorsFields]
    | cons _ _ => simp at hl
  | cons f fs ih =>
    intro kidss hl h
    cases kidss with
    | nil => simp at hl
    | cons kids rest =>
      simp only [mirrorsFields, Bool.and_eq_true]
      refine ⟨?_, ih rest (by simpa using hl) (fun i g k hg hk => h (i + 1) g k (by simpa using hg) (by simpa using hk))⟩
      have := h 0 f kids (by simp) (by simp)
      simpa [fieldOk] using this

theorem mirrorsFields_pointwise {tbl : Schema} {t : Nat} {subs : List Stmt} :
    ∀ (fs : List Field) (kidss : List (List ANode)), mirrorsFields tbl t fs kidss subs = true →
      kidss.length = fs.length ∧
      ∀ (i : Nat) (f : Field) (kids : List ANode), fs[i]? = some f → kidss[i]? = some kids →
        fieldOk tbl t subs f kids = true := by
  intro fs
  induction fs with
  | nil =>
    intro kidss h
    cases kidss with
    | nil => exact ⟨rfl, by intro i f kids hf; simp at hf⟩
    | cons _ _ => simp [mirrorsFields] at h
  | cons f fs ih =>
    intro kidss h
    cases kidss with
    | nil => simp [mirrorsFields] at h
    | cons kids rest =>
      simp only [mirrorsFields, Bool.and_eq_true] at h
      obtain ⟨h0, hrest⟩ := h
      obtain ⟨hl, hp⟩ := ih rest hrest
      refine ⟨by simp [hl], ?_⟩
      intro i g k hg hk
      cases i with
      | zero =>
        simp at hg hk; subst hg hk
        simpa [fieldOk] using h0
      | succ i => exact hp i g k (by simpa using hg) (by simpa using hk)

theorem mirrorsKids_append {tbl : Schema} {t : Nat} {c : ANode} {ss : Stmt}
    (hc : mirrors tbl (some t) c ss = true) :
    ∀ (kids : List ANode) (l : List Stmt), mirrorsKids tbl t kids l = true →
      mirrorsKids tbl t (kids ++ [c]) (l ++ [ss]) = true := by
  intro kids
  induction kids with
  | nil =>
    intro l h
    cases l with
    | nil => simp [mirrorsKids, hc]
    | cons _ _ => simp [mirrorsKids] at h
  | cons k ks ih =>
    intro l h
    cases l with
    | nil => simp [mirrorsKids] at h
    | cons s l =>
      simp only [mirrorsKids, Bool.and_eq_true, List.cons_append] at h ⊢
      exact ⟨h.1, ih l h.2⟩

theorem mirrorsKids_length {tbl : Schema} {t : Nat} :
    ∀ (kids : List ANode) (l : List Stmt), mirrorsKids tbl t kids l = true → kids.length = l.length := by
  intro kids
  induction kids with
  | nil =>
    intro l h
    cases l with
    | nil => rfl
    | cons _ _ => simp [mirrorsKids] at h
  | cons k ks ih =>
    intro l h
    cases l with
    | nil => simp [mirrorsKids] at h
    | cons s l =>
      simp only [mirrorsKids, Bool.and_eq_true] at h
      simp [ih l h.2]

theorem subsOf_append (tbl : Schema) (f : Field) (a b : List Stmt) :
    subsOf tbl f (a ++ b) = subsOf tbl f a ++ subsOf tbl f b := by
  simp [subsOf, List.filter_append]

theorem extsOf_append (tbl : Schema) (T : TypeDef) (a b : List Stmt) :
    extsOf tbl T (a ++ b) = extsOf tbl T a ++ extsOf tbl T b := by
  simp [extsOf, List.filter_append]

theorem acceptsSubs_append (tbl : Schema) (T : TypeDef) : ∀ (a b : List Stmt),
    acceptsSubs tbl T (a ++ b) = (acceptsSubs tbl T a && acceptsSubs tbl T b) := by
  intro a
  induction a with
  | nil => intro b; simp [acceptsSubs]
  | cons x xs ih => intro b; simp [acceptsSubs, ih, Bool.and_assoc]


/-! ### the loop invariant of `buildSubs` -/

/-- State of the node under construction after the substatements `pre` have been consumed. -/
structure Inv (tbl : Schema) (t : Nat) (T : TypeDef) (st : Partial) (pre : List Stmt) : Prop where
  len : st.fields.length = T.fields.length
  found : st.found = pre.map (fun ss => tbl.kwId ss.kw)
  exts : st.exts = extsOf tbl T pre
  all : pre.all (fun ss => knownIn tbl T ss.kw || prefixed ss.kw) = true
  acc : acceptsSubs tbl T pre = true
  fields : ∀ (i : Nat) (f : Field) (kids : List ANode), T.fields[i]? = some f →
    st.fields[i]? = some kids → fieldOk tbl t pre f kids = true

theorem Inv.init (tbl : Schema) (t : Nat) (T : TypeDef) :
    Inv tbl t T ⟨T.fields.map (fun _ => []), [], []⟩ [] := by
  refine ⟨by simp, rfl, rfl, rfl, rfl, ?_⟩
  intro i f kids hf hk
  simp only [List.getElem?_map, hf, Option.map_some, Option.some.injEq] at hk
  subst hk
  simp [fieldOk, subsOf, mirrorsKids]

theorem fieldOk_congr {tbl : Schema} {t : Nat} {f : Field} {kids : List ANode} {a b : List Stmt}
    (h : f.kind.isSub = true → subsOf tbl f a = subsOf tbl f b) :
    fieldOk tbl t a f kids = fieldOk tbl t b f kids := by
  unfold fieldOk
  by_cases hs : f.kind.isSub = true
  · rw [h hs]
  · simp [hs]

theorem subsOf_snoc_ne {tbl : Schema} {f : Field} {pre : List Stmt} {ss : Stmt}
    (h : tbl.kwName f.tag ≠ some ss.kw) : subsOf tbl f (pre ++ [ss]) = subsOf tbl f pre := by
  rw [subsOf_append]
  simp [subsOf, h]

theorem subsOf_snoc_eq {tbl : Schema} {f : Field} {pre : List Stmt} {ss : Stmt}
    (h : tbl.kwName f.tag = some ss.kw) : subsOf tbl f (pre ++ [ss]) = subsOf tbl f pre ++ [ss] := by
  rw [subsOf_append]
  simp [subsOf, h]

/-- One loop iteration keeps the invariant. -/
theorem addSub_inv {tbl : Schema} (hw : WFP tbl) {t : Nat} {T : TypeDef} (hT : WFT tbl T)
    {ss : Stmt} {st st' : Partial} {pre : List Stmt} {child : Unit → Except Err ANode}
    (hchild : ∀ c, child () = .ok c → mirrors tbl (some t) c ss = true ∧ accepts tbl ss = true)
    (hinv : Inv tbl t T st pre) (h : addSub tbl T ss st child = .ok st') :
    Inv tbl t T st' (pre ++ [ss]) := by
  unfold addSub at h
  simp only at h
  split at h
  · -- a function is registered for the keyword
    rename_i i hfi
    obtain ⟨f, hf, hfs, hfn⟩ := fn_some hT hfi
    have hknown : knownIn tbl T ss.kw = true := known_of_field hf hfs hfn
    split at h
    · rename_i f' cur hf' hcur
      rw [hf] at hf'
      cases hf'
      split at h
      · cases h
      · rename_i hnotset
        split at h
        · cases h
        · rename_i c hc
          split at h
          · cases h
          · obtain ⟨hmir, hacc⟩ := hchild c hc
            simp only [Except.ok.injEq] at h
            subst h
            refine ⟨by simp [hinv.len], by simp [hinv.found], ?_, ?_, ?_, ?_⟩
            · simp only [extsOf_append, hinv.exts]
              simp [extsOf, hknown]
            · simp only [List.all_append, hinv.all, Bool.true_and]
              simp [hknown]
            · rw [acceptsSubs_append, hinv.acc]
              simp [acceptsSubs, hknown, hacc]
            · intro j g kids hg hk
              simp only [List.getElem?_set] at hk
              by_cases hij : i = j
              · subst hij
                rw [hf] at hg
                cases hg
                have hlt : i < st.fields.length := by
                  rw [hinv.len]; exact (List.getElem?_eq_some_iff.1 hf).1
                simp only [if_true, hlt, Option.some.injEq] at hk
                subst hk
                have hold := hinv.fields i f cur hf hcur
                simp only [fieldOk, hfs, if_true, Bool.and_eq_true] at hold ⊢
                rw [subsOf_snoc_eq hfn]
                refine ⟨mirrorsKids_append hmir _ _ hold.1, ?_⟩
                by_cases hp : f.kind = .ptr
                · have : cur = [] := by
                    simp only [hp, decide_true, Bool.true_and, Bool.not_eq_true'] at hnotset
                    simpa using hnotset
                  simp [this]
                · simp [hp]
              · simp only [if_neg hij] at hk
                rw [fieldOk_congr (b := pre)]
                · exact hinv.fields j g kids hg hk
                · intro hgs
                  exact subsOf_snoc_ne (other_field_ne hw hT hf hg hfs hgs hfn hij)
    · cases h
  · -- no function: extension statement or unknown keyword
    rename_i hfn
    have hunk : knownIn tbl T ss.kw = false := fn_none hw hT hfn
    split at h
    · rename_i hext
      rw [isExtKw_eq] at hext
      split at h
      · simp only [Except.ok.injEq] at h
        subst h
        refine ⟨hinv.len, by simp [hinv.found], ?_, ?_, ?_, ?_⟩
        · simp only [extsOf_append, hinv.exts]
          simp [extsOf, hunk, hext]
        · simp only [List.all_append, hinv.all, Bool.true_and]
          simp [hext]
        · rw [acceptsSubs_append, hinv.acc]
          simp [acceptsSubs, hunk, hext]
        · intro j g kids hg hk
          rw [fieldOk_congr (b := pre)]
          · exact hinv.fields j g kids hg hk
          · intro hgs
            apply subsOf_snoc_ne
            intro hgn
            rw [known_of_field hg hgs hgn] at hunk
            cases hunk
      · cases h
    · cases h


/-- The whole loop keeps the invariant. -/
theorem buildSubs_inv {tbl : Schema} (hw : WFP tbl) {t : Nat} {T : TypeDef} (hT : WFT tbl T) :
    ∀ (rest : List Stmt),
      (∀ ss ∈ rest, ∀ c, build tbl ss (some t) = .ok c →
        mirrors tbl (some t) c ss = true ∧ accepts tbl ss = true) →
      ∀ (st : Partial) (pre : List Stmt) (st' : Partial), Inv tbl t T st pre →
        buildSubs tbl t T rest st = .ok st' → Inv tbl t T st' (pre ++ rest) := by
  intro rest
  induction rest with
  | nil =>
    intro _ st pre st' hinv h
    simp only [buildSubs, Except.ok.injEq] at h
    subst h
    simpa using hinv
  | cons ss rest ih =>
    intro hIH st pre st' hinv h
    rw [buildSubs] at h
    split at h
    · cases h
    · rename_i st1 h1
      have hinv1 := addSub_inv hw hT (fun c hc => hIH ss (List.mem_cons_self) c hc) hinv h1
      have := ih (fun x hx => hIH x (List.mem_cons_of_mem _ hx)) st1 (pre ++ [ss]) st' hinv1 h
      simpa using this

/-! ### the checks after the loop -/

theorem found_iff {tbl : Schema} (subs : List Stmt) (r : Nat) :
    (subs.map (fun ss => tbl.kwId ss.kw)).contains (some r) = true ↔
      ∃ ss ∈ subs, tbl.kwId ss.kw = some r := by
  simp only [List.contains_iff_mem, List.mem_map]

theorem subsOf_pos_iff {tbl : Schema} (f : Field) (subs : List Stmt) :
    1 ≤ (subsOf tbl f subs).length ↔ ∃ ss ∈ subs, tbl.kwName f.tag = some ss.kw := by
  constructor
  · intro h
    have hne : subsOf tbl f subs ≠ [] := by intro h0; rw [h0] at h; simp at h
    obtain ⟨ss, hss⟩ := List.exists_mem_of_ne_nil _ hne
    simp only [subsOf, List.mem_filter, beq_iff_eq] at hss
    exact ⟨ss, hss.1, hss.2⟩
  · rintro ⟨ss, hs, hn⟩
    have : ss ∈ subsOf tbl f subs := by
      simp only [subsOf, List.mem_filter, beq_iff_eq]; exact ⟨hs, hn⟩
    exact List.length_pos_of_mem this

theorem setParent_ok {tbl : Schema} {T : TypeDef} {parent par : Option Nat}
    (hi : T.hasKind .iface = true) (h : setParent tbl T parent = .ok par) : par = parent := by
  unfold setParent at h
  rw [if_pos hi] at h
  split at h
  · simpa using h.symm
  · split at h
    · cases h
    · split at h
      · simpa using h.symm
      · cases h

/-- `finish` succeeded: the node is assembled from the loop's state and every field's cardinality
rule holds. -/
theorem finish_ok {tbl : Schema} (hw : WFP tbl) {t : Nat} {T : TypeDef} (hT : WFT tbl T)
    {kw : Bytes} {pos : Nat × Nat} {name : Bytes} {src : Option Stmt} {par : Option Nat}
    {st : Partial} {subs : List Stmt} {a : ANode} (hinv : Inv tbl t T st subs)
    (h : finish tbl t T (tbl.kwId kw) pos name src par st = .ok a) :
    a = .mk t name src par st.fields st.exts ∧ T.fields.all (cardOk tbl kw subs) = true := by
  unfold finish at h
  simp only at h
  split at h
  · cases h
  rename_i h1
  split at h
  · cases h
  rename_i h2
  split at h
  · cases h
  rename_i h3
  simp only [Except.ok.injEq] at h
  refine ⟨h.symm, ?_⟩
  rw [List.all_eq_true]
  intro f hf
  unfold cardOk
  by_cases hs' : f.kind.isSub = false
  · simp [hs']
  have hs : f.kind.isSub = true := by simpa using hs'
  have halias : tbl.alias f.tag = f.tag := (hT.sub f hf hs).2.1
  have hfound : ∀ r, st.found.contains (some r) = true ↔ ∃ ss ∈ subs, tbl.kwName r = some ss.kw := by
    intro r
    rw [hinv.found, found_iff]
    constructor
    · rintro ⟨ss, hss, hk⟩; exact ⟨ss, hss, kwId_name hk⟩
    · rintro ⟨ss, hss, hk⟩; exact ⟨ss, hss, kwId_of_name hw.names hk⟩
  obtain ⟨i, hi⟩ := List.mem_iff_getElem?.1 hf
  have hlt : i < st.fields.length := by
    rw [hinv.len]; exact (List.getElem?_eq_some_iff.1 hi).1
  have hkids := hinv.fields i f st.fields[i] hi (List.getElem?_eq_getElem hlt)
  simp only [fieldOk, hs, if_true, Bool.and_eq_true, Bool.or_eq_true, decide_eq_true_eq] at hkids
  have hlen := mirrorsKids_length _ _ hkids.1
  simp only [hs, Bool.not_true, Bool.false_or, Bool.and_eq_true, Bool.or_eq_true,
    Bool.not_eq_true', decide_eq_true_eq, beq_iff_eq, bne_iff_ne, ne_eq]
  refine ⟨⟨⟨?_, ?_⟩, ?_⟩, ?_⟩
  · rcases hkids.2 with hp | hle
    · left; simpa using hp
    · right; rw [← hlen]; simpa using hle
  · by_cases hr : f.required = true
    · right
      rw [subsOf_pos_iff, ← hfound]
      simp only [TypeDef.required, List.any_map, List.any_filter, List.any_eq_true, Bool.and_eq_true,
        Function.comp, Bool.not_eq_true', not_exists, not_and] at h1
      have := h1 f hf hr
      rw [halias] at this
      simpa using this
    · left; simpa using hr
  · by_cases hk : ∃ k ∈ f.reqKinds, tbl.kwName k = some kw
    · right
      rw [subsOf_pos_iff, ← hfound]
      simp only [TypeDef.sRequired, List.any_map, List.any_filter, List.any_eq_true, Bool.and_eq_true,
        Function.comp, Bool.not_eq_true', not_exists, not_and, beq_iff_eq] at h2
      obtain ⟨k, hkm, hkn⟩ := hk
      have := h2 f hf ⟨k, hkm, (kwId_of_name hw.names hkn).symm⟩
      rw [halias] at this
      simpa using this
    · left
      rw [Bool.eq_false_iff]
      intro hany
      simp only [List.any_eq_true, beq_iff_eq] at hany
      exact hk hany
  · by_cases hk : ∃ k ∈ f.reqKinds, tbl.kwName k ≠ some kw
    · right
      simp only [TypeDef.sRequiredOther, List.any_map, List.any_filter, List.any_eq_true, Bool.and_eq_true,
        Function.comp, not_exists, not_and, bne_iff_ne, ne_eq] at h3
      obtain ⟨k, hkm, hkn⟩ := hk
      have hne : ¬ (some k = tbl.kwId kw) := fun e => hkn (kwId_name e.symm)
      have := h3 f hf ⟨k, hkm, hne⟩
      rw [halias] at this
      have hnot : ¬ ∃ ss ∈ subs, tbl.kwName f.tag = some ss.kw := by
        rw [← hfound]; simpa using this
      have : ¬ 1 ≤ (subsOf tbl f subs).length := by rw [subsOf_pos_iff]; exact hnot
      omega
    · left
      rw [Bool.eq_false_iff]
      intro hany
      simp only [List.any_eq_true, bne_iff_ne, ne_eq] at hany
      exact hk hany


/-! ### soundness of `build` -/

/-- A successful build mirrors the statement, and the statement tree has no defect. -/
theorem build_sound {tbl : Schema} (hw : WFP tbl) :
    ∀ (s : Stmt) (p : Option Nat) (a : ANode), build tbl s p = .ok a →
      mirrors tbl p a s = true ∧ accepts tbl s = true := by
  intro s
  induction s using Stmt.induct with
  | h kw ha arg line col subs ih =>
    intro p a h
    rw [build] at h
    simp only at h
    split at h
    · cases h
    rename_i t ht
    split at h
    · cases h
    rename_i T hTy
    have hT : WFT tbl T := hw.types T (List.mem_of_getElem? hTy)
    split at h
    · cases h
    rename_i par hpar
    have hpar' := setParent_ok hT.hasIface hpar
    subst hpar'
    split at h
    · cases h
    rename_i st hst
    have hinv := buildSubs_inv hw hT subs (fun ss hss c hc => ih ss hss (some t) c hc) _ [] st
      (Inv.init tbl t T) hst
    simp only [List.nil_append] at hinv
    obtain ⟨ha', hcard⟩ := finish_ok hw hT hinv h
    subst ha'
    have htf : typeFor tbl kw = some t := by rw [typeFor_eq hw]; exact ht
    constructor
    · simp only [mirrors, kw_mk, arg_mk, subs_mk, htf, hTy, hT.hasStr, hT.hasStmt, if_true,
        Bool.and_eq_true, decide_eq_true_eq, beq_self_eq_true, and_self, true_and]
      refine ⟨⟨decide_eq_true hinv.exts, hinv.all⟩, ?_⟩
      exact mirrorsFields_of_pointwise T.fields st.fields hinv.len hinv.fields
    · simp only [accepts, htf, hTy, Bool.and_eq_true]
      exact ⟨hinv.acc, hcard⟩


/-! ### no crash -/

/-- The enclosing node handed to `build` is absent or of a type that implements `Node`. -/
def ParentOk (tbl : Schema) (p : Option Nat) : Prop :=
  ∀ pt, p = some pt → ∃ P, tbl.types[pt]? = some P ∧ P.isNode = true

theorem mirrors_ty {tbl : Schema} {p : Option Nat} {a : ANode} {s : Stmt}
    (h : mirrors tbl p a s = true) : typeFor tbl s.kw = some a.ty := by
  cases a with
  | mk ty name src par fields exts =>
    simp only [mirrors] at h
    split at h
    · cases h
    · rename_i t ht
      split at h
      · cases h
      · simp only [Bool.and_eq_true, beq_iff_eq] at h
        rw [ht, h.1.1.1.1.1.1]
        rfl

/-- The type `build` gives the node of a substatement is the element type of its field. -/
theorem child_ty {tbl : Schema} (hw : WFP tbl) {T : TypeDef} (hT : WFT tbl T) {ss : Stmt} {i : Nat}
    {f : Field} (hfi : (tbl.kwId ss.kw).bind (T.funcIdx tbl) = some i) (hf : T.fields[i]? = some f)
    {p : Option Nat} {c : ANode} (hm : mirrors tbl p c ss = true) : c.ty = f.elem := by
  obtain ⟨f', hf', hfs, hfn⟩ := fn_some hT hfi
  rw [hf] at hf'; cases hf'
  have h1 := mirrors_ty hm
  rw [typeFor_eq hw, kwId_of_name hw.names hfn] at h1
  have hsub := hT.sub f (List.mem_of_getElem? hf) hfs
  simp only [Option.map_some, Option.bind_some, hsub.2.1, hsub.2.2, Option.some.injEq] at h1
  exact h1.symm

theorem addSub_no_crash {tbl : Schema} (hw : WFP tbl) {t : Nat} {T : TypeDef} (hT : WFT tbl T)
    {ss : Stmt} {st : Partial} {pre : List Stmt} {child : Unit → Except Err ANode} {e : Err}
    (hok : ∀ c, child () = .ok c → mirrors tbl (some t) c ss = true)
    (herr : ∀ e, child () = .error e → e.cls ≠ .crash)
    (hinv : Inv tbl t T st pre) (h : addSub tbl T ss st child = .error e) : e.cls ≠ .crash := by
  unfold addSub at h
  simp only at h
  split at h
  · rename_i i hfi
    obtain ⟨f, hf, hfs, hfn⟩ := fn_some hT hfi
    split at h
    · rename_i f' cur hf' hcur
      rw [hf] at hf'; cases hf'
      split at h
      · cases h; simp
      · split at h
        · rename_i e' he'
          cases h
          exact herr _ he'
        · rename_i c hc
          split at h
          · rename_i hne
            exact absurd (child_ty hw hT hfi hf (hok c hc)) hne
          · cases h
    · rename_i hnone
      have hlt : i < st.fields.length := by
        rw [hinv.len]; exact (List.getElem?_eq_some_iff.1 hf).1
      exact absurd (List.getElem?_eq_getElem hlt) (hnone f _ hf)
  · split at h
    · split at h
      · cases h
      · cases h; simp
    · cases h; simp

theorem finish_no_crash {tbl : Schema} {t : Nat} {T : TypeDef} {kid : Option Nat} {pos : Nat × Nat}
    {name : Bytes} {src : Option Stmt} {par : Option Nat} {st : Partial} {e : Err}
    (h : finish tbl t T kid pos name src par st = .error e) : e.cls ≠ .crash := by
  unfold finish at h
  simp only at h
  split at h
  · cases h; simp
  split at h
  · cases h; simp
  split at h
  · cases h; simp
  · cases h

theorem setParent_no_crash {tbl : Schema} {T : TypeDef} {p : Option Nat} (hp : ParentOk tbl p) {e : Err}
    (h : setParent tbl T p = .error e) : False := by
  unfold setParent at h
  split at h
  · split at h
    · cases h
    · rename_i pt
      obtain ⟨P, hP, hN⟩ := hp pt rfl
      rw [hP] at h
      simp [hN] at h
  · cases h

/-- Under a well-formed table `build` never takes a path on which the Go code panics. -/
theorem build_no_crash {tbl : Schema} (hw : WFP tbl) :
    ∀ (s : Stmt) (p : Option Nat) (e : Err), ParentOk tbl p → build tbl s p = .error e →
      e.cls ≠ .crash := by
  intro s
  induction s using Stmt.induct with
  | h kw ha arg line col subs ih =>
    intro p e hp h
    rw [build] at h
    simp only at h
    split at h
    · cases h; simp
    rename_i t ht
    split at h
    · rename_i hnone
      -- nameMap only holds type ids in range
      exfalso
      cases hk : tbl.kwId kw with
      | none => rw [hk] at ht; cases ht
      | some k =>
        rw [hk] at ht
        simp only [Option.map_some, Option.bind_some, Schema.typeOf, lookup_eq_find?, Option.map_eq_some_iff] at ht
        obtain ⟨kt, hfind, hkt⟩ := ht
        have hr := (hw.mapRange kt (List.mem_of_find?_eq_some hfind)).2
        rw [hkt] at hr
        rw [List.getElem?_eq_getElem hr] at hnone
        cases hnone
    rename_i T hTy
    have hT : WFT tbl T := hw.types T (List.mem_of_getElem? hTy)
    split at h
    · rename_i e' he'
      exact (setParent_no_crash hp he').elim
    split at h
    · rename_i e' he'
      cases h
      -- the loop failed
      have hpc : ParentOk tbl (some t) := by
        intro pt hpt; cases hpt; exact ⟨T, hTy, hT.isNode⟩
      have key : ∀ (rest : List Stmt), (∀ ss ∈ rest, ss ∈ subs) → ∀ (st : Partial) (pre : List Stmt) (e : Err),
          Inv tbl t T st pre → buildSubs tbl t T rest st = .error e → e.cls ≠ .crash := by
        intro rest
        induction rest with
        | nil => intro _ st pre e _ h; simp [buildSubs] at h
        | cons ss rest ihr =>
          intro hsub st pre e hinv h
          rw [buildSubs] at h
          have hss : ss ∈ subs := hsub ss List.mem_cons_self
          split at h
          · rename_i e1 h1
            cases h
            exact addSub_no_crash hw hT (fun c hc => (build_sound hw ss (some t) c hc).1)
              (fun e he => ih ss hss (some t) e hpc he) hinv h1
          · rename_i st1 h1
            have hinv1 := addSub_inv hw hT (fun c hc => build_sound hw ss (some t) c hc) hinv h1
            exact ihr (fun x hx => hsub x (List.mem_cons_of_mem _ hx)) st1 _ e hinv1 h
      exact key subs (fun _ h => h) _ [] _ (Inv.init tbl t T) he'
    · exact finish_no_crash h


/-! ### completeness: a statement tree without defect is built -/

theorem found_spelled {tbl : Schema} (hw : WFP tbl) {t : Nat} {T : TypeDef} {st : Partial}
    {subs : List Stmt} (hinv : Inv tbl t T st subs) (r : Nat) :
    st.found.contains (some r) = true ↔ ∃ ss ∈ subs, tbl.kwName r = some ss.kw := by
  rw [hinv.found, found_iff]
  constructor
  · rintro ⟨ss, hss, hk⟩; exact ⟨ss, hss, kwId_name hk⟩
  · rintro ⟨ss, hss, hk⟩; exact ⟨ss, hss, kwId_of_name hw.names hk⟩

/-- One loop iteration succeeds on an acceptable substatement. -/
theorem addSub_progress {tbl : Schema} (hw : WFP tbl) {t : Nat} {T : TypeDef} (hT : WFT tbl T)
    {ss : Stmt} {st : Partial} {pre : List Stmt} {child : Unit → Except Err ANode}
    (hinv : Inv tbl t T st pre)
    (hchild : knownIn tbl T ss.kw = true → ∃ c, child () = .ok c ∧ mirrors tbl (some t) c ss = true)
    (hpre : knownIn tbl T ss.kw = false → prefixed ss.kw = true)
    (hptr : ∀ f ∈ T.fields, f.kind = .ptr → tbl.kwName f.tag = some ss.kw → subsOf tbl f pre = []) :
    ∃ st', addSub tbl T ss st child = .ok st' := by
  unfold addSub
  simp only
  split
  · rename_i i hfi
    obtain ⟨f, hf, hfs, hfn⟩ := fn_some hT hfi
    have hknown : knownIn tbl T ss.kw = true := known_of_field hf hfs hfn
    have hlt : i < st.fields.length := by
      rw [hinv.len]; exact (List.getElem?_eq_some_iff.1 hf).1
    have hcur : st.fields[i]? = some st.fields[i] := List.getElem?_eq_getElem hlt
    rw [hf, hcur]
    simp only
    have hnot : ¬ ((decide (f.kind = .ptr) && !(st.fields[i]).isEmpty) = true) := by
      intro hc
      simp only [Bool.and_eq_true, decide_eq_true_eq, Bool.not_eq_true', List.isEmpty_eq_false_iff] at hc
      have hold := hinv.fields i f _ hf hcur
      simp only [fieldOk, hfs, if_true, Bool.and_eq_true] at hold
      have hl := mirrorsKids_length _ _ hold.1
      rw [hptr f (List.mem_of_getElem? hf) hc.1 hfn] at hl
      exact hc.2 (List.length_eq_zero_iff.1 hl)
    rw [if_neg hnot]
    obtain ⟨c, hc, hm⟩ := hchild hknown
    rw [hc]
    simp only
    have hty := child_ty hw hT hfi hf hm
    simp [hty]
  · rename_i hfn
    have hunk := fn_none hw hT hfn
    have hp := hpre hunk
    rw [isExtKw_eq, hp, hT.hasExt]
    simp

/-- The checks after the loop pass when every field's cardinality rule holds. -/
theorem finish_progress {tbl : Schema} (hw : WFP tbl) {t : Nat} {T : TypeDef} (hT : WFT tbl T)
    {kw : Bytes} {pos : Nat × Nat} {name : Bytes} {src : Option Stmt} {par : Option Nat}
    {st : Partial} {subs : List Stmt} (hinv : Inv tbl t T st subs)
    (hcard : T.fields.all (cardOk tbl kw subs) = true) :
    ∃ a, finish tbl t T (tbl.kwId kw) pos name src par st = .ok a := by
  rw [List.all_eq_true] at hcard
  have card : ∀ f ∈ T.fields, f.kind.isSub = true →
      (f.required = true → ∃ ss ∈ subs, tbl.kwName f.tag = some ss.kw) ∧
      ((∃ k ∈ f.reqKinds, tbl.kwName k = some kw) → ∃ ss ∈ subs, tbl.kwName f.tag = some ss.kw) ∧
      ((∃ k ∈ f.reqKinds, tbl.kwName k ≠ some kw) → ¬ ∃ ss ∈ subs, tbl.kwName f.tag = some ss.kw) := by
    intro f hf hs
    have := hcard f hf
    simp only [cardOk, hs, Bool.not_true, Bool.false_or, Bool.and_eq_true, Bool.or_eq_true,
      Bool.not_eq_true', decide_eq_true_eq, beq_iff_eq] at this
    obtain ⟨⟨⟨_, h2⟩, h3⟩, h4⟩ := this
    refine ⟨?_, ?_, ?_⟩
    · intro hr
      rw [← subsOf_pos_iff]
      rcases h2 with h2 | h2
      · rw [hr] at h2; cases h2
      · exact h2
    · intro hk
      rw [← subsOf_pos_iff]
      rcases h3 with h3 | h3
      · rw [Bool.eq_false_iff] at h3
        exact absurd (by simpa [List.any_eq_true] using hk) h3
      · exact h3
    · intro hk
      rw [← subsOf_pos_iff]
      rcases h4 with h4 | h4
      · rw [Bool.eq_false_iff] at h4
        exact absurd (by simpa [List.any_eq_true] using hk) h4
      · omega
  unfold finish
  simp only
  have c1 : ¬ ((T.required tbl).any (fun r => !st.found.contains (some r)) = true) := by
    intro h
    simp only [TypeDef.required, List.any_map, List.any_filter, List.any_eq_true, Bool.and_eq_true,
      Function.comp, Bool.not_eq_true'] at h
    obtain ⟨f, hf, hr, hnf⟩ := h
    cases hs : f.kind.isSub with
    | false => rw [(hT.metaPlain f hf hs).1] at hr; cases hr
    | true =>
      rw [(hT.sub f hf hs).2.1] at hnf
      have := (found_spelled hw hinv f.tag).2 ((card f hf hs).1 hr)
      rw [this] at hnf; cases hnf
  have c2 : ¬ ((T.sRequired tbl (tbl.kwId kw)).any (fun r => !st.found.contains (some r)) = true) := by
    intro h
    simp only [TypeDef.sRequired, List.any_map, List.any_filter, List.any_eq_true, Bool.and_eq_true,
      Function.comp, Bool.not_eq_true', beq_iff_eq] at h
    obtain ⟨f, hf, ⟨k, hk, hkid⟩, hnf⟩ := h
    cases hs : f.kind.isSub with
    | false => rw [(hT.metaPlain f hf hs).2] at hk; cases hk
    | true =>
      rw [(hT.sub f hf hs).2.1] at hnf
      have := (found_spelled hw hinv f.tag).2 ((card f hf hs).2.1 ⟨k, hk, kwId_name hkid.symm⟩)
      rw [this] at hnf; cases hnf
  have c3 : ¬ ((T.sRequiredOther tbl (tbl.kwId kw)).any (fun r => st.found.contains (some r)) = true) := by
    intro h
    simp only [TypeDef.sRequiredOther, List.any_map, List.any_filter, List.any_eq_true, Bool.and_eq_true,
      Function.comp, bne_iff_ne, ne_eq] at h
    obtain ⟨f, hf, ⟨k, hk, hkid⟩, hfd⟩ := h
    cases hs : f.kind.isSub with
    | false => rw [(hT.metaPlain f hf hs).2] at hk; cases hk
    | true =>
      rw [(hT.sub f hf hs).2.1] at hfd
      have hne : tbl.kwName k ≠ some kw := by
        intro hn
        exact hkid (kwId_of_name hw.names hn).symm
      exact (card f hf hs).2.2 ⟨k, hk, hne⟩ ((found_spelled hw hinv f.tag).1 hfd)
  rw [if_neg c1, if_neg c2, if_neg c3]
  exact ⟨_, rfl⟩

theorem setParent_progress {tbl : Schema} {T : TypeDef} {p : Option Nat} (hp : ParentOk tbl p) :
    ∃ par, setParent tbl T p = .ok par := by
  cases h : setParent tbl T p with
  | ok par => exact ⟨par, rfl⟩
  | error e => exact (setParent_no_crash hp h).elim

/-- Every statement tree without defect is built (for an absent or proper enclosing node). -/
theorem build_complete {tbl : Schema} (hw : WFP tbl) :
    ∀ (s : Stmt) (p : Option Nat), ParentOk tbl p → accepts tbl s = true →
      ∃ a, build tbl s p = .ok a := by
  intro s
  induction s using Stmt.induct with
  | h kw ha arg line col subs ih =>
    intro p hp hacc
    simp only [accepts] at hacc
    split at hacc
    · cases hacc
    rename_i t htf
    split at hacc
    · cases hacc
    rename_i T hTy
    simp only [Bool.and_eq_true] at hacc
    obtain ⟨hsubs, hcard⟩ := hacc
    have hT : WFT tbl T := hw.types T (List.mem_of_getElem? hTy)
    have ht : ((tbl.kwId kw).map tbl.alias).bind tbl.typeOf = some t := by
      rw [← typeFor_eq hw]; exact htf
    have hpc : ParentOk tbl (some t) := by
      intro pt hpt; cases hpt; exact ⟨T, hTy, hT.isNode⟩
    rw [build]
    simp only [ht, hTy]
    obtain ⟨par, hpar⟩ := setParent_progress (T := T) hp
    rw [hpar]
    simp only
    -- the loop
    have key : ∀ (rest : List Stmt) (pre : List Stmt) (st : Partial), pre ++ rest = subs →
        Inv tbl t T st pre → acceptsSubs tbl T rest = true →
        ∃ st', buildSubs tbl t T rest st = .ok st' ∧ Inv tbl t T st' subs := by
      intro rest
      induction rest with
      | nil =>
        intro pre st hsplit hinv _
        simp only [List.append_nil] at hsplit
        subst hsplit
        exact ⟨st, by simp [buildSubs], hinv⟩
      | cons ss rest ihr =>
        intro pre st hsplit hinv hrest
        have hss : ss ∈ subs := by rw [← hsplit]; simp
        simp only [acceptsSubs, Bool.and_eq_true] at hrest
        obtain ⟨hhead, htail⟩ := hrest
        have hch : knownIn tbl T ss.kw = true →
            ∃ c, build tbl ss (some t) = .ok c ∧ mirrors tbl (some t) c ss = true := by
          intro hk
          rw [if_pos hk] at hhead
          obtain ⟨c, hc⟩ := ih ss hss (some t) hpc hhead
          exact ⟨c, hc, (build_sound hw ss (some t) c hc).1⟩
        have hpre : knownIn tbl T ss.kw = false → prefixed ss.kw = true := by
          intro hk
          rw [hk] at hhead
          simpa using hhead
        have hptr : ∀ f ∈ T.fields, f.kind = .ptr → tbl.kwName f.tag = some ss.kw →
            subsOf tbl f pre = [] := by
          intro f hf hp hn
          rw [List.all_eq_true] at hcard
          have hc := hcard f hf
          have hs : f.kind.isSub = true := by rw [hp]; rfl
          simp only [cardOk, hs, Bool.not_true, Bool.false_or, Bool.and_eq_true, Bool.or_eq_true,
            decide_eq_true_eq] at hc
          have hle : (subsOf tbl f subs).length ≤ 1 := by
            rcases hc.1.1.1 with h | h
            · simp [hp] at h
            · exact h
          rw [← hsplit, subsOf_append] at hle
          have : ss ∈ subsOf tbl f (ss :: rest) := by
            simp only [subsOf, List.mem_filter, beq_iff_eq]
            exact ⟨List.mem_cons_self, hn⟩
          have hpos := List.length_pos_of_mem this
          rw [List.length_append] at hle
          exact List.length_eq_zero_iff.1 (by omega)
        obtain ⟨st1, h1⟩ := addSub_progress (child := fun _ => build tbl ss (some t)) hw hT hinv hch hpre hptr
        have hinv1 := addSub_inv hw hT (fun c hc => build_sound hw ss (some t) c hc) hinv h1
        obtain ⟨st', hst', hinv'⟩ := ihr (pre ++ [ss]) st1 (by rw [← hsplit]; simp) hinv1 htail
        refine ⟨st', ?_, hinv'⟩
        rw [buildSubs, h1]
        exact hst'
    obtain ⟨st, hst, hinv⟩ := key subs [] _ rfl (Inv.init tbl t T) hsubs
    rw [hst]
    simp only
    exact finish_progress hw hT hinv hcard


/-! ### top level: `Modules.Parse` / `Modules.add` -/

/-- `wfTop` as propositions. -/
structure WFTop (tbl : Schema) : Prop where
  mapMod : ∀ kt ∈ tbl.nameMap, kt.2 = tbl.moduleTy → tbl.kwName kt.1 = some kwModule
  aliasMod : ∀ ab ∈ tbl.aliases, tbl.kwName ab.2 = some kwModule → tbl.kwName ab.1 = some kwSubmodule
  otherKinds : ∀ (t : Nat) (T : TypeDef), tbl.types[t]? = some T → t ≠ tbl.moduleTy →
    ∀ k, (k = T.kind0 ∨ k ∈ T.kindIf.map (·.2)) →
      tbl.kwName k ≠ some kwModule ∧ tbl.kwName k ≠ some kwSubmodule
  modT : ∃ (T : TypeDef) (i k : Nat) (f : Field), tbl.types[tbl.moduleTy]? = some T ∧
    tbl.kwName T.kind0 = some kwModule ∧ T.kindIf = [(i, k)] ∧ tbl.kwName k = some kwSubmodule ∧
    T.fields[i]? = some f ∧ f.kind = .ptr ∧ (∀ r ∈ f.reqKinds, tbl.kwName r = some kwSubmodule) ∧
    f.reqKinds ≠ []

theorem wfTop_iff {tbl : Schema} (h : wfTop tbl = true) : WFTop tbl := by
  simp only [wfTop, Bool.and_eq_true] at h
  obtain ⟨⟨⟨⟨_, h1⟩, h2⟩, h3⟩, h4⟩ := h
  rw [List.all_eq_true] at h1 h2 h3
  refine ⟨?_, ?_, ?_, ?_⟩
  · intro kt hkt he
    have := h1 kt hkt
    simp only [Bool.or_eq_true, bne_iff_ne, ne_eq, beq_iff_eq] at this
    rcases this with h | h
    · exact absurd he h
    · exact h
  · intro ab hab he
    have := h2 ab hab
    simp only [Bool.or_eq_true, bne_iff_ne, ne_eq, beq_iff_eq] at this
    rcases this with h | h
    · exact absurd he h
    · exact h
  · intro t T hT hne k hk
    have hmem : (T, t) ∈ tbl.types.zipIdx := by
      rw [List.mem_zipIdx_iff_getElem?]; simpa using hT
    have := h3 (T, t) hmem
    simp only [Bool.or_eq_true, beq_iff_eq, hne, false_or, List.all_eq_true, Bool.and_eq_true,
      bne_iff_ne, ne_eq] at this
    apply this k
    rcases hk with hk | hk
    · simp [hk]
    · simp only [List.singleton_append, List.mem_cons]; right; exact hk
  · split at h4
    · cases h4
    · rename_i T hT
      simp only [Bool.and_eq_true, beq_iff_eq] at h4
      obtain ⟨hk0, h4⟩ := h4
      split at h4
      · rename_i i k hki
        simp only [Bool.and_eq_true, beq_iff_eq] at h4
        obtain ⟨hk, h4⟩ := h4
        split at h4
        · rename_i f hf
          simp only [Bool.and_eq_true, beq_iff_eq, List.all_eq_true, Bool.not_eq_true',
            List.isEmpty_eq_false_iff] at h4
          exact ⟨T, i, k, f, hT, hk0, hki, hk, hf, h4.1.1, h4.1.2, h4.2⟩
        · cases h4
      · cases h4

theorem kwModule_ne_kwSubmodule : kwModule ≠ kwSubmodule := by decide

/-- The type `Modules.add` accepts is produced for the keywords `module` and `submodule` only. -/
theorem kw_of_moduleTy {tbl : Schema} (hw : WFP tbl) {kw : Bytes}
    (h : typeFor tbl kw = some tbl.moduleTy) : kw = kwModule ∨ kw = kwSubmodule := by
  have hto := wfTop_iff hw.top
  rw [typeFor_eq hw] at h
  cases hk : tbl.kwId kw with
  | none => rw [hk] at h; cases h
  | some k =>
    rw [hk] at h
    simp only [Option.map_some, Option.bind_some, Schema.typeOf, lookup_eq_find?, Option.map_eq_some_iff] at h
    obtain ⟨kt, hfind, hkt⟩ := h
    have hkey : kt.1 = tbl.alias k := by
      have := List.find?_some hfind
      simpa using this
    have hname := hto.mapMod kt (List.mem_of_find?_eq_some hfind) hkt
    rw [hkey] at hname
    have hkw := kwId_name hk
    simp only [Schema.alias, lookup_eq_find?] at hname
    cases hf : tbl.aliases.find? (fun ab => ab.1 == k) with
    | none =>
      rw [hf] at hname
      simp only [Option.map_none] at hname
      rw [hkw] at hname
      left; exact Option.some.inj hname
    | some ab =>
      rw [hf] at hname
      simp only [Option.map_some] at hname
      have hab := hto.aliasMod ab (List.mem_of_find?_eq_some hf) hname
      have hk1 : ab.1 = k := by
        have := List.find?_some hf
        simpa using this
      rw [hk1, hkw] at hab
      right; exact Option.some.inj hab


/-- `mirrors`, one level unfolded. -/
theorem mirrors_iff {tbl : Schema} {p : Option Nat} {a : ANode} {s : Stmt} :
    mirrors tbl p a s = true ↔
      ∃ T, typeFor tbl s.kw = some a.ty ∧ tbl.types[a.ty]? = some T ∧
        a.name = s.arg ∧ a.src = some s ∧ a.parent = p ∧
        a.exts = extsOf tbl T s.subs ∧
        s.subs.all (fun ss => knownIn tbl T ss.kw || prefixed ss.kw) = true ∧
        a.fields.length = T.fields.length ∧
        ∀ (i : Nat) (f : Field) (kids : List ANode), T.fields[i]? = some f → a.fields[i]? = some kids →
          fieldOk tbl a.ty s.subs f kids = true := by
  cases a with
  | mk ty name src par fields exts =>
    simp only [mirrors, ANode.ty, ANode.name, ANode.src, ANode.parent, ANode.exts, ANode.fields]
    constructor
    · intro h
      split at h
      · cases h
      rename_i t ht
      split at h
      · cases h
      rename_i T hT
      simp only [Bool.and_eq_true, beq_iff_eq, decide_eq_true_eq] at h
      obtain ⟨⟨⟨⟨⟨⟨h1, h2⟩, h3⟩, h4⟩, h5⟩, h6⟩, h7⟩ := h
      subst h1
      obtain ⟨hl, hp⟩ := mirrorsFields_pointwise _ _ h7
      exact ⟨T, ht, hT, h2, h3, h4, h5, h6, hl, hp⟩
    · rintro ⟨T, ht, hT, h2, h3, h4, h5, h6, hl, hp⟩
      rw [ht]
      simp only [hT, Bool.and_eq_true, beq_iff_eq, decide_eq_true_eq]
      exact ⟨⟨⟨⟨⟨⟨trivial, h2⟩, h3⟩, h4⟩, h5⟩, h6⟩, mirrorsFields_of_pointwise _ _ hl hp⟩

/-- `accepts`, one level unfolded. -/
theorem accepts_iff {tbl : Schema} {s : Stmt} :
    accepts tbl s = true ↔
      ∃ t T, typeFor tbl s.kw = some t ∧ tbl.types[t]? = some T ∧
        acceptsSubs tbl T s.subs = true ∧ T.fields.all (cardOk tbl s.kw s.subs) = true := by
  cases s with
  | mk kw ha arg line col subs =>
    simp only [accepts, kw_mk, subs_mk]
    constructor
    · intro h
      split at h
      · cases h
      rename_i t ht
      split at h
      · cases h
      rename_i T hT
      simp only [Bool.and_eq_true] at h
      exact ⟨t, T, ht, hT, h.1, h.2⟩
    · rintro ⟨t, T, ht, hT, h1, h2⟩
      rw [ht]
      simp only [hT, Bool.and_eq_true]
      exact ⟨h1, h2⟩

theorem acceptsSubs_iff {tbl : Schema} {T : TypeDef} : ∀ (subs : List Stmt),
    acceptsSubs tbl T subs = true ↔
      ∀ ss ∈ subs, (knownIn tbl T ss.kw = true → accepts tbl ss = true) ∧
        (knownIn tbl T ss.kw = false → prefixed ss.kw = true) := by
  intro subs
  induction subs with
  | nil => simp [acceptsSubs]
  | cons x xs ih =>
    simp only [acceptsSubs, Bool.and_eq_true, ih, List.mem_cons, forall_eq_or_imp]
    constructor
    · rintro ⟨h1, h2⟩
      refine ⟨⟨?_, ?_⟩, h2⟩
      · intro hk; rw [if_pos hk] at h1; exact h1
      · intro hk; rw [hk] at h1; simpa using h1
    · rintro ⟨⟨h1, h2⟩, h3⟩
      refine ⟨?_, h3⟩
      cases hk : knownIn tbl T x.kw with
      | true => simpa using h1 hk
      | false => simpa using h2 hk


/-- `Module.Kind()` of a node built from a `submodule` statement is `submodule`, from a `module`
statement `module` (the `required=submodule` field is present in the one, absent in the other). -/
theorem nodeKind_module {tbl : Schema} (hw : WFP tbl) {a : ANode} {s : Stmt} {p : Option Nat}
    (hty : a.ty = tbl.moduleTy) (hm : mirrors tbl p a s = true) (hacc : accepts tbl s = true)
    {T : TypeDef} (hT : tbl.types[a.ty]? = some T) :
    (s.kw = kwSubmodule → tbl.kwName (nodeKind T a) = some kwSubmodule) ∧
    (s.kw = kwModule → tbl.kwName (nodeKind T a) = some kwModule) := by
  obtain ⟨T', i, k, f, hT', hk0, hki, hk, hf, hptr, hreq, hne⟩ := (wfTop_iff hw.top).modT
  rw [← hty, hT] at hT'
  cases hT'
  obtain ⟨T2, htf, hT2, _, _, _, _, _, hl, hp⟩ := mirrors_iff.1 hm
  rw [hT] at hT2; cases hT2
  have hlt : i < a.fields.length := by rw [hl]; exact (List.getElem?_eq_some_iff.1 hf).1
  have hget : a.fields[i]? = some a.fields[i] := List.getElem?_eq_getElem hlt
  have hkids := hp i f _ hf hget
  have hs : f.kind.isSub = true := by rw [hptr]; rfl
  simp only [fieldOk, hs, if_true, Bool.and_eq_true] at hkids
  have hlen := mirrorsKids_length _ _ hkids.1
  obtain ⟨t3, T3, ht3, hT3, _, hcard⟩ := accepts_iff.1 hacc
  rw [htf] at ht3; cases ht3
  rw [hT] at hT3; cases hT3
  rw [List.all_eq_true] at hcard
  have hc := hcard f (List.mem_of_getElem? hf)
  simp only [cardOk, hs, Bool.not_true, Bool.false_or, Bool.and_eq_true, Bool.or_eq_true,
    decide_eq_true_eq, Bool.not_eq_true', beq_iff_eq] at hc
  obtain ⟨⟨_, h3⟩, h4⟩ := hc
  obtain ⟨r, hr⟩ := List.exists_mem_of_ne_nil _ hne
  have hrn := hreq r hr
  have hgetD : a.fields.getD i [] = a.fields[i] := by
    rw [List.getD_eq_getElem?_getD, hget]; rfl
  have hkind : nodeKind T a = if (a.fields[i]).isEmpty then T.kind0 else k := by
    simp only [nodeKind, hki, List.find?_cons, List.find?_nil, hgetD]
    cases (a.fields[i]).isEmpty <;> rfl
  constructor
  · intro hkw
    have hpos : 1 ≤ (subsOf tbl f s.subs).length := by
      rcases h3 with h3 | h3
      · rw [Bool.eq_false_iff] at h3
        exfalso; apply h3
        rw [List.any_eq_true]
        exact ⟨r, hr, by rw [hkw, hrn]; simp⟩
      · exact h3
    have : (a.fields[i]).isEmpty = false := by
      rw [List.isEmpty_eq_false_iff]
      intro h0; rw [h0] at hlen; simp at hlen; omega
    rw [hkind, this]
    exact hk
  · intro hkw
    have hzero : (subsOf tbl f s.subs).length = 0 := by
      rcases h4 with h4 | h4
      · rw [Bool.eq_false_iff] at h4
        exfalso; apply h4
        rw [List.any_eq_true]
        refine ⟨r, hr, ?_⟩
        rw [hkw, hrn]
        simp only [bne_iff_ne, ne_eq, Option.some.injEq]
        exact fun e => kwModule_ne_kwSubmodule e.symm
      · exact h4
    have : (a.fields[i]).isEmpty = true := by
      rw [List.isEmpty_iff]
      exact List.length_eq_zero_iff.1 (by omega)
    rw [hkind, this]
    exact hk0

/-- What the first loop of `Modules.Parse` established for (node, statement). -/
def Built (tbl : Schema) (a : ANode) (s : Stmt) : Prop :=
  mirrors tbl none a s = true ∧ accepts tbl s = true

/-- `Built`, pairwise over two lists of equal length. -/
inductive AllBuilt (tbl : Schema) : List ANode → List Stmt → Prop where
  | nil : AllBuilt tbl [] []
  | cons {a : ANode} {s : Stmt} {as : List ANode} {ss : List Stmt} :
      Built tbl a s → AllBuilt tbl as ss → AllBuilt tbl (a :: as) (s :: ss)

theorem buildAll_sound {tbl : Schema} (hw : WFP tbl) : ∀ (ss : List Stmt) (nodes : List ANode),
    buildAll tbl ss = .ok nodes → AllBuilt tbl nodes ss := by
  intro ss
  induction ss with
  | nil =>
    intro nodes h
    simp only [buildAll, Except.ok.injEq] at h
    subst h
    exact AllBuilt.nil
  | cons s rest ih =>
    intro nodes h
    rw [buildAll] at h
    split at h
    · cases h
    rename_i a ha
    split at h
    · cases h
    split at h
    · cases h
    split at h
    · cases h
    rename_i as has
    simp only [Except.ok.injEq] at h
    subst h
    obtain ⟨hm, hacc⟩ := build_sound hw s none a ha
    exact AllBuilt.cons ⟨hm, hacc⟩ (ih as has)

/-- One node added: its statement is a module or submodule, and the node lands in `SubModules`
exactly for the keyword `submodule`. -/
theorem addTop_sound {tbl : Schema} (hw : WFP tbl) {dup : List TopMod → TopMod → Bool}
    {mods mods' : List TopMod} {a : ANode} {s : Stmt} (hb : Built tbl a s)
    (h : addTop tbl dup mods a = .ok mods') :
    ∃ m, mods' = mods ++ [m] ∧ m.node = a ∧
      (s.kw = kwModule ∨ s.kw = kwSubmodule) ∧ m.isSub = (s.kw == kwSubmodule) := by
  obtain ⟨hm, hacc⟩ := hb
  unfold addTop at h
  split at h
  · cases h
  rename_i T hT
  simp only at h
  split at h
  · cases h
  rename_i isSub hsub
  split at h
  · cases h
  split at h
  · cases h
  rename_i hty
  have hty : a.ty = tbl.moduleTy := by simpa using hty
  split at h
  · cases h
  simp only [Except.ok.injEq] at h
  have hkw := kw_of_moduleTy hw (by rw [← hty]; exact mirrors_ty hm)
  obtain ⟨hS, hM⟩ := nodeKind_module hw hty hm hacc hT
  refine ⟨_, h.symm, rfl, hkw, ?_⟩
  simp only
  rcases hkw with hkw | hkw
  · rw [hM hkw] at hsub
    simp only [beq_self_eq_true, if_true, Option.some.injEq] at hsub
    rw [← hsub, hkw]
    exact (beq_eq_false_iff_ne.2 kwModule_ne_kwSubmodule).symm
  · rw [hS hkw] at hsub
    have hne : (some kwSubmodule == some kwModule) = false := by
      rw [beq_eq_false_iff_ne]
      intro e
      exact kwModule_ne_kwSubmodule (Option.some.inj e).symm
    simp only [hne, Bool.false_eq_true, if_false, beq_self_eq_true, if_true, Option.some.injEq] at hsub
    rw [← hsub, hkw]
    simp

theorem addAll_sound {tbl : Schema} (hw : WFP tbl) {dup : List TopMod → TopMod → Bool} :
    ∀ (nodes : List ANode) (ss : List Stmt), AllBuilt tbl nodes ss →
      ∀ (mods mods' : List TopMod), addAll tbl dup nodes mods = .ok mods' →
        ∃ added, mods' = mods ++ added ∧
          mirrorsTop tbl (added.map fun m => (m.isSub, m.node)) ss = true ∧ acceptsTop tbl ss = true := by
  intro nodes ss hall
  induction hall with
  | nil =>
    intro mods mods' h
    simp only [addAll, Except.ok.injEq] at h
    exact ⟨[], by simp [h], by simp [mirrorsTop], by simp [acceptsTop]⟩
  | cons hb _ ih =>
    rename_i a s as rest
    intro mods mods' h
    rw [addAll] at h
    split at h
    · cases h
    rename_i mods1 h1
    obtain ⟨m, hm1, hnode, hkw, hsub⟩ := addTop_sound hw hb h1
    obtain ⟨added, hadd, hmt, hat⟩ := ih mods1 mods' h
    refine ⟨m :: added, by rw [hadd, hm1]; simp, ?_, ?_⟩
    · simp only [List.map_cons, mirrorsTop, Bool.and_eq_true, beq_iff_eq]
      rw [hnode]
      exact ⟨⟨hb.1, hsub⟩, hmt⟩
    · simp only [acceptsTop, List.all_cons, Bool.and_eq_true, Bool.or_eq_true, beq_iff_eq] at hat ⊢
      exact ⟨⟨hkw, hb.2⟩, hat⟩

/-- `Modules.Parse` succeeded: one node per top-level statement, in order, each mirroring its
statement; every statement is an acceptable module or submodule. -/
theorem parseTop_sound {tbl : Schema} (hw : WFP tbl) {dup : List TopMod → TopMod → Bool}
    {ss : List Stmt} {mods : List TopMod} (h : parseTop tbl dup ss = .ok mods) :
    mirrorsTop tbl (mods.map fun m => (m.isSub, m.node)) ss = true ∧ acceptsTop tbl ss = true := by
  unfold parseTop at h
  split at h
  · cases h
  rename_i nodes hn
  obtain ⟨added, hadd, hm, ha⟩ := addAll_sound hw nodes ss (buildAll_sound hw ss nodes hn) [] mods h
  simp only [List.nil_append] at hadd
  subst hadd
  exact ⟨hm, ha⟩

theorem nodeKind_mem (T : TypeDef) (a : ANode) :
    nodeKind T a = T.kind0 ∨ nodeKind T a ∈ T.kindIf.map (·.2) := by
  unfold nodeKind
  split
  · rename_i i k hfind
    right
    exact List.mem_map.2 ⟨(i, k), List.mem_of_find?_eq_some hfind, rfl⟩
  · left; rfl

theorem parentOk_none (tbl : Schema) : ParentOk tbl none := by
  intro pt h; cases h

theorem buildAll_no_crash {tbl : Schema} (hw : WFP tbl) : ∀ (ss : List Stmt) (e : Err),
    buildAll tbl ss = .error e → e.cls ≠ .crash := by
  intro ss
  induction ss with
  | nil => intro e h; simp [buildAll] at h
  | cons s rest ih =>
    intro e h
    rw [buildAll] at h
    split at h
    · rename_i e' he'
      cases h
      exact build_no_crash hw s none _ (parentOk_none tbl) he'
    rename_i a ha
    obtain ⟨hm, _⟩ := build_sound hw s none a ha
    obtain ⟨T, _, hT, _⟩ := mirrors_iff.1 hm
    rw [hT] at h
    simp only at h
    have hWT := hw.types T (List.mem_of_getElem? hT)
    simp only [hWT.isNode, Bool.not_true, Bool.false_eq_true, if_false] at h
    split at h
    · rename_i e' he'
      cases h
      exact ih _ he'
    · cases h

theorem addTop_no_crash {tbl : Schema} (hw : WFP tbl) {dup : List TopMod → TopMod → Bool}
    {mods : List TopMod} {a : ANode} {s : Stmt} (hb : Built tbl a s) {e : Err}
    (h : addTop tbl dup mods a = .error e) : e.cls ≠ .crash := by
  obtain ⟨T, _, hT, _⟩ := mirrors_iff.1 hb.1
  unfold addTop at h
  rw [hT] at h
  simp only at h
  split at h
  · cases h; simp
  rename_i isSub hsub
  split at h
  · cases h; simp
  split at h
  · rename_i hne
    exfalso
    have hne : a.ty ≠ tbl.moduleTy := by simpa using hne
    have hk := (wfTop_iff hw.top).otherKinds a.ty T hT hne (nodeKind T a) (nodeKind_mem T a)
    split at hsub
    · rename_i h1
      exact hk.1 (by simpa using h1)
    · split at hsub
      · rename_i h2
        exact hk.2 (by simpa using h2)
      · cases hsub
  split at h
  · cases h; simp
  · cases h

theorem addAll_no_crash {tbl : Schema} (hw : WFP tbl) {dup : List TopMod → TopMod → Bool} :
    ∀ (nodes : List ANode) (ss : List Stmt), AllBuilt tbl nodes ss →
      ∀ (mods : List TopMod) (e : Err), addAll tbl dup nodes mods = .error e → e.cls ≠ .crash := by
  intro nodes ss hall
  induction hall with
  | nil => intro mods e h; simp [addAll] at h
  | cons hb _ ih =>
    intro mods e h
    rw [addAll] at h
    split at h
    · rename_i e' he'
      cases h
      exact addTop_no_crash hw hb he'
    · exact ih _ e h

/-- `Modules.Parse` never takes a path on which the Go code panics. -/
theorem parseTop_no_crash {tbl : Schema} (hw : WFP tbl) {dup : List TopMod → TopMod → Bool}
    {ss : List Stmt} {e : Err} (h : parseTop tbl dup ss = .error e) : e.cls ≠ .crash := by
  unfold parseTop at h
  split at h
  · rename_i e' he'
    cases h
    exact buildAll_no_crash hw ss _ he'
  · rename_i nodes hn
    exact addAll_no_crash hw nodes ss (buildAll_sound hw ss nodes hn) [] e h

/-! ### helpers for the rejection theorems -/

theorem fails_of_not_ok {ε α : Type} {x : Except ε α} (h : ∀ a, x ≠ .ok a) : ∃ e, x = .error e := by
  cases x with
  | ok a => exact absurd rfl (h a)
  | error e => exact ⟨e, rfl⟩

theorem card_of_ok {tbl : Schema} (hw : WFP tbl) {s : Stmt} {p : Option Nat} {a : ANode}
    (hb : build tbl s p = .ok a) {t : Nat} {T : TypeDef} (ht : typeFor tbl s.kw = some t)
    (hT : tbl.types[t]? = some T) {f : Field} (hf : f ∈ T.fields) : cardOk tbl s.kw s.subs f = true := by
  obtain ⟨t', T', ht', hT', _, hc⟩ := accepts_iff.1 (build_sound hw s p a hb).2
  rw [ht] at ht'; cases ht'
  rw [hT] at hT'; cases hT'
  exact List.all_eq_true.1 hc f hf

end Goyang.Lemmas.Ast
