import Goyang.Model.Ast
import Goyang.Spec.Ast
/-
Helper lemmas for property C03 (AST builder): reading the table by id versus by spelling, the
function-table scan, the loop invariant of `buildSubs`.
-/
namespace Goyang.Lemmas.Ast
open Goyang.Model.Ast Goyang.Spec.Ast

@[simp] theorem kw_mk (k : Bytes) (h : Bool) (a : Bytes) (l c : Nat) (s : List Stmt) : (Stmt.mk k h a l c s).kw = k := rfl
@[simp] theorem arg_mk (k : Bytes) (h : Bool) (a : Bytes) (l c : Nat) (s : List Stmt) : (Stmt.mk k h a l c s).arg = a := rfl
@[simp] theorem subs_mk (k : Bytes) (h : Bool) (a : Bytes) (l c : Nat) (s : List Stmt) : (Stmt.mk k h a l c s).subs = s := rfl
@[simp] theorem line_mk (k : Bytes) (h : Bool) (a : Bytes) (l c : Nat) (s : List Stmt) : (Stmt.mk k h a l c s).line = l := rfl
@[simp] theorem col_mk (k : Bytes) (h : Bool) (a : Bytes) (l c : Nat) (s : List Stmt) : (Stmt.mk k h a l c s).col = c := rfl

/-! ### generic list facts -/

theorem nodupNat_iff (l : List Nat) : nodupNat l = true ↔ l.Nodup := by
  induction l with
  | nil => simp [nodupNat]
  | cons x xs ih => simp [nodupNat, List.nodup_cons, ih]

theorem nodupBytes_iff (l : List Bytes) : nodupBytes l = true ↔ l.Nodup := by
  induction l with
  | nil => simp [nodupBytes]
  | cons x xs ih => simp [nodupBytes, List.nodup_cons, ih]

theorem nodup_filter_map_inj {α : Type} {p : α → Bool} {g : α → Nat} :
    ∀ {l : List α}, ((l.filter p).map g).Nodup →
      ∀ (i j : Nat) (a b : α), l[i]? = some a → l[j]? = some b → p a = true → p b = true → g a = g b → i = j := by
  intro l
  induction l with
  | nil => intro _ i j a b hi; simp at hi
  | cons x xs ih =>
    intro hnd i j a b hi hj pa pb hg
    have htail : ((xs.filter p).map g).Nodup := by
      by_cases px : p x = true
      · simp [px, List.nodup_cons] at hnd; exact hnd.2
      · simp [px] at hnd; exact hnd
    have notin : ∀ (k : Nat) (c : α), xs[k]? = some c → p c = true → p x = true → g c ≠ g x := by
      intro k c hk pc px hgc
      simp [px, List.nodup_cons] at hnd
      exact hnd.1 c (List.mem_of_getElem? hk) pc hgc
    cases i with
    | zero =>
      cases j with
      | zero => rfl
      | succ j =>
        simp at hi hj; subst hi
        exact absurd hg.symm (notin j b hj pb pa)
    | succ i =>
      cases j with
      | zero =>
        simp at hi hj; subst hj
        exact absurd hg (notin i a hi pa pb)
      | succ j =>
        simp at hi hj
        rw [ih htail i j a b hi hj pa pb hg]

/-- Induction over statement trees with the hypothesis for all substatements. -/
theorem Stmt.induct {P : Stmt → Prop}
    (h : ∀ kw ha a l c subs, (∀ ss ∈ subs, P ss) → P (.mk kw ha a l c subs)) : ∀ s, P s := by
  intro s
  exact Stmt.rec (motive_1 := P) (motive_2 := fun l => ∀ ss ∈ l, P ss)
    (fun kw ha a l c subs ih => h kw ha a l c subs ih)
    (by intro ss hss; cases hss)
    (fun hd tl ih1 ih2 => by
      intro ss hss
      cases hss with
      | head => exact ih1
      | tail _ h' => exact ih2 ss h') s


/-! ### the well-formedness predicate, unpacked -/

/-- `wfType` as propositions. -/
structure WFT (tbl : Schema) (T : TypeDef) : Prop where
  isNode : T.isNode = true
  hasStr : T.hasKind .str = true
  hasStmt : T.hasKind .stmt = true
  hasIface : T.hasKind .iface = true
  hasExt : T.hasKind .ext = true
  subInj : ∀ (i j : Nat) (f g : Field), T.fields[i]? = some f → T.fields[j]? = some g →
    f.kind.isSub = true → g.kind.isSub = true → f.tag = g.tag → i = j
  tagRange : ∀ f ∈ T.fields, f.tag < tbl.kwNames.length
  reqRange : ∀ f ∈ T.fields, ∀ k ∈ f.reqKinds, k < tbl.kwNames.length
  metaPlain : ∀ f ∈ T.fields, f.kind.isSub = false → f.required = false ∧ f.reqKinds = []
  sub : ∀ f ∈ T.fields, f.kind.isSub = true →
    f.elem < tbl.types.length ∧ tbl.alias f.tag = f.tag ∧ tbl.typeOf f.tag = some f.elem

theorem hasKind_of_count {T : TypeDef} {k : FKind} (h : (countKind T k == 1) = true) :
    T.hasKind k = true := by
  simp only [countKind, beq_iff_eq] at h
  simp only [TypeDef.hasKind, List.any_eq_true]
  have hne : T.fields.filter (fun f => decide (f.kind = k)) ≠ [] := by
    intro h0; rw [h0] at h; simp at h
  obtain ⟨f, hf⟩ := List.exists_mem_of_ne_nil _ hne
  rw [List.mem_filter] at hf
  exact ⟨f, hf.1, hf.2⟩

theorem wfType_iff {tbl : Schema} {T : TypeDef} (h : wfType tbl T = true) : WFT tbl T := by
  simp only [wfType, Bool.and_eq_true] at h
  obtain ⟨⟨⟨⟨⟨⟨⟨⟨⟨hn, _⟩, _⟩, _⟩, h1⟩, h2⟩, h3⟩, h4⟩, hnd⟩, hall⟩ := h
  rw [List.all_eq_true] at hall
  refine ⟨hn, hasKind_of_count h1, hasKind_of_count h2, hasKind_of_count h3, hasKind_of_count h4,
    ?_, ?_, ?_, ?_, ?_⟩
  · intro i j f g hi hj hf hg ht
    exact nodup_filter_map_inj (p := fun f => f.kind.isSub) (g := fun f => f.tag)
      ((nodupNat_iff _).1 hnd) i j f g hi hj hf hg ht
  · intro f hf
    have := hall f hf
    simp only [Bool.and_eq_true, decide_eq_true_eq] at this
    exact this.1.1.1
  · intro f hf k hk
    have := hall f hf
    simp only [Bool.and_eq_true, decide_eq_true_eq, List.all_eq_true] at this
    exact this.1.1.2 k hk
  · intro f hf hs
    have := hall f hf
    simp only [Bool.and_eq_true, Bool.or_eq_true, hs, Bool.false_eq_true, false_or,
      Bool.not_eq_true', List.isEmpty_iff] at this
    exact this.1.2
  · intro f hf hs
    have := hall f hf
    simp only [Bool.and_eq_true, Bool.or_eq_true, hs, Bool.not_true, Bool.false_eq_true, false_or,
      decide_eq_true_eq, beq_iff_eq] at this
    exact ⟨this.2.1.1, this.2.1.2, this.2.2⟩

/-- `wf` as propositions. -/
structure WFP (tbl : Schema) : Prop where
  names : tbl.kwNames.Nodup
  mapKeys : (tbl.nameMap.map (·.1)).Nodup
  mapRange : ∀ kt ∈ tbl.nameMap, kt.1 < tbl.kwNames.length ∧ kt.2 < tbl.types.length
  aliasRange : ∀ ab ∈ tbl.aliases, ab.1 < tbl.kwNames.length ∧ ab.2 < tbl.kwNames.length
  aliasKeys : (tbl.aliases.map (·.1)).Nodup
  types : ∀ T ∈ tbl.types, WFT tbl T
  top : wfTop tbl = true

theorem WF.toP {tbl : Schema} (h : WF tbl) : WFP tbl := by
  simp only [WF, wf, Bool.and_eq_true] at h
  obtain ⟨⟨⟨⟨⟨⟨h1, h2⟩, h3⟩, h4⟩, h5⟩, h6⟩, h7⟩ := h
  rw [List.all_eq_true] at h3 h4 h6
  refine ⟨(nodupBytes_iff _).1 h1, (nodupNat_iff _).1 h2, ?_, ?_, (nodupNat_iff _).1 h5, ?_, h7⟩
  · intro kt hkt
    have := h3 kt hkt
    simpa using this
  · intro ab hab
    have := h4 ab hab
    simpa using this
  · intro T hT
    exact wfType_iff (h6 T hT)


/-! ### ids versus spellings -/

theorem kwId_name {tbl : Schema} {kw : Bytes} {i : Nat} (h : tbl.kwId kw = some i) :
    tbl.kwName i = some kw := by
  simp only [Schema.kwId] at h
  split at h
  · rename_i hlt
    simp only [Option.some.injEq] at h
    subst h
    simp only [Schema.kwName]
    rw [List.getElem?_eq_getElem hlt, List.getElem_idxOf hlt]
  · cases h

theorem kwId_of_name {tbl : Schema} (hn : tbl.kwNames.Nodup) {kw : Bytes} {i : Nat}
    (h : tbl.kwName i = some kw) : tbl.kwId kw = some i := by
  simp only [Schema.kwName] at h
  obtain ⟨hi, hget⟩ := List.getElem?_eq_some_iff.1 h
  have : tbl.kwNames.idxOf kw = i := by
    rw [← hget]; exact List.Nodup.idxOf_getElem hn i hi
  simp only [Schema.kwId, this, hi, if_true]

theorem kwId_none {tbl : Schema} {kw : Bytes} (h : tbl.kwId kw = none) (i : Nat) :
    tbl.kwName i ≠ some kw := by
  intro hi
  simp only [Schema.kwId] at h
  split at h
  · cases h
  · rename_i hnlt
    apply hnlt
    apply List.idxOf_lt_length_of_mem
    simp only [Schema.kwName] at hi
    exact List.mem_of_getElem? hi

theorem kwName_inj {tbl : Schema} (hn : tbl.kwNames.Nodup) {i j : Nat} {kw : Bytes}
    (hi : tbl.kwName i = some kw) (hj : tbl.kwName j = some kw) : i = j := by
  have h1 := kwId_of_name hn hi
  have h2 := kwId_of_name hn hj
  rw [h1] at h2
  exact Option.some.inj h2

/-- With distinct names, "the name of id `k` is `kw`" is "`k` is the id of `kw`". -/
theorem name_beq_iff {tbl : Schema} (hn : tbl.kwNames.Nodup) (k : Nat) (kw : Bytes) :
    (tbl.kwName k == some kw) = (tbl.kwId kw == some k) := by
  by_cases h : tbl.kwName k = some kw
  · simp [h, kwId_of_name hn h]
  · have : tbl.kwId kw ≠ some k := fun h' => h (kwId_name h')
    rw [beq_eq_false_iff_ne.2 h, beq_eq_false_iff_ne.2 this]

theorem find?_congr' {α : Type} {p q : α → Bool} : ∀ {l : List α}, (∀ x ∈ l, p x = q x) → l.find? p = l.find? q := by
  intro l
  induction l with
  | nil => intro _; rfl
  | cons x xs ih =>
    intro h
    simp only [List.find?_cons, h x (List.mem_cons_self)]
    rw [ih (fun y hy => h y (List.mem_cons_of_mem _ hy))]

theorem lookup_eq_find? (k : Nat) : ∀ (l : List (Nat × Nat)),
    l.lookup k = (l.find? (fun ab => ab.1 == k)).map (·.2) := by
  intro l
  induction l with
  | nil => rfl
  | cons x xs ih =>
    obtain ⟨a, b⟩ := x
    simp only [List.lookup_cons, List.find?_cons]
    by_cases h : k = a
    · subst h; simp
    · have h' : (a == k) = false := by simp; exact fun e => h e.symm
      have h'' : (k == a) = false := by simp [h]
      simp [h', h'', ih]

/-- Looking a spelling up in an id-keyed association list. -/
theorem find?_by_name {tbl : Schema} (hn : tbl.kwNames.Nodup) (l : List (Nat × Nat)) (kw : Bytes) :
    (l.find? (fun ab => tbl.kwName ab.1 == some kw)).map (·.2) = (tbl.kwId kw).bind (fun i => List.lookup i l) := by
  cases hk : tbl.kwId kw with
  | none =>
    have : l.find? (fun ab => tbl.kwName ab.1 == some kw) = none := by
      rw [List.find?_eq_none]
      intro x _ hx
      exact kwId_none hk x.1 (by simpa using hx)
    simp [this]
  | some i =>
    have : l.find? (fun ab => tbl.kwName ab.1 == some kw) = l.find? (fun ab => ab.1 == i) := by
      apply find?_congr'
      intro x _
      rw [name_beq_iff hn, hk]
      simp only [Option.some_beq_some]
      exact BEq.comm
    rw [this, Option.bind_some, lookup_eq_find?]


theorem find?_name_none {tbl : Schema} {kw : Bytes} (hk : tbl.kwId kw = none) (l : List (Nat × Nat)) :
    l.find? (fun ab => tbl.kwName ab.1 == some kw) = none := by
  rw [List.find?_eq_none]
  intro x _ hx
  exact kwId_none hk x.1 (by simpa using hx)

theorem find?_name_some {tbl : Schema} (hn : tbl.kwNames.Nodup) {kw : Bytes} {i : Nat}
    (hk : tbl.kwId kw = some i) (l : List (Nat × Nat)) :
    l.find? (fun ab => tbl.kwName ab.1 == some kw) = l.find? (fun ab => ab.1 == i) := by
  apply find?_congr'
  intro x _
  rw [name_beq_iff hn, hk]
  simp only [Option.some_beq_some]
  exact BEq.comm

/-- The spelling a keyword is read as, by id. -/
theorem kwId_aliasName {tbl : Schema} (h : WFP tbl) (kw : Bytes) :
    tbl.kwId (aliasName tbl kw) = (tbl.kwId kw).map tbl.alias := by
  cases hk : tbl.kwId kw with
  | none =>
    simp only [aliasName, find?_name_none hk, Option.map_none]
    exact hk
  | some i =>
    simp only [aliasName, find?_name_some h.names hk, Option.map_some, Schema.alias, lookup_eq_find?]
    cases hf : tbl.aliases.find? (fun ab => ab.1 == i) with
    | none => simp [hk]
    | some ab =>
      have hmem : ab ∈ tbl.aliases := List.mem_of_find?_eq_some hf
      have hr := (h.aliasRange ab hmem).2
      have hname : tbl.kwName ab.2 = some tbl.kwNames[ab.2] := by
        simp only [Schema.kwName]; exact List.getElem?_eq_getElem hr
      simp only [hname, Option.map_some]
      exact kwId_of_name h.names hname

/-- The type registered for a keyword: the specification's reading by spelling agrees with the
builder's lookups. -/
theorem typeFor_eq {tbl : Schema} (h : WFP tbl) (kw : Bytes) :
    typeFor tbl kw = ((tbl.kwId kw).map tbl.alias).bind tbl.typeOf := by
  unfold typeFor
  rw [find?_by_name h.names, kwId_aliasName h]
  rfl


/-! ### the function table `y.funcs` -/

def isFn (tbl : Schema) (k : Nat) (f : Field) : Bool := f.kind.isSub && tbl.alias f.tag == k

theorem funcIdxAux_some {tbl : Schema} {k : Nat} : ∀ (fs : List Field) (n : Nat) (acc : Option Nat) (i : Nat),
    TypeDef.funcIdxAux tbl k fs n acc = some i →
      acc = some i ∨ ∃ (j : Nat) (f : Field), fs[j]? = some f ∧ i = n + j ∧ isFn tbl k f = true := by
  intro fs
  induction fs with
  | nil => intro n acc i h; left; simpa [TypeDef.funcIdxAux] using h
  | cons f fs ih =>
    intro n acc i h
    simp only [TypeDef.funcIdxAux] at h
    rcases ih (n + 1) _ i h with h1 | ⟨j, g, hj, hi, hg⟩
    · by_cases hf : (f.kind.isSub && tbl.alias f.tag == k) = true
      · rw [if_pos hf] at h1
        right
        exact ⟨0, f, by simp, by simpa using (Option.some.inj h1).symm, hf⟩
      · rw [if_neg hf] at h1
        left; exact h1
    · right
      exact ⟨j + 1, g, by simpa using hj, by omega, hg⟩

theorem funcIdxAux_none {tbl : Schema} {k : Nat} : ∀ (fs : List Field) (n : Nat) (acc : Option Nat),
    TypeDef.funcIdxAux tbl k fs n acc = none → acc = none ∧ ∀ f ∈ fs, isFn tbl k f = false := by
  intro fs
  induction fs with
  | nil => intro n acc h; exact ⟨by simpa [TypeDef.funcIdxAux] using h, by simp⟩
  | cons f fs ih =>
    intro n acc h
    simp only [TypeDef.funcIdxAux] at h
    obtain ⟨h1, h2⟩ := ih (n + 1) _ h
    by_cases hf : (f.kind.isSub && tbl.alias f.tag == k) = true
    · rw [if_pos hf] at h1; cases h1
    · rw [if_neg hf] at h1
      refine ⟨h1, ?_⟩
      intro g hg
      rcases List.mem_cons.1 hg with rfl | hg
      · simpa [isFn] using hf
      · exact h2 g hg

/-- `y.funcs[k]` present: it is the function of a substatement field registered under `k`. -/
theorem funcIdx_some {tbl : Schema} {T : TypeDef} {k i : Nat} (h : T.funcIdx tbl k = some i) :
    ∃ f, T.fields[i]? = some f ∧ f.kind.isSub = true ∧ tbl.alias f.tag = k := by
  rcases funcIdxAux_some T.fields 0 none i h with h0 | ⟨j, f, hj, hi, hf⟩
  · cases h0
  · simp only [Nat.zero_add] at hi
    subst hi
    simp only [isFn, Bool.and_eq_true, beq_iff_eq] at hf
    exact ⟨f, hj, hf.1, hf.2⟩

/-- `y.funcs[k]` absent: no substatement field is registered under `k`. -/
theorem funcIdx_none {tbl : Schema} {T : TypeDef} {k : Nat} (h : T.funcIdx tbl k = none) :
    ∀ f ∈ T.fields, f.kind.isSub = true → tbl.alias f.tag ≠ k := by
  intro f hf hs he
  have := (funcIdxAux_none T.fields 0 none h).2 f hf
  simp [isFn, hs, he] at this

/-! ### `strings.Split` versus counting colons -/

theorem splitColon_length (kw : Bytes) : (splitColon kw).length = kw.count 58 + 1 := by
  induction kw with
  | nil => simp [splitColon]
  | cons b rest ih =>
    simp only [splitColon]
    by_cases hb : b = 58
    · subst hb
      simp [ih]
    · rw [if_neg hb]
      have hc : List.count 58 (b :: rest) = List.count 58 rest := by
        rw [List.count_cons]
        have : (b == 58) = false := by simpa using hb
        simp [this]
      cases hs : splitColon rest with
      | nil => rw [hs] at ih; simp at ih
      | cons p ps => rw [hs] at ih; simp only [List.length_cons] at ih ⊢; omega

theorem isExtKw_eq (kw : Bytes) : isExtKw kw = prefixed kw := by
  simp only [isExtKw, prefixed, splitColon_length]
  by_cases h : List.count 58 kw = 1
  · simp [h]
  · have : ¬ (List.count 58 kw + 1 = 2) := by omega
    simp only [beq_eq_false_iff_ne.2 h, beq_eq_false_iff_ne.2 this]


/-! ### substatement keyword versus field -/

/-- K1: a function was found for `ss`: it belongs to a substatement field spelled like `ss`. -/
theorem fn_some {tbl : Schema} {T : TypeDef} (hT : WFT tbl T) {kw : Bytes} {i : Nat}
    (h : (tbl.kwId kw).bind (T.funcIdx tbl) = some i) :
    ∃ f, T.fields[i]? = some f ∧ f.kind.isSub = true ∧ tbl.kwName f.tag = some kw := by
  cases hk : tbl.kwId kw with
  | none => rw [hk] at h; cases h
  | some k =>
    rw [hk, Option.bind_some] at h
    obtain ⟨f, hf, hs, ha⟩ := funcIdx_some h
    have hmem : f ∈ T.fields := List.mem_of_getElem? hf
    rw [(hT.sub f hmem hs).2.1] at ha
    exact ⟨f, hf, hs, by rw [ha]; exact kwId_name hk⟩

/-- K2: no function for `ss`: its keyword is not known in the context. -/
theorem fn_none {tbl : Schema} (hw : WFP tbl) {T : TypeDef} (hT : WFT tbl T) {kw : Bytes}
    (h : (tbl.kwId kw).bind (T.funcIdx tbl) = none) : knownIn tbl T kw = false := by
  rw [Bool.eq_false_iff]
  intro hk
  simp only [knownIn, List.any_eq_true, fieldIs, Bool.and_eq_true, beq_iff_eq] at hk
  obtain ⟨f, hf, hs, hn⟩ := hk
  rw [kwId_of_name hw.names hn, Option.bind_some] at h
  exact funcIdx_none h f hf hs (hT.sub f hf hs).2.1

/-- The converse of K2. -/
theorem fn_of_known {tbl : Schema} (hw : WFP tbl) {T : TypeDef} (hT : WFT tbl T) {kw : Bytes}
    (h : knownIn tbl T kw = true) : ∃ i, (tbl.kwId kw).bind (T.funcIdx tbl) = some i := by
  cases hf : (tbl.kwId kw).bind (T.funcIdx tbl) with
  | some i => exact ⟨i, rfl⟩
  | none => rw [fn_none hw hT hf] at h; cases h

theorem known_of_field {tbl : Schema} {T : TypeDef} {f : Field} {i : Nat} {kw : Bytes}
    (hf : T.fields[i]? = some f) (hs : f.kind.isSub = true) (hn : tbl.kwName f.tag = some kw) :
    knownIn tbl T kw = true := by
  simp only [knownIn, List.any_eq_true, fieldIs, Bool.and_eq_true, beq_iff_eq]
  exact ⟨f, List.mem_of_getElem? hf, hs, hn⟩

/-- K3: another substatement field is spelled differently. -/
theorem other_field_ne {tbl : Schema} (hw : WFP tbl) {T : TypeDef} (hT : WFT tbl T) {kw : Bytes}
    {i j : Nat} {f g : Field} (hf : T.fields[i]? = some f) (hg : T.fields[j]? = some g)
    (hfs : f.kind.isSub = true) (hgs : g.kind.isSub = true) (hn : tbl.kwName f.tag = some kw)
    (hij : i ≠ j) : tbl.kwName g.tag ≠ some kw := by
  intro hgn
  exact hij (hT.subInj i j f g hf hg hfs hgs (kwName_inj hw.names hn hgn))

/-! ### pieces of `mirrors` and `accepts` -/

/-- What `mirrorsFields` asks of one field. -/
def fieldOk (tbl : Schema) (t : Nat) (subs : List Stmt) (f : Field) (kids : List ANode) : Bool :=
  if f.kind.isSub then
    mirrorsKids tbl t kids (subsOf tbl f subs) && (f.kind != .ptr || kids.length ≤ 1)
  else kids.isEmpty

theorem mirrorsFields_of_pointwise {tbl : Schema} {t : Nat} {subs : List Stmt} :
    ∀ (fs : List Field) (kidss : List (List ANode)), kidss.length = fs.length →
      (∀ (i : Nat) (f : Field) (kids : List ANode), fs[i]? = some f → kidss[i]? = some kids →
        fieldOk tbl t subs f kids = true) →
      mirrorsFields tbl t fs kidss subs = true := by
  intro fs
  induction fs with
  | nil =>
    intro kidss hl _
    cases kidss with
    | nil => simp [mirrorsFields]
    | cons _ _ => simp at hl
  | cons f fs ih =>
    intro kidss hl h
    cases kidss with
    | nil => simp at hl
    | cons kids rest =>
      simp only [mirrorsFields, Bool.and_eq_true]
      refine ⟨?_, ih rest (by simpa using hl) (fun i g k hg hk => h (i + 1) g k (by simpa using hg) (by simpa using hk))⟩
      have := h 0 f kids (by simp) (by simp)
      simpa [fieldOk] using this

theorem mirrorsFields_pointwise {tbl : Schema} {t : Nat} {subs : List Stmt} :
    ∀ (fs : List Field) (kidss : List (List ANode)), mirrorsFields tbl t fs kidss subs = true →
      kidss.length = fs.length ∧
      ∀ (i : Nat) (f : Field) (kids : List ANode), fs[i]? = some f → kidss[i]? = some kids →
        fieldOk tbl t subs f kids = true := by
  intro fs
  induction fs with
  | nil =>
    intro kidss h
    cases kidss with
    | nil => exact ⟨rfl, by intro i f kids hf; simp at hf⟩
    | cons _ _ => simp [mirrorsFields] at h
  | cons f fs ih =>
    intro kidss h
    cases kidss with
    | nil => simp [mirrorsFields] at h
    | cons kids rest =>
      simp only [mirrorsFields, Bool.and_eq_true] at h
      obtain ⟨h0, hrest⟩ := h
      obtain ⟨hl, hp⟩ := ih rest hrest
      refine ⟨by simp [hl], ?_⟩
      intro i g k hg hk
      cases i with
      | zero =>
        simp at hg hk; subst hg hk
        simpa [fieldOk] using h0
      | succ i => exact hp i g k (by simpa using hg) (by simpa using hk)

theorem mirrorsKids_append {tbl : Schema} {t : Nat} {c : ANode} {ss : Stmt}
    (hc : mirrors tbl (some t) c ss = true) :
    ∀ (kids : List ANode) (l : List Stmt), mirrorsKids tbl t kids l = true →
      mirrorsKids tbl t (kids ++ [c]) (l ++ [ss]) = true := by
  intro kids
  induction kids with
  | nil =>
    intro l h
    cases l with
    | nil => simp [mirrorsKids, hc]
    | cons _ _ => simp [mirrorsKids] at h
  | cons k ks ih =>
    intro l h
    cases l with
    | nil => simp [mirrorsKids] at h
    | cons s l =>
      simp only [mirrorsKids, Bool.and_eq_true, List.cons_append] at h ⊢
      exact ⟨h.1, ih l h.2⟩

theorem mirrorsKids_length {tbl : Schema} {t : Nat} :
    ∀ (kids : List ANode) (l : List Stmt), mirrorsKids tbl t kids l = true → kids.length = l.length := by
  intro kids
  induction kids with
  | nil =>
    intro l h
    cases l with
    | nil => rfl
    | cons _ _ => simp [mirrorsKids] at h
  | cons k ks ih =>
    intro l h
    cases l with
    | nil => simp [mirrorsKids] at h
    | cons s l =>
      simp only [mirrorsKids, Bool.and_eq_true] at h
      simp [ih l h.2]

theorem subsOf_append (tbl : Schema) (f : Field) (a b : List Stmt) :
    subsOf tbl f (a ++ b) = subsOf tbl f a ++ subsOf tbl f b := by
  simp [subsOf, List.filter_append]

theorem extsOf_append (tbl : Schema) (T : TypeDef) (a b : List Stmt) :
    extsOf tbl T (a ++ b) = extsOf tbl T a ++ extsOf tbl T b := by
  simp [extsOf, List.filter_append]

theorem acceptsSubs_append (tbl : Schema) (T : TypeDef) : ∀ (a b : List Stmt),
    acceptsSubs tbl T (a ++ b) = (acceptsSubs tbl T a && acceptsSubs tbl T b) := by
  intro a
  induction a with
  | nil => intro b; simp [acceptsSubs]
  | cons x xs ih => intro b; simp [acceptsSubs, ih, Bool.and_assoc]


/-! ### the loop invariant of `buildSubs` -/

/-- State of the node under construction after the substatements `pre` have been consumed. -/
structure Inv (tbl : Schema) (t : Nat) (T : TypeDef) (st : Partial) (pre : List Stmt) : Prop where
  len : st.fields.length = T.fields.length
  found : st.found = pre.map (fun ss => tbl.kwId ss.kw)
  exts : st.exts = extsOf tbl T pre
  all : pre.all (fun ss => knownIn tbl T ss.kw || prefixed ss.kw) = true
  acc : acceptsSubs tbl T pre = true
  fields : ∀ (i : Nat) (f : Field) (kids : List ANode), T.fields[i]? = some f →
    st.fields[i]? = some kids → fieldOk tbl t pre f kids = true

theorem Inv.init (tbl : Schema) (t : Nat) (T : TypeDef) :
    Inv tbl t T ⟨T.fields.map (fun _ => []), [], []⟩ [] := by
  refine ⟨by simp, rfl, rfl, rfl, rfl, ?_⟩
  intro i f kids hf hk
  simp only [List.getElem?_map, hf, Option.map_some, Option.some.injEq] at hk
  subst hk
  simp [fieldOk, subsOf, mirrorsKids]

theorem fieldOk_congr {tbl : Schema} {t : Nat} {f : Field} {kids : List ANode} {a b : List Stmt}
    (h : f.kind.isSub = true → subsOf tbl f a = subsOf tbl f b) :
    fieldOk tbl t a f kids = fieldOk tbl t b f kids := by
  unfold fieldOk
  by_cases hs : f.kind.isSub = true
  · rw [h hs]
  · simp [hs]

theorem subsOf_snoc_ne {tbl : Schema} {f : Field} {pre : List Stmt} {ss : Stmt}
    (h : tbl.kwName f.tag ≠ some ss.kw) : subsOf tbl f (pre ++ [ss]) = subsOf tbl f pre := by
  rw [subsOf_append]
  simp [subsOf, h]

theorem subsOf_snoc_eq {tbl : Schema} {f : Field} {pre : List Stmt} {ss : Stmt}
    (h : tbl.kwName f.tag = some ss.kw) : subsOf tbl f (pre ++ [ss]) = subsOf tbl f pre ++ [ss] := by
  rw [subsOf_append]
  simp [subsOf, h]

/-- One loop iteration keeps the invariant. -/
theorem addSub_inv {tbl : Schema} (hw : WFP tbl) {t : Nat} {T : TypeDef} (hT : WFT tbl T)
    {ss : Stmt} {st st' : Partial} {pre : List Stmt} {child : Unit → Except Err ANode}
    (hchild : ∀ c, child () = .ok c → mirrors tbl (some t) c ss = true ∧ accepts tbl ss = true)
    (hinv : Inv tbl t T st pre) (h : addSub tbl T ss st child = .ok st') :
    Inv tbl t T st' (pre ++ [ss]) := by
  unfold addSub at h
  simp only at h
  split at h
  · -- a function is registered for the keyword
    rename_i i hfi
    obtain ⟨f, hf, hfs, hfn⟩ := fn_some hT hfi
    have hknown : knownIn tbl T ss.kw = true := known_of_field hf hfs hfn
    split at h
    · rename_i f' cur hf' hcur
      rw [hf] at hf'
      cases hf'
      split at h
      · cases h
      · rename_i hnotset
        split at h
        · cases h
        · rename_i c hc
          split at h
          · cases h
          · obtain ⟨hmir, hacc⟩ := hchild c hc
            simp only [Except.ok.injEq] at h
            subst h
            refine ⟨by simp [hinv.len], by simp [hinv.found], ?_, ?_, ?_, ?_⟩
            · simp only [extsOf_append, hinv.exts]
              simp [extsOf, hknown]
            · simp only [List.all_append, hinv.all, Bool.true_and]
              simp [hknown]
            · rw [acceptsSubs_append, hinv.acc]
              simp [acceptsSubs, hknown, hacc]
            · intro j g kids hg hk
              simp only [List.getElem?_set] at hk
              by_cases hij : i = j
              · subst hij
                rw [hf] at hg
                cases hg
                have hlt : i < st.fields.length := by
                  rw [hinv.len]; exact (List.getElem?_eq_some_iff.1 hf).1
                simp only [if_true, hlt, Option.some.injEq] at hk
                subst hk
                have hold := hinv.fields i f cur hf hcur
                simp only [fieldOk, hfs, if_true, Bool.and_eq_true] at hold ⊢
                rw [subsOf_snoc_eq hfn]
                refine ⟨mirrorsKids_append hmir _ _ hold.1, ?_⟩
                by_cases hp : f.kind = .ptr
                · have : cur = [] := by
                    simp only [hp, decide_true, Bool.true_and, Bool.not_eq_true'] at hnotset
                    simpa using hnotset
                  simp [this]
                · simp [hp]
              · simp only [if_neg hij] at hk
                rw [fieldOk_congr (b := pre)]
                · exact hinv.fields j g kids hg hk
                · intro hgs
                  exact subsOf_snoc_ne (other_field_ne hw hT hf hg hfs hgs hfn hij)
    · cases h
  · -- no function: extension statement or unknown keyword
    rename_i hfn
    have hunk : knownIn tbl T ss.kw = false := fn_none hw hT hfn
    split at h
    · rename_i hext
      rw [isExtKw_eq] at hext
      split at h
      · simp only [Except.ok.injEq] at h
        subst h
        refine ⟨hinv.len, by simp [hinv.found], ?_, ?_, ?_, ?_⟩
        · simp only [extsOf_append, hinv.exts]
          simp [extsOf, hunk, hext]
        · simp only [List.all_append, hinv.all, Bool.true_and]
          simp [hext]
        · rw [acceptsSubs_append, hinv.acc]
          simp [acceptsSubs, hunk, hext]
        · intro j g kids hg hk
          rw [fieldOk_congr (b := pre)]
          · exact hinv.fields j g kids hg hk
          · intro hgs
            apply subsOf_snoc_ne
            intro hgn
            rw [known_of_field hg hgs hgn] at hunk
            cases hunk
      · cases h
    · cases h


/-- The whole loop keeps the invariant. -/
theorem buildSubs_inv {tbl : Schema} (hw : WFP tbl) {t : Nat} {T : TypeDef} (hT : WFT tbl T) :
    ∀ (rest : List Stmt),
      (∀ ss ∈ rest, ∀ c, build tbl ss (some t) = .ok c →
        mirrors tbl (some t) c ss = true ∧ accepts tbl ss = true) →
      ∀ (st : Partial) (pre : List Stmt) (st' : Partial), Inv tbl t T st pre →
        buildSubs tbl t T rest st = .ok st' → Inv tbl t T st' (pre ++ rest) := by
  intro rest
  induction rest with
  | nil =>
    intro _ st pre st' hinv h
    simp only [buildSubs, Except.ok.injEq] at h
    subst h
    simpa using hinv
  | cons ss rest ih =>
    intro hIH st pre st' hinv h
    rw [buildSubs] at h
    split at h
    · cases h
    · rename_i st1 h1
      have hinv1 := addSub_inv hw hT (fun c hc => hIH ss (List.mem_cons_self) c hc) hinv h1
      have := ih (fun x hx => hIH x (List.mem_cons_of_mem _ hx)) st1 (pre ++ [ss]) st' hinv1 h
      simpa using this

/-! ### the checks after the loop -/

theorem found_iff {tbl : Schema} (subs : List Stmt) (r : Nat) :
    (subs.map (fun ss => tbl.kwId ss.kw)).contains (some r) = true ↔
      ∃ ss ∈ subs, tbl.kwId ss.kw = some r := by
  simp only [List.contains_iff_mem, List.mem_map]

theorem subsOf_pos_iff {tbl : Schema} (f : Field) (subs : List Stmt) :
    1 ≤ (subsOf tbl f subs).length ↔ ∃ ss ∈ subs, tbl.kwName f.tag = some ss.kw := by
  constructor
  · intro h
    have hne : subsOf tbl f subs ≠ [] := by intro h0; rw [h0] at h; simp at h
    obtain ⟨ss, hss⟩ := List.exists_mem_of_ne_nil _ hne
    simp only [subsOf, List.mem_filter, beq_iff_eq] at hss
    exact ⟨ss, hss.1, hss.2⟩
  · rintro ⟨ss, hs, hn⟩
    have : ss ∈ subsOf tbl f subs := by
      simp only [subsOf, List.mem_filter, beq_iff_eq]; exact ⟨hs, hn⟩
    exact List.length_pos_of_mem this

theorem setParent_ok {tbl : Schema} {T : TypeDef} {parent par : Option Nat}
    (hi : T.hasKind .iface = true) (h : setParent tbl T parent = .ok par) : par = parent := by
  unfold setParent at h
  rw [if_pos hi] at h
  split at h
  · simpa using h.symm
  · split at h
    · cases h
    · split at h
      · simpa using h.symm
      · cases h

/-- `finish` succeeded: the node is assembled from the loop's state and every field's cardinality
rule holds. -/
theorem finish_ok {tbl : Schema} (hw : WFP tbl) {t : Nat} {T : TypeDef} (hT : WFT tbl T)
    {kw : Bytes} {pos : Nat × Nat} {name : Bytes} {src : Option Stmt} {par : Option Nat}
    {st : Partial} {subs : List Stmt} {a : ANode} (hinv : Inv tbl t T st subs)
    (h : finish tbl t T (tbl.kwId kw) pos name src par st = .ok a) :
    a = .mk t name src par st.fields st.exts ∧ T.fields.all (cardOk tbl kw subs) = true := by
  unfold finish at h
  simp only at h
  split at h
  · cases h
  rename_i h1
  split at h
  · cases h
  rename_i h2
  split at h
  · cases h
  rename_i h3
  simp only [Except.ok.injEq] at h
  refine ⟨h.symm, ?_⟩
  rw [List.all_eq_true]
  intro f hf
  unfold cardOk
  by_cases hs' : f.kind.isSub = false
  · simp [hs']
  have hs : f.kind.isSub = true := by simpa using hs'
  have halias : tbl.alias f.tag = f.tag := (hT.sub f hf hs).2.1
  have hfound : ∀ r, st.found.contains (some r) = true ↔ ∃ ss ∈ subs, tbl.kwName r = some ss.kw := by
    intro r
    rw [hinv.found, found_iff]
    constructor
    · rintro ⟨ss, hss, hk⟩; exact ⟨ss, hss, kwId_name hk⟩
    · rintro ⟨ss, hss, hk⟩; exact ⟨ss, hss, kwId_of_name hw.names hk⟩
  obtain ⟨i, hi⟩ := List.mem_iff_getElem?.1 hf
  have hlt : i < st.fields.length := by
    rw [hinv.len]; exact (List.getElem?_eq_some_iff.1 hi).1
  have hkids := hinv.fields i f st.fields[i] hi (List.getElem?_eq_getElem hlt)
  simp only [fieldOk, hs, if_true, Bool.and_eq_true, Bool.or_eq_true, decide_eq_true_eq] at hkids
  have hlen := mirrorsKids_length _ _ hkids.1
  simp only [hs, Bool.not_true, Bool.false_or, Bool.and_eq_true, Bool.or_eq_true,
    Bool.not_eq_true', decide_eq_true_eq, beq_iff_eq, bne_iff_ne, ne_eq]
  refine ⟨⟨⟨?_, ?_⟩, ?_⟩, ?_⟩
  · rcases hkids.2 with hp | hle
    · left; simpa using hp
    · right; rw [← hlen]; simpa using hle
  · by_cases hr : f.required = true
    · right
      rw [subsOf_pos_iff, ← hfound]
      simp only [TypeDef.required, List.any_map, List.any_filter, List.any_eq_true, Bool.and_eq_true,
        Function.comp, Bool.not_eq_true', not_exists, not_and] at h1
      have := h1 f hf hr
      rw [halias] at this
      simpa using this
    · left; simpa using hr
  · by_cases hk : ∃ k ∈ f.reqKinds, tbl.kwName k = some kw
    · right
      rw [subsOf_pos_iff, ← hfound]
      simp only [TypeDef.sRequired, List.any_map, List.any_filter, List.any_eq_true, Bool.and_eq_true,
        Function.comp, Bool.not_eq_true', not_exists, not_and, beq_iff_eq] at h2
      obtain ⟨k, hkm, hkn⟩ := hk
      have := h2 f hf ⟨k, hkm, (kwId_of_name hw.names hkn).symm⟩
      rw [halias] at this
      simpa using this
    · left
      rw [Bool.eq_false_iff]
      intro hany
      simp only [List.any_eq_true, beq_iff_eq] at hany
      exact hk hany
  · by_cases hk : ∃ k ∈ f.reqKinds, tbl.kwName k ≠ some kw
    · right
      simp only [TypeDef.sRequiredOther, List.any_map, List.any_filter, List.any_eq_true, Bool.and_eq_true,
        Function.comp, not_exists, not_and, bne_iff_ne, ne_eq] at h3
      obtain ⟨k, hkm, hkn⟩ := hk
      have hne : ¬ (some k = tbl.kwId kw) := fun e => hkn (kwId_name e.symm)
      have := h3 f hf ⟨k, hkm, hne⟩
      rw [halias] at this
      have hnot : ¬ ∃ ss ∈ subs, tbl.kwName f.tag = some ss.kw := by
        rw [← hfound]; simpa using this
      have : ¬ 1 ≤ (subsOf tbl f subs).length := by rw [subsOf_pos_iff]; exact hnot
      omega
    · left
      rw [Bool.eq_false_iff]
      intro hany
      simp only [List.any_eq_true, bne_iff_ne, ne_eq] at hany
      exact hk hany


/-! ### soundness of `build` -/

/-- A successful build mirrors the statement, and the statement tree has no defect. -/
theorem build_sound {tbl : Schema} (hw : WFP tbl) :
    ∀ (s : Stmt) (p : Option Nat) (a : ANode), build tbl s p = .ok a →
      mirrors tbl p a s = true ∧ accepts tbl s = true := by
  intro s
  induction s using Stmt.induct with
  | h kw ha arg line col subs ih =>
    intro p a h
    rw [build] at h
    simp only at h
    split at h
    · cases h
    rename_i t ht
    split at h
    · cases h
    rename_i T hTy
    have hT : WFT tbl T := hw.types T (List.mem_of_getElem? hTy)
    split at h
    · cases h
    rename_i par hpar
    have hpar' := setParent_ok hT.hasIface hpar
    subst hpar'
    split at h
    · cases h
    rename_i st hst
    have hinv := buildSubs_inv hw hT subs (fun ss hss c hc => ih ss hss (some t) c hc) _ [] st
      (Inv.init tbl t T) hst
    simp only [List.nil_append] at hinv
    obtain ⟨ha', hcard⟩ := finish_ok hw hT hinv h
    subst ha'
    have htf : typeFor tbl kw = some t := by rw [typeFor_eq hw]; exact ht
    constructor
    · simp only [mirrors, kw_mk, arg_mk, subs_mk, htf, hTy, hT.hasStr, hT.hasStmt, if_true,
        Bool.and_eq_true, decide_eq_true_eq, beq_self_eq_true, and_self, true_and]
      refine ⟨⟨decide_eq_true hinv.exts, hinv.all⟩, ?_⟩
      exact mirrorsFields_of_pointwise T.fields st.fields hinv.len hinv.fields
    · simp only [accepts, htf, hTy, Bool.and_eq_true]
      exact ⟨hinv.acc, hcard⟩


/-! ### no crash -/

/-- The enclosing node handed to `build` is absent or of a type that implements `Node`. -/
def ParentOk (tbl : Schema) (p : Option Nat) : Prop :=
  ∀ pt, p = some pt → ∃ P, tbl.types[pt]? = some P ∧ P.isNode = true

theorem mirrors_ty {tbl : Schema} {p : Option Nat} {a : ANode} {s : Stmt}
    (h : mirrors tbl p a s = true) : typeFor tbl s.kw = some a.ty := by
  cases a with
  | mk ty name src par fields exts =>
    simp only [mirrors] at h
    split at h
    · cases h
    · rename_i t ht
      split at h
      · cases h
      · simp only [Bool.and_eq_true, beq_iff_eq] at h
        rw [ht, h.1.1.1.1.1.1]
        rfl

/-- The type `build` gives the node of a substatement is the element type of its field. -/
theorem child_ty {tbl : Schema} (hw : WFP tbl) {T : TypeDef} (hT : WFT tbl T) {ss : Stmt} {i : Nat}
    {f : Field} (hfi : (tbl.kwId ss.kw).bind (T.funcIdx tbl) = some i) (hf : T.fields[i]? = some f)
    {p : Option Nat} {c : ANode} (hm : mirrors tbl p c ss = true) : c.ty = f.elem := by
  obtain ⟨f', hf', hfs, hfn⟩ := fn_some hT hfi
  rw [hf] at hf'; cases hf'
  have h1 := mirrors_ty hm
  rw [typeFor_eq hw, kwId_of_name hw.names hfn] at h1
  have hsub := hT.sub f (List.mem_of_getElem? hf) hfs
  simp only [Option.map_some, Option.bind_some, hsub.2.1, hsub.2.2, Option.some.injEq] at h1
  exact h1.symm

theorem addSub_no_crash {tbl : Schema} (hw : WFP tbl) {t : Nat} {T : TypeDef} (hT : WFT tbl T)
    {ss : Stmt} {st : Partial} {pre : List Stmt} {child : Unit → Except Err ANode} {e : Err}
    (hok : ∀ c, child () = .ok c → mirrors tbl (some t) c ss = true)
    (herr : ∀ e, child () = .error e → e.cls ≠ .crash)
    (hinv : Inv tbl t T st pre) (h : addSub tbl T ss st child = .error e) : e.cls ≠ .crash := by
  unfold addSub at h
  simp only at h
  split at h
  · rename_i i hfi
    obtain ⟨f, hf, hfs, hfn⟩ := fn_some hT hfi
    split at h
    · rename_i f' cur hf' hcur
      rw [hf] at hf'; cases hf'
      split at h
      · cases h; simp
      · split at h
        · rename_i e' he'
          cases h
          exact herr _ he'
        · rename_i c hc
          split at h
          · rename_i hne
            exact absurd (child_ty hw hT hfi hf (hok c hc)) hne
          · cases h
    · rename_i hnone
      have hlt : i < st.fields.length := by
        rw [hinv.len]; exact (List.getElem?_eq_some_iff.1 hf).1
      exact absurd (List.getElem?_eq_getElem hlt) (hnone f _ hf)
  · split at h
    · split at h
      · cases h
      · cases h; simp
    · cases h; simp

theorem finish_no_crash {tbl : Schema} {t : Nat} {T : TypeDef} {kid : Option Nat} {pos : Nat × Nat}
    {name : Bytes} {src : Option Stmt} {par : Option Nat} {st : Partial} {e : Err}
    (h : finish tbl t T kid pos name src par st = .error e) : e.cls ≠ .crash := by
  unfold finish at h
  simp only at h
  split at h
  · cases h; simp
  split at h
  · cases h; simp
  split at h
  · cases h; simp
  · cases h

theorem setParent_no_crash {tbl : Schema} {T : TypeDef} {p : Option Nat} (hp : ParentOk tbl p) {e : Err}
    (h : setParent tbl T p = .error e) : False := by
  unfold setParent at h
  split at h
  · split at h
    · cases h
    · rename_i pt
      obtain ⟨P, hP, hN⟩ := hp pt rfl
      rw [hP] at h
      simp [hN] at h
  · cases h

/-- Under a well-formed table `build` never takes a path on which the Go code panics. -/
theorem build_no_crash {tbl : Schema} (hw : WFP tbl) :
    ∀ (s : Stmt) (p : Option Nat) (e : Err), ParentOk tbl p → build tbl s p = .error e →
      e.cls ≠ .crash := by
  intro s
  induction s using Stmt.induct with
  | h kw ha arg line col subs ih =>
    intro p e hp h
    rw [build] at h
    simp only at h
    split at h
    · cases h; simp
    rename_i t ht
    split at h
    · rename_i hnone
      -- nameMap only holds type ids in range
      exfalso
      cases hk : tbl.kwId kw with
      | none => rw [hk] at ht; cases ht
      | some k =>
        rw [hk] at ht
        simp only [Option.map_some, Option.bind_some, Schema.typeOf, lookup_eq_find?, Option.map_eq_some_iff] at ht
        obtain ⟨kt, hfind, hkt⟩ := ht
        have hr := (hw.mapRange kt (List.mem_of_find?_eq_some hfind)).2
        rw [hkt] at hr
        rw [List.getElem?_eq_getElem hr] at hnone
        cases hnone
    rename_i T hTy
    have hT : WFT tbl T := hw.types T (List.mem_of_getElem? hTy)
    split at h
    · rename_i e' he'
      exact (setParent_no_crash hp he').elim
    split at h
    · rename_i e' he'
      cases h
      -- the loop failed
      have hpc : ParentOk tbl (some t) := by
        intro pt hpt; cases hpt; exact ⟨T, hTy, hT.isNode⟩
      have key : ∀ (rest : List Stmt), (∀ ss ∈ rest, ss ∈ subs) → ∀ (st : Partial) (pre : List Stmt) (e : Err),
          Inv tbl t T st pre → buildSubs tbl t T rest st = .error e → e.cls ≠ .crash := by
        intro rest
        induction rest with
        | nil => intro _ st pre e _ h; simp [buildSubs] at h
        | cons ss rest ihr =>
          intro hsub st pre e hinv h
          rw [buildSubs] at h
          have hss : ss ∈ subs := hsub ss List.mem_cons_self
          split at h
          · rename_i e1 h1
            cases h
            exact addSub_no_crash hw hT (fun c hc => (build_sound hw ss (some t) c hc).1)
              (fun e he => ih ss hss (some t) e hpc he) hinv h1
          · rename_i st1 h1
            have hinv1 := addSub_inv hw hT (fun c hc => build_sound hw ss (some t) c hc) hinv h1
            exact ihr (fun x hx => hsub x (List.mem_cons_of_mem _ hx)) st1 _ e hinv1 h
      exact key subs (fun _ h => h) _ [] _ (Inv.init tbl t T) he'
    · exact finish_no_crash h

end Goyang.Lemmas.Ast
