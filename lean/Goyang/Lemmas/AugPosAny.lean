/-
C07 bridge, `AugPosDistinct` for ALL byte strings: composition of
* `Lemmas/AugPosLex.lean`     — the lexer model hands out tokens at strictly increasing (line, col),
* `Lemmas/AugPosParse.lean`   — the generic parser builds forests whose sibling statements stand in
                                 increasing position order over any such token source,
* `Lemmas/AugPosLoadAny.lean` — transport through `toStmt?` and `Registry.add`.
No admissibility hypothesis on the texts is left.
-/
import Goyang.Lemmas.AugPosLex
import Goyang.Lemmas.AugPosParse
import Goyang.Lemmas.AugPosLoadAny

namespace Goyang.Lemmas.AugPosAny
open Goyang.Model Goyang.Lemmas.AugPosOrd

/-- **Every forest the byte-level parser model accepts, for every byte string, has its sibling
statements (top level and every level below) at strictly increasing (line, col).** -/
theorem parseText_forestOK (name text : List UInt8) (forest : List Parse.Statement)
    (h : Parse.parseText name text = .ok forest) : ForestOK forest :=
  AugPosParse.parseWith_forestOK Parse.lexSource AugPosLex.LInv AugPosLex.lexSource_mono
    (Parse.parseFuel text.length) (Lex.newLexer text name) (AugPosLex.newLexer_inv text name) forest h

theorem parserOK : AugPosLoadAny.ParserOK := parseText_forestOK

/-- **Every registry loaded from raw texts — any byte strings — has its augment statements at
pairwise different positions.** -/
theorem augPosDistinct_loadTexts_any (texts : List (List UInt8 × List UInt8)) :
    Bridge.AugPosDistinct (loadTexts texts).1 :=
  AugPosLoadAny.augPosDistinct_loadTexts_any parserOK texts

end Goyang.Lemmas.AugPosAny
