/-
C07 bridge, `AugPosDistinct` for ALL byte strings, lexer part: the tokens (error tokens aside) the
byte-level lexer model hands out stand at strictly increasing (line, col), whatever the bytes are
(ill-formed UTF-8, comment openers inside tokens, any quoted-string shape).

The cursor `(line, col)` of the model is NOT a function of the byte offset (`peek` on a newline
resets `col` to 0 on the way back: Go's `backup` does the same), so the proof does not go through
offsets.  It carries the invariant `F q l`: the cursor stands after `q`, or the next rune is a newline
and `q` is on an earlier-or-equal line (the next token then starts on a later line).
-/
import Goyang.Lemmas.Lex
import Goyang.Lemmas.AugPosOrd

set_option linter.unusedVariables false
namespace Goyang.Lemmas.AugPosLex
open Goyang.Model.Lex Goyang.Model.Utf8 Goyang.Lemmas.Utf8 Goyang.Lemmas.Lex Goyang.Lemmas.AugPosOrd
open Goyang.Model.Parse (Source lexSource skipErrors)

/-- the queued tokens that are not error tokens -/
def noErr (ts : List Token) : List Token := ts.filter (fun t => decide (t.code ≠ Code.error))

theorem noErr_append (a b : List Token) : noErr (a ++ b) = noErr a ++ noErr b := by
  unfold noErr; simp [List.filter_append]

def Cur0 (l : Lexer) : Prop := 0 ≤ l.line ∧ 0 ≤ l.col

/-! ### cursor movement of the primitives -/

theorem next_cur (l : Lexer) (h0 : Cur0 l) :
    Cur0 (next l).2 ∧
    ((next l).1 = 10 → (next l).2.line = l.line + 1 ∧ (next l).2.col = 0) ∧
    ((next l).1 ≠ 10 → l.rest ≠ [] → (next l).2.line = l.line ∧ (next l).2.col = l.col + 1) ∧
    (l.rest = [] → (next l).2.line = l.line ∧ (next l).2.col = l.col) := by
  unfold Cur0 at *
  by_cases h : l.rest = []
  · rw [next_nil l h]
    simp [eofRune, h, h0]
  · unfold next
    split
    · rename_i h'; exact absurd h' h
    · simp only
      split
      · rename_i hr; simp [hr, h]; omega
      · split
        · rename_i hr1 hr2; simp [hr1, h]; omega
        · rename_i hr1 hr2; simp [hr1, h]; omega

theorem peek_cur (l : Lexer) (h0 : Cur0 l) :
    Cur0 (peek l).2 ∧ (peek l).2.line = l.line ∧
    ((next l).1 ≠ 10 → (peek l).2.col = l.col) ∧ ((next l).1 = 10 → (peek l).2.col = 0) := by
  have hm := next_move l
  obtain ⟨c0, c1, c2, c3⟩ := next_cur l h0
  unfold Cur0 at *
  unfold peek
  simp only
  unfold backup Lexer.pos
  rw [if_neg (by omega)]
  simp only
  by_cases hr : l.rest = []
  · have hw : (next l).2.width = 0 := by rw [next_nil l hr]
    have h1 : (next l).1 ≠ 10 := by rw [next_nil l hr]; simp [eofRune]
    obtain ⟨e1, e2⟩ := c3 hr
    rw [if_neg (by omega)]
    simp only
    refine ⟨⟨by omega, by omega⟩, e1, fun _ => e2, fun h => absurd h h1⟩
  · have hw := hm.2.2 hr
    rw [if_pos (by omega)]
    by_cases h10 : (next l).1 = 10
    · obtain ⟨e1, e2⟩ := c1 h10
      rw [if_pos (by omega)]
      simp only
      refine ⟨⟨by omega, by omega⟩, by omega, fun h => absurd h10 h, fun _ => trivial⟩
    · obtain ⟨e1, e2⟩ := c2 h10 hr
      rw [if_neg (by omega)]
      simp only
      refine ⟨⟨by omega, by omega⟩, e1, fun _ => by omega, fun h => absurd h h10⟩

/-- the cursor moved weakly forward, nothing else the invariant looks at changed -/
def Adv (l l' : Lexer) : Prop :=
  Frame l l' ∧ (Cur0 l → Cur0 l' ∧ (l.line < l'.line ∨ (l.line = l'.line ∧ l.col ≤ l'.col)))

theorem Adv.trans {a b c : Lexer} (h1 : Adv a b) (h2 : Adv b c) : Adv a c := by
  refine ⟨h1.1.trans h2.1, fun h0 => ?_⟩
  obtain ⟨g1, g2⟩ := h1.2 h0
  obtain ⟨k1, k2⟩ := h2.2 g1
  exact ⟨k1, by omega⟩

theorem next_adv (l : Lexer) : Adv l (next l).2 := by
  refine ⟨next_frame l, fun h0 => ?_⟩
  obtain ⟨c0, c1, c2, c3⟩ := next_cur l h0
  refine ⟨c0, ?_⟩
  unfold Cur0 at *
  by_cases hr : l.rest = []
  · have := c3 hr; omega
  · by_cases h10 : (next l).1 = 10
    · have := c1 h10; omega
    · have := c2 h10 hr; omega

theorem foldl_cursor_cur (rs : List Nat) : ∀ (l : Lexer),
    (rs.foldl cursorStep l).line = l.line ∧ l.col ≤ (rs.foldl cursorStep l).col := by
  induction rs with
  | nil => intro l; exact ⟨rfl, Int.le_refl _⟩
  | cons r rs ih =>
    intro l
    simp only [List.foldl_cons]
    obtain ⟨h1, h2⟩ := ih (cursorStep l r)
    have g : (cursorStep l r).line = l.line ∧ (cursorStep l r).col = l.col + 1 := by
      unfold cursorStep; split <;> exact ⟨rfl, rfl⟩
    exact ⟨by rw [h1, g.1], by omega⟩

theorem updateCursor_adv (n : Nat) (l : Lexer) : Adv l (updateCursor n l) := by
  refine ⟨(updateCursor_spec n l).1, fun h0 => ?_⟩
  unfold Cur0 at *
  unfold updateCursor
  simp only
  split
  · rename_i hc
    obtain ⟨h1, h2⟩ := foldl_cursor_cur (runes (afterLastNL (l.rest.take n)))
      { l with before := (l.rest.take n).reverse ++ l.before, rest := l.rest.drop n, width := n,
               line := l.line + ↑(List.count 10 (l.rest.take n)), col := 0, tcol := 0 }
    simp only at h1 h2
    have hc' : (0 : Int) < ↑(List.count 10 (l.rest.take n)) := by omega
    refine ⟨⟨by rw [h1]; omega, by omega⟩, Or.inl (by rw [h1]; omega)⟩
  · obtain ⟨h1, h2⟩ := foldl_cursor_cur (runes (afterLastNL (l.rest.take n)))
      { l with before := (l.rest.take n).reverse ++ l.before, rest := l.rest.drop n, width := n }
    simp only at h1 h2
    refine ⟨⟨by rw [h1]; omega, by omega⟩, Or.inr ⟨by rw [h1], h2⟩⟩

theorem Adv.refl (l : Lexer) : Adv l l := ⟨Frame.refl l, fun h0 => ⟨h0, Or.inr ⟨rfl, Int.le_refl _⟩⟩⟩

theorem skipTo_adv (pat : List UInt8) (l : Lexer) : Adv l (skipTo pat l).2 := by
  unfold skipTo
  split
  · exact updateCursor_adv _ l
  · exact Adv.refl l

/-! ### emitting and reporting -/

/-- position the token being read will carry -/
abbrev sp (l : Lexer) : Pos := (l.sline, l.scol + 1)

/-- the fields the invariant reads, `rest` and `items` aside -/
def Keep (l l' : Lexer) : Prop :=
  l'.line = l.line ∧ l'.col = l.col ∧ l'.sline = l.sline ∧ l'.scol = l.scol ∧ l'.state = l.state

theorem emitText_eff (c : Code) (text : List UInt8) (l : Lexer) :
    Keep l (emitText c text l) ∧ (emitText c text l).rest = l.rest ∧
    ((emitText c text l).items = l.items ∨
      ∃ t, (emitText c text l).items = l.items ++ [t] ∧ t.code = c ∧ tpos t = sp l) := by
  unfold emitText consume Keep
  simp only
  split
  · exact ⟨⟨rfl, rfl, rfl, rfl, rfl⟩, rfl, Or.inr ⟨_, rfl, rfl, rfl⟩⟩
  · exact ⟨⟨rfl, rfl, rfl, rfl, rfl⟩, rfl, Or.inl rfl⟩

theorem emit_eff (c : Code) (l : Lexer) :
    Keep l (emit c l) ∧ (emit c l).rest = l.rest ∧
    ((emit c l).items = l.items ∨ ∃ t, (emit c l).items = l.items ++ [t] ∧ t.code = c ∧ tpos t = sp l) := by
  unfold emit
  split
  · unfold setFault Keep
    split <;> exact ⟨⟨rfl, rfl, rfl, rfl, rfl⟩, rfl, Or.inl rfl⟩
  · exact emitText_eff c _ l

theorem adderror_eff (e : ErrLine) (l : Lexer) : Keep l (adderror e l) ∧ (adderror e l).items = l.items := by
  unfold adderror Keep
  split
  · exact ⟨⟨rfl, rfl, rfl, rfl, rfl⟩, rfl⟩
  · split <;> exact ⟨⟨rfl, rfl, rfl, rfl, rfl⟩, rfl⟩

theorem errorf_eff (cls : ErrClass) (l : Lexer) :
    Keep l (errorf cls l) ∧ noErr (errorf cls l).items = noErr l.items := by
  unfold errorf
  simp only
  obtain ⟨a1, a2⟩ := adderror_eff { file := l.file, pos := some (l.line, l.col + 1), cls := cls } (emit .error l)
  obtain ⟨e1, _, e3⟩ := emit_eff .error l
  unfold Keep at *
  refine ⟨⟨a1.1.trans e1.1, a1.2.1.trans e1.2.1, a1.2.2.1.trans e1.2.2.1, a1.2.2.2.1.trans e1.2.2.2.1,
    a1.2.2.2.2.trans e1.2.2.2.2⟩, ?_⟩
  rw [a2]
  rcases e3 with e3 | ⟨t, e3, hc, _⟩
  · rw [e3]
  · rw [e3, noErr_append]
    have : noErr [t] = [] := by simp [noErr, hc]
    rw [this, List.append_nil]

theorem errorfAt_eff (line col : Int) (cls : ErrClass) (l : Lexer) :
    Keep l (errorfAt line col cls l) ∧ noErr (errorfAt line col cls l).items = noErr l.items := by
  unfold errorfAt
  simp only
  obtain ⟨k, e⟩ := errorf_eff cls { l with line := line, col := col }
  unfold Keep at *
  exact ⟨⟨rfl, rfl, k.2.2.1, k.2.2.2.1, k.2.2.2.2⟩, e⟩

/-! ### the invariant -/

/-- the cursor stands after `q` -/
def Gt (q : Pos) (l : Lexer) : Prop := Cur0 l ∧ plt q (l.line, l.col + 1)

/-- the next token will stand after `q` -/
def F (q : Pos) (l : Lexer) : Prop :=
  Cur0 l ∧ (plt q (l.line, l.col + 1) ∨ ((next l).1 = 10 ∧ q.1 ≤ l.line ∧ 0 ≤ q.1 ∧ 0 ≤ q.2))

theorem Gt.F {q : Pos} {l : Lexer} (h : Gt q l) : F q l := ⟨h.1, Or.inl h.2⟩

theorem Gt.adv {q : Pos} {l l' : Lexer} (h : Gt q l) (ha : Adv l l') : Gt q l' := by
  obtain ⟨g1, g2⟩ := ha.2 h.1
  refine ⟨g1, ?_⟩
  have := h.2
  unfold plt Cur0 at *
  simp only at *
  omega

theorem Gt.mono {q q' : Pos} {l : Lexer} (h : Gt q' l) (hq : plt q q') : Gt q l := ⟨h.1, plt_trans hq h.2⟩

theorem F.mono {q q' : Pos} {l : Lexer} (h : F q' l) (hq : plt q q') : F q l := by
  refine ⟨h.1, ?_⟩
  rcases h.2 with h2 | h2
  · exact Or.inl (plt_trans hq h2)
  · refine Or.inr ⟨h2.1, ?_⟩
    unfold plt at hq
    omega

theorem F.congr {q : Pos} {l l' : Lexer} (h : F q l) (h1 : l'.line = l.line) (h2 : l'.col = l.col)
    (h3 : l'.rest = l.rest) : F q l' := by
  unfold F Cur0 at *
  rw [h1, h2, next_fst_congr l' l h3]
  exact h

theorem Gt.congr {q : Pos} {l l' : Lexer} (h : Gt q l) (h1 : l'.line = l.line) (h2 : l'.col = l.col) : Gt q l' := by
  unfold Gt Cur0 at *
  rw [h1, h2]
  exact h

/-- `peek` keeps `F` (it may reset `col` before a newline: the second disjunct takes over) -/
theorem F.peek {q : Pos} {l : Lexer} (h : F q l) : F q (peek l).2 := by
  obtain ⟨c0, c1, c2, c3⟩ := peek_cur l h.1
  have hs := peek_snd l
  have hn : (next (Goyang.Model.Lex.peek l).2).1 = (next l).1 := next_fst_congr _ l hs.2.1
  refine ⟨c0, ?_⟩
  rw [hn]
  by_cases h10 : (next l).1 = 10
  · refine Or.inr ⟨h10, ?_⟩
    rw [c1]
    rcases h.2 with h2 | h2
    · unfold plt at h2; simp only at h2; omega
    · exact h2.2
  · rcases h.2 with h2 | h2
    · left; rw [c1, c2 h10]; exact h2
    · exact absurd h2.1 h10

/-- what the lexer state promises about the tokens still to come, `b` being the last position
handed out or queued -/
def St (b : Pos) (l : Lexer) : Prop :=
  match l.state with
  | .ground => F b l
  | .qstring => plt b (sp l) ∧ Gt (sp l) l
  | .unquoted => plt b (sp l) ∧ Cur0 l ∧
      (F (sp l) l ∨ (l.line = l.sline ∧ l.col = l.scol ∧ isUnqDelim (next l).1 = false))
  | .done => True

theorem St.congr {b : Pos} {l l' : Lexer} (h : St b l) (k : Keep l l') (h3 : l'.rest = l.rest) : St b l' := by
  obtain ⟨k1, k2, k3, k4, k5⟩ := k
  unfold St at *
  rw [k5]
  have hn := next_fst_congr l' l h3
  cases hs : l.state <;> rw [hs] at h <;> simp only at h ⊢
  · exact h.congr k1 k2 h3
  · unfold sp; rw [k3, k4]; exact ⟨h.1, h.2.congr k1 k2⟩
  · unfold sp Cur0; rw [k3, k4, k1, k2, hn]
    refine ⟨h.1, h.2.1, ?_⟩
    rcases h.2.2 with h2 | h2
    · exact Or.inl (F.congr h2 k1 k2 h3)
    · exact Or.inr h2

theorem St.mono {b b' : Pos} {l : Lexer} (h : St b' l) (hq : plt b b') : St b l := by
  unfold St at *
  cases hs : l.state <;> rw [hs] at h <;> simp only at h ⊢
  · exact h.mono hq
  · exact ⟨plt_trans hq h.1, h.2⟩
  · exact ⟨plt_trans hq h.1, h.2⟩

theorem St.ground {b : Pos} {l : Lexer} (hs : l.state = .ground) (h : F b l) : St b l := by
  unfold St; rw [hs]; exact h
theorem St.done {b : Pos} {l : Lexer} (hs : l.state = .done) : St b l := by
  unfold St; rw [hs]; trivial
theorem St.unq {b : Pos} {l : Lexer} (hs : l.state = .unquoted) (h : plt b (sp l) ∧ Cur0 l ∧
    (F (sp l) l ∨ (l.line = l.sline ∧ l.col = l.scol ∧ isUnqDelim (next l).1 = false))) : St b l := by
  unfold St; rw [hs]; exact h
theorem St.qstr {b : Pos} {l : Lexer} (hs : l.state = .qstring) (h : plt b (sp l) ∧ Gt (sp l) l) : St b l := by
  unfold St; rw [hs]; exact h
theorem F.set {q : Pos} {l : Lexer} (h : F q l) (s : LState) : F q (setState s l) := h.congr rfl rfl rfl
theorem St.unq_set {b : Pos} {x : Lexer} (h : plt b (sp x) ∧ Cur0 x ∧
    (F (sp x) x ∨ (x.line = x.sline ∧ x.col = x.scol ∧ isUnqDelim (next x).1 = false))) :
    St b (setState .unquoted x) := by
  apply St.unq rfl
  have hn : (next (setState .unquoted x)).1 = (next x).1 := next_fst_congr _ _ rfl
  refine ⟨h.1, h.2.1, ?_⟩
  rcases h.2.2 with h2 | h2
  · exact Or.inl (h2.set _)
  · exact Or.inr ⟨h2.1, h2.2.1, by rw [hn]; exact h2.2.2⟩

/-- effect of one state function: nothing but error tokens queued, or one token after `b` -/
def Post (b : Pos) (l l' : Lexer) : Prop :=
  (noErr l'.items = noErr l.items ∧ St b l') ∨
  (∃ t, noErr l'.items = noErr l.items ++ [t] ∧ plt b (tpos t) ∧ St (tpos t) l')

theorem Post.congr_left {b : Pos} {l l2 l' : Lexer} (h : Post b l2 l') (e : noErr l2.items = noErr l.items) :
    Post b l l' := by
  unfold Post at *; rw [← e]; exact h

/-- an emitted token that is not an error token, at `sp`, followed by the ground state -/
theorem post_emit (b : Pos) (l0 l l' : Lexer) (c : Code) (hc : c ≠ Code.error)
    (e0 : noErr l.items = noErr l0.items) (hb : plt b (sp l)) (hg : Gt (sp l) l)
    (k : Keep l l') (hr : l'.rest = l.rest)
    (hi : l'.items = l.items ∨ ∃ t, l'.items = l.items ++ [t] ∧ t.code = c ∧ tpos t = sp l) :
    Post b l0 (setState .ground l') := by
  have hF : F (sp l) (setState .ground l') := hg.F.congr k.1 k.2.1 hr
  rcases hi with hi | ⟨t, hi, htc, htp⟩
  · exact Or.inl ⟨by show noErr l'.items = _; rw [hi, e0], St.ground rfl (hF.mono hb)⟩
  · refine Or.inr ⟨t, ?_, by rw [htp]; exact hb, by rw [htp]; exact St.ground rfl hF⟩
    show noErr l'.items = _
    rw [hi, noErr_append, e0]
    have : noErr [t] = [t] := by simp [noErr, htc, hc]
    rw [this]

/-! ### `lexUnquoted` -/

theorem unquotedLoop_post (b : Pos) : ∀ (f : Nat) (l : Lexer), l.rest.length + 1 ≤ f → plt b (sp l) → Cur0 l →
    (F (sp l) l ∨ (l.line = l.sline ∧ l.col = l.scol ∧ isUnqDelim (next l).1 = false)) →
    Post b l (unquotedLoop f l) := by
  intro f
  induction f with
  | zero => intro l h; omega
  | succ f ih =>
    intro l hf hb h0 hW
    unfold unquotedLoop
    simp only
    obtain ⟨c0, c1, c2, c3⟩ := peek_cur l h0
    have hs := peek_snd l
    have hfr := hs.2.2
    rw [peek_fst]
    split
    · rename_i hd
      have hF : F (sp l) l := by
        rcases hW with hW | hW
        · exact hW
        · rw [hW.2.2] at hd; cases hd
      have hFp : F (sp l) (peek l).2 := hF.peek
      obtain ⟨k, er, ei⟩ := emit_eff .unquoted (peek l).2
      have hsp : sp (peek l).2 = sp l := by unfold sp; rw [hfr.sline, hfr.scol]
      have hFe : F (sp l) (setState .ground (emit .unquoted (peek l).2)) := hFp.congr k.1 k.2.1 er
      rcases ei with ei | ⟨t, ei, htc, htp⟩
      · refine Or.inl ⟨?_, St.ground rfl (hFe.mono hb)⟩
        show noErr (emit .unquoted (peek l).2).items = _
        rw [ei, hfr.items]
      · rw [hsp] at htp
        refine Or.inr ⟨t, ?_, by rw [htp]; exact hb, by rw [htp]; exact St.ground rfl hFe⟩
        show noErr (emit .unquoted (peek l).2).items = _
        rw [ei, noErr_append, hfr.items]
        have : noErr [t] = [t] := by simp [noErr, htc]
        rw [this]
    · rename_i hd
      have hd' : isUnqDelim (next l).1 = false := by simpa using hd
      have h10 : (next l).1 ≠ 10 := by
        intro e; rw [e] at hd'; simp [isUnqDelim] at hd'
      have hne : l.rest ≠ [] := by
        intro e; rw [next_nil l e] at hd'; simp [isUnqDelim] at hd'
      have hnp : (next (peek l).2).1 = (next l).1 := next_fst_congr _ l hs.2.1
      obtain ⟨d0, d1, d2, d3⟩ := next_cur (peek l).2 c0
      have hne' : (peek l).2.rest ≠ [] := by rw [hs.2.1]; exact hne
      obtain ⟨e1, e2⟩ := d2 (by rw [hnp]; exact h10) hne'
      have hfr2 := hfr.trans (next_frame (peek l).2)
      have hm := next_move (peek l).2
      have hw := hm.2.2 hne'
      have hlen : (next (peek l).2).2.rest.length + 1 ≤ f := by
        have := hm.2.1; rw [hs.2.1] at this; omega
      have hsp : sp (next (peek l).2).2 = sp l := by unfold sp; rw [hfr2.sline, hfr2.scol]
      have hpost := ih (next (peek l).2).2 hlen (by rw [hsp]; exact hb) d0 (by
        left
        rw [hsp]
        refine Gt.F ⟨d0, ?_⟩
        rw [e1, e2, c1, c2 h10]
        rcases hW with hW | hW
        · rcases hW.2 with h2 | h2
          · unfold plt at *; simp only at *; unfold Cur0 at h0; omega
          · exact absurd h2.1 h10
        · unfold plt Cur0 at *; simp only; rw [hW.1, hW.2.1]
          have := hb; simp only at this; omega)
      exact hpost.congr_left (by rw [hfr2.items])

/-! ### `lexQString` -/

/-- invariant of the loop of `lexQString` -/
def QI (b : Pos) (l : Lexer) : Prop := l.state = .qstring ∧ plt b (sp l) ∧ Gt (sp l) l

theorem QI.next {b : Pos} {l : Lexer} (h : QI b l) :
    QI b (next l).2 ∧ noErr (next l).2.items = noErr l.items := by
  have ha := next_adv l
  have hsp : sp (Goyang.Model.Lex.next l).2 = sp l := by unfold sp; rw [ha.1.sline, ha.1.scol]
  unfold QI
  rw [hsp, ha.1.state]
  exact ⟨⟨h.1, h.2.1, h.2.2.adv ha⟩, by rw [ha.1.items]⟩

theorem QI.err {b : Pos} {l : Lexer} (h : QI b l) (line col : Int) (cls : ErrClass) (p : Prop) [Decidable p] :
    QI b (if p then errorfAt line col cls l else l) ∧
    noErr (if p then errorfAt line col cls l else l).items = noErr l.items := by
  split
  · obtain ⟨k, e⟩ := errorfAt_eff line col cls l
    have hsp : sp (errorfAt line col cls l) = sp l := by unfold sp; rw [k.2.2.1, k.2.2.2.1]
    unfold QI
    rw [hsp, k.2.2.2.2]
    exact ⟨⟨h.1, h.2.1, h.2.2.congr k.1 k.2.1⟩, e⟩
  · exact ⟨h, rfl⟩

theorem QI.toSt {b : Pos} {l : Lexer} (h : QI b l) : St b l := by
  unfold St; rw [h.1]; exact h.2

theorem qstringLoop_post (b : Pos) (indent line col : Int) : ∀ (f : Nat) (text : List UInt8) (over : Bool)
    (l : Lexer), QI b l → Post b l (qstringLoop indent line col f text over l) := by
  intro f
  induction f with
  | zero =>
    intro text over l h
    unfold qstringLoop
    refine Or.inl ⟨?_, ?_⟩
    · unfold setFault; split <;> rfl
    · refine h.toSt.congr ?_ ?_
      · unfold setFault Keep; split <;> exact ⟨rfl, rfl, rfl, rfl, rfl⟩
      · unfold setFault; split <;> rfl
  | succ f ih =>
    intro text over l h
    obtain ⟨h1, e1⟩ := h.next
    obtain ⟨h2, e2⟩ := h1.next
    unfold qstringLoop
    simp only
    split
    · obtain ⟨k, e⟩ := errorfAt_eff line col .missingDQuote (next l).2
      exact Or.inl ⟨by show noErr (errorfAt line col .missingDQuote (next l).2).items = _; rw [e, e1], St.done rfl⟩
    · split
      · obtain ⟨k, er, ei⟩ := emitText_eff .string text (next l).2
        exact post_emit b l (next l).2 _ .string (by decide) e1 h1.2.1 h1.2.2 k er ei
      · split
        · exact (ih _ _ _ h1).congr_left e1
        · split
          · split
            · exact (ih _ _ _ h1).congr_left e1
            · exact (ih _ _ _ h1).congr_left e1
          · split
            · split
              · exact (ih _ _ _ h2).congr_left (e2.trans e1)
              · split
                · exact (ih _ _ _ h2).congr_left (e2.trans e1)
                · split
                  · exact (ih _ _ _ h2).congr_left (e2.trans e1)
                  · obtain ⟨h3, e3⟩ := h2.err (next l).2.line ((next l).2.col - 1) .invalidEscape
                      ((!(next (next l).2).2.inPattern) = true)
                    exact (ih _ _ _ h3).congr_left (e3.trans (e2.trans e1))
            · exact (ih _ _ _ h1).congr_left e1

theorem lexQString_post (b : Pos) (l : Lexer) (h : QI b l) : Post b l (lexQString l) :=
  qstringLoop_post b _ _ _ _ _ _ l h

/-! ### `lexGround` -/

theorem F.toGt {q : Pos} {l : Lexer} (h : F q l) (h10 : (next l).1 ≠ 10) : Gt q l := by
  refine ⟨h.1, ?_⟩
  rcases h.2 with h2 | h2
  · exact h2
  · exact absurd h2.1 h10

theorem acceptRunLoop_cur (b : Pos) : ∀ (f : Nat) (ret : Bool) (l : Lexer), l.rest.length + 1 ≤ f → F b l →
    Gt b (backup (acceptRunLoop f ret l).2) ∧
    isSpaceRune (next (backup (acceptRunLoop f ret l).2)).1 = false ∧
    Frame l (backup (acceptRunLoop f ret l).2) := by
  intro f
  induction f with
  | zero => intro ret l h; omega
  | succ f ih =>
    intro ret l hf hF
    unfold acceptRunLoop
    simp only
    split
    · rename_i hs
      have hm := next_move l
      have hne : l.rest ≠ [] := by
        intro he
        rw [next_nil l he] at hs
        simp [isSpaceRune, eofRune] at hs
      obtain ⟨c0, c1, c2, c3⟩ := next_cur l hF.1
      have hF' : F b (next l).2 := by
        refine Gt.F ⟨c0, ?_⟩
        by_cases h10 : (next l).1 = 10
        · obtain ⟨e1, e2⟩ := c1 h10
          rw [e1, e2]
          have h0 := hF.1
          rcases hF.2 with h2 | h2
          · unfold plt Cur0 at *; simp only at *; omega
          · unfold plt Cur0 at *; simp only at *; omega
        · obtain ⟨e1, e2⟩ := c2 h10 hne
          rw [e1, e2]
          have h0 := hF.1
          have h2 := (hF.toGt h10).2
          unfold plt Cur0 at *; simp only at *; omega
      obtain ⟨g1, g2, g3⟩ := ih true (next l).2 (by have := hm.2.2 hne; omega) hF'
      exact ⟨g1, g2, (next_frame l).trans g3⟩
    · rename_i hs
      have hs' : isSpaceRune (next l).1 = false := by simpa using hs
      have h10 : (next l).1 ≠ 10 := by
        intro e; rw [e] at hs'; simp [isSpaceRune] at hs'
      have hp := peek_snd l
      have hn : (next (peek l).2).1 = (next l).1 := next_fst_congr _ l hp.2.1
      show Gt b (peek l).2 ∧ isSpaceRune (next (peek l).2).1 = false ∧ Frame l (peek l).2
      exact ⟨hF.peek.toGt (by rw [hn]; exact h10), by rw [hn]; exact hs', hp.2.2⟩

/-- what `lexGround` knows after skipping white space: the cursor is the token start, after `b`,
and the next rune is not white space -/
structure GS (b : Pos) (l0 p : Lexer) : Prop where
  cur0 : Cur0 p
  sl : p.sline = p.line
  sc : p.scol = p.col
  hb : plt b (sp p)
  items : noErr p.items = noErr l0.items
  nsp : isSpaceRune (next p).1 = false

theorem GS.h10 {b : Pos} {l0 p : Lexer} (h : GS b l0 p) : (next p).1 ≠ 10 := by
  intro e; have := h.nsp; rw [e] at this; simp [isSpaceRune] at this

theorem groundStart_gs (b : Pos) (l : Lexer) (hF : F b l) : GS b l (groundStart l) := by
  obtain ⟨g1, g2, g3⟩ := acceptRunLoop_cur b (l.rest.length + 1) false l (Nat.le_refl _) hF
  have hn : (next (groundStart l)).1 = (next (backup (acceptRunLoop (l.rest.length + 1) false l).2)).1 :=
    next_fst_congr _ _ rfl
  refine ⟨g1.1, rfl, rfl, g1.2, ?_, by rw [hn]; exact g2⟩
  show noErr (backup (acceptRunLoop (l.rest.length + 1) false l).2).items = _
  rw [g3.items]

theorem GS.peek {b : Pos} {l0 p : Lexer} (h : GS b l0 p) : GS b l0 (peek p).2 := by
  obtain ⟨c0, c1, c2, c3⟩ := peek_cur p h.cur0
  have hs := peek_snd p
  have hn : (next (Goyang.Model.Lex.peek p).2).1 = (next p).1 := next_fst_congr _ p hs.2.1
  have e2 := c2 h.h10
  refine ⟨c0, by rw [hs.2.2.sline, c1, h.sl], by rw [hs.2.2.scol, e2, h.sc], ?_, by rw [hs.2.2.items, h.items],
    by rw [hn]; exact h.nsp⟩
  have := h.hb
  unfold sp at *
  rw [hs.2.2.sline, hs.2.2.scol]
  exact this

/-- after the first rune of a token -/
theorem GS.first {b : Pos} {l0 p : Lexer} (h : GS b l0 p) (hne : (next p).1 ≠ eofRune) :
    Gt (sp (next p).2) (next p).2 ∧ plt b (sp (next p).2) ∧ noErr (next p).2.items = noErr l0.items := by
  obtain ⟨c0, c1, c2, c3⟩ := next_cur p h.cur0
  have hr : p.rest ≠ [] := fun e => hne ((next_eof_iff p).2 e)
  obtain ⟨e1, e2⟩ := c2 h.h10 hr
  have hf := next_frame p
  have hsp : sp (next p).2 = sp p := by unfold sp; rw [hf.sline, hf.scol]
  rw [hsp]
  refine ⟨⟨c0, ?_⟩, h.hb, by rw [hf.items, h.items]⟩
  rw [e1, e2]
  have h0 := h.cur0
  unfold plt sp Cur0 at *
  simp only
  rw [h.sl, h.sc]
  omega

/-- a state function that ends in the ground state having queued at most one token at `q` -/
theorem post_tok (b : Pos) (l0 l' : Lexer) (q : Pos) (hb : plt b q) (hF : F q l')
    (hi : noErr l'.items = noErr l0.items ∨ ∃ t, noErr l'.items = noErr l0.items ++ [t] ∧ tpos t = q) :
    Post b l0 (setState .ground l') := by
  rcases hi with hi | ⟨t, hi, htp⟩
  · exact Or.inl ⟨hi, St.ground rfl ((hF.mono hb).set _)⟩
  · exact Or.inr ⟨t, hi, by rw [htp]; exact hb, by rw [htp]; exact St.ground rfl (hF.set _)⟩

theorem emit_items (c : Code) (hc : c ≠ Code.error) (s : Lexer) (l0 : Lexer) (e0 : noErr s.items = noErr l0.items) :
    noErr (emit c s).items = noErr l0.items ∨
      ∃ t, noErr (emit c s).items = noErr l0.items ++ [t] ∧ tpos t = sp s := by
  obtain ⟨_, _, ei⟩ := emit_eff c s
  rcases ei with ei | ⟨t, ei, htc, htp⟩
  · left; rw [ei, e0]
  · right
    refine ⟨t, ?_, htp⟩
    rw [ei, noErr_append, e0]
    have : noErr [t] = [t] := by simp [noErr, htc, hc]
    rw [this]

theorem post_done (b : Pos) (l0 s : Lexer) (line col : Int) (cls : ErrClass) (e0 : noErr s.items = noErr l0.items) :
    Post b l0 (setState .done (errorfAt line col cls s)) := by
  obtain ⟨_, e⟩ := errorfAt_eff line col cls s
  exact Or.inl ⟨by show noErr (errorfAt line col cls s).items = _; rw [e, e0], St.done rfl⟩

theorem groundSQuote_post (b : Pos) (l0 p : Lexer) (h : GS b l0 p) (hne : (next p).1 ≠ eofRune) :
    Post b l0 (groundSQuote p) := by
  obtain ⟨f1, f2, f3⟩ := h.first hne
  unfold groundSQuote
  simp only
  have ha := skipTo_adv [39] (consume (next p).2)
  have hg : Gt (sp (next p).2) (skipTo [39] (consume (next p).2)).2 := Gt.adv (l := consume (next p).2) f1 ha
  have hsp : sp (skipTo [39] (consume (next p).2)).2 = sp (next p).2 := by
    unfold sp; rw [ha.1.sline, ha.1.scol]; rfl
  have hit : noErr (skipTo [39] (consume (next p).2)).2.items = noErr l0.items := by
    rw [ha.1.items]; exact f3
  split
  · obtain ⟨k, er, _⟩ := emit_eff .string (skipTo [39] (consume (next p).2)).2
    have hge : Gt (sp (next p).2) (emit .string (skipTo [39] (consume (next p).2)).2) := hg.congr k.1 k.2.1
    have han := next_adv (emit .string (skipTo [39] (consume (next p).2)).2)
    refine post_tok b l0 _ (sp (next p).2) f2 (Gt.F (Gt.adv hge han)) ?_
    have := emit_items .string (by decide) (skipTo [39] (consume (next p).2)).2 l0 hit
    rw [hsp] at this
    rw [han.1.items]
    exact this
  · exact post_done b l0 _ _ _ _ hit

/-- the state `unquoted` entered after one rune and a look at the next -/
theorem post_unq (b : Pos) (l0 p : Lexer) (h : GS b l0 p) (hne : (next p).1 ≠ eofRune) :
    Post b l0 (setState .unquoted (peek (next p).2).2) := by
  obtain ⟨f1, f2, f3⟩ := h.first hne
  have hs := peek_snd (next p).2
  have hsp : sp (Goyang.Model.Lex.peek (next p).2).2 = sp (next p).2 := by
    unfold sp; rw [hs.2.2.sline, hs.2.2.scol]
  have hF := f1.F.peek
  refine Or.inl ⟨by show noErr (peek (next p).2).2.items = _; rw [hs.2.2.items]; exact f3, ?_⟩
  refine St.unq_set ?_
  rw [hsp]
  exact ⟨f2, hF.1, Or.inl hF⟩

theorem groundPlus_post (b : Pos) (l0 p : Lexer) (h : GS b l0 p) (hne : (next p).1 ≠ eofRune) :
    Post b l0 (groundPlus p) := by
  obtain ⟨f1, f2, f3⟩ := h.first hne
  unfold groundPlus
  simp only
  rw [peek_fst]
  have hs := peek_snd (next p).2
  have hsp : sp (Goyang.Model.Lex.peek (next p).2).2 = sp (next p).2 := by
    unfold sp; rw [hs.2.2.sline, hs.2.2.scol]
  have hn : (next (Goyang.Model.Lex.peek (next p).2).2).1 = (next (next p).2).1 := next_fst_congr _ _ hs.2.1
  split
  · rename_i hq
    have h10 : (next (next p).2).1 ≠ 10 := by
      intro e; rw [e] at hq; simp at hq
    have hg : Gt (sp (next p).2) (peek (next p).2).2 := f1.F.peek.toGt (by rw [hn]; exact h10)
    obtain ⟨k, er, _⟩ := emit_eff .unquoted (peek (next p).2).2
    refine post_tok b l0 _ (sp (next p).2) f2 (Gt.F (hg.congr k.1 k.2.1)) ?_
    have := emit_items .unquoted (by decide) (peek (next p).2).2 l0 (by rw [hs.2.2.items]; exact f3)
    rw [hsp] at this
    exact this
  · exact post_unq b l0 p h hne

theorem groundSlash_post (b : Pos) (l0 p : Lexer) (h : GS b l0 p) (hne : (next p).1 ≠ eofRune) :
    Post b l0 (groundSlash p) := by
  obtain ⟨f1, f2, f3⟩ := h.first hne
  unfold groundSlash
  simp only
  rw [peek_fst]
  have hs := peek_snd (next p).2
  have hn : (next (Goyang.Model.Lex.peek (next p).2).2).1 = (next (next p).2).1 := next_fst_congr _ _ hs.2.1
  have hit : noErr (peek (next p).2).2.items = noErr l0.items := by rw [hs.2.2.items]; exact f3
  split
  · rename_i hq
    have h10 : (next (next p).2).1 ≠ 10 := by rw [hq]; decide
    have hg : Gt b (peek (next p).2).2 := (f1.F.peek.toGt (by rw [hn]; exact h10)).mono f2
    have ha := skipTo_adv [10] (peek (next p).2).2
    split
    · exact Or.inl ⟨by show noErr (skipTo [10] (peek (next p).2).2).2.items = _; rw [ha.1.items]; exact hit,
        St.ground rfl ((Gt.F (hg.adv ha)).set _)⟩
    · exact post_done b l0 _ _ _ _ (by rw [ha.1.items]; exact hit)
  · split
    · rename_i hq
      have h10 : (next (next p).2).1 ≠ 10 := by rw [hq]; decide
      have hg : Gt b (peek (next p).2).2 := (f1.F.peek.toGt (by rw [hn]; exact h10)).mono f2
      have ha := (next_adv (peek (next p).2).2).trans (skipTo_adv [42, 47] (next (peek (next p).2).2).2)
      split
      · have ha2 := (ha.trans (next_adv _)).trans (next_adv (next (skipTo [42, 47] (next (peek (next p).2).2).2).2).2)
        exact Or.inl ⟨by
          show noErr (next (next (skipTo [42, 47] (next (peek (next p).2).2).2).2).2).2.items = _
          rw [ha2.1.items]; exact hit, St.ground rfl ((Gt.F (hg.adv ha2)).set _)⟩
      · exact post_done b l0 _ _ _ _ (by rw [ha.1.items]; exact hit)
    · exact post_unq b l0 p h hne

theorem lexGround_post (b : Pos) (l : Lexer) (hF : F b l) : Post b l (lexGround l) := by
  have hgs := groundStart_gs b l hF
  have h := hgs.peek
  have hs := peek_snd (groundStart l)
  have hn : (next (Goyang.Model.Lex.peek (groundStart l)).2).1 = (next (groundStart l)).1 := next_fst_congr _ _ hs.2.1
  unfold lexGround
  simp only
  rw [peek_fst]
  split
  · exact Or.inl ⟨h.items, St.done rfl⟩
  · rename_i hne
    have hne' : (next (peek (groundStart l)).2).1 ≠ eofRune := by rw [hn]; exact hne
    split
    · obtain ⟨f1, f2, f3⟩ := h.first hne'
      obtain ⟨k, er, _⟩ := emit_eff (.punct (UInt8.ofNat (next (groundStart l)).1)) (next (peek (groundStart l)).2).2
      refine post_tok b l _ (sp (next (peek (groundStart l)).2).2) f2 (Gt.F (f1.congr k.1 k.2.1)) ?_
      exact emit_items (.punct (UInt8.ofNat (next (groundStart l)).1)) (fun e => Code.noConfusion e)
        (next (peek (groundStart l)).2).2 l f3
    · split
      · exact groundSQuote_post b l _ h hne'
      · split
        · obtain ⟨f1, f2, f3⟩ := h.first hne'
          exact Or.inl ⟨f3, St.qstr rfl ⟨f2, f1⟩⟩
        · split
          · exact groundSlash_post b l _ h hne'
          · split
            · exact groundPlus_post b l _ h hne'
            · rename_i h1 h2 h3 h4 h5
              refine Or.inl ⟨h.items, St.unq_set ?_⟩
              refine ⟨h.hb, h.cur0, Or.inr ⟨h.sl.symm, h.sc.symm, ?_⟩⟩
              rw [hn]
              have := hgs.nsp
              simp [isSpaceRune] at this
              simp [isUnqDelim] at *
              omega

/-! ### the token queue, `NextToken`, the parser's token source -/

/-- `q`, then the positions `ts`, strictly increasing, all at or before `b` -/
def Chain (q : Pos) (ts : List Pos) (b : Pos) : Prop := (q :: ts).Pairwise plt ∧ ∀ x ∈ q :: ts, ple x b

theorem chain_snoc {q : Pos} {ts : List Pos} {b t : Pos} (h : Chain q ts b) (ht : plt b t) :
    Chain q (ts ++ [t]) t := by
  obtain ⟨h1, h2⟩ := h
  refine ⟨?_, ?_⟩
  · rw [← List.cons_append, List.pairwise_append]
    refine ⟨h1, List.pairwise_singleton _ _, ?_⟩
    intro a ha c hc
    simp only [List.mem_singleton] at hc
    rw [hc]
    exact plt_of_ple_of_plt (h2 a ha) ht
  · intro x hx
    rw [← List.cons_append, List.mem_append] at hx
    rcases hx with hx | hx
    · exact Or.inr (plt_of_ple_of_plt (h2 x hx) ht)
    · simp only [List.mem_singleton] at hx; rw [hx]; exact ple_refl _

theorem chain_pop {q t : Pos} {ts : List Pos} {b : Pos} (h : Chain q (t :: ts) b) : plt q t ∧ Chain t ts b := by
  obtain ⟨h1, h2⟩ := h
  rw [List.pairwise_cons] at h1
  exact ⟨h1.1 t (by simp), h1.2, fun x hx => h2 x (List.mem_cons_of_mem _ hx)⟩

/-- **Invariant of the lexer as token source**: every token (error tokens aside) still queued or
still to be read stands strictly after `q`, in strictly increasing order. -/
def LInv (q : Pos) (l : Lexer) : Prop := ∃ b, Chain q ((noErr l.items).map tpos) b ∧ St b l

theorem LInv.post {q b : Pos} {l l' : Lexer} (hc : Chain q ((noErr l.items).map tpos) b) (hp : Post b l l') :
    LInv q l' := by
  rcases hp with ⟨hi, hst⟩ | ⟨t, hi, hbt, hst⟩
  · exact ⟨b, by rw [hi]; exact hc, hst⟩
  · refine ⟨tpos t, ?_, hst⟩
    rw [hi, List.map_append]
    exact chain_snoc hc hbt

theorem LInv.congr {q : Pos} {l l' : Lexer} (h : LInv q l) (k : Keep l l') (hr : l'.rest = l.rest)
    (hi : l'.items = l.items) : LInv q l' := by
  obtain ⟨b, hc, hst⟩ := h
  exact ⟨b, by rw [hi]; exact hc, hst.congr k hr⟩

theorem LInv.setFault {q : Pos} {l : Lexer} (h : LInv q l) (f : Fault) : LInv q (setFault f l) := by
  refine h.congr ?_ ?_ ?_
  · unfold Goyang.Model.Lex.setFault Keep; split <;> exact ⟨rfl, rfl, rfl, rfl, rfl⟩
  · unfold Goyang.Model.Lex.setFault; split <;> rfl
  · unfold Goyang.Model.Lex.setFault; split <;> rfl

/-- what a fetched token tells -/
def Out (q : Pos) (r : Option Token × Lexer) : Prop :=
  match r.1 with
  | none => LInv q r.2
  | some t => (t.code = Code.error → LInv q r.2) ∧ (t.code ≠ Code.error → plt q (tpos t) ∧ LInv (tpos t) r.2)

theorem nextTokenLoop_inv (q : Pos) : ∀ (f : Nat) (l : Lexer), LInv q l → Out q (nextTokenLoop f l) := by
  intro f
  induction f with
  | zero =>
    intro l h
    unfold nextTokenLoop Out
    exact h.setFault _
  | succ f ih =>
    intro l h
    unfold nextTokenLoop
    split
    · rename_i t ts hits
      obtain ⟨b, hc, hst⟩ := h
      have hst' : St b { l with items := ts } := hst.congr ⟨rfl, rfl, rfl, rfl, rfl⟩ rfl
      unfold Out
      simp only
      rw [hits] at hc
      by_cases he : t.code = Code.error
      · have : noErr (t :: ts) = noErr ts := by simp [noErr, he]
        rw [this] at hc
        exact ⟨fun _ => ⟨b, hc, hst'⟩, fun hn => absurd he hn⟩
      · have : noErr (t :: ts) = t :: noErr ts := by simp [noErr, he]
        rw [this, List.map_cons] at hc
        obtain ⟨h1, h2⟩ := chain_pop hc
        exact ⟨fun hn => absurd hn he, fun _ => ⟨h1, ⟨b, h2, hst'⟩⟩⟩
    · obtain ⟨b, hc, hst⟩ := h
      split
      · rename_i hs
        unfold Out
        exact ⟨b, hc, hst⟩
      · rename_i hs
        have hF : F b l := by unfold St at hst; rw [hs] at hst; exact hst
        exact ih _ (LInv.post hc (lexGround_post b l hF))
      · rename_i hs
        have hQ : QI b l := by unfold St at hst; rw [hs] at hst; exact ⟨hs, hst⟩
        exact ih _ (LInv.post hc (lexQString_post b l hQ))
      · rename_i hs
        have hU := hst
        unfold St at hU; rw [hs] at hU
        exact ih _ (LInv.post hc (unquotedLoop_post b _ l (Nat.le_refl _) hU.1 hU.2.1 hU.2.2))

/-- what a fetched non-error token tells -/
def Out' (q : Pos) (r : Option Token × Lexer) : Prop :=
  match r.1 with
  | none => LInv q r.2
  | some t => plt q (tpos t) ∧ LInv (tpos t) r.2

theorem skipErrors_inv (q : Pos) : ∀ (f : Nat) (l : Lexer), LInv q l → Out' q (skipErrors f l) := by
  intro f
  induction f with
  | zero =>
    intro l h
    unfold skipErrors Out'
    exact h.setFault _
  | succ f ih =>
    intro l h
    unfold skipErrors
    have hn := nextTokenLoop_inv q (l.rest.length + 3) l h
    unfold nextToken
    simp only
    unfold Out at hn
    split
    · rename_i hr
      rw [hr] at hn
      unfold Out'
      exact hn
    · rename_i t hr
      rw [hr] at hn
      simp only at hn
      split
      · rename_i he
        exact ih _ (hn.1 he)
      · rename_i he
        unfold Out'
        exact hn.2 he

/-- **The lexer model hands the parser tokens at strictly increasing (line, col), for every byte
string.** -/
theorem lexSource_mono : SrcMono lexSource LInv where
  pull_some b s q t s' hi hp := by
    have h := skipErrors_inv q (s.items.length + s.rest.length + (s.pos - s.start) + 2) { s with inPattern := b }
      (hi.congr ⟨rfl, rfl, rfl, rfl, rfl⟩ rfl rfl)
    have hp' : skipErrors (s.items.length + s.rest.length + (s.pos - s.start) + 2) { s with inPattern := b } = (some t, s') := hp
    rw [hp'] at h
    exact h
  pull_none b s q s' hi hp := by
    have h := skipErrors_inv q (s.items.length + s.rest.length + (s.pos - s.start) + 2) { s with inPattern := b }
      (hi.congr ⟨rfl, rfl, rfl, rfl, rfl⟩ rfl rfl)
    have hp' : skipErrors (s.items.length + s.rest.length + (s.pos - s.start) + 2) { s with inPattern := b } = (none, s') := hp
    rw [hp'] at h
    exact h
  addErr e s q hi := hi.congr ⟨rfl, rfl, rfl, rfl, rfl⟩ rfl rfl

theorem newLexer_inv (text file : List UInt8) : LInv (0, 0) (newLexer text file) := by
  refine ⟨(0, 0), ⟨List.pairwise_singleton _ _, fun x hx => ?_⟩, St.ground rfl (Gt.F ⟨⟨?_, ?_⟩, ?_⟩)⟩
  · have : x = (0, 0) := by simpa [newLexer, noErr] using hx
    rw [this]; exact ple_refl _
  · show (0 : Int) ≤ 1; decide
  · show (0 : Int) ≤ 0; decide
  · show plt (0, 0) (1, 0 + 1)
    unfold plt; simp

end Goyang.Lemmas.AugPosLex
