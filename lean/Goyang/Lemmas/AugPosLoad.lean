/-
C07 bridge, input predicate `AugPosDistinct`, transport part: from the reference reader
(`Lemmas/AugPosSpec.lean`: sibling statements of a parsed text stand at different (line, col)) through
the refinement of the byte-level parser (`Lemmas/Compose.lean`, C02: `parseText` on the UTF-8 of an
admissible text returns the reference reader's forest, encoded), the conversion to resolver statements
(`Model.toStmt?`) and `Registry.add` to every registry `Model.loadTexts` produces.

The refinement of the byte-level parser is proved for C02-admissible Unicode texts only, hence the
hypothesis `TextsAdmissible`: every text handed to `loadTexts` is the UTF-8 encoding of a text
without the four constructs C02 leaves outside its claim.  (Texts that are rejected need nothing,
but asking it of all of them keeps the statement short.)
-/
import Goyang.Lemmas.BridgeLoad
import Goyang.Lemmas.Compose
import Goyang.Lemmas.AugPosSpec

set_option linter.unusedVariables false
namespace Goyang.Lemmas.AugPosLoad
open Goyang.Model
open Goyang.Lemmas.Bridge Goyang.Lemmas.AugPosSpec
open Goyang.Lemmas.ListSrc (encStmt encStmts)

/-- the (line, col) of a resolver statement -/
abbrev mpos (s : Stmt) : Nat × Nat := (s.line, s.col)

/-- the augment statements directly below `s` stand at pairwise different (line, col) -/
def AugDistinct (s : Stmt) : Prop := ((s.all "augment").map fun c => (c.line, c.col)).Nodup

theorem augPosDistinct_iff (reg : Registry) : AugPosDistinct reg ↔ ∀ m ∈ reg.mods, AugDistinct m.stmt := Iff.rfl

/-- substatements at different positions: so are those with one keyword -/
theorem augDistinct_of_subs (s : Stmt) (h : (s.subs.map mpos).Nodup) : AugDistinct s := by
  unfold AugDistinct Stmt.all
  exact h.sublist (List.filter_sublist.map _)

/-! ### the conversion `toStmt?` keeps positions -/

theorem toStmt?_enc (file : String) (f : List UInt8) (s : Spec.Parse.Stmt) (x : Stmt)
    (h : toStmt? file (encStmt f s) = some x) :
    mpos x = spos s ∧ toStmt?.toStmtL? file (encStmts f s.subs) = some x.subs := by
  obtain ⟨kw, arg, line, col, subs⟩ := s
  unfold encStmt toStmt? at h
  simp only [Option.bind_eq_bind] at h
  cases hk1 : bytesToString? (Utf8.encodeChars kw) with
  | none => simp [hk1] at h
  | some k =>
    cases hk2 : bytesToString? (Utf8.encodeChars (arg.getD [])) with
    | none => simp [hk1, hk2] at h
    | some a =>
      cases hk3 : toStmt?.toStmtL? file (encStmts f subs) with
      | none => simp [hk1, hk2, hk3] at h
      | some ss =>
        simp only [hk1, hk2, hk3, Option.bind_some, Option.some.injEq] at h
        subst h
        exact ⟨by simp [mpos, spos, Stmt.line, Stmt.col], rfl⟩

theorem toStmtL?_enc (file : String) (f : List UInt8) : ∀ (ss : List Spec.Parse.Stmt) (xs : List Stmt),
    toStmt?.toStmtL? file (encStmts f ss) = some xs →
    xs.map mpos = ss.map spos ∧ ∀ x ∈ xs, ∃ s ∈ ss, toStmt? file (encStmt f s) = some x
  | [], xs, h => by
    simp only [encStmts, toStmt?.toStmtL?, Option.some.injEq] at h
    subst h
    exact ⟨rfl, fun x hx => by cases hx⟩
  | s :: rest, xs, h => by
    unfold encStmts toStmt?.toStmtL? at h
    simp only [Option.bind_eq_bind] at h
    cases h1 : toStmt? file (encStmt f s) with
    | none => simp [h1] at h
    | some x =>
      cases h2 : toStmt?.toStmtL? file (encStmts f rest) with
      | none => simp [h1, h2] at h
      | some xs' =>
        simp only [h1, h2, Option.bind_some, Option.some.injEq] at h
        subst h
        obtain ⟨ih1, ih2⟩ := toStmtL?_enc file f rest xs' h2
        refine ⟨?_, ?_⟩
        · rw [List.map_cons, List.map_cons, ih1, (toStmt?_enc file f s x h1).1]
        · intro y hy
          rcases List.mem_cons.mp hy with hy | hy
          · subst hy; exact ⟨s, by simp, h1⟩
          · obtain ⟨s', hs', e⟩ := ih2 y hy
            exact ⟨s', by simp [hs'], e⟩

/-- a converted statement of the reference reader's forest has its augment statements at different positions -/
theorem augDistinct_enc (file : String) (f : List UInt8) (s : Spec.Parse.Stmt) (x : Stmt)
    (hs : SibDistinct s) (h : toStmt? file (encStmt f s) = some x) : AugDistinct x := by
  obtain ⟨_, hnd, _⟩ := hs
  refine augDistinct_of_subs x ?_
  rw [(toStmtL?_enc file f s.subs x.subs (toStmt?_enc file f s x h).2).1]
  exact hnd

/-! ### `Registry.add` and the loop of `Modules.Parse` -/

/-- Adding statements one after the other keeps a property of the loaded statements. -/
theorem foldlM_add_stmts (P : Stmt → Prop) : ∀ (stmts : List Stmt) (r r' : Registry),
    stmts.foldlM (fun r s => r.add s) r = .ok r' → (∀ m ∈ r.mods, P m.stmt) → (∀ s ∈ stmts, P s) →
    ∀ m ∈ r'.mods, P m.stmt
  | [], r, r', h, h1, _ => by
    simp only [List.foldlM_nil, pure, Except.pure, Except.ok.injEq] at h
    subst h; exact h1
  | s :: rest, r, r', h, h1, hk => by
    simp only [List.foldlM_cons, bind, Except.bind] at h
    cases ha : r.add s with
    | error e => rw [ha] at h; cases h
    | ok r1 =>
      rw [ha] at h
      refine foldlM_add_stmts P rest r1 r' h ?_ (fun x hx => hk x (by simp [hx]))
      intro m hm
      rw [add_mods ha] at hm
      rcases List.mem_append.mp hm with h2 | h2
      · exact h1 m h2
      · simp only [List.mem_singleton] at h2; subst h2; exact hk s (by simp)

/-- the texts are UTF-8 encodings of Unicode texts without the constructs C02 excludes -/
def TextsAdmissible (texts : List (List UInt8 × List UInt8)) : Prop :=
  ∀ nt ∈ texts, ∃ t : List Char, nt.2 = Utf8.encodeChars t ∧ Spec.Parse.Admissible t = true

/-- One `Modules.Parse` of an admissible text keeps `AugPosDistinct`, accepted or rejected. -/
theorem loadText_augPos (reg : Registry) (name : List UInt8) (t : List Char)
    (ha : Spec.Parse.Admissible t = true) (h1 : AugPosDistinct reg) :
    AugPosDistinct (loadText reg name (Utf8.encodeChars t)).1 := by
  unfold loadText
  split
  · exact h1
  · exact h1
  · rename_i forest hparse
    split
    · exact h1
    · split
      · exact h1
      · split
        · exact h1
        · rename_i fname _
          split
          · exact h1
          · rename_i stmts hst
            split
            · rename_i r hfold
              obtain ⟨ss, hp, hf⟩ := (Compose.parseText_ok_iff name t ha forest).1 hparse
              subst hf
              obtain ⟨_, hsib⟩ := parse_sibDistinct t ss hp
              obtain ⟨_, hsrc⟩ := toStmtL?_enc fname name ss stmts hst
              refine foldlM_add_stmts AugDistinct stmts reg r hfold h1 ?_
              intro x hx
              obtain ⟨s, hs, e⟩ := hsrc x hx
              exact augDistinct_enc fname name s x (hsib s hs) e
            · exact h1

/-- **Every registry loaded from admissible raw texts has its augment statements at different
positions.** -/
theorem augPosDistinct_loadTexts (texts : List (List UInt8 × List UInt8)) (h : TextsAdmissible texts) :
    AugPosDistinct (loadTexts texts).1 := by
  unfold loadTexts
  refine Tree.foldl_inv (fun acc : Registry × List LoadResult => AugPosDistinct acc.1) _ _ _
    (fun m hm => by cases hm) ?_
  rintro ⟨r, res⟩ nt hnt h1
  obtain ⟨t, e, ha⟩ := h nt hnt
  simp only
  rw [e]
  exact loadText_augPos r nt.1 t ha h1

end Goyang.Lemmas.AugPosLoad
