/-
C07 bridge, input predicate `AugPosDistinct` for ALL byte strings (no admissibility), transport part:
from "sibling statements in increasing position order" of the byte-level parsed forest
(`Lemmas/AugPosOrd.lean`: `ForestOK`; the parser fact is the hypothesis `ParserOK` here) through the
conversion to resolver statements (`Model.toStmt?`) and `Registry.add` to every registry
`Model.loadTexts` produces.

The sentinel `ignoreMe` (position 0:0) is excepted from the order; it has the empty keyword, so it is
never an `augment` statement after conversion.
-/
import Goyang.Lemmas.BridgeLoad
import Goyang.Lemmas.AugPosLoad
import Goyang.Lemmas.AugPosOrd

set_option linter.unusedVariables false
namespace Goyang.Lemmas.AugPosLoadAny
open Goyang.Model
open Goyang.Lemmas.Bridge Goyang.Lemmas.AugPosOrd
open Goyang.Lemmas.AugPosLoad (mpos AugDistinct foldlM_add_stmts)

/-- what the parser layer will supply -/
def ParserOK : Prop := ∀ (name text : List UInt8) (forest : List Parse.Statement),
  Parse.parseText name text = .ok forest → ForestOK forest

/-- the empty keyword is not `augment` -/
theorem empty_kw_ne_augment (k : String) (h : bytesToString? [] = some k) : k ≠ "augment" := by
  intro e; subst e
  revert h
  decide

/-! ### the conversion `toStmt?` keeps positions (as naturals) and keywords -/

theorem toStmt?_any (file : String) (s : Parse.Statement) (x : Stmt)
    (h : toStmt? file s = some x) :
    mpos x = ((spos s).1.toNat, (spos s).2.toNat) ∧ (x.kw = "augment" → s ≠ Parse.ignoreMe) ∧
      toStmt?.toStmtL? file s.subs = some x.subs := by
  obtain ⟨kw, ha, arg, f, line, col, subs⟩ := s
  unfold toStmt? at h
  simp only [Option.bind_eq_bind] at h
  cases hk1 : bytesToString? kw with
  | none => simp [hk1] at h
  | some k =>
    cases hk2 : bytesToString? arg with
    | none => simp [hk1, hk2] at h
    | some a =>
      cases hk3 : toStmt?.toStmtL? file subs with
      | none => simp [hk1, hk2, hk3] at h
      | some ss =>
        simp only [hk1, hk2, hk3, Option.bind_some, Option.some.injEq] at h
        subst h
        refine ⟨by simp [mpos, Stmt.line, Stmt.col], ?_, rfl⟩
        intro hkw e
        simp only [Stmt.kw] at hkw
        have e1 : kw = [] := by
          have := congrArg Parse.Statement.keyword e
          simpa [Parse.ignoreMe] using this
        subst e1
        exact empty_kw_ne_augment k hk1 hkw

/-- every converted statement of a list comes from a statement of the list -/
theorem toStmtL?_mem (file : String) : ∀ (ss : List Parse.Statement) (xs : List Stmt),
    toStmt?.toStmtL? file ss = some xs → ∀ x ∈ xs, ∃ s ∈ ss, toStmt? file s = some x
  | [], xs, h => by
    simp only [toStmt?.toStmtL?, Option.some.injEq] at h
    subst h
    exact fun x hx => by cases hx
  | s :: rest, xs, h => by
    unfold toStmt?.toStmtL? at h
    simp only [Option.bind_eq_bind] at h
    cases h1 : toStmt? file s with
    | none => simp [h1] at h
    | some x =>
      cases h2 : toStmt?.toStmtL? file rest with
      | none => simp [h1, h2] at h
      | some xs' =>
        simp only [h1, h2, Option.bind_some, Option.some.injEq] at h
        subst h
        have ih := toStmtL?_mem file rest xs' h2
        intro y hy
        rcases List.mem_cons.mp hy with hy | hy
        · subst hy; exact ⟨s, by simp, h1⟩
        · obtain ⟨s', hs', e⟩ := ih y hy
          exact ⟨s', by simp [hs'], e⟩

/-- siblings in increasing position order: a converted `augment` statement stands at a position
different from every converted statement before it -/
theorem toStmtL?_pairwise (file : String) : ∀ (ss : List Parse.Statement) (xs : List Stmt),
    ss.Pairwise Rel → toStmt?.toStmtL? file ss = some xs →
    xs.Pairwise (fun a b => b.kw = "augment" → mpos a ≠ mpos b)
  | [], xs, _, h => by
    simp only [toStmt?.toStmtL?, Option.some.injEq] at h
    subst h
    exact List.Pairwise.nil
  | s :: rest, xs, hp, h => by
    unfold toStmt?.toStmtL? at h
    simp only [Option.bind_eq_bind] at h
    cases h1 : toStmt? file s with
    | none => simp [h1] at h
    | some x =>
      cases h2 : toStmt?.toStmtL? file rest with
      | none => simp [h1, h2] at h
      | some xs' =>
        simp only [h1, h2, Option.bind_some, Option.some.injEq] at h
        subst h
        obtain ⟨hhead, htail⟩ := List.pairwise_cons.mp hp
        refine List.pairwise_cons.mpr ⟨?_, toStmtL?_pairwise file rest xs' htail h2⟩
        intro b hb hkw
        obtain ⟨s', hs', e⟩ := toStmtL?_mem file rest xs' h2 b hb
        obtain ⟨pb, nb, _⟩ := toStmt?_any file s' b e
        obtain ⟨px, _, _⟩ := toStmt?_any file s x h1
        rcases hhead s' hs' with hr | hr
        · exact absurd hr (nb hkw)
        · rw [px, pb]
          exact plt_ne hr

/-- a converted statement whose substatements are in increasing position order has its augment
statements at different positions -/
theorem augDistinct_any (file : String) (s : Parse.Statement) (x : Stmt)
    (hs : s.subs.Pairwise Rel) (h : toStmt? file s = some x) : AugDistinct x := by
  have hp := toStmtL?_pairwise file s.subs x.subs hs (toStmt?_any file s x h).2.2
  unfold AugDistinct Stmt.all
  show List.Pairwise (· ≠ ·) _
  rw [List.pairwise_map, List.pairwise_filter]
  refine hp.imp ?_
  intro a b hab _ hb
  have hb' : b.kw = "augment" := by simpa using hb
  exact hab hb'

theorem augDistinct_sibOK (file : String) (s : Parse.Statement) (x : Stmt)
    (hs : SibOK s) (h : toStmt? file s = some x) : AugDistinct x := by
  cases hs with
  | mk _ hp _ => exact augDistinct_any file s x hp h

/-- One `Modules.Parse` of any text keeps `AugPosDistinct`, accepted or rejected. -/
theorem loadText_augPos_any (hP : ParserOK) (reg : Registry) (name text : List UInt8)
    (h1 : AugPosDistinct reg) : AugPosDistinct (loadText reg name text).1 := by
  unfold loadText
  split
  · exact h1
  · exact h1
  · rename_i forest hparse
    split
    · exact h1
    · split
      · exact h1
      · split
        · exact h1
        · rename_i fname _
          split
          · exact h1
          · rename_i stmts hst
            split
            · rename_i r hfold
              obtain ⟨_, hsib⟩ := hP name text forest hparse
              refine foldlM_add_stmts AugDistinct stmts reg r hfold h1 ?_
              intro x hx
              obtain ⟨s, hs, e⟩ := toStmtL?_mem fname forest stmts hst x hx
              exact augDistinct_sibOK fname s x (hsib s hs) e
            · exact h1

/-- **Every registry loaded from raw texts has its augment statements at different positions**,
given that the parser returns forests with siblings in increasing position order. -/
theorem augPosDistinct_loadTexts_any (hP : ParserOK) (texts : List (List UInt8 × List UInt8)) :
    AugPosDistinct (loadTexts texts).1 := by
  unfold loadTexts
  refine Tree.foldl_inv (fun acc : Registry × List LoadResult => AugPosDistinct acc.1) _ _ _
    (fun m hm => by cases hm) ?_
  rintro ⟨r, res⟩ nt hnt h1
  exact loadText_augPos_any hP r nt.1 nt.2 h1

end Goyang.Lemmas.AugPosLoadAny
