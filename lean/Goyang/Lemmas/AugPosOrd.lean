/-
C07 bridge, `AugPosDistinct` for ALL byte strings (no admissibility): the shared vocabulary.

* `plt`      — strict lexicographic order on (line, col), both sides non-negative;
* `SrcMono`  — what the generic parser needs of its token source: under an invariant `Inv q s`
               ("every token `s` will still hand out stands strictly after `q`") a pulled token
               stands after `q` and re-establishes the invariant at its own position;
* `Rel`, `SibOK` — sibling statements are in strictly increasing position order, the shared
               sentinel `ignoreMe` (position 0:0, appended after a syntax error) excepted.
-/
import Goyang.Model.Parse

namespace Goyang.Lemmas.AugPosOrd
open Goyang.Model.Lex Goyang.Model.Parse

abbrev Pos := Int × Int

/-- strict lexicographic order on non-negative (line, col) -/
def plt (a b : Pos) : Prop :=
  (a.1 < b.1 ∨ (a.1 = b.1 ∧ a.2 < b.2)) ∧ 0 ≤ a.1 ∧ 0 ≤ a.2 ∧ 0 ≤ b.1 ∧ 0 ≤ b.2

theorem plt_trans {a b c : Pos} (h1 : plt a b) (h2 : plt b c) : plt a c := by
  unfold plt at *; omega

theorem plt_ne {a b : Pos} (h : plt a b) : (a.1.toNat, a.2.toNat) ≠ (b.1.toNat, b.2.toNat) := by
  unfold plt at h
  intro e
  simp only [Prod.mk.injEq] at e
  omega

/-- `a = b` or `a` before `b` -/
def ple (a b : Pos) : Prop := a = b ∨ plt a b

theorem ple_refl (a : Pos) : ple a a := Or.inl rfl
theorem ple_trans {a b c : Pos} (h1 : ple a b) (h2 : ple b c) : ple a c := by
  rcases h1 with h1 | h1
  · rw [h1]; exact h2
  · rcases h2 with h2 | h2
    · rw [← h2]; exact Or.inr h1
    · exact Or.inr (plt_trans h1 h2)
theorem plt_of_plt_of_ple {a b c : Pos} (h1 : plt a b) (h2 : ple b c) : plt a c := by
  rcases h2 with h2 | h2
  · rw [← h2]; exact h1
  · exact plt_trans h1 h2
theorem plt_of_ple_of_plt {a b c : Pos} (h1 : ple a b) (h2 : plt b c) : plt a c := by
  rcases h1 with h1 | h1
  · rw [h1]; exact h2
  · exact plt_trans h1 h2

/-- position of a token -/
abbrev tpos (t : Token) : Pos := (t.line, t.col)
/-- position of a statement -/
abbrev spos (s : Statement) : Pos := (s.line, s.col)

/-- The token source hands out tokens at strictly increasing positions: `Inv q s` says that every
token `s` will still hand out stands strictly after `q`. -/
structure SrcMono {σ : Type} (S : Source σ) (Inv : Pos → σ → Prop) : Prop where
  pull_some : ∀ (b : Bool) (s : σ) (q : Pos) (t : Token) (s' : σ), Inv q s → S.pull b s = (some t, s') →
    plt q (tpos t) ∧ Inv (tpos t) s'
  pull_none : ∀ (b : Bool) (s : σ) (q : Pos) (s' : σ), Inv q s → S.pull b s = (none, s') → Inv q s'
  addErr : ∀ (e : ErrLine) (s : σ) (q : Pos), Inv q s → Inv q (S.addErr e s)

/-- `b` is the sentinel `ignoreMe`, or stands strictly after `a` -/
def Rel (a b : Statement) : Prop := b = ignoreMe ∨ plt (spos a) (spos b)

/-- `s` and every statement below it has its substatements in increasing position order
(`ignoreMe` excepted) -/
inductive SibOK : Statement → Prop
  | mk (s : Statement) (h : s.subs.Pairwise Rel) (hs : ∀ c, c ∈ s.subs → SibOK c) : SibOK s

/-- a parsed forest: top level and every level below in increasing position order -/
def ForestOK (forest : List Statement) : Prop := forest.Pairwise Rel ∧ ∀ s ∈ forest, SibOK s

end Goyang.Lemmas.AugPosOrd
