/-
C07 bridge, `AugPosDistinct` for ALL byte strings: the generic parser over a source that hands out
tokens at strictly increasing positions (`SrcMono`) builds a forest whose siblings stand at
strictly increasing positions on every level, the sentinel `ignoreMe` excepted (`ForestOK`).
-/
import Goyang.Lemmas.AugPosOrd

namespace Goyang.Lemmas.AugPosParse
open Goyang.Model.Lex hiding next
open Goyang.Model.Parse Goyang.Lemmas.AugPosOrd

/-- the pushed-back tokens stand in strictly increasing order after `q`, and the source hands out
tokens after the last of them -/
def Chain {σ : Type} (Inv : Pos → σ → Prop) : Pos → List Token → σ → Prop
  | q, [], s => Inv q s
  | q, t :: ts, s => plt q (tpos t) ∧ Chain Inv (tpos t) ts s

/-- every token the parser will still see stands strictly after `q`, in increasing order -/
def PInv {σ : Type} (Inv : Pos → σ → Prop) (q : Pos) (p : Parser σ) : Prop :=
  Chain Inv q p.tokens p.src

/-- what holds after fetching a token -/
def After {σ : Type} (Inv : Pos → σ → Prop) (q : Pos) (ot : Option Token) (p : Parser σ) : Prop :=
  match ot with
  | none => PInv Inv q p
  | some t => plt q (tpos t) ∧ PInv Inv (tpos t) p

/-- everything after `q` is after `a` -/
def Bel (a : Statement) (q : Pos) : Prop := ∀ x, plt q x → plt (spos a) x

/-- the statements collected so far -/
def AccOK (acc : List Statement) (q : Pos) : Prop :=
  acc.Pairwise Rel ∧ (∀ a ∈ acc, SibOK a) ∧ (∀ a ∈ acc, Bel a q)

def NSpec {σ : Type} (Inv : Pos → σ → Prop) (q : Pos) (r : NS) (p' : Parser σ) : Prop :=
  ∃ q', ple q q' ∧ PInv Inv q' p' ∧
    ∀ s, r = .stmt s → (s = ignoreMe ∨ plt q (spos s)) ∧ Bel s q' ∧ SibOK s

def BSpec {σ : Type} (Inv : Pos → σ → Prop) (q : Pos) (r : Option (List Statement)) (p' : Parser σ) : Prop :=
  (∃ q', ple q q' ∧ PInv Inv q' p') ∧
    ∀ subs, r = some subs → subs.Pairwise Rel ∧ ∀ c ∈ subs, SibOK c

theorem Bel_ignoreMe (q : Pos) : Bel ignoreMe q := by
  intro x h
  show plt (0, 0) x
  unfold plt at *
  simp only
  omega

theorem Bel_mono {a : Statement} {q q' : Pos} (h : Bel a q) (hl : ple q q') : Bel a q' :=
  fun x hx => h x (plt_of_ple_of_plt hl hx)

theorem Bel_of_ple {a : Statement} {q : Pos} (h : ple (spos a) q) : Bel a q :=
  fun _ hx => plt_of_ple_of_plt h hx

theorem SibOK_ignoreMe : SibOK ignoreMe :=
  SibOK.mk ignoreMe (by show List.Pairwise Rel []; exact List.Pairwise.nil)
    (by intro c hc; simp [ignoreMe] at hc)

theorem SibOK_mkStmt (kw : Token) (a : Bool × List UInt8) {subs : List Statement}
    (h : subs.Pairwise Rel) (hs : ∀ c ∈ subs, SibOK c) : SibOK (mkStmt kw a subs) :=
  SibOK.mk _ h hs

theorem AccOK_nil (q : Pos) : AccOK [] q :=
  ⟨List.Pairwise.nil, (by intro a ha; cases ha), (by intro a ha; cases ha)⟩

theorem AccOK_mono {acc : List Statement} {q q' : Pos} (h : AccOK acc q) (hl : ple q q') : AccOK acc q' :=
  ⟨h.1, h.2.1, fun a ha => Bel_mono (h.2.2 a ha) hl⟩

theorem AccOK_snoc {acc : List Statement} {q q' : Pos} {s : Statement} (h : AccOK acc q) (hl : ple q q')
    (hs : s = ignoreMe ∨ plt q (spos s)) (hb : Bel s q') (hk : SibOK s) : AccOK (acc ++ [s]) q' := by
  refine ⟨?_, ?_, ?_⟩
  · rw [List.pairwise_append]
    refine ⟨h.1, List.pairwise_singleton _ _, ?_⟩
    intro a ha b hb'
    rw [List.mem_singleton] at hb'
    subst hb'
    rcases hs with hs | hs
    · exact Or.inl hs
    · exact Or.inr (h.2.2 a ha _ hs)
  · intro a ha
    rw [List.mem_append, List.mem_singleton] at ha
    rcases ha with ha | ha
    · exact h.2.1 a ha
    · rw [ha]; exact hk
  · intro a ha
    rw [List.mem_append, List.mem_singleton] at ha
    rcases ha with ha | ha
    · exact Bel_mono (h.2.2 a ha) hl
    · rw [ha]; exact hb

section generic
variable {σ : Type} {S : Source σ} {Inv : Pos → σ → Prop}

theorem PInv_nil {q : Pos} {p : Parser σ} (ht : p.tokens = []) (h : Inv q p.src) : PInv Inv q p := by
  unfold PInv; rw [ht]; exact h

theorem PInv_nil_inv {q : Pos} {p : Parser σ} (ht : p.tokens = []) (h : PInv Inv q p) : Inv q p.src := by
  unfold PInv at h; rw [ht] at h; exact h

theorem PInv_push1 {q : Pos} {p : Parser σ} {nt : Token} (ht : p.tokens = []) (h1 : plt q (tpos nt))
    (h : Inv (tpos nt) p.src) : PInv Inv q (push [nt] p) := by
  show Chain Inv q ([nt].reverse ++ p.tokens) p.src
  rw [ht]
  exact ⟨h1, h⟩

theorem PInv_push2 {q : Pos} {p : Parser σ} {nt nnt : Token} (ht : p.tokens = []) (h1 : plt q (tpos nt))
    (h2 : plt (tpos nt) (tpos nnt)) (h : Inv (tpos nnt) p.src) : PInv Inv q (push [nnt, nt] p) := by
  show Chain Inv q ([nnt, nt].reverse ++ p.tokens) p.src
  rw [ht]
  exact ⟨h1, h2, h⟩

theorem Chain_addErr (hS : SrcMono S Inv) (e : ErrLine) : ∀ (ts : List Token) (q : Pos) (s : σ),
    Chain Inv q ts s → Chain Inv q ts (S.addErr e s) := by
  intro ts
  induction ts with
  | nil => intro q s h; exact hS.addErr e s q h
  | cons t ts ih => intro q s h; exact ⟨h.1, ih _ _ h.2⟩

theorem PInv_addErr (hS : SrcMono S Inv) (e : ErrLine) {q : Pos} {p : Parser σ} (h : PInv Inv q p) :
    PInv Inv q (addErr S e p) :=
  Chain_addErr hS e _ _ _ h

theorem PInv_setDepth (d : Int) {q : Pos} {p : Parser σ} (h : PInv Inv q p) : PInv Inv q (setDepth d p) := h

theorem pullTok_none (hS : SrcMono S Inv) (b : Bool) (p : Parser σ) (q : Pos) (h : Inv q p.src)
    (e : (pullTok S b p).1 = none) : Inv q (pullTok S b p).2.src :=
  hS.pull_none b p.src q (S.pull b p.src).2 h (Prod.ext e rfl)

theorem pullTok_some (hS : SrcMono S Inv) (b : Bool) (p : Parser σ) (q : Pos) (t : Token) (h : Inv q p.src)
    (e : (pullTok S b p).1 = some t) : plt q (tpos t) ∧ Inv (tpos t) (pullTok S b p).2.src :=
  hS.pull_some b p.src q t (S.pull b p.src).2 h (Prod.ext e rfl)

theorem pullTok_tokens (b : Bool) (p : Parser σ) : (pullTok S b p).2.tokens = p.tokens := rfl

/-- `Inv` is closed towards earlier positions -/
def Down {σ : Type} (Inv : Pos → σ → Prop) : Prop := ∀ (q q' : Pos) (s : σ), ple q q' → Inv q' s → Inv q s

theorem concatLoop_spec (hS : SrcMono S Inv) (hD : Down Inv) (b : Bool) : ∀ (f : Nat) (t : Token) (p : Parser σ),
    p.tokens = [] → Inv (tpos t) p.src →
    tpos (concatLoop S b f t p).1 = tpos t ∧ PInv Inv (tpos t) (concatLoop S b f t p).2 := by
  intro f
  induction f with
  | zero =>
    intro t p ht h
    unfold concatLoop
    exact ⟨rfl, PInv_nil ht h⟩
  | succ f ih =>
    intro t p ht h
    unfold concatLoop
    simp only
    have ht1 : (pullTok S b p).2.tokens = [] := ht
    split
    · rename_i e1
      exact ⟨rfl, PInv_nil ht1 (pullTok_none hS b p _ h e1)⟩
    · rename_i nt e1
      obtain ⟨l1, i1⟩ := pullTok_some hS b p _ nt h e1
      have ht2 : (pullTok S b (pullTok S b p).2).2.tokens = [] := ht
      split
      · split
        · exact ⟨rfl, PInv_push1 ht1 l1 i1⟩
        · split
          · rename_i e2
            exact ⟨rfl, PInv_push1 ht2 l1 (pullTok_none hS b _ _ i1 e2)⟩
          · rename_i nnt e2
            obtain ⟨l2, i2⟩ := pullTok_some hS b _ _ nnt i1 e2
            split
            · exact ih { t with text := t.text ++ nnt.text } _ ht2 (hD _ _ _ (Or.inr (plt_trans l1 l2)) i2)
            · exact ⟨rfl, PInv_push2 ht2 l1 l2 i2⟩
      · exact ⟨rfl, PInv_push1 ht1 l1 i1⟩

theorem next_spec (hS : SrcMono S Inv) (hD : Down Inv) (b : Bool) (f : Nat) (p : Parser σ) (q : Pos) (h : PInv Inv q p) :
    After Inv q (next S b f p).1 (next S b f p).2 := by
  unfold next
  split
  · rename_i t ts e
    unfold PInv at h
    rw [e] at h
    exact ⟨h.1, h.2⟩
  · rename_i e
    have h0 : Inv q p.src := PInv_nil_inv e h
    have ht1 : (pullTok S b p).2.tokens = [] := e
    simp only
    split
    · rename_i e1
      exact PInv_nil ht1 (pullTok_none hS b p q h0 e1)
    · rename_i t e1
      obtain ⟨l1, i1⟩ := pullTok_some hS b p q t h0 e1
      split
      · have hc := concatLoop_spec hS hD b f t _ ht1 i1
        show plt q (tpos (concatLoop S b f t (pullTok S b p).2).1) ∧
          PInv Inv (tpos (concatLoop S b f t (pullTok S b p).2).1) (concatLoop S b f t (pullTok S b p).2).2
        rw [hc.1]
        exact ⟨l1, hc.2⟩
      · exact ⟨l1, PInv_nil ht1 i1⟩

theorem fetchArg_spec (hS : SrcMono S Inv) (hD : Down Inv) (kw : Token) (f : Nat) (p : Parser σ) (q : Pos) (h : PInv Inv q p) :
    ∃ q', ple q q' ∧ After Inv q' (fetchArg S kw f p).2.1 (fetchArg S kw f p).2.2 := by
  unfold fetchArg
  simp only
  have h1 := next_spec hS hD (kw.text = patternKw) f p q h
  split
  · rename_i a e
    have h1' := h1
    rw [e] at h1'
    obtain ⟨l1, i1⟩ := h1'
    split
    · exact ⟨tpos a, Or.inr l1, next_spec hS hD false f _ _ i1⟩
    · exact ⟨q, ple_refl q, h1⟩
  · rename_i e
    rw [e] at h1
    exact ⟨q, ple_refl q, h1⟩

theorem NSpec_eof {q q' : Pos} {p' : Parser σ} (hl : ple q q') (h : PInv Inv q' p') : NSpec Inv q .eof p' :=
  ⟨q', hl, h, fun _ e => by cases e⟩

theorem NSpec_brace {q q' : Pos} {p' : Parser σ} (fl : List UInt8) (l c : Int) (hl : ple q q')
    (h : PInv Inv q' p') : NSpec Inv q (.brace fl l c) p' :=
  ⟨q', hl, h, fun _ e => by cases e⟩

theorem NSpec_ignore {q q' : Pos} {p' : Parser σ} (hl : ple q q') (h : PInv Inv q' p') :
    NSpec Inv q (.stmt ignoreMe) p' :=
  ⟨q', hl, h, fun _ e => by cases e; exact ⟨Or.inl rfl, Bel_ignoreMe _, SibOK_ignoreMe⟩⟩

theorem NSpec_stmt {q q' : Pos} {p' : Parser σ} (t : Token) (a : Bool × List UInt8) {subs : List Statement}
    (h1 : plt q (tpos t)) (hl : ple (tpos t) q') (h : PInv Inv q' p')
    (hp : subs.Pairwise Rel) (hs : ∀ c ∈ subs, SibOK c) : NSpec Inv q (.stmt (mkStmt t a subs)) p' :=
  ⟨q', ple_trans (Or.inr h1) hl, h, fun _ e => by
    cases e; exact ⟨Or.inr h1, Bel_of_ple hl, SibOK_mkStmt t a hp hs⟩⟩

theorem stmt_block_spec (hS : SrcMono S Inv) (hD : Down Inv) : ∀ (f : Nat),
    (∀ (p : Parser σ) (q : Pos), PInv Inv q p →
        NSpec Inv q (nextStatement S f p).1 (nextStatement S f p).2) ∧
    (∀ (acc : List Statement) (p : Parser σ) (q : Pos), PInv Inv q p → AccOK acc q →
        BSpec Inv q (blockLoop S f acc p).1 (blockLoop S f acc p).2) := by
  intro f
  induction f with
  | zero =>
    constructor
    · intro p q h; unfold nextStatement; exact NSpec_eof (ple_refl q) h
    · intro acc p q h _; unfold blockLoop; exact ⟨⟨q, ple_refl q, h⟩, fun _ e => by cases e⟩
  | succ f ih =>
    obtain ⟨ihs, ihb⟩ := ih
    constructor
    · intro p q h
      unfold nextStatement
      simp only
      have h1 := next_spec hS hD false f p q h
      split
      · rename_i e
        rw [e] at h1
        exact NSpec_eof (ple_refl q) h1
      · rename_i t e
        rw [e] at h1
        obtain ⟨l1, i1⟩ := h1
        split
        · exact NSpec_brace _ _ _ (Or.inr l1) (PInv_setDepth _ i1)
        · split
          · exact NSpec_ignore (Or.inr l1) (PInv_addErr hS _ i1)
          · obtain ⟨q2, l2, a2⟩ := fetchArg_spec hS hD t f _ _ i1
            split
            · rename_i e2
              rw [e2] at a2
              exact NSpec_eof (ple_trans (Or.inr l1) l2) (PInv_addErr hS _ a2)
            · rename_i e' e2
              rw [e2] at a2
              obtain ⟨l3, i3⟩ := a2
              have lt3 : ple (tpos t) (tpos e') := ple_trans l2 (Or.inr l3)
              split
              · exact NSpec_stmt t _ l1 lt3 i3 List.Pairwise.nil (by intro c hc; cases hc)
              · split
                · obtain ⟨⟨q4, l4, i4⟩, hsub⟩ := ihb []
                    (setDepth ((fetchArg S t f (next S false f p).2).2.2.depth + 1)
                      (fetchArg S t f (next S false f p).2).2.2) (tpos e')
                    (PInv_setDepth _ i3) (AccOK_nil _)
                  split
                  · exact NSpec_eof (ple_trans (Or.inr l1) (ple_trans lt3 l4)) i4
                  · rename_i subs eb
                    exact NSpec_stmt t _ l1 (ple_trans lt3 l4) i4 (hsub subs eb).1 (hsub subs eb).2
                · exact NSpec_ignore (ple_trans (Or.inr l1) lt3) (PInv_addErr hS _ i3)
    · intro acc p q h ha
      unfold blockLoop
      simp only
      obtain ⟨q1, l1, i1, hs⟩ := ihs p q h
      split
      · exact ⟨⟨q1, l1, i1⟩, fun _ e => by cases e⟩
      · exact ⟨⟨q1, l1, i1⟩, fun _ e => by cases e; exact ⟨ha.1, ha.2.1⟩⟩
      · rename_i s e
        obtain ⟨d1, d2, d3⟩ := hs s e
        obtain ⟨⟨q2, l2, i2⟩, hr⟩ := ihb (acc ++ [s]) _ q1 i1 (AccOK_snoc ha l1 d1 d2 d3)
        exact ⟨⟨q2, ple_trans l1 l2, i2⟩, hr⟩

theorem topLoop_spec (hS : SrcMono S Inv) (hD : Down Inv) : ∀ (f : Nat) (acc : List Statement) (p : Parser σ) (q : Pos),
    PInv Inv q p → AccOK acc q → ForestOK (topLoop S f acc p).1 := by
  intro f
  induction f with
  | zero => intro acc p q _ ha; unfold topLoop; exact ⟨ha.1, ha.2.1⟩
  | succ f ih =>
    intro acc p q h ha
    unfold topLoop
    simp only
    obtain ⟨q1, l1, i1, hs⟩ := (stmt_block_spec hS hD f).1 p q h
    split
    · exact ⟨ha.1, ha.2.1⟩
    · exact ih acc _ q1 (PInv_addErr hS _ i1) (AccOK_mono ha l1)
    · rename_i s e
      obtain ⟨d1, d2, d3⟩ := hs s e
      exact ih (acc ++ [s]) _ q1 i1 (AccOK_snoc ha l1 d1 d2 d3)

/-- the closure of `Inv` towards earlier positions -/
def DownCl (Inv : Pos → σ → Prop) (q : Pos) (s : σ) : Prop := ∃ q', ple q q' ∧ Inv q' s

theorem DownCl_down : Down (DownCl Inv) :=
  fun _ _ _ hl ⟨q2, l2, h⟩ => ⟨q2, ple_trans hl l2, h⟩

theorem DownCl_srcMono (hS : SrcMono S Inv) : SrcMono S (DownCl Inv) where
  pull_some := by
    intro b s q t s' ⟨q', hl, h⟩ e
    obtain ⟨l1, i1⟩ := hS.pull_some b s q' t s' h e
    exact ⟨plt_of_ple_of_plt hl l1, _, ple_refl _, i1⟩
  pull_none := by
    intro b s q s' ⟨q', hl, h⟩ e
    exact ⟨q', hl, hS.pull_none b s q' s' h e⟩
  addErr := by
    intro e s q ⟨q', hl, h⟩
    exact ⟨q', hl, hS.addErr e s q' h⟩

end generic

/-- a source that hands out tokens at strictly increasing positions yields a forest whose siblings
stand at strictly increasing positions on every level (`ignoreMe` excepted) -/
theorem parseWith_forestOK {σ : Type} (S : Source σ) (Inv : Pos → σ → Prop) (hS : SrcMono S Inv)
    (fuel : Nat) (s : σ) (h0 : Inv (0, 0) s) (forest : List Statement)
    (h : parseWith S fuel s = .ok forest) : ForestOK forest := by
  have key : ForestOK (topLoop S fuel [] (initParser s)).1 :=
    topLoop_spec (DownCl_srcMono hS) DownCl_down fuel [] (initParser s) (0, 0)
      (PInv_nil rfl ⟨(0, 0), ple_refl _, h0⟩) (AccOK_nil _)
  unfold parseWith at h
  simp only at h
  split at h
  · cases h
  · split at h
    · cases h
    · split at h
      · injection h with h
        rw [← h]
        exact key
      · cases h

end Goyang.Lemmas.AugPosParse
