/-
C07 bridge, input predicate `AugPosDistinct`, reference-reader part: two different statement
occurrences among the SIBLINGS of one parsed forest (the top level, or the substatements of one
statement) stand at different (line, col).

* `pos_ne_of_lt`      — offset ↦ (line, col) is injective for offsets up to the length of one text;
* `tokenize_sorted`   — the tokens of the reference reader start at strictly increasing offsets;
* `stmts_positions`   — the positions of the statements `stmts` returns are the positions of a
                        sublist of the tokens it was given (their keyword tokens, in order);
* `parse_sibDistinct` — every statement of the forest `parse` returns, at any depth, has
                        substatements at pairwise different (line, col) (`SibDistinct`), and so has the
                        top level.
-/
import Goyang.Lemmas.Scan
import Goyang.Lemmas.ListSrc

namespace Goyang.Lemmas.AugPosSpec
open Goyang.Spec.Parse Goyang.Lemmas.Scan
open Goyang.Lemmas.ListSrc (argument_suffix stmt_stmts_suffix)

/-! ### offset ↦ (line, col) is injective inside one text -/

theorem lastLine_append (pre mid : List Char) (h : '\n' ∉ mid) : lastLine (pre ++ mid) = lastLine pre ++ mid := by
  unfold lastLine
  rw [List.reverse_append, List.takeWhile_append_of_pos, List.reverse_append, List.reverse_reverse]
  intro c hc
  have : c ≠ '\n' := fun e => h (by rw [← e]; exact List.mem_reverse.mp hc)
  simp [this]

/-- Two different offsets of one text (up to its end) have different (line, col). -/
theorem pos_ne_of_lt (text : List Char) (a b : Nat) (hab : a < b) (hb : b ≤ text.length) :
    (lineOf text a, colOf text a) ≠ (lineOf text b, colOf text b) := by
  intro h
  simp only [Prod.mk.injEq, lineOf, colOf] at h
  obtain ⟨h1, h2⟩ := h
  obtain ⟨mid, hmid⟩ : ∃ mid, mid = (text.drop a).take (b - a) := ⟨_, rfl⟩
  have hsplit : text.take b = text.take a ++ mid := by
    have hba : b = a + (b - a) := by omega
    rw [hmid]
    conv => lhs; rw [hba]
    exact List.take_add
  have hlen : mid.length = b - a := by
    rw [hmid, List.length_take, List.length_drop]; omega
  rw [hsplit, List.count_append] at h1
  have hc : mid.count '\n' = 0 := by omega
  have hnl : '\n' ∉ mid := List.count_eq_zero.mp hc
  rw [hsplit, lastLine_append _ _ hnl, List.length_append] at h2
  omega

/-! ### token offsets increase -/

/-- a token of the tail `cs` of a text of `n` characters starts inside `cs` and ends before what is left -/
theorem specNext_bounds (n : Nat) (cs : List Char) (hn : cs.length ≤ n) (t : PTok) (rest : List Char)
    (h : specNext n cs = some (some (t, rest))) :
    n - cs.length ≤ t.off ∧ t.off + rest.length < n ∧ rest.length < cs.length := by
  unfold specNext at h
  cases hg : skipGround cs with
  | none => rw [hg] at h; simp [specNextG] at h
  | some l =>
    rw [hg] at h
    obtain ⟨hle, hhead⟩ := skipGround_le cs.length cs (Nat.le_refl _) l hg
    cases l with
    | nil => simp [specNextG] at h
    | cons c r =>
      have hcs := hhead c r rfl
      simp only [List.length_cons] at hle
      unfold specNextG at h
      simp only at h
      split at h
      · simp only [Option.some.injEq, Prod.mk.injEq] at h; rw [← h.2, ← h.1]
        refine ⟨?_, ?_, ?_⟩ <;> (try dsimp only) <;> omega
      · split at h
        · simp only [Option.some.injEq, Prod.mk.injEq] at h; rw [← h.2, ← h.1]
          refine ⟨?_, ?_, ?_⟩ <;> (try dsimp only) <;> omega
        · split at h
          · simp only [Option.some.injEq, Prod.mk.injEq] at h; rw [← h.2, ← h.1]
            refine ⟨?_, ?_, ?_⟩ <;> (try dsimp only) <;> omega
          · split at h
            · cases hs : scanSq r with
              | none => simp [hs] at h
              | some p =>
                obtain ⟨s, r'⟩ := p
                simp only [hs, Option.some.injEq, Prod.mk.injEq] at h
                have := scanSq_length r s r' hs
                rw [← h.2, ← h.1]
                refine ⟨?_, ?_, ?_⟩ <;> (try dsimp only) <;> omega
            · split at h
              · cases hs : scanDq r with
                | none => simp [hs] at h
                | some p =>
                  obtain ⟨s, r'⟩ := p
                  simp only [hs, Option.some.injEq, Prod.mk.injEq] at h
                  have := scanDq_length r.length r (Nat.le_refl _) s r' hs
                  rw [← h.2, ← h.1]
                  refine ⟨?_, ?_, ?_⟩ <;> (try dsimp only) <;> omega
              · rename_i h1 h2 h3 h4 h5
                simp only [Option.some.injEq, Prod.mk.injEq] at h
                have hnd : isDelim c = false := by simp [isDelim, hcs, h1, h2, h3, h4, h5]
                have hd : (c :: r).dropWhile (fun x => !isDelim x) = r.dropWhile (fun x => !isDelim x) := by
                  simp [hnd]
                have hl := dropWhile_length_le (fun x => !isDelim x) r
                rw [← h.2, ← h.1, hd]
                refine ⟨?_, ?_, ?_⟩ <;> (try dsimp only) <;> omega

theorem tokensAux_sorted (n : Nat) : ∀ (f : Nat) (cs : List Char) (toks : List PTok), cs.length ≤ n →
    tokensAux n f cs = some toks →
    toks.Pairwise (fun a b => a.off < b.off) ∧ ∀ t ∈ toks, n - cs.length ≤ t.off := by
  intro f
  induction f with
  | zero => intro cs toks _ h; simp [tokensAux] at h
  | succ f ih =>
    intro cs toks hn h
    rw [tokensAux_succ] at h
    cases hs : specNext n cs with
    | none => rw [hs] at h; cases h
    | some o =>
      cases o with
      | none =>
        rw [hs] at h; injection h with h; rw [← h]
        exact ⟨List.Pairwise.nil, fun t ht => by cases ht⟩
      | some p =>
        obtain ⟨t0, r⟩ := p
        rw [hs] at h
        simp only at h
        obtain ⟨hb1, hb2, hb3⟩ := specNext_bounds n cs hn t0 r hs
        cases hr : tokensAux n f r with
        | none => rw [hr] at h; cases h
        | some ts =>
          rw [hr] at h
          simp only [Option.map_some, Option.some.injEq] at h
          rw [← h]
          obtain ⟨ih1, ih2⟩ := ih r ts (by omega) hr
          refine ⟨List.pairwise_cons.mpr ⟨fun t ht => ?_, ih1⟩, fun t ht => ?_⟩
          · have := ih2 t ht; omega
          · simp only [List.mem_cons] at ht
            rcases ht with ht | ht
            · rw [ht]; exact hb1
            · have := ih2 t ht; omega

/-- the tokens of a text start at strictly increasing offsets -/
theorem tokenize_sorted (text : List Char) (toks : List PTok) (h : tokenize text = some toks) :
    toks.Pairwise (fun a b => a.off < b.off) :=
  (tokensAux_sorted text.length _ text toks (Nat.le_refl _) h).1

/-! ### statements stand at their keyword tokens, siblings in token order -/

/-- token lists the parser functions are called with: increasing offsets inside the text -/
def Good (text : List Char) (ts : List PTok) : Prop :=
  ts.Pairwise (fun a b => a.off < b.off) ∧ ∀ t ∈ ts, t.off ≤ text.length

theorem Good.suffix {text : List Char} {ts r : List PTok} (h : Good text ts) (hr : r <:+ ts) : Good text r :=
  ⟨h.1.sublist hr.sublist, fun t ht => h.2 t (hr.mem ht)⟩

theorem good_tokenize (text : List Char) (toks : List PTok) (h : tokenize text = some toks) : Good text toks :=
  ⟨tokenize_sorted text toks h, tokensAux_off text.length _ text toks h⟩

/-- (C16's `spec_statement_position`, restated with `lineOf` / `colOf`) -/
theorem stmt_pos (text : List Char) (f : Nat) (k : PTok) (ts r : List PTok) (s : Stmt)
    (h : stmt text f (k :: ts) = some (s, r)) : (s.line, s.col) = (lineOf text k.off, colOf text k.off) := by
  cases f with
  | zero => simp [stmt] at h
  | succ f =>
    unfold stmt at h
    split at h
    · split at h
      · cases h
      · rename_i arg ts' _
        split at h
        · rename_i e r'
          split at h
          · injection h with h; injection h with h1 _; subst h1; rfl
          · split at h
            · split at h
              · split at h
                · injection h with h; injection h with h1 _; subst h1; rfl
                · cases h
              · cases h
            · cases h
        · cases h
    · cases h

/-- the (line, col) of a statement -/
abbrev spos (s : Stmt) : Nat × Nat := (s.line, s.col)

/-- The positions of the statements `stmts` returns are those of a sublist of the tokens it read. -/
theorem stmts_positions (text : List Char) : ∀ (g : Nat) (ts : List PTok) (ss : List Stmt) (rest : List PTok),
    stmts text g ts = some (ss, rest) →
    ∃ l : List PTok, l.Sublist ts ∧ ss.map spos = l.map (fun t => (lineOf text t.off, colOf text t.off)) := by
  intro g
  induction g with
  | zero => intro ts ss rest h; simp [stmts] at h
  | succ g ih =>
    intro ts ss rest h
    cases ts with
    | nil =>
      simp [stmts] at h
      exact ⟨[], List.Sublist.refl _, by rw [h.1]; rfl⟩
    | cons t ts' =>
      unfold stmts at h
      split at h
      · simp only [Option.some.injEq, Prod.mk.injEq] at h
        exact ⟨[], List.nil_sublist _, by rw [← h.1]; rfl⟩
      · cases hs : stmt text g (t :: ts') with
        | none => rw [hs] at h; cases h
        | some p =>
          obtain ⟨s0, r⟩ := p
          rw [hs] at h
          simp only at h
          cases hss : stmts text g r with
          | none => rw [hss] at h; cases h
          | some q =>
            obtain ⟨ss', r'⟩ := q
            rw [hss] at h
            simp only [Option.some.injEq, Prod.mk.injEq] at h
            obtain ⟨l', hl1, hl2⟩ := ih r ss' r' hss
            obtain ⟨hsx, hlen⟩ := (stmt_stmts_suffix text g).1 _ _ _ hs
            have hr : r <:+ ts' := by
              rcases List.suffix_cons_iff.mp hsx with e | e
              · rw [e] at hlen; simp at hlen; omega
              · exact e
            refine ⟨t :: l', (hl1.trans hr.sublist).cons_cons t, ?_⟩
            rw [← h.1, List.map_cons, List.map_cons, hl2]
            congr 1
            exact stmt_pos text g t ts' r s0 hs

/-- Statements `stmts` returns from a good token list stand at pairwise different (line, col). -/
theorem stmts_nodup (text : List Char) (g : Nat) (ts : List PTok) (ss : List Stmt) (rest : List PTok)
    (hg : Good text ts) (h : stmts text g ts = some (ss, rest)) : (ss.map spos).Nodup := by
  obtain ⟨l, hl1, hl2⟩ := stmts_positions text g ts ss rest h
  rw [hl2]
  have hp : l.Pairwise (fun a b => a.off < b.off) := hg.1.sublist hl1
  rw [List.Nodup, List.pairwise_map]
  refine hp.imp_of_mem ?_
  intro a b _ hb hab
  exact pos_ne_of_lt text a.off b.off hab (hg.2 b (hl1.subset hb))

/-- `s` and every statement below it has substatements at pairwise different (line, col) -/
inductive SibDistinct : Stmt → Prop
  | mk (s : Stmt) (hnd : (s.subs.map spos).Nodup) (hsubs : ∀ c, c ∈ s.subs → SibDistinct c) : SibDistinct s

theorem stmt_stmts_sib (text : List Char) : ∀ (g : Nat),
    (∀ ts s rest, Good text ts → stmt text g ts = some (s, rest) → SibDistinct s) ∧
    (∀ ts ss rest, Good text ts → stmts text g ts = some (ss, rest) → ∀ s ∈ ss, SibDistinct s) := by
  intro g
  induction g with
  | zero =>
    exact ⟨fun ts s rest _ h => by simp [stmt] at h, fun ts ss rest _ h => by simp [stmts] at h⟩
  | succ g ih =>
    obtain ⟨ih1, ih2⟩ := ih
    constructor
    · intro ts s rest hks h
      cases ts with
      | nil => simp [stmt] at h
      | cons k ts' =>
        unfold stmt at h
        split at h
        · rename_i kw hkw
          split at h
          · cases h
          · rename_i arg r1 harg
            have hsx := argument_suffix text _ ts' arg r1 harg
            split at h
            · rename_i e r2
              split at h
              · simp only [Option.some.injEq, Prod.mk.injEq] at h
                rw [← h.1]
                exact SibDistinct.mk _ List.nodup_nil (fun c hc => by cases hc)
              · split at h
                · split at h
                  · rename_i subs c r3 hs
                    split at h
                    · simp only [Option.some.injEq, Prod.mk.injEq] at h
                      rw [← h.1]
                      have hg2 : Good text r2 :=
                        hks.suffix (((List.suffix_cons e r2).trans hsx).trans (List.suffix_cons k ts'))
                      exact SibDistinct.mk _ (stmts_nodup text g r2 subs _ hg2 hs)
                        (fun c' hc' => ih2 r2 subs _ hg2 hs c' hc')
                    · cases h
                  · cases h
                · cases h
            · cases h
        · cases h
    · intro ts ss rest hks h
      cases ts with
      | nil => simp [stmts] at h; rw [h.1]; intro s hs; cases hs
      | cons t ts' =>
        unfold stmts at h
        split at h
        · simp only [Option.some.injEq, Prod.mk.injEq] at h
          rw [← h.1]; intro s hs; cases hs
        · cases hs : stmt text g (t :: ts') with
          | none => rw [hs] at h; cases h
          | some p =>
            obtain ⟨s0, r⟩ := p
            rw [hs] at h
            simp only at h
            cases hss : stmts text g r with
            | none => rw [hss] at h; cases h
            | some q =>
              obtain ⟨ss', r'⟩ := q
              rw [hss] at h
              simp only [Option.some.injEq, Prod.mk.injEq] at h
              rw [← h.1]
              intro s hsm
              simp only [List.mem_cons] at hsm
              rcases hsm with hsm | hsm
              · rw [hsm]; exact ih1 _ _ _ hks hs
              · have hsx := ((stmt_stmts_suffix text g).1 _ _ _ hs).1
                exact ih2 r ss' r' (hks.suffix hsx) hss s hsm

/-- **Sibling statements of a parsed text stand at different positions**: the top-level statements of
the reference reader's forest have pairwise different (line, col), and so have the substatements of
every statement of it, at any depth. -/
theorem parse_sibDistinct (text : List Char) (forest : List Stmt) (h : parse text = some forest) :
    (forest.map spos).Nodup ∧ ∀ s ∈ forest, SibDistinct s := by
  unfold parse at h
  cases ht : tokenize text with
  | none => rw [ht] at h; cases h
  | some toks =>
    rw [ht] at h
    simp only at h
    unfold parseTokens at h
    split at h
    · rename_i forest' heq
      injection h with h
      rw [← h]
      have hg := good_tokenize text toks ht
      exact ⟨stmts_nodup text _ toks forest' [] hg heq, (stmt_stmts_sib text _).2 toks forest' [] hg heq⟩
    · cases h

/-! ### non-vacuity -/

/-- `a { b; b; }`: the two `b` statements are equal but for their columns -/
example : parse ['a', ' ', '{', ' ', 'b', ';', ' ', 'b', ';', ' ', '}'] =
    some [⟨['a'], none, 1, 1, [⟨['b'], none, 1, 5, []⟩, ⟨['b'], none, 1, 8, []⟩]⟩] := by rfl

end Goyang.Lemmas.AugPosSpec
