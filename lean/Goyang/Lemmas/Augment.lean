import Goyang.Lemmas.AugmentLoop
/-
C07 — from the loop to the reference semantics: the trace of `augmentLoopR` is a complete run in
the sense of `Spec.Augment`; order independence; exactly once.
-/
namespace Goyang.Lemmas.Augment
open Goyang.Model Goyang.Spec.Augment Goyang.Lemmas.AugmentConfl Goyang.Lemmas.AugmentTree
  Goyang.Lemmas.AugmentModel Goyang.Lemmas.AugmentStep Goyang.Lemmas.AugmentLoop

/-- The resolved augment of an event. -/
def absEv (R : Res) (f0 : Forest) (ev : Ev) : Aug := absAug R f0 ev.owner ev.aug

theorem absAug_inj {R : Res} {f0 : Forest} {id id' : Nat} {a a' : Entry}
    (h : absAug R f0 id a = absAug R f0 id' a') : id = id' ∧ a = a' :=
  ⟨congrArg Aug.owner h, congrArg Aug.body h⟩

/-- The pending augments of a state, resolved. -/
def PSet (R : Res) (f0 : Forest) (s : PState) : Aug → Prop :=
  fun A => ∃ id a, a ∈ s.pendingOf id ∧ A = absAug R f0 id a

theorem mem_map_absEv {R : Res} {f0 : Forest} {tr : List Ev} {id : Nat} {a : Entry} :
    absAug R f0 id a ∈ tr.map (absEv R f0) ↔ (id, a) ∈ tr.map Ev.key := by
  simp only [List.mem_map]
  constructor
  · rintro ⟨ev, hev, h⟩
    obtain ⟨h1, h2⟩ := absAug_inj h
    exact ⟨ev, hev, by simp [Ev.key, h1, h2]⟩
  · rintro ⟨ev, hev, h⟩
    simp only [Ev.key, Prod.mk.injEq] at h
    exact ⟨ev, hev, by simp [absEv, h.1, h.2]⟩

theorem nodup_map_absEv {R : Res} {f0 : Forest} {tr : List Ev} (h : (tr.map Ev.key).Nodup) :
    (tr.map (absEv R f0)).Nodup := by
  have : tr.map (absEv R f0) = (tr.map Ev.key).map (fun x => absAug R f0 x.1 x.2) := by
    rw [List.map_map]; rfl
  rw [this]
  refine List.Pairwise.map _ ?_ h
  intro x y hxy hab
  obtain ⟨h1, h2⟩ := absAug_inj hab
  exact hxy (Prod.ext h1 h2)

/-- The facts that make one event a step of a collision-free run. -/
def EvFree (R : Res) (f0 : Forest) (ev : Ev) : Prop :=
  (absEv R f0 ev).roots.Nodup ∧ NoRpcTarget (viewOf ev.before) (absEv R f0 ev) ∧
    ¬ (absEv R f0 ev).Collides (viewOf ev.before)

theorem NoRpcTarget.mono {v w : View} {A : Aug} (h : NoRpcTarget w A) (hvw : ∀ l d, v l d → w l d) :
    NoRpcTarget v A := fun t ht d hd => h t ht d (hvw t d hd)

/-- A chain that leaves no `duplicate-node` error on a visible node was collision-free. -/
theorem chain_free_of_no_dup_err {R : Res} {f0 f f' : Forest} {tr : List Ev} (h : Chain R f0 f tr f')
    (hnr : ∀ ev ∈ tr, NoRpcTarget (viewOf f') (absEv R f0 ev))
    (hfree : ∀ er, FVisErr f' er → er.cls ≠ "duplicate-node") : ∀ ev ∈ tr, EvFree R f0 ev := by
  induction h with
  | nil _ _ => intro ev hev; cases hev
  | @cons f f2 f' ev tr hv hle hatt hrest ih =>
    intro ev' hev'
    rcases List.mem_cons.mp hev' with rfl | hev'
    · have hle2 : FLe ev'.before f' := (attempt_ok_le hatt).trans hrest.le
      have hnr' : NoRpcTarget (viewOf ev'.before) (absEv R f0 ev') :=
        (hnr ev' List.mem_cons_self).mono (fun l d h => hle2.view h)
      obtain ⟨_, _, _, herr⟩ := attempt_ok hatt f0 rfl
      have hgood : (absEv R f0 ev').roots.Nodup ∧ ¬ (absEv R f0 ev').Collides (viewOf ev'.before) := by
        apply Classical.byContradiction
        intro hbad
        have hbad' : ¬ (absEv R f0 ev').roots.Nodup ∨ (absEv R f0 ev').Collides (viewOf ev'.before) := by
          by_cases h1 : (absEv R f0 ev').roots.Nodup
          · right
            apply Classical.byContradiction
            intro h2; exact hbad ⟨h1, h2⟩
          · exact Or.inl h1
        have := (herr hnr' hbad').mono hrest.le
        exact hfree _ this rfl
      exact ⟨hgood.1, hnr', hgood.2⟩
    · exact ih (fun e he => hnr e (List.mem_cons_of_mem _ he)) hfree ev' hev'

/-- A collision-free chain is a run of the reference semantics. -/
theorem chain_valid {R : Res} {f0 f f' : Forest} {tr : List Ev} (P : Aug → Prop) (h : Chain R f0 f tr f')
    (hP : ∀ ev ∈ tr, P (absEv R f0 ev)) (hnd : (tr.map (absEv R f0)).Nodup) (hfree : ∀ ev ∈ tr, EvFree R f0 ev) :
    Valid P (viewOf f) (tr.map (absEv R f0)) ∧ viewOf f' = after (viewOf f) (tr.map (absEv R f0)) := by
  induction h with
  | nil hv _ => exact ⟨trivial, hv⟩
  | @cons f f2 f' ev tr hv hle hatt hrest ih =>
    simp only [List.map_cons, List.nodup_cons] at hnd
    obtain ⟨hfr1, hfr2, hfr3⟩ := hfree ev List.mem_cons_self
    obtain ⟨_, happ, hgraft, _⟩ := attempt_ok hatt f0 rfl
    have hview2 : viewOf f2 = graft (viewOf f) (absEv R f0 ev) := by
      rw [← hv]; exact hgraft hfr2 hfr1 hfr3
    obtain ⟨ih1, ih2⟩ := ih (fun e he => hP e (List.mem_cons_of_mem _ he)) hnd.2
      (fun e he => hfree e (List.mem_cons_of_mem _ he))
    rw [hview2] at ih1 ih2
    refine ⟨⟨hP ev List.mem_cons_self, ?_, ?_, hnd.1, ih1⟩, ih2⟩
    · rw [← hv]; exact happ
    · rw [← hv]; exact hfr3

/-- A chain of a second run stays inside a complete collision-free first run: it never collides,
and it is itself a run of the reference semantics. -/
theorem chain_inside {R : Res} {f0 : Forest} (P : Aug → Prop) (v0 : View) (hp0 : PrefixClosed v0)
    (seq1 : List Aug) (hv1 : Valid P v0 seq1) (hc1 : Complete P v0 seq1)
    (hnr1 : ∀ A, P A → NoRpcTarget (after v0 seq1) A) (hnd1 : ∀ A ∈ seq1, A.roots.Nodup) :
    ∀ {f f' : Forest} {tr : List Ev}, Chain R f0 f tr f' → ∀ pre, Valid P v0 pre → viewOf f = after v0 pre →
      (∀ ev ∈ tr, P (absEv R f0 ev)) → (pre ++ tr.map (absEv R f0)).Nodup →
      Valid P v0 (pre ++ tr.map (absEv R f0)) ∧ viewOf f' = after v0 (pre ++ tr.map (absEv R f0)) ∧
      ∀ ev ∈ tr, EvFree R f0 ev := by
  intro f f' tr h
  induction h with
  | nil hv _ =>
    intro pre hvp hview _ _
    exact ⟨by simpa using hvp, by simpa using hv.trans hview, by simp⟩
  | @cons f f2 f' ev tr hv hle hatt hrest ih =>
    intro pre hvp hview hP hnd
    have hPA := hP ev List.mem_cons_self
    have hnotin : absEv R f0 ev ∉ pre := by
      intro hm
      rw [List.map_cons] at hnd
      exact (List.nodup_append.mp hnd).2.2 _ hm _ List.mem_cons_self rfl
    obtain ⟨_, happ, hgraft, _⟩ := attempt_ok hatt f0 rfl
    have hbefore : viewOf ev.before = after v0 pre := hv.trans hview
    rw [hbefore] at happ hgraft
    have hncol : ¬ (absEv R f0 ev).Collides (after v0 pre) :=
      never_collides P v0 hp0 seq1 hv1 hc1 pre hvp (absEv R f0 ev) hPA hnotin happ
    have hvalid' : Valid P v0 (pre ++ [absEv R f0 ev]) := valid_snoc P v0 pre _ hvp hPA hnotin happ hncol
    obtain ⟨hsub, hst⟩ := subsumed P v0 seq1 hc1 (pre ++ [absEv R f0 ev]) v0 (fun l d h => after_mono v0 seq1 h)
      (valid_mem P v0 _ hvalid') (valid_applicable P v0 _ hvalid')
    have hin1 : absEv R f0 ev ∈ seq1 := hsub _ (by simp)
    have hnr : NoRpcTarget (after v0 pre) (absEv R f0 ev) := by
      refine (hnr1 _ hPA).mono ?_
      intro l d hd
      apply hst
      rw [after_append]
      exact Or.inr hd
    have hview2 : viewOf f2 = after v0 (pre ++ [absEv R f0 ev]) := by
      rw [after_append]; exact hgraft hnr (hnd1 _ hin1) hncol
    obtain ⟨ih1, ih2, ih3⟩ := ih (pre ++ [absEv R f0 ev]) hvalid' hview2
      (fun e he => hP e (List.mem_cons_of_mem _ he)) (by simpa [List.append_assoc] using hnd)
    refine ⟨by simpa [List.append_assoc] using ih1, by simpa [List.append_assoc] using ih2, ?_⟩
    intro e he
    rcases List.mem_cons.mp he with rfl | he
    · exact ⟨hnd1 _ hin1, by rw [hbefore]; exact hnr, by rw [hbefore]; exact hncol⟩
    · exact ih3 e he

end Goyang.Lemmas.Augment
