import Goyang.Lemmas.AugmentLoop
/-
C07 — from the loop to the reference semantics: the trace of `augmentLoopR` is a complete run in
the sense of `Spec.Augment`; order independence; exactly once.
-/
namespace Goyang.Lemmas.Augment
open Goyang.Model Goyang.Spec.Augment Goyang.Lemmas.AugmentConfl Goyang.Lemmas.AugmentTree
  Goyang.Lemmas.AugmentModel Goyang.Lemmas.AugmentStep Goyang.Lemmas.AugmentLoop

/-- The resolved augment of an event. -/
def absEv (R : Res) (f0 : Forest) (ev : Ev) : Aug := absAug R f0 ev.owner ev.aug

theorem absAug_inj {R : Res} {f0 : Forest} {id id' : Nat} {a a' : Entry}
    (h : absAug R f0 id a = absAug R f0 id' a') : id = id' ∧ a = a' :=
  ⟨congrArg Aug.owner h, congrArg Aug.body h⟩

/-- The pending augments of a state, resolved. -/
def PSet (R : Res) (f0 : Forest) (s : PState) : Aug → Prop :=
  fun A => ∃ id a, a ∈ s.pendingOf id ∧ A = absAug R f0 id a

theorem mem_map_absEv {R : Res} {f0 : Forest} {tr : List Ev} {id : Nat} {a : Entry} :
    absAug R f0 id a ∈ tr.map (absEv R f0) ↔ (id, a) ∈ tr.map Ev.key := by
  simp only [List.mem_map]
  constructor
  · rintro ⟨ev, hev, h⟩
    obtain ⟨h1, h2⟩ := absAug_inj h
    exact ⟨ev, hev, by simp [Ev.key, h1, h2]⟩
  · rintro ⟨ev, hev, h⟩
    simp only [Ev.key, Prod.mk.injEq] at h
    exact ⟨ev, hev, by simp [absEv, h.1, h.2]⟩

theorem nodup_map_absEv {R : Res} {f0 : Forest} {tr : List Ev} (h : (tr.map Ev.key).Nodup) :
    (tr.map (absEv R f0)).Nodup := by
  have : tr.map (absEv R f0) = (tr.map Ev.key).map (fun x => absAug R f0 x.1 x.2) := by
    rw [List.map_map]; rfl
  rw [this]
  refine List.Pairwise.map _ ?_ h
  intro x y hxy hab
  obtain ⟨h1, h2⟩ := absAug_inj hab
  exact hxy (Prod.ext h1 h2)

/-- The facts that make one event a step of a collision-free run. -/
def EvFree (R : Res) (f0 : Forest) (ev : Ev) : Prop :=
  (absEv R f0 ev).roots.Nodup ∧ ¬ (absEv R f0 ev).Collides (viewOf ev.before)

/-- A chain that leaves no `duplicate-node` error on a visible node was collision-free. -/
theorem chain_free_of_no_dup_err {R : Res} {f0 f f' : Forest} {tr : List Ev} (h : Chain R f0 f tr f')
    (hfree : ∀ er, FVisErr f' er → er.cls ≠ "duplicate-node") : ∀ ev ∈ tr, EvFree R f0 ev := by
  induction h with
  | nil _ _ => intro ev hev; cases hev
  | @cons f f2 f' ev tr hv hle hatt hrest ih =>
    intro ev' hev'
    rcases List.mem_cons.mp hev' with rfl | hev'
    · obtain ⟨_, _, _, herr⟩ := attempt_ok hatt f0 rfl
      have hgood : (absEv R f0 ev').roots.Nodup ∧ ¬ (absEv R f0 ev').Collides (viewOf ev'.before) := by
        apply Classical.byContradiction
        intro hbad
        have hbad' : ¬ (absEv R f0 ev').roots.Nodup ∨ (absEv R f0 ev').Collides (viewOf ev'.before) := by
          by_cases h1 : (absEv R f0 ev').roots.Nodup
          · right
            apply Classical.byContradiction
            intro h2; exact hbad ⟨h1, h2⟩
          · exact Or.inl h1
        have := (herr hbad').mono hrest.le
        exact hfree _ this rfl
      exact hgood
    · exact ih hfree ev' hev'

/-- A collision-free chain is a run of the reference semantics. -/
theorem chain_valid {R : Res} {f0 f f' : Forest} {tr : List Ev} (P : Aug → Prop) (h : Chain R f0 f tr f')
    (hP : ∀ ev ∈ tr, P (absEv R f0 ev)) (hnd : (tr.map (absEv R f0)).Nodup) (hfree : ∀ ev ∈ tr, EvFree R f0 ev) :
    Valid P (viewOf f) (tr.map (absEv R f0)) ∧ viewOf f' = after (viewOf f) (tr.map (absEv R f0)) := by
  induction h with
  | nil hv _ => exact ⟨trivial, hv⟩
  | @cons f f2 f' ev tr hv hle hatt hrest ih =>
    simp only [List.map_cons, List.nodup_cons] at hnd
    obtain ⟨hfr1, hfr3⟩ := hfree ev List.mem_cons_self
    obtain ⟨_, happ, hgraft, _⟩ := attempt_ok hatt f0 rfl
    have hview2 : viewOf f2 = graft (viewOf f) (absEv R f0 ev) := by
      rw [← hv]; exact hgraft hfr1 hfr3
    obtain ⟨ih1, ih2⟩ := ih (fun e he => hP e (List.mem_cons_of_mem _ he)) hnd.2
      (fun e he => hfree e (List.mem_cons_of_mem _ he))
    rw [hview2] at ih1 ih2
    refine ⟨⟨hP ev List.mem_cons_self, ?_, ?_, hnd.1, ih1⟩, ih2⟩
    · rw [← hv]; exact happ
    · rw [← hv]; exact hfr3

/-- A chain of a second run stays inside a complete collision-free first run: it never collides,
and it is itself a run of the reference semantics. -/
theorem chain_inside {R : Res} {f0 : Forest} (P : Aug → Prop) (v0 : View) (hp0 : PrefixClosed v0)
    (seq1 : List Aug) (hv1 : Valid P v0 seq1) (hc1 : Complete P v0 seq1)
    (hnd1 : ∀ A ∈ seq1, A.roots.Nodup) :
    ∀ {f f' : Forest} {tr : List Ev}, Chain R f0 f tr f' → ∀ pre, Valid P v0 pre → viewOf f = after v0 pre →
      (∀ ev ∈ tr, P (absEv R f0 ev)) → (pre ++ tr.map (absEv R f0)).Nodup →
      Valid P v0 (pre ++ tr.map (absEv R f0)) ∧ viewOf f' = after v0 (pre ++ tr.map (absEv R f0)) ∧
      ∀ ev ∈ tr, EvFree R f0 ev := by
  intro f f' tr h
  induction h with
  | nil hv _ =>
    intro pre hvp hview _ _
    exact ⟨by simpa using hvp, by simpa using hv.trans hview, by simp⟩
  | @cons f f2 f' ev tr hv hle hatt hrest ih =>
    intro pre hvp hview hP hnd
    have hPA := hP ev List.mem_cons_self
    have hnotin : absEv R f0 ev ∉ pre := by
      intro hm
      rw [List.map_cons] at hnd
      exact (List.nodup_append.mp hnd).2.2 _ hm _ List.mem_cons_self rfl
    obtain ⟨_, happ, hgraft, _⟩ := attempt_ok hatt f0 rfl
    have hbefore : viewOf ev.before = after v0 pre := hv.trans hview
    rw [hbefore] at happ hgraft
    have hncol : ¬ (absEv R f0 ev).Collides (after v0 pre) :=
      never_collides P v0 hp0 seq1 hv1 hc1 pre hvp (absEv R f0 ev) hPA hnotin happ
    have hvalid' : Valid P v0 (pre ++ [absEv R f0 ev]) := valid_snoc P v0 pre _ hvp hPA hnotin happ hncol
    obtain ⟨hsub, hst⟩ := subsumed P v0 seq1 hc1 (pre ++ [absEv R f0 ev]) v0 (fun l d h => after_mono v0 seq1 h)
      (valid_mem P v0 _ hvalid') (valid_applicable P v0 _ hvalid')
    have hin1 : absEv R f0 ev ∈ seq1 := hsub _ (by simp)
    have hview2 : viewOf f2 = after v0 (pre ++ [absEv R f0 ev]) := by
      rw [after_append]; exact hgraft (hnd1 _ hin1) hncol
    obtain ⟨ih1, ih2, ih3⟩ := ih (pre ++ [absEv R f0 ev]) hvalid' hview2
      (fun e he => hP e (List.mem_cons_of_mem _ he)) (by simpa [List.append_assoc] using hnd)
    refine ⟨by simpa [List.append_assoc] using ih1, by simpa [List.append_assoc] using ih2, ?_⟩
    intro e he
    rcases List.mem_cons.mp he with rfl | he
    · exact ⟨hnd1 _ hin1, by rw [hbefore]; exact hncol⟩
    · exact ih3 e he

/-! ### the loop performs a complete run -/

theorem chain_before_le {R : Res} {f0 f f' : Forest} {tr : List Ev} (h : Chain R f0 f tr f') :
    ∀ ev ∈ tr, FLe ev.before f' ∧ (absEv R f0 ev).Applicable (viewOf ev.before) := by
  induction h with
  | nil _ _ => intro ev hev; cases hev
  | cons _ _ hatt hrest ih =>
    intro e he
    rcases List.mem_cons.mp he with rfl | he
    · exact ⟨(attempt_ok_le hatt).trans hrest.le, (attempt_ok hatt f0 rfl).2.1⟩
    · exact ih e he

/-- Final state and trace of the loop started with an empty trace. -/
abbrev loopState (R : Res) (fuel : Nat) (mods : Array Nat) (s : PState) : PState := (augmentLoopR R fuel mods s []).2.1
abbrev loopTrace (R : Res) (fuel : Nat) (mods : Array Nat) (s : PState) : List Ev := (augmentLoopR R fuel mods s []).2.2
abbrev loopMods (R : Res) (fuel : Nat) (mods : Array Nat) (s : PState) : Array Nat := (augmentLoopR R fuel mods s []).1

/-- The loop, whatever the order and multiplicity of the module list (as long as it covers the
trees with pending augments) and whatever the order inside the pending lists, ends — within fuel
`mu s + 1` — in a state where no pending augment is applicable; its trace is a chain of successful
attempts, each augment at most once, and the pending sets shrink by exactly the trace. -/
theorem loop_run (R : Res) (fuel : Nat) (mods : Array Nat) (s : PState) (hn : NodupPending s)
    (hcov : Cover s mods) (hfuel : mu s < fuel) :
    Chain R s.forest s.forest (loopTrace R fuel mods s) (loopState R fuel mods s).forest ∧
    Book s (loopState R fuel mods s) (loopTrace R fuel mods s) ∧
    Cover (loopState R fuel mods s) (loopMods R fuel mods s) ∧
    (∀ m ∈ (loopMods R fuel mods s).toList, m ∈ mods.toList) ∧
    (∀ id, ∀ a ∈ (loopState R fuel mods s).pendingOf id,
      ¬ (absAug R s.forest id a).Applicable (viewOf (loopState R fuel mods s).forest)) := by
  obtain ⟨trn, e1, hchain, hbook, _, hsub, hcov', hcomp⟩ := loop_spec R s.forest fuel mods s [] (FLe.refl _) hn hcov
  have e1' : loopTrace R fuel mods s = trn := by simpa [loopTrace] using e1
  rw [e1']
  exact ⟨hchain, hbook, hcov', hsub, hcomp hfuel⟩

/-- In the reference semantics: when no application of the loop collides , its final view and its leftover set are THE result
(`Spec.IsResult`) of the pending set. -/
theorem loop_isResult_free (R : Res) (fuel : Nat) (mods : Array Nat) (s : PState) (hn : NodupPending s)
    (hcov : Cover s mods) (hfuel : mu s < fuel)
    (hfr : ∀ ev ∈ loopTrace R fuel mods s, EvFree R s.forest ev) :
    Valid (PSet R s.forest s) (viewOf s.forest) ((loopTrace R fuel mods s).map (absEv R s.forest)) ∧
    Complete (PSet R s.forest s) (viewOf s.forest) ((loopTrace R fuel mods s).map (absEv R s.forest)) ∧
    viewOf (loopState R fuel mods s).forest =
      after (viewOf s.forest) ((loopTrace R fuel mods s).map (absEv R s.forest)) ∧
    (∀ A, PSet R s.forest (loopState R fuel mods s) A ↔
      (PSet R s.forest s A ∧ A ∉ (loopTrace R fuel mods s).map (absEv R s.forest))) := by
  obtain ⟨hchain, hbook, _, _, hcomp⟩ := loop_run R fuel mods s hn hcov hfuel
  have hP : ∀ ev ∈ loopTrace R fuel mods s, PSet R s.forest s (absEv R s.forest ev) :=
    fun ev hev => ⟨ev.owner, ev.aug, hbook.fromPending ev hev, rfl⟩
  have hnd := nodup_map_absEv (R := R) (f0 := s.forest) hbook.nodup
  obtain ⟨hvalid, hview⟩ := chain_valid (PSet R s.forest s) hchain hP hnd hfr
  have hleft : ∀ A, PSet R s.forest (loopState R fuel mods s) A ↔
      (PSet R s.forest s A ∧ A ∉ (loopTrace R fuel mods s).map (absEv R s.forest)) := by
    intro A
    constructor
    · rintro ⟨id, a, ha, rfl⟩
      obtain ⟨h1, h2⟩ := (hbook.pending id a).mp ha
      exact ⟨⟨id, a, h1, rfl⟩, fun hm => h2 (mem_map_absEv.mp hm)⟩
    · rintro ⟨⟨id, a, ha, rfl⟩, hnot⟩
      exact ⟨id, a, (hbook.pending id a).mpr ⟨ha, fun hm => hnot (mem_map_absEv.mpr hm)⟩, rfl⟩
  refine ⟨hvalid, ?_, hview, hleft⟩
  intro A hPA hnot
  obtain ⟨id, a, ha, rfl⟩ := (hleft A).mpr ⟨hPA, hnot⟩
  rw [← hview]
  exact hcomp id a ha

/-- The same with the observable hypothesis: the loop leaves no `duplicate-node` error. -/
theorem loop_isResult (R : Res) (fuel : Nat) (mods : Array Nat) (s : PState) (hn : NodupPending s)
    (hcov : Cover s mods) (hfuel : mu s < fuel)
    (hfree : ∀ er, FVisErr (loopState R fuel mods s).forest er → er.cls ≠ "duplicate-node") :
    Valid (PSet R s.forest s) (viewOf s.forest) ((loopTrace R fuel mods s).map (absEv R s.forest)) ∧
    Complete (PSet R s.forest s) (viewOf s.forest) ((loopTrace R fuel mods s).map (absEv R s.forest)) ∧
    viewOf (loopState R fuel mods s).forest =
      after (viewOf s.forest) ((loopTrace R fuel mods s).map (absEv R s.forest)) ∧
    (∀ A, PSet R s.forest (loopState R fuel mods s) A ↔
      (PSet R s.forest s A ∧ A ∉ (loopTrace R fuel mods s).map (absEv R s.forest))) :=
  loop_isResult_free R fuel mods s hn hcov hfuel
    (chain_free_of_no_dup_err (loop_run R fuel mods s hn hcov hfuel).1 hfree)

/-! ### order independence -/

/-- Two runs of the loop from the same forest over the same pending sets — any two module
lists (orders, repetitions) covering the pending trees, any order inside each pending list.
If no application of the first collides, then none of the second does, both end in
the same view, and both leave the same augments unapplied. -/
theorem loop_confluent_free (R : Res) (fuel1 fuel2 : Nat) (mods1 mods2 : Array Nat) (s1 s2 : PState)
    (hforest : s2.forest = s1.forest) (hpend : ∀ id a, a ∈ s2.pendingOf id ↔ a ∈ s1.pendingOf id)
    (hn1 : NodupPending s1) (hn2 : NodupPending s2) (hcov1 : Cover s1 mods1) (hcov2 : Cover s2 mods2)
    (hfuel1 : mu s1 < fuel1) (hfuel2 : mu s2 < fuel2)
    (hfr1 : ∀ ev ∈ loopTrace R fuel1 mods1 s1, EvFree R s1.forest ev) :
    viewOf (loopState R fuel2 mods2 s2).forest = viewOf (loopState R fuel1 mods1 s1).forest ∧
    (∀ id a, a ∈ (loopState R fuel2 mods2 s2).pendingOf id ↔ a ∈ (loopState R fuel1 mods1 s1).pendingOf id) ∧
    (∀ ev ∈ loopTrace R fuel2 mods2 s2, EvFree R s1.forest ev) ∧
    (∀ x, x ∈ (loopTrace R fuel2 mods2 s2).map Ev.key ↔ x ∈ (loopTrace R fuel1 mods1 s1).map Ev.key) := by
  obtain ⟨hv1, hc1, hview1, _⟩ := loop_isResult_free R fuel1 mods1 s1 hn1 hcov1 hfuel1 hfr1
  obtain ⟨_, hbook1, _, _, _⟩ := loop_run R fuel1 mods1 s1 hn1 hcov1 hfuel1
  obtain ⟨hchain2, hbook2, _, _, hcomp2⟩ := loop_run R fuel2 mods2 s2 hn2 hcov2 hfuel2
  rw [hforest] at hchain2 hcomp2
  have hPeq : ∀ A, PSet R s1.forest s2 A ↔ PSet R s1.forest s1 A := by
    intro A
    constructor
    · rintro ⟨id, a, ha, rfl⟩; exact ⟨id, a, (hpend id a).mp ha, rfl⟩
    · rintro ⟨id, a, ha, rfl⟩; exact ⟨id, a, (hpend id a).mpr ha, rfl⟩
  have hP2 : ∀ ev ∈ loopTrace R fuel2 mods2 s2, PSet R s1.forest s1 (absEv R s1.forest ev) :=
    fun ev hev => ⟨ev.owner, ev.aug, (hpend _ _).mp (hbook2.fromPending ev hev), rfl⟩
  have hnd2 := nodup_map_absEv (R := R) (f0 := s1.forest) hbook2.nodup
  have hnd1 : ∀ A ∈ (loopTrace R fuel1 mods1 s1).map (absEv R s1.forest), A.roots.Nodup := by
    intro A hA
    obtain ⟨ev, hev, rfl⟩ := List.mem_map.mp hA
    exact (hfr1 ev hev).1
  obtain ⟨hv2, hview2, hfr2⟩ := chain_inside (PSet R s1.forest s1) (viewOf s1.forest) (viewOf_prefixClosed _)
    _ hv1 hc1 hnd1 hchain2 [] trivial rfl hP2 (by simpa using hnd2)
  simp only [List.nil_append] at hv2 hview2
  have hc2 : Complete (PSet R s1.forest s1) (viewOf s1.forest) ((loopTrace R fuel2 mods2 s2).map (absEv R s1.forest)) := by
    rintro A ⟨id, a, ha, rfl⟩ hnot
    rw [← hview2]
    apply hcomp2 id a
    exact (hbook2.pending id a).mpr ⟨(hpend id a).mpr ha, fun hm => hnot (mem_map_absEv.mpr hm)⟩
  obtain ⟨hA, hB⟩ := confluent (PSet R s1.forest s1) (viewOf s1.forest) _ _ hv1 hc1 hv2 hc2
  have hkeys : ∀ x, x ∈ (loopTrace R fuel2 mods2 s2).map Ev.key ↔ x ∈ (loopTrace R fuel1 mods1 s1).map Ev.key := by
    intro x
    obtain ⟨id, a⟩ := x
    rw [← mem_map_absEv (R := R) (f0 := s1.forest), ← mem_map_absEv (R := R) (f0 := s1.forest)]
    exact (hB _).symm
  refine ⟨?_, ?_, hfr2, hkeys⟩
  · rw [hview1, hview2]
    funext l d
    exact propext (hA l d).symm
  · intro id a
    rw [hbook2.pending, hbook1.pending, hpend, hkeys]

/-- The same with the observable hypothesis: the first run leaves no `duplicate-node` error. -/
theorem loop_confluent (R : Res) (fuel1 fuel2 : Nat) (mods1 mods2 : Array Nat) (s1 s2 : PState)
    (hforest : s2.forest = s1.forest) (hpend : ∀ id a, a ∈ s2.pendingOf id ↔ a ∈ s1.pendingOf id)
    (hn1 : NodupPending s1) (hn2 : NodupPending s2) (hcov1 : Cover s1 mods1) (hcov2 : Cover s2 mods2)
    (hfuel1 : mu s1 < fuel1) (hfuel2 : mu s2 < fuel2)
    (hfree : ∀ er, FVisErr (loopState R fuel1 mods1 s1).forest er → er.cls ≠ "duplicate-node") :
    viewOf (loopState R fuel2 mods2 s2).forest = viewOf (loopState R fuel1 mods1 s1).forest ∧
    (∀ id a, a ∈ (loopState R fuel2 mods2 s2).pendingOf id ↔ a ∈ (loopState R fuel1 mods1 s1).pendingOf id) ∧
    (∀ ev ∈ loopTrace R fuel2 mods2 s2, EvFree R s1.forest ev) ∧
    (∀ x, x ∈ (loopTrace R fuel2 mods2 s2).map Ev.key ↔ x ∈ (loopTrace R fuel1 mods1 s1).map Ev.key) :=
  loop_confluent_free R fuel1 fuel2 mods1 mods2 s1 s2 hforest hpend hn1 hn2 hcov1 hcov2 hfuel1 hfuel2
    (chain_free_of_no_dup_err (loop_run R fuel1 mods1 s1 hn1 hcov1 hfuel1).1 hfree)

/-! ### exactly once -/

/-- Each pending augment is applied at most once, and it is applied exactly when its target
exists in the final forest as a node that can have children. -/
theorem loop_exactly_once (R : Res) (fuel : Nat) (mods : Array Nat) (s : PState) (hn : NodupPending s)
    (hcov : Cover s mods) (hfuel : mu s < fuel) :
    ((loopTrace R fuel mods s).map Ev.key).Nodup ∧
    ∀ id, ∀ a ∈ s.pendingOf id,
      ((id, a) ∈ (loopTrace R fuel mods s).map Ev.key ↔
        (absAug R s.forest id a).Applicable (viewOf (loopState R fuel mods s).forest)) ∧
      ((id, a) ∈ (loopTrace R fuel mods s).map Ev.key ↔ a ∉ (loopState R fuel mods s).pendingOf id) := by
  obtain ⟨hchain, hbook, _, _, hcomp⟩ := loop_run R fuel mods s hn hcov hfuel
  refine ⟨hbook.nodup, ?_⟩
  intro id a ha
  have hleft : (id, a) ∈ (loopTrace R fuel mods s).map Ev.key ↔ a ∉ (loopState R fuel mods s).pendingOf id := by
    rw [hbook.pending]
    constructor
    · intro h hh; exact hh.2 h
    · intro h
      apply Classical.byContradiction
      intro hnot; exact h ⟨ha, hnot⟩
  refine ⟨?_, hleft⟩
  constructor
  · intro hm
    obtain ⟨ev, hev, hk⟩ := List.mem_map.mp hm
    simp only [Ev.key, Prod.mk.injEq] at hk
    obtain ⟨hle, happ⟩ := chain_before_le hchain ev hev
    have : absEv R s.forest ev = absAug R s.forest id a := by simp [absEv, hk.1, hk.2]
    rw [this] at happ
    exact applicable_mono (fun l d h => hle.view h) happ
  · intro happ
    apply Classical.byContradiction
    intro hnot
    exact hcomp id a (Classical.byContradiction fun h => hnot (hleft.mpr h)) happ

/-- A colliding application (a child name already present, or repeated inside the body) leaves a
`duplicate-node` error on a visible node of the final forest. -/
theorem loop_collision_reported (R : Res) (fuel : Nat) (mods : Array Nat) (s : PState) (hn : NodupPending s)
    (hcov : Cover s mods) (hfuel : mu s < fuel)
    (ev : Ev) (hev : ev ∈ loopTrace R fuel mods s)
    (hbad : ¬ (absEv R s.forest ev).roots.Nodup ∨ (absEv R s.forest ev).Collides (viewOf ev.before)) :
    ∃ er, FVisErr (loopState R fuel mods s).forest er ∧ er.cls = "duplicate-node" := by
  obtain ⟨hchain, hbook, _, _, _⟩ := loop_run R fuel mods s hn hcov hfuel
  apply Classical.byContradiction
  intro hno
  have hfree : ∀ er, FVisErr (loopState R fuel mods s).forest er → er.cls ≠ "duplicate-node" :=
    fun er h1 h2 => hno ⟨er, h1, h2⟩
  have := chain_free_of_no_dup_err hchain hfree ev hev
  rcases hbad with h | h
  · exact h this.1
  · exact this.2 h

/-! ### sufficient, decidable conditions for the hypotheses (used by the non-vacuity examples) -/

theorem nodup_of_names (l : List Entry) (h : (l.map (·.d.name)).Nodup) : l.Nodup := by
  induction l with
  | nil => exact List.nodup_nil
  | cons x xs ih =>
    simp only [List.map_cons, List.nodup_cons] at h ⊢
    exact ⟨fun hm => h.1 (List.mem_map.mpr ⟨x, hm, rfl⟩), ih h.2⟩

theorem pendingOf_cases (s : PState) (id : Nat) : s.pendingOf id = [] ∨ ∃ p ∈ s.pending, p.1 = id ∧ s.pendingOf id = p.2 := by
  unfold PState.pendingOf
  cases hf : s.pending.find? (·.1 == id) with
  | none => exact Or.inl rfl
  | some p =>
    right
    exact ⟨p, List.mem_of_find?_eq_some hf, by simpa using List.find?_some hf, rfl⟩

theorem nodupPending_of (s : PState) (h : ∀ p ∈ s.pending, (p.2.map (·.d.name)).Nodup) : NodupPending s := by
  intro id
  rcases pendingOf_cases s id with h0 | ⟨p, hp, _, h1⟩
  · rw [h0]; exact List.nodup_nil
  · rw [h1]; exact nodup_of_names _ (h p hp)

theorem cover_of (s : PState) (mods : Array Nat) (h : ∀ p ∈ s.pending, p.1 ∈ mods.toList) : Cover s mods := by
  intro id hne
  rcases pendingOf_cases s id with h0 | ⟨p, hp, hid, _⟩
  · exact absurd h0 hne
  · rw [← hid]; exact h p hp

theorem noDupErr_of (f : Forest) (h : ∀ t ∈ f.trees, t.2.allErrors = []) :
    ∀ er, FVisErr f er → er.cls ≠ "duplicate-node" := by
  rintro er ⟨id, root, hr, hv⟩
  have := hv.allErrors
  unfold Forest.tree? at hr
  cases hf : f.trees.find? (·.1 == id) with
  | none => simp [hf] at hr
  | some x =>
    simp only [hf, Option.map_some, Option.some.injEq] at hr
    have h0 := h x (List.mem_of_find?_eq_some hf)
    rw [hr] at h0
    rw [h0] at this
    cases this

/-- The model's fuel: with distinct keys in the pending table `processAll`'s `total + 2` exceeds
the measure. -/
theorem fuel_sufficient (s : PState) (hk : (keys s).Nodup) :
    mu s < s.pending.foldl (fun n p => n + p.2.length) 0 + 2 := by
  rw [mu_eq_total s hk]; omega

end Goyang.Lemmas.Augment
