import Goyang.Spec.Augment
/-
C07 — confluence of "apply pending augments until none is applicable" on the flat view
(`Goyang.Spec.Augment`).  Model independent: nothing here mentions `augmentLoop`.

Main results
* `subsumed`       a complete collision-free run contains every run (applied set and view)
* `no_overlap`     in a collision-free run no grafted root was present before or is added twice
* `never_collides` if ONE complete collision-free run exists, no run can reach a collision
* `confluent`      two complete collision-free runs: same view, same applied set
* `result_unique`  `Spec.IsResult` is a function of the pending set
-/
namespace Goyang.Lemmas.AugmentConfl
open Goyang.Model Goyang.Spec.Augment

/-! ### walking -/

theorem walk_append (e : Entry) (p q : NPath) : walk e (p ++ q) = (walk e p).bind fun x => walk x q := by
  induction p generalizing e with
  | nil => simp [walk]
  | cons k p ih =>
    simp only [List.cons_append, walk]
    cases kid e k with
    | none => simp
    | some c => simp [ih]

theorem walk_prefix {e : Entry} {p q : NPath} {x : Entry} (h : walk e (p ++ q) = some x) :
    ∃ y, walk e p = some y ∧ walk y q = some x := by
  rw [walk_append] at h
  cases hp : walk e p with
  | none => simp [hp] at h
  | some y => exact ⟨y, rfl, by simpa [hp] using h⟩

/-! ### the shape of what an augment adds -/

theorem adds_below {a : Aug} {l : NLoc} {d : EData} (h : a.adds l d) :
    ∃ t, a.target = some t ∧ l.1 = t.1 ∧ ∃ k ∈ a.roots, ∃ r, l.2 = t.2 ++ k :: r := by
  obtain ⟨t, ht, h1, c, hc, r, hr, _⟩ := h
  exact ⟨t, ht, h1, c.name, List.mem_map.mpr ⟨c, hc, rfl⟩, r, hr⟩

theorem adds_root {a : Aug} {t : NLoc} (ht : a.target = some t) {k : String} (hk : k ∈ a.roots) :
    View.has a.adds (Aug.rootLoc t k) := by
  obtain ⟨c, hc, rfl⟩ := List.mem_map.mp hk
  exact ⟨_, t, ht, rfl, c, hc, [], rfl, _, rfl, rfl⟩

theorem adds_closed {a : Aug} {t : NLoc} (ht : a.target = some t) {p r : NPath}
    (h : View.has a.adds (t.1, p ++ r)) (hlen : t.2.length < p.length) : View.has a.adds (t.1, p) := by
  obtain ⟨d, t', ht', _, c, hc, r0, hr, e, hw, _⟩ := h
  rw [ht] at ht'; cases ht'
  -- p ++ r = t.2 ++ c.name :: r0 and |p| > |t.2|, so p = t.2 ++ c.name :: r1
  simp only at hr
  have hp : ∃ r1, p = t.2 ++ c.name :: r1 ∧ r0 = r1 ++ r := by
    have h1 : (p ++ r).take p.length = p := by simp
    have hle : t.2.length + 1 ≤ p.length := hlen
    refine ⟨(c.name :: r0).take (p.length - t.2.length) |>.tail, ?_, ?_⟩
    · have h2 : p = (t.2 ++ c.name :: r0).take p.length := by rw [← hr, h1]
      rw [List.take_append] at h2
      have h3 : List.take p.length t.2 = t.2 := List.take_of_length_le (by omega)
      rw [h3] at h2
      have h4 : p.length - t.2.length = (p.length - t.2.length - 1) + 1 := by omega
      rw [h4, List.take_succ_cons] at h2 ⊢
      simpa using h2
    · have h2 : (p ++ r).drop p.length = r := by simp
      rw [hr, List.drop_append] at h2
      have h3 : List.drop p.length t.2 = [] := List.drop_eq_nil_of_le (by omega)
      rw [h3] at h2
      have h4 : p.length - t.2.length = (p.length - t.2.length - 1) + 1 := by omega
      rw [h4] at h2 ⊢
      simp only [List.nil_append, List.drop_succ_cons, List.take_succ_cons, List.tail_cons] at h2 ⊢
      rw [← h2]; exact (List.take_append_drop _ _).symm
  obtain ⟨r1, rfl, rfl⟩ := hp
  obtain ⟨y, hy, _⟩ := walk_prefix hw
  exact ⟨_, t, ht, rfl, c, hc, r1, rfl, y, hy, rfl⟩

/-! ### runs -/

/-- Every prefix of a present location is present. -/
def PrefixClosed (v : View) : Prop := ∀ t p r, v.has (t, p ++ r) → v.has (t, p)

theorem mem_after (v : View) (seq : List Aug) (l : NLoc) (d : EData) :
    after v seq l d ↔ v l d ∨ ∃ a ∈ seq, a.adds l d := by
  induction seq generalizing v with
  | nil => simp [after]
  | cons a seq ih =>
    simp only [after, ih, graft, List.mem_cons]
    constructor
    · rintro ((h | h) | ⟨b, hb, h⟩)
      · exact Or.inr ⟨a, Or.inl rfl, h⟩
      · exact Or.inl h
      · exact Or.inr ⟨b, Or.inr hb, h⟩
    · rintro (h | ⟨b, (rfl | hb), h⟩)
      · exact Or.inl (Or.inr h)
      · exact Or.inl (Or.inl h)
      · exact Or.inr ⟨b, hb, h⟩

theorem after_mono (v : View) (seq : List Aug) {l : NLoc} {d : EData} (h : v l d) : after v seq l d :=
  (mem_after v seq l d).mpr (Or.inl h)

theorem after_append (v : View) (xs ys : List Aug) : after v (xs ++ ys) = after (after v xs) ys := by
  induction xs generalizing v with
  | nil => rfl
  | cons a xs ih => simp [after, ih]

theorem applicable_mono {a : Aug} {v w : View} (h : ∀ l d, v l d → w l d) (ha : a.Applicable v) : a.Applicable w := by
  obtain ⟨t, ht, d, hd, hc⟩ := ha
  exact ⟨t, ht, d, h _ _ hd, hc⟩

theorem valid_mem (P : Aug → Prop) (v : View) (seq : List Aug) (hv : Valid P v seq) : ∀ a ∈ seq, P a := by
  induction seq generalizing v with
  | nil => intro a ha; cases ha
  | cons c seq ih =>
    obtain ⟨hcP, _, _, _, hrest⟩ := hv
    intro a ha
    rcases List.mem_cons.mp ha with rfl | ha
    · exact hcP
    · exact ih _ hrest a ha

theorem valid_nodup (P : Aug → Prop) (v : View) (seq : List Aug) (hv : Valid P v seq) : seq.Nodup := by
  induction seq generalizing v with
  | nil => exact List.nodup_nil
  | cons c seq ih =>
    obtain ⟨_, _, _, hn, hrest⟩ := hv
    exact List.nodup_cons.mpr ⟨hn, ih _ hrest⟩

/-- Splitting a run at one of its members. -/
theorem valid_split (P : Aug → Prop) (v : View) (seq : List Aug) (hv : Valid P v seq) (a : Aug) (ha : a ∈ seq) :
    ∃ xs ys, seq = xs ++ a :: ys ∧ a.Applicable (after v xs) ∧ ¬ a.Collides (after v xs) ∧
      a ∉ xs ∧ a ∉ ys ∧ Valid P v xs := by
  induction seq generalizing v with
  | nil => cases ha
  | cons c seq ih =>
    obtain ⟨hcP, hca, hcc, hcid, hrest⟩ := hv
    by_cases hac : a = c
    · subst hac
      exact ⟨[], seq, rfl, hca, hcc, by simp, hcid, trivial⟩
    · have ha' : a ∈ seq := by
        rcases List.mem_cons.mp ha with h | h
        · exact absurd h hac
        · exact h
      obtain ⟨xs, ys, rfl, h1, h2, h3, h4, h5⟩ := ih (graft v c) hrest ha'
      refine ⟨c :: xs, ys, rfl, h1, h2, ?_, h4, ?_⟩
      · intro hm
        rcases List.mem_cons.mp hm with h | h
        · exact hac h
        · exact h3 h
      · refine ⟨hcP, hca, hcc, ?_, h5⟩
        intro hm; exact hcid (List.mem_append_left _ hm)

theorem prefixClosed_graft (a : Aug) (v : View) (hp : PrefixClosed v) (happ : a.Applicable v) :
    PrefixClosed (graft v a) := by
  intro t p r hmem
  obtain ⟨d, hd⟩ := hmem
  obtain ⟨tt, htt, dt, hdt, _⟩ := happ
  rcases hd with h | h
  · -- p ++ r added by a
    obtain ⟨t', ht', h1, k, hk, r0, hr⟩ := adds_below h
    rw [htt] at ht'; cases ht'
    simp only at h1 hr
    subst h1
    by_cases hlen : tt.2.length < p.length
    · obtain ⟨d', hd'⟩ := adds_closed htt ⟨d, h⟩ hlen
      exact ⟨d', Or.inl hd'⟩
    · -- p is a prefix of the target
      have hle : p.length ≤ tt.2.length := by omega
      have hpre : ∃ q, p ++ q = tt.2 := by
        refine ⟨tt.2.drop p.length, ?_⟩
        have h2 : p = (tt.2 ++ k :: r0).take p.length := by rw [← hr]; simp
        rw [List.take_append_of_le_length hle] at h2
        conv => lhs; lhs; rw [h2]
        exact List.take_append_drop _ _
      obtain ⟨q, hq⟩ := hpre
      obtain ⟨d', hd'⟩ := hp tt.1 p q ⟨dt, by rw [hq]; exact hdt⟩
      exact ⟨d', Or.inr hd'⟩
  · obtain ⟨d', hd'⟩ := hp t p r ⟨d, h⟩
    exact ⟨d', Or.inr hd'⟩

theorem prefixClosed_after (P : Aug → Prop) (v : View) (seq : List Aug) (hp : PrefixClosed v)
    (hv : Valid P v seq) : PrefixClosed (after v seq) := by
  induction seq generalizing v with
  | nil => exact hp
  | cons a seq ih =>
    obtain ⟨_, haa, _, _, hrest⟩ := hv
    exact ih (graft v a) (prefixClosed_graft a v hp haa) hrest

/-- The key step.  `seq1` is a complete collision-free run from `v0`.  Any run `seq2` that starts
inside the final view of `seq1` applies only augments that `seq1` applies and stays inside. -/
theorem subsumed (P : Aug → Prop) (v0 : View) (seq1 : List Aug) (hc1 : Complete P v0 seq1) :
    ∀ (seq2 : List Aug) (v : View), (∀ l d, v l d → after v0 seq1 l d) →
      (∀ a ∈ seq2, P a) → (∀ xs a ys, seq2 = xs ++ a :: ys → a.Applicable (after v xs)) →
      (∀ a ∈ seq2, a ∈ seq1) ∧ (∀ l d, after v seq2 l d → after v0 seq1 l d) := by
  intro seq2
  induction seq2 with
  | nil => intro v hs _ _; exact ⟨by simp, by simpa [after] using hs⟩
  | cons a seq2 ih =>
    intro v hs hP happ
    have haa : a.Applicable v := happ [] a seq2 rfl
    have ha1 : a ∈ seq1 := by
      apply Classical.byContradiction
      intro hnot
      exact hc1 a (hP a (by simp)) hnot (applicable_mono hs haa)
    have hs' : ∀ l d, graft v a l d → after v0 seq1 l d := by
      intro l d h
      rcases h with h | h
      · exact (mem_after v0 seq1 l d).mpr (Or.inr ⟨a, ha1, h⟩)
      · exact hs l d h
    obtain ⟨h1, h2⟩ := ih (graft v a) hs' (fun b hb => hP b (by simp [hb]))
      (fun xs b ys h => by
        have := happ (a :: xs) b ys (by simp [h])
        simpa [after] using this)
    refine ⟨?_, by simpa [after] using h2⟩
    intro b hb
    rcases List.mem_cons.mp hb with rfl | hb
    · exact ha1
    · exact h1 b hb

theorem valid_applicable (P : Aug → Prop) (v : View) (seq : List Aug) (hv : Valid P v seq) :
    ∀ xs a ys, seq = xs ++ a :: ys → a.Applicable (after v xs) := by
  induction seq generalizing v with
  | nil => intro xs a ys h; simp at h
  | cons c seq ih =>
    obtain ⟨_, hca, _, _, hrest⟩ := hv
    intro xs a ys h
    cases xs with
    | nil => simp at h; obtain ⟨rfl, _⟩ := h; exact hca
    | cons x xs =>
      simp at h
      obtain ⟨rfl, h⟩ := h
      simpa [after] using ih _ hrest xs a ys h

/-- In a collision-free run no grafted root was present at the start, and none is added by
another member. -/
theorem no_overlap (P : Aug → Prop) (v : View) (seq : List Aug) (hp : PrefixClosed v) (hv : Valid P v seq) :
    ∀ y ∈ seq, ∀ t, y.target = some t → ∀ k ∈ y.roots,
      ¬ v.has (Aug.rootLoc t k) ∧ ∀ x ∈ seq, x ≠ y → ¬ View.has x.adds (Aug.rootLoc t k) := by
  induction seq generalizing v with
  | nil => intro y hy; cases hy
  | cons c seq ih =>
    obtain ⟨hcP, hca, hcc, hcid, hrest⟩ := hv
    have hp' : PrefixClosed (graft v c) := prefixClosed_graft c v hp hca
    have ih' := ih (graft v c) hp' hrest
    intro y hy t ht k hk
    by_cases hyc : y = c
    · subst hyc
      refine ⟨fun h => hcc ⟨t, ht, k, hk, h⟩, ?_⟩
      intro x hx hxy
      have hx' : x ∈ seq := by
        rcases List.mem_cons.mp hx with h | h
        · exact absurd h hxy
        · exact h
      rintro ⟨d, hmem⟩
      -- x is applied later; its roots are not present after y
      obtain ⟨tx, htx, h1, kx, hkx, r, hr⟩ := adds_below hmem
      have hnot := (ih' x hx' tx htx kx hkx).1
      apply hnot
      simp only [Aug.rootLoc] at h1 hr
      by_cases hre : r = []
      · subst hre
        have hEq : Aug.rootLoc tx kx = Aug.rootLoc t k := by
          simp only [Aug.rootLoc]; rw [← h1, hr]
        rw [hEq]
        obtain ⟨d', hd'⟩ := adds_root ht hk
        exact ⟨d', Or.inl hd'⟩
      · -- rootLoc tx kx is a proper prefix of t.2 ++ [k], hence a prefix of t.2
        have hlast : ∃ r', (tx.2 ++ [kx]) ++ r' = t.2 := by
          have h2 : t.2 ++ [k] = (tx.2 ++ [kx]) ++ r := by rw [hr]; simp
          refine ⟨r.dropLast, ?_⟩
          have := congrArg List.dropLast h2
          rw [List.dropLast_append_of_ne_nil hre] at this
          simpa using this.symm
        obtain ⟨r', hr'⟩ := hlast
        obtain ⟨tt, htt, dt, hdt, _⟩ := hca
        rw [ht] at htt; cases htt
        obtain ⟨d', hd'⟩ := hp t.1 (tx.2 ++ [kx]) r' ⟨dt, by rw [hr']; exact hdt⟩
        exact ⟨d', Or.inr (by simpa [Aug.rootLoc, ← h1] using hd')⟩
    · have hy' : y ∈ seq := by
        rcases List.mem_cons.mp hy with h | h
        · exact absurd h hyc
        · exact h
      have hy_ih := ih' y hy' t ht k hk
      refine ⟨fun h => hy_ih.1 (by obtain ⟨d, hd⟩ := h; exact ⟨d, Or.inr hd⟩), ?_⟩
      intro x hx hxy
      rcases List.mem_cons.mp hx with rfl | hx'
      · exact fun h => hy_ih.1 (by obtain ⟨d, hd⟩ := h; exact ⟨d, Or.inl hd⟩)
      · exact hy_ih.2 x hx' hxy

/-- If one complete collision-free run exists, a collision-free run can never get into a state in
which a still pending, applicable augment collides. -/
theorem never_collides (P : Aug → Prop) (v0 : View) (hp0 : PrefixClosed v0)
    (seq1 : List Aug) (hv1 : Valid P v0 seq1) (hc1 : Complete P v0 seq1)
    (seq2 : List Aug) (hv2 : Valid P v0 seq2)
    (a : Aug) (haP : P a) (hpend : a ∉ seq2) (happ : a.Applicable (after v0 seq2)) :
    ¬ a.Collides (after v0 seq2) := by
  obtain ⟨hsub, hst⟩ := subsumed P v0 seq1 hc1 seq2 v0 (fun l d h => after_mono v0 seq1 h)
    (valid_mem P v0 seq2 hv2) (valid_applicable P v0 seq2 hv2)
  have ha1 : a ∈ seq1 := by
    apply Classical.byContradiction
    intro hnot
    exact hc1 a haP hnot (applicable_mono hst happ)
  rintro ⟨t, ht, k, hk, d, hroot⟩
  have hno := no_overlap P v0 seq1 hp0 hv1 a ha1 t ht k hk
  rcases (mem_after v0 seq2 _ _).mp hroot with h | ⟨b, hb, h⟩
  · exact hno.1 ⟨d, h⟩
  · exact hno.2 b (hsub b hb) (fun hba => hpend (hba ▸ hb)) ⟨d, h⟩

/-- Two complete collision-free runs end in the same view and apply the same augments. -/
theorem confluent (P : Aug → Prop) (v0 : View) (seq1 seq2 : List Aug)
    (hv1 : Valid P v0 seq1) (hc1 : Complete P v0 seq1)
    (hv2 : Valid P v0 seq2) (hc2 : Complete P v0 seq2) :
    (∀ l d, after v0 seq1 l d ↔ after v0 seq2 l d) ∧ (∀ a, a ∈ seq1 ↔ a ∈ seq2) := by
  obtain ⟨h21, s21⟩ := subsumed P v0 seq1 hc1 seq2 v0 (fun l d h => after_mono v0 seq1 h)
    (valid_mem P v0 seq2 hv2) (valid_applicable P v0 seq2 hv2)
  obtain ⟨h12, s12⟩ := subsumed P v0 seq2 hc2 seq1 v0 (fun l d h => after_mono v0 seq2 h)
    (valid_mem P v0 seq1 hv1) (valid_applicable P v0 seq1 hv1)
  exact ⟨fun l d => ⟨s12 l d, s21 l d⟩, fun a => ⟨h12 a, h21 a⟩⟩

/-- `Spec.IsResult` is single valued: the final view and the unapplied set do not depend on the run. -/
theorem result_unique (P : Aug → Prop) (v0 : View) (f1 f2 : View) (u1 u2 : Aug → Prop)
    (h1 : IsResult P v0 f1 u1) (h2 : IsResult P v0 f2 u2) :
    (∀ l d, f1 l d ↔ f2 l d) ∧ (∀ a, u1 a ↔ u2 a) := by
  obtain ⟨s1, hv1, hc1, hf1, hu1⟩ := h1
  obtain ⟨s2, hv2, hc2, hf2, hu2⟩ := h2
  obtain ⟨hA, hB⟩ := confluent P v0 s1 s2 hv1 hc1 hv2 hc2
  refine ⟨fun l d => by rw [hf1, hf2]; exact hA l d, fun a => ?_⟩
  rw [hu1, hu2, hB a]

/-- A run can be extended at its end. -/
theorem valid_snoc (P : Aug → Prop) (v : View) (pre : List Aug) (a : Aug) (hv : Valid P v pre) (hP : P a)
    (hn : a ∉ pre) (happ : a.Applicable (after v pre)) (hcol : ¬ a.Collides (after v pre)) :
    Valid P v (pre ++ [a]) := by
  induction pre generalizing v with
  | nil => exact ⟨hP, happ, hcol, by simp, trivial⟩
  | cons c pre ih =>
    obtain ⟨hcP, hca, hcc, hcn, hrest⟩ := hv
    refine ⟨hcP, hca, hcc, ?_, ?_⟩
    · intro hm
      rcases List.mem_append.mp hm with h | h
      · exact hcn h
      · simp only [List.mem_singleton] at h
        exact hn (h ▸ List.mem_cons_self)
    · exact ih (graft v c) hrest (fun h => hn (List.mem_cons_of_mem _ h)) happ hcol

theorem viewOf_prefixClosed (f : Forest) : PrefixClosed (viewOf f) := by
  intro t p r ⟨d, e, he, _⟩
  unfold nodeAt at he
  cases hroot : f.tree? t with
  | none => simp [hroot] at he
  | some root =>
    simp only [hroot, Option.bind_some] at he
    obtain ⟨y, hy, _⟩ := walk_prefix he
    exact ⟨nodeData y.d, y, by simp [nodeAt, hroot, hy], rfl⟩

end Goyang.Lemmas.AugmentConfl
