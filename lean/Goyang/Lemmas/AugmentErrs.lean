import Goyang.Lemmas.Augment
import Goyang.Lemmas.AugmentReport
import Goyang.Spec.Tree
import Goyang.Lemmas.OrderIndep
/-
C07 — the ERROR LIST of the augment loop.

`Lemmas/AugmentStep.lean` says what one attempt does to the flat view, and that a collision leaves a
`duplicate-node` error.  This file bounds the errors from above: one attempt of one augment adds to
the errors recorded in the forest

* nothing, when it fails — except `Err.bare "other"` on the root of the owner's tree when the first
  prefix of the path denotes no module (`Tgt.badPrefix`; Go: the `e.addError` in `Find`);
* when it succeeds: the errors recorded inside the augment entry (`merge` imports them), and the
  `duplicate-node` error positioned at the augment statement exactly when a body name is taken at
  the target or repeated inside the body (`attempt_errs`).

`updateAt` rewrites EVERY child of the name on its path and `Forest.setTree` every tree of the id, so
an upper bound needs what Go has for free from maps and pointers: sibling names pairwise different
and at most one rpc input / output at every node (`Spec.Tree.KeysUnique`, C04's condition), and one
tree per id.  `KeysUnique` is kept by every operation of the augment stage (`ku_merge`,
`ku_updateAt`, `walkN_keep`).

From the single attempt to the loop: `loop_induct` is an induction principle over
`augmentTreeR` / `augmentPassR` / `augmentLoopR` (an invariant of forest + trace that every single
attempt keeps holds at the end); `loop_errs` is the resulting characterisation of the final error
set, `loop_errs_confluent` the order independence of the error list.
-/
namespace Goyang.Lemmas.AugmentErrs
open Goyang.Model Goyang.Spec.Augment Goyang.Lemmas.AugmentConfl Goyang.Lemmas.AugmentTree
  Goyang.Lemmas.AugmentModel Goyang.Lemmas.AugmentStep Goyang.Lemmas.AugmentLoop Goyang.Lemmas.Augment
  Goyang.Lemmas.AugmentReport
open Goyang.Spec.Tree (KeysUnique keysUniqueHere everyNode everyNodeL)
open Goyang.Lemmas.OrderIndep (errLt errLt_irrefl errLt_trans errLt_total canonErrs_eq)
open Goyang.Lemmas.SortUnique (WSorted sortBy_sorted sortBy_perm sorted_perm_unique lt_asymm)

/-! ### `KeysUnique` -/

theorem everyNodeL_iff' (p : Entry → Bool) (l : List Entry) :
    everyNodeL p l = true ↔ ∀ x ∈ l, everyNode p x = true := by
  induction l with
  | nil => simp [everyNodeL]
  | cons a l ih => simp [everyNodeL, ih]

theorem ku_mk (d : EData) (c i o : List Entry) : KeysUnique (.mk d c i o) ↔
    (c.map (·.name)).Nodup ∧ i.length ≤ 1 ∧ o.length ≤ 1 ∧
      (∀ x ∈ c, KeysUnique x) ∧ (∀ x ∈ i, KeysUnique x) ∧ (∀ x ∈ o, KeysUnique x) := by
  unfold KeysUnique
  simp only [everyNode, everyNodeL_iff', keysUniqueHere, Bool.and_eq_true, mk_dir, mk_inp, mk_out]
  constructor
  · rintro ⟨⟨⟨⟨⟨h1, h2⟩, h3⟩, h4⟩, h5⟩, h6⟩
    exact ⟨of_decide_eq_true h1, of_decide_eq_true h2, of_decide_eq_true h3, h4, h5, h6⟩
  · rintro ⟨h1, h2, h3, h4, h5, h6⟩
    exact ⟨⟨⟨⟨⟨decide_eq_true h1, decide_eq_true h2⟩, decide_eq_true h3⟩, h4⟩, h5⟩, h6⟩

theorem ku_withD (e : Entry) (f : EData → EData) : KeysUnique (e.withD f) ↔ KeysUnique e := by
  cases e with | mk d c i o => simp only [Entry.withD]; rw [ku_mk, ku_mk]

theorem ku_addErr (e : Entry) (x : Err) (h : KeysUnique e) : KeysUnique (e.addErr x) :=
  (ku_withD e _).mpr h

theorem ku_implicitIO (parent : Entry) (b : Bool) : KeysUnique (implicitIO parent b) := by
  unfold implicitIO; rw [ku_mk]; simp

theorem ku_stampO (ns : Option String) (v : Entry) (h : KeysUnique v) : KeysUnique (stampO ns v) := by
  cases ns with
  | none => exact h
  | some n => exact (ku_withD v _).mpr h

theorem ku_mstep (ns : Option String) (oe e v : Entry) (he : KeysUnique e) (hv : KeysUnique v) :
    KeysUnique (mstep ns oe e v) := by
  unfold mstep
  split
  · exact ku_addErr _ _ he
  · rename_i hk
    cases e with
    | mk d c i o =>
      simp only [Entry.withDir, mk_dir]
      rw [ku_mk] at he ⊢
      obtain ⟨h1, h2, h3, h4, h5, h6⟩ := he
      refine ⟨?_, h2, h3, ?_, h5, h6⟩
      · rw [List.map_append, List.nodup_append]
        refine ⟨h1, by simp, ?_⟩
        intro a ha b hb hab
        simp only [List.map_cons, List.map_nil, List.mem_singleton] at hb
        obtain ⟨y, hy, rfl⟩ := List.mem_map.mp ha
        simp only [Entry.child?, mk_dir] at hk
        have := List.find?_eq_none.mp hk y hy
        simp [hab, hb] at this
      · intro x hx
        rcases List.mem_append.mp hx with hx | hx
        · exact h4 x hx
        · simp only [List.mem_singleton] at hx; subst hx; exact ku_stampO ns v hv

theorem ku_importErrors (e c : Entry) (h : KeysUnique e) : KeysUnique (e.importErrors c) :=
  (ku_withD e _).mpr h

/-- `merge` keeps `KeysUnique`, collision or not: a child whose name is taken is refused. -/
theorem ku_merge (e : Entry) (ns : Option String) (oe : Entry) (he : KeysUnique e)
    (ho : ∀ c ∈ oe.dir, KeysUnique c) : KeysUnique (e.merge ns oe) := by
  rw [merge_eq]
  have aux : ∀ (L : List Entry) (z : Entry), KeysUnique z → (∀ c ∈ L, KeysUnique c) →
      KeysUnique (L.foldl (mstep ns oe) z) := by
    intro L
    induction L with
    | nil => intro z hz _; exact hz
    | cons v L ih =>
      intro z hz hL
      exact ih _ (ku_mstep ns oe z v hz (hL v List.mem_cons_self)) (fun c hc => hL c (List.mem_cons_of_mem _ hc))
  exact aux _ _ (ku_importErrors e oe he) ho

theorem ku_updateAt (g : Entry → Entry) (hg : ∀ y, KeysUnique y → KeysUnique (g y)) (hn : NamePres g) :
    ∀ (p : Path) (e : Entry), KeysUnique e → KeysUnique (e.updateAt p g)
  | [], e, h => by rw [updateAt_nil]; exact hg e h
  | .child k :: p, .mk d c i o, h => by
    rw [updateAt_child]
    rw [ku_mk] at h ⊢
    obtain ⟨h1, h2, h3, h4, h5, h6⟩ := h
    refine ⟨?_, h2, h3, ?_, h5, h6⟩
    · have : (c.map fun x => if (x.name == k) = true then x.updateAt p g else x).map (·.name) = c.map (·.name) := by
        rw [List.map_map]
        apply List.map_congr_left
        intro x _
        simp only [Function.comp]
        split
        · exact updateAt_name x p g hn
        · rfl
      rw [this]; exact h1
    · intro x hx
      obtain ⟨y, hy, rfl⟩ := List.mem_map.mp hx
      split
      · exact ku_updateAt g hg hn p y (h4 y hy)
      · exact h4 y hy
  | .input :: p, .mk d c i o, h => by
    rw [updateAt_input]
    rw [ku_mk] at h ⊢
    obtain ⟨h1, h2, h3, h4, h5, h6⟩ := h
    refine ⟨h1, by simpa using h2, h3, h4, ?_, h6⟩
    intro x hx
    obtain ⟨y, hy, rfl⟩ := List.mem_map.mp hx
    exact ku_updateAt g hg hn p y (h5 y hy)
  | .output :: p, .mk d c i o, h => by
    rw [updateAt_output]
    rw [ku_mk] at h ⊢
    obtain ⟨h1, h2, h3, h4, h5, h6⟩ := h
    refine ⟨h1, h2, by simpa using h3, h4, h5, ?_⟩
    intro x hx
    obtain ⟨y, hy, rfl⟩ := List.mem_map.mp hx
    exact ku_updateAt g hg hn p y (h6 y hy)

theorem ku_matIn (y : Entry) (h : KeysUnique y) : KeysUnique (matIn y) := by
  cases y with
  | mk d c i o =>
    simp only [matIn]
    rw [ku_mk] at h ⊢
    obtain ⟨h1, _, h3, h4, _, h6⟩ := h
    exact ⟨h1, by simp, h3, h4, by intro x hx; simp only [List.mem_singleton] at hx; subst hx; exact ku_implicitIO _ _, h6⟩

theorem ku_matOut (y : Entry) (h : KeysUnique y) : KeysUnique (matOut y) := by
  cases y with
  | mk d c i o =>
    simp only [matOut]
    rw [ku_mk] at h ⊢
    obtain ⟨h1, h2, _, h4, h5, _⟩ := h
    exact ⟨h1, h2, by simp, h4, h5, by intro x hx; simp only [List.mem_singleton] at hx; subst hx; exact ku_implicitIO _ _⟩

/-! ### errors under `updateAt` -/

/-- `g` neither loses nor adds an error, at any node. -/
def ErrSame (g : Entry → Entry) : Prop := ∀ (y : Entry) (er : Err), er ∈ (g y).allErrors ↔ er ∈ y.allErrors

theorem updateAt_errs_same {g : Entry → Entry} (hg : ErrSame g) {er : Err} :
    ∀ (q : Path) (e : Entry), er ∈ (e.updateAt q g).allErrors ↔ er ∈ e.allErrors
  | [], e => by rw [updateAt_nil]; exact hg e er
  | .child k :: q, .mk d c i o => by
    rw [updateAt_child, mem_allErrors, mem_allErrors]
    simp only [mk_dir, mk_inp, mk_out, mk_d]
    have : (∃ y ∈ c.map (fun x => if (x.name == k) = true then x.updateAt q g else x), er ∈ y.allErrors) ↔
        ∃ y ∈ c, er ∈ y.allErrors := by
      constructor
      · rintro ⟨y', hy', he⟩
        obtain ⟨y, hy, rfl⟩ := List.mem_map.mp hy'
        refine ⟨y, hy, ?_⟩
        split at he
        · exact (updateAt_errs_same hg q y).mp he
        · exact he
      · rintro ⟨y, hy, he⟩
        refine ⟨_, List.mem_map.mpr ⟨y, hy, rfl⟩, ?_⟩
        split
        · exact (updateAt_errs_same hg q y).mpr he
        · exact he
    rw [this]
  | .input :: q, .mk d c i o => by
    rw [updateAt_input, mem_allErrors, mem_allErrors]
    simp only [mk_dir, mk_inp, mk_out, mk_d]
    have : (∃ y ∈ i.map (·.updateAt q g), er ∈ y.allErrors) ↔ ∃ y ∈ i, er ∈ y.allErrors := by
      constructor
      · rintro ⟨y', hy', he⟩
        obtain ⟨y, hy, rfl⟩ := List.mem_map.mp hy'
        exact ⟨y, hy, (updateAt_errs_same hg q y).mp he⟩
      · rintro ⟨y, hy, he⟩
        exact ⟨_, List.mem_map.mpr ⟨y, hy, rfl⟩, (updateAt_errs_same hg q y).mpr he⟩
    rw [this]
  | .output :: q, .mk d c i o => by
    rw [updateAt_output, mem_allErrors, mem_allErrors]
    simp only [mk_dir, mk_inp, mk_out, mk_d]
    have : (∃ y ∈ o.map (·.updateAt q g), er ∈ y.allErrors) ↔ ∃ y ∈ o, er ∈ y.allErrors := by
      constructor
      · rintro ⟨y', hy', he⟩
        obtain ⟨y, hy, rfl⟩ := List.mem_map.mp hy'
        exact ⟨y, hy, (updateAt_errs_same hg q y).mp he⟩
      · rintro ⟨y, hy, he⟩
        exact ⟨_, List.mem_map.mpr ⟨y, hy, rfl⟩, (updateAt_errs_same hg q y).mpr he⟩
    rw [this]

theorem eq_of_nodup_names {c : List Entry} (hn : (c.map (·.name)).Nodup) {y z : Entry} (hy : y ∈ c) (hz : z ∈ c)
    (h : y.name = z.name) : y = z := by
  induction c with
  | nil => cases hy
  | cons a c ih =>
    simp only [List.map_cons, List.nodup_cons] at hn
    rcases List.mem_cons.mp hy with hya | hy
    · rcases List.mem_cons.mp hz with hza | hz
      · rw [hya, hza]
      · exact absurd (List.mem_map.mpr ⟨z, hz, by rw [← h, hya]⟩) hn.1
    · rcases List.mem_cons.mp hz with hza | hz
      · exact absurd (List.mem_map.mpr ⟨y, hy, by rw [h, hza]⟩) hn.1
      · exact ih hn.2 hy hz

/-- In a tree with unique keys an update changes one node: an error of the updated tree was there
before or is an error of the new node. -/
theorem updateAt_errs_upper {g : Entry → Entry} {er : Err} :
    ∀ (q : Path) (e x : Entry), KeysUnique e → e.getAt q = some x → er ∈ (e.updateAt q g).allErrors →
      er ∈ e.allErrors ∨ er ∈ (g x).allErrors
  | [], e, x, _, hx, h => by
    simp only [Entry.getAt, Option.some.injEq] at hx; subst hx
    rw [updateAt_nil] at h; exact Or.inr h
  | .child k :: q, .mk d c i o, x, hku, hx, h => by
    rw [ku_mk] at hku
    simp only [Entry.getAt] at hx
    cases hc : (Entry.mk d c i o).child? k with
    | none => simp [hc] at hx
    | some c0 =>
      simp only [hc, Option.bind_some] at hx
      have hc0 : c0 ∈ c := List.mem_of_find?_eq_some hc
      have hn0 : c0.name = k := child?_name hc
      rw [updateAt_child, mem_allErrors] at h
      simp only [mk_dir, mk_inp, mk_out, mk_d] at h
      rcases h with ⟨y', hy', he⟩ | h
      · obtain ⟨y, hy, rfl⟩ := List.mem_map.mp hy'
        split at he
        · rename_i hk
          have : y = c0 := eq_of_nodup_names hku.1 hy hc0 (by rw [hn0]; simpa using hk)
          subst this
          rcases updateAt_errs_upper q y x (hku.2.2.2.1 y hy) hx he with h1 | h1
          · exact Or.inl ((mem_allErrors _).mpr (Or.inl ⟨y, hy, h1⟩))
          · exact Or.inr h1
        · exact Or.inl ((mem_allErrors _).mpr (Or.inl ⟨y, hy, he⟩))
      · exact Or.inl ((mem_allErrors _).mpr (Or.inr h))
  | .input :: q, .mk d c i o, x, hku, hx, h => by
    rw [ku_mk] at hku
    simp only [Entry.getAt, mk_inp] at hx
    cases i with
    | nil => simp at hx
    | cons c0 rest =>
      have hrest : rest = [] := by
        have := hku.2.1; simp only [List.length_cons] at this
        exact List.eq_nil_of_length_eq_zero (by omega)
      subst hrest
      simp only [List.head?_cons, Option.bind_some] at hx
      rw [updateAt_input, mem_allErrors] at h
      simp only [mk_dir, mk_inp, mk_out, mk_d, List.map_cons, List.map_nil, List.mem_singleton, exists_eq_left] at h
      rcases h with h | h | h
      · exact Or.inl ((mem_allErrors _).mpr (Or.inl h))
      · rcases updateAt_errs_upper q c0 x (hku.2.2.2.2.1 c0 (by simp)) hx h with h1 | h1
        · exact Or.inl ((mem_allErrors _).mpr (Or.inr (Or.inl ⟨c0, by simp, h1⟩)))
        · exact Or.inr h1
      · exact Or.inl ((mem_allErrors _).mpr (Or.inr (Or.inr h)))
  | .output :: q, .mk d c i o, x, hku, hx, h => by
    rw [ku_mk] at hku
    simp only [Entry.getAt, mk_out] at hx
    cases o with
    | nil => simp at hx
    | cons c0 rest =>
      have hrest : rest = [] := by
        have := hku.2.2.1; simp only [List.length_cons] at this
        exact List.eq_nil_of_length_eq_zero (by omega)
      subst hrest
      simp only [List.head?_cons, Option.bind_some] at hx
      rw [updateAt_output, mem_allErrors] at h
      simp only [mk_dir, mk_inp, mk_out, mk_d, List.map_cons, List.map_nil, List.mem_singleton, exists_eq_left] at h
      rcases h with h | h | h | h
      · exact Or.inl ((mem_allErrors _).mpr (Or.inl h))
      · exact Or.inl ((mem_allErrors _).mpr (Or.inr (Or.inl h)))
      · rcases updateAt_errs_upper q c0 x (hku.2.2.2.2.2 c0 (by simp)) hx h with h1 | h1
        · exact Or.inl ((mem_allErrors _).mpr (Or.inr (Or.inr (Or.inl ⟨c0, by simp, h1⟩))))
        · exact Or.inr h1
      · exact Or.inl ((mem_allErrors _).mpr (Or.inr (Or.inr (Or.inr h))))

/-- The lower direction: in a tree with unique keys, an error survives an update of the node at `q`
when it survives there. -/
theorem updateAt_errs_lower {g : Entry → Entry} {er : Err} :
    ∀ (q : Path) (e x : Entry), KeysUnique e → e.getAt q = some x → (er ∈ x.allErrors → er ∈ (g x).allErrors) →
      er ∈ e.allErrors → er ∈ (e.updateAt q g).allErrors
  | [], e, x, _, hx, hg, h => by
    simp only [Entry.getAt, Option.some.injEq] at hx; subst hx
    rw [updateAt_nil]; exact hg h
  | .child k :: q, .mk d c i o, x, hku, hx, hg, h => by
    rw [ku_mk] at hku
    simp only [Entry.getAt] at hx
    cases hc : (Entry.mk d c i o).child? k with
    | none => simp [hc] at hx
    | some c0 =>
      simp only [hc, Option.bind_some] at hx
      have hc0 : c0 ∈ c := List.mem_of_find?_eq_some hc
      have hn0 : c0.name = k := child?_name hc
      rw [updateAt_child, mem_allErrors]
      rw [mem_allErrors] at h
      simp only [mk_dir, mk_inp, mk_out, mk_d] at h ⊢
      rcases h with ⟨y, hy, he⟩ | h
      · left
        refine ⟨_, List.mem_map.mpr ⟨y, hy, rfl⟩, ?_⟩
        split
        · rename_i hk
          have : y = c0 := eq_of_nodup_names hku.1 hy hc0 (by rw [hn0]; simpa using hk)
          subst this
          exact updateAt_errs_lower q y x (hku.2.2.2.1 y hy) hx hg he
        · exact he
      · exact Or.inr h
  | .input :: q, .mk d c i o, x, hku, hx, hg, h => by
    rw [ku_mk] at hku
    simp only [Entry.getAt, mk_inp] at hx
    cases i with
    | nil => simp at hx
    | cons c0 rest =>
      have hrest : rest = [] := by
        have := hku.2.1; simp only [List.length_cons] at this
        exact List.eq_nil_of_length_eq_zero (by omega)
      subst hrest
      simp only [List.head?_cons, Option.bind_some] at hx
      rw [updateAt_input, mem_allErrors]
      rw [mem_allErrors] at h
      simp only [mk_dir, mk_inp, mk_out, mk_d, List.map_cons, List.map_nil, List.mem_singleton, exists_eq_left] at h ⊢
      rcases h with h | h | h
      · exact Or.inl h
      · exact Or.inr (Or.inl (updateAt_errs_lower q c0 x (hku.2.2.2.2.1 c0 (by simp)) hx hg h))
      · exact Or.inr (Or.inr h)
  | .output :: q, .mk d c i o, x, hku, hx, hg, h => by
    rw [ku_mk] at hku
    simp only [Entry.getAt, mk_out] at hx
    cases o with
    | nil => simp at hx
    | cons c0 rest =>
      have hrest : rest = [] := by
        have := hku.2.2.1; simp only [List.length_cons] at this
        exact List.eq_nil_of_length_eq_zero (by omega)
      subst hrest
      simp only [List.head?_cons, Option.bind_some] at hx
      rw [updateAt_output, mem_allErrors]
      rw [mem_allErrors] at h
      simp only [mk_dir, mk_inp, mk_out, mk_d, List.map_cons, List.map_nil, List.mem_singleton, exists_eq_left] at h ⊢
      rcases h with h | h | h | h
      · exact Or.inl h
      · exact Or.inr (Or.inl h)
      · exact Or.inr (Or.inr (Or.inl (updateAt_errs_lower q c0 x (hku.2.2.2.2.2 c0 (by simp)) hx hg h)))
      · exact Or.inr (Or.inr (Or.inr h))

/-- The errors of the new node are errors of the updated tree. -/
theorem updateAt_errs_new {g : Entry → Entry} (hn : NamePres g) {er : Err} :
    ∀ (q : Path) (e x : Entry), e.getAt q = some x → er ∈ (g x).allErrors → er ∈ (e.updateAt q g).allErrors
  | [], e, x, hx, h => by
    simp only [Entry.getAt, Option.some.injEq] at hx; subst hx
    rw [updateAt_nil]; exact h
  | .child k :: q, .mk d c i o, x, hx, h => by
    simp only [Entry.getAt] at hx
    cases hc : (Entry.mk d c i o).child? k with
    | none => simp [hc] at hx
    | some c0 =>
      simp only [hc, Option.bind_some] at hx
      have hc0 : c0 ∈ c := List.mem_of_find?_eq_some hc
      have hn0 : c0.name = k := child?_name hc
      rw [updateAt_child, mem_allErrors]
      simp only [mk_dir, mk_inp, mk_out, mk_d]
      left
      refine ⟨_, List.mem_map.mpr ⟨c0, hc0, rfl⟩, ?_⟩
      simp only [hn0, beq_self_eq_true, if_true]
      exact updateAt_errs_new hn q c0 x hx h
  | .input :: q, .mk d c i o, x, hx, h => by
    simp only [Entry.getAt, mk_inp] at hx
    cases i with
    | nil => simp at hx
    | cons c0 rest =>
      simp only [List.head?_cons, Option.bind_some] at hx
      rw [updateAt_input, mem_allErrors]
      simp only [mk_dir, mk_inp, mk_out, mk_d]
      exact Or.inr (Or.inl ⟨_, List.mem_map.mpr ⟨c0, by simp, rfl⟩, updateAt_errs_new hn q c0 x hx h⟩)
  | .output :: q, .mk d c i o, x, hx, h => by
    simp only [Entry.getAt, mk_out] at hx
    cases o with
    | nil => simp at hx
    | cons c0 rest =>
      simp only [List.head?_cons, Option.bind_some] at hx
      rw [updateAt_output, mem_allErrors]
      simp only [mk_dir, mk_inp, mk_out, mk_d]
      exact Or.inr (Or.inr (Or.inl ⟨_, List.mem_map.mpr ⟨c0, by simp, rfl⟩, updateAt_errs_new hn q c0 x hx h⟩))

/-! ### errors under `merge` -/

theorem stampO_errs (ns : Option String) (v : Entry) : (stampO ns v).allErrors = v.allErrors := by
  cases ns with
  | none => rfl
  | some n => cases v; simp [stampO, Entry.withD, Entry.allErrors]

/-- The error a refused child leaves. -/
def dupErr (oe : Entry) : Err := Err.at_ oe.d.node "duplicate-node"

theorem mstep_errs_upper (ns : Option String) (oe z v : Entry) {er : Err} (h : er ∈ (mstep ns oe z v).allErrors) :
    er ∈ z.allErrors ∨ er ∈ v.allErrors ∨ (er = dupErr oe ∧ z.child? v.name ≠ none) := by
  unfold mstep at h
  split at h
  · rename_i y hy
    rw [mem_allErrors] at h
    simp only [Entry.addErr, withD_dir, withD_inp, withD_out, withD_d, List.mem_append, List.mem_singleton] at h
    rcases h with h | h | h | h | h
    · exact Or.inl ((mem_allErrors z).mpr (Or.inl h))
    · exact Or.inl ((mem_allErrors z).mpr (Or.inr (Or.inl h)))
    · exact Or.inl ((mem_allErrors z).mpr (Or.inr (Or.inr (Or.inl h))))
    · exact Or.inl ((mem_allErrors z).mpr (Or.inr (Or.inr (Or.inr h))))
    · refine Or.inr (Or.inr ⟨h, ?_⟩)
      simp only [stampO_name] at hy
      rw [hy]; simp
  · rw [mem_allErrors] at h
    simp only [withDir_dir, withDir_inp, withDir_out, withDir_d, List.mem_append, List.mem_singleton] at h
    rcases h with ⟨c, hc | hc, hce⟩ | h
    · exact Or.inl ((mem_allErrors z).mpr (Or.inl ⟨c, hc, hce⟩))
    · subst hc; rw [stampO_errs] at hce; exact Or.inr (Or.inl hce)
    · exact Or.inl ((mem_allErrors z).mpr (Or.inr h))

theorem freeIn_tail (ns : Option String) (oe z v : Entry) (L : List Entry) (hf : FreeIn z (v :: L)) :
    FreeIn (mstep ns oe z v) L := by
  obtain ⟨hnone, hnd⟩ := hf
  have hv : z.child? v.name = none := hnone v (by simp)
  have hstep : mstep ns oe z v = z.withDir (z.dir ++ [stampO ns v]) := by
    unfold mstep; simp [hv]
  simp only [List.map_cons, List.nodup_cons] at hnd
  rw [hstep]
  refine ⟨?_, hnd.2⟩
  intro c hc
  have h1 : z.child? c.name = none := hnone c (by simp [hc])
  have h2 : ¬ v.name = c.name := fun h => hnd.1 (h ▸ List.mem_map.mpr ⟨c, hc, rfl⟩)
  simp only [Entry.child?, withDir_dir, List.find?_append] at h1 ⊢
  simp [h1, h2]

theorem fold_mstep_errs_upper (ns : Option String) (oe : Entry) {er : Err} :
    ∀ (L : List Entry) (z : Entry), er ∈ (L.foldl (mstep ns oe) z).allErrors →
      er ∈ z.allErrors ∨ (∃ v ∈ L, er ∈ v.allErrors) ∨ (er = dupErr oe ∧ ¬ FreeIn z L)
  | [], z, h => Or.inl h
  | v :: L, z, h => by
    simp only [List.foldl_cons] at h
    rcases fold_mstep_errs_upper ns oe L _ h with h1 | ⟨w, hw, h1⟩ | ⟨h1, h2⟩
    · rcases mstep_errs_upper ns oe z v h1 with h3 | h3 | ⟨h3, h4⟩
      · exact Or.inl h3
      · exact Or.inr (Or.inl ⟨v, List.mem_cons_self, h3⟩)
      · exact Or.inr (Or.inr ⟨h3, fun hf => h4 (hf.1 v List.mem_cons_self)⟩)
    · exact Or.inr (Or.inl ⟨w, List.mem_cons_of_mem _ hw, h1⟩)
    · exact Or.inr (Or.inr ⟨h1, fun hf => h2 (freeIn_tail ns oe z v L hf)⟩)

theorem importErrors_errs (e oe : Entry) (er : Err) :
    er ∈ (e.importErrors oe).allErrors ↔ er ∈ e.allErrors ∨ er ∈ oe.allErrors := by
  cases e with
  | mk d c i o =>
    cases oe with
    | mk d' c' i' o' =>
      simp only [Entry.importErrors, Entry.addErrs, Entry.withD, Entry.allErrors, mk_d, mk_dir, mk_inp, mk_out,
        List.mem_append]
      constructor
      · rintro (((h | h) | h) | h | ((h | h) | h) | h)
        · exact Or.inl (Or.inl (Or.inl (Or.inl h)))
        · exact Or.inl (Or.inl (Or.inl (Or.inr h)))
        · exact Or.inl (Or.inl (Or.inr h))
        · exact Or.inl (Or.inr h)
        · exact Or.inr (Or.inr h)
        · exact Or.inr (Or.inl (Or.inl (Or.inl h)))
        · exact Or.inr (Or.inl (Or.inl (Or.inr h)))
        · exact Or.inr (Or.inl (Or.inr h))
      · rintro ((((h | h) | h) | h) | (((h | h) | h) | h))
        · exact Or.inl (Or.inl (Or.inl h))
        · exact Or.inl (Or.inl (Or.inr h))
        · exact Or.inl (Or.inr h)
        · exact Or.inr (Or.inl h)
        · exact Or.inr (Or.inr (Or.inl (Or.inl (Or.inr h))))
        · exact Or.inr (Or.inr (Or.inl (Or.inr h)))
        · exact Or.inr (Or.inr (Or.inr h))
        · exact Or.inr (Or.inr (Or.inl (Or.inl (Or.inl h))))

/-- **What `merge` does to the error set**: it keeps the receiver's errors, imports those recorded
anywhere in the merged entry, and adds the `duplicate-node` error exactly when a name is taken or
repeated. -/
theorem merge_errs (e : Entry) (ns : Option String) (oe : Entry) (er : Err) :
    er ∈ (e.merge ns oe).allErrors ↔
      er ∈ e.allErrors ∨ er ∈ oe.allErrors ∨ (er = dupErr oe ∧ ¬ FreeIn e oe.dir) := by
  constructor
  · intro h
    rw [merge_eq] at h
    rcases fold_mstep_errs_upper ns oe oe.dir _ h with h1 | ⟨v, hv, h1⟩ | ⟨h1, h2⟩
    · rcases (importErrors_errs e oe er).mp h1 with h3 | h3
      · exact Or.inl h3
      · exact Or.inr (Or.inl h3)
    · exact Or.inr (Or.inl ((mem_allErrors oe).mpr (Or.inl ⟨v, hv, h1⟩)))
    · exact Or.inr (Or.inr ⟨h1, fun hf => h2 ((freeIn_importErrors e oe _).mpr hf)⟩)
  · rintro (h | h | ⟨h1, h2⟩)
    · exact merge_errMono ns oe e er h
    · have h0 : er ∈ (e.importErrors oe).allErrors := (importErrors_errs e oe er).mpr (Or.inr h)
      rw [merge_eq]
      generalize e.importErrors oe = z at h0
      induction oe.dir generalizing z with
      | nil => exact h0
      | cons v L ih => exact ih _ (mstep_errMono ns oe v z er h0)
    · rw [h1]; exact own_errors_sub _ (merge_collision_err e ns oe h2)

/-! ### the step loop of `Find` keeps errors and `KeysUnique` -/

theorem matIn_errs (e : Entry) (he : e.inp.isEmpty = true) (er : Err) : er ∈ (matIn e).allErrors ↔ er ∈ e.allErrors := by
  cases e with
  | mk d c i o =>
    have hi : i = [] := by simpa using he
    subst hi
    simp [matIn, Entry.allErrors, Entry.allErrorsL, implicitIO]

theorem matOut_errs (e : Entry) (he : e.out.isEmpty = true) (er : Err) : er ∈ (matOut e).allErrors ↔ er ∈ e.allErrors := by
  cases e with
  | mk d c i o =>
    have hi : o = [] := by simpa using he
    subst hi
    simp [matOut, Entry.allErrors, Entry.allErrorsL, implicitIO]

/-- Materialising an absent rpc input / output at a node that is really there. -/
theorem mat_keep (root e : Entry) (p : Path) (g : Entry → Entry) (hku : KeysUnique root) (hget : root.getAt p = some e)
    (hg : ∀ y, KeysUnique y → KeysUnique (g y)) (hn : NamePres g) (he : ∀ er, er ∈ (g e).allErrors ↔ er ∈ e.allErrors) :
    KeysUnique (root.updateAt p g) ∧ ∀ er, er ∈ (root.updateAt p g).allErrors ↔ er ∈ root.allErrors := by
  refine ⟨ku_updateAt g hg hn p root hku, fun er => ⟨?_, ?_⟩⟩
  · intro h
    rcases updateAt_errs_upper p root e hku hget h with h1 | h1
    · exact h1
    · exact getAt_errors_sub p root e hget ((he er).mp h1)
  · exact updateAt_errs_lower p root e hku hget (he er).mpr

theorem walkN_keep : ∀ (names : List String) (root : Entry) (cur : Option Path), KeysUnique root →
    KeysUnique (walkN names root cur).2 ∧ ∀ er, er ∈ (walkN names root cur).2.allErrors ↔ er ∈ root.allErrors
  | [], root, cur, h => ⟨h, fun _ => Iff.rfl⟩
  | nm :: rest, root, cur, h => by
    simp only [walkN]
    cases cur with
    | none => exact ⟨h, fun _ => Iff.rfl⟩
    | some p =>
      simp only
      cases hget : root.getAt p with
      | none => exact ⟨h, fun _ => Iff.rfl⟩
      | some e =>
        simp only
        by_cases hr : e.d.isRpc = true
        · simp only [hr, if_true]
          by_cases hi : (nm == "input") = true
          · simp only [hi, if_true]
            by_cases he : e.inp.isEmpty = true
            · simp only [he, if_true]
              obtain ⟨k1, k2⟩ := mat_keep root e p matIn h hget ku_matIn matIn_namePres (matIn_errs e he)
              obtain ⟨k3, k4⟩ := walkN_keep rest (root.updateAt p matIn) (some (p ++ [.input])) k1
              exact ⟨k3, fun er => (k4 er).trans (k2 er)⟩
            · simp only [he, Bool.false_eq_true, if_false]
              exact walkN_keep rest root _ h
          · simp only [hi, Bool.false_eq_true, if_false]
            by_cases ho : (nm == "output") = true
            · simp only [ho, if_true]
              by_cases he : e.out.isEmpty = true
              · simp only [he, if_true]
                obtain ⟨k1, k2⟩ := mat_keep root e p matOut h hget ku_matOut matOut_namePres (matOut_errs e he)
                obtain ⟨k3, k4⟩ := walkN_keep rest (root.updateAt p matOut) (some (p ++ [.output])) k1
                exact ⟨k3, fun er => (k4 er).trans (k2 er)⟩
              · simp only [he, Bool.false_eq_true, if_false]
                exact walkN_keep rest root _ h
            · simp only [ho, Bool.false_eq_true, if_false]
              exact ⟨h, by intros; trivial⟩
        · simp only [hr, Bool.false_eq_true, if_false]
          cases e.child? nm with
          | none => simp only; exact walkN_keep rest root none h
          | some c => simp only; exact walkN_keep rest root _ h


/-! ### forests -/

/-- An error recorded in a tree of the forest (one that `tree?` finds). -/
def FErr (f : Forest) (er : Err) : Prop := ∃ id root, f.tree? id = some root ∧ er ∈ root.allErrors

/-- Every tree of the forest has unique keys. -/
def FKU (f : Forest) : Prop := ∀ id root, f.tree? id = some root → KeysUnique root

/-- The tree ids, in order. -/
def ids (f : Forest) : List Nat := f.trees.map (·.1)

theorem ids_setTree (f : Forest) (t : Nat) (e : Entry) : ids (f.setTree t e) = ids f := by
  unfold ids Forest.setTree
  simp only [List.map_map]
  apply List.map_congr_left
  intro x _
  obtain ⟨i, tr⟩ := x
  simp only [Function.comp]
  split <;> rfl

theorem fku_setTree {f : Forest} {t : Nat} {root : Entry} (h : f.tree? t = some root) (e : Entry) (hf : FKU f)
    (he : KeysUnique e) : FKU (f.setTree t e) := by
  intro id r hr
  by_cases hid : id = t
  · subst hid
    rw [tree?_setTree_same h] at hr
    cases hr; exact he
  · rw [tree?_setTree_ne f hid] at hr
    exact hf id r hr

theorem fErr_setTree {f : Forest} {t : Nat} {root : Entry} (h : f.tree? t = some root) (e : Entry) (er : Err) :
    FErr (f.setTree t e) er ↔ er ∈ e.allErrors ∨ ∃ id r, id ≠ t ∧ f.tree? id = some r ∧ er ∈ r.allErrors := by
  constructor
  · rintro ⟨id, r, hr, he⟩
    by_cases hid : id = t
    · subst hid
      rw [tree?_setTree_same h] at hr
      cases hr; exact Or.inl he
    · rw [tree?_setTree_ne f hid] at hr
      exact Or.inr ⟨id, r, hid, hr, he⟩
  · rintro (he | ⟨id, r, hid, hr, he⟩)
    · exact ⟨t, e, tree?_setTree_same h e, he⟩
    · exact ⟨id, r, by rw [tree?_setTree_ne f hid]; exact hr, he⟩

theorem fErr_split {f : Forest} {t : Nat} {root : Entry} (h : f.tree? t = some root) (er : Err) :
    FErr f er ↔ er ∈ root.allErrors ∨ ∃ id r, id ≠ t ∧ f.tree? id = some r ∧ er ∈ r.allErrors := by
  constructor
  · rintro ⟨id, r, hr, he⟩
    by_cases hid : id = t
    · subst hid
      rw [h] at hr
      cases hr; exact Or.inl he
    · exact Or.inr ⟨id, r, hid, hr, he⟩
  · rintro (he | ⟨id, r, _, hr, he⟩)
    · exact ⟨t, root, h, he⟩
    · exact ⟨id, r, hr, he⟩

/-- Replacing a tree by one with the same error set. -/
theorem fErr_setTree_same {f : Forest} {t : Nat} {root : Entry} (h : f.tree? t = some root) (e : Entry)
    (hs : ∀ er, er ∈ e.allErrors ↔ er ∈ root.allErrors) (er : Err) : FErr (f.setTree t e) er ↔ FErr f er := by
  rw [fErr_setTree h, fErr_split h, hs]

/-- With one tree per id, `FErr` is membership in the error sweep `allErrs`. -/
theorem fErr_iff_allErrs {f : Forest} (hn : (ids f).Nodup) (er : Err) : FErr f er ↔ er ∈ allErrs f := by
  unfold allErrs FErr Forest.tree? ids at *
  simp only [List.mem_flatten, List.mem_map, Prod.exists]
  constructor
  · rintro ⟨id, root, hr, he⟩
    cases hf : f.trees.find? (·.1 == id) with
    | none => simp [hf] at hr
    | some x =>
      simp only [hf, Option.map_some, Option.some.injEq] at hr
      subst hr
      exact ⟨_, ⟨x.1, x.2, List.mem_of_find?_eq_some hf, rfl⟩, he⟩
  · rintro ⟨l, ⟨id, root, hm, rfl⟩, he⟩
    refine ⟨id, root, ?_, he⟩
    have : f.trees.find? (·.1 == id) = some (id, root) := by
      generalize f.trees = L at hn hm
      induction L with
      | nil => cases hm
      | cons a L ih =>
        simp only [List.map_cons, List.nodup_cons] at hn
        rcases List.mem_cons.mp hm with rfl | hm
        · simp
        · have hne : ¬ a.1 = id := by
            intro h; exact hn.1 (h ▸ List.mem_map.mpr ⟨(id, root), hm, rfl⟩)
          have hne' : (a.1 == id) = false := by simpa using hne
          simp only [List.find?_cons, hne']
          exact ih hn.2 hm
    simp [this]

theorem fku_of_all {f : Forest} (h : ∀ t ∈ f.trees, KeysUnique t.2) : FKU f := by
  intro id root hr
  unfold Forest.tree? at hr
  cases hf : f.trees.find? (·.1 == id) with
  | none => simp [hf] at hr
  | some x =>
    simp only [hf, Option.map_some, Option.some.injEq] at hr
    subst hr
    exact h x (List.mem_of_find?_eq_some hf)

/-! ### one attempt -/

/-- The application collides: a body name is repeated or already a child of the target. -/
def Bad (R : Res) (id : Nat) (a : Entry) (f : Forest) : Prop :=
  ¬ (absAug R f id a).roots.Nodup ∨ (absAug R f id a).Collides (viewOf f)

theorem bad_f0 (R : Res) (id : Nat) (a : Entry) (f f0 : Forest) :
    Bad R id a f ↔ (¬ (absAug R f0 id a).roots.Nodup ∨ (absAug R f0 id a).Collides (viewOf f)) := Iff.rfl

/-- The model's collision test at the tracked target is the view's. -/
theorem freeIn_iff {R : Res} {id : Nat} {a : Entry} {f : Forest} {t : Nat} {names : NPath} {root' x : Entry} {q : Path}
    (htg : R.tgt id a = .go t names) (hview_t : ∀ P d, viewOf f (t, P) d ↔ dataAt root' P = some d)
    (hx : Tracks root' names q x) (hxr : x.d.isRpc = false) : FreeIn x a.dir ↔ ¬ Bad R id a f := by
  have htarget : (absAug R f id a).target = some (t, names) := by simp [absAug, htg]
  have hbelow : ∀ r, dataAt root' (names ++ r) = dataAt x r := by
    intro r; rw [dataAt_append, hx.walk]; rfl
  have hcol : (absAug R f id a).Collides (viewOf f) ↔ ∃ c ∈ a.dir, x.child? c.name ≠ none := by
    constructor
    · rintro ⟨tt, htt, k, hk, d, hd⟩
      rw [htarget] at htt; cases htt
      obtain ⟨c, hc, rfl⟩ := List.mem_map.mp hk
      refine ⟨c, hc, ?_⟩
      have := (hview_t _ d).mp hd
      rw [hbelow, dataAt_cons, kid_nonrpc hxr] at this
      intro hnone
      rw [hnone] at this
      cases this
    · rintro ⟨c, hc, hne⟩
      refine ⟨(t, names), htarget, c.name, List.mem_map.mpr ⟨c, hc, rfl⟩, ?_⟩
      cases hch : x.child? c.name with
      | none => exact absurd hch hne
      | some y =>
        refine ⟨nodeData y.d, (hview_t _ _).mpr ?_⟩
        rw [hbelow, dataAt_cons, kid_nonrpc hxr, hch]
        rfl
  unfold FreeIn Bad
  rw [hcol]
  constructor
  · rintro ⟨h1, h2⟩ (h3 | ⟨c, hc, hne⟩)
    · exact h3 h2
    · exact hne (h1 c hc)
  · intro h
    refine ⟨fun c hc => ?_, ?_⟩
    · apply Classical.byContradiction
      intro hne
      exact h (Or.inr ⟨c, hc, hne⟩)
    · apply Classical.byContradiction
      intro hne
      exact h (Or.inl hne)

/-- Result of analysing the errors of one attempt (without `addErrors`, as in the loop). -/
inductive OutcomeE (R : Res) (id : Nat) (a : Entry) (f : Forest) : Forest × Bool → Prop
  | fail (f' : Forest) :
      ids f' = ids f → (FKU f → FKU f') →
      (FKU f → ∀ er, FErr f' er ↔
        FErr f er ∨ (er = Err.bare "other" ∧ R.tgt id a = .badPrefix ∧ (f.tree? id).isSome = true)) →
      OutcomeE R id a f (f', false)
  | ok (f' : Forest) :
      ids f' = ids f → (FKU f → (∀ c ∈ a.dir, KeysUnique c) → FKU f') →
      (FKU f → ∀ er, FErr f' er ↔ FErr f er ∨ er ∈ a.allErrors ∨ (er = dupErr a ∧ Bad R id a f)) →
      OutcomeE R id a f (f', true)

theorem attempt_errs (R : Res) (id : Nat) (nsOf : String) (a : Entry) (f : Forest) :
    OutcomeE R id a f (attemptR R id false nsOf a f) := by
  unfold attemptR findR
  simp only [failForest, Bool.false_eq_true, if_false]
  -- nothing happened
  have same : ∀ (htg : R.tgt id a ≠ .badPrefix), OutcomeE R id a f (f, false) := fun htg =>
    OutcomeE.fail f rfl (fun h => h) (fun _ er => ⟨Or.inl, fun h => h.elim (fun h => h) (fun h => absurd h.2.1 htg)⟩)
  cases htg : R.tgt id a with
  | noName => exact same (by simp [htg])
  | badPrefix =>
    simp only
    unfold addOther
    cases hroot : f.tree? id with
    | none =>
      simp only
      refine OutcomeE.fail f rfl (fun h => h) (fun _ er => ⟨Or.inl, fun h => h.elim (fun h => h) (fun h => ?_)⟩)
      exact absurd h.2.2 (by rw [hroot]; simp)
    | some root =>
      simp only
      refine OutcomeE.fail _ (ids_setTree _ _ _) (fun h => fku_setTree hroot _ h (ku_addErr _ _ (h id root hroot))) ?_
      intro _ er
      rw [fErr_setTree hroot, fErr_split hroot er]
      have herr : er ∈ (root.addErr (Err.bare "other")).allErrors ↔ er ∈ root.allErrors ∨ er = Err.bare "other" := by
        rw [mem_allErrors, mem_allErrors]
        simp only [Entry.addErr, withD_dir, withD_inp, withD_out, withD_d, List.mem_append, List.mem_singleton]
        constructor
        · rintro (h | h | h | h | h)
          · exact Or.inl (Or.inl h)
          · exact Or.inl (Or.inr (Or.inl h))
          · exact Or.inl (Or.inr (Or.inr (Or.inl h)))
          · exact Or.inl (Or.inr (Or.inr (Or.inr h)))
          · exact Or.inr h
        · rintro ((h | h | h | h) | h)
          · exact Or.inl h
          · exact Or.inr (Or.inl h)
          · exact Or.inr (Or.inr (Or.inl h))
          · exact Or.inr (Or.inr (Or.inr (Or.inl h)))
          · exact Or.inr (Or.inr (Or.inr (Or.inr h)))
      rw [herr]
      constructor
      · rintro ((h | h) | h)
        · exact Or.inl (Or.inl h)
        · exact Or.inr ⟨h, htg, by rw [hroot]; rfl⟩
        · exact Or.inl (Or.inr h)
      · rintro ((h | h) | ⟨h, _⟩)
        · exact Or.inl (Or.inl h)
        · exact Or.inr h
        · exact Or.inl (Or.inr h)
  | go t names =>
    have hne : R.tgt id a ≠ .badPrefix := by simp [htg]
    simp only
    cases hroot : f.tree? t with
    | none => simp only; exact same hne
    | some root =>
      simp only
      obtain ⟨hfull, hsome, _⟩ := walkN_spec names root [] [] root (Tracks.nil root)
      -- the forest after `Find` (implicit rpc input / output materialised)
      have ht1 : (f.setTree t (walkN names root (some [])).2).tree? t = some (walkN names root (some [])).2 :=
        tree?_setTree_same hroot _
      have hids1 : ids (f.setTree t (walkN names root (some [])).2) = ids f := ids_setTree _ _ _
      have hku1 : FKU f → FKU (f.setTree t (walkN names root (some [])).2) := fun h =>
        fku_setTree hroot _ h (walkN_keep names root (some []) (h t root hroot)).1
      have herr1 : FKU f → ∀ er, FErr (f.setTree t (walkN names root (some [])).2) er ↔ FErr f er := fun h er =>
        fErr_setTree_same hroot _ (walkN_keep names root (some []) (h t root hroot)).2 er
      have same1 : OutcomeE R id a f (f.setTree t (walkN names root (some [])).2, false) :=
        OutcomeE.fail _ hids1 hku1 (fun h er => by
          rw [herr1 h er]
          exact ⟨Or.inl, fun h => h.elim (fun h => h) (fun h => absurd h.2.1 hne)⟩)
      cases hres : (walkN names root (some [])).1 with
      | none => simp only [Option.map_none]; exact same1
      | some q =>
        simp only [Option.map_some]
        obtain ⟨x, hx⟩ := hsome q hres
        simp only [List.nil_append] at hx
        simp only [ht1, Option.bind_some, hx.getAt]
        by_cases hc : cannotHaveChildren x = true
        · simp only [hc, if_true]; exact same1
        · simp only [hc, Bool.false_eq_true, if_false]
          have hnp := merge_namePres (some nsOf) a
          refine OutcomeE.ok _ ((ids_setTree _ _ _).trans hids1) ?_ ?_
          · intro hf ha
            exact fku_setTree ht1 _ (hku1 hf)
              (ku_updateAt _ (fun y hy => ku_merge y (some nsOf) a hy ha) hnp q _ (hku1 hf t _ ht1))
          · intro hf er
            have hkuw : KeysUnique (walkN names root (some [])).2 := hku1 hf t _ ht1
            have hxr : x.d.isRpc = false := by
              have hcan : cannotHaveChildren x = false := by simpa using hc
              simp only [cannotHaveChildren, Bool.or_eq_false_iff] at hcan
              exact hcan.2
            have hv1 : viewOf (f.setTree t (walkN names root (some [])).2) = viewOf f :=
              viewOf_setTree_invisible hroot hfull
            have hview_t : ∀ P d, viewOf f (t, P) d ↔ dataAt (walkN names root (some [])).2 P = some d := by
              intro P d; rw [← hv1]; exact viewOf_at ht1 P d
            have hfree := freeIn_iff (R := R) (id := id) (a := a) htg hview_t hx hxr
            rw [fErr_setTree ht1, ← herr1 hf er, fErr_split ht1 er]
            have hbadiff : ¬ FreeIn x a.dir ↔ Bad R id a f := by rw [hfree]; exact Classical.not_not
            have key : er ∈ ((walkN names root (some [])).2.updateAt q fun te => te.merge (some nsOf) a).allErrors ↔
                er ∈ (walkN names root (some [])).2.allErrors ∨ er ∈ a.allErrors ∨ (er = dupErr a ∧ Bad R id a f) := by
              constructor
              · intro h
                rcases updateAt_errs_upper q _ x hkuw hx.getAt h with h1 | h1
                · exact Or.inl h1
                · rcases (merge_errs x (some nsOf) a er).mp h1 with h2 | h2 | ⟨h2, h3⟩
                  · exact Or.inl (getAt_errors_sub q _ x hx.getAt h2)
                  · exact Or.inr (Or.inl h2)
                  · exact Or.inr (Or.inr ⟨h2, hbadiff.mp h3⟩)
              · rintro (h | h | ⟨h2, h3⟩)
                · exact updateAt_errors_mono (merge_errMono (some nsOf) a) q _ h
                · exact updateAt_errs_new hnp q _ x hx.getAt ((merge_errs x (some nsOf) a er).mpr (Or.inr (Or.inl h)))
                · exact updateAt_errs_new hnp q _ x hx.getAt
                    ((merge_errs x (some nsOf) a er).mpr (Or.inr (Or.inr ⟨h2, hbadiff.mpr h3⟩)))
            rw [key]
            constructor
            · rintro ((h | h | h) | h)
              · exact Or.inl (Or.inl h)
              · exact Or.inr (Or.inl h)
              · exact Or.inr (Or.inr h)
              · exact Or.inl (Or.inr h)
            · rintro ((h | h) | h | h)
              · exact Or.inl (Or.inl h)
              · exact Or.inr h
              · exact Or.inl (Or.inr (Or.inl h))
              · exact Or.inl (Or.inr (Or.inr h))

/-! ### an induction principle for the loop -/

section Induct
variable (R : Res) (I : Forest → List Ev → Prop) (P : Nat → Entry → Prop)
  (hstep : ∀ id nsOf a f tr, P id a → I f tr →
    I (attemptR R id false nsOf a f).1 (if (attemptR R id false nsOf a f).2 then tr ++ [⟨id, a, f⟩] else tr))
include hstep

theorem fold_induct (id : Nat) (nsOf : String) (tr0 : List Ev) : ∀ (l : List Entry) (acc : Acc), (∀ a ∈ l, P id a) →
    I acc.forest (tr0 ++ acc.trace) →
    I (l.foldl (stepR R id false nsOf) acc).forest (tr0 ++ (l.foldl (stepR R id false nsOf) acc).trace)
  | [], _, _, h => h
  | a :: l, acc, hP, h => by
    simp only [List.foldl_cons]
    apply fold_induct id nsOf tr0 l _ (fun b hb => hP b (List.mem_cons_of_mem _ hb))
    have := hstep id nsOf a acc.forest (tr0 ++ acc.trace) (hP a List.mem_cons_self) h
    unfold stepR
    cases hr : (attemptR R id false nsOf a acc.forest).2 with
    | true => simpa [hr, List.append_assoc] using this
    | false => simpa [hr] using this

theorem tree_induct (id : Nat) (s : PState) (tr0 : List Ev) (hP : ∀ a ∈ s.pendingOf id, P id a) (h : I s.forest tr0) :
    I (augmentTreeR R id false s).1.forest (tr0 ++ (augmentTreeR R id false s).2.2.2) := by
  have := fold_induct R I P hstep id (nsOfR R s.forest id) tr0 (s.pendingOf id) ⟨s.forest, [], 0, 0, []⟩ hP (by simpa using h)
  exact this

theorem pass_induct : ∀ (fuel : Nat) (mods : Array Nat) (i processed : Nat) (s : PState) (tr : List Ev),
    (∀ id a, a ∈ s.pendingOf id → P id a) → I s.forest tr →
    I (augmentPassR R fuel mods i processed s tr).2.2.1.forest (augmentPassR R fuel mods i processed s tr).2.2.2
  | 0, _, _, _, _, _, _, h => h
  | fuel + 1, mods, i, processed, s, tr, hP, h => by
    unfold augmentPassR
    by_cases hi : i < mods.size
    · simp only [hi, dite_true]
      have h1 := tree_induct R I P hstep mods[i] s tr (fun a ha => hP _ a ha) h
      have hP1 : ∀ id a, a ∈ (augmentTreeR R mods[i] false s).1.pendingOf id → P id a :=
        fun id a ha => hP id a (augmentTreeR_pending_sub R _ false s id a ha)
      split
      · exact pass_induct fuel _ _ _ _ _ hP1 h1
      · exact pass_induct fuel _ _ _ _ _ hP1 h1
    · simp only [hi, dite_false]; exact h

theorem loop_induct : ∀ (fuel : Nat) (mods : Array Nat) (s : PState) (tr : List Ev),
    (∀ id a, a ∈ s.pendingOf id → P id a) → I s.forest tr →
    I (augmentLoopR R fuel mods s tr).2.1.forest (augmentLoopR R fuel mods s tr).2.2
  | 0, _, _, _, _, h => h
  | fuel + 1, mods, s, tr, hP, h => by
    unfold augmentLoopR
    split
    · exact h
    · have h1 := pass_induct R I P hstep (mods.size + 1) mods 0 0 s tr hP h
      have hP1 : ∀ id a, a ∈ (augmentPassR R (mods.size + 1) mods 0 0 s tr).2.2.1.pendingOf id → P id a :=
        fun id a ha => hP id a (augmentPassR_pending_sub R _ _ _ _ _ _ id a ha)
      simp only
      split
      · exact h1
      · exact loop_induct fuel _ _ _ hP1 h1

end Induct

/-- The loop only extends the forest (no hypothesis on the pending table needed). -/
theorem loop_le (R : Res) (fuel : Nat) (mods : Array Nat) (s : PState) (tr : List Ev) :
    FLe s.forest (augmentLoopR R fuel mods s tr).2.1.forest := by
  refine loop_induct R (fun f _ => FLe s.forest f) (fun _ _ => True) ?_ fuel mods s tr (fun _ _ _ => trivial) (FLe.refl _)
  intro id nsOf a f tr _ h
  cases hr : attemptR R id false nsOf a f with
  | mk f' b =>
    cases b with
    | false => exact h.trans (attempt_fail hr).2.1
    | true => exact h.trans (attempt_ok_le hr)

theorem pass_le (R : Res) (fuel : Nat) (mods : Array Nat) (i processed : Nat) (s : PState) (tr : List Ev) :
    FLe s.forest (augmentPassR R fuel mods i processed s tr).2.2.1.forest := by
  refine pass_induct R (fun f _ => FLe s.forest f) (fun _ _ => True) ?_ fuel mods i processed s tr (fun _ _ _ => trivial)
    (FLe.refl _)
  intro id nsOf a f tr _ h
  cases hr : attemptR R id false nsOf a f with
  | mk f' b =>
    cases b with
    | false => exact h.trans (attempt_fail hr).2.1
    | true => exact h.trans (attempt_ok_le hr)

/-! ### the error set of the loop -/

/-- What one applied augment contributes to the errors: the errors recorded inside the augment
entry, and the `duplicate-node` error at its statement exactly when the application collided. -/
def Contrib (R : Res) (ev : Ev) (er : Err) : Prop :=
  er ∈ ev.aug.allErrors ∨ (er = dupErr ev.aug ∧ Bad R ev.owner ev.aug ev.before)

/-- The `other` error of `Find`: some pending augment of an existing tree has a first prefix that
denotes no module. -/
def OtherErr (R : Res) (s : PState) (er : Err) : Prop :=
  er = Err.bare "other" ∧ ∃ id a, a ∈ s.pendingOf id ∧ R.tgt id a = .badPrefix ∧ (s.forest.tree? id).isSome = true

theorem isSome_tree?_iff (f : Forest) (id : Nat) : (f.tree? id).isSome = true ↔ id ∈ ids f := by
  unfold Forest.tree? ids
  simp only [Option.isSome_map, List.find?_isSome, List.mem_map, beq_iff_eq]

/-- The invariant of the loop, relative to the state `s0` it started from. -/
def Inv (R : Res) (s0 : PState) (f : Forest) (tr : List Ev) : Prop :=
  ids f = ids s0.forest ∧
  ((∀ ev ∈ tr, ∀ c ∈ ev.aug.dir, KeysUnique c) →
    FKU f ∧ (∀ er, FErr s0.forest er → FErr f er) ∧ (∀ ev ∈ tr, ∀ er, Contrib R ev er → FErr f er) ∧
    (∀ er, FErr f er → FErr s0.forest er ∨ OtherErr R s0 er ∨ ∃ ev ∈ tr, Contrib R ev er))

theorem inv_step (R : Res) (s0 : PState) (id : Nat) (nsOf : String) (a : Entry) (f : Forest) (tr : List Ev)
    (hP : a ∈ s0.pendingOf id) (h : Inv R s0 f tr) :
    Inv R s0 (attemptR R id false nsOf a f).1 (if (attemptR R id false nsOf a f).2 then tr ++ [⟨id, a, f⟩] else tr) := by
  have hout := attempt_errs R id nsOf a f
  generalize attemptR R id false nsOf a f = r at hout ⊢
  obtain ⟨hids, hinv⟩ := h
  cases hout with
  | fail f' h1 h2 h3 =>
    simp only [Bool.false_eq_true, if_false]
    refine ⟨h1.trans hids, fun hb => ?_⟩
    obtain ⟨k1, k2, k3, k4⟩ := hinv hb
    refine ⟨h2 k1, fun er he => (h3 k1 er).mpr (Or.inl (k2 er he)),
      fun ev hev er hc => (h3 k1 er).mpr (Or.inl (k3 ev hev er hc)), ?_⟩
    intro er he
    rcases (h3 k1 er).mp he with h4 | ⟨h4, h5, h6⟩
    · exact k4 er h4
    · refine Or.inr (Or.inl ⟨h4, id, a, hP, h5, ?_⟩)
      rw [isSome_tree?_iff] at h6 ⊢
      rw [← hids]; exact h6
  | ok f' h1 h2 h3 =>
    simp only [if_true]
    refine ⟨h1.trans hids, fun hb => ?_⟩
    have hb0 : ∀ ev ∈ tr, ∀ c ∈ ev.aug.dir, KeysUnique c := fun ev hev => hb ev (List.mem_append_left _ hev)
    have hba : ∀ c ∈ a.dir, KeysUnique c := hb ⟨id, a, f⟩ (by simp)
    obtain ⟨k1, k2, k3, k4⟩ := hinv hb0
    refine ⟨h2 k1 hba, fun er he => (h3 k1 er).mpr (Or.inl (k2 er he)), ?_, ?_⟩
    · intro ev hev er hc
      rcases List.mem_append.mp hev with hev | hev
      · exact (h3 k1 er).mpr (Or.inl (k3 ev hev er hc))
      · simp only [List.mem_singleton] at hev
        subst hev
        exact (h3 k1 er).mpr (Or.inr hc)
    · intro er he
      rcases (h3 k1 er).mp he with h4 | h4
      · rcases k4 er h4 with h5 | h5 | ⟨ev, hev, h5⟩
        · exact Or.inl h5
        · exact Or.inr (Or.inl h5)
        · exact Or.inr (Or.inr ⟨ev, List.mem_append_left _ hev, h5⟩)
      · exact Or.inr (Or.inr ⟨⟨id, a, f⟩, by simp, h4⟩)

/-- The loop keeps the invariant: ids, `KeysUnique`, and the two-sided bound on the error set. -/
theorem loop_inv (R : Res) (fuel : Nat) (mods : Array Nat) (s : PState) (hku : FKU s.forest) :
    Inv R s (loopState R fuel mods s).forest (loopTrace R fuel mods s) := by
  refine loop_induct R (Inv R s) (fun id a => a ∈ s.pendingOf id) ?_ fuel mods s [] (fun _ _ h => h) ?_
  · intro id nsOf a f tr hP h
    exact inv_step R s id nsOf a f tr hP h
  · exact ⟨rfl, fun _ => ⟨hku, fun _ h => h, by simp, fun er h => Or.inl h⟩⟩

/-! ### a bad first prefix is reported in the first pass -/

theorem attempt_badPrefix (R : Res) (id : Nat) (nsOf : String) (a : Entry) (f : Forest) (htg : R.tgt id a = .badPrefix) :
    attemptR R id false nsOf a f = (addOther f id, false) := by
  unfold attemptR findR
  simp [htg, failForest]

theorem addOther_other (f : Forest) (id : Nat) (h : (f.tree? id).isSome = true) :
    FVisErr (addOther f id) (Err.bare "other") := by
  unfold addOther
  cases hr : f.tree? id with
  | none => simp [hr] at h
  | some root =>
    refine ⟨id, _, tree?_setTree_same hr _, [], _, rfl, ?_⟩
    simp [Entry.addErr]

theorem foldRel_other {R : Res} {id : Nat} {nsOf : String} {f f' : Forest} {l U : List Entry} {tr : List Ev}
    (h : FoldRel R id false nsOf f l f' U tr) (a : Entry) (ha : a ∈ l) (htg : R.tgt id a = .badPrefix)
    (hid : (f.tree? id).isSome = true) : FVisErr f' (Err.bare "other") := by
  induction h with
  | nil f => cases ha
  | @fail f f1 f'' b l U tr hatt hrest ih =>
    rcases List.mem_cons.mp ha with rfl | ha
    · rw [attempt_badPrefix R id nsOf a f htg] at hatt
      simp only [Prod.mk.injEq, and_true] at hatt
      subst hatt
      exact (addOther_other f id hid).mono (FoldRel.le hrest)
    · exact ih ha (by rw [(attempt_fail hatt).2.1.isSome]; exact hid)
  | @ok f f1 f'' b l U tr hatt hrest ih =>
    rcases List.mem_cons.mp ha with rfl | ha
    · rw [attempt_badPrefix R id nsOf a f htg] at hatt
      simp at hatt
    · exact ih ha (by rw [(attempt_ok_le hatt).isSome]; exact hid)

theorem pass_other (R : Res) (id : Nat) (a : Entry) (htg : R.tgt id a = .badPrefix) :
    ∀ (fuel : Nat) (mods : Array Nat) (i processed : Nat) (s : PState) (tr : List Ev), mods.size - i ≤ fuel →
      id ∈ mods.toList.drop i → a ∈ s.pendingOf id → (s.forest.tree? id).isSome = true →
      FVisErr (augmentPassR R fuel mods i processed s tr).2.2.1.forest (Err.bare "other")
  | 0, mods, i, processed, s, tr, hf, hm, _, _ => by
    have : mods.toList.drop i = [] := List.drop_eq_nil_of_le (by simp; omega)
    rw [this] at hm; cases hm
  | fuel + 1, mods, i, processed, s, tr, hf, hm, ha, hid => by
    unfold augmentPassR
    by_cases hi : i < mods.size
    · simp only [hi, dite_true]
      obtain ⟨f1, U, tr1, hrel, hval, hp⟩ := augmentTreeR_spec R mods[i] false s
      have hforest : (augmentTreeR R mods[i] false s).1.forest = f1 := by rw [hval]; rfl
      by_cases hid' : id = mods[i]
      · -- this call attempts `a`
        have hG : FVisErr (augmentTreeR R mods[i] false s).1.forest (Err.bare "other") := by
          rw [hforest]
          subst hid'
          exact foldRel_other hrel a ha htg hid
        split
        · exact hG.mono (pass_le R fuel _ _ _ _ _)
        · exact hG.mono (pass_le R fuel _ _ _ _ _)
      · have ha1 : a ∈ (augmentTreeR R mods[i] false s).1.pendingOf id := by
          rw [hp]; simp only [hid', if_false]; exact ha
        have hid1 : ((augmentTreeR R mods[i] false s).1.forest.tree? id).isSome = true := by
          rw [hforest, (FoldRel.le hrel).isSome]; exact hid
        have hdrop : id ∈ mods.toList.drop (i + 1) := by
          have hil : i < mods.toList.length := by simpa using hi
          rw [List.drop_eq_getElem_cons hil] at hm
          rcases List.mem_cons.mp hm with h | h
          · exact absurd (by simpa using h) hid'
          · exact h
        split
        · have hil : i < mods.toList.length := by simpa using hi
          obtain ⟨_, _, h3, h4⟩ := swapRemove_spec mods.toList i hil
          apply pass_other R id a htg fuel _ i _ _ _ ?_ ?_ ha1 hid1
          · have : ((mods.set i (mods.back?.getD 0) hi).pop).size + 1 = mods.size := by
              have := congrArg List.length (swapRemove_toList mods i hi)
              simp only [Array.length_toList] at this
              rw [this]; simpa using h4
            omega
          · rw [swapRemove_toList]; exact h3 id hdrop
        · exact pass_other R id a htg fuel mods (i + 1) _ _ _ (by omega) hdrop ha1 hid1
    · have : mods.toList.drop i = [] := List.drop_eq_nil_of_le (by simp; omega)
      rw [this] at hm; cases hm

theorem loop_other (R : Res) (fuel : Nat) (mods : Array Nat) (s : PState) (hcov : Cover s mods) (hfuel : 0 < fuel)
    (id : Nat) (a : Entry) (ha : a ∈ s.pendingOf id) (htg : R.tgt id a = .badPrefix)
    (hid : (s.forest.tree? id).isSome = true) : FVisErr (loopState R fuel mods s).forest (Err.bare "other") := by
  obtain ⟨n, rfl⟩ : ∃ n, fuel = n + 1 := ⟨fuel - 1, by omega⟩
  have hmem : id ∈ mods.toList := hcov id (by intro h; rw [h] at ha; cases ha)
  unfold loopState augmentLoopR
  split
  · rename_i he
    have hnil : mods.toList = [] := by simpa using he
    rw [hnil] at hmem; cases hmem
  · have hG := pass_other R id a htg (mods.size + 1) mods 0 0 s [] (by omega) (by simpa using hmem) ha hid
    simp only
    split
    · exact hG
    · exact hG.mono (loop_le R n _ _ _)

theorem fVisErr_fErr {f : Forest} {er : Err} (h : FVisErr f er) : FErr f er := by
  obtain ⟨id, root, hr, hv⟩ := h
  exact ⟨id, root, hr, hv.allErrors⟩

/-- **The error set of the loop**, for a forest with unique keys and applied augment bodies with
unique keys: an error is recorded in the final forest exactly when it was recorded before the loop,
or it is the `other` error of an unresolvable first prefix, or it is the contribution of an applied
augment: an error recorded inside the augment entry, or the `duplicate-node` error at its statement
when — and only when — the application collided. -/
theorem loop_fErr (R : Res) (fuel : Nat) (mods : Array Nat) (s : PState) (hcov : Cover s mods) (hfuel : 0 < fuel)
    (hku : FKU s.forest) (hbody : ∀ ev ∈ loopTrace R fuel mods s, ∀ c ∈ ev.aug.dir, KeysUnique c) (er : Err) :
    FErr (loopState R fuel mods s).forest er ↔
      FErr s.forest er ∨ OtherErr R s er ∨ ∃ ev ∈ loopTrace R fuel mods s, Contrib R ev er := by
  obtain ⟨_, hinv⟩ := loop_inv R fuel mods s hku
  obtain ⟨_, k2, k3, k4⟩ := hinv hbody
  constructor
  · exact k4 er
  · rintro (h | ⟨h, id, a, ha, htg, hid⟩ | ⟨ev, hev, h⟩)
    · exact k2 er h
    · rw [h]; exact fVisErr_fErr (loop_other R fuel mods s hcov hfuel id a ha htg hid)
    · exact k3 ev hev er h

/-- The same on the error sweep `allErrs` (what `GetErrors` collects), for a forest with one tree per id. -/
theorem loop_errs (R : Res) (fuel : Nat) (mods : Array Nat) (s : PState) (hcov : Cover s mods) (hfuel : 0 < fuel)
    (hids : (ids s.forest).Nodup) (hku : ∀ t ∈ s.forest.trees, KeysUnique t.2)
    (hbody : ∀ ev ∈ loopTrace R fuel mods s, ∀ c ∈ ev.aug.dir, KeysUnique c) (er : Err) :
    er ∈ allErrs (loopState R fuel mods s).forest ↔
      er ∈ allErrs s.forest ∨ OtherErr R s er ∨ ∃ ev ∈ loopTrace R fuel mods s, Contrib R ev er := by
  have hids' : (ids (loopState R fuel mods s).forest).Nodup := by
    rw [(loop_inv R fuel mods s (fku_of_all hku)).1]; exact hids
  rw [← fErr_iff_allErrs hids', ← fErr_iff_allErrs hids]
  exact loop_fErr R fuel mods s hcov hfuel (fku_of_all hku) hbody er

/-! ### errors of applied augments are visible (no uniqueness needed) -/

theorem importErrors_own (x a : Entry) {er : Err} (h : er ∈ a.allErrors) : er ∈ (x.importErrors a).d.errors := by
  cases a with
  | mk d c i o =>
    simp only [Entry.allErrors, List.mem_append] at h
    simp only [Entry.importErrors, Entry.addErrs, withD_d, mk_d, mk_dir, mk_inp, mk_out, List.mem_append]
    rcases h with ((h | h) | h) | h
    · exact Or.inr (Or.inl (Or.inl (Or.inr h)))
    · exact Or.inr (Or.inl (Or.inr h))
    · exact Or.inr (Or.inr h)
    · exact Or.inr (Or.inl (Or.inl (Or.inl h)))

/-- A successful attempt leaves every error recorded inside the augment entry on a visible node
(the target). -/
theorem attempt_ok_imports {R : Res} {id : Nat} {ae : Bool} {nsOf : String} {a : Entry} {f f' : Forest}
    (h : attemptR R id ae nsOf a f = (f', true)) {er : Err} (her : er ∈ a.allErrors) : FVisErr f' er := by
  have hout := attemptR_outcome R id ae nsOf a f
  rw [h] at hout
  generalize hfe : (f', true) = res at hout
  cases hout with
  | fail _ _ _ _ _ => simp at hfe
  | ok t names f1 root' q x htg hv1 hle1 ht1 hx hcan =>
    simp only [Prod.mk.injEq, and_true] at hfe
    subst hfe
    have hnp := merge_namePres (some nsOf) a
    have ht2 : (f1.setTree t (root'.updateAt q fun te => te.merge (some nsOf) a)).tree? t =
        some (root'.updateAt q fun te => te.merge (some nsOf) a) := tree?_setTree_same ht1 _
    refine ⟨t, _, ht2, names, (x.merge (some nsOf) a).d, ?_, ?_⟩
    · simp [fullAt, (hx.update hnp).walk]
    · rw [merge_eq]; exact fold_mstep_errors_mono _ _ _ _ (importErrors_own x a her)

theorem chain_imports {R : Res} {f0 f f' : Forest} {tr : List Ev} (h : Chain R f0 f tr f') :
    ∀ ev ∈ tr, ∀ er ∈ ev.aug.allErrors, FVisErr f' er := by
  induction h with
  | nil _ _ => intro ev hev; cases hev
  | @cons f f2 f' ev tr hv hle hatt hrest ih =>
    intro ev' hev' er her
    rcases List.mem_cons.mp hev' with rfl | hev'
    · exact (attempt_ok_imports hatt her).mono hrest.le
    · exact ih ev' hev' er her

/-- When the loop ends without any recorded error, no applied augment entry carried one. -/
theorem loop_clean_bodies (R : Res) (fuel : Nat) (mods : Array Nat) (s : PState) (hn : NodupPending s)
    (hcov : Cover s mods) (hfuel : mu s < fuel) (hclean : allErrs (loopState R fuel mods s).forest = []) :
    ∀ ev ∈ loopTrace R fuel mods s, ev.aug.allErrors = [] := by
  intro ev hev
  apply List.eq_nil_iff_forall_not_mem.mpr
  intro er her
  have := fVisErr_allErrs (chain_imports (loop_run R fuel mods s hn hcov hfuel).1 ev hev er her)
  rw [hclean] at this
  cases this

/-! ### order independence of the error list -/

theorem evFree_iff (R : Res) (f0 : Forest) (ev : Ev) : EvFree R f0 ev ↔ ¬ Bad R ev.owner ev.aug ev.before := by
  unfold EvFree Bad absEv
  constructor
  · rintro ⟨h1, h2⟩ (h | h)
    · exact h h1
    · exact h2 h
  · intro h
    exact ⟨Classical.byContradiction fun hn => h (Or.inl hn), fun hc => h (Or.inr hc)⟩

theorem contrib_free {R : Res} {f0 : Forest} {ev : Ev} (h : EvFree R f0 ev) (er : Err) :
    Contrib R ev er ↔ er ∈ ev.aug.allErrors := by
  unfold Contrib
  constructor
  · rintro (h1 | ⟨_, h2⟩)
    · exact h1
    · exact absurd h2 ((evFree_iff R f0 ev).mp h)
  · exact Or.inl

theorem otherErr_congr (R : Res) {s1 s2 : PState} (hforest : s2.forest = s1.forest)
    (hpend : ∀ id a, a ∈ s2.pendingOf id ↔ a ∈ s1.pendingOf id) (er : Err) : OtherErr R s2 er ↔ OtherErr R s1 er := by
  unfold OtherErr
  rw [hforest]
  constructor
  · rintro ⟨h, id, a, ha, h1, h2⟩; exact ⟨h, id, a, (hpend id a).mp ha, h1, h2⟩
  · rintro ⟨h, id, a, ha, h1, h2⟩; exact ⟨h, id, a, (hpend id a).mpr ha, h1, h2⟩

theorem mem_trace_of_key {tr1 tr2 : List Ev} (hkeys : ∀ x, x ∈ tr2.map Ev.key ↔ x ∈ tr1.map Ev.key) {ev : Ev}
    (hev : ev ∈ tr2) : ∃ ev1 ∈ tr1, ev1.owner = ev.owner ∧ ev1.aug = ev.aug := by
  have := (hkeys (Ev.key ev)).mp (List.mem_map.mpr ⟨ev, hev, rfl⟩)
  obtain ⟨ev1, hev1, hk⟩ := List.mem_map.mp this
  simp only [Ev.key, Prod.mk.injEq] at hk
  exact ⟨ev1, hev1, hk.1, hk.2⟩

/-- **Order independence on the error list.**  Two runs of the loop from the same forest over the
same pending sets (any module lists, any order inside the pending lists).  If no application of the
first collides, both runs end with the same set of recorded errors. -/
theorem loop_errs_confluent (R : Res) (fuel1 fuel2 : Nat) (mods1 mods2 : Array Nat) (s1 s2 : PState)
    (hforest : s2.forest = s1.forest) (hpend : ∀ id a, a ∈ s2.pendingOf id ↔ a ∈ s1.pendingOf id)
    (hn1 : NodupPending s1) (hn2 : NodupPending s2) (hcov1 : Cover s1 mods1) (hcov2 : Cover s2 mods2)
    (hfuel1 : mu s1 < fuel1) (hfuel2 : mu s2 < fuel2)
    (hids : (ids s1.forest).Nodup) (hku : ∀ t ∈ s1.forest.trees, KeysUnique t.2)
    (hbody : ∀ ev ∈ loopTrace R fuel1 mods1 s1, ∀ c ∈ ev.aug.dir, KeysUnique c)
    (hfr1 : ∀ ev ∈ loopTrace R fuel1 mods1 s1, EvFree R s1.forest ev) (er : Err) :
    er ∈ allErrs (loopState R fuel2 mods2 s2).forest ↔ er ∈ allErrs (loopState R fuel1 mods1 s1).forest := by
  obtain ⟨_, _, hfr2, hkeys⟩ := loop_confluent_free R fuel1 fuel2 mods1 mods2 s1 s2 hforest hpend hn1 hn2 hcov1 hcov2
    hfuel1 hfuel2 hfr1
  have hkeys' : ∀ x, x ∈ (loopTrace R fuel1 mods1 s1).map Ev.key ↔ x ∈ (loopTrace R fuel2 mods2 s2).map Ev.key :=
    fun x => (hkeys x).symm
  have hbody2 : ∀ ev ∈ loopTrace R fuel2 mods2 s2, ∀ c ∈ ev.aug.dir, KeysUnique c := by
    intro ev hev
    obtain ⟨ev1, hev1, _, h2⟩ := mem_trace_of_key hkeys hev
    rw [← h2]; exact hbody ev1 hev1
  rw [loop_errs R fuel1 mods1 s1 hcov1 (by omega) hids hku hbody er,
    loop_errs R fuel2 mods2 s2 hcov2 (by omega) (by rw [hforest]; exact hids) (by rw [hforest]; exact hku) hbody2 er,
    hforest, otherErr_congr R hforest hpend er]
  have hex : (∃ ev ∈ loopTrace R fuel2 mods2 s2, Contrib R ev er) ↔ ∃ ev ∈ loopTrace R fuel1 mods1 s1, Contrib R ev er := by
    constructor
    · rintro ⟨ev, hev, hc⟩
      obtain ⟨ev1, hev1, _, h2⟩ := mem_trace_of_key hkeys hev
      refine ⟨ev1, hev1, (contrib_free (hfr1 ev1 hev1) er).mpr ?_⟩
      rw [h2]; exact (contrib_free (hfr2 ev hev) er).mp hc
    · rintro ⟨ev, hev, hc⟩
      obtain ⟨ev2, hev2, _, h2⟩ := mem_trace_of_key hkeys' hev
      refine ⟨ev2, hev2, (contrib_free (hfr2 ev2 hev2) er).mpr ?_⟩
      rw [h2]; exact (contrib_free (hfr1 ev hev) er).mp hc
  rw [hex]

/-- One direction of "one order ends without errors iff the other does".  Only augment entries
WITHOUT recorded errors are asked to have unique keys (those with errors are never applied in a
clean run). -/
theorem loop_clean_imp (R : Res) (fuel1 fuel2 : Nat) (mods1 mods2 : Array Nat) (s1 s2 : PState)
    (hforest : s2.forest = s1.forest) (hpend : ∀ id a, a ∈ s2.pendingOf id ↔ a ∈ s1.pendingOf id)
    (hn1 : NodupPending s1) (hn2 : NodupPending s2) (hcov1 : Cover s1 mods1) (hcov2 : Cover s2 mods2)
    (hfuel1 : mu s1 < fuel1) (hfuel2 : mu s2 < fuel2)
    (hids : (ids s1.forest).Nodup) (hku : ∀ t ∈ s1.forest.trees, KeysUnique t.2)
    (hbody : ∀ id, ∀ a ∈ s1.pendingOf id, a.allErrors = [] → ∀ c ∈ a.dir, KeysUnique c)
    (hclean : allErrs (loopState R fuel1 mods1 s1).forest = []) :
    allErrs (loopState R fuel2 mods2 s2).forest = [] := by
  have hfree : ∀ er, FVisErr (loopState R fuel1 mods1 s1).forest er → er.cls ≠ "duplicate-node" := by
    intro er h
    have := fVisErr_allErrs h
    rw [hclean] at this; cases this
  have hfr1 := chain_free_of_no_dup_err (loop_run R fuel1 mods1 s1 hn1 hcov1 hfuel1).1 hfree
  have hbook1 := (loop_run R fuel1 mods1 s1 hn1 hcov1 hfuel1).2.1
  have hclean1 := loop_clean_bodies R fuel1 mods1 s1 hn1 hcov1 hfuel1 hclean
  have hbody1 : ∀ ev ∈ loopTrace R fuel1 mods1 s1, ∀ c ∈ ev.aug.dir, KeysUnique c :=
    fun ev hev => hbody ev.owner ev.aug (hbook1.fromPending ev hev) (hclean1 ev hev)
  apply List.eq_nil_iff_forall_not_mem.mpr
  intro er her
  have := (loop_errs_confluent R fuel1 fuel2 mods1 mods2 s1 s2 hforest hpend hn1 hn2 hcov1 hcov2 hfuel1 hfuel2 hids hku
    hbody1 hfr1 er).mp her
  rw [hclean] at this
  cases this

/-! ### the canonical error list is a function of the error SET -/

deriving instance ReflBEq, LawfulBEq for Err

/-- Strictly ascending in the order `canonErrs` sorts with. -/
abbrev SSorted (l : List Err) : Prop := l.Pairwise fun a b => errLt a b = true

theorem eraseDups_ssorted : ∀ (n : Nat) (l : List Err), l.length ≤ n → WSorted errLt l → SSorted l.eraseDups := by
  intro n
  induction n with
  | zero =>
    intro l h _
    have : l = [] := List.length_eq_zero_iff.mp (Nat.le_zero.mp h)
    subst this
    simp
  | succ n ih =>
    intro l h hs
    cases l with
    | nil => simp
    | cons a as =>
      rw [List.eraseDups_cons]
      have hs' := List.pairwise_cons.mp hs
      refine List.pairwise_cons.mpr ⟨?_, ?_⟩
      · intro b hb
        have hb' : b ∈ as.filter (fun b => !b == a) := List.mem_eraseDups.mp hb
        obtain ⟨hb1, hb2⟩ := List.mem_filter.mp hb'
        have hne : a ≠ b := by
          intro hab; subst hab; simp at hb2
        rcases errLt_total hne with h1 | h1
        · exact h1
        · rw [hs'.1 b hb1] at h1; cases h1
      · apply ih
        · exact Nat.le_trans (List.length_filter_le _ _) (by simpa using h)
        · exact hs'.2.sublist List.filter_sublist

theorem ssorted_ext {l1 l2 : List Err} (h1 : SSorted l1) (h2 : SSorted l2) (hm : ∀ x, x ∈ l1 ↔ x ∈ l2) : l1 = l2 := by
  have nd : ∀ {l : List Err}, SSorted l → l.Nodup := by
    intro l h
    exact h.imp (fun {a b} hab heq => by subst heq; rw [errLt_irrefl] at hab; cases hab)
  have ws : ∀ {l : List Err}, SSorted l → WSorted errLt l := by
    intro l h
    exact h.imp (fun {a b} hab => lt_asymm errLt errLt_irrefl errLt_trans hab)
  have hp : l1.Perm l2 := (List.perm_ext_iff_of_nodup (nd h1) (nd h2)).mpr hm
  exact sorted_perm_unique errLt hp (fun a _ b _ hne => errLt_total hne) (ws h1) (ws h2)

theorem canonErrs_ssorted (l : List Err) : SSorted (canonErrs l) := by
  rw [canonErrs_eq]
  exact eraseDups_ssorted _ _ (Nat.le_refl _)
    (sortBy_sorted errLt errLt_irrefl errLt_trans l (fun a _ b _ hne => errLt_total hne))

theorem mem_canonErrs_iff (l : List Err) (x : Err) : x ∈ canonErrs l ↔ x ∈ l := by
  rw [canonErrs_eq, List.mem_eraseDups]
  exact (sortBy_perm errLt l).mem_iff

/-- `canonErrs` is a function of the SET of errors. -/
theorem canonErrs_set_invariant {l1 l2 : List Err} (h : ∀ x, x ∈ l1 ↔ x ∈ l2) : canonErrs l1 = canonErrs l2 :=
  ssorted_ext (canonErrs_ssorted l1) (canonErrs_ssorted l2)
    (fun x => by rw [mem_canonErrs_iff, mem_canonErrs_iff]; exact h x)

end Goyang.Lemmas.AugmentErrs
