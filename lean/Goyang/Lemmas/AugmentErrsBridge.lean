import Goyang.Lemmas.Bridge
import Goyang.Lemmas.AugmentErrs
/-
C07, bridge for the error-list theorems (`Lemmas/AugmentErrs.lean`): the well-formedness the upper
bound on the errors needs — one tree per id, `KeysUnique` of every tree, `KeysUnique` of the pending
augment entries that carry no error — holds of the state with which `processAll` enters the augment
phase (C04's `pstate0`), by C04's conditional invariant of `toEntry` (`wfq`: an entry in which no
error is recorded has unique keys).
-/
set_option linter.unusedVariables false
namespace Goyang.Lemmas.AugmentErrsBridge
open Goyang.Model Goyang.Spec.Tree Goyang.Lemmas.Tree Goyang.Lemmas.Bridge
open Goyang.Lemmas.AugmentModel Goyang.Lemmas.AugmentLoop Goyang.Lemmas.AugmentReport

/-- Every error-free tree the conversion leaves in the cache, and every error-free pending augment
entry, has unique keys at every node. -/
theorem keysUnique_forest0 (reg : Registry) (opts : Opts) (plug : Plug) :
    (∀ t ∈ (forest0 reg opts plug).trees, NoErrors t.2 → KeysUnique t.2) ∧
    (∀ p ∈ (tstate reg opts plug).augs, ∀ a ∈ p.2, NoErrors a → KeysUnique a) := by
  have hC := tstate_ok reg opts plug (closed_cond (localOK_wfq (envOf reg opts plug)))
  exact ⟨fun t ht hne => everyNode_imp wfq keysUniqueHere wfq_keysUnique _ (hC.cache t ht hne),
    fun p hp a ha hne => everyNode_imp wfq keysUniqueHere wfq_keysUnique _ (hC.augs p hp a ha hne)⟩

/-- At the start of the augment phase (the conversion left no error in any tree) every tree has
unique keys. -/
theorem keysUnique_pstate0 (reg : Registry) (opts : Opts) (plug : Plug)
    (h0 : allErrs (pstate0 reg opts plug).forest = []) :
    ∀ t ∈ (pstate0 reg opts plug).forest.trees, KeysUnique t.2 := by
  intro t ht
  have hne : ForestAll NoErrors (forest0 reg opts plug) := (forestErrs_eq_nil _).1 h0
  exact (keysUnique_forest0 reg opts plug).1 t ht (hne t ht)

/-- A pending augment entry without recorded errors has unique keys (so have its children). -/
theorem keysUnique_pending (reg : Registry) (opts : Opts) (plug : Plug) (id : Nat) :
    ∀ a ∈ (pstate0 reg opts plug).pendingOf id, a.allErrors = [] → ∀ c ∈ a.dir, KeysUnique c := by
  intro a ha hne c hc
  rcases pendingOf_pstate0 reg opts plug id with h0 | ⟨p, hp, _, h2⟩
  · rw [h0] at ha; cases ha
  · rw [h2] at ha
    have hku := (keysUnique_forest0 reg opts plug).2 p hp a ha ((noErrors_iff a).2 hne)
    cases a with
    | mk d cs i o => exact ((Goyang.Lemmas.AugmentErrs.ku_mk d cs i o).mp hku).2.2.2.1 c hc

end Goyang.Lemmas.AugmentErrsBridge
