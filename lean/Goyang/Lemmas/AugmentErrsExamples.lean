import Goyang.Lemmas.AugmentExamples
/-
C07 — a concrete scenario for the non-vacuity examples of the error-list theorems of Props/C07.lean
(`loop_error_set`, `augment_loop_confluent_errors`, …): a chain of two augments across two modules
whose first link carries a recorded error inside its body, and an augment whose first prefix denotes
no module (`Tgt.badPrefix`, Go: the `unknown prefix` error `Find` records on the root).
-/
namespace Goyang.Lemmas.AugmentExamples.Errs
open Goyang.Model Goyang.Lemmas.AugmentModel Goyang.Lemmas.AugmentExamples

/-- a leaf whose conversion recorded an error -/
def badLeaf (name : String) (line : Nat) : Entry :=
  .mk { name := name, kind := .leaf, hasDir := false, errors := [{ file := "n.yang", line := line, col := 5, cls := "unknown-type" }] } [] [] []

def forest : Forest := { trees := [(0, dir "m" [dir "c" []]), (1, dir "n" []), (2, dir "o" [])] }
/-- module n: first link, its body holds a leaf with an error -/
def e1 := aug "/m:c" 10 [dir "d" [], badLeaf "x" 11]
/-- module o: second link (target created by `e1`), and an augment with an unknown prefix -/
def e2 := aug "/m:c/n:d" 20 [leaf "y"]
def e3 := aug "/zz:q" 30 [leaf "w"]

def R : Res where
  tgt := fun _ a =>
    match a.d.name with
    | "/m:c" => .go 0 ["c"]
    | "/m:c/n:d" => .go 0 ["c", "d"]
    | "/zz:q" => .badPrefix
    | _ => .noName
  ns := fun id => match id with | 0 => "urn:m" | 1 => "urn:n" | 2 => "urn:o" | _ => ""

/-- declaration order 1 (module o is visited first and has to wait for module n) -/
def s1 : PState := { forest := forest, pending := [(1, [e1]), (2, [e2, e3])] }
/-- another order of rows and of the augments of module o -/
def s2 : PState := { forest := forest, pending := [(2, [e3, e2]), (1, [e1])] }

end Goyang.Lemmas.AugmentExamples.Errs
