import Goyang.Lemmas.AugmentReport
/-
C07 — concrete scenarios for the non-vacuity examples of Props/C07.lean.  Forests are written as
`ToEntry` leaves them (uses already expanded, rpc nodes with `isRpc`, written input / output in
`inp` / `out`); the resolution `R` is a table (see the header of Lemmas/AugmentModel.lean for why).
-/
namespace Goyang.Lemmas.AugmentExamples
open Goyang.Model Goyang.Lemmas.AugmentModel

def dir (name : String) (kids : List Entry) : Entry := .mk { name := name, kind := .directory, hasDir := true } kids [] []
def leaf (name : String) : Entry := .mk { name := name, kind := .leaf, hasDir := false } [] [] []
/-- An augment statement's entry: `name` is its argument, `Dir` the nodes it defines. -/
def aug (target : String) (line : Nat) (kids : List Entry) : Entry :=
  .mk { name := target, kind := .directory, hasDir := true,
        node := .mk "augment" true target "m.yang" line 3 [] } kids [] []

/-! #### a chain A → B → C across three modules, declared in the worst order

Tree 0 = module a (sorted first) holds the LAST link and an independent augment; tree 1 = module b
the middle link; tree 2 = module c the first link.  The loop needs three passes. -/
namespace Chain
def a3 := aug "/a:top/c:b1/b:c1" 10 [leaf "l3"]
def a0 := aug "/a:top" 11 [leaf "la"]
def a2 := aug "/a:top/c:b1" 10 [dir "c1" []]
def a1 := aug "/a:top" 10 [dir "b1" []]

def R : Res where
  tgt := fun id a =>
    match id, a.d.name with
    | 0, "/a:top/c:b1/b:c1" => .go 0 ["top", "b1", "c1"]
    | 0, "/a:top" => .go 0 ["top"]
    | 1, _ => .go 0 ["top", "b1"]
    | 2, _ => .go 0 ["top"]
    | _, _ => .noName
  ns := fun id => match id with | 0 => "urn:a" | 1 => "urn:b" | 2 => "urn:c" | _ => ""

def forest : Forest := { trees := [(0, dir "a" [dir "top" []]), (1, dir "b" []), (2, dir "c" [])] }
/-- declaration order 1 -/
def s1 : PState := { forest := forest, pending := [(0, [a3, a0]), (1, [a2]), (2, [a1])] }
/-- another declaration order: augments of module a swapped, table rows permuted -/
def s2 : PState := { forest := forest, pending := [(2, [a1]), (0, [a0, a3]), (1, [a2])] }
end Chain

/-! #### a target created by `uses`, and targets in rpc input / output

Tree 0: `container c { uses g; }` with `grouping g { container g1 { leaf x; } }` (expanded), and
`rpc r { output { leaf o; } }` (no input written).  Module 1 augments `/c/g1`, the implicit input
and the written output of `r`. -/
namespace UsesRpc
def rpcR : Entry :=
  .mk { name := "r", kind := .directory, hasDir := true, isRpc := true } []
    [] [.mk { name := "output", kind := .output, hasDir := true } [leaf "o"] [] []]
def forest : Forest := { trees := [(0, dir "m" [dir "c" [dir "g1" [leaf "x"]], rpcR]), (1, dir "n" [])] }
def ag := aug "/m:c/m:g1" 10 [leaf "y"]
def ai := aug "/m:r/m:input" 11 [leaf "i1"]
def ao := aug "/m:r/m:output" 12 [leaf "o1"]
def R : Res where
  tgt := fun _ a =>
    match a.d.name with
    | "/m:c/m:g1" => .go 0 ["c", "g1"]
    | "/m:r/m:input" => .go 0 ["r", "input"]
    | "/m:r/m:output" => .go 0 ["r", "output"]
    | _ => .noName
  ns := fun id => match id with | 0 => "urn:m" | 1 => "urn:n" | _ => ""
def s : PState := { forest := forest, pending := [(0, []), (1, [ag, ai, ao])] }
end UsesRpc

/-! #### what must be reported: a name collision between two modules, a leaf target, a missing target -/
namespace Bad
def forest : Forest := { trees := [(0, dir "m" [dir "c" [leaf "x"]]), (1, dir "n" []), (2, dir "o" [])] }
def c1 := aug "/m:c" 10 [leaf "z"]
def c2 := aug "/m:c" 20 [leaf "z"]
def lf := aug "/m:c/m:x" 30 [leaf "w"]
def ms := aug "/m:nosuch" 40 [leaf "w"]
def R : Res where
  tgt := fun _ a =>
    match a.d.name with
    | "/m:c" => .go 0 ["c"]
    | "/m:c/m:x" => .go 0 ["c", "x"]
    | "/m:nosuch" => .go 0 ["nosuch"]
    | _ => .noName
  ns := fun id => match id with | 0 => "urn:m" | 1 => "urn:n" | 2 => "urn:o" | _ => ""
def collide : PState := { forest := forest, pending := [(1, [c1]), (2, [c2])] }
def unfound : PState := { forest := forest, pending := [(1, [lf, ms])] }
end Bad

end Goyang.Lemmas.AugmentExamples
