import Goyang.Lemmas.Bridge
import Goyang.Lemmas.AugmentErrs
import Goyang.Lemmas.AugmentErrsBridge
import Goyang.Lemmas.Fuel
/-
C07, error list at `processAll` level: `KeysUnique` of EVERY tree and EVERY pending augment entry the
conversion (`toEntry`) leaves behind — with or without recorded errors.

C04's invariant (`Lemmas/Tree.lean`, `Closed`, `Cond wfq`) gives `KeysUnique` only for error-free
entries: its `add` closure is told `v.name = k ∨ v.name = ""` about the child `v` added under key `k`,
and two children with the empty name below one node would break the invariant.  The empty name under
a non-empty key arises only in the `0` branch of `toEntry` (the `out-of-fuel` error entry), and C01's
fuel bound (`Lemmas/Fuel.lean`, `toEntry_fuel`) shows that for the calls `processAll` makes the result
does not depend on what that branch answers.  So `toEntry` is replaced by `toEntryZ zArg` — the
out-of-fuel branch answering an error entry NAMED AFTER ITS STATEMENT — for which every entry added as
a child is named after its key (`Shape2S`), and C04's traversal is repeated for it with the strong
`add` closure (`ClosedS`; sections `Step` / `Body` follow Lemmas/Tree.lean line by line).
-/
set_option linter.unusedVariables false
set_option linter.unusedSimpArgs false
namespace Goyang.Lemmas.AugmentKU
open Goyang.Model Goyang.Spec.Tree Goyang.Lemmas.Tree
open Goyang.Lemmas.AugmentErrs (ku_mk ku_withD ku_addErr ku_importErrors ku_merge)

/-! ### the strong shape: an entry that is added as a child is named after its statement's argument -/

/-- what the out-of-fuel branch answers instead: the error entry, named after its statement -/
def zArg : Mod → Stmt → TState → Entry × TState := fun root n st =>
  (.mk { name := n.arg, kind := .leaf, hasDir := false, errors := [Err.at_ n "out-of-fuel"], node := n,
         nodeMod := root.seq, nodeKw := n.kw } [] [] [], st)

def Shape2S (n : Stmt) (e : Entry) : Prop :=
  n.kw ≠ "uses" → n.kw ≠ "grouping" → n.kw ≠ "module" → n.kw ≠ "submodule" → e.name = n.arg

theorem toEntryBody_shape2S (env : Env) (fuel : Nat) (rec : Rec) (root : Mod) (scope : List Stmt) (n : Stmt)
    (visiting : List NodeId) (st : TState) : Shape2S n (toEntryBody env fuel rec root scope n visiting st).1 := by
  intro h1 h2 h3 h4
  have hm : (n.kw == "module" || n.kw == "submodule") = false := by simp [h3, h4]
  have hg : (n.kw == "grouping") = false := by simp [h2]
  have hu : (n.kw == "uses") = false := by simp [h1]
  unfold toEntryBody
  simp only [hm, hg, hu, Bool.false_eq_true, if_false, Bool.or_self, Bool.false_and]
  by_cases hl : n.kw = "leaf"
  · simp only [hl, beq_self_eq_true, if_true]
    exact (leafEntry_data env root scope n false).1
  · by_cases hll : n.kw = "leaf-list"
    · simp only [hll, beq_self_eq_true, if_true]
      simp only [show ("leaf-list" == "leaf") = false by decide, Bool.false_eq_true, if_false]
      have := leafEntry_data env root scope n true
      generalize leafEntry env root scope n true = le at this ⊢
      cases le with | mk d c i o =>
      exact this.1
    · have hl' : (n.kw == "leaf") = false := by simp [hl]
      have hll' : (n.kw == "leaf-list") = false := by simp [hll]
      simp only [hl', hll', Bool.false_eq_true, if_false, dirBody, hg]
      have hk := rootKeep_fold_steps env rec root n (n :: scope) visiting false (fieldOrder n.kw) (e0 root n, st)
      exact hk.1.trans (e0_data root n).1

theorem shape2S_child (n : Stmt) (kw : String) (c : Stmt) (v : Entry) (hkw : kw ∈ addKws) (hc : c ∈ n.all kw)
    (hs : Shape2S c v) : v.name = c.arg := by
  have hk := mem_all_kw n kw c hc
  obtain ⟨h1, h2, h3, h4, _⟩ := addKws_ok kw hkw
  rw [← hk] at h1 h2 h3 h4
  exact hs h1 h2 h3 h4

/-- C04's `Closed` with the strong `add`: the child is named after the key it is added under. -/
structure ClosedS (env : Env) (PE : Entry → Prop) : Prop where
  withD : ∀ (e : Entry) (f : EData → EData), (∀ d, NeutralD d (f d)) → (∀ d, ∃ xs, (f d).errors = d.errors ++ xs) →
    PE e → PE (e.withD f)
  addErrs : ∀ (e : Entry) (xs : List Err), PE e → PE (e.addErrs xs)
  addErr : ∀ (e : Entry) (x : Err), PE e → PE (e.addErr x)
  importErrors : ∀ (e c : Entry), PE e → PE (e.importErrors c)
  add : ∀ (e : Entry) (k : String) (v : Entry), PE e → PE v → (NoErrors v → v.name = k ∧ v.d.kind ≠ .deviate) →
    v.name = k → PE (e.add k v)
  merge : ∀ (e : Entry) (ns : Option String) (oe : Entry), PE e → PE oe → PE (e.merge ns oe)
  setInp : ∀ (d : EData) (c o : List Entry) (ie : Entry), PE (.mk d c [] o) → PE ie →
    (ie.d.errors = [] → ie.d.kind = .input) →
    PE (.mk { d with isRpc := true } c [ie.withD fun d => { d with name := "input", kind := .input }] o)
  setOut : ∀ (d : EData) (c i : List Entry) (oe : Entry), PE (.mk d c i []) → PE oe →
    (oe.d.errors = [] → oe.d.kind = .output) →
    PE (.mk { d with isRpc := true } c i [oe.withD fun d => { d with name := "output", kind := .output }])
  typeSet : ∀ (e : Entry) (ty : Option TypeInfo), PE e → e.d.kind ≠ .leaf → PE (e.withD fun d => { d with type := ty })
  laSet : ∀ (e : Entry) (f : EData → EData), PE e → e.d.kind = .deviate → (∀ d, LaOnlyD d (f d)) →
    (∀ d, ∃ xs, (f d).errors = d.errors ++ xs) → PE (e.withD f)
  base0 : ∀ (root : Mod) (n : Stmt), PE (e0 root n)
  errE : ∀ (root : Mod) (n : Stmt) (cls : String), PE (errorEntry root n cls)
  leafE : ∀ (root : Mod) (n : Stmt) (scope : List Stmt) (syn : Bool), PE (leafEntry env root scope n syn)
  leafL : ∀ (root : Mod) (n : Stmt) (scope : List Stmt) (la : ListAttr) (xs : List Err) (dl : List String),
    PE ((leafEntry env root scope n true).withD fun d =>
      { d with listAttr := some la, errors := d.errors ++ xs, default := dl })
  zE : ∀ (root : Mod) (n : Stmt) (st : TState), PE (zArg root n st).1

def RecOKS (PE : Entry → Prop) (rec : Rec) : Prop :=
  ∀ root scope n visiting st S, StOK PE S st →
    PE (rec root scope n visiting st).1 ∧ StOK PE S (rec root scope n visiting st).2 ∧
      Shape n (rec root scope n visiting st).1 ∧ Shape2S n (rec root scope n visiting st).1

section Step
variable {env : Env} {PE : Entry → Prop} (hC : ClosedS env PE) {rec : Rec} (hrec : RecOKS PE rec)
  (root : Mod) (n : Stmt) (sub : List Stmt) (visiting : List NodeId) (S : List Nat)
include hC hrec

theorem addFold_okS (kw : String) (hkw : kw ∈ addKws) (acc : Entry × TState) (h : AccOK PE S acc) :
    AccOK PE S ((n.all kw).foldl (fun (acc : Entry × TState) c =>
      (acc.1.add c.arg (rec root sub c visiting acc.2).1, (rec root sub c visiting acc.2).2)) acc) := by
  refine foldl_inv (AccOK PE S) _ _ _ h ?_
  rintro ⟨e, st⟩ c hC' ⟨he, hst⟩
  obtain ⟨r1, r2, r3, r4⟩ := hrec root sub c visiting st S hst
  exact ⟨hC.add _ _ _ he r1 (shape_child n kw c _ hkw hC' r3) (shape2S_child n kw c _ hkw hC' r4), r2⟩

theorem rpcFold_okS (kw : String) (hkw : kw ∈ addKws) (acc : Entry × TState) (h : AccOK PE S acc) :
    AccOK PE S ((n.all kw).foldl (fun (acc : Entry × TState) c =>
      (acc.1.add c.arg ((rec root sub c visiting acc.2).1.withD fun d => { d with isRpc := true }),
        (rec root sub c visiting acc.2).2)) acc) := by
  refine foldl_inv (AccOK PE S) _ _ _ h ?_
  rintro ⟨e, st⟩ c hC' ⟨he, hst⟩
  obtain ⟨r1, r2, r3, r4⟩ := hrec root sub c visiting st S hst
  refine ⟨hC.add e c.arg ((rec root sub c visiting st).1.withD fun d => { d with isRpc := true }) he
    (hC.withD _ _ (fun d => ⟨rfl, rfl, rfl, rfl, rfl, rfl⟩) (fun d => ⟨[], by simp⟩) r1) ?_ ?_, r2⟩
  · intro hv
    generalize rec root sub c visiting st = r at r3 hv ⊢
    obtain ⟨v, st'⟩ := r
    cases v with | mk d c' i o =>
    have : NoErrors (Entry.mk d c' i o) := by
      simp only [Entry.withD] at hv
      rw [noErrors_mk] at hv ⊢; exact hv
    exact shape_child n kw c _ hkw hC' r3 this
  · have := shape2S_child n kw c _ hkw hC' r4
    generalize rec root sub c visiting st = r at this ⊢
    obtain ⟨v, st'⟩ := r
    cases v with | mk d c' i o => exact this

theorem importFold_okS (l : List Stmt) (acc : Entry × TState) (h : AccOK PE S acc) :
    AccOK PE S (l.foldl (fun (acc : Entry × TState) g =>
      (acc.1.importErrors (rec root sub g visiting acc.2).1, (rec root sub g visiting acc.2).2)) acc) := by
  refine foldl_inv (AccOK PE S) _ _ _ h ?_
  rintro ⟨e, st⟩ c hC' ⟨he, hst⟩
  obtain ⟨r1, r2, r3, r4⟩ := hrec root sub c visiting st S hst
  exact ⟨hC.importErrors _ _ he, r2⟩

theorem deviateFold_okS (l : List Stmt) (acc : Entry × TState) (h : AccOK PE S acc) :
    AccOK PE S (l.foldl (fun (acc : Entry × TState) dv =>
      (if deviateKinds.contains dv.arg = true then acc.1.importErrors (rec root sub dv visiting acc.2).1
        else (acc.1.importErrors (rec root sub dv visiting acc.2).1).addErr (Err.at_ n "deviate-unknown-kind"),
       (rec root sub dv visiting acc.2).2)) acc) := by
  refine foldl_inv (AccOK PE S) _ _ _ h ?_
  rintro ⟨e, st⟩ c hC' ⟨he, hst⟩
  obtain ⟨r1, r2, r3, r4⟩ := hrec root sub c visiting st S hst
  refine ⟨?_, r2⟩
  dsimp only
  split
  · exact hC.importErrors _ _ he
  · exact hC.addErr _ _ (hC.importErrors _ _ he)

theorem usesFold_okS (l : List Stmt) (acc : Entry × TState) (h : AccOK PE S acc) :
    AccOK PE S (l.foldl (fun (acc : Entry × TState) u =>
      (acc.1.merge none (rec root sub u visiting acc.2).1, (rec root sub u visiting acc.2).2)) acc) := by
  refine foldl_inv (AccOK PE S) _ _ _ h ?_
  rintro ⟨e, st⟩ c hC' ⟨he, hst⟩
  obtain ⟨r1, r2, r3, r4⟩ := hrec root sub c visiting st S hst
  exact ⟨hC.merge _ none _ he r1, r2⟩

theorem includeFold_okS (l : List Stmt) (acc : Entry × TState) (h : AccOK PE S acc) :
    AccOK PE S (l.foldl (fun (acc : Entry × TState) a =>
      match env.includeTarget root a with
      | none => (acc.1.addErr (Err.at_ a "other"), acc.2)
      | some im =>
        if acc.2.merged.contains (im.name ++ ":" ++ n.arg) = true then (acc.1, acc.2)
        else if (!acc.2.merged.contains (n.arg ++ ":" ++ im.name) && im.name != n.arg) = true then
          if acc.2.merged.contains (im.name ++ ":" ++ (im.belongsTo?.getD "")) = true then (acc.1, acc.2)
          else
            (acc.1.merge none (rec im [] im.stmt visiting
                { acc.2 with merged := acc.2.merged ++ [im.name ++ ":" ++ n.arg, im.name ++ ":" ++ (im.belongsTo?.getD "")] }).1,
             (rec im [] im.stmt visiting
                { acc.2 with merged := acc.2.merged ++ [im.name ++ ":" ++ n.arg, im.name ++ ":" ++ (im.belongsTo?.getD "")] }).2)
        else if env.opts.ignoreCircular = true then (acc.1, acc.2)
        else (acc.1.addErr (Err.bare "cycle"), acc.2)) acc) := by
  refine foldl_inv (AccOK PE S) _ _ _ h ?_
  rintro ⟨e, st⟩ a ha ⟨he, hst⟩
  dsimp only
  repeat' split
  all_goals first
    | exact ⟨he, hst⟩
    | exact ⟨hC.addErr _ _ he, hst⟩
    | (rename_i im _ _ _ _
       obtain ⟨r1, r2, r3, r4⟩ := hrec im [] im.stmt visiting _ S (stOK_merged S st _ hst)
       exact ⟨hC.merge _ none _ he r1, r2⟩)

omit hC in
theorem augFold_okS (l : List Stmt) (st : TState) (h : StOK PE S st) :
    (∀ a ∈ (l.foldl (fun (acc : List Entry × TState) a =>
      (acc.1 ++ [(rec root sub a visiting acc.2).1], (rec root sub a visiting acc.2).2)) ([], st)).1, PE a) ∧
    StOK PE S (l.foldl (fun (acc : List Entry × TState) a =>
      (acc.1 ++ [(rec root sub a visiting acc.2).1], (rec root sub a visiting acc.2).2)) ([], st)).2 := by
  refine foldl_inv (fun acc : List Entry × TState => (∀ a ∈ acc.1, PE a) ∧ StOK PE S acc.2) _ _ _ ⟨by simp, h⟩ ?_
  rintro ⟨as, st⟩ a ha ⟨has, hst⟩
  obtain ⟨r1, r2, r3, r4⟩ := hrec root sub a visiting st S hst
  refine ⟨?_, r2⟩
  intro x hx
  rcases List.mem_append.mp hx with hx | hx
  · exact has x hx
  · simp only [List.mem_singleton] at hx; subst hx; exact r1



theorem stepFn_okS (isMod : Bool) (hS : isMod = true → root.seq ∈ S) (acc : Entry × TState) (f : String)
    (h : AccOK PE S acc) (hkind : acc.1.d.kind ≠ .leaf)
    (hin : f = "input" → acc.1.inp = []) (hout : f = "output" → acc.1.out = []) :
    AccOK PE S (stepFn env rec root n sub visiting isMod acc f) := by
  obtain ⟨e, st⟩ := acc
  obtain ⟨he, hst⟩ := h
  dsimp only at he hst hkind hin hout
  have hneu : ∀ (x : Entry) (g : EData → EData), (∀ d, NeutralD d (g d)) → (∀ d, (g d).errors = d.errors) → PE x →
      PE (x.withD g) := fun x g h1 h2 hx => hC.withD x g h1 (fun d => ⟨[], by simp [h2 d]⟩) hx
  unfold stepFn
  dsimp only
  split
  all_goals try dsimp only
  all_goals first
    | exact ⟨he, hst⟩
    | exact ⟨hC.addErrs _ _ (hneu _ _ (fun d => ⟨rfl, rfl, rfl, rfl, rfl, rfl⟩) (fun d => rfl) he), hst⟩
    | (refine ⟨?_, hst⟩; split
       · exact hneu _ _ (fun d => ⟨rfl, rfl, rfl, rfl, rfl, rfl⟩) (fun d => rfl) he
       · exact he)
    | exact addFold_okS hC hrec root n sub visiting S _ (by decide) (e, st) ⟨he, hst⟩
    | exact rpcFold_okS hC hrec root n sub visiting S _ (by decide) (e, st) ⟨he, hst⟩
    | exact importFold_okS hC hrec root sub visiting S _ (e, st) ⟨he, hst⟩
    | exact usesFold_okS hC hrec root sub visiting S _ (e, st) ⟨he, hst⟩
    | exact includeFold_okS hC hrec root n visiting S _ (e, st) ⟨he, hst⟩
    | exact deviateFold_okS hC hrec root n sub visiting S _ (e, st) ⟨he, hst⟩
    | skip
  case h_18 =>
    split
    · exact ⟨he, hst⟩
    · rename_i i hi
      obtain ⟨r1, r2, r3, r4⟩ := hrec root sub i visiting st S hst
      cases e with | mk d c i' o' =>
      have hi0 : i' = [] := hin rfl
      subst hi0
      refine ⟨hC.setInp d c o' _ he r1 ?_, r2⟩
      intro herr
      have hkw : i.kw = "input" := one?_kw n _ i hi
      exact (r3 herr (by rw [hkw]; decide) (by rw [hkw]; decide) (by rw [hkw]; decide)
        (by rw [hkw]; decide)).2.1.trans (by rw [hkw]; rfl)
  case h_19 =>
    split
    · exact ⟨he, hst⟩
    · rename_i o ho
      obtain ⟨r1, r2, r3, r4⟩ := hrec root sub o visiting st S hst
      cases e with | mk d c i' o' =>
      have ho0 : o' = [] := hout rfl
      subst ho0
      refine ⟨hC.setOut d c i' _ he r1 ?_, r2⟩
      intro herr
      have hkw : o.kw = "output" := one?_kw n _ o ho
      exact (r3 herr (by rw [hkw]; decide) (by rw [hkw]; decide) (by rw [hkw]; decide)
        (by rw [hkw]; decide)).2.1.trans (by rw [hkw]; rfl)
  case h_23 =>
    split
    · exact ⟨he, hst⟩
    · split
      · exact ⟨hC.typeSet e _ he hkind, hst⟩
      · exact ⟨hC.addErr _ _ he, hst⟩
  case h_24 =>
    split
    · refine ⟨?_, hst⟩
      split
      · exact hneu _ _ (fun d => ⟨rfl, rfl, rfl, rfl, rfl, rfl⟩) (fun d => rfl) he
      · exact he
    · exact ⟨he, hst⟩
  case h_26 =>
    split
    · exact ⟨he, hst⟩
    · rename_i hk
      have hk' : e.d.kind = .deviate := by simpa using hk
      refine ⟨?_, hst⟩
      have h1 := hC.laSet e (fun d => { d with listAttr := some (d.listAttr.getD {}) }) he hk'
        (fun d => ⟨rfl, rfl, rfl, rfl, rfl⟩) (fun d => ⟨[], by simp⟩)
      split
      · exact h1
      · exact hC.addErrs _ _ (hC.laSet _ _ h1 (by cases e; exact hk')
          (fun d => ⟨rfl, rfl, rfl, rfl, rfl⟩) (fun d => ⟨[], by simp⟩))
  case h_27 =>
    split
    · exact ⟨he, hst⟩
    · rename_i hk
      have hk' : e.d.kind = .deviate := by simpa using hk
      refine ⟨?_, hst⟩
      have h1 := hC.laSet e (fun d => { d with listAttr := some (d.listAttr.getD {}) }) he hk'
        (fun d => ⟨rfl, rfl, rfl, rfl, rfl⟩) (fun d => ⟨[], by simp⟩)
      split
      · exact h1
      · exact hC.addErrs _ _ (hC.laSet _ _ h1 (by cases e; exact hk')
          (fun d => ⟨rfl, rfl, rfl, rfl, rfl⟩) (fun d => ⟨[], by simp⟩))
  case h_28 =>
    split
    · exact ⟨he, hst⟩
    · rename_i hm
      have hm' : isMod = true := by simpa using hm
      obtain ⟨a1, a2⟩ := augFold_okS hrec root sub visiting S (n.all "augment") st hst
      refine ⟨he, ⟨a2.cache, a2.gcache, ?_, ?_, a2.ckind⟩⟩
      · intro p hp
        rcases List.mem_append.mp hp with hp | hp
        · exact a2.augs p hp
        · simp only [List.mem_singleton] at hp; subst hp; exact a1
      · intro p hp
        rcases List.mem_append.mp hp with hp | hp
        · exact a2.keys p hp
        · simp only [List.mem_singleton] at hp; subst hp; exact Or.inr (hS hm')

end Step


section Body
variable {env : Env} {PE : Entry → Prop} (hC : ClosedS env PE) {rec : Rec} (hrec : RecOKS PE rec)
  (root : Mod) (n : Stmt) (sub : List Stmt) (visiting : List NodeId) (S : List Nat)
include hC

include hrec in
theorem steps_okS (isMod : Bool) (hS : isMod = true → root.seq ∈ S) (st : TState) (hst : StOK PE S st) :
    AccOK PE S ((fieldOrder n.kw).foldl (stepFn env rec root n sub visiting isMod) (e0 root n, st)) := by
  by_cases hio : "input" ∈ fieldOrder n.kw ∨ "output" ∈ fieldOrder n.kw
  · rw [fieldOrder_io _ hio]
    simp only [List.foldl]
    have k0 : (e0 root n).d.kind ≠ .leaf := e0_kind root n
    have s1 := stepFn_okS hC hrec root n sub visiting S isMod hS (e0 root n, st) "output" ⟨hC.base0 root n, hst⟩ k0
      (fun h => absurd h (by decide)) (fun _ => rfl)
    have k1 := rootKeep_stepFn env rec root n sub visiting isMod (e0 root n, st) "output"
    have i1 := stepFn_output_inp env rec root n sub visiting isMod (e0 root n, st)
    generalize stepFn env rec root n sub visiting isMod (e0 root n, st) "output" = a1 at s1 k1 i1 ⊢
    have k1' : a1.1.d.kind ≠ .leaf := by rw [k1.2.1]; exact k0
    have s2 := stepFn_okS hC hrec root n sub visiting S isMod hS a1 "input" s1 k1'
      (fun _ => i1) (fun h => absurd h (by decide))
    have k2 := rootKeep_stepFn env rec root n sub visiting isMod a1 "input"
    generalize stepFn env rec root n sub visiting isMod a1 "input" = a2 at s2 k2 ⊢
    have k2' : a2.1.d.kind ≠ .leaf := by rw [k2.2.1]; exact k1'
    have s3 := stepFn_okS hC hrec root n sub visiting S isMod hS a2 "grouping" s2 k2'
      (fun h => absurd h (by decide)) (fun h => absurd h (by decide))
    have k3 := rootKeep_stepFn env rec root n sub visiting isMod a2 "grouping"
    generalize stepFn env rec root n sub visiting isMod a2 "grouping" = a3 at s3 k3 ⊢
    have k3' : a3.1.d.kind ≠ .leaf := by rw [k3.2.1]; exact k2'
    exact stepFn_okS hC hrec root n sub visiting S isMod hS a3 "description" s3 k3'
      (fun h => absurd h (by decide)) (fun h => absurd h (by decide))
  · have hni : "input" ∉ fieldOrder n.kw := fun h => hio (Or.inl h)
    have hno : "output" ∉ fieldOrder n.kw := fun h => hio (Or.inr h)
    refine (foldl_inv (fun acc : Entry × TState => AccOK PE S acc ∧ acc.1.d.kind ≠ .leaf) _ _ _
      ⟨⟨hC.base0 root n, hst⟩, e0_kind root n⟩ ?_).1
    rintro acc f hf ⟨ha, hk⟩
    refine ⟨stepFn_okS hC hrec root n sub visiting S isMod hS acc f ha hk
      (fun h => absurd (h ▸ hf) hni) (fun h => absurd (h ▸ hf) hno), ?_⟩
    rw [(rootKeep_stepFn env rec root n sub visiting isMod acc f).2.1]; exact hk


include hrec in
theorem dirBody_okS (scope : List Stmt) (st : TState) (hst : StOK PE S st) (isMod : Bool)
    (hmk : isMod = true → kindOfKw n.kw = .directory) :
    PE (dirBody env rec root scope n visiting st isMod).1 ∧
      StOK PE S (dirBody env rec root scope n visiting st isMod).2 := by
  unfold dirBody
  dsimp only
  cases isMod with
  | true =>
    simp only [if_true]
    have := steps_okS hC hrec root n (n :: scope) visiting (root.seq :: S) true (fun _ => List.mem_cons_self)
      st (stOK_weaken S _ st hst)
    have hkind := (rootKeep_fold_steps env rec root n (n :: scope) visiting true (fieldOrder n.kw) (e0 root n, st)).2.1
    refine ⟨this.1, ⟨?_, this.2.gcache, this.2.augs, ?_, ?_⟩⟩
    rotate_left 2
    · intro p hp
      rcases List.mem_append.mp hp with hp | hp
      · exact this.2.ckind p hp
      · simp only [List.mem_singleton] at hp; subst hp
        exact hkind.trans ((e0_data root n).2.1.trans (hmk rfl))
    · intro p hp
      rcases List.mem_append.mp hp with hp | hp
      · exact this.2.cache p hp
      · simp only [List.mem_singleton] at hp; subst hp; exact this.1
    · intro p hp
      simp only [List.map_append, List.map_cons, List.map_nil, List.mem_append, List.mem_singleton]
      rcases this.2.keys p hp with h | h
      · exact Or.inl (Or.inl h)
      · rcases List.mem_cons.mp h with h | h
        · exact Or.inl (Or.inr h)
        · exact Or.inr h
  | false =>
    simp only [Bool.false_eq_true, if_false]
    have := steps_okS hC hrec root n (n :: scope) visiting S false (fun h => absurd h (by simp)) st hst
    split
    · exact ⟨this.1, ⟨this.2.cache, fun p hp => by
        rcases List.mem_append.mp hp with hp | hp
        · exact this.2.gcache p hp
        · simp only [List.mem_singleton] at hp; subst hp; exact this.1, this.2.augs, this.2.keys, this.2.ckind⟩⟩
    · exact this

include hrec in
/-- One level of `toEntry` keeps the invariant, given that the recursive calls do. -/
theorem toEntryBody_okS (fuel : Nat) (scope : List Stmt) (st : TState) (hst : StOK PE S st) :
    PE (toEntryBody env fuel rec root scope n visiting st).1 ∧
      StOK PE S (toEntryBody env fuel rec root scope n visiting st).2 := by
  unfold toEntryBody
  dsimp only
  split
  · rename_i k e hfind
    refine ⟨?_, hst⟩
    split at hfind
    · exact hst.cache _ (List.mem_of_find?_eq_some hfind)
    · exact absurd hfind (by simp)
  · split
    · rename_i k e hfind
      refine ⟨?_, hst⟩
      split at hfind
      · exact hst.gcache _ (List.mem_of_find?_eq_some hfind)
      · exact absurd hfind (by simp)
    · split
      · exact ⟨hC.errE _ _ _, hst⟩
      · split
        · exact ⟨hC.leafE root n scope false, hst⟩
        · split
          · exact ⟨hC.leafL root n scope _ _ _, hst⟩
          · split
            · split
              · exact ⟨hC.errE _ _ _, hst⟩
              · obtain ⟨r1, r2, _, _⟩ := hrec _ _ _ _ st S hst
                exact ⟨r1, r2⟩
            · refine dirBody_okS hC hrec root n _ S scope st hst _ ?_
              intro hm
              simp only [Bool.or_eq_true, beq_iff_eq] at hm
              rcases hm with hm | hm <;> rw [hm] <;> decide

end Body

/-- The invariant of `toEntryZ zArg`: from a good state it produces a good entry and a good state. -/
theorem toEntry_okS {env : Env} {PE : Entry → Prop} (hC : ClosedS env PE) (fuel : Nat) :
    RecOKS PE (Fuel.toEntryZ env zArg fuel) := by
  induction fuel with
  | zero =>
    intro root scope n visiting st S hst
    refine ⟨hC.zE root n st, hst, ?_, ?_⟩
    · intro herr; exact absurd herr (by simp [Fuel.toEntryZ, zArg, Entry.d])
    · intro _ _ _ _; rfl
  | succ fuel ih =>
    intro root scope n visiting st S hst
    have hb : Fuel.toEntryZ env zArg (fuel + 1) root scope n visiting st =
        toEntryBody env fuel (Fuel.toEntryZ env zArg fuel) root scope n visiting st := rfl
    have := toEntryBody_okS hC ih root n visiting S fuel scope st hst
    rw [hb]
    exact ⟨this.1, this.2, toEntryBody_shape _ _ _ _ _ _ _ _, toEntryBody_shape2S _ _ _ _ _ _ _ _⟩

/-- The conversion of all modules: C01's fuel bound lets `toEntryZ zArg` stand for `toEntry`. -/
theorem tstate_okS (reg : Registry) (opts : Opts) (plug : Plug) {PE : Entry → Prop}
    (hC : ClosedS (envOf reg opts plug) PE) : StOK PE [] (tstate reg opts plug) := by
  unfold tstate
  refine foldl_inv (StOK PE []) _ _ _ (stOK_empty PE []) ?_
  intro st m hm hst
  have hmem : m ∈ (envOf reg opts plug).reg.mods := Bridge.keyOrder_mem reg m hm
  rw [Fuel.toEntry_fuel (envOf reg opts plug) (entryFuel reg) m [] m.stmt [] st (Fuel.Inv.top hmem)
    (Fuel.entryNeed_le_entryFuel reg) zArg]
  exact (toEntry_okS hC (entryFuel reg) m [] m.stmt [] st [] hst).2.1

/-! ### `KeysUnique` has the strong closure properties -/

theorem ku_dir (e : Entry) (h : KeysUnique e) : ∀ c ∈ e.dir, KeysUnique c := by
  cases e with | mk d cs i o => exact ((ku_mk d cs i o).mp h).2.2.2.1

theorem ku_append (e v : Entry) (he : KeysUnique e) (hv : KeysUnique v) (hk : e.child? v.name = none) :
    KeysUnique (e.withDir (e.dir ++ [v])) := by
  have hne := child?_none e v.name hk
  cases e with | mk d c i o =>
  simp only [Entry.withDir, Entry.dir] at hne ⊢
  rw [ku_mk] at he ⊢
  refine ⟨?_, he.2.1, he.2.2.1, ?_, he.2.2.2.2.1, he.2.2.2.2.2⟩
  · rw [List.map_append, List.map_cons, List.map_nil, List.nodup_append]
    refine ⟨he.1, by simp, ?_⟩
    intro a ha b hb
    simp only [List.mem_singleton] at hb; subst hb
    obtain ⟨x, hx, rfl⟩ := List.mem_map.mp ha
    exact hne x hx
  · intro x hx
    rcases List.mem_append.mp hx with hx | hx
    · exact he.2.2.2.1 x hx
    · simp only [List.mem_singleton] at hx; subst hx; exact hv

theorem ku_add (e : Entry) (k : String) (v : Entry) (he : KeysUnique e) (hv : KeysUnique v) (hs : v.name = k) :
    KeysUnique (e.add k v) := by
  unfold Entry.add
  split
  · exact ku_addErr _ _ he
  · rename_i hk
    exact ku_append e v he hv (by rw [hs]; exact hk)

theorem ku_leafEntry (env : Env) (root : Mod) (n : Stmt) (scope : List Stmt) (syn : Bool) :
    KeysUnique (leafEntry env root scope n syn) := by
  have hd := leafEntry_data env root scope n syn
  generalize leafEntry env root scope n syn = le at hd ⊢
  cases le with | mk d c i o =>
  simp only [Entry.dir, Entry.inp, Entry.out] at hd
  obtain ⟨_, _, _, _, _, rfl, rfl, rfl⟩ := hd
  rw [ku_mk]; simp

theorem closedS_ku (env : Env) : ClosedS env KeysUnique where
  withD e f _ _ h := (ku_withD e f).mpr h
  addErrs e xs h := (ku_withD e _).mpr h
  addErr e x h := ku_addErr e x h
  importErrors e c h := ku_importErrors e c h
  add e k v h hv _ hs := ku_add e k v h hv hs
  merge e ns oe h ho := ku_merge e ns oe h (ku_dir oe ho)
  setInp d c o ie h hi _ := by
    rw [ku_mk] at h ⊢
    refine ⟨h.1, by simp, h.2.2.1, h.2.2.2.1, ?_, h.2.2.2.2.2⟩
    intro x hx; simp only [List.mem_singleton] at hx; subst hx; exact (ku_withD _ _).mpr hi
  setOut d c i oe h ho _ := by
    rw [ku_mk] at h ⊢
    refine ⟨h.1, h.2.1, by simp, h.2.2.2.1, h.2.2.2.2.1, ?_⟩
    intro x hx; simp only [List.mem_singleton] at hx; subst hx; exact (ku_withD _ _).mpr ho
  typeSet e ty h _ := (ku_withD e _).mpr h
  laSet e f h _ _ _ := (ku_withD e f).mpr h
  base0 root n := by unfold e0; rw [ku_mk]; simp
  errE root n cls := by unfold errorEntry; rw [ku_mk]; simp
  leafE root n scope syn := ku_leafEntry env root n scope syn
  leafL root n scope la xs dl := (ku_withD _ _).mpr (ku_leafEntry env root n scope true)
  zE root n st := by unfold zArg; rw [ku_mk]; simp

/-! ### the state `processAll` enters the augment phase with -/

/-- **Every tree the conversion leaves in the cache and every pending augment entry has unique keys at
every node — whether or not errors are recorded in it.** -/
theorem keysUnique_tstate (reg : Registry) (opts : Opts) (plug : Plug) :
    (∀ t ∈ (forest0 reg opts plug).trees, KeysUnique t.2) ∧
    (∀ p ∈ (tstate reg opts plug).augs, ∀ a ∈ p.2, KeysUnique a) := by
  have hC := tstate_okS reg opts plug (closedS_ku (envOf reg opts plug))
  exact ⟨fun t ht => hC.cache t ht, fun p hp a ha => hC.augs p hp a ha⟩

theorem keysUnique_pstate0_all (reg : Registry) (opts : Opts) (plug : Plug) :
    ∀ t ∈ (pstate0 reg opts plug).forest.trees, KeysUnique t.2 :=
  (keysUnique_tstate reg opts plug).1

/-- A pending augment entry has unique keys (so have its children), errors recorded in it or not. -/
theorem keysUnique_pending_all (reg : Registry) (opts : Opts) (plug : Plug) (id : Nat) :
    ∀ a ∈ (pstate0 reg opts plug).pendingOf id, KeysUnique a ∧ ∀ c ∈ a.dir, KeysUnique c := by
  intro a ha
  rcases Bridge.pendingOf_pstate0 reg opts plug id with h0 | ⟨p, hp, _, h2⟩
  · rw [h0] at ha; cases ha
  · rw [h2] at ha
    have hku := (keysUnique_tstate reg opts plug).2 p hp a ha
    exact ⟨hku, ku_dir a hku⟩

end Goyang.Lemmas.AugmentKU
