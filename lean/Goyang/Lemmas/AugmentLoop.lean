import Goyang.Lemmas.AugmentStep
/-
C07 — the retry loop (`augmentTreeR` / `augmentPassR` / `augmentLoopR`, i.e. the model's
`augmentTree` / `augmentPass` / `augmentLoop` with their trace): bookkeeping of the pending sets,
the chain of views along the trace, termination within the fuel, completeness at exit.
-/
namespace Goyang.Lemmas.AugmentLoop
open Goyang.Model Goyang.Spec.Augment Goyang.Lemmas.AugmentConfl Goyang.Lemmas.AugmentTree
  Goyang.Lemmas.AugmentModel Goyang.Lemmas.AugmentStep

/-! ### chains of applied augments -/

/-- Identity of an applied augment: owner tree and augment entry. -/
def Ev.key (ev : Ev) : Nat × Entry := (ev.owner, ev.aug)

/-- `Chain R f0 f tr f'`: starting from forest `f`, the events of `tr` are successful attempts in
this order, separated by changes that are invisible on the view (failed attempts), ending in `f'`.
`f0` is the forest the run started from (it fixes the namespaces). -/
inductive Chain (R : Res) (f0 : Forest) : Forest → List Ev → Forest → Prop
  | nil {f f' : Forest} : viewOf f' = viewOf f → FLe f f' → Chain R f0 f [] f'
  | cons {f f2 f' : Forest} {ev : Ev} {tr : List Ev} :
      viewOf ev.before = viewOf f → FLe f ev.before →
      attemptR R ev.owner false (nsOfR R f0 ev.owner) ev.aug ev.before = (f2, true) →
      Chain R f0 f2 tr f' → Chain R f0 f (ev :: tr) f'

theorem Chain.le {R : Res} {f0 f f' : Forest} {tr : List Ev} (h : Chain R f0 f tr f') : FLe f f' := by
  induction h with
  | nil _ hle => exact hle
  | cons _ hle hatt _ ih => exact hle.trans ((attempt_ok_le hatt).trans ih)

/-- A chain may start from any forest that shows the same view and lies below. -/
theorem Chain.weaken {R : Res} {f0 f1 f f' : Forest} {tr : List Ev} (h : Chain R f0 f1 tr f')
    (hv : viewOf f1 = viewOf f) (hle : FLe f f1) : Chain R f0 f tr f' := by
  cases h with
  | nil hv' hle' => exact Chain.nil (hv'.trans hv) (hle.trans hle')
  | cons hv' hle' hatt hrest => exact Chain.cons (hv'.trans hv) (hle.trans hle') hatt hrest

theorem Chain.append {R : Res} {f0 f f1 f2 : Forest} {t1 t2 : List Ev} (h1 : Chain R f0 f t1 f1)
    (h2 : Chain R f0 f1 t2 f2) : Chain R f0 f (t1 ++ t2) f2 := by
  induction h1 with
  | nil hv hle => exact h2.weaken hv hle
  | cons hv hle hatt _ ih => exact Chain.cons hv hle hatt (ih h2)

theorem Chain.view_nil {R : Res} {f0 f f' : Forest} (h : Chain R f0 f [] f') : viewOf f' = viewOf f := by
  cases h with
  | nil hv _ => exact hv

/-! ### one `augmentTreeR` call -/

/-- The fold of one call is a chain; when nothing is applied, nothing was applicable and nothing
was dropped. -/
theorem FoldRel.chain {R : Res} {f0 : Forest} {id : Nat} {f f' : Forest} {l U : List Entry} {tr : List Ev}
    (h : FoldRel R id false (nsOfR R f0 id) f l f' U tr) : Chain R f0 f tr f' := by
  induction h with
  | nil f => exact Chain.nil rfl (FLe.refl f)
  | fail hatt _ ih =>
    obtain ⟨hv, hle, _, _⟩ := attempt_fail hatt
    exact ih.weaken hv hle
  | ok hatt _ ih => exact Chain.cons rfl (FLe.refl _) hatt ih

theorem FoldRel.nothing {R : Res} {id : Nat} {ae : Bool} {nsOf : String} {f f' : Forest} {l U : List Entry}
    (h : FoldRel R id ae nsOf f l f' U []) :
    U = l ∧ viewOf f' = viewOf f ∧ ∀ a ∈ l, ∀ f0, ¬ (absAug R f0 id a).Applicable (viewOf f) := by
  generalize htr : ([] : List Ev) = tr at h
  induction h with
  | nil f => exact ⟨rfl, rfl, by simp⟩
  | fail hatt _ ih =>
    obtain ⟨hv, _, hna, _⟩ := attempt_fail hatt
    obtain ⟨h1, h2, h3⟩ := ih htr
    refine ⟨by rw [h1], h2.trans hv, ?_⟩
    intro a ha f0
    rcases List.mem_cons.mp ha with rfl | ha
    · exact hna f0
    · rw [← hv]; exact h3 a ha f0
  | ok _ _ _ => cases htr

/-- With `addErrors`, every augment that is left over has its error on a visible node at the end. -/
theorem FoldRel.leftover_err {R : Res} {id : Nat} {nsOf : String} {f f' : Forest} {l U : List Entry} {tr : List Ev}
    (h : FoldRel R id true nsOf f l f' U tr) (hid : (f.tree? id).isSome = true) :
    FLe f f' ∧ ∀ a ∈ U, FVisErr f' (Err.at_ a.d.node "augment-not-found") := by
  induction h with
  | nil f => exact ⟨FLe.refl f, by simp⟩
  | @fail f f1 f'' a l U tr hatt _ ih =>
    obtain ⟨_, hle, _, herr⟩ := attempt_fail hatt
    obtain ⟨hle2, hU⟩ := ih (by rw [hle.isSome]; exact hid)
    refine ⟨hle.trans hle2, ?_⟩
    intro b hb
    rcases List.mem_cons.mp hb with rfl | hb
    · exact (herr rfl hid).mono hle2
    · exact hU b hb
  | @ok f f1 f'' a l U tr hatt _ ih =>
    have hle := attempt_ok_le hatt
    obtain ⟨hle2, hU⟩ := ih (by rw [hle.isSome]; exact hid)
    exact ⟨hle.trans hle2, hU⟩

/-! ### bookkeeping of the pending sets -/

/-- Every pending list is duplicate free. -/
def NodupPending (s : PState) : Prop := ∀ id, (s.pendingOf id).Nodup

/-- `s'` is `s` with exactly the augments of the trace `tr` removed from the pending lists. -/
structure Book (s s' : PState) (tr : List Ev) : Prop where
  pending : ∀ id a, a ∈ s'.pendingOf id ↔ (a ∈ s.pendingOf id ∧ (id, a) ∉ tr.map Ev.key)
  fromPending : ∀ ev ∈ tr, ev.aug ∈ s.pendingOf ev.owner
  nodup : (tr.map Ev.key).Nodup
  nodupPending : NodupPending s'

theorem Book.refl {s : PState} (h : NodupPending s) : Book s s [] :=
  ⟨fun _ _ => by simp, by simp, by simp, h⟩

theorem Book.trans {s s1 s2 : PState} {t1 t2 : List Ev} (h1 : Book s s1 t1) (h2 : Book s1 s2 t2) :
    Book s s2 (t1 ++ t2) := by
  refine ⟨?_, ?_, ?_, h2.nodupPending⟩
  · intro id a
    rw [h2.pending, h1.pending]
    simp only [List.map_append, List.mem_append, not_or, and_assoc]
  · intro ev hev
    rcases List.mem_append.mp hev with h | h
    · exact h1.fromPending ev h
    · exact ((h1.pending ev.owner ev.aug).mp (h2.fromPending ev h)).1
  · rw [List.map_append, List.nodup_append]
    refine ⟨h1.nodup, h2.nodup, ?_⟩
    intro x hx y hy hxy
    subst hxy
    obtain ⟨ev, hev, rfl⟩ := List.mem_map.mp hy
    have := (h1.pending ev.owner ev.aug).mp (h2.fromPending ev hev)
    exact this.2 hx

/-- The bookkeeping of one call. -/
theorem tree_book (R : Res) (id : Nat) (ae : Bool) (s : PState) (hn : NodupPending s) :
    ∃ f' U tr, FoldRel R id ae (nsOfR R s.forest id) s.forest (s.pendingOf id) f' U tr ∧
      augmentTreeR R id ae s = (({ s with forest := f' } : PState).setPending id U, tr.length, U.length, tr) ∧
      (augmentTreeR R id ae s).1.forest = f' ∧
      (∀ id', (augmentTreeR R id ae s).1.pendingOf id' = if id' = id then U else s.pendingOf id') ∧
      Book s (augmentTreeR R id ae s).1 tr := by
  obtain ⟨f', U, tr, hrel, hval, hp⟩ := augmentTreeR_spec R id ae s
  refine ⟨f', U, tr, hrel, hval, by rw [hval]; rfl, hp, ?_⟩
  have hmem := hrel.mem_iff
  have hown := hrel.owner
  obtain ⟨hnU, hnT, hdis⟩ := hrel.nodup (hn id)
  have hkey : ∀ a, (id, a) ∈ tr.map Ev.key ↔ a ∈ tr.map (·.aug) := by
    intro a
    simp only [List.mem_map, Ev.key, Prod.mk.injEq]
    constructor
    · rintro ⟨ev, hev, _, rfl⟩; exact ⟨ev, hev, rfl⟩
    · rintro ⟨ev, hev, rfl⟩; exact ⟨ev, hev, hown ev hev, rfl⟩
  refine ⟨?_, ?_, ?_, ?_⟩
  · intro id' a
    rw [hp]
    by_cases hid : id' = id
    · subst hid
      simp only [if_true]
      rw [hkey, hmem]
      constructor
      · intro ha; exact ⟨Or.inl ha, hdis a ha⟩
      · rintro ⟨h1 | h1, h2⟩
        · exact h1
        · exact absurd h1 h2
    · simp only [hid, if_false]
      constructor
      · intro ha
        refine ⟨ha, ?_⟩
        intro hm
        obtain ⟨ev, hev, hk⟩ := List.mem_map.mp hm
        simp only [Ev.key, Prod.mk.injEq] at hk
        exact hid (hk.1.symm.trans (hown ev hev))
      · exact fun h => h.1
  · intro ev hev
    rw [hown ev hev]
    exact (hmem ev.aug).mpr (Or.inr (List.mem_map.mpr ⟨ev, hev, rfl⟩))
  · have : tr.map Ev.key = (tr.map (·.aug)).map (fun a => (id, a)) := by
      rw [List.map_map]
      apply List.map_congr_left
      intro ev hev
      simp [Ev.key, hown ev hev]
    rw [this]
    exact List.Pairwise.map (fun a => (id, a)) (fun a b h hab => h (by simpa using hab)) hnT
  · intro id'
    rw [hp]
    by_cases hid : id' = id
    · simp only [hid, if_true]; exact hnU
    · simp only [hid, if_false]; exact hn id'

end Goyang.Lemmas.AugmentLoop
