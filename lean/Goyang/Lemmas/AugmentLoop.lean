import Goyang.Lemmas.AugmentStep
/-
C07 — the retry loop (`augmentTreeR` / `augmentPassR` / `augmentLoopR`, i.e. the model's
`augmentTree` / `augmentPass` / `augmentLoop` with their trace): bookkeeping of the pending sets,
the chain of views along the trace, termination within the fuel, completeness at exit.
-/
namespace Goyang.Lemmas.AugmentLoop
open Goyang.Model Goyang.Spec.Augment Goyang.Lemmas.AugmentConfl Goyang.Lemmas.AugmentTree
  Goyang.Lemmas.AugmentModel Goyang.Lemmas.AugmentStep

/-! ### chains of applied augments -/

/-- Identity of an applied augment: owner tree and augment entry. -/
def Ev.key (ev : Ev) : Nat × Entry := (ev.owner, ev.aug)

/-- `Chain R f0 f tr f'`: starting from forest `f`, the events of `tr` are successful attempts in
this order, separated by changes that are invisible on the view (failed attempts), ending in `f'`.
`f0` is the forest the run started from (it fixes the namespaces). -/
inductive Chain (R : Res) (f0 : Forest) : Forest → List Ev → Forest → Prop
  | nil {f f' : Forest} : viewOf f' = viewOf f → FLe f f' → Chain R f0 f [] f'
  | cons {f f2 f' : Forest} {ev : Ev} {tr : List Ev} :
      viewOf ev.before = viewOf f → FLe f ev.before →
      attemptR R ev.owner false (nsOfR R f0 ev.owner) ev.aug ev.before = (f2, true) →
      Chain R f0 f2 tr f' → Chain R f0 f (ev :: tr) f'

theorem Chain.le {R : Res} {f0 f f' : Forest} {tr : List Ev} (h : Chain R f0 f tr f') : FLe f f' := by
  induction h with
  | nil _ hle => exact hle
  | cons _ hle hatt _ ih => exact hle.trans ((attempt_ok_le hatt).trans ih)

/-- A chain may start from any forest that shows the same view and lies below. -/
theorem Chain.weaken {R : Res} {f0 f1 f f' : Forest} {tr : List Ev} (h : Chain R f0 f1 tr f')
    (hv : viewOf f1 = viewOf f) (hle : FLe f f1) : Chain R f0 f tr f' := by
  cases h with
  | nil hv' hle' => exact Chain.nil (hv'.trans hv) (hle.trans hle')
  | cons hv' hle' hatt hrest => exact Chain.cons (hv'.trans hv) (hle.trans hle') hatt hrest

theorem Chain.append {R : Res} {f0 f f1 f2 : Forest} {t1 t2 : List Ev} (h1 : Chain R f0 f t1 f1)
    (h2 : Chain R f0 f1 t2 f2) : Chain R f0 f (t1 ++ t2) f2 := by
  induction h1 with
  | nil hv hle => exact h2.weaken hv hle
  | cons hv hle hatt _ ih => exact Chain.cons hv hle hatt (ih h2)

theorem Chain.view_nil {R : Res} {f0 f f' : Forest} (h : Chain R f0 f [] f') : viewOf f' = viewOf f := by
  cases h with
  | nil hv _ => exact hv

/-! ### one `augmentTreeR` call -/

/-- The fold of one call is a chain; when nothing is applied, nothing was applicable and nothing
was dropped. -/
theorem FoldRel.chain {R : Res} {f0 : Forest} {id : Nat} {f f' : Forest} {l U : List Entry} {tr : List Ev}
    (h : FoldRel R id false (nsOfR R f0 id) f l f' U tr) : Chain R f0 f tr f' := by
  induction h with
  | nil f => exact Chain.nil rfl (FLe.refl f)
  | fail hatt _ ih =>
    obtain ⟨hv, hle, _, _⟩ := attempt_fail hatt
    exact ih.weaken hv hle
  | ok hatt _ ih => exact Chain.cons rfl (FLe.refl _) hatt ih

theorem FoldRel.nothing {R : Res} {id : Nat} {ae : Bool} {nsOf : String} {f f' : Forest} {l U : List Entry}
    (h : FoldRel R id ae nsOf f l f' U []) :
    U = l ∧ viewOf f' = viewOf f ∧ ∀ a ∈ l, ∀ f0, ¬ (absAug R f0 id a).Applicable (viewOf f) := by
  generalize htr : ([] : List Ev) = tr at h
  induction h with
  | nil f => exact ⟨rfl, rfl, by simp⟩
  | fail hatt _ ih =>
    obtain ⟨hv, _, hna, _⟩ := attempt_fail hatt
    obtain ⟨h1, h2, h3⟩ := ih htr
    refine ⟨by rw [h1], h2.trans hv, ?_⟩
    intro a ha f0
    rcases List.mem_cons.mp ha with rfl | ha
    · exact hna f0
    · rw [← hv]; exact h3 a ha f0
  | ok _ _ _ => cases htr

/-- With `addErrors`, every augment that is left over has its error on a visible node at the end. -/
theorem FoldRel.leftover_err {R : Res} {id : Nat} {nsOf : String} {f f' : Forest} {l U : List Entry} {tr : List Ev}
    (h : FoldRel R id true nsOf f l f' U tr) (hid : (f.tree? id).isSome = true) :
    FLe f f' ∧ ∀ a ∈ U, FVisErr f' (Err.at_ a.d.node "augment-not-found") := by
  induction h with
  | nil f => exact ⟨FLe.refl f, by simp⟩
  | @fail f f1 f'' a l U tr hatt _ ih =>
    obtain ⟨_, hle, _, herr⟩ := attempt_fail hatt
    obtain ⟨hle2, hU⟩ := ih (by rw [hle.isSome]; exact hid)
    refine ⟨hle.trans hle2, ?_⟩
    intro b hb
    rcases List.mem_cons.mp hb with rfl | hb
    · exact (herr rfl hid).mono hle2
    · exact hU b hb
  | @ok f f1 f'' a l U tr hatt _ ih =>
    have hle := attempt_ok_le hatt
    obtain ⟨hle2, hU⟩ := ih (by rw [hle.isSome]; exact hid)
    exact ⟨hle.trans hle2, hU⟩

/-! ### bookkeeping of the pending sets -/

/-- Every pending list is duplicate free. -/
def NodupPending (s : PState) : Prop := ∀ id, (s.pendingOf id).Nodup

/-- `s'` is `s` with exactly the augments of the trace `tr` removed from the pending lists. -/
structure Book (s s' : PState) (tr : List Ev) : Prop where
  pending : ∀ id a, a ∈ s'.pendingOf id ↔ (a ∈ s.pendingOf id ∧ (id, a) ∉ tr.map Ev.key)
  fromPending : ∀ ev ∈ tr, ev.aug ∈ s.pendingOf ev.owner
  nodup : (tr.map Ev.key).Nodup
  nodupPending : NodupPending s'

theorem Book.refl {s : PState} (h : NodupPending s) : Book s s [] :=
  ⟨fun _ _ => by simp, by simp, by simp, h⟩

theorem Book.trans {s s1 s2 : PState} {t1 t2 : List Ev} (h1 : Book s s1 t1) (h2 : Book s1 s2 t2) :
    Book s s2 (t1 ++ t2) := by
  refine ⟨?_, ?_, ?_, h2.nodupPending⟩
  · intro id a
    rw [h2.pending, h1.pending]
    simp only [List.map_append, List.mem_append, not_or, and_assoc]
  · intro ev hev
    rcases List.mem_append.mp hev with h | h
    · exact h1.fromPending ev h
    · exact ((h1.pending ev.owner ev.aug).mp (h2.fromPending ev h)).1
  · rw [List.map_append, List.nodup_append]
    refine ⟨h1.nodup, h2.nodup, ?_⟩
    intro x hx y hy hxy
    subst hxy
    obtain ⟨ev, hev, rfl⟩ := List.mem_map.mp hy
    have := (h1.pending ev.owner ev.aug).mp (h2.fromPending ev hev)
    exact this.2 hx

/-- The bookkeeping of one call. -/
theorem tree_book (R : Res) (id : Nat) (ae : Bool) (s : PState) (hn : NodupPending s) :
    ∃ f' U tr, FoldRel R id ae (nsOfR R s.forest id) s.forest (s.pendingOf id) f' U tr ∧
      augmentTreeR R id ae s = (({ s with forest := f' } : PState).setPending id U, tr.length, U.length, tr) ∧
      (augmentTreeR R id ae s).1.forest = f' ∧
      (∀ id', (augmentTreeR R id ae s).1.pendingOf id' = if id' = id then U else s.pendingOf id') ∧
      Book s (augmentTreeR R id ae s).1 tr := by
  obtain ⟨f', U, tr, hrel, hval, hp⟩ := augmentTreeR_spec R id ae s
  refine ⟨f', U, tr, hrel, hval, by rw [hval]; rfl, hp, ?_⟩
  have hmem := hrel.mem_iff
  have hown := hrel.owner
  obtain ⟨hnU, hnT, hdis⟩ := hrel.nodup (hn id)
  have hkey : ∀ a, (id, a) ∈ tr.map Ev.key ↔ a ∈ tr.map (·.aug) := by
    intro a
    simp only [List.mem_map, Ev.key, Prod.mk.injEq]
    constructor
    · rintro ⟨ev, hev, _, rfl⟩; exact ⟨ev, hev, rfl⟩
    · rintro ⟨ev, hev, rfl⟩; exact ⟨ev, hev, hown ev hev, rfl⟩
  refine ⟨?_, ?_, ?_, ?_⟩
  · intro id' a
    rw [hp]
    by_cases hid : id' = id
    · subst hid
      simp only [if_true]
      rw [hkey, hmem]
      constructor
      · intro ha; exact ⟨Or.inl ha, hdis a ha⟩
      · rintro ⟨h1 | h1, h2⟩
        · exact h1
        · exact absurd h1 h2
    · simp only [hid, if_false]
      constructor
      · intro ha
        refine ⟨ha, ?_⟩
        intro hm
        obtain ⟨ev, hev, hk⟩ := List.mem_map.mp hm
        simp only [Ev.key, Prod.mk.injEq] at hk
        exact hid (hk.1.symm.trans (hown ev hev))
      · exact fun h => h.1
  · intro ev hev
    rw [hown ev hev]
    exact (hmem ev.aug).mpr (Or.inr (List.mem_map.mpr ⟨ev, hev, rfl⟩))
  · have : tr.map Ev.key = (tr.map (·.aug)).map (fun a => (id, a)) := by
      rw [List.map_map]
      apply List.map_congr_left
      intro ev hev
      simp [Ev.key, hown ev hev]
    rw [this]
    exact List.Pairwise.map (fun a => (id, a)) (fun a b h hab => h (by simpa using hab)) hnT
  · intro id'
    rw [hp]
    by_cases hid : id' = id
    · simp only [hid, if_true]; exact hnU
    · simp only [hid, if_false]; exact hn id'

/-! ### swap-remove on the module list -/

/-- Go: `mods[i] = mods[len(mods)-1]; mods = mods[:len(mods)-1]`, on the list of the array. -/
def swapRemove (l : List Nat) (i : Nat) : List Nat := (l.set i (l.getLast?.getD 0)).dropLast

theorem mem_dropLast_or (l : List Nat) (hl : l ≠ []) (x : Nat) (hx : x ∈ l) : x ∈ l.dropLast ∨ x = l.getLast?.getD 0 := by
  have := List.dropLast_concat_getLast hl
  rw [← this] at hx
  rcases List.mem_append.mp hx with h | h
  · exact Or.inl h
  · right
    simp only [List.mem_singleton] at h
    rw [h, List.getLast?_eq_some_getLast hl]; rfl

theorem getLast_mem' (l : List Nat) (hl : l ≠ []) : l.getLast?.getD 0 ∈ l := by
  rw [List.getLast?_eq_some_getLast hl]; exact List.getLast_mem hl

theorem swapRemove_spec : ∀ (l : List Nat) (i : Nat) (hi : i < l.length),
    (∀ x ∈ swapRemove l i, x ∈ l) ∧ (∀ x ∈ l, x ≠ l[i] → x ∈ swapRemove l i) ∧
    (∀ x ∈ l.drop (i + 1), x ∈ (swapRemove l i).drop i) ∧ (swapRemove l i).length + 1 = l.length
  | [], i, hi => by simp at hi
  | [a], i, hi => by
    have : i = 0 := by simpa using hi
    subst this
    simp [swapRemove]
  | a :: b :: t, 0, _ => by
    have hne : b :: t ≠ [] := by simp
    have hsr : swapRemove (a :: b :: t) 0 = ((b :: t).getLast?.getD 0) :: (b :: t).dropLast := by
      simp [swapRemove, List.getLast?_cons_cons]
    rw [hsr]
    refine ⟨?_, ?_, ?_, ?_⟩
    · intro x hx
      rcases List.mem_cons.mp hx with rfl | hx
      · exact List.mem_cons_of_mem _ (getLast_mem' _ hne)
      · exact List.mem_cons_of_mem _ (List.dropLast_subset _ hx)
    · intro x hx hne'
      simp only [List.getElem_cons_zero] at hne'
      rcases List.mem_cons.mp hx with rfl | hx
      · exact absurd rfl hne'
      · rcases mem_dropLast_or _ hne x hx with h | h
        · exact List.mem_cons_of_mem _ h
        · rw [h]; exact List.mem_cons_self
    · intro x hx
      simp only [List.drop_succ_cons, List.drop_zero] at hx ⊢
      rcases mem_dropLast_or _ hne x hx with h | h
      · exact List.mem_cons_of_mem _ h
      · rw [h]; exact List.mem_cons_self
    · simp
  | a :: b :: t, j + 1, hi => by
    have hj : j < (b :: t).length := by simpa using hi
    obtain ⟨h1, h2, h3, h4⟩ := swapRemove_spec (b :: t) j hj
    have hsr : swapRemove (a :: b :: t) (j + 1) = a :: swapRemove (b :: t) j := by
      have hne : (b :: t).set j ((b :: t).getLast?.getD 0) ≠ [] := by
        intro h; have := congrArg List.length h; simp at this
      simp only [swapRemove, List.getLast?_cons_cons, List.set_cons_succ]
      rw [List.dropLast_cons_of_ne_nil hne]
    rw [hsr]
    refine ⟨?_, ?_, ?_, ?_⟩
    · intro x hx
      rcases List.mem_cons.mp hx with rfl | hx
      · exact List.mem_cons_self
      · exact List.mem_cons_of_mem _ (h1 x hx)
    · intro x hx hne'
      simp only [List.getElem_cons_succ] at hne'
      rcases List.mem_cons.mp hx with rfl | hx
      · exact List.mem_cons_self
      · exact List.mem_cons_of_mem _ (h2 x hx hne')
    · intro x hx
      simp only [List.drop_succ_cons] at hx ⊢
      exact h3 x hx
    · simp only [List.length_cons] at h4 ⊢; omega

theorem swapRemove_toList (mods : Array Nat) (i : Nat) (h : i < mods.size) :
    ((mods.set i (mods.back?.getD 0) h).pop).toList = swapRemove mods.toList i := by
  simp [swapRemove]

/-! ### the termination measure -/

def keys (s : PState) : List Nat := s.pending.map (·.1)

/-- Number of pending augments, counted per entry of the pending table. -/
def mu (s : PState) : Nat := ((keys s).map fun i => (s.pendingOf i).length).sum

theorem keys_setPending (s : PState) (id : Nat) (l : List Entry) : keys (s.setPending id l) = keys s := by
  unfold keys PState.setPending
  simp only [List.map_map]
  apply List.map_congr_left
  intro x _
  obtain ⟨i, p⟩ := x
  simp only [Function.comp]
  split <;> rfl

theorem mem_keys_of_pendingOf_ne_nil (s : PState) (id : Nat) (h : s.pendingOf id ≠ []) : id ∈ keys s := by
  unfold PState.pendingOf at h
  cases hf : s.pending.find? (·.1 == id) with
  | none => simp [hf] at h
  | some x =>
    have h1 : x.1 = id := by simpa using List.find?_some hf
    exact List.mem_map.mpr ⟨x, List.mem_of_find?_eq_some hf, h1⟩

theorem sum_update (K : List Nat) (g g' : Nat → Nat) (id p : Nat) (hne : ∀ i, i ≠ id → g' i = g i)
    (hid : g' id + p = g id) :
    (K.map g').sum ≤ (K.map g).sum ∧ (id ∈ K → (K.map g').sum + p ≤ (K.map g).sum) := by
  induction K with
  | nil => simp
  | cons k K ih =>
    simp only [List.map_cons, List.sum_cons, List.mem_cons]
    by_cases hk : k = id
    · subst hk
      refine ⟨by omega, fun _ => by omega⟩
    · rw [hne k hk]
      refine ⟨by omega, ?_⟩
      rintro (h | h)
      · exact absurd h.symm hk
      · have := ih.2 h; omega

/-- One call lowers the measure by at least the number of augments it applies. -/
theorem mu_tree (R : Res) (id : Nat) (ae : Bool) (s : PState) :
    keys (augmentTreeR R id ae s).1 = keys s ∧
    mu (augmentTreeR R id ae s).1 + (augmentTreeR R id ae s).2.1 ≤ mu s := by
  obtain ⟨f', U, tr, hrel, hval, hp⟩ := augmentTreeR_spec R id ae s
  have hk : keys (augmentTreeR R id ae s).1 = keys s := by
    rw [hval]; simp only; rw [keys_setPending]; rfl
  refine ⟨hk, ?_⟩
  unfold mu
  rw [hk]
  have hlen := hrel.length_eq
  have hsum := sum_update (keys s) (fun i => (s.pendingOf i).length)
    (fun i => ((augmentTreeR R id ae s).1.pendingOf i).length) id tr.length
    (by intro i hi; simp only [hp, hi, if_false])
    (by simp only [hp, if_true]; omega)
  have hp1 : (augmentTreeR R id ae s).2.1 = tr.length := by rw [hval]
  rw [hp1]
  by_cases hin : id ∈ keys s
  · exact hsum.2 hin
  · have hnil : s.pendingOf id = [] := by
      apply Classical.byContradiction
      intro h; exact hin (mem_keys_of_pendingOf_ne_nil s id h)
    rw [hnil] at hlen
    simp only [List.length_nil] at hlen
    have : tr.length = 0 := by omega
    rw [this]; exact hsum.1

theorem foldl_add_eq_sum {α : Type} (f : α → Nat) (l : List α) (n : Nat) :
    l.foldl (fun n p => n + f p) n = n + (l.map f).sum := by
  induction l generalizing n with
  | nil => simp
  | cons x xs ih => simp [List.foldl_cons, ih, Nat.add_assoc]

theorem lookup_of_nodup (l : List (Nat × List Entry)) (hn : (l.map (·.1)).Nodup) :
    ∀ p ∈ l, ((l.find? (·.1 == p.1)).map (·.2)).getD [] = p.2 := by
  induction l with
  | nil => simp
  | cons x xs ih =>
    simp only [List.map_cons, List.nodup_cons] at hn
    intro p hp
    rw [List.find?_cons]
    rcases List.mem_cons.mp hp with rfl | hp
    · simp
    · have : ¬ x.1 = p.1 := fun h => hn.1 (h ▸ List.mem_map.mpr ⟨p, hp, rfl⟩)
      have hb : (x.1 == p.1) = false := by simpa using this
      rw [hb]; exact ih hn.2 p hp

/-- With distinct keys in the pending table the measure is the count `processAll` uses. -/
theorem mu_eq_total (s : PState) (hn : (keys s).Nodup) :
    mu s = s.pending.foldl (fun n p => n + p.2.length) 0 := by
  rw [foldl_add_eq_sum (fun p : Nat × List Entry => p.2.length)]
  unfold mu keys
  simp only [List.map_map, Nat.zero_add]
  congr 1
  apply List.map_congr_left
  intro p hp
  simp only [Function.comp, PState.pendingOf]
  rw [lookup_of_nodup s.pending hn p hp]

/-! ### one pass -/

/-- Everything one pass does. `mods'`, `s'`: the module list and state it returns. -/
theorem pass_spec (R : Res) (f0 : Forest) : ∀ (fuel : Nat) (mods : Array Nat) (i processed : Nat) (s : PState)
    (tr : List Ev), FLe f0 s.forest → NodupPending s →
    ∃ trn, (augmentPassR R fuel mods i processed s tr).2.2.2 = tr ++ trn ∧
      (augmentPassR R fuel mods i processed s tr).2.1 = processed + trn.length ∧
      Chain R f0 s.forest trn (augmentPassR R fuel mods i processed s tr).2.2.1.forest ∧
      Book s (augmentPassR R fuel mods i processed s tr).2.2.1 trn ∧
      keys (augmentPassR R fuel mods i processed s tr).2.2.1 = keys s ∧
      mu (augmentPassR R fuel mods i processed s tr).2.2.1 + trn.length ≤ mu s ∧
      (∀ m ∈ (augmentPassR R fuel mods i processed s tr).1.toList, m ∈ mods.toList) ∧
      (∀ id ∈ mods.toList, (augmentPassR R fuel mods i processed s tr).2.2.1.pendingOf id ≠ [] →
        id ∈ (augmentPassR R fuel mods i processed s tr).1.toList) ∧
      (mods.size - i < fuel → trn = [] → ∀ id ∈ mods.toList.drop i, ∀ a ∈ s.pendingOf id,
        ¬ (absAug R f0 id a).Applicable (viewOf s.forest))
  | 0, mods, i, processed, s, tr, hle, hn => by
    refine ⟨[], by simp [augmentPassR], by simp [augmentPassR], Chain.nil rfl (FLe.refl _), Book.refl hn, rfl, by simp [augmentPassR],
      fun m h => h, fun id h _ => h, fun h => by omega⟩
  | fuel + 1, mods, i, processed, s, tr, hle, hn => by
    unfold augmentPassR
    by_cases h : i < mods.size
    · simp only [h, dite_true]
      obtain ⟨f1, U, tr1, hrel, hval, hforest, hpend, hbook⟩ := tree_book R mods[i] false s hn
      have hmu := mu_tree R mods[i] false s
      have hrel' : FoldRel R mods[i] false (nsOfR R f0 mods[i]) s.forest (s.pendingOf mods[i]) f1 U tr1 := by
        rw [← nsOfR_le R hle]; exact hrel
      have hchain1 : Chain R f0 s.forest tr1 (augmentTreeR R mods[i] false s).1.forest := by
        rw [hforest]; exact FoldRel.chain hrel'
      have hle1 : FLe f0 (augmentTreeR R mods[i] false s).1.forest := hle.trans hchain1.le
      have hn1 := hbook.nodupPending
      have hp2 : (augmentTreeR R mods[i] false s).2.1 = tr1.length := by rw [hval]
      have hk2 : (augmentTreeR R mods[i] false s).2.2.1 = U.length := by rw [hval]
      have ht2 : (augmentTreeR R mods[i] false s).2.2.2 = tr1 := by rw [hval]
      have hmem_i : mods[i] ∈ mods.toList := by simp
      have hdrop : mods.toList.drop i = mods[i] :: mods.toList.drop (i + 1) := by
        rw [List.drop_eq_getElem_cons (by simpa using h)]; simp
      -- the common part of both branches, for the recursive call on (mods1, i1)
      have common : ∀ (mods1 : Array Nat) (i1 : Nat),
          (∀ m ∈ mods1.toList, m ∈ mods.toList) →
          (∀ id ∈ mods.toList, id ≠ mods[i] ∨ U ≠ [] → id ∈ mods1.toList) →
          (∀ id ∈ mods.toList.drop (i + 1), id ∈ mods1.toList.drop i1) →
          mods1.size - i1 < mods.size - i →
          ∃ trn, (augmentPassR R fuel mods1 i1 (processed + (augmentTreeR R mods[i] false s).2.1)
              (augmentTreeR R mods[i] false s).1 (tr ++ (augmentTreeR R mods[i] false s).2.2.2)).2.2.2 = tr ++ trn ∧
            (augmentPassR R fuel mods1 i1 (processed + (augmentTreeR R mods[i] false s).2.1)
              (augmentTreeR R mods[i] false s).1 (tr ++ (augmentTreeR R mods[i] false s).2.2.2)).2.1 = processed + trn.length ∧
            Chain R f0 s.forest trn (augmentPassR R fuel mods1 i1 (processed + (augmentTreeR R mods[i] false s).2.1)
              (augmentTreeR R mods[i] false s).1 (tr ++ (augmentTreeR R mods[i] false s).2.2.2)).2.2.1.forest ∧
            Book s (augmentPassR R fuel mods1 i1 (processed + (augmentTreeR R mods[i] false s).2.1)
              (augmentTreeR R mods[i] false s).1 (tr ++ (augmentTreeR R mods[i] false s).2.2.2)).2.2.1 trn ∧
            keys (augmentPassR R fuel mods1 i1 (processed + (augmentTreeR R mods[i] false s).2.1)
              (augmentTreeR R mods[i] false s).1 (tr ++ (augmentTreeR R mods[i] false s).2.2.2)).2.2.1 = keys s ∧
            mu (augmentPassR R fuel mods1 i1 (processed + (augmentTreeR R mods[i] false s).2.1)
              (augmentTreeR R mods[i] false s).1 (tr ++ (augmentTreeR R mods[i] false s).2.2.2)).2.2.1 + trn.length ≤ mu s ∧
            (∀ m ∈ (augmentPassR R fuel mods1 i1 (processed + (augmentTreeR R mods[i] false s).2.1)
              (augmentTreeR R mods[i] false s).1 (tr ++ (augmentTreeR R mods[i] false s).2.2.2)).1.toList, m ∈ mods.toList) ∧
            (∀ id ∈ mods.toList, (augmentPassR R fuel mods1 i1 (processed + (augmentTreeR R mods[i] false s).2.1)
              (augmentTreeR R mods[i] false s).1 (tr ++ (augmentTreeR R mods[i] false s).2.2.2)).2.2.1.pendingOf id ≠ [] →
              id ∈ (augmentPassR R fuel mods1 i1 (processed + (augmentTreeR R mods[i] false s).2.1)
              (augmentTreeR R mods[i] false s).1 (tr ++ (augmentTreeR R mods[i] false s).2.2.2)).1.toList) ∧
            (mods.size - i < fuel + 1 → trn = [] → ∀ id ∈ mods.toList.drop i, ∀ a ∈ s.pendingOf id,
              ¬ (absAug R f0 id a).Applicable (viewOf s.forest)) := by
        intro mods1 i1 hsub hkeep hdrop1 hsize
        obtain ⟨trn2, e1, e2, hchain2, hbook2, hkeys2, hmu2, hsub2, hcov2, hcomp2⟩ :=
          pass_spec R f0 fuel mods1 i1 (processed + (augmentTreeR R mods[i] false s).2.1)
            (augmentTreeR R mods[i] false s).1 (tr ++ (augmentTreeR R mods[i] false s).2.2.2) hle1 hn1
        refine ⟨tr1 ++ trn2, ?_, ?_, hchain1.append hchain2, hbook.trans hbook2, hkeys2.trans hmu.1, ?_,
          fun m hm => hsub m (hsub2 m hm), ?_, ?_⟩
        · rw [e1, ht2, List.append_assoc]
        · rw [e2, hp2, List.length_append]; omega
        · have := hmu.2; rw [hp2] at this; rw [List.length_append]; omega
        · intro id hid hne
          apply hcov2 id _ hne
          apply hkeep id hid
          by_cases hidm : id = mods[i]
          · right
            intro hU
            apply hne
            have hsub' : ∀ a ∈ (augmentPassR R fuel mods1 i1 (processed + (augmentTreeR R mods[i] false s).2.1)
                (augmentTreeR R mods[i] false s).1 (tr ++ (augmentTreeR R mods[i] false s).2.2.2)).2.2.1.pendingOf id,
                a ∈ (augmentTreeR R mods[i] false s).1.pendingOf id := fun a ha => ((hbook2.pending id a).mp ha).1
            rw [hpend, if_pos hidm, hU] at hsub'
            exact List.eq_nil_iff_forall_not_mem.mpr (fun a ha => by simpa using hsub' a ha)
          · exact Or.inl hidm
        · intro hfuel htrn
          have htr1 : tr1 = [] := (List.append_eq_nil_iff.mp htrn).1
          have htrn2 : trn2 = [] := (List.append_eq_nil_iff.mp htrn).2
          subst htr1
          obtain ⟨hU, hv1, hna⟩ := FoldRel.nothing hrel'
          have hpend_same : ∀ id', (augmentTreeR R mods[i] false s).1.pendingOf id' = s.pendingOf id' := by
            intro id'
            rw [hpend]
            by_cases hid : id' = mods[i]
            · rw [if_pos hid, hU, hid]
            · rw [if_neg hid]
          have hview_same : viewOf (augmentTreeR R mods[i] false s).1.forest = viewOf s.forest := by
            rw [hforest]; exact hv1
          have hrest := hcomp2 (by omega) htrn2
          intro id hid a ha
          rw [hdrop] at hid
          rcases List.mem_cons.mp hid with rfl | hid
          · exact hna a ha f0
          · have := hrest id (hdrop1 id hid) a (by rw [hpend_same]; exact ha)
            rw [hview_same] at this
            exact this
      by_cases hk : ((augmentTreeR R mods[i] false s).2.2.1 == 0) = true
      · simp only [hk, if_true]
        have hU : U = [] := by
          have : U.length = 0 := by rw [← hk2]; simpa using hk
          exact List.eq_nil_of_length_eq_zero this
        obtain ⟨s1, s2, s3, s4⟩ := swapRemove_spec mods.toList i (by simpa using h)
        apply common
        · intro m hm; rw [swapRemove_toList] at hm; exact s1 m hm
        · intro id hid hor
          rw [swapRemove_toList]
          rcases hor with hne | hne
          · apply s2 id hid
            simpa using hne
          · exact absurd hU hne
        · intro id hid; rw [swapRemove_toList]; exact s3 id hid
        · have : ((mods.set i (mods.back?.getD 0) h).pop).size + 1 = mods.size := by
            have := congrArg List.length (swapRemove_toList mods i h)
            simp only [Array.length_toList] at this
            rw [this]; simpa using s4
          omega
      · simp only [hk, Bool.false_eq_true, if_false]
        apply common
        · exact fun m hm => hm
        · exact fun id hid _ => hid
        · exact fun id hid => hid
        · omega
    · simp only [h, dite_false]
      refine ⟨[], by simp, by simp, Chain.nil rfl (FLe.refl _), Book.refl hn, by first | rfl | trivial, by simp,
        fun m h => h, fun id h _ => h, ?_⟩
      intro _ _ id hid
      have : mods.toList.drop i = [] := List.drop_eq_nil_of_le (by simp; omega)
      rw [this] at hid
      cases hid

/-! ### the loop -/

/-- Every tree with pending augments is in the module list. -/
def Cover (s : PState) (mods : Array Nat) : Prop := ∀ id, s.pendingOf id ≠ [] → id ∈ mods.toList

/-- Everything the loop does: its trace is a chain of successful attempts from the initial to the
final forest, the pending sets shrink by exactly the applied augments, and — when the fuel
exceeds the number of pending augments — no pending augment is applicable in the final forest. -/
theorem loop_spec (R : Res) (f0 : Forest) : ∀ (fuel : Nat) (mods : Array Nat) (s : PState) (tr : List Ev),
    FLe f0 s.forest → NodupPending s → Cover s mods →
    ∃ trn, (augmentLoopR R fuel mods s tr).2.2 = tr ++ trn ∧
      Chain R f0 s.forest trn (augmentLoopR R fuel mods s tr).2.1.forest ∧
      Book s (augmentLoopR R fuel mods s tr).2.1 trn ∧
      keys (augmentLoopR R fuel mods s tr).2.1 = keys s ∧
      (∀ m ∈ (augmentLoopR R fuel mods s tr).1.toList, m ∈ mods.toList) ∧
      Cover (augmentLoopR R fuel mods s tr).2.1 (augmentLoopR R fuel mods s tr).1 ∧
      (mu s < fuel → ∀ id, ∀ a ∈ (augmentLoopR R fuel mods s tr).2.1.pendingOf id,
        ¬ (absAug R f0 id a).Applicable (viewOf (augmentLoopR R fuel mods s tr).2.1.forest))
  | 0, mods, s, tr, hle, hn, hcov => by
    exact ⟨[], by simp [augmentLoopR], Chain.nil rfl (FLe.refl _), Book.refl hn, rfl, fun m h => h, hcov,
      fun h => by omega⟩
  | fuel + 1, mods, s, tr, hle, hn, hcov => by
    unfold augmentLoopR
    by_cases he : mods.isEmpty = true
    · simp only [he, if_true]
      refine ⟨[], by simp, Chain.nil rfl (FLe.refl _), Book.refl hn, by first | rfl | trivial, fun m h => h, hcov, ?_⟩
      intro _ id a ha
      have hne : s.pendingOf id ≠ [] := by intro h; rw [h] at ha; cases ha
      have := hcov id hne
      have hnil : mods.toList = [] := by simpa using he
      rw [hnil] at this
      cases this
    · simp only [he, Bool.false_eq_true, if_false]
      obtain ⟨trn1, e1, e2, hchain1, hbook1, hkeys1, hmu1, hsub1, hcov1, hcomp1⟩ :=
        pass_spec R f0 (mods.size + 1) mods 0 0 s tr hle hn
      have hpend_sub : ∀ id, (augmentPassR R (mods.size + 1) mods 0 0 s tr).2.2.1.pendingOf id ≠ [] →
          s.pendingOf id ≠ [] := by
        intro id hne hnil
        apply hne
        apply List.eq_nil_iff_forall_not_mem.mpr
        intro a ha
        have := ((hbook1.pending id a).mp ha).1
        rw [hnil] at this
        cases this
      have hcov' : Cover (augmentPassR R (mods.size + 1) mods 0 0 s tr).2.2.1
          (augmentPassR R (mods.size + 1) mods 0 0 s tr).1 :=
        fun id hne => hcov1 id (hcov id (hpend_sub id hne)) hne
      by_cases h0 : ((augmentPassR R (mods.size + 1) mods 0 0 s tr).2.1 == 0) = true
      · simp only [h0, if_true]
        have hlen : trn1.length = 0 := by
          have : (augmentPassR R (mods.size + 1) mods 0 0 s tr).2.1 = 0 := by simpa using h0
          rw [e2] at this; omega
        have htrn1 : trn1 = [] := List.eq_nil_of_length_eq_zero hlen
        refine ⟨trn1, e1, hchain1, hbook1, hkeys1, hsub1, hcov', ?_⟩
        intro _ id a ha
        subst htrn1
        have ha' := ((hbook1.pending id a).mp ha).1
        have hne : s.pendingOf id ≠ [] := by intro h; rw [h] at ha'; cases ha'
        have hin := hcov id hne
        have := hcomp1 (by omega) rfl id (by simpa using hin) a ha'
        rw [hchain1.view_nil]
        exact this
      · simp only [h0, Bool.false_eq_true, if_false]
        have hpos : 0 < trn1.length := by
          have : (augmentPassR R (mods.size + 1) mods 0 0 s tr).2.1 ≠ 0 := by simpa using h0
          rw [e2] at this; omega
        obtain ⟨trn2, e3, hchain2, hbook2, hkeys2, hsub2, hcov2, hcomp2⟩ :=
          loop_spec R f0 fuel (augmentPassR R (mods.size + 1) mods 0 0 s tr).1
            (augmentPassR R (mods.size + 1) mods 0 0 s tr).2.2.1
            (augmentPassR R (mods.size + 1) mods 0 0 s tr).2.2.2
            (hle.trans hchain1.le) hbook1.nodupPending hcov'
        refine ⟨trn1 ++ trn2, ?_, hchain1.append hchain2, hbook1.trans hbook2, hkeys2.trans hkeys1,
          fun m hm => hsub1 m (hsub2 m hm), hcov2, ?_⟩
        · rw [e3, e1, List.append_assoc]
        · intro hfuel
          exact hcomp2 (by omega)

/-- No truncation: above the number of pending augments the fuel does not matter. -/
theorem loop_fuel_irrelevant (R : Res) : ∀ (fuel1 fuel2 : Nat) (mods : Array Nat) (s : PState) (tr : List Ev),
    NodupPending s → mu s < fuel1 → mu s < fuel2 →
    augmentLoopR R fuel1 mods s tr = augmentLoopR R fuel2 mods s tr
  | 0, _, _, _, _, _, h, _ => by omega
  | _ + 1, 0, _, _, _, _, _, h => by omega
  | fuel1 + 1, fuel2 + 1, mods, s, tr, hn, h1, h2 => by
    unfold augmentLoopR
    by_cases he : mods.isEmpty = true
    · simp only [he, if_true]
    · simp only [he, Bool.false_eq_true, if_false]
      obtain ⟨trn1, _, e2, _, hbook1, _, hmu1, _, _, _⟩ :=
        pass_spec R s.forest (mods.size + 1) mods 0 0 s tr (FLe.refl _) hn
      by_cases h0 : ((augmentPassR R (mods.size + 1) mods 0 0 s tr).2.1 == 0) = true
      · simp only [h0, if_true]
      · simp only [h0, Bool.false_eq_true, if_false]
        have hpos : 0 < trn1.length := by
          have : (augmentPassR R (mods.size + 1) mods 0 0 s tr).2.1 ≠ 0 := by simpa using h0
          rw [e2] at this; omega
        exact loop_fuel_irrelevant R fuel1 fuel2 _ _ _ hbook1.nodupPending (by omega) (by omega)

end Goyang.Lemmas.AugmentLoop
