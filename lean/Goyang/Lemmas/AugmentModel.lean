import Goyang.Model.Process
/-
C07 — a lemma-friendly reformulation of the augment part of `Model/Process.lean`.

`find` first decides, from the registry and the text of the path alone, in which tree the search
runs and which steps it takes (`findTree`); only the step loop (`walkParts`) looks at the forest.
The functions below (`…R`) are the model's `augmentTree` / `augmentPass` / `augmentLoop` with
that first part abstracted into a parameter `R : Res` (tree + step names per augment, namespace
per tree) and with one addition: they also return the *trace* of the run — for every augment
applied, in order: its owner, its entry, the forest it was applied to.  `augmentLoop_eq` says
that erasing the trace gives exactly the model's function when `R = Res.ofReg reg` and the paths
of the pending augments are plain absolute schema node identifiers (no `.`/`..`/empty steps).

The parameter exists for one reason: `String.splitOn` does not reduce in the kernel, so concrete
non-vacuity examples are stated for a table-driven `R`.
-/
namespace Goyang.Lemmas.AugmentModel
open Goyang.Model

/-! ### the part of `find` that does not look at the forest -/

/-- The tree an absolute path is searched in (`none`: the first prefix denotes no loaded
module — Go records an error on the root of the starting tree). -/
def targetTree (reg : Registry) (id ctx : Nat) (parts : List String) : Option Nat :=
  let pfx := (splitPrefix (parts.headD "")).1
  if pfx == "" then
    match reg.byId id with
    | some sm => if sm.isSub then ((reg.owner sm).map (·.seq)).getD id else id
    | none => some id
  else
  match reg.byId ctx with
  | none => none
  | some cm =>
    match reg.findModuleByPrefix cm pfx with
    | none => none
    | some m => (reg.owner m).map (·.seq)

/-- How `find` starts, for a start location at the root of tree `id`. -/
inductive Start where
  | noName                                   -- empty path: nothing happens
  | badPrefix                                -- unresolvable first prefix: error on the root of `id`
  | go (t : Nat) (parts : List String)       -- walk `parts` from the root of tree `t`

def findStart (reg : Registry) (id ctx : Nat) (name : String) : Start :=
  if name == "" then .noName else
  let parts0 := name.splitOn "/"
  if parts0.head? = some "" then
    match targetTree reg id ctx parts0.tail with
    | none => .badPrefix
    | some t => .go t parts0.tail
  else .go id parts0

/-- Go: `e.addError(…)` on the root of the starting tree. -/
def addOther (f : Forest) (id : Nat) : Forest :=
  match f.tree? id with
  | some root => f.setTree id (root.addErr (Err.bare "other"))
  | none => f

theorem find_eq (reg : Registry) (f : Forest) (id ctx : Nat) (name : String) :
    find reg f (id, []) ctx name =
      match findStart reg id ctx name with
      | .noName => (none, f)
      | .badPrefix => (none, addOther f id)
      | .go t parts =>
        match f.tree? t with
        | none => (none, f)
        | some root =>
          let r := walkParts parts root (some [])
          (r.1.map (t, ·), f.setTree t r.2) := by
  unfold find findStart
  by_cases hn : (name == "") = true
  · simp [hn]
  · simp only [hn, Bool.false_eq_true, if_false]
    cases hsp : name.splitOn "/" with
    | nil => rfl
    | cons x parts =>
      by_cases hx : x = ""
      · subst hx
        simp only [List.head?_cons, if_true, List.tail_cons, targetTree, addOther]
        by_cases hp : ((splitPrefix (parts.headD "")).fst == "") = true
        · simp only [hp, if_true]
          cases reg.byId id with
          | none => rfl
          | some sm =>
            simp only
            by_cases hs : sm.isSub = true
            · simp only [hs, if_true]
              cases reg.owner sm with
              | none => rfl
              | some o => rfl
            · simp only [hs, Bool.false_eq_true, if_false]; rfl
        · simp only [hp, Bool.false_eq_true, if_false]
          cases reg.byId ctx with
          | none => rfl
          | some cm =>
            simp only
            cases reg.findModuleByPrefix cm (splitPrefix (parts.headD "")).fst with
            | none => rfl
            | some m =>
              simp only
              cases reg.owner m with
              | none => rfl
              | some o => rfl
      · have hne : ¬ (some x = some "") := by simpa using hx
        simp only [List.head?_cons, hne, if_false]
        split
        · rename_i ps h; simp at h; exact absurd h.1 hx
        · rfl

/-! ### the step loop on plain names -/

/-- Go: the `RPC.Input == nil` branch of `Find`. -/
def matIn (e : Entry) : Entry := match e with | .mk d c _ o => .mk d c [implicitIO e true] o
def matOut (e : Entry) : Entry := match e with | .mk d c i _ => .mk d c i [implicitIO e false]

/-- `walkParts` for steps that are plain names (prefix already stripped; not `.`, `..`, empty). -/
def walkN : (names : List String) → (root : Entry) → (cur : Option Path) → Option Path × Entry
  | [], root, cur => (cur, root)
  | nm :: rest, root, cur =>
    match cur with
    | none => (none, root)
    | some p =>
      match root.getAt p with
      | none => (none, root)
      | some e =>
        if e.d.isRpc then
          if nm == "input" then
            walkN rest (if e.inp.isEmpty then root.updateAt p matIn else root) (some (p ++ [.input]))
          else if nm == "output" then
            walkN rest (if e.out.isEmpty then root.updateAt p matOut else root) (some (p ++ [.output]))
          else (none, root)
        else
          match e.child? nm with
          | some _ => walkN rest root (some (p ++ [.child nm]))
          | none => walkN rest root none

theorem walkN_none (names : List String) (root : Entry) : walkN names root none = (none, root) := by
  cases names <;> rfl

/-- A step of an absolute schema node identifier: not `.` or `..`, and a non-empty name other
than `.`/`..` behind the prefix. -/
def PlainPart (part : String) : Prop :=
  part ≠ "." ∧ part ≠ ".." ∧ stripPrefix part ≠ "." ∧ stripPrefix part ≠ "" ∧ stripPrefix part ≠ ".."

theorem walkParts_eq_walkN (parts : List String) (hp : ∀ p ∈ parts, PlainPart p) (root : Entry) (cur : Option Path) :
    walkParts parts root cur = walkN (parts.map stripPrefix) root cur := by
  induction parts generalizing root cur with
  | nil => rfl
  | cons part rest ih =>
    have hpl := hp part (by simp)
    have ihr := fun root cur => ih (fun p h => hp p (by simp [h])) root cur
    obtain ⟨h1, h2, h3, h4, h5⟩ := hpl
    simp only [walkParts, List.map_cons, walkN]
    cases cur with
    | none => rfl
    | some p =>
      simp only
      cases root.getAt p with
      | none => rfl
      | some e =>
        have e1 : (part == ".") = false := by simpa using h1
        have e2 : (part == "..") = false := by simpa using h2
        have e3 : (stripPrefix part == ".") = false := by simpa using h3
        have e4 : (stripPrefix part == "") = false := by simpa using h4
        have e5 : (stripPrefix part == "..") = false := by simpa using h5
        simp only [e1, e2, e3, e4, e5, Bool.false_eq_true, if_false, Bool.or_self]
        by_cases hr : e.d.isRpc = true
        · simp only [hr, if_true]
          by_cases hi : (stripPrefix part == "input") = true
          · simp only [hi, if_true]
            rw [ihr]; rfl
          · simp only [hi, Bool.false_eq_true, if_false]
            by_cases ho : (stripPrefix part == "output") = true
            · simp only [ho, if_true]
              rw [ihr]; rfl
            · simp only [ho, Bool.false_eq_true, if_false]
        · simp only [hr, Bool.false_eq_true, if_false]
          cases e.child? (stripPrefix part) with
          | none => simp only; rw [ihr]
          | some c => simp only; rw [ihr]

/-! ### the parametrised, trace-producing loop -/

/-- Where an augment goes, decided without looking at the forest. -/
inductive Tgt where
  | noName
  | badPrefix
  | go (t : Nat) (names : List String)

structure Res where
  /-- per (owner tree, augment entry): the target tree and the step names -/
  tgt : Nat → Entry → Tgt
  /-- namespace of the module that owns tree `id` -/
  ns : Nat → String

/-- The registry's resolution. -/
def Res.ofReg (reg : Registry) : Res where
  tgt := fun id a =>
    match findStart reg id a.d.nodeMod a.d.name with
    | .noName => .noName
    | .badPrefix => .badPrefix
    | .go t parts => .go t (parts.map stripPrefix)
  ns := fun id =>
    match reg.byId id with
    | none => ""
    | some m =>
      match reg.owner m with
      | some o => (o.stmt.argOf? "namespace").getD ""
      | none => ""

def findR (R : Res) (id : Nat) (a : Entry) (f : Forest) : Option Loc × Forest :=
  match R.tgt id a with
  | .noName => (none, f)
  | .badPrefix => (none, addOther f id)
  | .go t names =>
    match f.tree? t with
    | none => (none, f)
    | some root =>
      let r := walkN names root (some [])
      (r.1.map (t, ·), f.setTree t r.2)

/-- The path of every step is plain. -/
def PlainAug (reg : Registry) (id : Nat) (a : Entry) : Prop :=
  match findStart reg id a.d.nodeMod a.d.name with
  | .go _ parts => ∀ p ∈ parts, PlainPart p
  | _ => True

theorem find_eq_findR (reg : Registry) (f : Forest) (id : Nat) (a : Entry) (hp : PlainAug reg id a) :
    find reg f (id, []) a.d.nodeMod a.d.name = findR (Res.ofReg reg) id a f := by
  rw [find_eq]
  unfold findR Res.ofReg PlainAug at *
  cases h : findStart reg id a.d.nodeMod a.d.name with
  | noName => rfl
  | badPrefix => rfl
  | go t parts =>
    simp only [h] at hp
    simp only
    cases f.tree? t with
    | none => rfl
    | some root => simp only [walkParts_eq_walkN parts hp]

/-- One applied augment: owner tree, augment entry, the forest it was applied to. -/
structure Ev where
  owner : Nat
  aug : Entry
  before : Forest

/-- The namespace `augmentTree` stamps with (Go: `a.Namespace()` of an augment entry, whose
parent is the module entry). -/
def nsOfR (R : Res) (f : Forest) (id : Nat) : String :=
  match f.tree? id with
  | none => ""
  | some _ => R.ns id

/-- Go: the `if addErrors { e.errorf(…) }` of a skipped augment. -/
def failForest (id : Nat) (addErrors : Bool) (a : Entry) (f : Forest) : Forest :=
  if addErrors then
    match f.tree? id with
    | some root => f.setTree id (root.addErr (Err.at_ a.d.node "augment-not-found"))
    | none => f
  else f

/-- One iteration of the loop in `Entry.Augment`: the forest afterwards, and whether the augment
was applied. -/
def attemptR (R : Res) (id : Nat) (addErrors : Bool) (nsOf : String) (a : Entry) (f : Forest) : Forest × Bool :=
  let r := findR R id a f
  let f := r.2
  match r.1 with
  | none => (failForest id addErrors a f, false)
  | some (t, path) =>
    match (f.tree? t).bind (·.getAt path) with
    | none => (failForest id addErrors a f, false)
    | some te =>
      if cannotHaveChildren te then (failForest id addErrors a f, false) else
      match f.tree? t with
      | none => (failForest id addErrors a f, false)
      | some root => (f.setTree t (root.updateAt path fun te => te.merge (some nsOf) a), true)

/-- Fold state of `augmentTreeR`: forest, unapplied, processed, skipped, trace (newest last). -/
structure Acc where
  forest : Forest
  unapplied : List Entry
  p : Nat
  k : Nat
  trace : List Ev

def stepR (R : Res) (id : Nat) (addErrors : Bool) (nsOf : String) (acc : Acc) (a : Entry) : Acc :=
  let r := attemptR R id addErrors nsOf a acc.forest
  if r.2 then { acc with forest := r.1, p := acc.p + 1, trace := acc.trace ++ [⟨id, a, acc.forest⟩] }
  else { acc with forest := r.1, unapplied := acc.unapplied ++ [a], k := acc.k + 1 }

def augmentTreeR (R : Res) (id : Nat) (addErrors : Bool) (s : PState) : PState × Nat × Nat × List Ev :=
  let acc := (s.pendingOf id).foldl (stepR R id addErrors (nsOfR R s.forest id)) ⟨s.forest, [], 0, 0, []⟩
  (({ s with forest := acc.forest } : PState).setPending id acc.unapplied, acc.p, acc.k, acc.trace)

def augmentPassR (R : Res) : (fuel : Nat) → (mods : Array Nat) → (i : Nat) → (processed : Nat) → PState → List Ev →
    Array Nat × Nat × PState × List Ev
  | 0, mods, _, processed, s, tr => (mods, processed, s, tr)
  | fuel + 1, mods, i, processed, s, tr =>
    if h : i < mods.size then
      let r := augmentTreeR R mods[i] false s
      if r.2.2.1 == 0 then
        augmentPassR R fuel ((mods.set i (mods.back?.getD 0) h).pop) i (processed + r.2.1) r.1 (tr ++ r.2.2.2)
      else augmentPassR R fuel mods (i + 1) (processed + r.2.1) r.1 (tr ++ r.2.2.2)
    else (mods, processed, s, tr)

def augmentLoopR (R : Res) : (fuel : Nat) → Array Nat → PState → List Ev → Array Nat × PState × List Ev
  | 0, mods, s, tr => (mods, s, tr)
  | fuel + 1, mods, s, tr =>
    if mods.isEmpty then (mods, s, tr) else
    let r := augmentPassR R (mods.size + 1) mods 0 0 s tr
    if r.2.1 == 0 then (r.1, r.2.2.1, r.2.2.2) else augmentLoopR R fuel r.1 r.2.2.1 r.2.2.2

/-! ### erasing the trace gives the model's functions -/

/-- All pending augments have plain paths. -/
def PlainPending (reg : Registry) (s : PState) : Prop := ∀ id, ∀ a ∈ s.pendingOf id, PlainAug reg id a

theorem nsOfR_eq (reg : Registry) (f : Forest) (id : Nat) : namespaceAt reg f (id, []) = nsOfR (Res.ofReg reg) f id := by
  unfold namespaceAt nsOfR Res.ofReg
  cases f.tree? id with
  | none => rfl
  | some root => simp [Entry.stampAt, Entry.stampAt.go]

/-- The model's fold body, named. -/
def stepM (reg : Registry) (id : Nat) (addErrors : Bool) (nsOf : String) (acc : PState × List Entry × Nat × Nat) (a : Entry) :
    PState × List Entry × Nat × Nat :=
  let (s, unapplied, p, k) := acc
  let (target, forest) := find reg s.forest (id, []) a.d.nodeMod a.d.name
  let s := { s with forest := forest }
  let fail (s : PState) : PState × List Entry × Nat × Nat :=
    let s := if addErrors then
        match s.forest.tree? id with
        | some root => { s with forest := s.forest.setTree id (root.addErr (Err.at_ a.d.node "augment-not-found")) }
        | none => s
      else s
    (s, unapplied ++ [a], p, k + 1)
  match target with
  | none => fail s
  | some (t, path) =>
    match (s.forest.tree? t).bind (·.getAt path) with
    | none => fail s
    | some te =>
      if cannotHaveChildren te then fail s else
      match s.forest.tree? t with
      | none => fail s
      | some root =>
        let root := root.updateAt path fun te => te.merge (some nsOf) a
        ({ s with forest := s.forest.setTree t root }, unapplied, p + 1, k)

theorem augmentTree_unfold (reg : Registry) (id : Nat) (addErrors : Bool) (s : PState) :
    augmentTree reg id addErrors s =
      let r := (s.pendingOf id).foldl (stepM reg id addErrors (namespaceAt reg s.forest (id, []))) (s, [], 0, 0)
      (r.1.setPending id r.2.1, r.2.2.1, r.2.2.2) := rfl

/-- Projection of the R fold state to the model's. -/
def Acc.erase (pend : List (Nat × List Entry)) (acc : Acc) : PState × List Entry × Nat × Nat :=
  ({ forest := acc.forest, pending := pend }, acc.unapplied, acc.p, acc.k)

theorem failForest_eq (id : Nat) (addErrors : Bool) (a : Entry) (f : Forest) (pend : List (Nat × List Entry)) :
    (if addErrors then
        match f.tree? id with
        | some root => ({ forest := f.setTree id (root.addErr (Err.at_ a.d.node "augment-not-found")), pending := pend } : PState)
        | none => { forest := f, pending := pend }
      else { forest := f, pending := pend }) = { forest := failForest id addErrors a f, pending := pend } := by
  unfold failForest
  cases addErrors with
  | false => rfl
  | true =>
    simp only [if_true]
    cases f.tree? id <;> rfl

theorem stepM_eq_stepR (reg : Registry) (id : Nat) (addErrors : Bool) (nsOf : String) (pend : List (Nat × List Entry))
    (acc : Acc) (a : Entry) (hp : PlainAug reg id a) :
    stepM reg id addErrors nsOf (acc.erase pend) a = (stepR (Res.ofReg reg) id addErrors nsOf acc a).erase pend := by
  unfold stepM stepR attemptR Acc.erase
  simp only [find_eq_findR reg acc.forest id a hp]
  generalize findR (Res.ofReg reg) id a acc.forest = r
  obtain ⟨tgt, f⟩ := r
  simp only
  cases tgt with
  | none => simp only [failForest_eq]; rfl
  | some tp =>
    obtain ⟨t, path⟩ := tp
    simp only
    cases hte : (f.tree? t).bind (·.getAt path) with
    | none => simp only [failForest_eq]; rfl
    | some te =>
      simp only
      by_cases hc : cannotHaveChildren te = true
      · simp only [hc, if_true, failForest_eq]; rfl
      · simp only [hc, Bool.false_eq_true, if_false]
        cases f.tree? t with
        | none => simp only [failForest_eq]; rfl
        | some root => rfl

theorem foldl_stepM_eq (reg : Registry) (id : Nat) (addErrors : Bool) (nsOf : String) (pend : List (Nat × List Entry))
    (l : List Entry) (hp : ∀ a ∈ l, PlainAug reg id a) (acc : Acc) :
    l.foldl (stepM reg id addErrors nsOf) (acc.erase pend) =
      (l.foldl (stepR (Res.ofReg reg) id addErrors nsOf) acc).erase pend := by
  induction l generalizing acc with
  | nil => rfl
  | cons a l ih =>
    simp only [List.foldl_cons]
    rw [stepM_eq_stepR reg id addErrors nsOf pend acc a (hp a (by simp))]
    exact ih (fun b hb => hp b (by simp [hb])) _

theorem augmentTree_eq (reg : Registry) (id : Nat) (addErrors : Bool) (s : PState)
    (hp : ∀ a ∈ s.pendingOf id, PlainAug reg id a) :
    augmentTree reg id addErrors s =
      let r := augmentTreeR (Res.ofReg reg) id addErrors s
      (r.1, r.2.1, r.2.2.1) := by
  rw [augmentTree_unfold]
  unfold augmentTreeR
  simp only [nsOfR_eq]
  have := foldl_stepM_eq reg id addErrors (nsOfR (Res.ofReg reg) s.forest id) s.pending (s.pendingOf id) hp
    ⟨s.forest, [], 0, 0, []⟩
  have hs : (⟨s.forest, [], 0, 0, []⟩ : Acc).erase s.pending = (s, [], 0, 0) := by
    cases s; rfl
  rw [hs] at this
  rw [this]
  rfl

end Goyang.Lemmas.AugmentModel
