import Goyang.Model.Process
/-
C07 — a lemma-friendly reformulation of the augment part of `Model/Process.lean`.

`find` first decides, from the registry and the text of the path alone, in which tree the search
runs and which steps it takes (`findTree`); only the step loop (`walkParts`) looks at the forest.
The functions below (`…R`) are the model's `augmentTree` / `augmentPass` / `augmentLoop` with
that first part abstracted into a parameter `R : Res` (tree + step names per augment, namespace
per tree) and with one addition: they also return the *trace* of the run — for every augment
applied, in order: its owner, its entry, the forest it was applied to.  `augmentLoop_eq` says
that erasing the trace gives exactly the model's function when `R = Res.ofReg reg` and the paths
of the pending augments are plain absolute schema node identifiers (no `.`/`..`/empty steps).

The parameter exists for one reason: `String.splitOn` does not reduce in the kernel, so concrete
non-vacuity examples are stated for a table-driven `R`.
-/
namespace Goyang.Lemmas.AugmentModel
open Goyang.Model

/-! ### the part of `find` that does not look at the forest -/

/-- The tree an absolute path is searched in (`none`: the first prefix denotes no loaded
module — Go records an error on the root of the starting tree). -/
def targetTree (reg : Registry) (id ctx : Nat) (parts : List String) : Option Nat :=
  let pfx := (splitPrefix (parts.headD "")).1
  if pfx == "" then
    match reg.byId id with
    | some sm => if sm.isSub then ((reg.owner sm).map (·.seq)).getD id else id
    | none => some id
  else
  match reg.byId ctx with
  | none => none
  | some cm =>
    match reg.findModuleByPrefix cm pfx with
    | none => none
    | some m => (reg.owner m).map (·.seq)

/-- How `find` starts, for a start location at the root of tree `id`. -/
inductive Start where
  | noName                                   -- empty path: nothing happens
  | badPrefix                                -- unresolvable first prefix: error on the root of `id`
  | go (t : Nat) (parts : List String)       -- walk `parts` from the root of tree `t`

def findStart (reg : Registry) (id ctx : Nat) (name : String) : Start :=
  if name == "" then .noName else
  let parts0 := name.splitOn "/"
  if parts0.head? = some "" then
    match targetTree reg id ctx parts0.tail with
    | none => .badPrefix
    | some t => .go t parts0.tail
  else .go id parts0

/-- Go: `e.addError(…)` on the root of the starting tree. -/
def addOther (f : Forest) (id : Nat) : Forest :=
  match f.tree? id with
  | some root => f.setTree id (root.addErr (Err.bare "other"))
  | none => f

theorem find_eq (reg : Registry) (f : Forest) (id ctx : Nat) (name : String) :
    find reg f (id, []) ctx name =
      match findStart reg id ctx name with
      | .noName => (none, f)
      | .badPrefix => (none, addOther f id)
      | .go t parts =>
        match f.tree? t with
        | none => (none, f)
        | some root =>
          let r := walkParts parts root (some [])
          (r.1.map (t, ·), f.setTree t r.2) := by
  unfold find findStart
  by_cases hn : (name == "") = true
  · simp [hn]
  · simp only [hn, Bool.false_eq_true, if_false]
    cases hsp : name.splitOn "/" with
    | nil => rfl
    | cons x parts =>
      by_cases hx : x = ""
      · subst hx
        simp only [List.head?_cons, if_true, List.tail_cons, targetTree, addOther]
        by_cases hp : ((splitPrefix (parts.headD "")).fst == "") = true
        · simp only [hp, if_true]
          cases reg.byId id with
          | none => rfl
          | some sm =>
            simp only
            by_cases hs : sm.isSub = true
            · simp only [hs, if_true]
              cases reg.owner sm with
              | none => rfl
              | some o => rfl
            · simp only [hs, Bool.false_eq_true, if_false]; rfl
        · simp only [hp, Bool.false_eq_true, if_false]
          cases reg.byId ctx with
          | none => rfl
          | some cm =>
            simp only
            cases reg.findModuleByPrefix cm (splitPrefix (parts.headD "")).fst with
            | none => rfl
            | some m =>
              simp only
              cases reg.owner m with
              | none => rfl
              | some o => rfl
      · have hne : ¬ (some x = some "") := by simpa using hx
        simp only [List.head?_cons, hne, if_false]
        split
        · rename_i ps h; simp at h; exact absurd h.1 hx
        · rfl

/-! ### the step loop on plain names -/

/-- Go: the `RPC.Input == nil` branch of `Find`. -/
def matIn (e : Entry) : Entry := match e with | .mk d c _ o => .mk d c [implicitIO e true] o
def matOut (e : Entry) : Entry := match e with | .mk d c i _ => .mk d c i [implicitIO e false]

/-- `walkParts` for steps that are plain names (prefix already stripped; not `.`, `..`, empty). -/
def walkN : (names : List String) → (root : Entry) → (cur : Option Path) → Option Path × Entry
  | [], root, cur => (cur, root)
  | nm :: rest, root, cur =>
    match cur with
    | none => (none, root)
    | some p =>
      match root.getAt p with
      | none => (none, root)
      | some e =>
        if e.d.isRpc then
          if nm == "input" then
            walkN rest (if e.inp.isEmpty then root.updateAt p matIn else root) (some (p ++ [.input]))
          else if nm == "output" then
            walkN rest (if e.out.isEmpty then root.updateAt p matOut else root) (some (p ++ [.output]))
          else (none, root)
        else
          match e.child? nm with
          | some _ => walkN rest root (some (p ++ [.child nm]))
          | none => walkN rest root none

theorem walkN_none (names : List String) (root : Entry) : walkN names root none = (none, root) := by
  cases names <;> rfl

/-- A step of an absolute schema node identifier: not `.` or `..`, and a non-empty name other
than `.`/`..` behind the prefix. -/
def PlainPart (part : String) : Prop :=
  part ≠ "." ∧ part ≠ ".." ∧ stripPrefix part ≠ "." ∧ stripPrefix part ≠ "" ∧ stripPrefix part ≠ ".."

theorem walkParts_eq_walkN (parts : List String) (hp : ∀ p ∈ parts, PlainPart p) (root : Entry) (cur : Option Path) :
    walkParts parts root cur = walkN (parts.map stripPrefix) root cur := by
  induction parts generalizing root cur with
  | nil => rfl
  | cons part rest ih =>
    have hpl := hp part (by simp)
    have ihr := fun root cur => ih (fun p h => hp p (by simp [h])) root cur
    obtain ⟨h1, h2, h3, h4, h5⟩ := hpl
    simp only [walkParts, List.map_cons, walkN]
    cases cur with
    | none => rfl
    | some p =>
      simp only
      cases root.getAt p with
      | none => rfl
      | some e =>
        have e1 : (part == ".") = false := by simpa using h1
        have e2 : (part == "..") = false := by simpa using h2
        have e3 : (stripPrefix part == ".") = false := by simpa using h3
        have e4 : (stripPrefix part == "") = false := by simpa using h4
        have e5 : (stripPrefix part == "..") = false := by simpa using h5
        simp only [e1, e2, e3, e4, e5, Bool.false_eq_true, if_false, Bool.or_self]
        by_cases hr : e.d.isRpc = true
        · simp only [hr, if_true]
          by_cases hi : (stripPrefix part == "input") = true
          · simp only [hi, if_true]
            rw [ihr]; rfl
          · simp only [hi, Bool.false_eq_true, if_false]
            by_cases ho : (stripPrefix part == "output") = true
            · simp only [ho, if_true]
              rw [ihr]; rfl
            · simp only [ho, Bool.false_eq_true, if_false]
        · simp only [hr, Bool.false_eq_true, if_false]
          cases e.child? (stripPrefix part) with
          | none => simp only; rw [ihr]
          | some c => simp only; rw [ihr]

/-! ### the parametrised, trace-producing loop -/

/-- Where an augment goes, decided without looking at the forest. -/
inductive Tgt where
  | noName
  | badPrefix
  | go (t : Nat) (names : List String)

structure Res where
  /-- per (owner tree, augment entry): the target tree and the step names -/
  tgt : Nat → Entry → Tgt
  /-- namespace of the module that owns tree `id` -/
  ns : Nat → String

/-- The registry's resolution. -/
def Res.ofReg (reg : Registry) : Res where
  tgt := fun id a =>
    match findStart reg id a.d.nodeMod a.d.name with
    | .noName => .noName
    | .badPrefix => .badPrefix
    | .go t parts => .go t (parts.map stripPrefix)
  ns := fun id =>
    match reg.byId id with
    | none => ""
    | some m =>
      match reg.owner m with
      | some o => (o.stmt.argOf? "namespace").getD ""
      | none => ""

def findR (R : Res) (id : Nat) (a : Entry) (f : Forest) : Option Loc × Forest :=
  match R.tgt id a with
  | .noName => (none, f)
  | .badPrefix => (none, addOther f id)
  | .go t names =>
    match f.tree? t with
    | none => (none, f)
    | some root =>
      let r := walkN names root (some [])
      (r.1.map (t, ·), f.setTree t r.2)

/-- The path of every step is plain. -/
def PlainAug (reg : Registry) (id : Nat) (a : Entry) : Prop :=
  match findStart reg id a.d.nodeMod a.d.name with
  | .go _ parts => ∀ p ∈ parts, PlainPart p
  | _ => True

theorem find_eq_findR (reg : Registry) (f : Forest) (id : Nat) (a : Entry) (hp : PlainAug reg id a) :
    find reg f (id, []) a.d.nodeMod a.d.name = findR (Res.ofReg reg) id a f := by
  rw [find_eq]
  unfold findR Res.ofReg PlainAug at *
  cases h : findStart reg id a.d.nodeMod a.d.name with
  | noName => simp only [h]
  | badPrefix => simp only [h]
  | go t parts =>
    simp only [h] at hp ⊢
    cases f.tree? t with
    | none => rfl
    | some root => simp only [walkParts_eq_walkN parts hp]

/-- One applied augment: owner tree, augment entry, the forest it was applied to. -/
structure Ev where
  owner : Nat
  aug : Entry
  before : Forest

/-- The namespace `augmentTree` stamps with (Go: `a.Namespace()` of an augment entry, whose
parent is the module entry). -/
def nsOfR (R : Res) (f : Forest) (id : Nat) : String :=
  match f.tree? id with
  | none => ""
  | some _ => R.ns id

/-- Go: the `if addErrors { e.errorf(…) }` of a skipped augment. -/
def failForest (id : Nat) (addErrors : Bool) (a : Entry) (f : Forest) : Forest :=
  if addErrors then
    match f.tree? id with
    | some root => f.setTree id (root.addErr (Err.at_ a.d.node "augment-not-found"))
    | none => f
  else f

/-- One iteration of the loop in `Entry.Augment`: the forest afterwards, and whether the augment
was applied. -/
def attemptR (R : Res) (id : Nat) (addErrors : Bool) (nsOf : String) (a : Entry) (f : Forest) : Forest × Bool :=
  let r := findR R id a f
  let f := r.2
  match r.1 with
  | none => (failForest id addErrors a f, false)
  | some (t, path) =>
    match (f.tree? t).bind (·.getAt path) with
    | none => (failForest id addErrors a f, false)
    | some te =>
      if cannotHaveChildren te then (failForest id addErrors a f, false) else
      match f.tree? t with
      | none => (failForest id addErrors a f, false)
      | some root => (f.setTree t (root.updateAt path fun te => te.merge (some nsOf) a), true)

/-- Fold state of `augmentTreeR`: forest, unapplied, processed, skipped, trace (newest last). -/
structure Acc where
  forest : Forest
  unapplied : List Entry
  p : Nat
  k : Nat
  trace : List Ev

def stepR (R : Res) (id : Nat) (addErrors : Bool) (nsOf : String) (acc : Acc) (a : Entry) : Acc :=
  let r := attemptR R id addErrors nsOf a acc.forest
  if r.2 then { acc with forest := r.1, p := acc.p + 1, trace := acc.trace ++ [⟨id, a, acc.forest⟩] }
  else { acc with forest := r.1, unapplied := acc.unapplied ++ [a], k := acc.k + 1 }

def augmentTreeR (R : Res) (id : Nat) (addErrors : Bool) (s : PState) : PState × Nat × Nat × List Ev :=
  let acc := (s.pendingOf id).foldl (stepR R id addErrors (nsOfR R s.forest id)) ⟨s.forest, [], 0, 0, []⟩
  (({ s with forest := acc.forest } : PState).setPending id acc.unapplied, acc.p, acc.k, acc.trace)

def augmentPassR (R : Res) : (fuel : Nat) → (mods : Array Nat) → (i : Nat) → (processed : Nat) → PState → List Ev →
    Array Nat × Nat × PState × List Ev
  | 0, mods, _, processed, s, tr => (mods, processed, s, tr)
  | fuel + 1, mods, i, processed, s, tr =>
    if h : i < mods.size then
      let r := augmentTreeR R mods[i] false s
      if r.2.2.1 == 0 then
        augmentPassR R fuel ((mods.set i (mods.back?.getD 0) h).pop) i (processed + r.2.1) r.1 (tr ++ r.2.2.2)
      else augmentPassR R fuel mods (i + 1) (processed + r.2.1) r.1 (tr ++ r.2.2.2)
    else (mods, processed, s, tr)

def augmentLoopR (R : Res) : (fuel : Nat) → Array Nat → PState → List Ev → Array Nat × PState × List Ev
  | 0, mods, s, tr => (mods, s, tr)
  | fuel + 1, mods, s, tr =>
    if mods.isEmpty then (mods, s, tr) else
    let r := augmentPassR R (mods.size + 1) mods 0 0 s tr
    if r.2.1 == 0 then (r.1, r.2.2.1, r.2.2.2) else augmentLoopR R fuel r.1 r.2.2.1 r.2.2.2

/-! ### erasing the trace gives the model's functions -/

/-- All pending augments have plain paths. -/
def PlainPending (reg : Registry) (s : PState) : Prop := ∀ id, ∀ a ∈ s.pendingOf id, PlainAug reg id a

theorem nsOfR_eq (reg : Registry) (f : Forest) (id : Nat) : namespaceAt reg f (id, []) = nsOfR (Res.ofReg reg) f id := by
  unfold namespaceAt nsOfR Res.ofReg
  cases f.tree? id with
  | none => rfl
  | some root => simp [Entry.stampAt, Entry.stampAt.go]; rfl

/-- The model's fold body, named. -/
def stepM (reg : Registry) (id : Nat) (addErrors : Bool) (nsOf : String) (acc : PState × List Entry × Nat × Nat) (a : Entry) :
    PState × List Entry × Nat × Nat :=
  let (s, unapplied, p, k) := acc
  let (target, forest) := find reg s.forest (id, []) a.d.nodeMod a.d.name
  let s := { s with forest := forest }
  let fail (s : PState) : PState × List Entry × Nat × Nat :=
    let s := if addErrors then
        match s.forest.tree? id with
        | some root => { s with forest := s.forest.setTree id (root.addErr (Err.at_ a.d.node "augment-not-found")) }
        | none => s
      else s
    (s, unapplied ++ [a], p, k + 1)
  match target with
  | none => fail s
  | some (t, path) =>
    match (s.forest.tree? t).bind (·.getAt path) with
    | none => fail s
    | some te =>
      if cannotHaveChildren te then fail s else
      match s.forest.tree? t with
      | none => fail s
      | some root =>
        let root := root.updateAt path fun te => te.merge (some nsOf) a
        ({ s with forest := s.forest.setTree t root }, unapplied, p + 1, k)

theorem augmentTree_unfold (reg : Registry) (id : Nat) (addErrors : Bool) (s : PState) :
    augmentTree reg id addErrors s =
      let r := (s.pendingOf id).foldl (stepM reg id addErrors (namespaceAt reg s.forest (id, []))) (s, [], 0, 0)
      (r.1.setPending id r.2.1, r.2.2.1, r.2.2.2) := rfl

/-- Projection of the R fold state to the model's. -/
def Acc.erase (pend : List (Nat × List Entry)) (acc : Acc) : PState × List Entry × Nat × Nat :=
  ({ forest := acc.forest, pending := pend }, acc.unapplied, acc.p, acc.k)

theorem failForest_eq (id : Nat) (addErrors : Bool) (a : Entry) (f : Forest) (pend : List (Nat × List Entry)) :
    (if addErrors then
        match f.tree? id with
        | some root => ({ forest := f.setTree id (root.addErr (Err.at_ a.d.node "augment-not-found")), pending := pend } : PState)
        | none => { forest := f, pending := pend }
      else { forest := f, pending := pend }) = { forest := failForest id addErrors a f, pending := pend } := by
  unfold failForest
  cases addErrors with
  | false => rfl
  | true =>
    simp only [if_true]
    cases f.tree? id <;> rfl

theorem stepM_eq_stepR (reg : Registry) (id : Nat) (addErrors : Bool) (nsOf : String) (pend : List (Nat × List Entry))
    (acc : Acc) (a : Entry) (hp : PlainAug reg id a) :
    stepM reg id addErrors nsOf (acc.erase pend) a = (stepR (Res.ofReg reg) id addErrors nsOf acc a).erase pend := by
  unfold stepM stepR attemptR Acc.erase
  simp only [find_eq_findR reg acc.forest id a hp]
  generalize findR (Res.ofReg reg) id a acc.forest = r
  obtain ⟨tgt, f⟩ := r
  simp only
  cases tgt with
  | none => simp only [failForest_eq]; rfl
  | some tp =>
    obtain ⟨t, path⟩ := tp
    simp only
    cases hte : (f.tree? t).bind (·.getAt path) with
    | none => simp only [failForest_eq]; rfl
    | some te =>
      simp only
      by_cases hc : cannotHaveChildren te = true
      · simp only [hc, if_true, failForest_eq]; rfl
      · simp only [hc, Bool.false_eq_true, if_false]
        cases f.tree? t with
        | none => simp only [failForest_eq]; rfl
        | some root => rfl

theorem foldl_stepM_eq (reg : Registry) (id : Nat) (addErrors : Bool) (nsOf : String) (pend : List (Nat × List Entry))
    (l : List Entry) (hp : ∀ a ∈ l, PlainAug reg id a) (acc : Acc) :
    l.foldl (stepM reg id addErrors nsOf) (acc.erase pend) =
      (l.foldl (stepR (Res.ofReg reg) id addErrors nsOf) acc).erase pend := by
  induction l generalizing acc with
  | nil => rfl
  | cons a l ih =>
    simp only [List.foldl_cons]
    rw [stepM_eq_stepR reg id addErrors nsOf pend acc a (hp a (by simp))]
    exact ih (fun b hb => hp b (by simp [hb])) _

theorem augmentTree_eq (reg : Registry) (id : Nat) (addErrors : Bool) (s : PState)
    (hp : ∀ a ∈ s.pendingOf id, PlainAug reg id a) :
    augmentTree reg id addErrors s =
      let r := augmentTreeR (Res.ofReg reg) id addErrors s
      (r.1, r.2.1, r.2.2.1) := by
  rw [augmentTree_unfold]
  unfold augmentTreeR
  simp only [nsOfR_eq]
  have := foldl_stepM_eq reg id addErrors (nsOfR (Res.ofReg reg) s.forest id) s.pending (s.pendingOf id) hp
    ⟨s.forest, [], 0, 0, []⟩
  have hs : (⟨s.forest, [], 0, 0, []⟩ : Acc).erase s.pending = (s, [], 0, 0) := by
    cases s; rfl
  rw [hs] at this
  rw [this]
  rfl

/-! ### what one `augmentTreeR` call does, as a relation -/

/-- `FoldRel … f l f' U tr`: attempting the augments `l` in order from forest `f` ends in `f'`,
leaves `U` unapplied (in order) and applies the events `tr` (in order). -/
inductive FoldRel (R : Res) (id : Nat) (addErrors : Bool) (nsOf : String) :
    Forest → List Entry → Forest → List Entry → List Ev → Prop
  | nil (f : Forest) : FoldRel R id addErrors nsOf f [] f [] []
  | fail {f f' f'' : Forest} {a : Entry} {l U : List Entry} {tr : List Ev} :
      attemptR R id addErrors nsOf a f = (f', false) → FoldRel R id addErrors nsOf f' l f'' U tr →
      FoldRel R id addErrors nsOf f (a :: l) f'' (a :: U) tr
  | ok {f f' f'' : Forest} {a : Entry} {l U : List Entry} {tr : List Ev} :
      attemptR R id addErrors nsOf a f = (f', true) → FoldRel R id addErrors nsOf f' l f'' U tr →
      FoldRel R id addErrors nsOf f (a :: l) f'' U (⟨id, a, f⟩ :: tr)

theorem foldl_stepR_rel (R : Res) (id : Nat) (addErrors : Bool) (nsOf : String) (l : List Entry) (acc : Acc) :
    ∃ f'' U tr, FoldRel R id addErrors nsOf acc.forest l f'' U tr ∧
      l.foldl (stepR R id addErrors nsOf) acc =
        ⟨f'', acc.unapplied ++ U, acc.p + tr.length, acc.k + U.length, acc.trace ++ tr⟩ := by
  induction l generalizing acc with
  | nil => exact ⟨acc.forest, [], [], FoldRel.nil _, by simp⟩
  | cons a l ih =>
    simp only [List.foldl_cons]
    cases hr : attemptR R id addErrors nsOf a acc.forest with
    | mk f' b =>
      cases b with
      | false =>
        have hstep : stepR R id addErrors nsOf acc a =
            { acc with forest := f', unapplied := acc.unapplied ++ [a], k := acc.k + 1 } := by
          simp [stepR, hr]
        obtain ⟨f'', U, tr, hrel, heq⟩ := ih { acc with forest := f', unapplied := acc.unapplied ++ [a], k := acc.k + 1 }
        refine ⟨f'', a :: U, tr, FoldRel.fail hr hrel, ?_⟩
        rw [hstep, heq]
        simp [Nat.add_assoc, Nat.add_comm 1]
      | true =>
        have hstep : stepR R id addErrors nsOf acc a =
            { acc with forest := f', p := acc.p + 1, trace := acc.trace ++ [⟨id, a, acc.forest⟩] } := by
          simp [stepR, hr]
        obtain ⟨f'', U, tr, hrel, heq⟩ := ih { acc with forest := f', p := acc.p + 1, trace := acc.trace ++ [⟨id, a, acc.forest⟩] }
        refine ⟨f'', U, ⟨id, a, acc.forest⟩ :: tr, FoldRel.ok hr hrel, ?_⟩
        rw [hstep, heq]
        simp [Nat.add_assoc, Nat.add_comm 1]

namespace FoldRel
variable {R : Res} {id : Nat} {addErrors : Bool} {nsOf : String}

theorem mem_iff {f f' : Forest} {l U : List Entry} {tr : List Ev} (h : FoldRel R id addErrors nsOf f l f' U tr) :
    ∀ a, a ∈ l ↔ a ∈ U ∨ a ∈ tr.map (·.aug) := by
  induction h with
  | nil f => simp
  | fail _ _ ih => intro b; simp [ih b, or_assoc]
  | ok _ _ ih => intro b; simp [ih b]; constructor <;> (rintro (h | h | h) <;> simp [h])

theorem owner {f f' : Forest} {l U : List Entry} {tr : List Ev} (h : FoldRel R id addErrors nsOf f l f' U tr) :
    ∀ ev ∈ tr, ev.owner = id := by
  induction h with
  | nil f => simp
  | fail _ _ ih => exact ih
  | ok _ _ ih => intro ev hev; rcases List.mem_cons.mp hev with rfl | hev; rfl; exact ih ev hev

theorem length_eq {f f' : Forest} {l U : List Entry} {tr : List Ev} (h : FoldRel R id addErrors nsOf f l f' U tr) :
    tr.length + U.length = l.length := by
  induction h with
  | nil f => rfl
  | fail _ _ ih => simp; omega
  | ok _ _ ih => simp; omega

theorem nodup {f f' : Forest} {l U : List Entry} {tr : List Ev} (h : FoldRel R id addErrors nsOf f l f' U tr)
    (hn : l.Nodup) : U.Nodup ∧ (tr.map (·.aug)).Nodup ∧ ∀ a ∈ U, a ∉ tr.map (·.aug) := by
  induction h with
  | nil f => simp
  | @fail f f' f'' a l U tr _ hrel ih =>
    obtain ⟨hna, hnl⟩ := List.nodup_cons.mp hn
    obtain ⟨h1, h2, h3⟩ := ih hnl
    have hmem := hrel.mem_iff
    refine ⟨List.nodup_cons.mpr ⟨fun h => hna ((hmem a).mpr (Or.inl h)), h1⟩, h2, ?_⟩
    intro b hb
    rcases List.mem_cons.mp hb with rfl | hb
    · exact fun h => hna ((hmem b).mpr (Or.inr h))
    · exact h3 b hb
  | @ok f f' f'' a l U tr _ hrel ih =>
    obtain ⟨hna, hnl⟩ := List.nodup_cons.mp hn
    obtain ⟨h1, h2, h3⟩ := ih hnl
    have hmem := hrel.mem_iff
    refine ⟨h1, ?_, ?_⟩
    · simp only [List.map_cons, List.nodup_cons]
      exact ⟨fun h => hna ((hmem a).mpr (Or.inr h)), h2⟩
    · intro b hb
      simp only [List.map_cons, List.mem_cons, not_or]
      exact ⟨fun h => hna (h ▸ (hmem b).mpr (Or.inl hb)), h3 b hb⟩

end FoldRel

/-! ### pending bookkeeping -/

theorem find?_map_fst {β : Type} (g : Nat × β → Nat × β) (hg : ∀ x, (g x).1 = x.1) (l : List (Nat × β)) (k : Nat) :
    (l.map g).find? (·.1 == k) = (l.find? (·.1 == k)).map g := by
  induction l with
  | nil => rfl
  | cons x xs ih =>
    rw [List.map_cons, List.find?_cons, List.find?_cons, hg]
    cases h : (x.1 == k)
    · exact ih
    · rfl

theorem pendingOf_setPending (s : PState) (id : Nat) (l : List Entry) (id' : Nat) :
    (s.setPending id l).pendingOf id' =
      if id' = id then (if (s.pending.find? (·.1 == id)).isSome then l else []) else s.pendingOf id' := by
  unfold PState.setPending PState.pendingOf
  simp only
  have hfun : (fun (x : Nat × List Entry) => match x with | (i, p) => if i == id then (i, l) else (i, p)) =
      fun (x : Nat × List Entry) => if x.1 == id then (x.1, l) else (x.1, x.2) := by
    funext x; cases x; rfl
  have hg : ∀ x : Nat × List Entry,
      ((fun (x : Nat × List Entry) => if x.1 == id then (x.1, l) else (x.1, x.2)) x).1 = x.1 := by
    intro x; by_cases h : (x.1 == id) = true <;> simp [h]
  rw [hfun, find?_map_fst _ hg]
  by_cases hid : id' = id
  · subst hid
    rw [if_pos rfl]
    cases hf : s.pending.find? (·.1 == id') with
    | none => rfl
    | some x =>
      have h1 : (x.1 == id') = true := by simpa using List.find?_some hf
      simp only [Option.map_some, Option.getD_some, h1, if_true, Option.isSome_some]
  · rw [if_neg hid]
    cases hf : s.pending.find? (·.1 == id') with
    | none => rfl
    | some x =>
      have h1 : x.1 = id' := by simpa using List.find?_some hf
      have h2 : (x.1 == id) = false := by simp [h1, hid]
      simp only [Option.map_some, Option.getD_some, h2, Bool.false_eq_true, if_false]

theorem pendingOf_eq_nil_of_not_found (s : PState) (id : Nat) (h : (s.pending.find? (·.1 == id)).isSome = false) :
    s.pendingOf id = [] := by
  unfold PState.pendingOf
  cases hf : s.pending.find? (·.1 == id) with
  | none => rfl
  | some x => simp [hf] at h

/-- Everything one call of `augmentTreeR` does. -/
theorem augmentTreeR_spec (R : Res) (id : Nat) (addErrors : Bool) (s : PState) :
    ∃ f' U tr, FoldRel R id addErrors (nsOfR R s.forest id) s.forest (s.pendingOf id) f' U tr ∧
      augmentTreeR R id addErrors s = (({ s with forest := f' } : PState).setPending id U, tr.length, U.length, tr) ∧
      (∀ id', ((augmentTreeR R id addErrors s).1).pendingOf id' = if id' = id then U else s.pendingOf id') := by
  obtain ⟨f', U, tr, hrel, heq⟩ := foldl_stepR_rel R id addErrors (nsOfR R s.forest id) (s.pendingOf id) ⟨s.forest, [], 0, 0, []⟩
  have hval : augmentTreeR R id addErrors s = (({ s with forest := f' } : PState).setPending id U, tr.length, U.length, tr) := by
    unfold augmentTreeR
    simp only [heq]
    simp
  refine ⟨f', U, tr, hrel, hval, ?_⟩
  intro id'
  rw [hval]
  simp only
  rw [pendingOf_setPending]
  by_cases hid : id' = id
  · subst hid
    simp only [if_true]
    cases hfound : (s.pending.find? (·.1 == id')).isSome with
    | true => simp
    | false =>
      have hnil : s.pendingOf id' = [] := pendingOf_eq_nil_of_not_found s id' hfound
      have := hrel.length_eq
      rw [hnil] at this
      simp only [List.length_nil] at this
      have hU : U = [] := List.eq_nil_of_length_eq_zero (by omega)
      simp [hU]
  · simp only [hid, if_false]
    rfl

theorem augmentTreeR_pending_sub (R : Res) (id : Nat) (addErrors : Bool) (s : PState) (id' : Nat) :
    ∀ a ∈ ((augmentTreeR R id addErrors s).1).pendingOf id', a ∈ s.pendingOf id' := by
  obtain ⟨f', U, tr, hrel, _, hp⟩ := augmentTreeR_spec R id addErrors s
  intro a ha
  rw [hp] at ha
  by_cases hid : id' = id
  · subst hid
    simp only [if_true] at ha
    exact (hrel.mem_iff a).mpr (Or.inl ha)
  · simpa [hid] using ha

theorem PlainPending.step {reg : Registry} {s : PState} (h : PlainPending reg s) (R : Res) (id : Nat) (addErrors : Bool) :
    PlainPending reg (augmentTreeR R id addErrors s).1 :=
  fun id' a ha => h id' a (augmentTreeR_pending_sub R id addErrors s id' a ha)

theorem augmentPass_eq (reg : Registry) (fuel : Nat) (mods : Array Nat) (i processed : Nat) (s : PState) (tr : List Ev)
    (hp : PlainPending reg s) :
    augmentPass reg fuel mods i processed s =
      let r := augmentPassR (Res.ofReg reg) fuel mods i processed s tr
      (r.1, r.2.1, r.2.2.1) := by
  induction fuel generalizing mods i processed s tr with
  | zero => rfl
  | succ fuel ih =>
    unfold augmentPass augmentPassR
    by_cases h : i < mods.size
    · simp only [h, dite_true]
      rw [augmentTree_eq reg mods[i] false s (hp mods[i])]
      simp only
      have hp' := hp.step (Res.ofReg reg) mods[i] false
      by_cases hk : ((augmentTreeR (Res.ofReg reg) mods[i] false s).2.2.1 == 0) = true
      · simp only [hk, if_true]
        exact ih _ _ _ _ _ hp'
      · simp only [hk, Bool.false_eq_true, if_false]
        exact ih _ _ _ _ _ hp'
    · simp only [h, dite_false]

theorem augmentPassR_pending_sub (R : Res) (fuel : Nat) (mods : Array Nat) (i processed : Nat) (s : PState) (tr : List Ev)
    (id' : Nat) : ∀ a ∈ ((augmentPassR R fuel mods i processed s tr).2.2.1).pendingOf id', a ∈ s.pendingOf id' := by
  induction fuel generalizing mods i processed s tr with
  | zero => intro a ha; exact ha
  | succ fuel ih =>
    unfold augmentPassR
    by_cases h : i < mods.size
    · simp only [h, dite_true]
      by_cases hk : ((augmentTreeR R mods[i] false s).2.2.1 == 0) = true
      · simp only [hk, if_true]
        intro a ha
        exact augmentTreeR_pending_sub R _ false s id' a (ih _ _ _ _ _ a ha)
      · simp only [hk, Bool.false_eq_true, if_false]
        intro a ha
        exact augmentTreeR_pending_sub R _ false s id' a (ih _ _ _ _ _ a ha)
    · simp only [h, dite_false]; intro a ha; exact ha

theorem augmentLoop_eq (reg : Registry) (fuel : Nat) (mods : Array Nat) (s : PState) (tr : List Ev)
    (hp : PlainPending reg s) :
    augmentLoop reg fuel mods s =
      let r := augmentLoopR (Res.ofReg reg) fuel mods s tr
      (r.1, r.2.1) := by
  induction fuel generalizing mods s tr with
  | zero => rfl
  | succ fuel ih =>
    unfold augmentLoop augmentLoopR
    by_cases he : mods.isEmpty = true
    · simp only [he, if_true]
    · simp only [he, Bool.false_eq_true, if_false]
      rw [augmentPass_eq reg (mods.size + 1) mods 0 0 s tr hp]
      simp only
      by_cases h0 : ((augmentPassR (Res.ofReg reg) (mods.size + 1) mods 0 0 s tr).2.1 == 0) = true
      · simp only [h0, if_true]
      · simp only [h0, Bool.false_eq_true, if_false]
        apply ih
        intro id' a ha
        exact hp id' a (augmentPassR_pending_sub _ _ _ _ _ _ _ id' a ha)

theorem augmentLoopR_pending_sub (R : Res) (fuel : Nat) (mods : Array Nat) (s : PState) (tr : List Ev) (id' : Nat) :
    ∀ a ∈ ((augmentLoopR R fuel mods s tr).2.1).pendingOf id', a ∈ s.pendingOf id' := by
  induction fuel generalizing mods s tr with
  | zero => intro a ha; exact ha
  | succ fuel ih =>
    unfold augmentLoopR
    by_cases he : mods.isEmpty = true
    · simp only [he, if_true]; intro a ha; exact ha
    · simp only [he, Bool.false_eq_true, if_false]
      by_cases h0 : ((augmentPassR R (mods.size + 1) mods 0 0 s tr).2.1 == 0) = true
      · simp only [h0, if_true]
        exact augmentPassR_pending_sub R _ _ _ _ _ _ id'
      · simp only [h0, Bool.false_eq_true, if_false]
        intro a ha
        exact augmentPassR_pending_sub R _ _ _ _ _ _ id' a (ih _ _ _ a ha)

end Goyang.Lemmas.AugmentModel
