import Goyang.Lemmas.AugmentTree
/-
C07 — the flat view as a list: `Spec.Augment.paths e` enumerates exactly the locations below `e`
with their data (`mem_paths`), provided child names are distinct at every level (which
`Entry.add` and `Entry.merge` maintain by refusing a second child of a name).
-/
namespace Goyang.Lemmas.AugmentPaths
open Goyang.Model Goyang.Spec.Augment Goyang.Lemmas.AugmentConfl Goyang.Lemmas.AugmentTree

mutual
/-- Child names are distinct at every level of the tree. -/
def NoDupNames : Entry → Prop
  | .mk _ c i o => (c.map (·.name)).Nodup ∧ NoDupNamesL c ∧ NoDupNamesL i ∧ NoDupNamesL o
def NoDupNamesL : List Entry → Prop
  | [] => True
  | e :: es => NoDupNames e ∧ NoDupNamesL es
end

theorem implicitIO_dataAt (e : Entry) (b : Bool) (P : NPath) (d : EData) :
    dataAt (implicitIO e b) P = some d ↔ P = [] ∧ d = nodeData (implicitIO e b).d := by
  cases P with
  | nil => simp [dataAt_nil, eq_comm]
  | cons k r =>
    rw [dataAt_cons]
    have : kid (implicitIO e b) k = none := by simp [kid, implicitIO, Entry.child?]
    simp [this]

mutual
theorem mem_paths : ∀ (e : Entry), NoDupNames e → ∀ (P : NPath) (d : EData), (P, d) ∈ paths e ↔ dataAt e P = some d
  | .mk dd c i o, h, P, d => by
    obtain ⟨hn, hc, hi, ho⟩ := h
    rw [paths]
    cases P with
    | nil =>
      simp only [List.mem_cons, Prod.mk.injEq, true_and, dataAt_nil, mk_d, Option.some.injEq]
      constructor
      · rintro (h | h)
        · exact h.symm
        · exfalso
          by_cases hr : dd.isRpc = true
          · simp only [hr, if_true, List.mem_append] at h
            rcases h with h | h
            · exact nil_not_mem_pathsIO _ _ _ _ h
            · exact nil_not_mem_pathsIO _ _ _ _ h
          · simp only [hr, Bool.false_eq_true, if_false] at h
            exact nil_not_mem_pathsL _ _ h
      · exact fun h => Or.inl h.symm
    | cons k r =>
      simp only [List.mem_cons, Prod.mk.injEq, reduceCtorEq, false_and, false_or]
      rw [dataAt_cons]
      by_cases hr : dd.isRpc = true
      · simp only [hr, if_true, List.mem_append]
        rw [mem_pathsIO "input" _ i hi k r d, mem_pathsIO "output" _ o ho k r d]
        unfold kid
        simp only [mk_d, hr, if_true, mk_inp, mk_out]
        by_cases hk1 : k = "input"
        · subst hk1
          simp only [true_and, beq_self_eq_true, if_true, Option.bind_some]
          have : ¬ ("input" = "output") := by decide
          simp only [this, false_and, or_false]
          cases i with
          | nil =>
            simp only [List.head?_nil, Option.getD_none]
            exact (implicitIO_dataAt _ _ _ _).symm
          | cons x xs => simp
        · by_cases hk2 : k = "output"
          · subst hk2
            have h1 : ("output" == "input") = false := by decide
            simp only [hk1, false_and, false_or, true_and, h1, Bool.false_eq_true, if_false, beq_self_eq_true,
              if_true, Option.bind_some]
            cases o with
            | nil =>
              simp only [List.head?_nil, Option.getD_none]
              exact (implicitIO_dataAt _ _ _ _).symm
            | cons x xs => simp
          · have h1 : (k == "input") = false := by simpa using hk1
            have h2 : (k == "output") = false := by simpa using hk2
            simp [hk1, hk2, h1, h2]
      · simp only [hr, Bool.false_eq_true, if_false]
        rw [mem_pathsL c hc hn k r d]
        rw [kid_nonrpc (by simpa using hr)]
        simp only [Entry.child?, mk_dir]
        cases c.find? (·.name == k) with
        | none => simp
        | some x => simp
theorem nil_not_mem_pathsL : ∀ (l : List Entry) (d : EData), ([], d) ∉ pathsL l
  | [], d => by simp [pathsL]
  | e :: es, d => by
    rw [pathsL]
    simp only [List.mem_append, List.mem_map, Prod.mk.injEq, reduceCtorEq, false_and, and_false, exists_false, false_or]
    exact nil_not_mem_pathsL es d
theorem nil_not_mem_pathsIO : ∀ (k : String) (impl : EData) (l : List Entry) (d : EData), ([], d) ∉ pathsIO k impl l
  | k, impl, [], d => by simp [pathsIO]
  | k, impl, e :: es, d => by simp [pathsIO]
theorem mem_pathsL : ∀ (l : List Entry), NoDupNamesL l → (l.map (·.name)).Nodup → ∀ (k : String) (P : NPath) (d : EData),
    (k :: P, d) ∈ pathsL l ↔ ∃ c, l.find? (·.name == k) = some c ∧ dataAt c P = some d
  | [], _, _, k, P, d => by simp [pathsL]
  | e :: es, h, hn, k, P, d => by
    obtain ⟨he, hes⟩ := h
    simp only [List.map_cons, List.nodup_cons] at hn
    rw [pathsL]
    simp only [List.mem_append, List.mem_map, Prod.mk.injEq, List.cons.injEq]
    rw [mem_pathsL es hes hn.2 k P d, List.find?_cons]
    by_cases hk : e.name = k
    · subst hk
      simp only [beq_self_eq_true]
      constructor
      · rintro (⟨x, hx, ⟨_, rfl⟩, rfl⟩ | ⟨c, hc, _⟩)
        · exact ⟨e, rfl, (mem_paths e he x.1 x.2).mp hx⟩
        · exfalso
          have := List.find?_some hc
          simp only [beq_iff_eq] at this
          exact hn.1 (this ▸ List.mem_map.mpr ⟨c, List.mem_of_find?_eq_some hc, rfl⟩)
      · rintro ⟨c, hc, hd⟩
        simp only [Option.some.injEq] at hc
        subst hc
        exact Or.inl ⟨(P, d), (mem_paths _ he P d).mpr hd, by simp⟩
    · have hb : (e.name == k) = false := by simpa using hk
      simp only [hb]
      constructor
      · rintro (⟨x, _, ⟨h1, _⟩, _⟩ | h)
        · exact absurd h1 hk
        · exact h
      · exact fun h => Or.inr h
theorem mem_pathsIO : ∀ (key : String) (impl : EData) (l : List Entry), NoDupNamesL l → ∀ (k : String) (P : NPath) (d : EData),
    (k :: P, d) ∈ pathsIO key impl l ↔
      (k = key ∧ match l with | [] => (P = [] ∧ d = impl) | e :: _ => dataAt e P = some d)
  | key, impl, [], _, k, P, d => by simp [pathsIO, and_assoc]
  | key, impl, e :: es, h, k, P, d => by
    rw [pathsIO]
    simp only [List.mem_map, Prod.mk.injEq, List.cons.injEq]
    constructor
    · rintro ⟨x, hx, ⟨rfl, rfl⟩, rfl⟩
      exact ⟨rfl, (mem_paths e h.1 x.1 x.2).mp hx⟩
    · rintro ⟨rfl, hd⟩
      exact ⟨(P, d), (mem_paths e h.1 P d).mpr hd, ⟨rfl, rfl⟩, rfl⟩
end

/-! ### attribution below a grafted root: `Namespace()` finds the nearest stamp -/

/-- The node one step below `e` (the `next` of `Entry.stampAt.go`, `Entry.getAt`, …). -/
def stepTo (e : Entry) : Step → Option Entry
  | .child k => e.child? k
  | .input => e.inp.head?
  | .output => e.out.head?

theorem getAt_cons (e : Entry) (s : Step) (p : Path) : e.getAt (s :: p) = (stepTo e s).bind (·.getAt p) := by
  cases s <;> rfl

theorem stampGo_cons (e : Entry) (s : Step) (p : Path) (acc : Option String) :
    Entry.stampAt.go e (s :: p) acc =
      match stepTo e s with
      | some c => Entry.stampAt.go c p (match c.d.ns with | some n => some n | none => acc)
      | none => acc := by
  cases s <;> rfl

theorem stampGo_append : ∀ (p : Path) (e x : Entry) (q : Path) (acc : Option String), e.getAt p = some x →
    Entry.stampAt.go e (p ++ q) acc = Entry.stampAt.go x q (Entry.stampAt.go e p acc)
  | [], e, x, q, acc, h => by
    simp only [Entry.getAt, Option.some.injEq] at h; subst h
    simp [Entry.stampAt.go]
  | s :: p, e, x, q, acc, h => by
    rw [getAt_cons] at h
    rw [List.cons_append, stampGo_cons, stampGo_cons]
    cases hc : stepTo e s with
    | none => simp [hc] at h
    | some c =>
      simp only [hc, Option.bind_some] at h
      exact stampGo_append p c x q _ h

theorem stampGo_at_stamped : ∀ (p : Path) (e x : Entry) (acc : Option String) (n : String), p ≠ [] →
    e.getAt p = some x → x.d.ns = some n → Entry.stampAt.go e p acc = some n
  | [], _, _, _, _, hp, _, _ => absurd rfl hp
  | s :: p, e, x, acc, n, _, h, hn => by
    rw [getAt_cons] at h
    rw [stampGo_cons]
    cases hc : stepTo e s with
    | none => simp [hc] at h
    | some c =>
      simp only [hc, Option.bind_some] at h
      cases p with
      | nil =>
        simp only [Entry.getAt, Option.some.injEq] at h; subst h
        simp [Entry.stampAt.go, hn]
      | cons s' p' => exact stampGo_at_stamped (s' :: p') c x _ n (by simp) h hn

theorem stampGo_unstamped : ∀ (q : Path) (x : Entry) (acc : Option String),
    (∀ q' y, q' ≠ [] → q' <+: q → x.getAt q' = some y → y.d.ns = none) → Entry.stampAt.go x q acc = acc
  | [], _, _, _ => by simp [Entry.stampAt.go]
  | s :: q, x, acc, h => by
    rw [stampGo_cons]
    cases hc : stepTo x s with
    | none => rfl
    | some c =>
      have hcn : c.d.ns = none := h [s] c (by simp) (by simp) (by rw [getAt_cons, hc]; rfl)
      simp only [hcn]
      apply stampGo_unstamped q c acc
      intro q' y hne hpre hget
      exact h (s :: q') y (by simp) (List.cons_prefix_cons.mpr ⟨rfl, hpre⟩) (by rw [getAt_cons, hc]; exact hget)

/-- Below a stamped node, as far as no deeper node carries a stamp of its own, `Namespace()`
(the model's `stampAt`: nearest stamp on the way up, the root excluded) answers that node's stamp. -/
theorem stampAt_below (root x : Entry) (p q : Path) (n : String) (hp : p ≠ []) (hx : root.getAt p = some x)
    (hn : x.d.ns = some n) (hq : ∀ q' y, q' ≠ [] → q' <+: q → x.getAt q' = some y → y.d.ns = none) :
    root.stampAt (p ++ q) = some n := by
  unfold Entry.stampAt
  rw [stampGo_append p root x q none hx, stampGo_at_stamped p root x none n hp hx hn, stampGo_unstamped q x _ hq]

end Goyang.Lemmas.AugmentPaths
