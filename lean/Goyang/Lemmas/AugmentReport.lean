import Goyang.Lemmas.Augment
import Goyang.Lemmas.Rounds
/-
C07 — "…or reported": what happens after the loop in `Modules.Process` (FixChoice, the retry rounds
with FixChoice after every productive one, the reporting sweep with `addErrors`, FixChoice again, the
final error sweep).  An augment that is never applied
leaves an `augment-not-found` error, a collision leaves a `duplicate-node` error, and both reach
the errors `Process` returns.
-/
namespace Goyang.Lemmas.AugmentReport
open Goyang.Model Goyang.Spec.Augment Goyang.Lemmas.AugmentConfl Goyang.Lemmas.AugmentTree
  Goyang.Lemmas.AugmentModel Goyang.Lemmas.AugmentStep Goyang.Lemmas.AugmentLoop Goyang.Lemmas.Augment

/-! ### FixChoice keeps every visible error visible -/

theorem fixChoiceL_eq_map (l : List Entry) : fixChoiceL l = l.map fixChoice := by
  induction l with
  | nil => rfl
  | cons x xs ih => simp [fixChoiceL, ih]

/-- The implicit case `FixChoice` puts around a shorthand member of a choice. -/
def wrap1 (ce : Entry) : Entry :=
  if ce.d.kind == .case_ then ce
  else .mk { name := ce.d.name, kind := .case_, hasDir := true, config := ce.d.config, node := ce.d.node,
             nodeMod := ce.d.nodeMod, nodeKw := "case" } [ce] [] []

theorem wrapCases_eq_map (l : List Entry) : wrapCases l = l.map wrap1 := by
  induction l with
  | nil => rfl
  | cons x xs ih => simp [wrapCases, wrap1, ih]

theorem wrap1_name (ce : Entry) : (wrap1 ce).name = ce.name := by
  unfold wrap1; split <;> rfl

theorem fixChoice_d (e : Entry) : (fixChoice e).d = e.d := by cases e; simp [fixChoice]
theorem fixChoice_name (e : Entry) : (fixChoice e).name = e.name := by simp [Entry.name, fixChoice_d]
theorem fixChoice_inp (e : Entry) : (fixChoice e).inp = e.inp.map fixChoice := by
  cases e; simp [fixChoice, fixChoiceL_eq_map]
theorem fixChoice_out (e : Entry) : (fixChoice e).out = e.out.map fixChoice := by
  cases e; simp [fixChoice, fixChoiceL_eq_map]
theorem fixChoice_dir (e : Entry) :
    (fixChoice e).dir = if e.d.kind == .choice && e.d.errors.isEmpty then (e.dir.map fixChoice).map wrap1
      else e.dir.map fixChoice := by
  cases e; simp [fixChoice, fixChoiceL_eq_map, wrapCases_eq_map]

/-- `z` can be reached from `e` by names. -/
def Reach (e z : Entry) : Prop := ∃ Q, walk e Q = some z

theorem visErr_of_reach {e z : Entry} {er : Err} (h : Reach e z) (hz : VisErr z er) : VisErr e er := by
  obtain ⟨Q, hQ⟩ := h
  obtain ⟨P, d, hd, her⟩ := hz
  refine ⟨Q ++ P, d, ?_, her⟩
  rw [fullAt_append, hQ]; exact hd

theorem reach_wrap1 (z : Entry) : Reach (wrap1 z) z := by
  unfold wrap1
  split
  · exact ⟨[], rfl⟩
  · refine ⟨[z.name], ?_⟩
    simp [walk, kid, Entry.child?, Entry.name]

/-- A child found by name is found, fixed (and possibly wrapped), after FixChoice. -/
theorem fixChoice_child (e c : Entry) (k : String) (hr : e.d.isRpc = false) (hc : e.child? k = some c) :
    Reach (fixChoice e) (fixChoice c) := by
  have hname : ∀ x : Entry, (fixChoice x).name = x.name := fixChoice_name
  have hfind : (e.dir.map fixChoice).find? (·.name == k) = some (fixChoice c) := by
    rw [find?_map_name hname]; simp only [Entry.child?] at hc; rw [hc]; rfl
  have hrpc : (fixChoice e).d.isRpc = false := by rw [fixChoice_d]; exact hr
  by_cases hch : (e.d.kind == .choice && e.d.errors.isEmpty) = true
  · have hfind2 : ((e.dir.map fixChoice).map wrap1).find? (·.name == k) = some (wrap1 (fixChoice c)) := by
      rw [find?_map_name wrap1_name, hfind]; rfl
    obtain ⟨Q, hQ⟩ := reach_wrap1 (fixChoice c)
    refine ⟨k :: Q, ?_⟩
    simp only [walk, kid_nonrpc hrpc, Entry.child?, fixChoice_dir, hch, if_true, hfind2, Option.bind_some]
    exact hQ
  · refine ⟨[k], ?_⟩
    simp only [walk, kid_nonrpc hrpc, Entry.child?, fixChoice_dir, hch, Bool.false_eq_true, if_false, hfind,
      Option.bind_some]

theorem visErr_fixChoice {e : Entry} {er : Err} (h : VisErr e er) : VisErr (fixChoice e) er := by
  obtain ⟨P, d, hd, her⟩ := h
  simp only [fullAt] at hd
  cases hw : walk e P with
  | none => simp [hw] at hd
  | some x =>
    simp only [hw, Option.map_some, Option.some.injEq] at hd
    subst hd
    induction P generalizing e with
    | nil =>
      simp only [walk, Option.some.injEq] at hw; subst hw
      refine ⟨[], (Goyang.Model.fixChoice e).d, rfl, ?_⟩
      rw [fixChoice_d]; exact her
    | cons k r ih =>
      simp only [walk] at hw
      cases hk : kid e k with
      | none => simp [hk] at hw
      | some c =>
        simp only [hk, Option.bind_some] at hw
        have hvc : VisErr (Goyang.Model.fixChoice c) er := ih hw
        -- the fixed child is reachable from the fixed parent
        suffices hreach : Reach (Goyang.Model.fixChoice e) (Goyang.Model.fixChoice c) from visErr_of_reach hreach hvc
        unfold kid at hk
        by_cases hr : e.d.isRpc = true
        · have hrpc : (Goyang.Model.fixChoice e).d.isRpc = true := by rw [fixChoice_d]; exact hr
          simp only [hr, if_true] at hk
          by_cases hi : (k == "input") = true
          · simp only [hi, if_true, Option.some.injEq] at hk
            cases hh : e.inp.head? with
            | none =>
              simp only [hh, Option.getD_none] at hk
              subst hk
              exact absurd her (implicitIO_walk_errors hw)
            | some c0 =>
              simp only [hh, Option.getD_some] at hk
              subst hk
              refine ⟨["input"], ?_⟩
              simp [walk, kid_input hrpc, fixChoice_inp, List.head?_map, hh]
          · simp only [hi, Bool.false_eq_true, if_false] at hk
            by_cases ho : (k == "output") = true
            · simp only [ho, if_true, Option.some.injEq] at hk
              cases hh : e.out.head? with
              | none =>
                simp only [hh, Option.getD_none] at hk
                subst hk
                exact absurd her (implicitIO_walk_errors hw)
              | some c0 =>
                simp only [hh, Option.getD_some] at hk
                subst hk
                refine ⟨["output"], ?_⟩
                simp [walk, kid_output hrpc, fixChoice_out, List.head?_map, hh]
            · simp [ho] at hk
        · simp only [hr, Bool.false_eq_true, if_false] at hk
          exact fixChoice_child e c k (by simpa using hr) hk

/-- Go: `FixChoice` on every module and submodule. -/
def fixAll (f : Forest) : Forest := { trees := f.trees.map fun (i, e) => (i, fixChoice e) }

theorem tree?_fixAll (f : Forest) (id : Nat) : (fixAll f).tree? id = (f.tree? id).map fixChoice := by
  unfold fixAll Forest.tree?
  simp only
  have hfun : (fun (x : Nat × Entry) => match x with | (i, e) => (i, fixChoice e)) =
      fun (x : Nat × Entry) => (x.1, fixChoice x.2) := by
    funext x; cases x; rfl
  rw [hfun, find?_map_fst (fun (x : Nat × Entry) => (x.1, fixChoice x.2)) (fun _ => rfl)]
  cases f.trees.find? (·.1 == id) <;> rfl

theorem fVisErr_fixAll {f : Forest} {er : Err} (h : FVisErr f er) : FVisErr (fixAll f) er := by
  obtain ⟨id, root, hr, hv⟩ := h
  exact ⟨id, fixChoice root, by rw [tree?_fixAll, hr]; rfl, visErr_fixChoice hv⟩

theorem fixAll_isSome (f : Forest) (id : Nat) : ((fixAll f).tree? id).isSome = (f.tree? id).isSome := by
  rw [tree?_fixAll]; cases f.tree? id <;> rfl

/-- What `GetErrors` of all modules and submodules returns. -/
def allErrs (f : Forest) : List Err := (f.trees.map fun (_, e) => e.allErrors).flatten

theorem fVisErr_allErrs {f : Forest} {er : Err} (h : FVisErr f er) : er ∈ allErrs f := by
  obtain ⟨id, root, hr, hv⟩ := h
  unfold allErrs
  simp only [List.mem_flatten, List.mem_map]
  unfold Forest.tree? at hr
  cases hf : f.trees.find? (·.1 == id) with
  | none => simp [hf] at hr
  | some x =>
    simp only [hf, Option.map_some, Option.some.injEq] at hr
    refine ⟨root.allErrors, ⟨x, List.mem_of_find?_eq_some hf, ?_⟩, hv.allErrors⟩
    obtain ⟨i, e⟩ := x
    simp only at hr ⊢
    rw [hr]

/-! ### the reporting sweep -/

/-- Go: `for _, m := range mods { ToEntry(m).Augment(true) }`, with its trace. -/
def leftoverR (R : Res) : List Nat → PState → Nat → List Ev → PState × Nat × List Ev
  | [], s, n, tr => (s, n, tr)
  | id :: rest, s, n, tr =>
    let r := augmentTreeR R id true s
    leftoverR R rest r.1 (n + r.2.1) (tr ++ r.2.2.2)

theorem FoldRel.le {R : Res} {id : Nat} {ae : Bool} {nsOf : String} {f f' : Forest} {l U : List Entry} {tr : List Ev}
    (h : FoldRel R id ae nsOf f l f' U tr) : FLe f f' := by
  induction h with
  | nil f => exact FLe.refl f
  | fail hatt _ ih => exact (attempt_fail hatt).2.1.trans ih
  | ok hatt _ ih => exact (attempt_ok_le hatt).trans ih

/-- The not-found error of an augment statement. -/
def notFound (a : Entry) : Err := Err.at_ a.d.node "augment-not-found"

/-- After the reporting sweep every augment still pending in a visited tree has its
`augment-not-found` error on a visible node; nothing visible before is lost. -/
theorem leftoverR_spec (R : Res) : ∀ (l : List Nat) (s : PState) (n : Nat) (tr : List Ev) (D : Nat → Prop),
    NodupPending s → (∀ id, s.pendingOf id ≠ [] → (s.forest.tree? id).isSome = true) →
    (∀ id, D id → ∀ a ∈ s.pendingOf id, FVisErr s.forest (notFound a)) →
    ∃ trn, (leftoverR R l s n tr).2.2 = tr ++ trn ∧ Book s (leftoverR R l s n tr).1 trn ∧
      FLe s.forest (leftoverR R l s n tr).1.forest ∧
      (∀ id, (D id ∨ id ∈ l) → ∀ a ∈ (leftoverR R l s n tr).1.pendingOf id,
        FVisErr (leftoverR R l s n tr).1.forest (notFound a))
  | [], s, n, tr, D, hn, _, hD => by
    refine ⟨[], by simp [leftoverR], Book.refl hn, FLe.refl _, ?_⟩
    intro id hid a ha
    rcases hid with h | h
    · exact hD id h a ha
    · cases h
  | id :: rest, s, n, tr, D, hn, hpres, hD => by
    simp only [leftoverR]
    obtain ⟨f1, U, tr1, hrel, hval, hforest, hpend, hbook⟩ := tree_book R id true s hn
    have hle1 : FLe s.forest (augmentTreeR R id true s).1.forest := by rw [hforest]; exact FoldRel.le hrel
    have ht2 : (augmentTreeR R id true s).2.2.2 = tr1 := by rw [hval]
    have hsub1 : ∀ id' a, a ∈ (augmentTreeR R id true s).1.pendingOf id' → a ∈ s.pendingOf id' :=
      fun id' a ha => ((hbook.pending id' a).mp ha).1
    have hpres1 : ∀ id', (augmentTreeR R id true s).1.pendingOf id' ≠ [] →
        ((augmentTreeR R id true s).1.forest.tree? id').isSome = true := by
      intro id' hne
      rw [hle1.isSome]
      apply hpres
      intro hnil
      apply hne
      apply List.eq_nil_iff_forall_not_mem.mpr
      intro a ha
      have := hsub1 id' a ha
      rw [hnil] at this; cases this
    have hD1 : ∀ id', (D id' ∨ id' = id) → ∀ a ∈ (augmentTreeR R id true s).1.pendingOf id',
        FVisErr (augmentTreeR R id true s).1.forest (notFound a) := by
      intro id' hid' a ha
      by_cases hidd : id' = id
      · subst hidd
        rw [hpend, if_pos rfl] at ha
        have hne : s.pendingOf id' ≠ [] := by
          intro hnil
          have := (hrel.mem_iff a).mpr (Or.inl ha)
          rw [hnil] at this; cases this
        have := (FoldRel.leftover_err hrel (hpres id' hne)).2 a ha
        rw [hforest]; exact this
      · rcases hid' with h | h
        · exact (hD id' h a (hsub1 id' a ha)).mono hle1
        · exact absurd h hidd
    obtain ⟨trn2, e1, hbook2, hle2, hall⟩ := leftoverR_spec R rest (augmentTreeR R id true s).1
      (n + (augmentTreeR R id true s).2.1) (tr ++ (augmentTreeR R id true s).2.2.2) (fun i => D i ∨ i = id)
      hbook.nodupPending hpres1 hD1
    refine ⟨tr1 ++ trn2, ?_, hbook.trans hbook2, hle1.trans hle2, ?_⟩
    · rw [e1, ht2, List.append_assoc]
    · intro id' hid' a ha
      apply hall id' _ a ha
      rcases hid' with h | h
      · exact Or.inl (Or.inl h)
      · rcases List.mem_cons.mp h with h | h
        · exact Or.inl (Or.inr h)
        · exact Or.inr h

/-! ### the retry rounds after the first FixChoice -/

/-- Go: `for augmentLoop() > 0 { fixChoice() }`, with its trace: the modules that still hold pending
augments are retried (an augment into the implied case of a choice only becomes applicable once
FixChoice has created the case, and may create the target of another one); a round that applied
something is followed by FixChoice everywhere and another round.  `n` bounds the number of rounds. -/
def roundsR (R : Res) (fuel : Nat) : Nat → Array Nat → PState → List Ev → Array Nat × PState × List Ev
  | 0, mods, s, tr => (mods, s, tr)
  | n + 1, mods, s, tr =>
    if (loopTrace R fuel mods s).isEmpty then (loopMods R fuel mods s, loopState R fuel mods s, tr)
    else roundsR R fuel n (loopMods R fuel mods s)
      { loopState R fuel mods s with forest := fixAll (loopState R fuel mods s).forest }
      (tr ++ loopTrace R fuel mods s)

/-- Everything the rounds do that the report needs: the pending sets shrink by exactly the augments
of the trace, the module list still covers the trees with pending augments, every visible error
stays visible and the same trees exist. -/
theorem roundsR_spec (R : Res) (fuel : Nat) : ∀ (n : Nat) (mods : Array Nat) (s : PState) (tr : List Ev),
    NodupPending s → Cover s mods →
    ∃ trn, (roundsR R fuel n mods s tr).2.2 = tr ++ trn ∧ Book s (roundsR R fuel n mods s tr).2.1 trn ∧
      Cover (roundsR R fuel n mods s tr).2.1 (roundsR R fuel n mods s tr).1 ∧
      (∀ er, FVisErr s.forest er → FVisErr (roundsR R fuel n mods s tr).2.1.forest er) ∧
      (∀ id, ((roundsR R fuel n mods s tr).2.1.forest.tree? id).isSome = (s.forest.tree? id).isSome)
  | 0, mods, s, tr, hn, hcov =>
    ⟨[], by simp [roundsR], Book.refl hn, hcov, fun _ h => h, fun _ => rfl⟩
  | n + 1, mods, s, tr, hn, hcov => by
    obtain ⟨trn1, e1, hchain, hbook, _, _, hcov', _⟩ := loop_spec R s.forest fuel mods s [] (FLe.refl _) hn hcov
    have e1' : loopTrace R fuel mods s = trn1 := by simpa [loopTrace] using e1
    unfold roundsR
    by_cases he : (loopTrace R fuel mods s).isEmpty = true
    · rw [if_pos he]
      have hnil : trn1 = [] := by rw [← e1']; simpa using he
      subst hnil
      exact ⟨[], by simp, hbook, hcov', fun er h => h.mono hchain.le, fun id => hchain.le.isSome id⟩
    · rw [if_neg he]
      have hbook1 : Book s ({ loopState R fuel mods s with forest := fixAll (loopState R fuel mods s).forest } : PState)
          trn1 := ⟨hbook.pending, hbook.fromPending, hbook.nodup, hbook.nodupPending⟩
      obtain ⟨trn2, e2, hbook2, hcov2, hvis2, hsome2⟩ := roundsR_spec R fuel n (loopMods R fuel mods s)
        ({ loopState R fuel mods s with forest := fixAll (loopState R fuel mods s).forest } : PState)
        (tr ++ loopTrace R fuel mods s) hbook1.nodupPending hcov'
      refine ⟨trn1 ++ trn2, ?_, hbook1.trans hbook2, hcov2, ?_, ?_⟩
      · rw [e2, e1', List.append_assoc]
      · intro er h
        exact hvis2 er (fVisErr_fixAll (h.mono hchain.le))
      · intro id
        rw [hsome2 id]
        show ((fixAll (loopState R fuel mods s).forest).tree? id).isSome = _
        rw [fixAll_isSome, hchain.le.isSome]

/-! ### the whole augment part of `Process` -/

/-- Go: from the augment loop to the last `FixChoice` of `Modules.Process`, with the trace of the
loop and the trace of the left-over stage (the retry rounds after the first FixChoice, then the
reporting sweep). -/
def phaseR (R : Res) (order : List Nat) (fuel : Nat) (s : PState) : PState × List Ev × List Ev :=
  let r := augmentLoopR R fuel order.toArray s []
  let s1 : PState := { r.2.1 with forest := fixAll r.2.1.forest }
  let q := roundsR R fuel fuel r.1 s1 []
  let l := leftoverR R q.1.toList q.2.1 0 q.2.2
  (if l.2.1 > 0 then { l.1 with forest := fixAll l.1.forest } else l.1, r.2.2, l.2.2)

theorem pendingOf_withForest (s : PState) (f : Forest) (id : Nat) :
    ({ s with forest := f } : PState).pendingOf id = s.pendingOf id := rfl

/-- "…or reported", on the parametrised model: every augment pending at the start is applied by
the loop, or applied by the left-over stage (a retry round after FixChoice, or the last sweep), or
its `augment-not-found` error is among the errors swept at the end; and a colliding application in
the loop leaves a `duplicate-node` error there. -/
theorem phase_reported (R : Res) (order : List Nat) (fuel : Nat) (s : PState) (hn : NodupPending s)
    (hcov : Cover s order.toArray) (hfuel : mu s < fuel)
    (hpres : ∀ id, s.pendingOf id ≠ [] → (s.forest.tree? id).isSome = true) :
    (∀ id, ∀ a ∈ s.pendingOf id,
      (id, a) ∈ (phaseR R order fuel s).2.1.map Ev.key ∨ (id, a) ∈ (phaseR R order fuel s).2.2.map Ev.key ∨
      notFound a ∈ allErrs (phaseR R order fuel s).1.forest) ∧
    (∀ ev ∈ (phaseR R order fuel s).2.1,
        (¬ (absEv R s.forest ev).roots.Nodup ∨ (absEv R s.forest ev).Collides (viewOf ev.before)) →
        ∃ er ∈ allErrs (phaseR R order fuel s).1.forest, er.cls = "duplicate-node") := by
  obtain ⟨hchain, hbook, hcov', _, _⟩ := loop_run R fuel order.toArray s hn hcov hfuel
  -- state after the loop and the first FixChoice
  generalize hs1 : ({ (loopState R fuel order.toArray s) with
      forest := fixAll (loopState R fuel order.toArray s).forest } : PState) = s1
  have hbook1 : Book s s1 (loopTrace R fuel order.toArray s) := by
    subst hs1; exact ⟨hbook.pending, hbook.fromPending, hbook.nodup, hbook.nodupPending⟩
  have hcov1 : Cover s1 (loopMods R fuel order.toArray s) := by subst hs1; exact hcov'
  have hsome1 : ∀ id, (s1.forest.tree? id).isSome = (s.forest.tree? id).isSome := by
    intro id; subst hs1
    show ((fixAll (loopState R fuel order.toArray s).forest).tree? id).isSome = _
    rw [fixAll_isSome, hchain.le.isSome]
  have hvis1 : ∀ er, FVisErr (loopState R fuel order.toArray s).forest er → FVisErr s1.forest er := by
    intro er h; subst hs1; exact fVisErr_fixAll h
  -- the retry rounds
  obtain ⟨trnR, eR, hbookR, hcovR, hvisR, hsomeR⟩ :=
    roundsR_spec R fuel fuel (loopMods R fuel order.toArray s) s1 [] hbook1.nodupPending hcov1
  simp only [List.nil_append] at eR
  generalize hq : roundsR R fuel fuel (loopMods R fuel order.toArray s) s1 [] = q at eR hbookR hcovR hvisR hsomeR
  have hpres2 : ∀ id, q.2.1.pendingOf id ≠ [] → (q.2.1.forest.tree? id).isSome = true := by
    intro id hne
    rw [hsomeR, hsome1]
    apply hpres
    intro hnil
    apply hne
    apply List.eq_nil_iff_forall_not_mem.mpr
    intro a ha
    have := ((hbook1.pending id a).mp ((hbookR.pending id a).mp ha).1).1
    rw [hnil] at this; cases this
  -- the reporting sweep
  obtain ⟨trn, e1, hbook2, hle2, hall⟩ := leftoverR_spec R q.1.toList q.2.1 0 q.2.2 (fun _ => False)
    hbookR.nodupPending hpres2 (fun _ h => absurd h id)
  have hph : phaseR R order fuel s =
      (if (leftoverR R q.1.toList q.2.1 0 q.2.2).2.1 > 0
        then { (leftoverR R q.1.toList q.2.1 0 q.2.2).1 with
          forest := fixAll (leftoverR R q.1.toList q.2.1 0 q.2.2).1.forest }
        else (leftoverR R q.1.toList q.2.1 0 q.2.2).1,
       loopTrace R fuel order.toArray s, (leftoverR R q.1.toList q.2.1 0 q.2.2).2.2) := by
    unfold phaseR
    simp only
    rw [hs1, hq]
  -- errors visible after the sweep reach the final sweep of errors
  have hfinal : ∀ er, FVisErr (leftoverR R q.1.toList q.2.1 0 q.2.2).1.forest er →
      er ∈ allErrs (phaseR R order fuel s).1.forest := by
    intro er h
    rw [hph]
    simp only
    split
    · exact fVisErr_allErrs (fVisErr_fixAll h)
    · exact fVisErr_allErrs h
  refine ⟨?_, ?_⟩
  · intro id a ha
    by_cases h1 : (id, a) ∈ (loopTrace R fuel order.toArray s).map Ev.key
    · left; rw [hph]; exact h1
    · by_cases h2 : (id, a) ∈ (trnR ++ trn).map Ev.key
      · right; left
        rw [hph]
        show (id, a) ∈ (leftoverR R q.1.toList q.2.1 0 q.2.2).2.2.map Ev.key
        rw [e1, eR]; exact h2
      · right; right
        have h2R : (id, a) ∉ trnR.map Ev.key := fun h => h2 (by rw [List.map_append]; exact List.mem_append_left _ h)
        have h2S : (id, a) ∉ trn.map Ev.key := fun h => h2 (by rw [List.map_append]; exact List.mem_append_right _ h)
        have ha1 : a ∈ s1.pendingOf id := (hbook1.pending id a).mpr ⟨ha, h1⟩
        have haR : a ∈ q.2.1.pendingOf id := (hbookR.pending id a).mpr ⟨ha1, h2R⟩
        have ha2 := (hbook2.pending id a).mpr ⟨haR, h2S⟩
        have hin : id ∈ q.1.toList := by
          apply hcovR
          intro hnil; rw [hnil] at haR; cases haR
        exact hfinal _ (hall id (Or.inr hin) a ha2)
  · intro ev hev hbad
    rw [hph] at hev
    obtain ⟨er, her, hcls⟩ := loop_collision_reported R fuel order.toArray s hn hcov hfuel ev hev hbad
    exact ⟨er, hfinal er ((hvisR er (hvis1 er her)).mono hle2), hcls⟩

/-! ### the model's functions are the parametrised ones -/

theorem leftover_eq (reg : Registry) : ∀ (l : List Nat) (s : PState) (n : Nat) (tr : List Ev), PlainPending reg s →
    l.foldl (fun (acc : PState × Nat) id =>
      let (s, p, _) := augmentTree reg id true acc.1
      (s, acc.2 + p)) (s, n) =
    ((leftoverR (Res.ofReg reg) l s n tr).1, (leftoverR (Res.ofReg reg) l s n tr).2.1)
  | [], s, n, tr, _ => rfl
  | id :: rest, s, n, tr, hp => by
    simp only [List.foldl_cons, leftoverR]
    rw [augmentTree_eq reg id true s (hp id)]
    exact leftover_eq reg rest _ _ _ (hp.step (Res.ofReg reg) id true)

theorem foldl_inv' {α β} (P : β → Prop) (f : β → α → β) (l : List α) (b : β) (h0 : P b)
    (hs : ∀ b a, a ∈ l → P b → P (f b a)) : P (l.foldl f b) := by
  induction l generalizing b with
  | nil => exact h0
  | cons a l ih =>
    simp only [List.foldl_cons]
    exact ih _ (hs _ _ (by simp) h0) (fun b x hx hb => hs b x (by simp [hx]) hb)

/-- The number of augments one `Augment` call applied is the length of its trace. -/
theorem augmentTreeR_count (R : Res) (id : Nat) (ae : Bool) (s : PState) :
    (augmentTreeR R id ae s).2.1 = (augmentTreeR R id ae s).2.2.2.length := by
  unfold augmentTreeR
  simp only
  refine foldl_inv' (fun acc : Acc => acc.p = acc.trace.length) _ _ _ rfl ?_
  intro acc a _ h
  unfold stepR
  simp only
  split
  · simp [h]
  · exact h

theorem augmentPassR_count (R : Res) : ∀ (fuel : Nat) (mods : Array Nat) (i processed : Nat) (s : PState) (tr : List Ev),
    ∃ trn, (augmentPassR R fuel mods i processed s tr).2.2.2 = tr ++ trn ∧
      (augmentPassR R fuel mods i processed s tr).2.1 = processed + trn.length
  | 0, mods, i, processed, s, tr => ⟨[], by simp [augmentPassR], by simp [augmentPassR]⟩
  | fuel + 1, mods, i, processed, s, tr => by
    unfold augmentPassR
    by_cases h : i < mods.size
    · simp only [h, dite_true]
      have hc := augmentTreeR_count R mods[i] false s
      split
      · obtain ⟨trn, e1, e2⟩ := augmentPassR_count R fuel ((mods.set i (mods.back?.getD 0) h).pop) i
          (processed + (augmentTreeR R mods[i] false s).2.1) (augmentTreeR R mods[i] false s).1
          (tr ++ (augmentTreeR R mods[i] false s).2.2.2)
        exact ⟨(augmentTreeR R mods[i] false s).2.2.2 ++ trn, by rw [e1, List.append_assoc],
          by rw [e2, hc, List.length_append]; omega⟩
      · obtain ⟨trn, e1, e2⟩ := augmentPassR_count R fuel mods (i + 1)
          (processed + (augmentTreeR R mods[i] false s).2.1) (augmentTreeR R mods[i] false s).1
          (tr ++ (augmentTreeR R mods[i] false s).2.2.2)
        exact ⟨(augmentTreeR R mods[i] false s).2.2.2 ++ trn, by rw [e1, List.append_assoc],
          by rw [e2, hc, List.length_append]; omega⟩
    · simp only [h, dite_false]
      exact ⟨[], by simp, by simp⟩

/-- The loop's trace grows by nothing exactly when the loop did not run (no fuel, no modules) or its
first pass applied nothing. -/
theorem augmentLoopR_trace (R : Res) : ∀ (fuel : Nat) (mods : Array Nat) (s : PState) (tr : List Ev),
    ∃ trn, (augmentLoopR R fuel mods s tr).2.2 = tr ++ trn ∧
      (trn = [] ↔ fuel = 0 ∨ mods.isEmpty = true ∨ (augmentPassR R (mods.size + 1) mods 0 0 s tr).2.1 = 0)
  | 0, mods, s, tr => ⟨[], by simp [augmentLoopR], by simp⟩
  | fuel + 1, mods, s, tr => by
    unfold augmentLoopR
    by_cases he : mods.isEmpty = true
    · simp only [he, if_true]
      exact ⟨[], by simp, by simp⟩
    · simp only [he, Bool.false_eq_true, if_false, false_or, Nat.add_one_ne_zero]
      obtain ⟨trn1, e1, e2⟩ := augmentPassR_count R (mods.size + 1) mods 0 0 s tr
      by_cases h0 : ((augmentPassR R (mods.size + 1) mods 0 0 s tr).2.1 == 0) = true
      · simp only [h0, if_true]
        have h0' : (augmentPassR R (mods.size + 1) mods 0 0 s tr).2.1 = 0 := by simpa using h0
        refine ⟨trn1, e1, ?_⟩
        simp only [h0', iff_true]
        rw [e2] at h0'
        exact List.eq_nil_of_length_eq_zero (by omega)
      · simp only [h0, Bool.false_eq_true, if_false]
        have h0' : (augmentPassR R (mods.size + 1) mods 0 0 s tr).2.1 ≠ 0 := by simpa using h0
        obtain ⟨trn2, e3, _⟩ := augmentLoopR_trace R fuel (augmentPassR R (mods.size + 1) mods 0 0 s tr).1
          (augmentPassR R (mods.size + 1) mods 0 0 s tr).2.2.1 (augmentPassR R (mods.size + 1) mods 0 0 s tr).2.2.2
        refine ⟨trn1 ++ trn2, by rw [e3, e1, List.append_assoc], ?_⟩
        simp only [h0', iff_false]
        intro hnil
        have : trn1 = [] := (List.append_eq_nil_iff.mp hnil).1
        rw [e2, this] at h0'
        exact h0' rfl

/-- The model's "the loop applied nothing" is the parametrised model's "the loop's trace is empty". -/
theorem loopTrace_isEmpty_iff (reg : Registry) (fuel : Nat) (mods : Array Nat) (s : PState) (hp : PlainPending reg s) :
    (loopTrace (Res.ofReg reg) fuel mods s).isEmpty = true ↔ Rounds.loopCount reg fuel mods s = 0 := by
  obtain ⟨trn, e1, e2⟩ := augmentLoopR_trace (Res.ofReg reg) fuel mods s []
  have e1' : loopTrace (Res.ofReg reg) fuel mods s = trn := by simpa [loopTrace] using e1
  rw [e1', List.isEmpty_iff, e2, Rounds.loopCount_eq_zero, augmentPass_eq reg (mods.size + 1) mods 0 0 s [] hp]

theorem leftoverRounds_eq (reg : Registry) (fuel : Nat) : ∀ (n : Nat) (mods : Array Nat) (s : PState) (tr : List Ev),
    PlainPending reg s →
    leftoverRounds reg fuel n mods s =
      ((roundsR (Res.ofReg reg) fuel n mods s tr).1, (roundsR (Res.ofReg reg) fuel n mods s tr).2.1)
  | 0, mods, s, tr, _ => rfl
  | n + 1, mods, s, tr, hp => by
    rw [Rounds.leftoverRounds_succ]
    unfold roundsR
    have hloop := augmentLoop_eq reg fuel mods s [] hp
    simp only at hloop
    by_cases hc : Rounds.loopCount reg fuel mods s = 0
    · rw [if_pos hc, if_pos ((loopTrace_isEmpty_iff reg fuel mods s hp).mpr hc)]
      exact hloop
    · rw [if_neg hc, if_neg (fun h => hc ((loopTrace_isEmpty_iff reg fuel mods s hp).mp h))]
      have hp1 : PlainPending reg ({ loopState (Res.ofReg reg) fuel mods s with
          forest := fixAll (loopState (Res.ofReg reg) fuel mods s).forest } : PState) := by
        intro id a ha
        exact hp id a (augmentLoopR_pending_sub _ _ _ _ _ id a ha)
      rw [hloop]
      exact leftoverRounds_eq reg fuel n _ _ _ hp1

theorem roundsR_pending_sub (R : Res) (fuel : Nat) : ∀ (n : Nat) (mods : Array Nat) (s : PState) (tr : List Ev) (id : Nat),
    ∀ a ∈ (roundsR R fuel n mods s tr).2.1.pendingOf id, a ∈ s.pendingOf id
  | 0, mods, s, tr, id => fun a ha => ha
  | n + 1, mods, s, tr, id => by
    unfold roundsR
    split
    · exact augmentLoopR_pending_sub _ _ _ _ _ id
    · intro a ha
      have h1 := roundsR_pending_sub R fuel n _ _ _ id a ha
      exact augmentLoopR_pending_sub R fuel mods s [] id a h1

theorem augmentPhase_eq (reg : Registry) (order : List Nat) (fuel : Nat) (s : PState) (hp : PlainPending reg s) :
    augmentPhase reg order fuel s = (phaseR (Res.ofReg reg) order fuel s).1 := by
  unfold augmentPhase phaseR
  rw [augmentLoop_eq reg fuel order.toArray s [] hp]
  simp only
  have hp1 : PlainPending reg ({ (augmentLoopR (Res.ofReg reg) fuel order.toArray s []).2.1 with
      forest := fixAll (augmentLoopR (Res.ofReg reg) fuel order.toArray s []).2.1.forest } : PState) := by
    intro id a ha
    exact hp id a (augmentLoopR_pending_sub _ _ _ _ _ id a ha)
  have hr := leftoverRounds_eq reg fuel fuel (augmentLoopR (Res.ofReg reg) fuel order.toArray s []).1
    ({ (augmentLoopR (Res.ofReg reg) fuel order.toArray s []).2.1 with
      forest := fixAll (augmentLoopR (Res.ofReg reg) fuel order.toArray s []).2.1.forest } : PState) [] hp1
  have hp2 : PlainPending reg (roundsR (Res.ofReg reg) fuel fuel (augmentLoopR (Res.ofReg reg) fuel order.toArray s []).1
      ({ (augmentLoopR (Res.ofReg reg) fuel order.toArray s []).2.1 with
        forest := fixAll (augmentLoopR (Res.ofReg reg) fuel order.toArray s []).2.1.forest } : PState) []).2.1 := by
    intro id a ha
    exact hp1 id a (roundsR_pending_sub _ _ _ _ _ _ id a ha)
  unfold fixAll at hr hp2 ⊢
  rw [hr]
  simp only
  rw [← Array.foldl_toList]
  rw [leftover_eq reg _ _ 0 _ hp2]

/-! ### the tie to `processAll` -/

theorem insertBy_ne_nil {α} (lt : α → α → Bool) (x : α) (l : List α) : insertBy lt x l ≠ [] := by
  cases l with
  | nil => simp [insertBy]
  | cons y ys => simp only [insertBy]; split <;> simp

theorem sortBy_ne_nil {α} (lt : α → α → Bool) (l : List α) (h : l ≠ []) : sortBy lt l ≠ [] := by
  cases l with
  | nil => exact absurd rfl h
  | cons x xs => simp only [sortBy, List.foldr_cons]; exact insertBy_ne_nil _ _ _

/-- The canonical error set is empty only for an empty error list. -/
theorem canonErrs_ne_nil (es : List Err) (h : es ≠ []) : canonErrs es ≠ [] := by
  unfold canonErrs
  simp only
  intro hnil
  have hs := sortBy_ne_nil (fun (a b : Err) =>
    if a.file != b.file then a.file < b.file
    else if a.line != b.line then a.line < b.line
    else if a.col != b.col then a.col < b.col
    else a.cls < b.cls) es h
  revert hnil
  generalize sortBy _ es = l at hs
  cases l with
  | nil => exact absurd rfl hs
  | cons x xs => simp [List.eraseDups_cons]

/-- The hypotheses under which the augment part of the model is analysed; all are statements
about what `ToEntry` and the registry hand to the augment loop. -/
structure PhaseInput (reg : Registry) (s : PState) : Prop where
  /-- augment arguments are absolute schema node identifiers -/
  plain : PlainPending reg s
  /-- no augment entry is listed twice for one module -/
  nodup : NodupPending s
  /-- one row per tree in the pending table -/
  keys : (keys s).Nodup
  /-- the tree of every (sub)module with augments exists -/
  trees : ∀ id, s.pendingOf id ≠ [] → (s.forest.tree? id).isSome = true

/-! ### pinning the state the augment phase starts from -/

/-- The state and module order with which `processAll` enters the augment phase (`none`: it
stops before, with errors).  This is the text of `Model.processAll` up to the call of
`augmentPhase`; `processAll_phaseStart` checks that it is. -/
def phaseStart (reg : Registry) (opts : Opts) (plug : Plug) : Option (PState × List Nat) :=
  let (linked, lerrs) := linkAll reg
  let errs := lerrs ++ plug.identityErrs reg ++ plug.typedefErrs reg
  if !errs.isEmpty then none else
  let env : Env := { reg := reg, opts := opts, tres := plug.tres, linked := linked }
  let fuel := entryFuel reg
  let mods := reg.distinctModules
  let subs := reg.distinctSubs
  let convOrder : List Mod :=
    let keys (km : KeyMap) := (sortBy (fun (a b : String × Nat) => a.1 < b.1) km).filterMap fun kv => reg.byId kv.2
    keys reg.modules ++ keys reg.subModules
  let st : TState := convOrder.foldl (fun st m => (toEntry env fuel m [] m.stmt [] st).2) {}
  let forest : Forest := { trees := st.cache }
  let errs := (forest.trees.map fun (_, e) => e.allErrors).flatten
  if !errs.isEmpty then none else
  let pending := (mods ++ subs).map fun m => (m.seq, ((st.augs.find? (·.1 == m.seq)).map (·.2)).getD [])
  let s : PState := { forest := forest, pending := pending }
  let keyed : List Mod := (reg.modules ++ reg.subModules).filterMap fun kv => reg.byId kv.2
  let order := sortBy (fun (a b : Mod) =>
      if a.fullName != b.fullName then a.fullName < b.fullName else !a.isSub && b.isSub) keyed
  some (s, order.map (·.seq))

-- (the augment phase is kept folded: nothing here looks inside it)
attribute [local irreducible] augmentPhase in
/-- `processAll` stops early with errors, or enters the augment phase exactly at `phaseStart` and
returns the errors swept after it (plus those of the deviations). -/
theorem processAll_phaseStart (reg : Registry) (opts : Opts) (plug : Plug) :
    (phaseStart reg opts plug = none → ∃ errs, errs ≠ [] ∧ (processAll reg opts plug).errors = canonErrs errs) ∧
    (∀ s order, phaseStart reg opts plug = some (s, order) → allErrs s.forest = [] ∧
      ∃ derrs, (processAll reg opts plug).errors =
        canonErrs (allErrs (augmentPhase reg order (s.pending.foldl (fun n p => n + p.2.length) 0 + 2) s).forest ++ derrs)) := by
  constructor
  · intro h
    unfold phaseStart at h
    unfold processAll
    simp only at h ⊢
    split at h
    · rename_i h1
      simp only [h1, if_true]
      exact ⟨_, by simpa using h1, rfl⟩
    · rename_i h1
      simp only [h1, Bool.false_eq_true, if_false]
      split at h
      · rename_i h2
        simp only [h2, if_true]
        exact ⟨_, by simpa using h2, rfl⟩
      · cases h
  · intro s order h
    unfold phaseStart at h
    unfold processAll
    simp only at h ⊢
    split at h
    · cases h
    · rename_i h1
      simp only [h1, Bool.false_eq_true, if_false]
      split at h
      · cases h
      · rename_i h2
        simp only [h2, Bool.false_eq_true, if_false]
        simp only [Option.some.injEq, Prod.mk.injEq] at h
        obtain ⟨hs, ho⟩ := h
        subst hs ho
        exact ⟨by simpa [allErrs] using h2, _, rfl⟩

/-! ### the loop visits every tree that has augments -/

theorem mem_insertBy {α} (lt : α → α → Bool) (x y : α) (l : List α) : y ∈ insertBy lt x l ↔ y = x ∨ y ∈ l := by
  induction l with
  | nil => simp [insertBy]
  | cons z zs ih =>
    simp only [insertBy]
    split
    · simp
    · simp only [List.mem_cons, ih]
      constructor
      · rintro (h | h | h)
        · exact Or.inr (Or.inl h)
        · exact Or.inl h
        · exact Or.inr (Or.inr h)
      · rintro (h | h | h)
        · exact Or.inr (Or.inl h)
        · exact Or.inl h
        · exact Or.inr (Or.inr h)

theorem mem_sortBy {α} (lt : α → α → Bool) (y : α) (l : List α) : y ∈ sortBy lt l ↔ y ∈ l := by
  induction l with
  | nil => simp [sortBy]
  | cons x xs ih =>
    have : sortBy lt (x :: xs) = insertBy lt x (sortBy lt xs) := rfl
    rw [this, mem_insertBy, ih]; simp

/-- Every seq that is bound in one of the two module tables and belongs to a loaded module is in
the loop's module order. -/
theorem seq_in_order (reg : Registry) (m : Mod) (hm : m ∈ reg.mods)
    (hb : (reg.modules ++ reg.subModules).any (·.2 == m.seq) = true) :
    m.seq ∈ (sortBy (fun (a b : Mod) =>
      if a.fullName != b.fullName then a.fullName < b.fullName else !a.isSub && b.isSub)
      ((reg.modules ++ reg.subModules).filterMap fun kv => reg.byId kv.2)).map (·.seq) := by
  obtain ⟨kv, hkv, hk⟩ := List.any_eq_true.mp hb
  have hk' : kv.2 = m.seq := by simpa using hk
  -- `byId` finds a module with that seq
  have hfind : ∃ m', reg.byId kv.2 = some m' ∧ m'.seq = kv.2 := by
    unfold Registry.byId
    cases hf : reg.mods.find? (·.seq == kv.2) with
    | none =>
      have := List.find?_eq_none.mp hf m hm
      simp [hk'] at this
    | some m' => exact ⟨m', rfl, by simpa using List.find?_some hf⟩
  obtain ⟨m', hm', hseq⟩ := hfind
  refine List.mem_map.mpr ⟨m', ?_, by rw [hseq, hk']⟩
  rw [mem_sortBy]
  exact List.mem_filterMap.mpr ⟨kv, hkv, hm'⟩

theorem phaseStart_cover (reg : Registry) (opts : Opts) (plug : Plug) (s : PState) (order : List Nat)
    (h : phaseStart reg opts plug = some (s, order)) : Cover s order.toArray := by
  unfold phaseStart at h
  simp only at h
  split at h
  · cases h
  · split at h
    · cases h
    · simp only [Option.some.injEq, Prod.mk.injEq] at h
      obtain ⟨hs, ho⟩ := h
      subst hs ho
      intro id hne
      have hk := mem_keys_of_pendingOf_ne_nil _ id hne
      simp only [keys, List.map_map, List.mem_map, Function.comp] at hk
      obtain ⟨m, hm, hid⟩ := hk
      subst hid
      show _ ∈ (List.toArray _).toList
      rcases List.mem_append.mp hm with hm | hm
      · simp only [Registry.distinctModules, List.mem_filter] at hm
        exact seq_in_order reg m hm.1 (by rw [List.any_append, hm.2]; rfl)
      · simp only [Registry.distinctSubs, List.mem_filter] at hm
        exact seq_in_order reg m hm.1 (by rw [List.any_append, hm.2]; simp)

/-- "…or reported" for `processAll`, at the state it really starts the augment phase from. -/
theorem processAll_reported_pinned (reg : Registry) (opts : Opts) (plug : Plug) :
    (phaseStart reg opts plug = none → ∃ errs, errs ≠ [] ∧ (processAll reg opts plug).errors = canonErrs errs) ∧
    (∀ s order, phaseStart reg opts plug = some (s, order) → allErrs s.forest = [] ∧
      (PhaseInput reg s →
        let fuel := s.pending.foldl (fun n p => n + p.2.length) 0 + 2
        let ph := phaseR (Res.ofReg reg) order fuel s
        (∀ id, ∀ a ∈ s.pendingOf id,
          (id, a) ∈ ph.2.1.map Ev.key ∨ (id, a) ∈ ph.2.2.map Ev.key ∨ (processAll reg opts plug).errors ≠ []) ∧
        (∀ ev ∈ ph.2.1,
          (¬ (absEv (Res.ofReg reg) s.forest ev).roots.Nodup ∨
            (absEv (Res.ofReg reg) s.forest ev).Collides (viewOf ev.before)) →
          (processAll reg opts plug).errors ≠ []))) := by
  obtain ⟨hps1, hps2⟩ := processAll_phaseStart reg opts plug
  refine ⟨hps1, ?_⟩
  · intro s order hstart
    obtain ⟨h0, derrs, herr⟩ := hps2 s order hstart
    refine ⟨h0, ?_⟩
    intro hin
    simp only
    have hfuel := fuel_sufficient s hin.keys
    obtain ⟨h1, h2⟩ := phase_reported (Res.ofReg reg) order _ s hin.nodup (phaseStart_cover reg opts plug s order hstart) hfuel hin.trees
    rw [augmentPhase_eq reg order _ s hin.plain] at herr
    have hne : ∀ er, er ∈ allErrs (phaseR (Res.ofReg reg) order
        (s.pending.foldl (fun n p => n + p.2.length) 0 + 2) s).1.forest → (processAll reg opts plug).errors ≠ [] := by
      intro er her
      rw [herr]
      apply canonErrs_ne_nil
      intro hnil
      have : er ∈ allErrs (phaseR (Res.ofReg reg) order
        (s.pending.foldl (fun n p => n + p.2.length) 0 + 2) s).1.forest ++ derrs := List.mem_append_left _ her
      rw [hnil] at this
      cases this
    refine ⟨?_, ?_⟩
    · intro id a ha
      rcases h1 id a ha with h | h | h
      · exact Or.inl h
      · exact Or.inr (Or.inl h)
      · exact Or.inr (Or.inr (hne _ h))
    · intro ev hev hbad
      obtain ⟨er, her, _⟩ := h2 ev hev hbad
      exact hne er her


end Goyang.Lemmas.AugmentReport
