import Goyang.Lemmas.AugmentTree
import Goyang.Lemmas.AugmentModel
/-
C07 — one attempt of one augment (`attemptR`, i.e. one iteration of the loop in `Entry.Augment`)
as seen on the flat view:
* it succeeds exactly when the resolved augment is applicable in the view (`attempt_applicable`);
* a failed attempt changes nothing visible (`attempt_fail_view`), it can only add errors and
  materialise implicit rpc input / output nodes, which the view contains anyway;
* a successful attempt never removes or changes a visible node (`attempt_le`), and when the
  target is not an rpc node itself and no name collides it adds exactly the stamped copies of
  the body's nodes below the target (`attempt_ok_view`);
* a collision leaves a `duplicate-node` error on the target (`attempt_collision_err`).
-/
namespace Goyang.Lemmas.AugmentStep
open Goyang.Model Goyang.Spec.Augment Goyang.Lemmas.AugmentConfl Goyang.Lemmas.AugmentTree
  Goyang.Lemmas.AugmentModel

/-! ### implicit input / output -/

theorem matIn_namePres : NamePres matIn := by intro y; cases y; rfl
theorem matOut_namePres : NamePres matOut := by intro y; cases y; rfl

theorem matIn_invisible (e : Entry) (hr : e.d.isRpc = true) (he : e.inp.isEmpty = true) :
    ∀ r, fullAt (matIn e) r = fullAt e r := by
  cases e with
  | mk d c i o =>
    have hi : i = [] := by simpa using he
    subst hi
    intro r
    cases r with
    | nil => rfl
    | cons k r =>
      rw [fullAt_cons, fullAt_cons]
      have : kid (matIn (.mk d c [] o)) k = kid (.mk d c [] o) k := by
        simp only [mk_d] at hr
        simp [kid, matIn, implicitIO, hr]
      rw [this]

theorem matOut_invisible (e : Entry) (hr : e.d.isRpc = true) (he : e.out.isEmpty = true) :
    ∀ r, fullAt (matOut e) r = fullAt e r := by
  cases e with
  | mk d c i o =>
    have hi : o = [] := by simpa using he
    subst hi
    intro r
    cases r with
    | nil => rfl
    | cons k r =>
      rw [fullAt_cons, fullAt_cons]
      have : kid (matOut (.mk d c i [])) k = kid (.mk d c i []) k := by
        simp only [mk_d] at hr
        simp [kid, matOut, implicitIO, hr]
      rw [this]

/-! ### the step loop -/

/-- What `walkN` (the step loop of `Find` on plain names) does, started at a tracked node: the
tree afterwards shows the same data everywhere; a result is a track of the whole name path; no
result means the name path does not exist. -/
theorem walkN_spec : ∀ (names : List String) (root : Entry) (n0 : NPath) (p0 : Path) (e0 : Entry),
    Tracks root n0 p0 e0 →
    (∀ P, fullAt (walkN names root (some p0)).2 P = fullAt root P) ∧
    (∀ q, (walkN names root (some p0)).1 = some q → ∃ x, Tracks (walkN names root (some p0)).2 (n0 ++ names) q x) ∧
    ((walkN names root (some p0)).1 = none → walk root (n0 ++ names) = none)
  | [], root, n0, p0, e0, h => by
    refine ⟨fun _ => rfl, ?_, ?_⟩
    · intro q hq
      simp only [walkN, Option.some.injEq] at hq
      subst hq
      refine ⟨e0, ?_⟩
      show Tracks root (n0 ++ []) p0 e0
      simpa using h
    · intro hq; simp [walkN] at hq
  | nm :: rest, root, n0, p0, e0, h => by
    have hget := h.getAt
    have hwalk : ∀ r, walk root (n0 ++ r) = walk e0 r := by
      intro r; rw [walk_append, h.walk]; rfl
    simp only [walkN, hget]
    by_cases hr : e0.d.isRpc = true
    · simp only [hr, if_true]
      by_cases hi : (nm == "input") = true
      · have hnm : nm = "input" := by simpa using hi
        subst hnm
        simp only [beq_self_eq_true, if_true]
        -- the tree after materialising the input, the tracked node in it, the input node
        have key : ∃ root1 e1, (if e0.inp.isEmpty then root.updateAt p0 matIn else root) = root1 ∧
            Tracks root1 n0 p0 e1 ∧ (∀ P, fullAt root1 P = fullAt root P) ∧
            e1.d.isRpc = true ∧ e1.inp.head? = some (e0.inp.head?.getD (implicitIO e0 true)) := by
          by_cases he : e0.inp.isEmpty = true
          · refine ⟨root.updateAt p0 matIn, matIn e0, by simp [he], h.update matIn_namePres,
              fullAt_update_invisible h matIn_namePres (matIn_invisible e0 hr he), ?_, ?_⟩
            · cases e0; exact hr
            · cases e0 with
              | mk d c i o =>
                have : i = [] := by simpa using he
                subst this; rfl
          · refine ⟨root, e0, by simp [he], h, fun _ => rfl, hr, ?_⟩
            cases hh : e0.inp with
            | nil => simp [hh] at he
            | cons y ys => simp
        obtain ⟨root1, e1, hroot1, hT1, hF1, hr1, hh1⟩ := key
        rw [hroot1]
        have hT2 := hT1.snoc (Tracks.input hr1 hh1 (Tracks.nil _))
        obtain ⟨ih1, ih2, ih3⟩ := walkN_spec rest root1 (n0 ++ ["input"]) (p0 ++ [.input]) _ hT2
        refine ⟨fun P => (ih1 P).trans (hF1 P), ?_, ?_⟩
        · intro q hq
          obtain ⟨x, hx⟩ := ih2 q hq
          exact ⟨x, by simpa using hx⟩
        · intro hq
          have := ih3 hq
          have hd : fullAt root1 (n0 ++ "input" :: rest) = fullAt root (n0 ++ "input" :: rest) := hF1 _
          simp only [fullAt] at hd
          simp only [List.append_assoc, List.singleton_append] at this
          rw [this] at hd
          cases hw : walk root (n0 ++ "input" :: rest) with
          | none => rfl
          | some y => simp [hw] at hd
      · simp only [hi, Bool.false_eq_true, if_false]
        by_cases ho : (nm == "output") = true
        · have hnm : nm = "output" := by simpa using ho
          subst hnm
          simp only [beq_self_eq_true, if_true]
          have key : ∃ root1 e1, (if e0.out.isEmpty then root.updateAt p0 matOut else root) = root1 ∧
              Tracks root1 n0 p0 e1 ∧ (∀ P, fullAt root1 P = fullAt root P) ∧
              e1.d.isRpc = true ∧ e1.out.head? = some (e0.out.head?.getD (implicitIO e0 false)) := by
            by_cases he : e0.out.isEmpty = true
            · refine ⟨root.updateAt p0 matOut, matOut e0, by simp [he], h.update matOut_namePres,
                fullAt_update_invisible h matOut_namePres (matOut_invisible e0 hr he), ?_, ?_⟩
              · cases e0; exact hr
              · cases e0 with
                | mk d c i o =>
                  have : o = [] := by simpa using he
                  subst this; rfl
            · refine ⟨root, e0, by simp [he], h, fun _ => rfl, hr, ?_⟩
              cases hh : e0.out with
              | nil => simp [hh] at he
              | cons y ys => simp
          obtain ⟨root1, e1, hroot1, hT1, hF1, hr1, hh1⟩ := key
          rw [hroot1]
          have hT2 := hT1.snoc (Tracks.output hr1 hh1 (Tracks.nil _))
          obtain ⟨ih1, ih2, ih3⟩ := walkN_spec rest root1 (n0 ++ ["output"]) (p0 ++ [.output]) _ hT2
          refine ⟨fun P => (ih1 P).trans (hF1 P), ?_, ?_⟩
          · intro q hq
            obtain ⟨x, hx⟩ := ih2 q hq
            exact ⟨x, by simpa using hx⟩
          · intro hq
            have := ih3 hq
            have hd : fullAt root1 (n0 ++ "output" :: rest) = fullAt root (n0 ++ "output" :: rest) := hF1 _
            simp only [fullAt] at hd
            simp only [List.append_assoc, List.singleton_append] at this
            rw [this] at hd
            cases hw : walk root (n0 ++ "output" :: rest) with
            | none => rfl
            | some y => simp [hw] at hd
        · simp only [ho, Bool.false_eq_true, if_false]
          refine ⟨by intros; first | rfl | trivial, fun q hq => by simp at hq, fun _ => ?_⟩
          rw [hwalk]
          simp [walk, kid, hr, hi, ho]
    · simp only [hr, Bool.false_eq_true, if_false]
      have hr' : e0.d.isRpc = false := by simpa using hr
      cases hc : e0.child? nm with
      | none =>
        simp only [walkN_none]
        refine ⟨by intros; first | rfl | trivial, fun q hq => by simp at hq, fun _ => ?_⟩
        rw [hwalk]
        simp [walk, kid_nonrpc hr', hc]
      | some c =>
        simp only
        have hT2 := h.snoc (Tracks.child hr' hc (Tracks.nil _))
        obtain ⟨ih1, ih2, ih3⟩ := walkN_spec rest root (n0 ++ [nm]) (p0 ++ [.child nm]) _ hT2
        refine ⟨ih1, ?_, ?_⟩
        · intro q hq
          obtain ⟨x, hx⟩ := ih2 q hq
          exact ⟨x, by simpa using hx⟩
        · intro hq
          simpa using ih3 hq

/-! ### forests -/

theorem tree?_setTree (f : Forest) (t : Nat) (e : Entry) (t' : Nat) :
    (f.setTree t e).tree? t' = if t' = t then (f.tree? t).map (fun _ => e) else f.tree? t' := by
  unfold Forest.setTree Forest.tree?
  simp only
  have hfun : (fun (x : Nat × Entry) => match x with | (i, tr) => if i == t then (i, e) else (i, tr)) =
      fun (x : Nat × Entry) => if x.1 == t then (x.1, e) else (x.1, x.2) := by
    funext x; cases x; rfl
  have hg : ∀ x : Nat × Entry, ((fun (x : Nat × Entry) => if x.1 == t then (x.1, e) else (x.1, x.2)) x).1 = x.1 := by
    intro x; by_cases h : (x.1 == t) = true <;> simp [h]
  rw [hfun, find?_map_fst _ hg]
  by_cases hid : t' = t
  · subst hid
    rw [if_pos rfl]
    cases hf : f.trees.find? (·.1 == t') with
    | none => rfl
    | some x =>
      have h1 : (x.1 == t') = true := by simpa using List.find?_some hf
      simp only [Option.map_some, h1, if_true]
  · rw [if_neg hid]
    cases hf : f.trees.find? (·.1 == t') with
    | none => rfl
    | some x =>
      have h1 : x.1 = t' := by simpa using List.find?_some hf
      have h2 : (x.1 == t) = false := by simp [h1, hid]
      simp only [Option.map_some, h2, Bool.false_eq_true, if_false]

theorem tree?_setTree_same {f : Forest} {t : Nat} {root : Entry} (h : f.tree? t = some root) (e : Entry) :
    (f.setTree t e).tree? t = some e := by
  rw [tree?_setTree, if_pos rfl, h]; rfl

theorem tree?_setTree_ne (f : Forest) {t t' : Nat} (h : t' ≠ t) (e : Entry) :
    (f.setTree t e).tree? t' = f.tree? t' := by
  rw [tree?_setTree, if_neg h]

/-- Forest `f'` extends `f`: the same trees exist, and each extends its predecessor. -/
def FLe (f f' : Forest) : Prop :=
  ∀ id, (∀ root, f.tree? id = some root → ∃ root', f'.tree? id = some root' ∧ Le root root') ∧
    (f.tree? id = none → f'.tree? id = none)

theorem FLe.refl (f : Forest) : FLe f f := fun _ => ⟨fun root h => ⟨root, h, Le.refl _⟩, fun h => h⟩

theorem FLe.trans {a b c : Forest} (h1 : FLe a b) (h2 : FLe b c) : FLe a c := by
  intro id
  refine ⟨?_, fun h => (h2 id).2 ((h1 id).2 h)⟩
  intro root h
  obtain ⟨r1, hr1, l1⟩ := (h1 id).1 root h
  obtain ⟨r2, hr2, l2⟩ := (h2 id).1 r1 hr1
  exact ⟨r2, hr2, l1.trans l2⟩

theorem FLe.setTree {f : Forest} {t : Nat} {root root' : Entry} (h : f.tree? t = some root) (hle : Le root root') :
    FLe f (f.setTree t root') := by
  intro id
  by_cases hid : id = t
  · subst hid
    refine ⟨?_, fun hn => by rw [h] at hn; cases hn⟩
    intro r hr
    rw [h] at hr; cases hr
    exact ⟨root', tree?_setTree_same h root', hle⟩
  · rw [tree?_setTree_ne f hid]
    exact ⟨fun r hr => ⟨r, hr, Le.refl _⟩, fun h => h⟩

theorem FLe.isSome {f f' : Forest} (h : FLe f f') (id : Nat) : (f'.tree? id).isSome = (f.tree? id).isSome := by
  cases hf : f.tree? id with
  | none => rw [(h id).2 hf]
  | some root => obtain ⟨r', hr', _⟩ := (h id).1 root hf; rw [hr']; rfl

/-- Monotonicity on the view: what is visible in `f` is visible, unchanged, in an extension. -/
theorem FLe.view {f f' : Forest} (h : FLe f f') {l : NLoc} {d : EData} (hv : viewOf f l d) : viewOf f' l d := by
  obtain ⟨e, he, hd⟩ := hv
  unfold nodeAt at he
  cases hroot : f.tree? l.1 with
  | none => simp [hroot] at he
  | some root =>
    simp only [hroot, Option.bind_some] at he
    obtain ⟨root', hr', hle⟩ := (h l.1).1 root hroot
    obtain ⟨d', hd', hsame, _⟩ := hle l.2 e.d (by simp [fullAt, he])
    simp only [fullAt] at hd'
    cases hw : walk root' l.2 with
    | none => simp [hw] at hd'
    | some e' =>
      simp only [hw, Option.map_some, Option.some.injEq] at hd'
      refine ⟨e', by simp [nodeAt, hr', hw], ?_⟩
      rw [hd', hsame, hd]

/-- An error recorded on a visible node of the forest. -/
def FVisErr (f : Forest) (er : Err) : Prop := ∃ id root, f.tree? id = some root ∧ VisErr root er

theorem FVisErr.mono {f f' : Forest} {er : Err} (h : FVisErr f er) (hle : FLe f f') : FVisErr f' er := by
  obtain ⟨id, root, hr, hv⟩ := h
  obtain ⟨root', hr', l⟩ := (hle id).1 root hr
  exact ⟨id, root', hr', hv.mono l⟩

/-- Replacing a tree by one that shows the same data leaves the view as it is. -/
theorem viewOf_setTree_invisible {f : Forest} {t : Nat} {root root' : Entry} (h : f.tree? t = some root)
    (hinv : ∀ P, fullAt root' P = fullAt root P) : viewOf (f.setTree t root') = viewOf f := by
  funext l d
  apply propext
  have hnode : ∀ l : NLoc, (nodeAt (f.setTree t root') l).map (·.d) = (nodeAt f l).map (·.d) := by
    intro l
    unfold nodeAt
    by_cases hl : l.1 = t
    · rw [hl, tree?_setTree_same h, h]
      exact hinv l.2
    · rw [tree?_setTree_ne f hl]
  unfold viewOf
  constructor
  · rintro ⟨e, he, hd⟩
    have := hnode l
    rw [he] at this
    cases hn : nodeAt f l with
    | none => simp [hn] at this
    | some e' =>
      simp only [hn, Option.map_some, Option.some.injEq] at this
      exact ⟨e', rfl, by rw [← this]; exact hd⟩
  · rintro ⟨e, he, hd⟩
    have := hnode l
    rw [he] at this
    cases hn : nodeAt (f.setTree t root') l with
    | none => simp [hn] at this
    | some e' =>
      simp only [hn, Option.map_some, Option.some.injEq] at this
      exact ⟨e', rfl, by rw [this]; exact hd⟩

theorem viewOf_addErr_root {f : Forest} {id : Nat} {root : Entry} (h : f.tree? id = some root) (x : Err) :
    viewOf (f.setTree id (root.addErr x)) = viewOf f := by
  funext l d
  apply propext
  have hkid : ∀ k, kid (root.addErr x) k = kid root k := by
    intro k
    cases root with
    | mk dd c i o => simp [kid, Entry.addErr, Entry.withD, implicitIO, Entry.child?]
  have hw : ∀ P : NPath, P ≠ [] → walk (root.addErr x) P = walk root P := by
    intro P hP
    cases P with
    | nil => exact absurd rfl hP
    | cons k r => simp only [walk, hkid]
  unfold viewOf nodeAt
  by_cases hl : l.1 = id
  · rw [hl, tree?_setTree_same h, h]
    simp only [Option.bind_some]
    by_cases hP : l.2 = []
    · rw [hP]
      simp only [walk, Option.some.injEq]
      constructor
      · rintro ⟨e, rfl, hd⟩; exact ⟨root, rfl, by rw [← hd]; simp [Entry.addErr, nodeData]⟩
      · rintro ⟨e, rfl, hd⟩; exact ⟨_, rfl, by rw [← hd]; simp [Entry.addErr, nodeData]⟩
    · rw [hw l.2 hP]
  · rw [tree?_setTree_ne f hl]

theorem le_addErr (root : Entry) (x : Err) : Le root (root.addErr x) := by
  intro P d hd
  cases P with
  | nil =>
    simp only [fullAt_nil, Option.some.injEq] at hd
    subst hd
    exact ⟨_, rfl, by simp [Entry.addErr, nodeData], fun er h => by simp [Entry.addErr, h]⟩
  | cons k r =>
    have hkid : kid (root.addErr x) k = kid root k := by
      cases root with
      | mk dd c i o => simp [kid, Entry.addErr, Entry.withD, implicitIO, Entry.child?]
    refine ⟨d, ?_, rfl, fun _ h => h⟩
    rw [fullAt_cons] at hd ⊢
    rw [hkid]; exact hd

theorem viewOf_at {f : Forest} {t : Nat} {root : Entry} (h : f.tree? t = some root) (P : NPath) (d : EData) :
    viewOf f (t, P) d ↔ dataAt root P = some d := by
  unfold viewOf nodeAt dataAt
  simp only [h, Option.bind_some]
  cases walk root P with
  | none => simp
  | some e => simp

theorem viewOf_no_tree {f : Forest} {t : Nat} (h : f.tree? t = none) (P : NPath) (d : EData) : ¬ viewOf f (t, P) d := by
  unfold viewOf nodeAt
  simp [h]

/-! ### the pieces of one attempt -/

theorem failForest_view (id : Nat) (ae : Bool) (a : Entry) (f : Forest) : viewOf (failForest id ae a f) = viewOf f := by
  unfold failForest
  cases ae with
  | false => rfl
  | true =>
    simp only [if_true]
    cases h : f.tree? id with
    | none => rfl
    | some root => exact viewOf_addErr_root h _

theorem failForest_le (id : Nat) (ae : Bool) (a : Entry) (f : Forest) : FLe f (failForest id ae a f) := by
  unfold failForest
  cases ae with
  | false => exact FLe.refl f
  | true =>
    simp only [if_true]
    cases h : f.tree? id with
    | none => exact FLe.refl f
    | some root => exact FLe.setTree h (le_addErr root _)

theorem failForest_err (id : Nat) (a : Entry) (f : Forest) (h : (f.tree? id).isSome = true) :
    FVisErr (failForest id true a f) (Err.at_ a.d.node "augment-not-found") := by
  unfold failForest
  simp only [if_true]
  cases hr : f.tree? id with
  | none => simp [hr] at h
  | some root =>
    refine ⟨id, _, tree?_setTree_same hr _, [], _, rfl, ?_⟩
    simp [Entry.addErr]

theorem addOther_view (f : Forest) (id : Nat) : viewOf (addOther f id) = viewOf f := by
  unfold addOther
  cases h : f.tree? id with
  | none => rfl
  | some root => exact viewOf_addErr_root h _

theorem addOther_le (f : Forest) (id : Nat) : FLe f (addOther f id) := by
  unfold addOther
  cases h : f.tree? id with
  | none => exact FLe.refl f
  | some root => exact FLe.setTree h (le_addErr root _)

/-- The resolved augment (`Spec.Augment.Aug`) of a pending pair; `f0` is any forest of the run
(only whether the owner's tree exists is read, and that never changes). -/
def absAug (R : Res) (f0 : Forest) (id : Nat) (a : Entry) : Aug where
  owner := id
  body := a
  target := match R.tgt id a with
    | .go t names => some (t, names)
    | _ => none
  ns := nsOfR R f0 id

theorem canHave_iff (x : Entry) : canHaveChildren (nodeData x.d) = !cannotHaveChildren x := by
  simp only [canHaveChildren, cannotHaveChildren, nodeData, Bool.not_or, Bool.not_not, bne]

/-- Result of analysing one attempt. -/
inductive Outcome (R : Res) (id : Nat) (ae : Bool) (nsOf : String) (a : Entry) (f : Forest) : Forest × Bool → Prop
  | fail (f' : Forest) :
      viewOf f' = viewOf f → FLe f f' → (∀ f0, ¬ (absAug R f0 id a).Applicable (viewOf f)) →
      (ae = true → (f.tree? id).isSome = true → FVisErr f' (Err.at_ a.d.node "augment-not-found")) →
      Outcome R id ae nsOf a f (f', false)
  | ok (t : Nat) (names : NPath) (f1 : Forest) (root' : Entry) (q : Path) (x : Entry) :
      R.tgt id a = .go t names → viewOf f1 = viewOf f → FLe f f1 → f1.tree? t = some root' →
      Tracks root' names q x → cannotHaveChildren x = false →
      Outcome R id ae nsOf a f (f1.setTree t (root'.updateAt q fun te => te.merge (some nsOf) a), true)

theorem attemptR_outcome (R : Res) (id : Nat) (ae : Bool) (nsOf : String) (a : Entry) (f : Forest) :
    Outcome R id ae nsOf a f (attemptR R id ae nsOf a f) := by
  unfold attemptR findR
  -- a failure after the forest became `f1` (view-equal extension of `f`)
  have failCase : ∀ f1, viewOf f1 = viewOf f → FLe f f1 → (∀ f0, ¬ (absAug R f0 id a).Applicable (viewOf f)) →
      Outcome R id ae nsOf a f (failForest id ae a f1, false) := by
    intro f1 hv hle hna
    refine Outcome.fail _ ((failForest_view id ae a f1).trans hv) (hle.trans (failForest_le id ae a f1)) hna ?_
    intro hae hsome
    subst hae
    exact failForest_err id a f1 (by rw [hle.isSome]; exact hsome)
  cases htg : R.tgt id a with
  | noName =>
    simp only
    exact failCase f rfl (FLe.refl f) (by
      intro f0 ⟨t, ht, _⟩; simp [absAug, htg] at ht)
  | badPrefix =>
    simp only
    exact failCase _ (addOther_view f id) (addOther_le f id) (by
      intro f0 ⟨t, ht, _⟩; simp [absAug, htg] at ht)
  | go t names =>
    simp only
    have htarget : ∀ f0, (absAug R f0 id a).target = some (t, names) := by intro f0; simp [absAug, htg]
    cases hroot : f.tree? t with
    | none =>
      simp only
      exact failCase f rfl (FLe.refl f) (by
        intro f0 ⟨tt, ht, d, hd, _⟩
        rw [htarget f0] at ht; cases ht
        exact viewOf_no_tree hroot _ _ hd)
    | some root =>
      simp only
      obtain ⟨hfull, hsome, hnone⟩ := walkN_spec names root [] [] root (Tracks.nil root)
      have hv1 : viewOf (f.setTree t (walkN names root (some [])).2) = viewOf f :=
        viewOf_setTree_invisible hroot hfull
      have hle1 : FLe f (f.setTree t (walkN names root (some [])).2) :=
        FLe.setTree hroot (Le.of_fullAt_eq hfull)
      have ht1 : (f.setTree t (walkN names root (some [])).2).tree? t = some (walkN names root (some [])).2 :=
        tree?_setTree_same hroot _
      cases hres : (walkN names root (some [])).1 with
      | none =>
        simp only [Option.map_none]
        refine failCase _ hv1 hle1 ?_
        intro f0 ⟨tt, ht, d, hd, _⟩
        rw [htarget f0] at ht; cases ht
        have := (viewOf_at hroot names d).mp hd
        have hw := hnone hres
        simp only [List.nil_append] at hw
        simp [dataAt, hw] at this
      | some q =>
        simp only [Option.map_some]
        obtain ⟨x, hx⟩ := hsome q hres
        simp only [List.nil_append] at hx
        simp only [ht1, Option.bind_some, hx.getAt]
        by_cases hc : cannotHaveChildren x = true
        · simp only [hc, if_true]
          refine failCase _ hv1 hle1 ?_
          intro f0 ⟨tt, ht, d, hd, hcan⟩
          rw [htarget f0] at ht; cases ht
          have h1 := (viewOf_at hroot names d).mp hd
          have h2 : dataAt root names = some (nodeData x.d) := by
            rw [dataAt_eq_fullAt, ← hfull names]
            simp [fullAt, hx.walk]
          rw [h2] at h1
          simp only [Option.some.injEq] at h1
          rw [← h1, canHave_iff, hc] at hcan
          simp at hcan
        · simp only [hc, Bool.false_eq_true, if_false]
          exact Outcome.ok t names _ _ q x htg hv1 hle1 ht1 hx (by simpa using hc)

/-! ### a successful attempt on the view -/

/-- Below a node that received a collision-free merge: the old locations, plus the stamped
copies of the body's nodes. -/
theorem dataAt_merge_free (x a : Entry) (ns : String) (hr : x.d.isRpc = false) (hf : FreeIn x a.dir)
    (r : NPath) (d : EData) :
    dataAt (x.merge (some ns) a) r = some d ↔
      dataAt x r = some d ∨ ∃ c ∈ a.dir, ∃ r', r = c.name :: r' ∧ dataAt (stamp ns c) r' = some d := by
  cases r with
  | nil =>
    simp only [dataAt_nil, Option.some.injEq]
    have := merge_sameData x (some ns) a
    unfold SameData at this
    rw [this]
    constructor
    · exact fun h => Or.inl h
    · rintro (h | ⟨c, _, r', hr', _⟩)
      · exact h
      · cases hr'
  | cons k r' =>
    rw [dataAt_cons, dataAt_cons, kid_merge_free x ns a hr hf k, kid_nonrpc hr]
    cases hc : x.child? k with
    | some c0 =>
      simp only [Option.some_or, Option.bind_some]
      constructor
      · exact fun h => Or.inl h
      · rintro (h | ⟨c, hcm, r'', hr'', _⟩)
        · exact h
        · simp only [List.cons.injEq] at hr''
          have := hf.1 c hcm
          rw [← hr''.1, hc] at this
          cases this
    | none =>
      simp only [Option.none_or, Option.bind_none]
      constructor
      · intro h
        right
        cases hfnd : a.dir.find? (·.name == k) with
        | none => simp [hfnd] at h
        | some c =>
          simp only [hfnd, Option.map_some, Option.bind_some] at h
          have hn : c.name = k := by simpa using List.find?_some hfnd
          exact ⟨c, List.mem_of_find?_eq_some hfnd, r', by rw [hn], h⟩
      · rintro (h | ⟨c, hcm, r'', hr'', hd⟩)
        · cases h
        · simp only [List.cons.injEq] at hr''
          obtain ⟨rfl, rfl⟩ := hr''
          rw [find?_of_nodup a.dir hf.2 hcm]
          exact hd

theorem nsOfR_le (R : Res) {f f' : Forest} (h : FLe f f') (id : Nat) : nsOfR R f' id = nsOfR R f id := by
  unfold nsOfR
  have := h.isSome id
  cases h1 : f.tree? id <;> cases h2 : f'.tree? id <;> simp [h1, h2] at this ⊢

/-- A failed attempt. -/
theorem attempt_fail {R : Res} {id : Nat} {ae : Bool} {nsOf : String} {a : Entry} {f f' : Forest}
    (h : attemptR R id ae nsOf a f = (f', false)) :
    viewOf f' = viewOf f ∧ FLe f f' ∧ (∀ f0, ¬ (absAug R f0 id a).Applicable (viewOf f)) ∧
    (ae = true → (f.tree? id).isSome = true → FVisErr f' (Err.at_ a.d.node "augment-not-found")) := by
  have := attemptR_outcome R id ae nsOf a f
  rw [h] at this
  cases this with
  | fail _ h1 h2 h3 h4 => exact ⟨h1, h2, h3, h4⟩

/-- A successful attempt. -/
theorem attempt_ok {R : Res} {id : Nat} {ae : Bool} {nsOf : String} {a : Entry} {f f' : Forest}
    (h : attemptR R id ae nsOf a f = (f', true)) (f0 : Forest) (hns : nsOf = nsOfR R f0 id) :
    FLe f f' ∧ (absAug R f0 id a).Applicable (viewOf f) ∧
    ((absAug R f0 id a).roots.Nodup →
      ¬ (absAug R f0 id a).Collides (viewOf f) → viewOf f' = graft (viewOf f) (absAug R f0 id a)) ∧
    ((¬ (absAug R f0 id a).roots.Nodup ∨ (absAug R f0 id a).Collides (viewOf f)) →
      FVisErr f' (Err.at_ a.d.node "duplicate-node")) := by
  have hout := attemptR_outcome R id ae nsOf a f
  rw [h] at hout
  generalize hfe : (f', true) = res at hout
  cases hout with
  | fail _ _ _ _ _ => simp at hfe
  | ok t names f1 root' q x htg hv1 hle1 ht1 hx hcan =>
    simp only [Prod.mk.injEq, and_true] at hfe
    subst hfe
    have hnp := merge_namePres (some nsOf) a
    have htarget : (absAug R f0 id a).target = some (t, names) := by simp [absAug, htg]
    -- the target as the view shows it
    have hview_t : ∀ P d, viewOf f (t, P) d ↔ dataAt root' P = some d := by
      intro P d; rw [← hv1]; exact viewOf_at ht1 P d
    have hxdata : dataAt root' names = some (nodeData x.d) := by simp [dataAt, hx.walk]
    have hbelow : ∀ r, dataAt root' (names ++ r) = dataAt x r := by
      intro r; rw [dataAt_append, hx.walk]; rfl
    have hle2 : FLe f1 (f1.setTree t (root'.updateAt q fun te => te.merge (some nsOf) a)) :=
      FLe.setTree ht1 (Le.update hx hnp (Le.merge x (some nsOf) a))
    have ht2 : (f1.setTree t (root'.updateAt q fun te => te.merge (some nsOf) a)).tree? t =
        some (root'.updateAt q fun te => te.merge (some nsOf) a) := tree?_setTree_same ht1 _
    -- the model's collision test is the view's
    have hxr : x.d.isRpc = false := by
      simp only [cannotHaveChildren, Bool.or_eq_false_iff] at hcan
      exact hcan.2
    have hfree_iff :
        (FreeIn x a.dir ↔ ((absAug R f0 id a).roots.Nodup ∧ ¬ (absAug R f0 id a).Collides (viewOf f))) := by
      have hcol : (absAug R f0 id a).Collides (viewOf f) ↔ ∃ c ∈ a.dir, x.child? c.name ≠ none := by
        constructor
        · rintro ⟨tt, htt, k, hk, d, hd⟩
          rw [htarget] at htt; cases htt
          obtain ⟨c, hc, rfl⟩ := List.mem_map.mp hk
          refine ⟨c, hc, ?_⟩
          have := (hview_t _ d).mp hd
          rw [hbelow, dataAt_cons, kid_nonrpc hxr] at this
          intro hnone
          rw [hnone] at this
          cases this
        · rintro ⟨c, hc, hne⟩
          refine ⟨(t, names), htarget, c.name, List.mem_map.mpr ⟨c, hc, rfl⟩, ?_⟩
          cases hch : x.child? c.name with
          | none => exact absurd hch hne
          | some y =>
            refine ⟨nodeData y.d, (hview_t _ _).mpr ?_⟩
            rw [hbelow, dataAt_cons, kid_nonrpc hxr, hch]
            rfl
      unfold FreeIn
      rw [hcol]
      constructor
      · rintro ⟨h1, h2⟩
        exact ⟨h2, fun ⟨c, hc, hne⟩ => hne (h1 c hc)⟩
      · rintro ⟨h2, h1⟩
        refine ⟨fun c hc => ?_, h2⟩
        apply Classical.byContradiction
        intro hne
        exact h1 ⟨c, hc, hne⟩
    refine ⟨hle1.trans hle2, ?_, ?_, ?_⟩
    · -- applicable
      refine ⟨(t, names), htarget, nodeData x.d, (hview_t names _).mpr hxdata, ?_⟩
      rw [canHave_iff, hcan]; rfl
    · -- exact effect
      intro hnd hnc
      have hfree : FreeIn x a.dir := hfree_iff.mpr ⟨hnd, hnc⟩
      have hnsEq : (absAug R f0 id a).ns = nsOf := by simp [absAug, hns]
      funext l d
      apply propext
      obtain ⟨lt, P⟩ := l
      by_cases hlt : lt = t
      · subst hlt
        rw [viewOf_at ht2 P d]
        unfold graft
        rw [hview_t P d]
        by_cases hP : names <+: P
        · obtain ⟨r, rfl⟩ := hP
          have h1 : dataAt (root'.updateAt q fun te => te.merge (some nsOf) a) (names ++ r) =
              dataAt (x.merge (some nsOf) a) r := by
            simp only [dataAt]; rw [walk_update_below hx hnp]
          rw [h1, hbelow, dataAt_merge_free x a nsOf hxr hfree r d]
          constructor
          · rintro (h | ⟨c, hc, r', rfl, hd⟩)
            · exact Or.inr h
            · left
              refine ⟨(lt, names), htarget, rfl, c, hc, r', rfl, ?_⟩
              rw [hnsEq]
              simp only [dataAt] at hd
              cases hw : walk (stamp nsOf c) r' with
              | none => simp [hw] at hd
              | some e => exact ⟨e, rfl, by simpa [hw] using hd⟩
          · rintro (⟨tt, htt, _, c, hc, r', hr', e, he, hde⟩ | h)
            · rw [htarget] at htt; cases htt
              simp only at hr'
              have hr'' : r = c.name :: r' := List.append_cancel_left hr'
              right
              refine ⟨c, hc, r', hr'', ?_⟩
              rw [hnsEq] at he
              simp [dataAt, he, hde]
            · exact Or.inl h
        · have h1 := dataAt_update_off hx hnp P hP
          rw [h1]
          constructor
          · exact fun h => Or.inr h
          · rintro (⟨tt, htt, _, c, hc, r', hr', _⟩ | h)
            · rw [htarget] at htt; cases htt
              simp only at hr'
              exact absurd ⟨c.name :: r', hr'.symm⟩ hP
            · exact h
      · unfold graft
        have h1 : viewOf (f1.setTree t (root'.updateAt q fun te => te.merge (some nsOf) a)) (lt, P) d ↔
            viewOf f1 (lt, P) d := by
          unfold viewOf nodeAt
          simp only [tree?_setTree_ne f1 hlt]
        rw [h1, hv1]
        constructor
        · exact fun h => Or.inr h
        · rintro (⟨tt, htt, h2, _⟩ | h)
          · rw [htarget] at htt; cases htt
            exact absurd h2 hlt
          · exact h
    · -- a collision is recorded
      intro hbad
      have hnf : ¬ FreeIn x a.dir := by
        intro hf
        have := hfree_iff.mp hf
        rcases hbad with h | h
        · exact h this.1
        · exact this.2 h
      refine ⟨t, _, ht2, names, (x.merge (some nsOf) a).d, ?_, merge_collision_err x (some nsOf) a hnf⟩
      simp [fullAt, (hx.update hnp).walk]

theorem attempt_ok_le {R : Res} {id : Nat} {ae : Bool} {nsOf : String} {a : Entry} {f f' : Forest}
    (h : attemptR R id ae nsOf a f = (f', true)) : FLe f f' := by
  have hout := attemptR_outcome R id ae nsOf a f
  rw [h] at hout
  generalize hfe : (f', true) = res at hout
  cases hout with
  | fail _ _ _ _ _ => simp at hfe
  | ok t names f1 root' q x htg hv1 hle1 ht1 hx hcan =>
    simp only [Prod.mk.injEq, and_true] at hfe
    subst hfe
    exact hle1.trans (FLe.setTree ht1 (Le.update hx (merge_namePres (some nsOf) a) (Le.merge x (some nsOf) a)))

end Goyang.Lemmas.AugmentStep
