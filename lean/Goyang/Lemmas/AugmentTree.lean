import Goyang.Lemmas.AugmentConfl
/-
C07 — tree level: how `Entry.merge`, `Entry.updateAt` and the step loop of `Find` act on the flat
view (`Spec.Augment.walk`).  No uniqueness of child names is assumed anywhere: `walk` only ever
sees the first child of a name, exactly as `Entry.child?` / Go's map lookup does.
-/
namespace Goyang.Lemmas.AugmentTree
open Goyang.Model Goyang.Spec.Augment Goyang.Lemmas.AugmentConfl

/-! ### accessors -/

@[simp] theorem withD_d (e : Entry) (f : EData → EData) : (e.withD f).d = f e.d := by cases e; rfl
@[simp] theorem withD_dir (e : Entry) (f : EData → EData) : (e.withD f).dir = e.dir := by cases e; rfl
@[simp] theorem withD_inp (e : Entry) (f : EData → EData) : (e.withD f).inp = e.inp := by cases e; rfl
@[simp] theorem withD_out (e : Entry) (f : EData → EData) : (e.withD f).out = e.out := by cases e; rfl
@[simp] theorem withDir_d (e : Entry) (c : List Entry) : (e.withDir c).d = e.d := by cases e; rfl
@[simp] theorem withDir_dir (e : Entry) (c : List Entry) : (e.withDir c).dir = c := by cases e; rfl
@[simp] theorem withDir_inp (e : Entry) (c : List Entry) : (e.withDir c).inp = e.inp := by cases e; rfl
@[simp] theorem withDir_out (e : Entry) (c : List Entry) : (e.withDir c).out = e.out := by cases e; rfl
@[simp] theorem mk_d (d : EData) (c i o : List Entry) : (Entry.mk d c i o).d = d := rfl
@[simp] theorem mk_dir (d : EData) (c i o : List Entry) : (Entry.mk d c i o).dir = c := rfl
@[simp] theorem mk_inp (d : EData) (c i o : List Entry) : (Entry.mk d c i o).inp = i := rfl
@[simp] theorem mk_out (d : EData) (c i o : List Entry) : (Entry.mk d c i o).out = o := rfl

theorem entry_ext {x y : Entry} (hd : x.d = y.d) (hc : x.dir = y.dir) (hi : x.inp = y.inp) (ho : x.out = y.out) :
    x = y := by
  cases x; cases y; simp only [mk_d, mk_dir, mk_inp, mk_out] at hd hc hi ho; subst hd hc hi ho; rfl

/-- Same observable data (everything but the error list). -/
def SameData (x y : Entry) : Prop := nodeData x.d = nodeData y.d

theorem SameData.refl (x : Entry) : SameData x x := rfl
theorem SameData.symm {x y : Entry} (h : SameData x y) : SameData y x := Eq.symm h
theorem SameData.trans {x y z : Entry} (h : SameData x y) (h' : SameData y z) : SameData x z := Eq.trans h h'

theorem SameData.field {α} (f : EData → α) {x y : Entry} (h : SameData x y) :
    f (nodeData x.d) = f (nodeData y.d) := by
  have h' : nodeData x.d = nodeData y.d := h
  rw [h']
theorem SameData.isRpc {x y : Entry} (h : SameData x y) : x.d.isRpc = y.d.isRpc := h.field EData.isRpc
theorem SameData.name {x y : Entry} (h : SameData x y) : x.name = y.name := h.field EData.name
theorem SameData.implicitIO {x y : Entry} (h : SameData x y) (b : Bool) : implicitIO x b = implicitIO y b := by
  have h1 : x.d.node = y.d.node := h.field EData.node
  have h2 : x.d.nodeMod = y.d.nodeMod := h.field EData.nodeMod
  have h3 : x.d.nodeKw = y.d.nodeKw := h.field EData.nodeKw
  simp [Goyang.Model.implicitIO, h1, h2, h3]

theorem sameData_of_d {x y : Entry} (h : x.d = y.d) : SameData x y := by simp [SameData, h]

/-- The data found at a name path. -/
def dataAt (e : Entry) (P : NPath) : Option EData := (walk e P).map fun x => nodeData x.d

theorem find?_map_name {g : Entry → Entry} (hg : ∀ x, (g x).name = x.name) (c : List Entry) (k : String) :
    (c.map g).find? (·.name == k) = (c.find? (·.name == k)).map g := by
  induction c with
  | nil => rfl
  | cons x xs ih =>
    simp only [List.map_cons, List.find?_cons, hg]
    cases h : (x.name == k) <;> simp [ih]

theorem child?_name {e c : Entry} {k : String} (h : e.child? k = some c) : c.name = k := by
  have := List.find?_some h
  simpa using this

/-! ### `Entry.merge` -/

/-- The copy `merge` files: stamped when a namespace is given. -/
def stampO (ns : Option String) (v : Entry) : Entry :=
  match ns with
  | some n => v.withD fun d => { d with ns := some n }
  | none => v

@[simp] theorem stampO_name (ns : Option String) (v : Entry) : (stampO ns v).name = v.name := by
  cases ns <;> simp [stampO, Entry.name]

theorem stampO_some (n : String) (v : Entry) : stampO (some n) v = stamp n v := rfl

/-- One iteration of the loop in `merge`. -/
def mstep (ns : Option String) (oe : Entry) (e v : Entry) : Entry :=
  match e.child? (stampO ns v).name with
  | some _ => e.addErr (Err.at_ oe.d.node "duplicate-node")
  | none => e.withDir (e.dir ++ [stampO ns v])

theorem merge_eq (e : Entry) (ns : Option String) (oe : Entry) :
    e.merge ns oe = oe.dir.foldl (mstep ns oe) (e.importErrors oe) := by
  unfold Entry.merge mstep stampO
  cases ns <;> rfl

theorem mstep_sameData (ns : Option String) (oe e v : Entry) : SameData (mstep ns oe e v) e := by
  unfold mstep
  split <;> simp [SameData, Entry.addErr, nodeData]

theorem mstep_inp (ns : Option String) (oe e v : Entry) : (mstep ns oe e v).inp = e.inp := by
  unfold mstep; split <;> simp [Entry.addErr]
theorem mstep_out (ns : Option String) (oe e v : Entry) : (mstep ns oe e v).out = e.out := by
  unfold mstep; split <;> simp [Entry.addErr]

theorem mstep_errors_mono (ns : Option String) (oe e v : Entry) {x : Err} (h : x ∈ e.d.errors) :
    x ∈ (mstep ns oe e v).d.errors := by
  unfold mstep; split <;> simp [Entry.addErr, h]

theorem fold_mstep_sameData (ns : Option String) (oe : Entry) (L : List Entry) (e : Entry) :
    SameData (L.foldl (mstep ns oe) e) e := by
  induction L generalizing e with
  | nil => exact SameData.refl _
  | cons v L ih => exact (ih _).trans (mstep_sameData ns oe e v)

theorem fold_mstep_inp (ns : Option String) (oe : Entry) (L : List Entry) (e : Entry) :
    (L.foldl (mstep ns oe) e).inp = e.inp := by
  induction L generalizing e with
  | nil => rfl
  | cons v L ih => simp [List.foldl_cons, ih, mstep_inp]

theorem fold_mstep_out (ns : Option String) (oe : Entry) (L : List Entry) (e : Entry) :
    (L.foldl (mstep ns oe) e).out = e.out := by
  induction L generalizing e with
  | nil => rfl
  | cons v L ih => simp [List.foldl_cons, ih, mstep_out]

theorem fold_mstep_errors_mono (ns : Option String) (oe : Entry) (L : List Entry) (e : Entry) {x : Err}
    (h : x ∈ e.d.errors) : x ∈ (L.foldl (mstep ns oe) e).d.errors := by
  induction L generalizing e with
  | nil => exact h
  | cons v L ih => exact ih _ (mstep_errors_mono ns oe e v h)

/-- Children present before stay the first of their name. -/
theorem mstep_child_mono (ns : Option String) (oe e v : Entry) {k : String} {c : Entry}
    (h : e.child? k = some c) : (mstep ns oe e v).child? k = some c := by
  unfold mstep
  split
  · simpa [Entry.child?, Entry.addErr] using h
  · simp only [Entry.child?, withDir_dir, List.find?_append]
    simp only [Entry.child?] at h
    simp [h]

theorem fold_mstep_child_mono (ns : Option String) (oe : Entry) (L : List Entry) (e : Entry) {k : String}
    {c : Entry} (h : e.child? k = some c) : (L.foldl (mstep ns oe) e).child? k = some c := by
  induction L generalizing e with
  | nil => exact h
  | cons v L ih => exact ih _ (mstep_child_mono ns oe e v h)

/-- No name of `L` is taken in `e`, and the names of `L` are distinct. -/
def FreeIn (e : Entry) (L : List Entry) : Prop :=
  (∀ c ∈ L, e.child? c.name = none) ∧ (L.map (·.name)).Nodup

/-- Collision-free merge loop: every node is filed, in order, behind the old children; no error. -/
theorem fold_mstep_free (ns : Option String) (oe : Entry) (L : List Entry) (e : Entry) (hf : FreeIn e L) :
    (L.foldl (mstep ns oe) e).dir = e.dir ++ L.map (stampO ns) ∧
    (L.foldl (mstep ns oe) e).d = e.d := by
  induction L generalizing e with
  | nil => simp
  | cons v L ih =>
    obtain ⟨hnone, hnd⟩ := hf
    have hv : e.child? v.name = none := hnone v (by simp)
    have hstep : mstep ns oe e v = e.withDir (e.dir ++ [stampO ns v]) := by
      unfold mstep; simp [hv]
    simp only [List.map_cons, List.nodup_cons] at hnd
    have hf' : FreeIn (e.withDir (e.dir ++ [stampO ns v])) L := by
      refine ⟨?_, hnd.2⟩
      intro c hc
      have h1 : e.child? c.name = none := hnone c (by simp [hc])
      have h2 : ¬ v.name = c.name := fun h => hnd.1 (h ▸ List.mem_map.mpr ⟨c, hc, rfl⟩)
      simp only [Entry.child?, withDir_dir, List.find?_append] at h1 ⊢
      simp [h1, h2]
    obtain ⟨h1, h2⟩ := ih _ hf'
    simp only [List.foldl_cons, hstep]
    refine ⟨?_, ?_⟩
    · rw [h1]; simp
    · rw [h2]; simp

/-- A collision is recorded: when some name is taken or repeated, the loop leaves a
`duplicate-node` error on the receiver. -/
theorem fold_mstep_collision (ns : Option String) (oe : Entry) (L : List Entry) (e : Entry) (hf : ¬ FreeIn e L) :
    Err.at_ oe.d.node "duplicate-node" ∈ (L.foldl (mstep ns oe) e).d.errors := by
  induction L generalizing e with
  | nil => exact absurd ⟨by simp, by simp⟩ hf
  | cons v L ih =>
    simp only [List.foldl_cons]
    cases hv : e.child? v.name with
    | some c =>
      apply fold_mstep_errors_mono
      unfold mstep; simp [hv, Entry.addErr]
    | none =>
      have hstep : mstep ns oe e v = e.withDir (e.dir ++ [stampO ns v]) := by
        unfold mstep; simp [hv]
      rw [hstep]
      apply ih
      intro hf'
      apply hf
      obtain ⟨hnone, hnd⟩ := hf'
      have hname : ∀ c ∈ L, e.child? c.name = none ∧ ¬ v.name = c.name := by
        intro c hc
        have := hnone c hc
        simp only [Entry.child?, withDir_dir, List.find?_append] at this
        cases h1 : e.dir.find? (·.name == c.name) with
        | some y => simp [h1] at this
        | none =>
          simp only [h1, Option.none_or, List.find?_cons, stampO_name] at this
          refine ⟨by simpa [Entry.child?] using h1, ?_⟩
          intro h; simp [h] at this
      refine ⟨?_, ?_⟩
      · intro c hc
        rcases List.mem_cons.mp hc with rfl | hc
        · exact hv
        · exact (hname c hc).1
      · simp only [List.map_cons, List.nodup_cons]
        refine ⟨?_, hnd⟩
        intro hm
        obtain ⟨c, hc, hcn⟩ := List.mem_map.mp hm
        exact (hname c hc).2 hcn.symm

/-! ### walking: one step -/

theorem kid_nonrpc {e : Entry} (h : e.d.isRpc = false) (k : String) : kid e k = e.child? k := by
  simp [kid, h]

theorem kid_input {e : Entry} (h : e.d.isRpc = true) :
    kid e "input" = some (e.inp.head?.getD (implicitIO e true)) := by
  simp [kid, h]

theorem kid_output {e : Entry} (h : e.d.isRpc = true) :
    kid e "output" = some (e.out.head?.getD (implicitIO e false)) := by
  simp [kid, h]

theorem dataAt_nil (e : Entry) : dataAt e [] = some (nodeData e.d) := rfl

theorem dataAt_cons (e : Entry) (k : String) (P : NPath) :
    dataAt e (k :: P) = (kid e k).bind fun c => dataAt c P := by
  simp only [dataAt, walk]
  cases kid e k <;> simp

theorem dataAt_append (e : Entry) (P Q : NPath) :
    dataAt e (P ++ Q) = (walk e P).bind fun x => dataAt x Q := by
  simp only [dataAt, walk_append]
  cases walk e P <;> simp

/-- The complete recorded data (errors included) at a name path. -/
def fullAt (e : Entry) (P : NPath) : Option EData := (walk e P).map fun x => x.d

theorem fullAt_nil (e : Entry) : fullAt e [] = some e.d := rfl

theorem fullAt_cons (e : Entry) (k : String) (P : NPath) :
    fullAt e (k :: P) = (kid e k).bind fun c => fullAt c P := by
  simp only [fullAt, walk]
  cases kid e k <;> simp

theorem dataAt_eq_fullAt (e : Entry) (P : NPath) : dataAt e P = (fullAt e P).map nodeData := by
  simp only [dataAt, fullAt]
  cases walk e P <;> rfl

/-! ### `updateAt` along a tracked path -/

/-- `g` keeps names. -/
def NamePres (g : Entry → Entry) : Prop := ∀ y, (g y).name = y.name

theorem updateAt_nil (e : Entry) (g : Entry → Entry) : e.updateAt [] g = g e := by
  simp [Entry.updateAt]

theorem updateAt_child (d : EData) (c i o : List Entry) (k : String) (q : Path) (g : Entry → Entry) :
    (Entry.mk d c i o).updateAt (.child k :: q) g =
      .mk d (c.map fun x => if x.name == k then x.updateAt q g else x) i o := by
  simp [Entry.updateAt]

theorem updateAt_input (d : EData) (c i o : List Entry) (q : Path) (g : Entry → Entry) :
    (Entry.mk d c i o).updateAt (.input :: q) g = .mk d c (i.map (·.updateAt q g)) o := by
  simp [Entry.updateAt]

theorem updateAt_output (d : EData) (c i o : List Entry) (q : Path) (g : Entry → Entry) :
    (Entry.mk d c i o).updateAt (.output :: q) g = .mk d c i (o.map (·.updateAt q g)) := by
  simp [Entry.updateAt]

theorem updateAt_cons_d (e : Entry) (s : Step) (q : Path) (g : Entry → Entry) : (e.updateAt (s :: q) g).d = e.d := by
  cases e; cases s <;> simp [Entry.updateAt]

theorem updateAt_name (e : Entry) (q : Path) (g : Entry → Entry) (hg : NamePres g) :
    (e.updateAt q g).name = e.name := by
  cases q with
  | nil => rw [updateAt_nil]; exact hg e
  | cons s q => simp [Entry.name, updateAt_cons_d]

/-- Following the names `ns` from `e` goes, through nodes that are really there, along the step
path `q` to the node `x`. -/
inductive Tracks : Entry → NPath → Path → Entry → Prop
  | nil (e : Entry) : Tracks e [] [] e
  | child {e c x : Entry} {k : String} {ns : NPath} {q : Path} :
      e.d.isRpc = false → e.child? k = some c → Tracks c ns q x → Tracks e (k :: ns) (.child k :: q) x
  | input {e c x : Entry} {ns : NPath} {q : Path} :
      e.d.isRpc = true → e.inp.head? = some c → Tracks c ns q x → Tracks e ("input" :: ns) (.input :: q) x
  | output {e c x : Entry} {ns : NPath} {q : Path} :
      e.d.isRpc = true → e.out.head? = some c → Tracks c ns q x → Tracks e ("output" :: ns) (.output :: q) x

theorem Tracks.getAt {e x : Entry} {ns : NPath} {q : Path} (h : Tracks e ns q x) : e.getAt q = some x := by
  induction h with
  | nil e => rfl
  | child _ hc _ ih => simp [Entry.getAt, hc, ih]
  | input _ hc _ ih => simp [Entry.getAt, hc, ih]
  | output _ hc _ ih => simp [Entry.getAt, hc, ih]

theorem Tracks.walk {e x : Entry} {ns : NPath} {q : Path} (h : Tracks e ns q x) : walk e ns = some x := by
  induction h with
  | nil e => rfl
  | child hr hc _ ih => simp [Spec.Augment.walk, kid_nonrpc hr, hc, ih]
  | input hr hc _ ih => simp [Spec.Augment.walk, kid_input hr, hc, ih]
  | output hr hc _ ih => simp [Spec.Augment.walk, kid_output hr, hc, ih]

theorem Tracks.length {e x : Entry} {ns : NPath} {q : Path} (h : Tracks e ns q x) : ns.length = q.length := by
  induction h <;> simp [*]

/-- Extending a track by one more step. -/
theorem Tracks.snoc {e x y : Entry} {ns : NPath} {q : Path} (h : Tracks e ns q x) {k : String} {s : Step}
    (h1 : Tracks x [k] [s] y) : Tracks e (ns ++ [k]) (q ++ [s]) y := by
  induction h with
  | nil e => simpa using h1
  | child hr hc _ ih => exact Tracks.child hr hc (ih h1)
  | input hr hc _ ih => exact Tracks.input hr hc (ih h1)
  | output hr hc _ ih => exact Tracks.output hr hc (ih h1)

theorem Tracks.append {e x y : Entry} {ns ms : NPath} {q r : Path} (h : Tracks e ns q x) (h1 : Tracks x ms r y) :
    Tracks e (ns ++ ms) (q ++ r) y := by
  induction h with
  | nil e => simpa using h1
  | child hr hc _ ih => exact Tracks.child hr hc (ih h1)
  | input hr hc _ ih => exact Tracks.input hr hc (ih h1)
  | output hr hc _ ih => exact Tracks.output hr hc (ih h1)

/-- Updating at the end of a track keeps the track. -/
theorem Tracks.update {e x : Entry} {ns : NPath} {q : Path} (h : Tracks e ns q x) {g : Entry → Entry}
    (hg : NamePres g) : Tracks (e.updateAt q g) ns q (g x) := by
  induction h with
  | nil e => rw [updateAt_nil]; exact Tracks.nil _
  | @child e c x k ns q hr hc _ ih =>
    cases e with
    | mk d c' i o =>
      rw [updateAt_child]
      refine Tracks.child hr ?_ ih
      have hG : ∀ y : Entry, ((fun y : Entry => if y.name == k then y.updateAt q g else y) y).name = y.name := by
        intro y; by_cases hy : (y.name == k) = true <;> simp [hy, updateAt_name _ _ _ hg]
      have := find?_map_name hG c' k
      simp only [Entry.child?, mk_dir] at hc ⊢
      rw [this, hc]
      have hn : c.name = k := by simpa using List.find?_some hc
      simp [hn]
  | @input e c x ns q hr hc _ ih =>
    cases e with
    | mk d c' i o =>
      rw [updateAt_input]
      refine Tracks.input hr ?_ ih
      simp only [mk_inp] at hc ⊢
      simp [List.head?_map, hc]
  | @output e c x ns q hr hc _ ih =>
    cases e with
    | mk d c' i o =>
      rw [updateAt_output]
      refine Tracks.output hr ?_ ih
      simp only [mk_out] at hc ⊢
      simp [List.head?_map, hc]

/-- W1: below the updated node one sees the new node. -/
theorem walk_update_below {e x : Entry} {np : NPath} {q : Path} (h : Tracks e np q x) {g : Entry → Entry}
    (hg : NamePres g) (r : NPath) : walk (e.updateAt q g) (np ++ r) = walk (g x) r := by
  rw [walk_append, (h.update hg).walk]; rfl

/-- W2: off the updated node's subtree every location keeps its data, errors included. -/
theorem fullAt_update_off {e x : Entry} {np : NPath} {q : Path} (h : Tracks e np q x) {g : Entry → Entry}
    (hg : NamePres g) : ∀ P : NPath, ¬ np <+: P → fullAt (e.updateAt q g) P = fullAt e P := by
  induction h with
  | nil e => intro P hP; exact absurd (List.nil_prefix) hP
  | @child e c x k ns q hr hc _ ih =>
    intro P hP
    cases e with
    | mk d c' i o =>
      rw [updateAt_child]
      cases P with
      | nil => rfl
      | cons k' P' =>
        rw [fullAt_cons, fullAt_cons, kid_nonrpc (by simpa using hr), kid_nonrpc hr]
        have hG : ∀ y : Entry, ((fun y : Entry => if y.name == k then y.updateAt q g else y) y).name = y.name := by
          intro y; by_cases hy : (y.name == k) = true <;> simp [hy, updateAt_name _ _ _ hg]
        have hm := find?_map_name hG c' k'
        simp only [Entry.child?, mk_dir] at hc ⊢
        rw [hm]
        cases hf : c'.find? (·.name == k') with
        | none => simp
        | some y =>
          have hyn : y.name = k' := by simpa using List.find?_some hf
          simp only [Option.map_some, Option.bind_some]
          by_cases hk : k' = k
          · subst hk
            rw [hf] at hc; cases hc
            simp only [hyn, beq_self_eq_true, if_true]
            apply ih
            intro hpre; exact hP (List.cons_prefix_cons.mpr ⟨rfl, hpre⟩)
          · have : (y.name == k) = false := by simp [hyn, hk]
            simp [this]
  | @input e c x ns q hr hc _ ih =>
    intro P hP
    cases e with
    | mk d c' i o =>
      rw [updateAt_input]
      cases P with
      | nil => rfl
      | cons k' P' =>
        rw [fullAt_cons, fullAt_cons]
        simp only [mk_inp, mk_d] at hc hr
        by_cases hk : k' = "input"
        · subst hk
          rw [kid_input (by simpa using hr), kid_input (by simpa using hr)]
          simp only [mk_inp, List.head?_map, hc, Option.map_some, Option.getD_some, Option.bind_some]
          apply ih
          intro hpre; exact hP (List.cons_prefix_cons.mpr ⟨rfl, hpre⟩)
        · have hI : implicitIO (Entry.mk d c' (i.map (·.updateAt q g)) o) false = implicitIO (Entry.mk d c' i o) false := by
            simp [implicitIO]
          simp [kid, hr, hk, hI]
  | @output e c x ns q hr hc _ ih =>
    intro P hP
    cases e with
    | mk d c' i o =>
      rw [updateAt_output]
      cases P with
      | nil => rfl
      | cons k' P' =>
        rw [fullAt_cons, fullAt_cons]
        simp only [mk_out, mk_d] at hc hr
        by_cases hk : k' = "output"
        · subst hk
          rw [kid_output (by simpa using hr), kid_output (by simpa using hr)]
          simp only [mk_out, List.head?_map, hc, Option.map_some, Option.getD_some, Option.bind_some]
          apply ih
          intro hpre; exact hP (List.cons_prefix_cons.mpr ⟨rfl, hpre⟩)
        · have hI : implicitIO (Entry.mk d c' i (o.map (·.updateAt q g))) true = implicitIO (Entry.mk d c' i o) true := by
            simp [implicitIO]
          simp [kid, hr, hk, hI]

theorem dataAt_update_off {e x : Entry} {np : NPath} {q : Path} (h : Tracks e np q x) {g : Entry → Entry}
    (hg : NamePres g) (P : NPath) (hP : ¬ np <+: P) : dataAt (e.updateAt q g) P = dataAt e P := by
  rw [dataAt_eq_fullAt, dataAt_eq_fullAt, fullAt_update_off h hg P hP]

/-- An update that cannot be seen below the node cannot be seen at all. -/
theorem dataAt_update_invisible {e x : Entry} {np : NPath} {q : Path} (h : Tracks e np q x) {g : Entry → Entry}
    (hg : NamePres g) (hinv : ∀ r, dataAt (g x) r = dataAt x r) : ∀ P : NPath, dataAt (e.updateAt q g) P = dataAt e P := by
  intro P
  by_cases hP : np <+: P
  · obtain ⟨r, rfl⟩ := hP
    simp only [dataAt]
    rw [walk_update_below h hg, walk_append, h.walk]
    exact hinv r
  · exact dataAt_update_off h hg P hP

/-! ### errors recorded in a tree -/

theorem mem_allErrorsL {er : Err} (l : List Entry) : er ∈ Entry.allErrorsL l ↔ ∃ e ∈ l, er ∈ e.allErrors := by
  induction l with
  | nil => simp [Entry.allErrorsL]
  | cons x xs ih => simp [Entry.allErrorsL, ih]

theorem mem_allErrors {er : Err} (e : Entry) :
    er ∈ e.allErrors ↔ (∃ c ∈ e.dir, er ∈ c.allErrors) ∨ (∃ c ∈ e.inp, er ∈ c.allErrors) ∨
      (∃ c ∈ e.out, er ∈ c.allErrors) ∨ er ∈ e.d.errors := by
  cases e with
  | mk d c i o => simp [Entry.allErrors, mem_allErrorsL]

theorem own_errors_sub {er : Err} (e : Entry) (h : er ∈ e.d.errors) : er ∈ e.allErrors :=
  (mem_allErrors e).mpr (Or.inr (Or.inr (Or.inr h)))

/-- The errors of a node that is really in the tree are among the tree's errors. -/
theorem getAt_errors_sub {er : Err} : ∀ (q : Path) (e x : Entry), e.getAt q = some x → er ∈ x.allErrors → er ∈ e.allErrors
  | [], e, x, h, hx => by simp [Entry.getAt] at h; subst h; exact hx
  | .child k :: q, e, x, h, hx => by
    simp only [Entry.getAt] at h
    cases hc : e.child? k with
    | none => simp [hc] at h
    | some c =>
      simp only [hc, Option.bind_some] at h
      have := getAt_errors_sub q c x h hx
      exact (mem_allErrors e).mpr (Or.inl ⟨c, List.mem_of_find?_eq_some hc, this⟩)
  | .input :: q, e, x, h, hx => by
    simp only [Entry.getAt] at h
    cases hc : e.inp.head? with
    | none => simp [hc] at h
    | some c =>
      simp only [hc, Option.bind_some] at h
      have := getAt_errors_sub q c x h hx
      exact (mem_allErrors e).mpr (Or.inr (Or.inl ⟨c, List.mem_of_mem_head? hc, this⟩))
  | .output :: q, e, x, h, hx => by
    simp only [Entry.getAt] at h
    cases hc : e.out.head? with
    | none => simp [hc] at h
    | some c =>
      simp only [hc, Option.bind_some] at h
      have := getAt_errors_sub q c x h hx
      exact (mem_allErrors e).mpr (Or.inr (Or.inr (Or.inl ⟨c, List.mem_of_mem_head? hc, this⟩)))

/-- `g` never loses an error. -/
def ErrMono (g : Entry → Entry) : Prop := ∀ (y : Entry) (er : Err), er ∈ y.allErrors → er ∈ (g y).allErrors

/-- Errors persist under an update by an error-monotone function. -/
theorem updateAt_errors_mono {g : Entry → Entry} (hg : ErrMono g) {er : Err} :
    ∀ (q : Path) (e : Entry), er ∈ e.allErrors → er ∈ (e.updateAt q g).allErrors
  | [], e, h => by rw [updateAt_nil]; exact hg e er h
  | .child k :: q, .mk d c i o, h => by
    rw [updateAt_child]
    rw [mem_allErrors] at h ⊢
    simp only [mk_dir, mk_inp, mk_out, mk_d] at h ⊢
    rcases h with ⟨y, hy, hye⟩ | h
    · left
      refine ⟨if y.name == k then y.updateAt q g else y, List.mem_map.mpr ⟨y, hy, rfl⟩, ?_⟩
      by_cases hk : (y.name == k) = true
      · simp only [hk, if_true]; exact updateAt_errors_mono hg q y hye
      · simp only [hk, Bool.false_eq_true, if_false]; exact hye
    · exact Or.inr h
  | .input :: q, .mk d c i o, h => by
    rw [updateAt_input]
    rw [mem_allErrors] at h ⊢
    simp only [mk_dir, mk_inp, mk_out, mk_d] at h ⊢
    rcases h with h | ⟨y, hy, hye⟩ | h
    · exact Or.inl h
    · exact Or.inr (Or.inl ⟨y.updateAt q g, List.mem_map.mpr ⟨y, hy, rfl⟩, updateAt_errors_mono hg q y hye⟩)
    · exact Or.inr (Or.inr h)
  | .output :: q, .mk d c i o, h => by
    rw [updateAt_output]
    rw [mem_allErrors] at h ⊢
    simp only [mk_dir, mk_inp, mk_out, mk_d] at h ⊢
    rcases h with h | h | ⟨y, hy, hye⟩ | h
    · exact Or.inl h
    · exact Or.inr (Or.inl h)
    · exact Or.inr (Or.inr (Or.inl ⟨y.updateAt q g, List.mem_map.mpr ⟨y, hy, rfl⟩, updateAt_errors_mono hg q y hye⟩))
    · exact Or.inr (Or.inr (Or.inr h))

theorem addErr_errMono (x : Err) : ErrMono (fun e => e.addErr x) := by
  intro y er h
  rw [mem_allErrors] at h ⊢
  simp only [Entry.addErr, withD_dir, withD_inp, withD_out, withD_d] at h ⊢
  rcases h with h | h | h | h
  · exact Or.inl h
  · exact Or.inr (Or.inl h)
  · exact Or.inr (Or.inr (Or.inl h))
  · exact Or.inr (Or.inr (Or.inr (by simp [h])))

/-! ### `merge` as seen by `walk` -/

theorem importErrors_sameData (e c : Entry) : SameData (e.importErrors c) e := by
  simp [SameData, Entry.importErrors, Entry.addErrs, nodeData]
@[simp] theorem importErrors_dir (e c : Entry) : (e.importErrors c).dir = e.dir := by
  simp [Entry.importErrors, Entry.addErrs]
@[simp] theorem importErrors_inp (e c : Entry) : (e.importErrors c).inp = e.inp := by
  simp [Entry.importErrors, Entry.addErrs]
@[simp] theorem importErrors_out (e c : Entry) : (e.importErrors c).out = e.out := by
  simp [Entry.importErrors, Entry.addErrs]
theorem importErrors_child? (e c : Entry) (k : String) : (e.importErrors c).child? k = e.child? k := by
  simp [Entry.child?]

theorem merge_sameData (e : Entry) (ns : Option String) (oe : Entry) : SameData (e.merge ns oe) e := by
  rw [merge_eq]; exact (fold_mstep_sameData _ _ _ _).trans (importErrors_sameData e oe)

theorem merge_inp (e : Entry) (ns : Option String) (oe : Entry) : (e.merge ns oe).inp = e.inp := by
  rw [merge_eq, fold_mstep_inp, importErrors_inp]

theorem merge_out (e : Entry) (ns : Option String) (oe : Entry) : (e.merge ns oe).out = e.out := by
  rw [merge_eq, fold_mstep_out, importErrors_out]

theorem merge_namePres (ns : Option String) (oe : Entry) : NamePres fun te => te.merge ns oe :=
  fun y => (merge_sameData y ns oe).name

theorem merge_child_mono (e : Entry) (ns : Option String) (oe : Entry) {k : String} {c : Entry}
    (h : e.child? k = some c) : (e.merge ns oe).child? k = some c := by
  rw [merge_eq]; exact fold_mstep_child_mono _ _ _ _ (by rw [importErrors_child?]; exact h)

theorem freeIn_importErrors (e oe : Entry) (L : List Entry) : FreeIn (e.importErrors oe) L ↔ FreeIn e L := by
  simp [FreeIn, importErrors_child?]

theorem merge_free_dir (e : Entry) (ns : Option String) (oe : Entry) (hf : FreeIn e oe.dir) :
    (e.merge ns oe).dir = e.dir ++ oe.dir.map (stampO ns) := by
  rw [merge_eq, (fold_mstep_free ns oe oe.dir _ ((freeIn_importErrors e oe _).mpr hf)).1, importErrors_dir]

theorem merge_collision_err (e : Entry) (ns : Option String) (oe : Entry) (hf : ¬ FreeIn e oe.dir) :
    Err.at_ oe.d.node "duplicate-node" ∈ (e.merge ns oe).d.errors := by
  rw [merge_eq]; exact fold_mstep_collision ns oe oe.dir _ (fun h => hf ((freeIn_importErrors e oe _).mp h))

theorem mstep_errMono (ns : Option String) (oe v : Entry) : ErrMono fun e => mstep ns oe e v := by
  intro y er h
  simp only [mstep]
  split
  · exact addErr_errMono _ y er h
  · rw [mem_allErrors] at h ⊢
    simp only [withDir_dir, withDir_inp, withDir_out, withDir_d]
    rcases h with ⟨c, hc, hce⟩ | h
    · exact Or.inl ⟨c, List.mem_append_left _ hc, hce⟩
    · exact Or.inr h

theorem merge_errMono (ns : Option String) (oe : Entry) : ErrMono fun te => te.merge ns oe := by
  intro y er h
  simp only [merge_eq]
  have h0 : er ∈ (y.importErrors oe).allErrors := by
    rw [mem_allErrors] at h ⊢
    simp only [importErrors_dir, importErrors_inp, importErrors_out]
    rcases h with h | h | h | h
    · exact Or.inl h
    · exact Or.inr (Or.inl h)
    · exact Or.inr (Or.inr (Or.inl h))
    · exact Or.inr (Or.inr (Or.inr (by simp [Entry.importErrors, Entry.addErrs, h])))
  generalize y.importErrors oe = z at h0
  induction oe.dir generalizing z with
  | nil => exact h0
  | cons v L ih => exact ih _ (mstep_errMono ns oe v z er h0)

/-- One step down from a merged node: whatever was there is still there. -/
theorem kid_merge_mono (e : Entry) (ns : Option String) (oe : Entry) {k : String} {c : Entry}
    (h : kid e k = some c) : kid (e.merge ns oe) k = some c := by
  have hd := merge_sameData e ns oe
  unfold kid at h ⊢
  rw [hd.isRpc, merge_inp, merge_out, hd.implicitIO true, hd.implicitIO false]
  by_cases hr : e.d.isRpc = true
  · simpa [hr] using h
  · simp only [hr, Bool.false_eq_true, if_false] at h ⊢
    exact merge_child_mono e ns oe h

theorem walk_merge_mono (e : Entry) (ns : Option String) (oe : Entry) (k : String) (r : NPath) {x : Entry}
    (h : walk e (k :: r) = some x) : walk (e.merge ns oe) (k :: r) = some x := by
  simp only [walk] at h ⊢
  cases hk : kid e k with
  | none => simp [hk] at h
  | some c => rw [kid_merge_mono e ns oe hk]; simpa [hk] using h

theorem find?_stamp (ns : String) (L : List Entry) (k : String) :
    (L.map (stampO (some ns))).find? (·.name == k) = (L.find? (·.name == k)).map (stamp ns) := by
  have := find?_map_name (g := stampO (some ns)) (fun x => stampO_name _ x) L k
  rw [this]; rfl

/-- One step down from a node that received a collision-free merge: the old child of that name
if there is one, else the stamped copy of the body node of that name. -/
theorem kid_merge_free (e : Entry) (ns : String) (oe : Entry) (hr : e.d.isRpc = false) (hf : FreeIn e oe.dir)
    (k : String) :
    kid (e.merge (some ns) oe) k = (e.child? k).or ((oe.dir.find? (·.name == k)).map (stamp ns)) := by
  have hd := merge_sameData e (some ns) oe
  rw [kid_nonrpc (by rw [hd.isRpc]; exact hr)]
  simp only [Entry.child?, merge_free_dir e (some ns) oe hf, List.find?_append, find?_stamp]

/-- In a list with distinct names, looking a member up by its name finds it. -/
theorem find?_of_nodup (L : List Entry) (hn : (L.map (·.name)).Nodup) {c : Entry} (hc : c ∈ L) :
    L.find? (·.name == c.name) = some c := by
  induction L with
  | nil => cases hc
  | cons x xs ih =>
    simp only [List.map_cons, List.nodup_cons] at hn
    rw [List.find?_cons]
    rcases List.mem_cons.mp hc with rfl | hc
    · simp
    · have : ¬ x.name = c.name := fun h => hn.1 (h ▸ List.mem_map.mpr ⟨c, hc, rfl⟩)
      have hb : (x.name == c.name) = false := by simpa using this
      rw [hb]; exact ih hn.2 hc

/-! ### monotonicity: nothing visible is lost -/

theorem fullAt_append (e : Entry) (P Q : NPath) :
    fullAt e (P ++ Q) = (walk e P).bind fun x => fullAt x Q := by
  simp only [fullAt, walk_append]
  cases walk e P <;> simp

/-- An update that cannot be seen below the node (not even in the error lists) cannot be seen at all. -/
theorem fullAt_update_invisible {e x : Entry} {np : NPath} {q : Path} (h : Tracks e np q x) {g : Entry → Entry}
    (hg : NamePres g) (hinv : ∀ r, fullAt (g x) r = fullAt x r) : ∀ P : NPath, fullAt (e.updateAt q g) P = fullAt e P := by
  intro P
  by_cases hP : np <+: P
  · obtain ⟨r, rfl⟩ := hP
    simp only [fullAt]
    rw [walk_update_below h hg, walk_append, h.walk]
    exact hinv r
  · exact fullAt_update_off h hg P hP

/-- `e'` extends `e`: every location of `e` exists in `e'` with the same data and at least the
same errors. -/
def Le (e e' : Entry) : Prop :=
  ∀ P d, fullAt e P = some d → ∃ d', fullAt e' P = some d' ∧ nodeData d' = nodeData d ∧ ∀ er ∈ d.errors, er ∈ d'.errors

theorem Le.refl (e : Entry) : Le e e := fun _ d h => ⟨d, h, rfl, fun _ h => h⟩

theorem Le.trans {a b c : Entry} (h1 : Le a b) (h2 : Le b c) : Le a c := by
  intro P d h
  obtain ⟨d1, hd1, e1, m1⟩ := h1 P d h
  obtain ⟨d2, hd2, e2, m2⟩ := h2 P d1 hd1
  exact ⟨d2, hd2, e2.trans e1, fun er her => m2 er (m1 er her)⟩

theorem Le.of_fullAt_eq {a b : Entry} (h : ∀ P, fullAt b P = fullAt a P) : Le a b :=
  fun P d hd => ⟨d, by rw [h P]; exact hd, rfl, fun _ h => h⟩

/-- Updating a tracked node by an extension extends the tree. -/
theorem Le.update {e x : Entry} {np : NPath} {q : Path} (h : Tracks e np q x) {g : Entry → Entry}
    (hg : NamePres g) (hx : Le x (g x)) : Le e (e.updateAt q g) := by
  intro P d hd
  by_cases hP : np <+: P
  · obtain ⟨r, rfl⟩ := hP
    have h1 : fullAt e (np ++ r) = fullAt x r := by rw [fullAt_append, h.walk]; rfl
    have h2 : fullAt (e.updateAt q g) (np ++ r) = fullAt (g x) r := by
      simp only [fullAt]; rw [walk_update_below h hg]
    rw [h1] at hd
    rw [h2]
    exact hx r d hd
  · exact ⟨d, by rw [fullAt_update_off h hg P hP]; exact hd, rfl, fun _ h => h⟩

theorem Le.merge (e : Entry) (ns : Option String) (oe : Entry) : Le e (e.merge ns oe) := by
  intro P d hd
  cases P with
  | nil =>
    simp only [fullAt_nil, Option.some.injEq] at hd
    subst hd
    refine ⟨(e.merge ns oe).d, rfl, merge_sameData e ns oe, ?_⟩
    intro er her
    rw [merge_eq]
    apply fold_mstep_errors_mono
    simp [Entry.importErrors, Entry.addErrs, her]
  | cons k r =>
    simp only [fullAt] at hd ⊢
    cases hw : walk e (k :: r) with
    | none => simp [hw] at hd
    | some x =>
      rw [walk_merge_mono e ns oe k r hw]
      rw [hw] at hd
      exact ⟨d, hd, rfl, fun _ h => h⟩

/-- `er` is recorded on a node that can be reached by names. -/
def VisErr (e : Entry) (er : Err) : Prop := ∃ P d, fullAt e P = some d ∧ er ∈ d.errors

theorem VisErr.mono {e e' : Entry} {er : Err} (h : VisErr e er) (hle : Le e e') : VisErr e' er := by
  obtain ⟨P, d, hd, her⟩ := h
  obtain ⟨d', hd', _, hm⟩ := hle P d hd
  exact ⟨P, d', hd', hm er her⟩

theorem implicitIO_walk_errors {e : Entry} {b : Bool} {P : NPath} {x : Entry} {er : Err}
    (h : walk (implicitIO e b) P = some x) : er ∉ x.d.errors := by
  cases P with
  | nil => simp only [walk, Option.some.injEq] at h; subst h; simp [implicitIO]
  | cons k r =>
    simp only [walk] at h
    have : kid (implicitIO e b) k = none := by simp [kid, implicitIO, Entry.child?]
    simp [this] at h

/-- A visible error is one of the tree's errors (what `GetErrors` sweeps). -/
theorem VisErr.allErrors {e : Entry} {er : Err} (h : VisErr e er) : er ∈ e.allErrors := by
  obtain ⟨P, d, hd, her⟩ := h
  simp only [fullAt] at hd
  cases hw : walk e P with
  | none => simp [hw] at hd
  | some x =>
    simp only [hw, Option.map_some, Option.some.injEq] at hd
    subst hd
    induction P generalizing e with
    | nil => simp only [walk, Option.some.injEq] at hw; subst hw; exact own_errors_sub _ her
    | cons k r ih =>
      simp only [walk] at hw
      cases hk : kid e k with
      | none => simp [hk] at hw
      | some c =>
        simp only [hk, Option.bind_some] at hw
        unfold kid at hk
        by_cases hr : e.d.isRpc = true
        · simp only [hr, if_true] at hk
          by_cases hi : (k == "input") = true
          · simp only [hi, if_true, Option.some.injEq] at hk
            cases hh : e.inp.head? with
            | none =>
              simp only [hh, Option.getD_none] at hk
              subst hk
              exact absurd her (implicitIO_walk_errors hw)
            | some c0 =>
              simp only [hh, Option.getD_some] at hk
              subst hk
              exact (mem_allErrors e).mpr (Or.inr (Or.inl ⟨c0, List.mem_of_mem_head? hh, ih hw⟩))
          · simp only [hi, Bool.false_eq_true, if_false] at hk
            by_cases ho : (k == "output") = true
            · simp only [ho, if_true, Option.some.injEq] at hk
              cases hh : e.out.head? with
              | none =>
                simp only [hh, Option.getD_none] at hk
                subst hk
                exact absurd her (implicitIO_walk_errors hw)
              | some c0 =>
                simp only [hh, Option.getD_some] at hk
                subst hk
                exact (mem_allErrors e).mpr (Or.inr (Or.inr (Or.inl ⟨c0, List.mem_of_mem_head? hh, ih hw⟩)))
            · simp [ho] at hk
        · simp only [hr, Bool.false_eq_true, if_false] at hk
          exact (mem_allErrors e).mpr (Or.inl ⟨c, List.mem_of_find?_eq_some hk, ih hw⟩)

end Goyang.Lemmas.AugmentTree
