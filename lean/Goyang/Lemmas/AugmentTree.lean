import Goyang.Lemmas.AugmentConfl
/-
C07 — tree level: how `Entry.merge`, `Entry.updateAt` and the step loop of `Find` act on the flat
view (`Spec.Augment.walk`).  No uniqueness of child names is assumed anywhere: `walk` only ever
sees the first child of a name, exactly as `Entry.child?` / Go's map lookup does.
-/
namespace Goyang.Lemmas.AugmentTree
open Goyang.Model Goyang.Spec.Augment Goyang.Lemmas.AugmentConfl

/-! ### accessors -/

@[simp] theorem withD_d (e : Entry) (f : EData → EData) : (e.withD f).d = f e.d := by cases e; rfl
@[simp] theorem withD_dir (e : Entry) (f : EData → EData) : (e.withD f).dir = e.dir := by cases e; rfl
@[simp] theorem withD_inp (e : Entry) (f : EData → EData) : (e.withD f).inp = e.inp := by cases e; rfl
@[simp] theorem withD_out (e : Entry) (f : EData → EData) : (e.withD f).out = e.out := by cases e; rfl
@[simp] theorem withDir_d (e : Entry) (c : List Entry) : (e.withDir c).d = e.d := by cases e; rfl
@[simp] theorem withDir_dir (e : Entry) (c : List Entry) : (e.withDir c).dir = c := by cases e; rfl
@[simp] theorem withDir_inp (e : Entry) (c : List Entry) : (e.withDir c).inp = e.inp := by cases e; rfl
@[simp] theorem withDir_out (e : Entry) (c : List Entry) : (e.withDir c).out = e.out := by cases e; rfl
@[simp] theorem mk_d (d : EData) (c i o : List Entry) : (Entry.mk d c i o).d = d := rfl
@[simp] theorem mk_dir (d : EData) (c i o : List Entry) : (Entry.mk d c i o).dir = c := rfl
@[simp] theorem mk_inp (d : EData) (c i o : List Entry) : (Entry.mk d c i o).inp = i := rfl
@[simp] theorem mk_out (d : EData) (c i o : List Entry) : (Entry.mk d c i o).out = o := rfl

theorem entry_ext {x y : Entry} (hd : x.d = y.d) (hc : x.dir = y.dir) (hi : x.inp = y.inp) (ho : x.out = y.out) :
    x = y := by
  cases x; cases y; simp only [mk_d, mk_dir, mk_inp, mk_out] at hd hc hi ho; subst hd hc hi ho; rfl

/-- Same observable data (everything but the error list). -/
def SameData (x y : Entry) : Prop := nodeData x.d = nodeData y.d

theorem SameData.refl (x : Entry) : SameData x x := rfl
theorem SameData.symm {x y : Entry} (h : SameData x y) : SameData y x := Eq.symm h
theorem SameData.trans {x y z : Entry} (h : SameData x y) (h' : SameData y z) : SameData x z := Eq.trans h h'

theorem SameData.isRpc {x y : Entry} (h : SameData x y) : x.d.isRpc = y.d.isRpc :=
  congrArg EData.isRpc (show nodeData x.d = nodeData y.d from h)
theorem SameData.name {x y : Entry} (h : SameData x y) : x.name = y.name :=
  congrArg EData.name (show nodeData x.d = nodeData y.d from h)
theorem SameData.implicitIO {x y : Entry} (h : SameData x y) (b : Bool) : implicitIO x b = implicitIO y b := by
  have h1 : x.d.node = y.d.node := congrArg EData.node (show nodeData x.d = nodeData y.d from h)
  have h2 : x.d.nodeMod = y.d.nodeMod := congrArg EData.nodeMod (show nodeData x.d = nodeData y.d from h)
  have h3 : x.d.nodeKw = y.d.nodeKw := congrArg EData.nodeKw (show nodeData x.d = nodeData y.d from h)
  simp [Goyang.Model.implicitIO, h1, h2, h3]

theorem sameData_of_d {x y : Entry} (h : x.d = y.d) : SameData x y := by simp [SameData, h]

/-- The data found at a name path. -/
def dataAt (e : Entry) (P : NPath) : Option EData := (walk e P).map fun x => nodeData x.d

theorem find?_map_name {g : Entry → Entry} (hg : ∀ x, (g x).name = x.name) (c : List Entry) (k : String) :
    (c.map g).find? (·.name == k) = (c.find? (·.name == k)).map g := by
  induction c with
  | nil => rfl
  | cons x xs ih =>
    simp only [List.map_cons, List.find?_cons, hg]
    cases h : (x.name == k) <;> simp [ih]

theorem child?_name {e c : Entry} {k : String} (h : e.child? k = some c) : c.name = k := by
  have := List.find?_some h
  simpa using this

/-! ### `Entry.merge` -/

/-- The copy `merge` files: stamped when a namespace is given. -/
def stampO (ns : Option String) (v : Entry) : Entry :=
  match ns with
  | some n => v.withD fun d => { d with ns := some n }
  | none => v

@[simp] theorem stampO_name (ns : Option String) (v : Entry) : (stampO ns v).name = v.name := by
  cases ns <;> simp [stampO, Entry.name]

theorem stampO_some (n : String) (v : Entry) : stampO (some n) v = stamp n v := rfl

/-- One iteration of the loop in `merge`. -/
def mstep (ns : Option String) (oe : Entry) (e v : Entry) : Entry :=
  match e.child? (stampO ns v).name with
  | some _ => e.addErr (Err.at_ oe.d.node "duplicate-node")
  | none => e.withDir (e.dir ++ [stampO ns v])

theorem merge_eq (e : Entry) (ns : Option String) (oe : Entry) :
    e.merge ns oe = oe.dir.foldl (mstep ns oe) (e.importErrors oe) := by
  unfold Entry.merge mstep stampO
  cases ns <;> rfl

theorem mstep_sameData (ns : Option String) (oe e v : Entry) : SameData (mstep ns oe e v) e := by
  unfold mstep
  split <;> simp [SameData, Entry.addErr, nodeData]

theorem mstep_inp (ns : Option String) (oe e v : Entry) : (mstep ns oe e v).inp = e.inp := by
  unfold mstep; split <;> simp [Entry.addErr]
theorem mstep_out (ns : Option String) (oe e v : Entry) : (mstep ns oe e v).out = e.out := by
  unfold mstep; split <;> simp [Entry.addErr]

theorem mstep_errors_mono (ns : Option String) (oe e v : Entry) {x : Err} (h : x ∈ e.d.errors) :
    x ∈ (mstep ns oe e v).d.errors := by
  unfold mstep; split <;> simp [Entry.addErr, h]

theorem fold_mstep_sameData (ns : Option String) (oe : Entry) (L : List Entry) (e : Entry) :
    SameData (L.foldl (mstep ns oe) e) e := by
  induction L generalizing e with
  | nil => exact SameData.refl _
  | cons v L ih => exact (ih _).trans (mstep_sameData ns oe e v)

theorem fold_mstep_inp (ns : Option String) (oe : Entry) (L : List Entry) (e : Entry) :
    (L.foldl (mstep ns oe) e).inp = e.inp := by
  induction L generalizing e with
  | nil => rfl
  | cons v L ih => simp [List.foldl_cons, ih, mstep_inp]

theorem fold_mstep_out (ns : Option String) (oe : Entry) (L : List Entry) (e : Entry) :
    (L.foldl (mstep ns oe) e).out = e.out := by
  induction L generalizing e with
  | nil => rfl
  | cons v L ih => simp [List.foldl_cons, ih, mstep_out]

theorem fold_mstep_errors_mono (ns : Option String) (oe : Entry) (L : List Entry) (e : Entry) {x : Err}
    (h : x ∈ e.d.errors) : x ∈ (L.foldl (mstep ns oe) e).d.errors := by
  induction L generalizing e with
  | nil => exact h
  | cons v L ih => exact ih _ (mstep_errors_mono ns oe e v h)

/-- Children present before stay the first of their name. -/
theorem mstep_child_mono (ns : Option String) (oe e v : Entry) {k : String} {c : Entry}
    (h : e.child? k = some c) : (mstep ns oe e v).child? k = some c := by
  unfold mstep
  split
  · simpa [Entry.child?, Entry.addErr] using h
  · simp only [Entry.child?, withDir_dir, List.find?_append]
    simp only [Entry.child?] at h
    simp [h]

theorem fold_mstep_child_mono (ns : Option String) (oe : Entry) (L : List Entry) (e : Entry) {k : String}
    {c : Entry} (h : e.child? k = some c) : (L.foldl (mstep ns oe) e).child? k = some c := by
  induction L generalizing e with
  | nil => exact h
  | cons v L ih => exact ih _ (mstep_child_mono ns oe e v h)

/-- No name of `L` is taken in `e`, and the names of `L` are distinct. -/
def FreeIn (e : Entry) (L : List Entry) : Prop :=
  (∀ c ∈ L, e.child? c.name = none) ∧ (L.map (·.name)).Nodup

/-- Collision-free merge loop: every node is filed, in order, behind the old children; no error. -/
theorem fold_mstep_free (ns : Option String) (oe : Entry) (L : List Entry) (e : Entry) (hf : FreeIn e L) :
    (L.foldl (mstep ns oe) e).dir = e.dir ++ L.map (stampO ns) ∧
    (L.foldl (mstep ns oe) e).d = e.d := by
  induction L generalizing e with
  | nil => simp
  | cons v L ih =>
    obtain ⟨hnone, hnd⟩ := hf
    have hv : e.child? v.name = none := hnone v (by simp)
    have hstep : mstep ns oe e v = e.withDir (e.dir ++ [stampO ns v]) := by
      unfold mstep; simp [hv]
    simp only [List.map_cons, List.nodup_cons] at hnd
    have hf' : FreeIn (e.withDir (e.dir ++ [stampO ns v])) L := by
      refine ⟨?_, hnd.2⟩
      intro c hc
      have h1 : e.child? c.name = none := hnone c (by simp [hc])
      have h2 : ¬ v.name = c.name := fun h => hnd.1 (h ▸ List.mem_map.mpr ⟨c, hc, rfl⟩)
      simp only [Entry.child?, withDir_dir, List.find?_append] at h1 ⊢
      simp [h1, h2]
    obtain ⟨h1, h2⟩ := ih _ hf'
    simp only [List.foldl_cons, hstep]
    refine ⟨?_, ?_⟩
    · rw [h1]; simp
    · rw [h2]; simp

/-- A collision is recorded: when some name is taken or repeated, the loop leaves a
`duplicate-node` error on the receiver. -/
theorem fold_mstep_collision (ns : Option String) (oe : Entry) (L : List Entry) (e : Entry) (hf : ¬ FreeIn e L) :
    Err.at_ oe.d.node "duplicate-node" ∈ (L.foldl (mstep ns oe) e).d.errors := by
  induction L generalizing e with
  | nil => exact absurd ⟨by simp, by simp⟩ hf
  | cons v L ih =>
    simp only [List.foldl_cons]
    cases hv : e.child? v.name with
    | some c =>
      apply fold_mstep_errors_mono
      unfold mstep; simp [hv, Entry.addErr]
    | none =>
      have hstep : mstep ns oe e v = e.withDir (e.dir ++ [stampO ns v]) := by
        unfold mstep; simp [hv]
      rw [hstep]
      apply ih
      intro hf'
      apply hf
      obtain ⟨hnone, hnd⟩ := hf'
      have hname : ∀ c ∈ L, e.child? c.name = none ∧ ¬ v.name = c.name := by
        intro c hc
        have := hnone c hc
        simp only [Entry.child?, withDir_dir, List.find?_append] at this
        cases h1 : e.dir.find? (·.name == c.name) with
        | some y => simp [h1] at this
        | none =>
          simp only [h1, Option.none_or, List.find?_cons, stampO_name] at this
          refine ⟨by simpa [Entry.child?] using h1, ?_⟩
          intro h; simp [h] at this
      refine ⟨?_, ?_⟩
      · intro c hc
        rcases List.mem_cons.mp hc with rfl | hc
        · exact hv
        · exact (hname c hc).1
      · simp only [List.map_cons, List.nodup_cons]
        refine ⟨?_, hnd⟩
        intro hm
        obtain ⟨c, hc, hcn⟩ := List.mem_map.mp hm
        exact (hname c hc).2 hcn.symm

end Goyang.Lemmas.AugmentTree
