import Goyang.Lemmas.BridgeTraverse
import Goyang.Lemmas.AugmentReport
import Goyang.Lemmas.AugmentPaths
import Goyang.Lemmas.FuelProcess
/-
Bridge lemmas, part 2 (C07): the state with which `processAll` enters the augment phase
(`AugmentReport.phaseStart`, which is C04's `pstate0`) satisfies the hypotheses `PhaseInput` under
which C07 analyses the augment loop.  What is left as hypothesis speaks about the registry and the
statements loaded into it:

* `LoadedShape reg`   — the registry has the shape loading produces (distinct sequence numbers,
                        no module bound in both tables): `Fuel.LoadedShape`, decidable;
* `AugPosDistinct reg` — the augment statements of one (sub)module stand at different positions;
* `AugArgsPlain reg`  — every augment argument is an absolute schema node identifier: it starts
                        with `/` and no step is empty, `.` or `..` (before or behind the prefix).

Also here: `NoDupNames` (C07) against `KeysUnique` / `U` (C04) and along the pipeline; the module
cache only grows and holds the tree of every converted (sub)module (`cacheMono`, `tstate_cache_all`);
its keys are distinct (`cacheKeys`, `tstate_ckeys_nodup`).
-/
set_option linter.unusedVariables false
set_option linter.unusedSimpArgs false
namespace Goyang.Lemmas.Bridge
open Goyang.Model Goyang.Spec.Tree Goyang.Lemmas.Tree
open Goyang.Lemmas.AugmentModel Goyang.Lemmas.AugmentLoop Goyang.Lemmas.AugmentReport Goyang.Lemmas.AugmentPaths

/-! ### input predicates -/

instance (p : String) : Decidable (PlainPart p) := by unfold PlainPart; infer_instance

/-- An absolute schema node identifier without empty, `.` or `..` steps. -/
def PlainAbsArg (arg : String) : Prop :=
  (arg.splitOn "/").head? = some "" ∧ ∀ p ∈ (arg.splitOn "/").tail, PlainPart p

instance (arg : String) : Decidable (PlainAbsArg arg) := by unfold PlainAbsArg; infer_instance

/-- Every augment statement at the top level of a loaded (sub)module has such an argument. -/
def AugArgsPlain (reg : Registry) : Prop := ∀ m ∈ reg.mods, ∀ s ∈ m.stmt.all "augment", PlainAbsArg s.arg

instance (reg : Registry) : Decidable (AugArgsPlain reg) := by unfold AugArgsPlain; infer_instance

/-- The augment statements of one (sub)module stand at different positions of its text. -/
def AugPosDistinct (reg : Registry) : Prop :=
  ∀ m ∈ reg.mods, ((m.stmt.all "augment").map fun s => (s.line, s.col)).Nodup

instance (reg : Registry) : Decidable (AugPosDistinct reg) := by unfold AugPosDistinct; infer_instance

instance (reg : Registry) : Decidable (Fuel.LoadedShape reg) :=
  decidable_of_iff ((reg.mods.map (·.seq)).Nodup ∧
      ∀ m ∈ reg.mods, ¬ (reg.modules.any (·.2 == m.seq) = true ∧ reg.subModules.any (·.2 == m.seq) = true))
    ⟨fun h => ⟨h.1, h.2⟩, fun h => ⟨h.seqs, h.tables⟩⟩

theorem nodup_of_map {α β} (f : α → β) : ∀ (l : List α), (l.map f).Nodup → l.Nodup
  | [], _ => List.nodup_nil
  | x :: xs, h => by
    simp only [List.map_cons, List.nodup_cons] at h ⊢
    exact ⟨fun hx => h.1 (List.mem_map_of_mem hx), nodup_of_map f xs h.2⟩

/-! ### the conversion of all modules, with the call sites known -/

theorem keyOrder_mem (reg : Registry) (m : Mod) (h : m ∈ keyOrder reg) : m ∈ reg.mods := by
  unfold keyOrder at h
  simp only [List.mem_append, List.mem_filterMap] at h
  rcases h with ⟨kv, _, h⟩ | ⟨kv, _, h⟩ <;> exact Fuel.byId_mem h

theorem stOKT_empty (F : Frame) (S : List Nat) : StOKT F S {} :=
  ⟨stOK_empty _ _, by simp, by simp⟩

theorem tstate_okT (reg : Registry) (opts : Opts) (plug : Plug) {F : Frame}
    (hC : ClosedT (envOf reg opts plug) F) : StOKT F [] (tstate reg opts plug) := by
  unfold tstate
  refine foldl_inv (fun st => StOKT F [] st ∧ True) _ _ _ ⟨stOKT_empty F [], trivial⟩ ?_ |>.1
  intro st m hm hst
  exact ⟨(toEntry_okT hC (entryFuel reg) m [] m.stmt [] st [] (InvT.ofMod (keyOrder_mem reg m hm)) hst.1).2.1, trivial⟩

/-! ### the rows of the pending-augment table -/

/-- A row of `TState.augs`: filed by a loaded (sub)module, one entry per augment statement of it,
in written order; each entry remembers its statement and is named by the statement's argument
(or is an error entry, with the empty name). -/
def RowOK (reg : Registry) (p : Nat × List Entry) : Prop :=
  ∃ m ∈ reg.mods, p.1 = m.seq ∧ p.2.map (·.d.node) = m.stmt.all "augment" ∧ (∀ a ∈ p.2, a.d.nodeMod = m.seq) ∧
    ∀ a ∈ p.2, a.name = a.d.node.arg ∨ a.name = ""

def rowFrame (reg : Registry) : Frame := { PE := fun _ => True, PR := RowOK reg }

theorem closedT_rowFrame (env : Env) : ClosedT env (rowFrame env.reg) where
  withD _ _ _ _ _ _ := trivial
  addErrs _ _ _ := trivial
  addErr _ _ _ := trivial
  importErrors _ _ _ := trivial
  add _ _ _ _ _ _ _ _ _ _ _ _ _ _ _ := trivial
  rpcFlag _ _ _ _ _ _ _ _ _ _ _ := trivial
  merge _ _ _ _ _ := trivial
  setInp _ _ _ _ _ _ := trivial
  setOut _ _ _ _ _ _ := trivial
  typeSet _ _ _ _ := trivial
  laSet _ _ _ _ _ _ _ := trivial
  base0 _ _ _ _ := trivial
  errE _ _ _ _ _ := trivial
  leafE _ _ _ _ _ := trivial
  leafL _ _ _ _ _ _ _ := trivial
  row root scope n as inv hm _ h1 h2 h3 := by
    have hn := inv.top hm
    exact ⟨root, inv.root_mem, rfl, by rw [h1, hn], h2, h3⟩
  pc _ _ _ _ _ _ _ _ := trivial
  pxCache _ _ _ _ _ _ _ _ := trivial
  pxTriv _ _ _ _ _ := trivial
  pxErr _ _ _ _ _ := trivial
  pxDir _ _ _ _ _ _ _ _ _ _ _ _ := trivial

theorem tstate_rows (reg : Registry) (opts : Opts) (plug : Plug) : ∀ p ∈ (tstate reg opts plug).augs, RowOK reg p :=
  (tstate_okT reg opts plug (closedT_rowFrame (envOf reg opts plug))).rows

/-- The pending list of a tree, at the start of the augment phase, is empty or a row of `augs`. -/
theorem pendingOf_pstate0 (reg : Registry) (opts : Opts) (plug : Plug) (id : Nat) :
    (pstate0 reg opts plug).pendingOf id = [] ∨
    ∃ p ∈ (tstate reg opts plug).augs, p.1 = id ∧ (pstate0 reg opts plug).pendingOf id = p.2 := by
  unfold PState.pendingOf
  cases hf : (pstate0 reg opts plug).pending.find? (·.1 == id) with
  | none => left; rfl
  | some q =>
    simp only [Option.map_some, Option.getD_some]
    have hq := List.mem_of_find?_eq_some hf
    have hk : q.1 = id := by simpa using List.find?_some hf
    simp only [pstate0, pending0, List.mem_map] at hq
    obtain ⟨m, _, rfl⟩ := hq
    dsimp only at hk ⊢
    cases hg : (tstate reg opts plug).augs.find? (·.1 == m.seq) with
    | none => left; simp
    | some r =>
      right
      refine ⟨r, List.mem_of_find?_eq_some hg, ?_, by simp⟩
      have : r.1 = m.seq := by simpa using List.find?_some hg
      rw [this, hk]

theorem pendingOf_row (reg : Registry) (opts : Opts) (plug : Plug) (id : Nat) (a : Entry)
    (ha : a ∈ (pstate0 reg opts plug).pendingOf id) :
    ∃ p, RowOK reg p ∧ p.1 = id ∧ (pstate0 reg opts plug).pendingOf id = p.2 := by
  rcases pendingOf_pstate0 reg opts plug id with h | ⟨p, hp, h1, h2⟩
  · rw [h] at ha; cases ha
  · exact ⟨p, tstate_rows reg opts plug p hp, h1, h2⟩

/-! ### the four hypotheses of `PhaseInput` -/

theorem phaseStart_eq (reg : Registry) (opts : Opts) (plug : Plug) (s : PState) (order : List Nat)
    (h : phaseStart reg opts plug = some (s, order)) :
    s = pstate0 reg opts plug ∧ order = (augOrder reg).map (·.seq) := by
  unfold phaseStart at h
  simp only at h
  split at h
  · cases h
  · split at h
    · cases h
    · simp only [Option.some.injEq, Prod.mk.injEq] at h
      obtain ⟨hs, ho⟩ := h
      subst hs ho
      exact ⟨rfl, rfl⟩

/-- No augment entry is listed twice for one module. -/
theorem nodupPending_pstate0 (reg : Registry) (opts : Opts) (plug : Plug) (hpos : AugPosDistinct reg) :
    NodupPending (pstate0 reg opts plug) := by
  intro id
  rcases pendingOf_pstate0 reg opts plug id with h | ⟨p, hp, _, h2⟩
  · rw [h]; exact List.nodup_nil
  · rw [h2]
    obtain ⟨m, hm, _, hnodes, _, _⟩ := tstate_rows reg opts plug p hp
    have h1 : (m.stmt.all "augment").Nodup := nodup_of_map _ _ (hpos m hm)
    rw [← hnodes] at h1
    exact nodup_of_map _ _ h1

theorem plainAug_of_arg (reg : Registry) (id : Nat) (a : Entry) (h : a.d.name = "" ∨ PlainAbsArg a.d.name) :
    PlainAug reg id a := by
  unfold PlainAug findStart
  rcases h with h | ⟨h1, h2⟩
  · simp [h]
  · by_cases hn : (a.d.name == "") = true
    · simp [hn]
    · simp only [hn, Bool.false_eq_true, if_false, h1, if_true]
      split
      · rename_i t parts heq
        split at heq
        · cases heq
        · cases heq; exact h2
      · trivial

/-- Augment arguments that are absolute schema node identifiers give plain pending paths. -/
theorem plainPending_pstate0 (reg : Registry) (opts : Opts) (plug : Plug) (hplain : AugArgsPlain reg) :
    PlainPending reg (pstate0 reg opts plug) := by
  intro id a ha
  obtain ⟨p, ⟨m, hm, _, hnodes, _, hnames⟩, _, h2⟩ := pendingOf_row reg opts plug id a ha
  rw [h2] at ha
  apply plainAug_of_arg
  have hnode : a.d.node ∈ m.stmt.all "augment" := by
    rw [← hnodes]; exact List.mem_map_of_mem ha
  rcases hnames a ha with h | h
  · right
    have : a.d.name = a.d.node.arg := h
    rw [this]; exact hplain m hm _ hnode
  · left; exact h

/-- One row per tree in the pending table. -/
theorem keys_pstate0 (reg : Registry) (opts : Opts) (plug : Plug) (hL : Fuel.LoadedShape reg) :
    (keys (pstate0 reg opts plug)).Nodup :=
  Fuel.processAll_pending_keys_nodup reg hL _

/-- The tree of every (sub)module with augments exists. -/
theorem trees_pstate0 (reg : Registry) (opts : Opts) (plug : Plug) (id : Nat)
    (h : (pstate0 reg opts plug).pendingOf id ≠ []) : ((pstate0 reg opts plug).forest.tree? id).isSome = true := by
  obtain ⟨p, hp, h1, h2⟩ := pendingOf_ne_nil _ id h
  rw [tree?_isSome, ← h1]
  exact invB_pstate0 reg opts plug p hp h2

theorem phaseInput_pstate0 (reg : Registry) (opts : Opts) (plug : Plug) (hL : Fuel.LoadedShape reg)
    (hpos : AugPosDistinct reg) (hplain : AugArgsPlain reg) : PhaseInput reg (pstate0 reg opts plug) where
  plain := plainPending_pstate0 reg opts plug hplain
  nodup := nodupPending_pstate0 reg opts plug hpos
  keys := keys_pstate0 reg opts plug hL
  trees := trees_pstate0 reg opts plug

/-! ### `NoDupNames` (C07) against `KeysUnique` / `U` (C04) -/

theorem noDupNamesL_iff (l : List Entry) : NoDupNamesL l ↔ ∀ x ∈ l, NoDupNames x := by
  induction l with
  | nil => simp [NoDupNamesL]
  | cons a l ih => simp [NoDupNamesL, ih]

theorem noDupNames_mk (d : EData) (c i o : List Entry) : NoDupNames (.mk d c i o) ↔
    (c.map (·.name)).Nodup ∧ (∀ x ∈ c, NoDupNames x) ∧ (∀ x ∈ i, NoDupNames x) ∧ (∀ x ∈ o, NoDupNames x) := by
  rw [NoDupNames, noDupNamesL_iff, noDupNamesL_iff, noDupNamesL_iff]

/-- C04's `KeysUnique` (pairwise different sibling names, at most one rpc input and output, at
every node) is C07's `NoDupNames` plus the bound on input / output: `NoDupNames` asks nothing
about the names themselves (in particular not that they are non-empty). -/
theorem noDupNames_of_everyNode (q : Entry → Bool) (hq : ∀ x, q x = true → keysUniqueHere x = true) (e : Entry)
    (h : everyNode q e = true) : NoDupNames e := by
  induction e using entry_ind with
  | h d c i o hc hi ho =>
    rw [everyNode_mk] at h
    rw [noDupNames_mk]
    have := hq _ h.1
    rw [keysUniqueHere_iff] at this
    exact ⟨this.1, fun x hx => hc x hx (h.2.1 x hx), fun x hx => hi x hx (h.2.2.1 x hx),
      fun x hx => ho x hx (h.2.2.2 x hx)⟩

theorem noDupNames_of_keysUnique (e : Entry) (h : KeysUnique e) : NoDupNames e :=
  noDupNames_of_everyNode keysUniqueHere (fun _ h => h) e h

theorem keysUnique_iff (e : Entry) : KeysUnique e ↔
    NoDupNames e ∧ everyNode (fun x => decide (x.inp.length ≤ 1) && decide (x.out.length ≤ 1)) e = true := by
  induction e using entry_ind with
  | h d c i o hc hi ho =>
    unfold KeysUnique at hc hi ho ⊢
    rw [everyNode_mk, everyNode_mk, noDupNames_mk, keysUniqueHere_iff]
    constructor
    · rintro ⟨⟨h1, h2, h3⟩, h4, h5, h6⟩
      refine ⟨⟨h1, fun x hx => ((hc x hx).1 (h4 x hx)).1, fun x hx => ((hi x hx).1 (h5 x hx)).1,
        fun x hx => ((ho x hx).1 (h6 x hx)).1⟩, ?_, fun x hx => ((hc x hx).1 (h4 x hx)).2,
        fun x hx => ((hi x hx).1 (h5 x hx)).2, fun x hx => ((ho x hx).1 (h6 x hx)).2⟩
      show (decide (i.length ≤ 1) && decide (o.length ≤ 1)) = true
      rw [Bool.and_eq_true]; exact ⟨decide_eq_true h2, decide_eq_true h3⟩
    · rintro ⟨⟨h1, h4, h5, h6⟩, h23, k4, k5, k6⟩
      have h23' : (decide (i.length ≤ 1) && decide (o.length ≤ 1)) = true := h23
      rw [Bool.and_eq_true] at h23'
      exact ⟨⟨h1, of_decide_eq_true h23'.1, of_decide_eq_true h23'.2⟩, fun x hx => (hc x hx).2 ⟨h4 x hx, k4 x hx⟩,
        fun x hx => (hi x hx).2 ⟨h5 x hx, k5 x hx⟩, fun x hx => (ho x hx).2 ⟨h6 x hx, k6 x hx⟩⟩

theorem wfq_keysUnique (x : Entry) (h : wfq x = true) : keysUniqueHere x = true := by
  simp only [wfq, Bool.and_eq_true] at h; exact h.1.1

/-- `merge` keeps sibling names distinct, whatever it is given: a child whose name is taken is
refused (with a `duplicate-node` error), so no collision can make two siblings share a name. -/
theorem noDupNames_withD (b : Entry) (f : EData → EData) (hb : NoDupNames b) : NoDupNames (b.withD f) := by
  cases b with | mk d c i o => simp only [Entry.withD]; rw [noDupNames_mk] at hb ⊢; exact hb

theorem noDupNames_merge (e : Entry) (ns : Option String) (oe : Entry) (he : NoDupNames e)
    (ho : ∀ c ∈ oe.dir, NoDupNames c) : NoDupNames (e.merge ns oe) := by
  have step : ∀ (stamp : Entry → Entry) (x : Err), (∀ v, NoDupNames v → NoDupNames (stamp v)) → ∀ b v, v ∈ oe.dir →
      NoDupNames b → NoDupNames (match b.child? (stamp v).name with
        | some _ => b.addErr x
        | none => b.withDir (b.dir ++ [stamp v])) := by
    intro stamp x h1 b v hv hb
    split
    · exact noDupNames_withD _ _ hb
    · rename_i hk
      have hv' := h1 v (ho v hv)
      generalize stamp v = w at hk hv' ⊢
      cases b with | mk d c i o =>
      simp only [Entry.withDir, Entry.dir]
      rw [noDupNames_mk] at hb ⊢
      refine ⟨?_, ?_, hb.2.2⟩
      · rw [List.map_append, List.nodup_append]
        refine ⟨hb.1, by simp, ?_⟩
        intro a ha b' hb'
        simp only [List.map_cons, List.map_nil, List.mem_singleton] at hb'
        subst hb'
        obtain ⟨x, hx, rfl⟩ := List.mem_map.mp ha
        exact child?_none _ _ hk x hx
      · intro x hx
        rcases List.mem_append.mp hx with hx | hx
        · exact hb.2.1 x hx
        · simp only [List.mem_singleton] at hx; subst hx; exact hv'
  unfold Entry.merge
  cases ns with
  | none =>
    refine foldl_inv NoDupNames _ _ _ (noDupNames_withD _ _ he) ?_
    intro b v hv hb
    exact step id _ (fun v hv => hv) b v hv hb
  | some n =>
    refine foldl_inv NoDupNames _ _ _ (noDupNames_withD _ _ he) ?_
    intro b v hv hb
    exact step (fun v => v.withD fun d => { d with ns := some n }) _ (fun v hv => noDupNames_withD _ _ hv) b v hv hb

theorem updateAt_name' (g : Entry → Entry) (hg : ∀ y, (g y).name = y.name) : ∀ (p : Path) (e : Entry),
    (e.updateAt p g).name = e.name
  | [], e => hg e
  | s :: p, .mk d c i o => by cases s <;> rfl

/-- Updating one node by a function that keeps `NoDupNames` and the node's name keeps `NoDupNames`. -/
theorem noDupNames_updateAt (g : Entry → Entry) (hg : ∀ y, NoDupNames y → NoDupNames (g y))
    (hn : ∀ y, (g y).name = y.name) : ∀ (p : Path) (e : Entry), NoDupNames e → NoDupNames (e.updateAt p g)
  | [], e, h => hg e h
  | s :: p, .mk d c i o, h => by
    rw [noDupNames_mk] at h
    cases s with
    | child k =>
      simp only [Entry.updateAt]
      rw [noDupNames_mk]
      refine ⟨?_, ?_, h.2.2⟩
      · have : (c.map fun x => if (x.name == k) = true then x.updateAt p g else x).map (·.name) = c.map (·.name) := by
          rw [List.map_map]
          apply List.map_congr_left
          intro x _
          simp only [Function.comp]
          split
          · exact updateAt_name' g hn p x
          · rfl
        rw [this]; exact h.1
      · intro x hx
        obtain ⟨y, hy, rfl⟩ := List.mem_map.mp hx
        split
        · exact noDupNames_updateAt g hg hn p y (h.2.1 y hy)
        · exact h.2.1 y hy
    | input =>
      simp only [Entry.updateAt]
      rw [noDupNames_mk]
      refine ⟨h.1, h.2.1, ?_, h.2.2.2⟩
      intro x hx
      obtain ⟨y, hy, rfl⟩ := List.mem_map.mp hx
      exact noDupNames_updateAt g hg hn p y (h.2.2.1 y hy)
    | output =>
      simp only [Entry.updateAt]
      rw [noDupNames_mk]
      refine ⟨h.1, h.2.1, h.2.2.1, ?_⟩
      intro x hx
      obtain ⟨y, hy, rfl⟩ := List.mem_map.mp hx
      exact noDupNames_updateAt g hg hn p y (h.2.2.2 y hy)

theorem noDupNames_addErr (e : Entry) (x : Err) (h : NoDupNames e) : NoDupNames (e.addErr x) := by
  cases e with | mk d c i o => simp only [Entry.addErr, Entry.withD]; rw [noDupNames_mk] at h ⊢; exact h

theorem noDupNames_implicitIO (parent : Entry) (b : Bool) : NoDupNames (implicitIO parent b) := by
  unfold implicitIO; rw [noDupNames_mk]; simp

/-- The augment stage keeps `NoDupNames` of every tree, provided the children of every pending
augment entry have it: the three operations of the stage (`Find` with the lazily created rpc input /
output, error recording, `merge` at the target) keep it unconditionally. -/
theorem augClosed_noDupNames : AugClosed NoDupNames (fun a => ∀ c ∈ a.dir, NoDupNames c) where
  find reg f start ctx name hf hs :=
    find_inv2 NoDupNames
      (walkParts_inv2 NoDupNames
        (fun root p e h _ _ _ => noDupNames_updateAt _ (fun y hy => by
            cases y with | mk d c i o =>
            simp only [setImplicitIn]; rw [noDupNames_mk] at hy ⊢
            exact ⟨hy.1, hy.2.1, fun x hx => by
              simp only [List.mem_singleton] at hx; subst hx; exact noDupNames_implicitIO _ _, hy.2.2.2⟩)
          (fun y => by cases y; rfl) p root h)
        (fun root p e h _ _ _ => noDupNames_updateAt _ (fun y hy => by
            cases y with | mk d c i o =>
            simp only [setImplicitOut]; rw [noDupNames_mk] at hy ⊢
            exact ⟨hy.1, hy.2.1, hy.2.2.1, fun x hx => by
              simp only [List.mem_singleton] at hx; subst hx; exact noDupNames_implicitIO _ _⟩)
          (fun y => by cases y; rfl) p root h))
      (fun e x h => noDupNames_addErr e x h) reg f start ctx name hf hs
  addErr e x h := noDupNames_addErr e x h
  mergeAt root path te a ns h _ _ ha :=
    noDupNames_updateAt _ (fun y hy => noDupNames_merge y ns a hy ha) (fun y => (rootKeep_merge y ns a).1) path root h

/-! ### `NoDupNames` along the pipeline -/

/-- Every error-free tree the conversion leaves in the cache, and every error-free pending
augment entry, has distinct sibling names at every level. -/
theorem noDupNames_forest0 (reg : Registry) (opts : Opts) (plug : Plug) :
    (∀ t ∈ (forest0 reg opts plug).trees, NoErrors t.2 → NoDupNames t.2) ∧
    (∀ p ∈ (tstate reg opts plug).augs, ∀ a ∈ p.2, NoErrors a → NoDupNames a) := by
  have hC := tstate_ok reg opts plug (closed_cond (localOK_wfq (envOf reg opts plug)))
  exact ⟨fun t ht hne => noDupNames_of_everyNode wfq wfq_keysUnique _ (hC.cache t ht hne),
    fun p hp a ha hne => noDupNames_of_everyNode wfq wfq_keysUnique _ (hC.augs p hp a ha hne)⟩

/-- At the start of the augment phase (the conversion left no error in any tree) every tree has
`NoDupNames`. -/
theorem noDupNames_pstate0 (reg : Registry) (opts : Opts) (plug : Plug)
    (h0 : allErrs (pstate0 reg opts plug).forest = []) :
    ∀ t ∈ (pstate0 reg opts plug).forest.trees, NoDupNames t.2 := by
  intro t ht
  have hne : ForestAll NoErrors (forest0 reg opts plug) := (forestErrs_eq_nil _).1 h0
  exact (noDupNames_forest0 reg opts plug).1 t ht (hne t ht)

/-- Along the augment loop (any fuel, any module order), started where `processAll` starts it:
every tree in which no error has been recorded — in particular no `duplicate-node` collision — has
`NoDupNames`. -/
theorem noDupNames_loop (reg : Registry) (opts : Opts) (plug : Plug) (fuel : Nat) (mods : Array Nat) :
    ∀ t ∈ (augmentLoop reg fuel mods (pstate0 reg opts plug)).2.forest.trees, NoErrors t.2 → NoDupNames t.2 := by
  have hq := localOK_wfq (envOf reg opts plug)
  have h1 := augmentLoop_ainv (augClosed_treeInv hq) reg fuel mods (pstate0 reg opts plug) (ainv_pstate0 reg opts plug hq)
  intro t ht hne
  exact noDupNames_of_everyNode wfq wfq_keysUnique _ ((h1.trees t ht).1.2 hne)

/-- The same at the end of the whole augment part of `Process` (loop, FixChoice, retry rounds,
reporting sweep, FixChoice): the forest the deviations are applied to. -/
theorem noDupNames_preDev (reg : Registry) (opts : Opts) (plug : Plug) :
    ∀ t ∈ (preDev reg opts plug).forest.trees, NoErrors t.2 → NoDupNames t.2 := by
  have hq := localOK_wfqB (envOf reg opts plug) false (fun h => absurd h (by simp))
  have h1 := ainv_preDev reg opts plug hq (wfqB_fixChoice false)
  intro t ht hne
  exact noDupNames_of_everyNode (wfqB false) (wfqB_keysUnique false) _ ((h1.trees t ht).1.2 hne)

/-! ### the cache holds the tree of every converted (sub)module -/

/-- Every loaded statement is a `module` or `submodule` statement (the AST builder returns nothing
else at the top level of a text). -/
def ModsAreModules (reg : Registry) : Prop := ∀ m ∈ reg.mods, isModKw m.stmt = true

instance (reg : Registry) : Decidable (ModsAreModules reg) := by unfold ModsAreModules; infer_instance

def ckeys (st : TState) : List Nat := st.cache.map (·.1)

/-- The module cache only grows. -/
def cacheMono (env : Env) : RelFrame env where
  R _ st st' := ∀ k ∈ ckeys st, k ∈ ckeys st'
  refl _ _ _ h := h
  trans _ _ _ _ h1 h2 k hk := h2 k (h1 k hk)
  weaken _ _ _ _ h := h
  merged _ _ _ _ h := h
  gcache _ _ _ _ h := h
  augs _ _ _ _ h := h
  cache root scope n v st st1 e _ _ _ _ h k hk := by
    simp only [ckeys, List.map_append, List.mem_append]
    exact Or.inl (h k hk)

theorem entryFuel_succ (reg : Registry) : ∃ k, entryFuel reg = k + 1 := by
  rw [Fuel.entryFuel_eq]; exact ⟨_, rfl⟩

/-- A top-level conversion of a (sub)module statement leaves its entry in the cache. -/
theorem module_cached (env : Env) (fuel : Nat) (rec : Rec) (root : Mod) (scope : List Stmt) (n : Stmt) (st : TState)
    (hm : isModKw n = true) : root.seq ∈ ckeys (toEntryBody env fuel rec root scope n [] st).2 := by
  have hm' : (n.kw == "module" || n.kw == "submodule") = true := hm
  have hg : (n.kw == "grouping") = false := by
    simp only [Bool.or_eq_true, beq_iff_eq] at hm'
    rcases hm' with h | h <;> simp [h]
  have hl : (n.kw == "leaf") = false := by
    simp only [Bool.or_eq_true, beq_iff_eq] at hm'
    rcases hm' with h | h <;> simp [h]
  have hll : (n.kw == "leaf-list") = false := by
    simp only [Bool.or_eq_true, beq_iff_eq] at hm'
    rcases hm' with h | h <;> simp [h]
  have hu : (n.kw == "uses") = false := by
    simp only [Bool.or_eq_true, beq_iff_eq] at hm'
    rcases hm' with h | h <;> simp [h]
  unfold toEntryBody
  simp only [hm', hg, hl, hll, hu, if_true, Bool.false_eq_true, if_false, List.contains_nil, Bool.and_false, Bool.true_or]
  split
  · rename_i k e hfind
    simp only [ckeys, List.mem_map]
    exact ⟨(k, e), List.mem_of_find?_eq_some hfind, by simpa using List.find?_some hfind⟩
  · unfold dirBody
    simp only [if_true, ckeys, List.map_append, List.mem_append, List.map_cons, List.map_nil, List.mem_singleton]
    exact Or.inr trivial

theorem tstate_cache_all (reg : Registry) (opts : Opts) (plug : Plug) (hmods : ModsAreModules reg) :
    ∀ m ∈ keyOrder reg, m.seq ∈ ckeys (tstate reg opts plug) := by
  obtain ⟨fuel, hfuel⟩ := entryFuel_succ reg
  have gen : ∀ (l : List Mod) (st : TState), (∀ m ∈ l, m ∈ reg.mods) →
      (∀ k ∈ ckeys st, k ∈ ckeys (l.foldl (fun st m => (toEntry (envOf reg opts plug) (entryFuel reg) m [] m.stmt [] st).2) st)) ∧
      ∀ m ∈ l, m.seq ∈ ckeys (l.foldl (fun st m => (toEntry (envOf reg opts plug) (entryFuel reg) m [] m.stmt [] st).2) st) := by
    intro l
    induction l with
    | nil => intro st _; exact ⟨fun k h => h, fun m h => by cases h⟩
    | cons m l ih =>
      intro st hl
      simp only [List.foldl_cons]
      have hm : m ∈ reg.mods := hl m (by simp)
      obtain ⟨i1, i2⟩ := ih (toEntry (envOf reg opts plug) (entryFuel reg) m [] m.stmt [] st).2 (fun x hx => hl x (by simp [hx]))
      have hmono := toEntry_rel (cacheMono (envOf reg opts plug)) (entryFuel reg) m [] m.stmt [] st (InvT.ofMod hm)
      refine ⟨fun k hk => i1 k (hmono k hk), ?_⟩
      intro x hx
      rcases List.mem_cons.mp hx with hx | hx
      · subst hx
        apply i1
        rw [hfuel, toEntry_succ]
        exact module_cached _ _ _ _ _ _ _ (hmods x hm)
      · exact i2 x hx
  exact (gen (keyOrder reg) {} (fun m hm => keyOrder_mem reg m hm)).2

/-- Every module and submodule bound in one of the two tables is in the conversion order. -/
theorem allMods_keyOrder (reg : Registry) (m : Mod) (hm : m ∈ allMods reg) : ∃ m' ∈ keyOrder reg, m'.seq = m.seq := by
  simp only [allMods, Registry.distinctModules, Registry.distinctSubs, List.mem_append, List.mem_filter,
    List.any_eq_true] at hm
  unfold keyOrder
  simp only [List.mem_append, List.mem_filterMap, Tree.mem_sortBy]
  rcases hm with ⟨h1, kv, h2, h3⟩ | ⟨h1, kv, h2, h3⟩
  · obtain ⟨m', hm', hs⟩ := byId_some_of_mem reg m h1
    have : kv.2 = m.seq := by simpa using h3
    exact ⟨m', Or.inl ⟨kv, h2, by rw [this]; exact hm'⟩, hs⟩
  · obtain ⟨m', hm', hs⟩ := byId_some_of_mem reg m h1
    have : kv.2 = m.seq := by simpa using h3
    exact ⟨m', Or.inr ⟨kv, h2, by rw [this]; exact hm'⟩, hs⟩

/-- The tree of every (sub)module exists when the augment phase starts. -/
theorem trees_all_pstate0 (reg : Registry) (opts : Opts) (plug : Plug) (hmods : ModsAreModules reg) :
    ∀ m ∈ allMods reg, ((pstate0 reg opts plug).forest.tree? m.seq).isSome = true := by
  intro m hm
  obtain ⟨m', hm', hs⟩ := allMods_keyOrder reg m hm
  rw [tree?_isSome, ← hs]
  exact tstate_cache_all reg opts plug hmods m' hm'

/-! ### the cache keys are distinct -/

/-- The call appends rows to the module cache whose keys are new, pairwise different, and are not
the sequence number of a (sub)module whose conversion is in progress. -/
def cacheKeys (env : Env) (hseq : (env.reg.mods.map (·.seq)).Nodup) : RelFrame env where
  R v st st' := ∃ ext : List (Nat × Entry), st'.cache = st.cache ++ ext ∧ (ext.map (·.1)).Nodup ∧
    (∀ k ∈ ext.map (·.1), k ∉ ckeys st) ∧
    (∀ k ∈ ext.map (·.1), ∀ m ∈ env.reg.mods, m.seq = k → v.contains (nodeId m m.stmt) = false)
  refl v st := ⟨[], by simp, by simp, by simp, by simp⟩
  trans v a b c := by
    rintro ⟨e1, h1, n1, d1, v1⟩ ⟨e2, h2, n2, d2, v2⟩
    refine ⟨e1 ++ e2, by rw [h2, h1, List.append_assoc], ?_, ?_, ?_⟩
    · rw [List.map_append, List.nodup_append]
      refine ⟨n1, n2, ?_⟩
      intro x hx y hy hxy
      subst hxy
      apply d2 x hy
      simp only [ckeys, h1, List.map_append, List.mem_append]
      exact Or.inr hx
    · intro k hk
      rw [List.map_append, List.mem_append] at hk
      rcases hk with hk | hk
      · exact d1 k hk
      · intro hk'
        apply d2 k hk
        simp only [ckeys, h1, List.map_append, List.mem_append]
        exact Or.inl hk'
    · intro k hk
      rw [List.map_append, List.mem_append] at hk
      rcases hk with hk | hk
      · exact v1 k hk
      · exact v2 k hk
  weaken v x a b := by
    rintro ⟨e1, h1, n1, d1, v1⟩
    refine ⟨e1, h1, n1, d1, ?_⟩
    intro k hk m hm hmk
    have := v1 k hk m hm hmk
    simp only [List.contains_cons, Bool.or_eq_false_iff] at this
    exact this.2
  merged v st m := ⟨[], by simp, by simp, by simp, by simp⟩
  gcache v st x := ⟨[], by simp, by simp, by simp, by simp⟩
  augs v st x := ⟨[], by simp, by simp, by simp, by simp⟩
  cache root scope n v st st1 e inv hm hmiss hc := by
    rintro ⟨e1, h1, n1, d1, v1⟩
    have hn : n = root.stmt := inv.top hm
    have hroot1 : root.seq ∉ e1.map (·.1) := by
      intro hk
      have := v1 root.seq hk root inv.root_mem rfl
      rw [← hn] at this
      simp at this
    have hroot0 : root.seq ∉ ckeys st := by
      intro hk
      simp only [ckeys, List.mem_map] at hk
      obtain ⟨x, hx, hxk⟩ := hk
      have := List.find?_eq_none.mp hmiss x hx
      simp [hxk] at this
    refine ⟨e1 ++ [(root.seq, e)], by simp [h1], ?_, ?_, ?_⟩
    · rw [List.map_append, List.nodup_append]
      refine ⟨n1, by simp, ?_⟩
      intro x hx y hy hxy
      simp only [List.map_cons, List.map_nil, List.mem_singleton] at hy
      subst hxy; subst hy
      exact hroot1 hx
    · intro k hk
      rw [List.map_append, List.mem_append] at hk
      rcases hk with hk | hk
      · exact d1 k hk
      · simp only [List.map_cons, List.map_nil, List.mem_singleton] at hk
        subst hk; exact hroot0
    · intro k hk m hm' hmk
      rw [List.map_append, List.mem_append] at hk
      rcases hk with hk | hk
      · have := v1 k hk m hm' hmk
        simp only [List.contains_cons, Bool.or_eq_false_iff] at this
        exact this.2
      · simp only [List.map_cons, List.map_nil, List.mem_singleton] at hk
        subst hk
        have : m = root := Fuel.eq_of_nodup_map (·.seq) env.reg.mods hseq m hm' root inv.root_mem hmk
        subst this
        rw [← hn]; exact hc

/-- One entry per converted (sub)module: the keys of the cache the conversion leaves are distinct. -/
theorem tstate_ckeys_nodup (reg : Registry) (opts : Opts) (plug : Plug) (hL : Fuel.LoadedShape reg) :
    (ckeys (tstate reg opts plug)).Nodup := by
  unfold tstate
  refine (foldl_inv (fun st : TState => (ckeys st).Nodup ∧ True) _ _ _ ⟨by simp [ckeys], trivial⟩ ?_).1
  intro st m hm ⟨hst, _⟩
  refine ⟨?_, trivial⟩
  obtain ⟨ext, h1, n1, d1, _⟩ := toEntry_rel (cacheKeys (envOf reg opts plug) hL.seqs) (entryFuel reg) m [] m.stmt [] st
    (InvT.ofMod (keyOrder_mem reg m hm))
  simp only [ckeys, h1, List.map_append]
  rw [List.nodup_append]
  exact ⟨hst, n1, fun x hx y hy hxy => d1 y hy (hxy ▸ hx)⟩

end Goyang.Lemmas.Bridge
