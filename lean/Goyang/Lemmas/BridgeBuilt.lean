import Goyang.Lemmas.Tree
import Goyang.Lemmas.ConfigNs
import Goyang.Lemmas.ConfigNsToEntry
import Goyang.Lemmas.Find
/-
Bridge lemmas, part 7 (C12): provenance along the augment part of `processAll`.

`Spec.ConfigNs.Built` has the three stamp-relevant steps (conversion, graft by augment,
FixChoice).  The augment loop also performs steps that write no stamp: `Find` records an error on
the root of the start tree (unresolvable prefix), `Entry.Augment` records `augment-not-found` on
it, and `Find` creates an absent rpc input / output on its way.  `Built'` adds these as
constructors that leave the provenance as it is (`rootErr`, `implicit`), and `congr` (a forest is
only ever observed through `tree?`).  `built'_namespace` is C12's provenance theorem for `Built'`;
the rest threads `Built'` through `augmentTree`, `augmentPass`, `augmentLoop`, the retry rounds, the
reporting sweep and `FixChoice`.
-/
set_option linter.unusedVariables false
set_option linter.unusedSimpArgs false
namespace Goyang.Lemmas.Bridge
open Goyang.Model Goyang.Spec.ConfigNs Goyang.Lemmas.ConfigNs
open Goyang.Spec.Find (addImplicit GrowStep Grown)

/-! ### `Built'` -/

/-- `Spec.ConfigNs.Built` with the steps of the augment loop that write no stamp. -/
inductive Built' (reg : Registry) : Forest → (Loc → Option Nat) → Prop
  | init {f : Forest} :
      (∀ id t, f.tree? id = some t → noStampBelow t = true) →
      Built' reg f (fun loc => some loc.1)
  | graft {f : Forest} {prov prov' : Loc → Option Nat} {by_ t : Nat} {path : Path} {root te a : Entry} :
      Built' reg f prov →
      f.tree? t = some root → root.getAt path = some te →
      noStampL a.dir = true →
      (∀ loc, NewBelow t path te a loc → prov' loc = some by_) →
      (∀ loc, ¬ NewBelow t path te a loc → prov' loc = prov loc) →
      Built' reg (f.setTree t (root.updateAt path fun te => te.merge (some (ownerNs reg by_)) a)) prov'
  | fix {f : Forest} {prov prov' : Loc → Option Nat} :
      Built' reg f prov →
      (∀ id root p, f.tree? id = some root → (root.getAt p).isSome →
          prov' (id, liftPath root p) = prov (id, p)) →
      (∀ loc', (¬ ∃ root p, f.tree? loc'.1 = some root ∧ (root.getAt p).isSome ∧ loc'.2 = liftPath root p) →
          prov' loc' = none) →
      Built' reg (fixAll f) prov'
  /-- an error is recorded on the root entry of a tree (`Find`: unresolvable prefix; `Augment`:
  `augment-not-found`) -/
  | rootErr {f : Forest} {prov : Loc → Option Nat} {t : Nat} {root : Entry} (x : Err) :
      Built' reg f prov → f.tree? t = some root →
      Built' reg (f.setTree t (root.addErr x)) prov
  /-- `Find` creates the input (output) an rpc / action did not spell out -/
  | implicit {f : Forest} {prov : Loc → Option Nat} {t : Nat} {root e : Entry} {p : Path} (isInput : Bool) :
      Built' reg f prov → f.tree? t = some root → root.getAt p = some e →
      (if isInput = true then e.inp = [] else e.out = []) →
      Built' reg (f.setTree t (root.updateAt p (addImplicit isInput))) prov
  /-- a forest is observed through `tree?` only -/
  | congr {f f' : Forest} {prov : Loc → Option Nat} :
      Built' reg f prov → (∀ id, f'.tree? id = f.tree? id) → Built' reg f' prov

theorem Built.toBuilt' {reg : Registry} {f : Forest} {prov : Loc → Option Nat} (h : Built reg f prov) :
    Built' reg f prov := by
  induction h with
  | init h => exact Built'.init h
  | graft _ h1 h2 h3 h4 h5 ih => exact Built'.graft ih h1 h2 h3 h4 h5
  | fix _ h1 h2 ih => exact Built'.fix ih h1 h2

/-! ### the stamp-free steps change no stamp anywhere -/

theorem stampGo_congr_next (e e' : Entry) (h : ∀ s, next e' s = next e s) (p : Path) (acc : Option String) :
    Entry.stampAt.go e' p acc = Entry.stampAt.go e p acc := by
  cases p with
  | nil => rw [stampGo_nil, stampGo_nil]
  | cons s r => rw [stampGo_cons, stampGo_cons, h s]

theorem stampAt_addErr (root : Entry) (x : Err) (q : Path) : (root.addErr x).stampAt q = root.stampAt q := by
  unfold Entry.stampAt
  apply stampGo_congr_next
  intro s; cases root; cases s <;> rfl

theorem addImplicit_sameCN (b : Bool) : ∀ x, sameCN (addImplicit b x) x := by
  intro x; cases x with | mk d c i o => cases b <;> exact ⟨rfl, rfl, rfl, rfl⟩

theorem stampGo_implicitIO (parent : Entry) (b : Bool) (r : Path) (acc : Option String) :
    Entry.stampAt.go (implicitIO parent b) r acc = acc := by
  cases r with
  | nil => rw [stampGo_nil]
  | cons s r =>
    rw [stampGo_cons]
    have : next (implicitIO parent b) s = none := by cases s <;> rfl
    rw [this]

/-- Below the node that gets its implicit input / output, the walk sees what it saw. -/
theorem stampGo_addImplicit (b : Bool) (te : Entry) (hb : if b = true then te.inp = [] else te.out = [])
    (r : Path) (acc : Option String) :
    Entry.stampAt.go (addImplicit b te) r acc = Entry.stampAt.go te r acc := by
  cases r with
  | nil => rw [stampGo_nil, stampGo_nil]
  | cons s r =>
    rw [stampGo_cons, stampGo_cons]
    cases te with | mk d c i o =>
    cases b with
    | true =>
      simp only [if_true, Entry.inp] at hb; subst hb
      cases s with
      | child k => rfl
      | output => rfl
      | input =>
        simp only [addImplicit, if_true, next, Entry.inp, List.head?_cons, List.head?_nil]
        rw [stampGo_implicitIO]
        rfl
    | false =>
      simp only [Bool.false_eq_true, if_false, Entry.out] at hb; subst hb
      cases s with
      | child k => rfl
      | input => rfl
      | output =>
        simp only [addImplicit, Bool.false_eq_true, if_false, next, Entry.out, List.head?_cons, List.head?_nil]
        rw [stampGo_implicitIO]
        rfl

theorem stampAt_addImplicit (root : Entry) (p : Path) (e : Entry) (b : Bool) (hg : root.getAt p = some e)
    (hb : if b = true then e.inp = [] else e.out = []) (q : Path) :
    (root.updateAt p (addImplicit b)).stampAt q = root.stampAt q := by
  unfold Entry.stampAt
  by_cases hpre : p <+: q
  · obtain ⟨r, rfl⟩ := hpre
    rw [stampGo_updateAt_through root p r _ (addImplicit_sameCN b) e hg, stampGo_append root p r none e hg,
      stampGo_addImplicit b e hb]
  · exact stampGo_updateAt_off root p q _ (addImplicit_sameCN b) hpre none

/-- `namespaceAt` reads the forest through `tree?`. -/
theorem namespaceAt_congr (reg : Registry) (f f' : Forest) (h : ∀ id, f'.tree? id = f.tree? id) (loc : Loc) :
    namespaceAt reg f' loc = namespaceAt reg f loc := by
  unfold namespaceAt; rw [h]

/-- Replacing a tree by one with the same stamps changes no namespace. -/
theorem namespaceAt_setTree_same (reg : Registry) (f : Forest) (t : Nat) (root root' : Entry)
    (hroot : f.tree? t = some root) (hs : ∀ q, root'.stampAt q = root.stampAt q) (loc : Loc) :
    namespaceAt reg (f.setTree t root') loc = namespaceAt reg f loc := by
  by_cases hl : loc.1 = t
  · have h1 : (f.setTree t root').tree? loc.1 = some root' := by
      rw [tree?_setTree, if_pos hl, hroot]; rfl
    have h0 : f.tree? loc.1 = some root := by rw [hl]; exact hroot
    rw [namespaceAt_tree reg _ loc root' h1, namespaceAt_tree reg _ loc root h0]
    unfold nsOfTree; rw [hs]
  · unfold namespaceAt
    rw [tree?_setTree, if_neg hl]

/-! ### provenance: the namespace is that of the placing module -/

/-- **C12's provenance theorem for `Built'`**: every node that some module's text placed reports the
namespace of that module (of the module it belongs to, for a submodule). -/
theorem built'_namespace {reg : Registry} {f : Forest} {prov : Loc → Option Nat} (hb : Built' reg f prov) :
    ∀ (loc : Loc) (m : Nat), (f.tree? loc.1).isSome = true → prov loc = some m →
      namespaceAt reg f loc = ownerNs reg m := by
  induction hb with
  | init hfree =>
    intro loc m hsome hp
    obtain ⟨root, hroot⟩ := Option.isSome_iff_exists.mp hsome
    simp only [Option.some.injEq] at hp; subst hp
    rw [namespaceAt_tree reg _ loc root hroot]; unfold nsOfTree Entry.stampAt
    rw [stampGo_noStampBelow root loc.2 none (hfree _ _ hroot)]
  | @graft f prov prov' by_ t path root te a _ hroot hte hfree hnew hold ih =>
    intro loc m hsome hp
    obtain ⟨root', hroot'⟩ := Option.isSome_iff_exists.mp hsome
    by_cases hnb : NewBelow t path te a loc
    · rw [hnew loc hnb] at hp
      simp only [Option.some.injEq] at hp; subst hp
      obtain ⟨hl, k, r, hpath, hk, hak⟩ := hnb
      rw [tree?_setTree, if_pos hl, hroot] at hroot'
      simp only [Option.map_some, Option.some.injEq] at hroot'
      rw [namespaceAt_tree reg _ loc root' (by rw [tree?_setTree, if_pos hl, hroot]; simp [hroot'])]
      obtain ⟨v, hv⟩ := Option.isSome_iff_exists.mp hak
      have hvs : noStamp v = true := (noStampL_iff _).mp hfree v (List.mem_of_find?_eq_some hv)
      unfold nsOfTree
      rw [← hroot', hpath, graft_new root path te a _ k v r hte hk hv ((noStamp_iff v).mp hvs).2]
    · rw [hold loc hnb] at hp
      by_cases hl : loc.1 = t
      · have hroot0 : f.tree? loc.1 = some root := by rw [hl]; exact hroot
        have := ih loc m (by rw [hroot0]; rfl) hp
        rw [namespaceAt_tree reg _ loc root hroot0] at this
        rw [tree?_setTree, if_pos hl, hroot] at hroot'
        simp only [Option.map_some, Option.some.injEq] at hroot'
        rw [namespaceAt_tree reg _ loc root' (by rw [tree?_setTree, if_pos hl, hroot]; simp [hroot'])]
        rw [← this]; unfold nsOfTree
        rw [← hroot', graft_frame root path te a _ loc.2 hte (by
          rintro ⟨k, r, h1, h2, h3⟩; exact hnb ⟨hl, k, r, h1, h2, h3⟩)]
      · rw [tree?_setTree, if_neg hl] at hroot'
        have := ih loc m (by rw [hroot']; rfl) hp
        rw [namespaceAt_tree reg _ loc root' hroot'] at this
        rw [namespaceAt_tree reg _ loc root' (by rw [tree?_setTree, if_neg hl]; exact hroot')]
        exact this
  | @fix f prov prov' _ hkeep hnone ih =>
    intro loc m hsome hp
    obtain ⟨root', hroot'⟩ := Option.isSome_iff_exists.mp hsome
    by_cases hex : ∃ root p, f.tree? loc.1 = some root ∧ (root.getAt p).isSome ∧ loc.2 = liftPath root p
    · obtain ⟨root, p, hroot, hsome', hlp⟩ := hex
      have hp' : prov (loc.1, p) = some m := by
        rw [← hkeep loc.1 root p hroot hsome', ← hlp]; exact hp
      have := ih (loc.1, p) m (by simp only; rw [hroot]; rfl) hp'
      rw [namespaceAt_tree reg _ (loc.1, p) root hroot] at this
      rw [tree?_fixAll, hroot] at hroot'
      simp only [Option.map_some, Option.some.injEq] at hroot'
      rw [namespaceAt_tree reg _ loc root' (by rw [tree?_fixAll, hroot]; simp [hroot'])]
      rw [← this]; unfold nsOfTree
      rw [← hroot', hlp, stampAt_fix]
    · rw [hnone loc hex] at hp; cases hp
  | @rootErr f prov t root x _ hroot ih =>
    intro loc m hsome hp
    rw [namespaceAt_setTree_same reg f t root _ hroot (stampAt_addErr root x)]
    apply ih loc m _ hp
    rw [tree?_setTree] at hsome
    split at hsome
    · rename_i hl; rw [hl, hroot]; rfl
    · exact hsome
  | @implicit f prov t root e p b _ hroot hg hb ih =>
    intro loc m hsome hp
    rw [namespaceAt_setTree_same reg f t root _ hroot (stampAt_addImplicit root p e b hg hb)]
    apply ih loc m _ hp
    rw [tree?_setTree] at hsome
    split at hsome
    · rename_i hl; rw [hl, hroot]; rfl
    · exact hsome
  | @congr f f' prov _ heq ih =>
    intro loc m hsome hp
    rw [namespaceAt_congr reg f f' heq]
    exact ih loc m (by rw [← heq]; exact hsome) hp

/-! ### `Find` -/

theorem tree?_setTree_self (f : Forest) (t : Nat) (root : Entry) (h : f.tree? t = some root) (id : Nat) :
    (f.setTree t root).tree? id = f.tree? id := by
  rw [tree?_setTree]
  split
  · rename_i hl; rw [hl, h]; rfl
  · rfl

theorem tree?_setTree_twice (f : Forest) (t : Nat) (a b : Entry) (id : Nat) :
    ((f.setTree t a).setTree t b).tree? id = (f.setTree t b).tree? id := by
  by_cases hl : id = t
  · subst hl
    rw [tree?_setTree, if_pos rfl, tree?_setTree, if_pos rfl, tree?_setTree, if_pos rfl]
    cases f.tree? id <;> rfl
  · rw [tree?_setTree, if_neg hl, tree?_setTree, if_neg hl, tree?_setTree, if_neg hl]

/-- Creating absent rpc inputs / outputs in one tree keeps the forest `Built'`, provenance unchanged. -/
theorem built'_grown {reg : Registry} {prov : Loc → Option Nat} {t : Nat} {root root' : Entry} (hg : Grown root root') :
    ∀ (f : Forest), Built' reg f prov → f.tree? t = some root → Built' reg (f.setTree t root') prov := by
  induction hg with
  | refl e =>
    intro f hb ht
    exact Built'.congr hb (tree?_setTree_self f t e ht)
  | @step a b c hs _ ih =>
    intro f hb ht
    have h1 : Built' reg (f.setTree t b) prov := by
      cases hs with
      | input p e hge _ hi => exact Built'.implicit (p := p) (e := e) true hb ht hge (by simpa using hi)
      | output p e hge _ ho => exact Built'.implicit (p := p) (e := e) false hb ht hge (by simpa using ho)
    have h2 : (f.setTree t b).tree? t = some b := by rw [tree?_setTree, if_pos rfl, ht]; rfl
    exact Built'.congr (ih _ h1 h2) (fun id => (tree?_setTree_twice f t b c id).symm)

/-- `Find` keeps the forest `Built'` with the same provenance, whatever it is asked. -/
theorem built'_find {reg : Registry} {f : Forest} {prov : Loc → Option Nat} (hb : Built' reg f prov)
    (start : Loc) (ctx : Nat) (name : String) : Built' reg (find reg f start ctx name).2 prov := by
  rcases Find.frame reg f start ctx name with h | ⟨t, root, root', hr, hg, h⟩ | ⟨_, h⟩
  · rw [h]; exact hb
  · rw [h]; exact built'_grown hg f hb hr
  · rw [h]
    unfold Goyang.Spec.Find.withPrefixError
    split
    · rename_i root hroot; exact Built'.rootErr _ hb hroot
    · exact hb

/-! ### the augment stage -/

/-- The invariant of the augment stage: the forest is `Built'`, the children of every pending
augment entry are stamp-free (the premise of `graft`), and the tree of every (sub)module with
pending augments exists (so that the namespace it stamps with is its owner's). -/
structure BI (reg : Registry) (s : PState) : Prop where
  built : ∃ prov, Built' reg s.forest prov
  pend : ∀ p ∈ s.pending, ∀ a ∈ p.2, noStampL a.dir = true
  trees : Tree.InvB s

theorem augFail_built' {reg : Registry} (id : Nat) (addErrors : Bool) (a : Entry) (s : PState) (un : List Entry) (p k : Nat)
    (hb : ∃ prov, Built' reg s.forest prov) : ∃ prov, Built' reg (Tree.augFail id addErrors a s un p k).1.forest prov := by
  obtain ⟨prov, hb⟩ := hb
  unfold Tree.augFail
  dsimp only
  split
  · split
    · rename_i root hroot
      exact ⟨prov, Built'.rootErr _ hb hroot⟩
    · exact ⟨prov, hb⟩
  · exact ⟨prov, hb⟩

theorem augStep_built' (reg : Registry) (id : Nat) (addErrors : Bool) (nsOf : String) (hns : nsOf = ownerNs reg id)
    (acc : PState × List Entry × Nat × Nat) (a : Entry) (hb : ∃ prov, Built' reg acc.1.forest prov)
    (ha : noStampL a.dir = true) : ∃ prov, Built' reg (Tree.augStep reg id addErrors nsOf acc a).1.forest prov := by
  classical
  obtain ⟨s, un, p, k⟩ := acc
  obtain ⟨prov, hb⟩ := hb
  dsimp only at hb
  have hfind := built'_find hb (id, []) a.d.nodeMod a.d.name
  unfold Tree.augStep
  dsimp only
  generalize find reg s.forest (id, []) a.d.nodeMod a.d.name = r at hfind
  obtain ⟨target, forest⟩ := r
  dsimp only at hfind ⊢
  have fail := augFail_built' id addErrors a { s with forest := forest } un p k ⟨prov, hfind⟩
  split
  · exact fail
  · rename_i t path
    split
    · exact fail
    · rename_i te hte
      split
      · exact fail
      · split
        · exact fail
        · rename_i root hroot
          dsimp only at hroot hte ⊢
          simp only [hroot, Option.bind_some] at hte
          subst hns
          exact ⟨fun loc => if NewBelow t path te a loc then some id else prov loc,
            Built'.graft hfind hroot hte ha (fun loc h => by simp only [h, if_true])
              (fun loc h => by simp only [h, if_false])⟩

theorem augmentTree_bi (reg : Registry) (id : Nat) (addErrors : Bool) (s : PState) (h : BI reg s) :
    BI reg (augmentTree reg id addErrors s).1 := by
  obtain ⟨un, _, hp, hsub, _, _, _⟩ := Tree.augmentTree_ok reg id addErrors s
  refine ⟨?_, ?_, Tree.invB_augmentTree reg id addErrors s h.trees⟩
  · rw [Tree.augmentTree_eq]
    dsimp only
    refine Tree.foldl_inv (fun acc : PState × List Entry × Nat × Nat => ∃ prov, Built' reg acc.1.forest prov) _ _ _
      h.built ?_
    intro acc a ha hacc
    obtain ⟨p, hp', hap⟩ := Tree.pendingOf_mem s id a ha
    -- the tree of `id` exists: it has pending augments
    obtain ⟨p0, hp0, h1, h2⟩ := Tree.pendingOf_ne_nil s id (List.ne_nil_of_mem ha)
    have hkey : id ∈ Tree.fkeys s.forest := by rw [← h1]; exact h.trees p0 hp0 h2
    obtain ⟨r0, hr0⟩ := Option.isSome_iff_exists.mp ((Tree.tree?_isSome _ _).2 hkey)
    exact augStep_built' reg id addErrors _ (namespaceAt_root reg s.forest id r0 hr0) acc a hacc (h.pend p hp' a hap)
  · rw [hp]
    intro p hp' a ha
    simp only [List.mem_map] at hp'
    obtain ⟨ip, hip, rfl⟩ := hp'
    split at ha
    · obtain ⟨p0, hp0, h0⟩ := Tree.pendingOf_mem s id a (hsub a ha)
      exact h.pend p0 hp0 a h0
    · exact h.pend ip hip a ha

theorem augmentPass_bi (reg : Registry) : ∀ (fuel : Nat) (mods : Array Nat) (i processed : Nat) (s : PState),
    BI reg s → BI reg (augmentPass reg fuel mods i processed s).2.2 := by
  intro fuel
  induction fuel with
  | zero => intro mods i processed s h; exact h
  | succ fuel ih =>
    intro mods i processed s h
    unfold augmentPass
    split
    · have := augmentTree_bi reg mods[i] false s h
      generalize augmentTree reg mods[i] false s = r at this ⊢
      obtain ⟨s', p, k⟩ := r
      dsimp only at this ⊢
      split
      · exact ih _ _ _ _ this
      · exact ih _ _ _ _ this
    · exact h

theorem augmentLoop_bi (reg : Registry) : ∀ (fuel : Nat) (mods : Array Nat) (s : PState),
    BI reg s → BI reg (augmentLoop reg fuel mods s).2 := by
  intro fuel
  induction fuel with
  | zero => intro mods s h; exact h
  | succ fuel ih =>
    intro mods s h
    unfold augmentLoop
    split
    · exact h
    · have := augmentPass_bi reg (mods.size + 1) mods 0 0 s h
      generalize augmentPass reg (mods.size + 1) mods 0 0 s = r at this ⊢
      obtain ⟨mods', processed, s'⟩ := r
      dsimp only at this ⊢
      split
      · exact this
      · exact ih _ _ this

theorem leftover_bi (reg : Registry) (left : Array Nat) (s : PState) (h : BI reg s) :
    BI reg (left.foldl (fun (acc : PState × Nat) id =>
      let (s, p, _) := augmentTree reg id true acc.1
      (s, acc.2 + p)) (s, 0)).1 := by
  rw [← Array.foldl_toList]
  refine Tree.foldl_inv (fun acc : PState × Nat => BI reg acc.1) _ _ _ h ?_
  rintro ⟨s, cnt⟩ id _ hs
  have := augmentTree_bi reg id true s hs
  generalize augmentTree reg id true s = r at this ⊢
  obtain ⟨s', p, k⟩ := r
  exact this

/-! ### `FixChoice` -/

theorem liftPath_ne_nil (e : Entry) (s : Step) (r : Path) : liftPath e (s :: r) ≠ [] := by
  cases s with
  | child k =>
    rw [liftPath_child]
    cases e.child? k with
    | none => simp
    | some x => dsimp only; split <;> simp
  | input => rw [liftPath_input]; simp
  | output => rw [liftPath_output]; simp

theorem liftPath_head (e : Entry) (s : Step) (r : Path) (x : Entry) (hn : next e s = some x) :
    (liftPath e (s :: r)).head? = some s := by
  cases s with
  | child k =>
    rw [liftPath_child]
    rw [next_child] at hn
    simp only [hn]
    split <;> rfl
  | input => rw [liftPath_input]; rfl
  | output => rw [liftPath_output]; rfl

/-- The path translation of `FixChoice` is one-to-one on the paths that exist. -/
theorem liftPath_inj : ∀ (p : Path) (e : Entry) (p' : Path), (e.getAt p).isSome = true → (e.getAt p').isSome = true →
    liftPath e p = liftPath e p' → p = p' := by
  intro p
  induction p with
  | nil =>
    intro e p' _ _ h
    cases p' with
    | nil => rfl
    | cons s r => rw [liftPath_nil] at h; exact absurd h.symm (liftPath_ne_nil e s r)
  | cons s rest ih =>
    intro e p' h1 h2 h
    cases p' with
    | nil => rw [liftPath_nil] at h; exact absurd h (liftPath_ne_nil e s rest)
    | cons s' rest' =>
      rw [getAt_cons] at h1 h2
      cases hn : next e s with
      | none => simp [hn] at h1
      | some x =>
        cases hn' : next e s' with
        | none => simp [hn'] at h2
        | some x' =>
          simp only [hn, hn', Option.bind_some] at h1 h2
          -- the first steps agree
          have hhead : s = s' := by
            have := congrArg List.head? h
            rw [liftPath_head e s rest x hn, liftPath_head e s' rest' x' hn'] at this
            exact Option.some.inj this
          subst hhead
          rw [hn] at hn'
          simp only [Option.some.injEq] at hn'
          subst hn'
          have htail : liftPath x rest = liftPath x rest' := by
            cases s with
            | child k =>
              rw [liftPath_child, liftPath_child] at h
              rw [next_child] at hn
              simp only [hn] at h
              exact List.append_cancel_left h
            | input =>
              rw [liftPath_input, liftPath_input] at h
              simp only [hn, List.cons.injEq, true_and] at h
              exact h
            | output =>
              rw [liftPath_output, liftPath_output] at h
              simp only [hn, List.cons.injEq, true_and] at h
              exact h
          rw [ih x rest' h1 h2 htail]

theorem fixAll_bi (reg : Registry) (s : PState) (h : BI reg s) : BI reg (Tree.fixAll s) := by
  classical
  refine ⟨?_, h.pend, Tree.invB_fixAll s h.trees⟩
  obtain ⟨prov, hb⟩ := h.built
  -- the provenance after FixChoice: the translated locations keep their placer, the rest has none
  let P : Loc → Path → Prop := fun loc' p =>
    ∃ root, s.forest.tree? loc'.1 = some root ∧ (root.getAt p).isSome = true ∧ loc'.2 = liftPath root p
  refine ⟨fun loc' => if hex : ∃ p, P loc' p then prov (loc'.1, Classical.choose hex) else none, ?_⟩
  show Built' reg (fixAll s.forest) _
  refine Built'.fix hb ?_ ?_
  · intro id root p hroot hsome
    have hex : ∃ p', P (id, liftPath root p) p' := ⟨p, root, hroot, hsome, rfl⟩
    rw [dif_pos hex]
    obtain ⟨root2, hr2, hs2, hl2⟩ := Classical.choose_spec hex
    simp only at hr2 hl2
    rw [hroot] at hr2
    simp only [Option.some.injEq] at hr2
    subst hr2
    have e := liftPath_inj p root _ hsome hs2 hl2
    exact congrArg (fun q => prov (id, q)) e.symm
  · intro loc' hno
    have : ¬ ∃ p, P loc' p := by
      rintro ⟨p, root, h1, h2, h3⟩
      exact hno ⟨root, p, h1, h2, h3⟩
    rw [dif_neg this]

/-! ### the state before the deviations -/

/-- The converted forest with the pending augments of `processAll` satisfies the invariant. -/
theorem bi_pstate0 (reg : Registry) (opts : Opts) (plug : Plug) : BI reg (Tree.pstate0 reg opts plug) := by
  have hst := ConfigNsToEntry.conversion_stOK (Tree.envOf reg opts plug) (entryFuel reg) (Tree.keyOrder reg)
  refine ⟨⟨fun loc => some loc.1, Built'.init ?_⟩, ?_, Tree.invB_pstate0 reg opts plug⟩
  · intro id t ht
    unfold Forest.tree? at ht
    cases hf : List.find? (fun x => x.1 == id) (Tree.pstate0 reg opts plug).forest.trees with
    | none => rw [hf] at ht; cases ht
    | some x =>
      rw [hf] at ht
      simp only [Option.map_some, Option.some.injEq] at ht
      have := hst.1 x (List.mem_of_find?_eq_some hf)
      rw [ht] at this
      exact ((noStamp_iff t).mp this).2
  · intro p hp a ha
    simp only [Tree.pstate0, Tree.pending0, List.mem_map] at hp
    obtain ⟨m, _, rfl⟩ := hp
    dsimp only at ha
    cases hf : (Tree.tstate reg opts plug).augs.find? (·.1 == m.seq) with
    | none => simp [hf] at ha
    | some r =>
      simp only [hf, Option.map_some, Option.getD_some] at ha
      exact noStamp_dir a ((noStampL_iff _).mp (hst.2.2 r (List.mem_of_find?_eq_some hf)) a ha)

/-- **The forest `processAll` applies its deviations to is `Built'`** — through the augment loop,
`FixChoice`, the retry rounds, the reporting sweep and the last `FixChoice`; for every registry, option set and
plugged-in stage. -/
theorem bi_preDev (reg : Registry) (opts : Opts) (plug : Plug) : BI reg (Tree.preDev reg opts plug) := by
  have h1 := Tree.afterRounds_state reg opts plug (BI reg) (augmentLoop_bi reg) (fixAll_bi reg)
    (bi_pstate0 reg opts plug)
  have h2 := leftover_bi reg (Tree.afterRounds reg opts plug).1 (Tree.afterRounds reg opts plug).2 h1
  unfold Tree.preDev
  split
  · exact fixAll_bi reg _ h2
  · exact h2

end Goyang.Lemmas.Bridge
