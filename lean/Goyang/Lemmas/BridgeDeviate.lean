import Goyang.Lemmas.Bridge
import Goyang.Lemmas.Deviate
/-
Bridge lemmas, part 6 (C08): the errors `toEntry` records while it converts the deviation
statements of a (sub)module — an unknown deviate argument, a replacement type that does not
resolve — end up in the own error list of that (sub)module's entry in the cache, hence in the
forest the first error sweep of `processAll` inspects.  An instance of the traversal of
Lemmas/BridgeTraverse.lean with a per-call postcondition:

  deviate entry   — has an error when its `type` does not resolve (the `"type"` step records
                    `deviate-bad-type`; the later field steps only add errors);
  deviation entry — has an error when one of its deviate statements has an unknown argument (the
                    `"deviate"` step records it) or a deviate entry with an error (imported);
  module entry    — has an error when one of its deviation entries has one (the `"deviation"` step
                    imports it; the later field steps only add errors); a cache hit returns an
                    entry that was built the same way (cache-row invariant).
-/
set_option linter.unusedVariables false
set_option linter.unusedSimpArgs false
namespace Goyang.Lemmas.Bridge
open Goyang.Model Goyang.Spec.Tree Goyang.Lemmas.Tree

/-! ### what makes the conversion record an error -/

/-- The replacement type of a deviate statement does not resolve. -/
def BadDs (env : Env) (root : Mod) (scope : List Stmt) (ds : Stmt) : Prop :=
  ∃ ty, ds.one? "type" = some ty ∧ (env.tres.resolve env.reg root (ds :: scope) ty).2 ≠ []

/-- A deviation statement with a deviate statement of unknown kind or with a bad replacement type. -/
def BadDv (env : Env) (root : Mod) (scope : List Stmt) (dv : Stmt) : Prop :=
  ∃ ds ∈ dv.all "deviate", deviateKinds.contains ds.arg = false ∨ BadDs env root (dv :: scope) ds

/-- A (sub)module statement with such a deviation. -/
def BadMod (env : Env) (root : Mod) (scope : List Stmt) (n : Stmt) : Prop :=
  ∃ dv ∈ n.all "deviation", BadDv env root (n :: scope) dv

def devFrame (env : Env) : Frame where
  PE _ := True
  PC p := ∀ m ∈ env.reg.mods, m.seq = p.1 → BadMod env m [] m.stmt → p.2.d.errors ≠ []
  PX root scope n e := isModKw n = true → BadMod env root scope n → e.d.errors ≠ []

/-! ### one field step records the error, the others keep it -/

/-- If one of the fields makes the step record an error on the node, the node has one at the end. -/
theorem steps_errs (env : Env) (rec : Rec) (root : Mod) (n : Stmt) (sub : List Stmt) (visiting : List NodeId) (isMod : Bool)
    (g : String) (hg : ∀ acc, (stepFn env rec root n sub visiting isMod acc g).1.d.errors ≠ []) :
    ∀ (l : List String) (acc : Entry × TState), (acc.1.d.errors ≠ [] ∨ g ∈ l) →
      (l.foldl (stepFn env rec root n sub visiting isMod) acc).1.d.errors ≠ [] := by
  intro l
  induction l with
  | nil => intro acc h; rcases h with h | h; exact h; cases h
  | cons f l ih =>
    intro acc h
    simp only [List.foldl_cons]
    apply ih
    rcases h with h | h
    · exact Or.inl ((evolve_stepFn true env rec root n sub visiting isMod acc f (fun h => by cases h)).ownMono h)
    · rcases List.mem_cons.mp h with rfl | h
      · exact Or.inl (hg acc)
      · exact Or.inr h

/-- The `"type"` step of a deviate statement whose type does not resolve. -/
theorem step_type_errs (env : Env) (rec : Rec) (root : Mod) (n : Stmt) (sub : List Stmt) (visiting : List NodeId) (isMod : Bool)
    (ty : Stmt) (h1 : n.one? "type" = some ty) (h2 : (env.tres.resolve env.reg root sub ty).2 ≠ [])
    (acc : Entry × TState) : (stepFn env rec root n sub visiting isMod acc "type").1.d.errors ≠ [] := by
  have gen : ∀ f, f = "type" → (stepFn env rec root n sub visiting isMod acc f).1.d.errors ≠ [] := by
    intro f hf
    obtain ⟨e, st⟩ := acc
    unfold stepFn
    dsimp only
    split
    all_goals first
      | exact absurd hf (by decide)
      | skip
    · rw [h1]
      dsimp only
      have : (env.tres.resolve env.reg root sub ty).2.isEmpty = false := by
        cases h : (env.tres.resolve env.reg root sub ty).2
        · exact absurd h h2
        · rfl
      simp only [this, Bool.false_eq_true, if_false]
      exact Deviate.errors_addErr _ _
    · rename_i hne _ _ _ _ _ _
      exact absurd hf (by assumption)
  exact gen "type" rfl

/-- The directory case of `toEntry` for a statement that is neither cached nor a leaf nor a `uses`:
the entry is the fold of the field steps. -/
theorem toEntryBody_dir_fst (env : Env) (fuel : Nat) (rec : Rec) (root : Mod) (scope : List Stmt) (n : Stmt)
    (visiting : List NodeId) (st : TState) (h1 : n.kw ≠ "uses") (h2 : n.kw ≠ "grouping") (h3 : n.kw ≠ "module")
    (h4 : n.kw ≠ "submodule") (h5 : n.kw ≠ "leaf") (h6 : n.kw ≠ "leaf-list") :
    (toEntryBody env fuel rec root scope n visiting st).1 =
      ((fieldOrder n.kw).foldl (stepFn env rec root n (n :: scope) visiting false) (e0 root n, st)).1 := by
  have hm : (n.kw == "module" || n.kw == "submodule") = false := by simp [h3, h4]
  have hg : (n.kw == "grouping") = false := by simp [h2]
  have hu : (n.kw == "uses") = false := by simp [h1]
  have hl : (n.kw == "leaf") = false := by simp [h5]
  have hll : (n.kw == "leaf-list") = false := by simp [h6]
  unfold toEntryBody
  simp only [hm, hg, hu, hl, hll, Bool.false_eq_true, if_false, Bool.or_self, Bool.false_and, dirBody]

/-- **A deviate statement whose replacement type does not resolve**: its entry carries an error,
for every fuel, scope and conversion state. -/
theorem toEntry_deviate_errs (env : Env) (fuel : Nat) (root : Mod) (scope : List Stmt) (ds : Stmt) (visiting : List NodeId)
    (st : TState) (hkw : ds.kw = "deviate") (h : BadDs env root scope ds) :
    (toEntry env fuel root scope ds visiting st).1.d.errors ≠ [] := by
  cases fuel with
  | zero => exact errorEntry_errors _ _ _
  | succ fuel =>
    obtain ⟨ty, h1, h2⟩ := h
    rw [toEntry_succ, toEntryBody_dir_fst env fuel _ root scope ds visiting st (by rw [hkw]; decide) (by rw [hkw]; decide)
      (by rw [hkw]; decide) (by rw [hkw]; decide) (by rw [hkw]; decide) (by rw [hkw]; decide)]
    refine steps_errs env _ root ds (ds :: scope) visiting false "type"
      (step_type_errs env _ root ds (ds :: scope) visiting false ty h1 h2) _ _ (Or.inr ?_)
    rw [hkw]; decide

/-- **A deviation statement with a deviate statement of unknown kind or with a bad replacement
type**: its entry carries an error. -/
theorem toEntry_deviation_errs' (env : Env) (fuel : Nat) (root : Mod) (scope : List Stmt) (dv : Stmt) (visiting : List NodeId)
    (st : TState) (hkw : dv.kw = "deviation") (h : BadDv env root scope dv) :
    (toEntry env fuel root scope dv visiting st).1.d.errors ≠ [] := by
  obtain ⟨ds, hds, hbad⟩ := h
  refine Deviate.toEntry_deviation_errs env fuel root scope dv visiting st hkw ⟨ds, hds, ?_⟩
  rcases hbad with hb | hb
  · exact Or.inl hb
  · exact Or.inr (fun st' => toEntry_deviate_errs env _ root (dv :: scope) ds visiting st' (mem_all_kw dv "deviate" ds hds) hb)

/-- The `"deviation"` step of a (sub)module with a bad deviation. -/
theorem step_deviation_errs (env : Env) (fuel : Nat) (root : Mod) (n : Stmt) (scope : List Stmt) (visiting : List NodeId)
    (isMod : Bool) (h : BadMod env root scope n) (acc : Entry × TState) :
    (stepFn env (toEntry env fuel) root n (n :: scope) visiting isMod acc "deviation").1.d.errors ≠ [] := by
  have gen : ∀ f, f = "deviation" →
      (stepFn env (toEntry env fuel) root n (n :: scope) visiting isMod acc f).1.d.errors ≠ [] := by
    intro f hf
    obtain ⟨e, st⟩ := acc
    unfold stepFn
    dsimp only
    split
    all_goals first
      | exact absurd hf (by decide)
      | skip
    · obtain ⟨dv, hdv, hb⟩ := h
      refine Deviate.foldl_errs_ne_nil _ (fun x => x ∈ n.all "deviation" ∧ BadDv env root (n :: scope) x) ?_ ?_ _ _
        (Or.inr ⟨dv, hdv, hdv, hb⟩)
      · intro acc' x hacc
        exact Deviate.errors_importErrors _ _ (Or.inl hacc)
      · intro acc' x hx
        exact Deviate.errors_importErrors _ _
          (Or.inr (toEntry_deviation_errs' env fuel root (n :: scope) x visiting acc'.2 (mem_all_kw n "deviation" x hx.1) hx.2))
    · exact absurd hf (by assumption)
  exact gen "deviation" rfl

theorem fieldOrder_mod_deviation (n : Stmt) (h : isModKw n = true) : "deviation" ∈ fieldOrder n.kw := by
  simp only [isModKw, Bool.or_eq_true, beq_iff_eq] at h
  rcases h with h | h <;> rw [h] <;> decide

theorem closedT_devFrame (env : Env) (hseq : (env.reg.mods.map (·.seq)).Nodup) : ClosedT env (devFrame env) where
  withD _ _ _ _ _ _ := trivial
  addErrs _ _ _ := trivial
  addErr _ _ _ := trivial
  importErrors _ _ _ := trivial
  add _ _ _ _ _ _ _ _ _ _ _ _ _ _ _ := trivial
  rpcFlag _ _ _ _ _ _ _ _ _ _ _ := trivial
  merge _ _ _ _ _ := trivial
  setInp _ _ _ _ _ _ := trivial
  setOut _ _ _ _ _ _ := trivial
  typeSet _ _ _ _ := trivial
  laSet _ _ _ _ _ _ _ := trivial
  base0 _ _ _ _ := trivial
  errE _ _ _ _ _ := trivial
  leafE _ _ _ _ _ := trivial
  leafL _ _ _ _ _ _ _ := trivial
  row _ _ _ _ _ _ _ _ _ _ := trivial
  pc root scope n e inv hm _ hpx := by
    intro m hmem hms hbad
    have : m = root := Fuel.eq_of_nodup_map (·.seq) env.reg.mods hseq m hmem root inv.root_mem hms
    subst this
    apply hpx hm
    rw [inv.top hm, inv.topScope hm]; exact hbad
  pxCache root scope n p inv hm hpc hk := by
    intro _ hbad
    apply hpc root inv.root_mem hk.symm
    rw [← inv.top hm, ← inv.topScope hm]; exact hbad
  pxTriv root scope n e hk := by
    intro hm
    simp only [isModKw, Bool.or_eq_true, beq_iff_eq] at hm
    rcases hk with hk | hk | hk | hk <;> rcases hm with hm | hm <;> rw [hk] at hm <;> exact absurd hm (by decide)
  pxErr root scope n cls _ := fun _ _ => errorEntry_errors _ _ _
  pxDir fuel root scope n visiting st S isMod _ _ _ _ := by
    intro hm hbad
    exact steps_errs env _ root n (n :: scope) visiting isMod "deviation"
      (step_deviation_errs env fuel root n scope visiting isMod hbad) _ _ (Or.inr (fieldOrder_mod_deviation n hm))

/-- Every cache row of a (sub)module with a bad deviation carries an error on its root. -/
theorem tstate_dev_rows (reg : Registry) (opts : Opts) (plug : Plug) (hL : Fuel.LoadedShape reg) :
    ∀ p ∈ (tstate reg opts plug).cache, ∀ m ∈ reg.mods, m.seq = p.1 → BadMod (envOf reg opts plug) m [] m.stmt →
      p.2.d.errors ≠ [] :=
  (tstate_okT reg opts plug (closedT_devFrame (envOf reg opts plug) hL.seqs)).crows

/-- **A (sub)module with a deviate statement of unknown kind, or with a replacement type that does
not resolve, makes `processAll` return errors** — the conversion records the error on the deviation
entry, imports it into the module entry, the module entry is in the cache, and the cache is the
forest the first error sweep inspects. -/
theorem processAll_conversion_errors (reg : Registry) (opts : Opts) (plug : Plug) (hL : Fuel.LoadedShape reg)
    (hmods : ModsAreModules reg) (m : Mod) (hm : m ∈ reg.distinctModules ++ reg.distinctSubs)
    (hbad : BadMod (envOf reg opts plug) m [] m.stmt) : (processAll reg opts plug).errors ≠ [] := by
  obtain ⟨m', hm', hs⟩ := allMods_keyOrder reg m hm
  have hmem : m ∈ reg.mods := by
    simp only [Registry.distinctModules, Registry.distinctSubs, List.mem_append, List.mem_filter] at hm
    rcases hm with h | h <;> exact h.1
  have hkey := tstate_cache_all reg opts plug hmods m' hm'
  simp only [ckeys, List.mem_map] at hkey
  obtain ⟨p, hp, hpk⟩ := hkey
  have herr := tstate_dev_rows reg opts plug hL p hp m hmem (by rw [hpk, hs]) hbad
  have hf0 : forestErrs (forest0 reg opts plug) ≠ [] := by
    intro h0
    have := (forestErrs_eq_nil _).1 h0 p hp
    exact herr (noErrors_own _ this)
  rw [processAll_eq]
  split
  · rename_i h1
    exact fun h => (by simpa using h1 : stage1Errs reg plug ≠ []) (canonErrs_eq_nil _ h)
  · split
    · exact fun h => hf0 (canonErrs_eq_nil _ h)
    · rename_i h2
      exact absurd (by simpa using h2) hf0

end Goyang.Lemmas.Bridge
