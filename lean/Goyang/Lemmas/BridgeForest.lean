import Goyang.Lemmas.BridgeNamesStages
/-
Bridge lemmas, part 5 (C17): `Spec.Find.WFForest` of the forest a clean `processAll` returns.

* tree ids are not repeated: `toEntry` files a (sub)module's entry in the cache only when the cache
  has none, and a (sub)module whose conversion is in progress is not converted again (the `visiting`
  check) — so the cache keys are distinct (`tstate_ckeys_nodup` in Lemmas/Bridge.lean, for registries
  with distinct sequence numbers); every later stage rewrites trees in place (`Forest.setTree`, `map`),
  keeping the key list;
* every tree satisfies `wfKeys`: C04's `KeysUnique` and the predicate `gq` of Lemmas/BridgeNames.lean.
-/
set_option linter.unusedVariables false
set_option linter.unusedSimpArgs false
namespace Goyang.Lemmas.Bridge
open Goyang.Model Goyang.Spec.Tree Goyang.Lemmas.Tree
open Goyang.Spec.Find (goodName wfKeys wfKeysL WFForest distinct)

/-! ### every later stage keeps the list of tree ids -/

theorem fkeys_augmentTree (reg : Registry) (id : Nat) (addErrors : Bool) (s : PState) :
    fkeys (augmentTree reg id addErrors s).1.forest = fkeys s.forest := by
  obtain ⟨_, fle, _⟩ := augmentTree_ok reg id addErrors s
  exact fle.1

theorem fkeys_augmentPass (reg : Registry) : ∀ (fuel : Nat) (mods : Array Nat) (i processed : Nat) (s : PState),
    fkeys (augmentPass reg fuel mods i processed s).2.2.forest = fkeys s.forest := by
  intro fuel
  induction fuel with
  | zero => intro mods i processed s; rfl
  | succ fuel ih =>
    intro mods i processed s
    unfold augmentPass
    split
    · have := fkeys_augmentTree reg mods[i] false s
      generalize augmentTree reg mods[i] false s = r at this ⊢
      obtain ⟨s', p, k⟩ := r
      dsimp only at this ⊢
      split
      · rw [ih]; exact this
      · rw [ih]; exact this
    · rfl

theorem fkeys_augmentLoop (reg : Registry) : ∀ (fuel : Nat) (mods : Array Nat) (s : PState),
    fkeys (augmentLoop reg fuel mods s).2.forest = fkeys s.forest := by
  intro fuel
  induction fuel with
  | zero => intro mods s; rfl
  | succ fuel ih =>
    intro mods s
    unfold augmentLoop
    split
    · rfl
    · have := fkeys_augmentPass reg (mods.size + 1) mods 0 0 s
      generalize augmentPass reg (mods.size + 1) mods 0 0 s = r at this ⊢
      obtain ⟨mods', processed, s'⟩ := r
      dsimp only at this ⊢
      split
      · exact this
      · rw [ih]; exact this

theorem fkeys_leftover (reg : Registry) (left : Array Nat) (s : PState) :
    fkeys (left.foldl (fun (acc : PState × Nat) id =>
      let (s, p, _) := augmentTree reg id true acc.1
      (s, acc.2 + p)) (s, 0)).1.forest = fkeys s.forest := by
  rw [← Array.foldl_toList]
  refine foldl_inv (fun acc : PState × Nat => fkeys acc.1.forest = fkeys s.forest) _ _ _ rfl ?_
  rintro ⟨s1, cnt⟩ id _ hs
  have := fkeys_augmentTree reg id true s1
  generalize augmentTree reg id true s1 = r at this ⊢
  obtain ⟨s', p, k⟩ := r
  exact this.trans hs

theorem fkeys_fixAll (s : PState) : fkeys (fixAll s).forest = fkeys s.forest := (FLe_fixAll s).1

theorem fkeys_preDev (reg : Registry) (opts : Opts) (plug : Plug) :
    fkeys (preDev reg opts plug).forest = fkeys (forest0 reg opts plug) := by
  have h1 : fkeys (afterRounds reg opts plug).2.forest = fkeys (forest0 reg opts plug) :=
    afterRounds_state reg opts plug (fun s => fkeys s.forest = fkeys (forest0 reg opts plug))
      (fun fuel mods s h => (fkeys_augmentLoop reg fuel mods s).trans h)
      (fun s h => (fkeys_fixAll s).trans h) rfl
  have h2 : fkeys (leftoverPass reg opts plug).1.forest = fkeys (forest0 reg opts plug) := by
    unfold leftoverPass
    rw [fkeys_leftover, h1]
  unfold preDev
  split
  · rw [fkeys_fixAll, h2]
  · exact h2

theorem fkeys_applyDeviations (reg : Registry) (opts : Opts) (m : Mod) (devs : List (Stmt × List (String × Entry)))
    (f : Forest) : fkeys (applyDeviations reg opts m devs f).1 = fkeys f := by
  unfold applyDeviations
  refine foldl_inv (fun acc : Forest × List Err => fkeys acc.1 = fkeys f) _ devs (f, []) rfl ?_
  rintro ⟨f1, errs⟩ ⟨dstmt, deviates⟩ _ hP
  dsimp only at hP ⊢
  have hfind := (FLe_find reg f1 (m.seq, []) m.seq dstmt.arg).1
  generalize find reg f1 (m.seq, []) m.seq dstmt.arg = r at hfind
  obtain ⟨target, f'⟩ := r
  dsimp only at hfind ⊢
  split
  · exact hfind.trans hP
  · rename_i t path
    split
    · exact hfind.trans hP
    · rename_i node0 _
      dsimp only
      refine foldl_inv (fun acc : Forest × Entry × Bool × List Err => fkeys acc.1 = fkeys f) _ deviates _ (hfind.trans hP) ?_
      rintro ⟨f2, node, detached, errs2⟩ ds _ h2
      dsimp only at h2 ⊢
      split
      · exact h2
      · split
        · exact h2
        · rw [fkeys_setTree]; exact h2

theorem fkeys_devStage (reg : Registry) (opts : Opts) (plug : Plug) (f0 : Forest) :
    fkeys (devStage reg opts plug f0).1 = fkeys f0 := by
  unfold devStage
  refine foldl_inv (fun acc : Forest × List Err × List String => fkeys acc.1 = fkeys f0) _ _ _ rfl ?_
  rintro ⟨f, errs, done⟩ m _ hP
  dsimp only at hP ⊢
  split
  · exact hP
  · dsimp only
    rw [fkeys_applyDeviations]; exact hP

/-- The tree ids of the forest a clean `Process` returns are those of the conversion cache. -/
theorem fkeys_processAll (reg : Registry) (opts : Opts) (plug : Plug) (h : (processAll reg opts plug).errors = []) :
    fkeys (processAll reg opts plug).forest = ckeys (tstate reg opts plug) := by
  obtain ⟨_, _, _, _, h5⟩ := processAll_clean reg opts plug h
  rw [h5, fkeys_devStage, fkeys_preDev]
  rfl

/-! ### `wfKeys` -/

theorem distinct_iff (l : List String) : distinct l = true ↔ l.Nodup := by
  induction l with
  | nil => simp [distinct]
  | cons x xs ih =>
    simp only [distinct, Bool.and_eq_true, Bool.not_eq_true', List.nodup_cons, ih]
    constructor
    · rintro ⟨h1, h2⟩; exact ⟨by simpa using h1, h2⟩
    · rintro ⟨h1, h2⟩; exact ⟨by simpa using h1, h2⟩

/-- `wfKeys` is C04's `KeysUnique` (its sibling-name half) together with `gq`. -/
theorem wfKeys_of (e : Entry) (hk : KeysUnique e) (hg : everyNode gq e = true) : wfKeys e = true := by
  unfold KeysUnique at hk
  induction e using entry_ind with
  | h d c i o hc hi ho =>
    rw [everyNode_mk] at hk hg
    have k0 := (keysUniqueHere_iff _ _ _ _).1 hk.1
    have g0 := (gq_mk _ _ _ _).1 hg.1
    unfold wfKeys
    simp only [Bool.and_eq_true]
    have wl : ∀ l : List Entry, (∀ x ∈ l, wfKeys x = true) → wfKeysL l = true := by
      intro l hl
      induction l with
      | nil => rfl
      | cons a l ih =>
        simp only [wfKeysL, Bool.and_eq_true]
        exact ⟨hl a (by simp), ih (fun x hx => hl x (by simp [hx]))⟩
    refine ⟨⟨⟨⟨⟨(distinct_iff _).2 k0.1, ?_⟩, ?_⟩, ?_⟩, ?_⟩, ?_⟩
    · simp only [List.all_eq_true]; exact g0.1
    · have := g0.2
      split at this
      · rename_i hr; simp only [hr, if_true]; rw [this]; rfl
      · rename_i hr
        have hr' : d.isRpc = false := by simpa using hr
        simp only [hr', Bool.false_eq_true, if_false]
        obtain ⟨rfl, rfl⟩ := this; rfl
    · exact wl c (fun x hx => hc x hx (hk.2.1 x hx) (hg.2.1 x hx))
    · exact wl i (fun x hx => hi x hx (hk.2.2.1 x hx) (hg.2.2.1 x hx))
    · exact wl o (fun x hx => ho x hx (hk.2.2.2 x hx) (hg.2.2.2 x hx))

/-- **`WFForest` of the forest of an error-free `processAll`**, for a registry of the loaded shape
whose data-node statements have spellable names. -/
theorem process_clean_wfForest (reg : Registry) (opts : Opts) (plug : Plug) (hL : Fuel.LoadedShape reg)
    (hnp : NamesPlain reg) (h : (processAll reg opts plug).errors = []) :
    WFForest (processAll reg opts plug).forest := by
  refine ⟨?_, ?_⟩
  · have := fkeys_processAll reg opts plug h
    unfold fkeys at this
    rw [this]; exact tstate_ckeys_nodup reg opts plug hL
  · intro it hit
    exact wfKeys_of it.2 (process_clean_wf reg opts plug h it hit).1.1 (process_clean_gq reg opts plug hnp h it hit)

end Goyang.Lemmas.Bridge
