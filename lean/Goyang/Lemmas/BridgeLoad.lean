import Goyang.Lemmas.Bridge
import Goyang.Lemmas.BridgeRegistry
import Goyang.Model.Load
/-
Bridge lemmas: the two hypotheses on the registry that the bridge corollaries keep — `Fuel.LoadedShape`
and `ModsAreModules` — hold of every registry that loading from raw text produces
(`Model.loadText` / `loadTexts` = `Modules.Parse`: generic parser, AST builder, the check that every
top-level statement is a module or submodule, `Registry.add`), whatever the texts are and whichever
of them are rejected.
-/
set_option linter.unusedVariables false
namespace Goyang.Lemmas.Bridge
open Goyang.Model

/-- What `add` does to the list of loaded (sub)modules. -/
theorem add_mods {r r' : Registry} {s : Stmt} (ha : r.add s = .ok r') : r'.mods = r.mods ++ [⟨r.mods.length, s⟩] := by
  have ha := (Registry.add_ok ha).2
  unfold Registry.addChecked at ha
  simp only at ha
  split at ha
  · split at ha
    · cases ha
    · cases ha; rw [Registry.mods_withKm, Registry.mods_withUm]
  · split at ha
    · cases ha
    · cases ha; rw [Registry.mods_withKm]

theorem modsAreModules_add {r r' : Registry} {s : Stmt} (h : ModsAreModules r) (hs : isModKw s = true)
    (ha : r.add s = .ok r') : ModsAreModules r' := by
  intro m hm
  rw [add_mods ha] at hm
  rcases List.mem_append.mp hm with h1 | h1
  · exact h m h1
  · simp only [List.mem_singleton] at h1; subst h1; exact hs

/-- Adding a list of module / submodule statements one after the other (the loop of `Modules.Parse`). -/
theorem foldlM_add_inv : ∀ (stmts : List Stmt) (r r' : Registry), stmts.foldlM (fun r s => r.add s) r = .ok r' →
    TablesOK r → ModsAreModules r → (∀ s ∈ stmts, isModKw s = true) → TablesOK r' ∧ ModsAreModules r'
  | [], r, r', h, h1, h2, _ => by
    simp only [List.foldlM_nil, pure, Except.pure, Except.ok.injEq] at h
    subst h; exact ⟨h1, h2⟩
  | s :: rest, r, r', h, h1, h2, hk => by
    simp only [List.foldlM_cons, bind, Except.bind] at h
    cases ha : r.add s with
    | error e => rw [ha] at h; cases h
    | ok r1 =>
      rw [ha] at h
      exact foldlM_add_inv rest r1 r' h (tablesOK_add h1 ha) (modsAreModules_add h2 (hk s (by simp)) ha)
        (fun x hx => hk x (by simp [hx]))

/-- A statement accepted by the top-level check of `loadText` is a module / submodule statement of
the resolver layers. -/
theorem toStmt?_kw (file : String) (ps : Parse.Statement) (s : Stmt) (h : toStmt? file ps = some s)
    (hk : (ps.keyword == Ast.kwModule || ps.keyword == Ast.kwSubmodule) = true) : isModKw s = true := by
  obtain ⟨kw, ha, arg, f, line, col, subs⟩ := ps
  unfold toStmt? at h
  simp only [Option.bind_eq_bind] at h
  cases hk1 : bytesToString? kw with
  | none => simp [hk1] at h
  | some k =>
    cases hk2 : bytesToString? arg with
    | none => simp [hk1, hk2] at h
    | some a =>
      cases hk3 : toStmt?.toStmtL? file subs with
      | none => simp [hk1, hk2, hk3] at h
      | some ss =>
        simp only [hk1, hk2, hk3, Option.bind_some, Option.some.injEq] at h
        subst h
        simp only [Bool.or_eq_true, beq_iff_eq] at hk
        simp only [isModKw, Stmt.kw, Bool.or_eq_true, beq_iff_eq]
        rcases hk with hk | hk
        · subst hk
          have : bytesToString? Ast.kwModule = some "module" := by decide
          rw [this] at hk1; left; exact (Option.some.inj hk1).symm
        · subst hk
          have : bytesToString? Ast.kwSubmodule = some "submodule" := by decide
          rw [this] at hk1; right; exact (Option.some.inj hk1).symm

theorem toStmtL?_kw (file : String) : ∀ (forest : List Parse.Statement) (stmts : List Stmt),
    toStmt?.toStmtL? file forest = some stmts →
    (forest.all fun s => s.keyword == Ast.kwModule || s.keyword == Ast.kwSubmodule) = true →
    ∀ s ∈ stmts, isModKw s = true
  | [], stmts, h, _ => by
    simp only [toStmt?.toStmtL?, Option.some.injEq] at h
    subst h; intro s hs; cases hs
  | ps :: rest, stmts, h, hk => by
    unfold toStmt?.toStmtL? at h
    simp only [Option.bind_eq_bind] at h
    cases h1 : toStmt? file ps with
    | none => simp [h1] at h
    | some x =>
      cases h2 : toStmt?.toStmtL? file rest with
      | none => simp [h1, h2] at h
      | some xs =>
        simp only [h1, h2, Option.bind_some, Option.some.injEq] at h
        subst h
        simp only [List.all_cons, Bool.and_eq_true] at hk
        intro s hs
        rcases List.mem_cons.mp hs with hs | hs
        · subst hs; exact toStmt?_kw file ps _ h1 hk.1
        · exact toStmtL?_kw file rest xs h2 hk.2 s hs

/-- One `Modules.Parse` keeps both registry invariants, accepted or rejected. -/
theorem loadText_inv (reg : Registry) (name text : List UInt8) (h1 : TablesOK reg) (h2 : ModsAreModules reg) :
    TablesOK (loadText reg name text).1 ∧ ModsAreModules (loadText reg name text).1 := by
  unfold loadText
  split
  · exact ⟨h1, h2⟩
  · exact ⟨h1, h2⟩
  · rename_i forest _
    split
    · exact ⟨h1, h2⟩
    · split
      · exact ⟨h1, h2⟩
      · rename_i hall
        split
        · exact ⟨h1, h2⟩
        · rename_i fname _
          split
          · exact ⟨h1, h2⟩
          · rename_i stmts hst
            split
            · rename_i r hfold
              refine foldlM_add_inv stmts reg r hfold h1 h2 (toStmtL?_kw fname forest stmts hst ?_)
              simp only [Bool.not_eq_true', Bool.not_eq_false] at hall
              simpa using hall
            · exact ⟨h1, h2⟩

/-- **Every registry loaded from raw texts has the loaded shape and holds module / submodule
statements only.** -/
theorem loadTexts_inv (texts : List (List UInt8 × List UInt8)) :
    TablesOK (loadTexts texts).1 ∧ ModsAreModules (loadTexts texts).1 := by
  unfold loadTexts
  refine Tree.foldl_inv (fun acc : Registry × List LoadResult => TablesOK acc.1 ∧ ModsAreModules acc.1) _ _ _
    ⟨tablesOK_empty, fun m hm => by cases hm⟩ ?_
  rintro ⟨r, res⟩ nt _ ⟨h1, h2⟩
  exact loadText_inv r nt.1 nt.2 h1 h2

theorem loadedShape_loadTexts (texts : List (List UInt8 × List UInt8)) : Fuel.LoadedShape (loadTexts texts).1 :=
  loadedShape_of_tablesOK (loadTexts_inv texts).1

theorem modsAreModules_loadTexts (texts : List (List UInt8 × List UInt8)) : ModsAreModules (loadTexts texts).1 :=
  (loadTexts_inv texts).2

end Goyang.Lemmas.Bridge
