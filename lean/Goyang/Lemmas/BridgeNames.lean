import Goyang.Lemmas.Bridge
import Goyang.Lemmas.Find
import Goyang.Spec.Find
/-
Bridge lemmas, part 3 (C17): what `Spec.Find.wfKeys` asks beyond C04's `KeysUnique` —

  * every `Dir` child has a name a path can spell (`goodName`), and
  * an rpc / action has no `Dir` children, and only an rpc / action has an input / output

(the local predicate `gq`) — holds at every node of every error-free tree `toEntry` builds, when
the names written in the loaded statements are spellable (`NamesPlain`, an input predicate: goyang
does not check identifiers, finding D17-L1).  This file: the predicates and the conversion stage;
Lemmas/BridgeNamesStages.lean carries `gq` through the augment stage, `FixChoice` and the
deviation stage.
-/
set_option linter.unusedVariables false
set_option linter.unusedSimpArgs false
namespace Goyang.Lemmas.Bridge
open Goyang.Model Goyang.Spec.Tree Goyang.Lemmas.Tree
open Goyang.Spec.Find (goodName wfKeys wfKeysL WFForest)

/-! ### the local predicate -/

/-- Child names are spellable; an rpc / action has no `Dir` children, anything else no rpc input /
output. -/
def gq (x : Entry) : Bool :=
  x.dir.all (fun k => goodName k.name) && (if x.d.isRpc then x.dir.isEmpty else x.inp.isEmpty && x.out.isEmpty)

theorem gq_mk (d : EData) (c i o : List Entry) : gq (.mk d c i o) = true ↔
    (∀ k ∈ c, goodName k.name = true) ∧ (if d.isRpc = true then c = [] else i = [] ∧ o = []) := by
  unfold gq
  simp only [Entry.dir, Entry.inp, Entry.out, Entry.d, Bool.and_eq_true, List.all_eq_true]
  by_cases h : d.isRpc = true <;> simp [h]

theorem hdrLocal_gq : ∀ d c i o c' i' o', c.map hdr = c'.map hdr → i.map hdr = i'.map hdr → o.map hdr = o'.map hdr →
    gq (.mk d c i o) = gq (.mk d c' i' o') := by
  intro d c i o c' i' o' hc hi ho
  have hn := names_hdr c c' hc
  have hlc := length_hdr c c' hc
  have hli := length_hdr i i' hi
  have hlo := length_hdr o o' ho
  have e1 : ∀ l : List Entry, (∀ k ∈ l, goodName k.name = true) ↔ ∀ s ∈ l.map (·.name), goodName s = true := by
    intro l; simp
  have e2 : ∀ (a b : List Entry), a.length = b.length → (a = [] ↔ b = []) := by
    intro a b h; cases a <;> cases b <;> simp_all
  rw [Bool.eq_iff_iff, gq_mk, gq_mk, e1 c, e1 c', hn, e2 c c' hlc, e2 i i' hli, e2 o o' hlo]

/-- `gq` does not look at the node's own data beyond the rpc flag. -/
theorem gq_data (d d' : EData) (c i o : List Entry) (h : d'.isRpc = d.isRpc) : gq (.mk d' c i o) = gq (.mk d c i o) := by
  rw [Bool.eq_iff_iff, gq_mk, gq_mk, h]

theorem everyNode_gq_withD (e : Entry) (f : EData → EData) (hf : ∀ d, (f d).isRpc = d.isRpc) :
    everyNode gq (e.withD f) = everyNode gq e := by
  cases e with | mk d c i o =>
  simp only [Entry.withD]
  rw [Bool.eq_iff_iff, everyNode_mk, everyNode_mk, gq_data d (f d) c i o (hf d)]

/-! ### the input predicate -/

/-- `p` holds of a statement and of all its (transitive) substatements. -/
def stmtEvery (p : Stmt → Bool) : Stmt → Bool
  | .mk kw ha arg file line col subs => p (.mk kw ha arg file line col subs) && everyL subs
where everyL : List Stmt → Bool
  | [] => true
  | s :: ss => stmtEvery p s && everyL ss

theorem stmtEvery_everyL (p : Stmt → Bool) (l : List Stmt) : stmtEvery.everyL p l = true ↔ ∀ s ∈ l, stmtEvery p s = true := by
  induction l with
  | nil => simp [stmtEvery.everyL]
  | cons a l ih => simp [stmtEvery.everyL, ih]

theorem stmtEvery_self (p : Stmt → Bool) (t : Stmt) (ht : stmtEvery p t = true) : p t = true := by
  cases t; simp only [stmtEvery, Bool.and_eq_true] at ht; exact ht.1

theorem stmtEvery_child (p : Stmt → Bool) (c t : Stmt) (hc : c ∈ t.subs) (ht : stmtEvery p t = true) :
    stmtEvery p c = true := by
  cases t with | mk kw ha arg file line col subs =>
  simp only [stmtEvery, Bool.and_eq_true] at ht
  exact (stmtEvery_everyL p subs).1 ht.2 c hc

theorem stmtEvery_sub' (p : Stmt → Bool) {s t : Stmt} (h : Fuel.Sub s t) : stmtEvery p t = true → stmtEvery p s = true := by
  induction h with
  | refl => exact id
  | step hm _ ih => exact fun ht => ih (stmtEvery_child p _ _ hm ht)

theorem stmtEvery_sub (p : Stmt → Bool) {s t : Stmt} (h : Fuel.Sub s t) (ht : stmtEvery p t = true) : p s = true :=
  stmtEvery_self p s (stmtEvery_sub' p h ht)

/-- A statement whose entry becomes a `Dir` child (anydata, anyxml, case, choice, container, leaf,
leaf-list, list, notification, rpc, action) has an argument a path can spell: not empty, not `.`
or `..`, no `/`, no `:`. -/
def nameStmtOK (s : Stmt) : Bool := !(addKws.contains s.kw) || goodName s.arg

/-- Input predicate: every data-node statement of every loaded (sub)module, at any depth
(groupings, augments, cases, rpc input / output included), has a spellable name. -/
def NamesPlain (reg : Registry) : Prop := ∀ m ∈ reg.mods, stmtEvery nameStmtOK m.stmt = true

instance (reg : Registry) : Decidable (NamesPlain reg) := by unfold NamesPlain; infer_instance

theorem namesPlain_child {env : Env} (hnp : NamesPlain env.reg) {root : Mod} {scope : List Stmt} {n c : Stmt}
    (inv : InvT env root scope n) {kw : String} (hkw : kw ∈ addKws) (hc : c ∈ n.all kw) : goodName c.arg = true := by
  have hsub : Fuel.Sub c root.stmt := Fuel.Sub.child (Fuel.mem_all_subs hc) inv.node
  have := stmtEvery_sub nameStmtOK hsub (hnp root inv.root_mem)
  have hk := mem_all_kw n kw c hc
  simp only [nameStmtOK, hk, Bool.or_eq_true, Bool.not_eq_true'] at this
  rcases this with h | h
  · have : addKws.contains kw = true := by simpa using hkw
    rw [this] at h; cases h
  · exact h

/-! ### the conversion stage -/

/-- The frame: an error-free entry has `gq` at every node; the entry made from an rpc / action
statement has no `Dir` children. -/
def namesFrame : Frame where
  PE e := NoErrors e → everyNode gq e = true
  PX _ _ n e := (n.kw = "rpc" ∨ n.kw = "action") → e.dir = []

theorem condgq_withD (e : Entry) (f : EData → EData) (hr : ∀ d, (f d).isRpc = d.isRpc)
    (he : ∀ d, ∃ xs, (f d).errors = d.errors ++ xs) (h : NoErrors e → everyNode gq e = true) :
    NoErrors (e.withD f) → everyNode gq (e.withD f) = true := by
  intro hne
  rw [everyNode_gq_withD e f hr]
  apply h
  cases e with | mk d c i o =>
  simp only [Entry.withD] at hne
  rw [noErrors_mk] at hne ⊢
  obtain ⟨xs, hxs⟩ := he d
  refine ⟨?_, hne.2⟩
  have := hne.1; rw [hxs] at this; exact (List.append_eq_nil_iff.mp this).1

/-- What `merge` does to the child list: old children stay in front, the new ones are (stamped)
children of `oe`. -/
theorem merge_dir (e : Entry) (ns : Option String) (oe : Entry) :
    (e.merge ns oe).d.isRpc = e.d.isRpc ∧ (e.merge ns oe).inp = e.inp ∧ (e.merge ns oe).out = e.out ∧
    ∀ y ∈ (e.merge ns oe).dir, y ∈ e.dir ∨ ∃ v ∈ oe.dir, y = AugmentTree.stampO ns v := by
  rw [AugmentTree.merge_eq]
  refine foldl_inv (fun x : Entry => x.d.isRpc = e.d.isRpc ∧ x.inp = e.inp ∧ x.out = e.out ∧
    ∀ y ∈ x.dir, y ∈ e.dir ∨ ∃ v ∈ oe.dir, y = AugmentTree.stampO ns v) _ _ _ ?_ ?_
  · cases e with | mk d c i o =>
    exact ⟨rfl, rfl, rfl, fun y hy => Or.inl hy⟩
  · rintro b v hv ⟨h1, h2, h3, h4⟩
    unfold AugmentTree.mstep
    split
    · cases b with | mk d c i o => exact ⟨h1, h2, h3, h4⟩
    · cases b with | mk d c i o =>
      simp only [Entry.dir, Entry.inp, Entry.out, Entry.withDir, Entry.d] at h1 h2 h3 h4 ⊢
      refine ⟨h1, h2, h3, ?_⟩
      intro y hy
      rcases List.mem_append.mp hy with hy | hy
      · exact h4 y hy
      · simp only [List.mem_singleton] at hy
        exact Or.inr ⟨v, hv, hy⟩

theorem everyNode_gq_stampO (ns : Option String) (v : Entry) : everyNode gq (AugmentTree.stampO ns v) = everyNode gq v := by
  cases ns with
  | none => rfl
  | some n => exact everyNode_gq_withD _ _ (fun d => rfl)

/-- `merge` into a node that is not an rpc / action keeps `gq` everywhere. -/
theorem gq_merge (e : Entry) (ns : Option String) (oe : Entry) (he : everyNode gq e = true)
    (ho : everyNode gq oe = true) (hr : e.d.isRpc = false) : everyNode gq (e.merge ns oe) = true := by
  obtain ⟨m1, m2, m3, m4⟩ := merge_dir e ns oe
  generalize e.merge ns oe = r at m1 m2 m3 m4 ⊢
  cases r with | mk d' c' i' o' =>
  cases e with | mk d c i o =>
  cases oe with | mk d2 c2 i2 o2 =>
  simp only [Entry.dir, Entry.inp, Entry.out, Entry.d] at m1 m2 m3 m4 hr
  subst m2 m3
  rw [everyNode_mk] at he ho ⊢
  have hge := (gq_mk _ _ _ _).1 he.1
  have hgo := (gq_mk _ _ _ _).1 ho.1
  simp only [hr, Bool.false_eq_true, if_false] at hge
  have key : ∀ y ∈ c', goodName y.name = true ∧ everyNode gq y = true := by
    intro y hy
    rcases m4 y hy with h | ⟨v, hv, hy'⟩
    · exact ⟨hge.1 y h, he.2.1 y h⟩
    · rw [hy']
      exact ⟨by rw [AugmentTree.stampO_name]; exact hgo.1 v hv, by rw [everyNode_gq_stampO]; exact ho.2.1 v hv⟩
  refine ⟨?_, fun y hy => (key y hy).2, he.2.2.1, he.2.2.2⟩
  rw [gq_mk]
  refine ⟨fun y hy => (key y hy).1, ?_⟩
  rw [m1, hr]
  simp only [Bool.false_eq_true, if_false]
  exact hge.2

theorem e0_gq (root : Mod) (n : Stmt) : everyNode gq (e0 root n) = true := by
  have h := e0_isRpc root n
  unfold e0 at h ⊢
  rw [everyNode_mk]
  refine ⟨?_, by simp, by simp, by simp⟩
  rw [gq_mk]
  simp only [Entry.d] at h
  simp [h]

theorem leafEntry_gq (env : Env) (root : Mod) (scope : List Stmt) (n : Stmt) (syn : Bool) :
    everyNode gq (leafEntry env root scope n syn) = true := by
  have hr : (leafEntry env root scope n syn).d.isRpc = false := by unfold leafEntry; dsimp only; rfl
  have hd := leafEntry_data env root scope n syn
  generalize leafEntry env root scope n syn = le at hd hr ⊢
  cases le with | mk d c i o =>
  simp only [Entry.dir, Entry.inp, Entry.out, Entry.d] at hd hr
  obtain ⟨_, _, _, _, _, rfl, rfl, rfl⟩ := hd
  rw [everyNode_mk]
  refine ⟨?_, by simp, by simp, by simp⟩
  rw [gq_mk]; simp [hr]

/-- The four steps of an rpc / action statement leave its `Dir` empty. -/
theorem fold_io_dir (env : Env) (rec : Rec) (root : Mod) (n : Stmt) (sub : List Stmt) (visiting : List NodeId)
    (isMod : Bool) (acc : Entry × TState) :
    (ioList.foldl (stepFn env rec root n sub visiting isMod) acc).1.dir = acc.1.dir := by
  refine foldl_inv (fun a : Entry × TState => a.1.dir = acc.1.dir) _ _ _ rfl ?_
  intro b f hf hb
  rw [stepFn_io_dir env rec root n sub visiting isMod b f hf]; exact hb

theorem fieldOrder_rpc (kw : String) (h : kw = "rpc" ∨ kw = "action") : fieldOrder kw = ioList := by
  rcases h with rfl | rfl <;> rfl

theorem closedT_namesFrame (env : Env) (hnp : NamesPlain env.reg) : ClosedT env namesFrame where
  withD e f _ hr he h := condgq_withD e f hr he h
  addErrs e xs h := condgq_withD e _ (fun d => rfl) (fun d => ⟨xs, rfl⟩) h
  addErr e x h := condgq_withD e _ (fun d => rfl) (fun d => ⟨[x], rfl⟩) h
  importErrors e c h := condgq_withD e _ (fun d => rfl) (fun d => ⟨_, rfl⟩) h
  add root scope n kw c e v inv hkw hc hr he hv hs _ := by
    unfold Entry.add
    split
    · intro hne; exact absurd hne (not_noErrors_addErr _ _)
    · rename_i hk
      intro hne
      cases e with | mk d cc i o =>
      simp only [Entry.withDir, Entry.dir] at hne ⊢
      rw [noErrors_mk] at hne
      have hnv : NoErrors v := hne.2.1 v (by simp)
      have hne' : NoErrors (.mk d cc i o) :=
        (noErrors_mk _ _ _ _).2 ⟨hne.1, fun x hx => hne.2.1 x (by simp [hx]), hne.2.2⟩
      have hge := he hne'
      rw [everyNode_mk] at hge ⊢
      have hg := (gq_mk _ _ _ _).1 hge.1
      simp only [Entry.d] at hr
      simp only [hr, Bool.false_eq_true, if_false] at hg
      refine ⟨?_, ?_, hge.2.2⟩
      · rw [gq_mk]
        refine ⟨?_, by simp only [hr, Bool.false_eq_true, if_false]; exact hg.2⟩
        intro k hk'
        rcases List.mem_append.mp hk' with hk' | hk'
        · exact hg.1 k hk'
        · simp only [List.mem_singleton] at hk'; subst hk'
          rw [(hs hnv).1]; exact namesPlain_child hnp inv hkw hc
      · intro x hx
        rcases List.mem_append.mp hx with hx | hx
        · exact hge.2.1 x hx
        · simp only [List.mem_singleton] at hx; subst hx; exact hv hnv
  rpcFlag root scope n kw c v inv hrpc hc hv hpx := by
    have hk := mem_all_kw n kw c hc
    have hdir : v.dir = [] := hpx (by rw [hk]; exact hrpc)
    intro hne
    cases v with | mk d cc i o =>
    simp only [Entry.dir] at hdir
    subst hdir
    simp only [Entry.withD] at hne ⊢
    have hne' : NoErrors (.mk d [] i o) := by rw [noErrors_mk] at hne ⊢; exact hne
    have := hv hne'
    rw [everyNode_mk] at this ⊢
    refine ⟨?_, this.2⟩
    rw [gq_mk]; simp
  merge e oe hr he ho := by
    intro hne
    exact gq_merge e none oe (he (noErrors_merge_left e none oe hne)) (ho (noErrors_of_merge e none oe hne)) hr
  setInp d o ie he hi _ := by
    intro hne
    rw [noErrors_mk] at hne
    have hnie : NoErrors ie := by
      have := hne.2.2.1 _ (List.mem_singleton.mpr rfl)
      cases ie with | mk d' c' i' o' =>
      simp only [Entry.withD] at this
      rw [noErrors_mk] at this ⊢; exact this
    have h1 := he ((noErrors_mk _ _ _ _).2 ⟨hne.1, by simp, by simp, hne.2.2.2⟩)
    rw [everyNode_mk] at h1 ⊢
    refine ⟨by rw [gq_mk]; simp, by simp, ?_, h1.2.2.2⟩
    intro x hx
    simp only [List.mem_singleton] at hx; subst hx
    exact (everyNode_gq_withD ie (fun d => { d with name := "input", kind := .input }) (fun d => rfl)).trans (hi hnie)
  setOut d i oe he ho _ := by
    intro hne
    rw [noErrors_mk] at hne
    have hnoe : NoErrors oe := by
      have := hne.2.2.2 _ (List.mem_singleton.mpr rfl)
      cases oe with | mk d' c' i' o' =>
      simp only [Entry.withD] at this
      rw [noErrors_mk] at this ⊢; exact this
    have h1 := he ((noErrors_mk _ _ _ _).2 ⟨hne.1, by simp, hne.2.2.1, by simp⟩)
    rw [everyNode_mk] at h1 ⊢
    refine ⟨by rw [gq_mk]; simp, by simp, h1.2.2.1, ?_⟩
    intro x hx
    simp only [List.mem_singleton] at hx; subst hx
    exact (everyNode_gq_withD oe (fun d => { d with name := "output", kind := .output }) (fun d => rfl)).trans (ho hnoe)
  typeSet e ty h _ := condgq_withD e _ (fun d => rfl) (fun d => ⟨[], by simp⟩) h
  laSet e f h _ _ hr he := condgq_withD e f hr he h
  base0 root scope n _ := fun _ => e0_gq root n
  errE root scope n cls _ := fun hne => absurd (noErrors_own _ hne) (errorEntry_errors root n cls)
  leafE root scope n syn _ := fun _ => leafEntry_gq env root scope n syn
  leafL root scope n la xs dl _ := fun _ => by
    exact (everyNode_gq_withD (leafEntry env root scope n true)
      (fun d => { d with listAttr := some la, errors := d.errors ++ xs, default := dl }) (fun d => rfl)).trans
      (leafEntry_gq env root scope n true)
  row _ _ _ _ _ _ _ _ _ _ := trivial
  pc _ _ _ _ _ _ _ _ := trivial
  pxCache root scope n p inv hm _ _ := by
    intro h
    simp only [isModKw, Bool.or_eq_true, beq_iff_eq] at hm
    rcases hm with hm | hm <;> rcases h with h | h <;> rw [hm] at h <;> exact absurd h (by decide)
  pxTriv root scope n e hk := by
    intro h
    rcases hk with hk | hk | hk | hk <;> rcases h with h | h <;> rw [hk] at h <;> exact absurd h (by decide)
  pxErr root scope n cls _ := fun _ => rfl
  pxDir fuel root scope n visiting st S isMod _ _ _ _ := by
    intro h
    rw [fieldOrder_rpc n.kw h, fold_io_dir]
    rfl

/-- Every error-free tree the conversion leaves in the cache, and every error-free pending augment
entry, has `gq` at every node. -/
theorem gq_tstate (reg : Registry) (opts : Opts) (plug : Plug) (hnp : NamesPlain reg) :
    (∀ t ∈ (tstate reg opts plug).cache, NoErrors t.2 → everyNode gq t.2 = true) ∧
    (∀ p ∈ (tstate reg opts plug).augs, ∀ a ∈ p.2, NoErrors a → everyNode gq a = true) := by
  have h := (tstate_okT reg opts plug (closedT_namesFrame (envOf reg opts plug) hnp)).base
  exact ⟨fun t ht => h.cache t ht, fun p hp a ha => h.augs p hp a ha⟩

end Goyang.Lemmas.Bridge
