import Goyang.Lemmas.BridgeNames
import Goyang.Lemmas.Deviate
/-
Bridge lemmas, part 4 (C17): the local predicate `gq` of Lemmas/BridgeNames.lean (spellable child
names; an rpc / action has no `Dir` children, nothing else has an rpc input / output) along the rest
of `processAll`: the augment stage (where it matters that `Find` creates an absent input / output
only below an rpc / action and that `augmentTree` refuses an rpc / action node as target),
`FixChoice`, and the deviation stage.  The stage lemmas follow Lemmas/Tree.lean (C04).
-/
set_option linter.unusedVariables false
set_option linter.unusedSimpArgs false
namespace Goyang.Lemmas.Bridge
open Goyang.Model Goyang.Spec.Tree Goyang.Lemmas.Tree
open Goyang.Spec.Find (goodName wfKeys wfKeysL WFForest)

/-! ### `walkParts` creates an input / output only below an rpc / action -/

theorem walkParts_inv3 (P : Entry → Prop)
    (hin : ∀ root p e, P root → PathOK p → root.getAt p = some e → e.d.isRpc = true → e.inp = [] →
      P (root.updateAt p setImplicitIn))
    (hout : ∀ root p e, P root → PathOK p → root.getAt p = some e → e.d.isRpc = true → e.out = [] →
      P (root.updateAt p setImplicitOut)) :
    ∀ (parts : List String) (root : Entry) (cur : Option Path), P root → (∀ p, cur = some p → PathOK p) →
      P (walkParts parts root cur).2 ∧ (∀ p, (walkParts parts root cur).1 = some p → PathOK p) := by
  intro parts
  induction parts with
  | nil => intro root cur h hc; exact ⟨h, hc⟩
  | cons part rest ih =>
    intro root cur h hc
    unfold walkParts
    dsimp only
    split
    · exact ⟨h, fun p hp => absurd hp (by simp)⟩
    · rename_i p
      have hp : PathOK p := hc p rfl
      split
      · exact ⟨h, fun p hp => absurd hp (by simp)⟩
      · rename_i e he
        split
        · exact ih root _ h (fun q hq => by cases hq; exact hp)
        · split
          · refine ih root _ h (fun q hq => ?_)
            split at hq
            · exact absurd hq (by simp)
            · cases hq; exact pathOK_dropLast p hp
          · split
            · rename_i hrpc
              split
              · refine ih _ _ ?_ (fun q hq => by cases hq; exact pathOK_append_input p hp)
                split
                · rename_i hemp
                  exact hin root p e h hp he hrpc (by simpa using hemp)
                · exact h
              · split
                · refine ih _ _ ?_ (fun q hq => by cases hq; exact pathOK_append_output p hp)
                  split
                  · rename_i hemp
                    exact hout root p e h hp he hrpc (by simpa using hemp)
                  · exact h
                · exact ⟨h, fun p hp => absurd hp (by simp)⟩
            · split
              · exact ih root _ h (fun q hq => by cases hq; exact hp)
              · split
                · exact ⟨h, fun p hp => absurd hp (by simp)⟩
                · rename_i hnm
                  split
                  · refine ih root _ h (fun q hq => ?_)
                    cases hq
                    refine pathOK_append_child p _ hp ?_
                    intro h0; apply hnm; simp [h0]
                  · exact ih root _ h (fun q hq => absurd hq (by simp))

/-! ### the augment stage, with the target known to accept children -/

/-- `AugClosed` of Lemmas/Tree.lean, where `mergeAt` may use that the target passed
`cannotHaveChildren`. -/
structure AugClosed' (P PA : Entry → Prop) : Prop where
  find : ∀ (reg : Registry) (f : Forest) (start : Loc) (ctx : Nat) (name : String), ForestAll P f → PathOK start.2 →
    ForestAll P (find reg f start ctx name).2 ∧ ∀ t path, (find reg f start ctx name).1 = some (t, path) → PathOK path
  addErr : ∀ (e : Entry) (x : Err), P e → P (e.addErr x)
  mergeAt : ∀ (root : Entry) (path : Path) (te a : Entry) (ns : Option String), P root → PathOK path →
    root.getAt path = some te → cannotHaveChildren te = false → PA a → P (root.updateAt path fun te => te.merge ns a)

section AugGeneric'
variable {P PA : Entry → Prop} (hA : AugClosed' P PA)
include hA

theorem augFail_inv' (id : Nat) (addErrors : Bool) (a : Entry) (s : PState) (un : List Entry) (p k : Nat)
    (hf : ForestAll P s.forest) : ForestAll P (augFail id addErrors a s un p k).1.forest := by
  unfold augFail
  dsimp only
  split
  · split
    · rename_i root hroot
      exact forestAll_setTree _ _ _ hf (hA.addErr _ _ (forestAll_tree? _ _ _ hf hroot))
    · exact hf
  · exact hf

theorem augStep_inv' (reg : Registry) (id : Nat) (addErrors : Bool) (nsOf : String)
    (acc : PState × List Entry × Nat × Nat) (a : Entry) (hf : ForestAll P acc.1.forest) (ha : PA a) :
    ForestAll P (augStep reg id addErrors nsOf acc a).1.forest := by
  obtain ⟨s, un, p, k⟩ := acc
  dsimp only at hf
  have hfind := hA.find reg s.forest (id, []) a.d.nodeMod a.d.name hf pathOK_nil
  unfold augStep
  dsimp only
  generalize find reg s.forest (id, []) a.d.nodeMod a.d.name = r at hfind
  obtain ⟨target, forest⟩ := r
  dsimp only at hfind ⊢
  have fail := augFail_inv' hA id addErrors a { s with forest := forest } un p k hfind.1
  split
  · exact fail
  · rename_i t path
    have hpath : PathOK path := hfind.2 t path rfl
    split
    · exact fail
    · rename_i te hte
      split
      · exact fail
      · rename_i hcan
        split
        · exact fail
        · rename_i root hroot
          dsimp only at hroot hte ⊢
          simp only [hroot, Option.bind_some] at hte
          exact forestAll_setTree _ _ _ hfind.1
            (hA.mergeAt root path te a (some nsOf) (forestAll_tree? _ _ _ hfind.1 hroot) hpath hte (by simpa using hcan) ha)

theorem augmentTree_ainv' (reg : Registry) (id : Nat) (addErrors : Bool) (s : PState) (h : AInv P PA s) :
    AInv P PA (augmentTree reg id addErrors s).1 := by
  obtain ⟨un, _, hp, hsub, _, _, _⟩ := augmentTree_ok reg id addErrors s
  refine ⟨?_, ?_⟩
  · rw [augmentTree_eq]
    dsimp only
    refine foldl_inv (fun acc : PState × List Entry × Nat × Nat => ForestAll P acc.1.forest) _ _ _ h.trees ?_
    intro acc a ha hacc
    obtain ⟨p, hp, hap⟩ := pendingOf_mem s id a ha
    exact augStep_inv' hA reg id addErrors _ acc a hacc (h.pend p hp a hap)
  · rw [hp]
    intro p hp' a ha
    simp only [List.mem_map] at hp'
    obtain ⟨ip, hip, rfl⟩ := hp'
    split at ha
    · obtain ⟨p0, hp0, h0⟩ := pendingOf_mem s id a (hsub a ha)
      exact h.pend p0 hp0 a h0
    · exact h.pend ip hip a ha

theorem augmentPass_ainv' (reg : Registry) : ∀ (fuel : Nat) (mods : Array Nat) (i processed : Nat) (s : PState),
    AInv P PA s → AInv P PA (augmentPass reg fuel mods i processed s).2.2 := by
  intro fuel
  induction fuel with
  | zero => intro mods i processed s h; exact h
  | succ fuel ih =>
    intro mods i processed s h
    unfold augmentPass
    split
    · have := augmentTree_ainv' hA reg mods[i] false s h
      generalize augmentTree reg mods[i] false s = r at this ⊢
      obtain ⟨s', p, k⟩ := r
      dsimp only at this ⊢
      split
      · exact ih _ _ _ _ this
      · exact ih _ _ _ _ this
    · exact h

theorem augmentLoop_ainv' (reg : Registry) : ∀ (fuel : Nat) (mods : Array Nat) (s : PState),
    AInv P PA s → AInv P PA (augmentLoop reg fuel mods s).2 := by
  intro fuel
  induction fuel with
  | zero => intro mods s h; exact h
  | succ fuel ih =>
    intro mods s h
    unfold augmentLoop
    split
    · exact h
    · have := augmentPass_ainv' hA reg (mods.size + 1) mods 0 0 s h
      generalize augmentPass reg (mods.size + 1) mods 0 0 s = r at this ⊢
      obtain ⟨mods', processed, s'⟩ := r
      dsimp only at this ⊢
      split
      · exact this
      · exact ih _ _ this

theorem leftover_ainv' (reg : Registry) (left : Array Nat) (s : PState) (h : AInv P PA s) :
    AInv P PA (left.foldl (fun (acc : PState × Nat) id =>
      let (s, p, _) := augmentTree reg id true acc.1
      (s, acc.2 + p)) (s, 0)).1 := by
  rw [← Array.foldl_toList]
  refine foldl_inv (fun acc : PState × Nat => AInv P PA acc.1) _ _ _ h ?_
  rintro ⟨s, cnt⟩ id _ hs
  have := augmentTree_ainv' hA reg id true s hs
  generalize augmentTree reg id true s = r at this ⊢
  obtain ⟨s', p, k⟩ := r
  exact this

end AugGeneric'

/-! ### `gq` at the three operations of the augment stage -/

theorem gq_implicitIO (parent : Entry) (b : Bool) : everyNode gq (implicitIO parent b) = true := by
  unfold implicitIO; rw [everyNode_mk]
  refine ⟨?_, by simp, by simp, by simp⟩
  rw [gq_mk]; simp

theorem condgq_setImplicitIn (root : Entry) (p : Path) (e : Entry) (hu : U root) (hp : PathOK p)
    (hg : root.getAt p = some e) (hr : e.d.isRpc = true) (hi : e.inp = []) (h : Cond gq root) :
    Cond gq (root.updateAt p setImplicitIn) := by
  refine cond_updateAt gq hdrLocal_gq setImplicitIn e ?_ ?_ (by cases e; rfl) p root hu hp hg h
  · intro hn
    cases e with | mk d c i o =>
    simp only [Entry.inp] at hi; subst hi
    simp only [setImplicitIn] at hn
    rw [noErrors_mk] at hn ⊢
    exact ⟨hn.1, hn.2.1, by simp, hn.2.2.2⟩
  · intro _ he
    cases e with | mk d c i o =>
    simp only [Entry.inp] at hi; subst hi
    simp only [Entry.d] at hr
    simp only [setImplicitIn]
    rw [everyNode_mk] at he ⊢
    have hg' := (gq_mk _ _ _ _).1 he.1
    simp only [hr, if_true] at hg'
    refine ⟨?_, he.2.1, ?_, he.2.2.2⟩
    · rw [gq_mk]; simp only [hr, if_true]; exact hg'
    · intro x hx; simp only [List.mem_singleton] at hx; subst hx; exact gq_implicitIO _ _

theorem condgq_setImplicitOut (root : Entry) (p : Path) (e : Entry) (hu : U root) (hp : PathOK p)
    (hg : root.getAt p = some e) (hr : e.d.isRpc = true) (ho : e.out = []) (h : Cond gq root) :
    Cond gq (root.updateAt p setImplicitOut) := by
  refine cond_updateAt gq hdrLocal_gq setImplicitOut e ?_ ?_ (by cases e; rfl) p root hu hp hg h
  · intro hn
    cases e with | mk d c i o =>
    simp only [Entry.out] at ho; subst ho
    simp only [setImplicitOut] at hn
    rw [noErrors_mk] at hn ⊢
    exact ⟨hn.1, hn.2.1, hn.2.2.1, by simp⟩
  · intro _ he
    cases e with | mk d c i o =>
    simp only [Entry.out] at ho; subst ho
    simp only [Entry.d] at hr
    simp only [setImplicitOut]
    rw [everyNode_mk] at he ⊢
    have hg' := (gq_mk _ _ _ _).1 he.1
    simp only [hr, if_true] at hg'
    refine ⟨?_, he.2.1, he.2.2.1, ?_⟩
    · rw [gq_mk]; simp only [hr, if_true]; exact hg'
    · intro x hx; simp only [List.mem_singleton] at hx; subst hx; exact gq_implicitIO _ _

theorem condgq_addErr (e : Entry) (x : Err) (h : Cond gq e) : Cond gq (e.addErr x) :=
  condgq_withD e _ (fun d => rfl) (fun d => ⟨[x], rfl⟩) h

theorem isRpc_of_canHave (te : Entry) (h : cannotHaveChildren te = false) : te.d.isRpc = false := by
  unfold cannotHaveChildren at h
  simp only [Bool.or_eq_false_iff] at h
  exact h.2

theorem condgq_merge_at (root : Entry) (path : Path) (te a : Entry) (ns : Option String) (hu : U root)
    (hp : PathOK path) (hg : root.getAt path = some te) (hcan : cannotHaveChildren te = false) (h : Cond gq root)
    (ha : Cond gq a) : Cond gq (root.updateAt path fun te => te.merge ns a) := by
  refine cond_updateAt gq hdrLocal_gq _ te (noErrors_merge_left te ns a) ?_ ?_ path root hu hp hg h
  · intro hn hte
    exact gq_merge te ns a hte (ha (noErrors_of_merge te ns a hn)) (isRpc_of_canHave te hcan)
  · have := rootKeep_merge te ns a
    exact Prod.ext this.1 this.2.1

/-! ### the tree invariant of the augment stage: C04's, and `gq` when error-free -/

/-- A module tree: C04's invariant and, if error-free, `gq` at every node. -/
def GT (t : Entry) : Prop := TreeInv (wfqB false) t ∧ Cond gq t
/-- A pending augment entry. -/
def GA (a : Entry) : Prop := TInv (wfqB false) a ∧ Cond gq a

theorem localOK_wf (env : Env) : LocalOK env (wfqB false) := localOK_wfqB env false (fun h => absurd h (by simp))

theorem augClosed'_G (env : Env) : AugClosed' GT GA where
  find reg f start ctx name hf hs :=
    find_inv2 GT
      (walkParts_inv3 GT
        (fun root p e h hp hg hr hi => ⟨⟨tinv_setImplicitIn (localOK_wf env) root p e h.1.1 hp hg hi,
          (updateAt_kind _ (fun x => by cases x; rfl) p root).trans h.1.2⟩,
          condgq_setImplicitIn root p e h.1.1.1 hp hg hr hi h.2⟩)
        (fun root p e h hp hg hr ho => ⟨⟨tinv_setImplicitOut (localOK_wf env) root p e h.1.1 hp hg ho,
          (updateAt_kind _ (fun x => by cases x; rfl) p root).trans h.1.2⟩,
          condgq_setImplicitOut root p e h.1.1.1 hp hg hr ho h.2⟩))
      (fun e x h => ⟨⟨tinv_addErr (localOK_wf env) e x h.1.1, by cases e; exact h.1.2⟩, condgq_addErr e x h.2⟩)
      reg f start ctx name hf hs
  addErr e x h := ⟨⟨tinv_addErr (localOK_wf env) e x h.1.1, by cases e; exact h.1.2⟩, condgq_addErr e x h.2⟩
  mergeAt root path te a ns h hp hg hcan ha :=
    ⟨⟨tinv_merge_at (localOK_wf env) root path te a ns h.1.1 hp hg ha.1,
      (updateAt_kind _ (fun x => (rootKeep_merge x ns a).2.1) path root).trans h.1.2⟩,
      condgq_merge_at root path te a ns h.1.1.1 hp hg hcan h.2 ha.2⟩

theorem ainvG_pstate0 (reg : Registry) (opts : Opts) (plug : Plug) (hnp : NamesPlain reg) :
    AInv GT GA (pstate0 reg opts plug) := by
  have h0 := ainv_pstate0 reg opts plug (localOK_wf (envOf reg opts plug))
  have hg := gq_tstate reg opts plug hnp
  refine ⟨?_, ?_⟩
  · intro t ht
    exact ⟨h0.trees t ht, hg.1 t (by simpa [pstate0, forest0] using ht)⟩
  · intro p hp a ha
    refine ⟨h0.pend p hp a ha, ?_⟩
    simp only [pstate0, pending0, List.mem_map] at hp
    obtain ⟨m, _, rfl⟩ := hp
    dsimp only at ha
    cases hf : (tstate reg opts plug).augs.find? (·.1 == m.seq) with
    | none => simp [hf] at ha
    | some r =>
      simp only [hf, Option.map_some, Option.getD_some] at ha
      exact hg.2 r (List.mem_of_find?_eq_some hf) a ha

/-! ### `FixChoice` -/

theorem gq_wrapCase (x : Entry) (hn : goodName x.name = true) (h : everyNode gq x = true) :
    everyNode gq (wrapCase x) = true := by
  unfold wrapCase; split
  · exact h
  · rw [everyNode_mk]
    refine ⟨?_, ?_, by simp, by simp⟩
    · rw [gq_mk]
      refine ⟨?_, by simp⟩
      intro k hk; simp only [List.mem_singleton] at hk; subst hk; exact hn
    · intro y hy; simp only [List.mem_singleton] at hy; subst hy; exact h

theorem gq_fixChoice (e : Entry) (h : everyNode gq e = true) : everyNode gq (fixChoice e) = true := by
  induction e using entry_ind with
  | h d c i o hc hi ho =>
    rw [fixChoice_eq]
    rw [everyNode_mk] at h ⊢
    obtain ⟨h0, h1, h2, h3⟩ := h
    have hg := (gq_mk _ _ _ _).1 h0
    have e1 : ∀ l : List Entry, (∀ k ∈ l, goodName k.name = true) ↔ ∀ s ∈ l.map (·.name), goodName s = true := by
      intro l; simp
    have hemp : ∀ g : Bool, (if g then (c.map fixChoice).map wrapCase else c.map fixChoice) = [] ↔ c = [] := by
      intro g; split <;> simp
    refine ⟨?_, ?_, ?_, ?_⟩
    · rw [gq_mk, e1, names_fix, ← e1, hemp]
      refine ⟨hg.1, ?_⟩
      have := hg.2
      split at this
      · rename_i hr; simp only [hr, if_true]; exact this
      · rename_i hr; simp only [hr, if_false]; simpa using this
    · intro x hx
      split at hx
      · simp only [List.mem_map] at hx
        obtain ⟨y, ⟨z, hz, rfl⟩, rfl⟩ := hx
        exact gq_wrapCase _ (by rw [fixChoice_name]; exact hg.1 z hz) (hc z hz (h1 z hz))
      · simp only [List.mem_map] at hx
        obtain ⟨z, hz, rfl⟩ := hx
        exact hc z hz (h1 z hz)
    · intro x hx
      simp only [List.mem_map] at hx
      obtain ⟨z, hz, rfl⟩ := hx
      exact hi z hz (h2 z hz)
    · intro x hx
      simp only [List.mem_map] at hx
      obtain ⟨z, hz, rfl⟩ := hx
      exact ho z hz (h3 z hz)

theorem ainvG_fixAll (s : PState) (h : AInv GT GA s) : AInv GT GA (fixAll s) := by
  have h0 : AInv (TreeInv (wfqB false)) (TInv (wfqB false)) (fixAll s) :=
    ainv_fixAll (wfqB_fixChoice false) s ⟨fun t ht => (h.trees t ht).1, fun p hp a ha => (h.pend p hp a ha).1⟩
  refine ⟨?_, h.pend⟩
  intro t ht
  refine ⟨h0.trees t ht, ?_⟩
  simp only [fixAll, List.mem_map] at ht
  obtain ⟨⟨i, e⟩, he, rfl⟩ := ht
  dsimp only
  intro hn
  exact gq_fixChoice e ((h.trees _ he).2 ((noErrors_fixChoice e).1 hn))

/-- The invariant holds of the state before the deviations are applied. -/
theorem ainvG_preDev (reg : Registry) (opts : Opts) (plug : Plug) (hnp : NamesPlain reg) :
    AInv GT GA (preDev reg opts plug) := by
  have hA := augClosed'_G (envOf reg opts plug)
  have h1 := afterRounds_state reg opts plug (AInv GT GA)
    (fun fuel mods s h => augmentLoop_ainv' hA reg fuel mods s h) (fun s h => ainvG_fixAll s h)
    (ainvG_pstate0 reg opts plug hnp)
  have h2 := leftover_ainv' hA reg (afterRounds reg opts plug).1 (afterRounds reg opts plug).2 h1
  unfold preDev
  split
  · exact ainvG_fixAll _ h2
  · exact h2

/-! ### the deviation stage -/

/-- C04's invariant of a module tree during the deviation stage of a clean `Process`, and `gq`. -/
def DPG (t : Entry) : Prop := DP false t ∧ everyNode gq t = true

theorem applyOneDeviate_isRpc (opts : Opts) (ms : Stmt) (kind : String) (spec : Entry) (hp : Bool) (node : Entry) :
    (applyOneDeviate opts ms kind spec hp node).1.d.isRpc = node.d.isRpc := by
  have := Deviate.applyOneDeviate_untouched opts ms kind spec hp node
  simp only [Deviate.untouched, Prod.mk.injEq] at this
  exact this.2.2.2.2.2.2.2.2.1

section DPG
variable (env : Env)
include env

theorem dpg_find (reg : Registry) (f : Forest) (start : Loc) (ctx : Nat) (name : String)
    (hf : ForestAll DPG f) (hs : PathOK start.2) :
    ((find reg f start ctx name).1 ≠ none → ForestAll DPG (find reg f start ctx name).2) ∧
      ∀ t path, (find reg f start ctx name).1 = some (t, path) → PathOK path :=
  find_inv2_some DPG
    (walkParts_inv3 DPG
      (fun root p e h hp hg hr hi => by
        have h1 := dp_setImplicitIn (localOK_wf env) root p e h.1 hp hg hi
        exact ⟨h1, condgq_setImplicitIn root p e h.1.u hp hg hr hi (fun _ => h.2) h1.ne⟩)
      (fun root p e h hp hg hr ho => by
        have h1 := dp_setImplicitOut (localOK_wf env) root p e h.1 hp hg ho
        exact ⟨h1, condgq_setImplicitOut root p e h.1.u hp hg hr ho (fun _ => h.2) h1.ne⟩))
    reg f start ctx name hf hs

omit env in
theorem gq_of_equiv (e v : Entry) (heq : DataEquiv e v) (hr : v.d.isRpc = e.d.isRpc) (h : everyNode gq e = true) :
    everyNode gq v = true := by
  cases e with | mk d c i o =>
  cases v with | mk d' c' i' o' =>
  have e1 := heq.dir; have e2 := heq.inp; have e3 := heq.out
  simp only [Entry.dir, Entry.inp, Entry.out, Entry.d] at e1 e2 e3 hr
  subst e1 e2 e3
  rw [everyNode_mk] at h ⊢
  exact ⟨by rw [gq_data d d' _ _ _ hr]; exact h.1, h.2⟩

theorem dpg_replace (root : Entry) (path : Path) (e v : Entry) (h : DPG root) (hp : PathOK path)
    (hg : root.getAt path = some e) (heq : DataEquiv e v) (hr : v.d.isRpc = e.d.isRpc) :
    DPG (root.updateAt path fun _ => v) ∧ (root.updateAt path fun _ => v).getAt path = some v := by
  obtain ⟨h1, h2⟩ := dp_replace (localOK_wf env) root path e v h.1 hp hg heq
  refine ⟨⟨h1, ?_⟩, h2⟩
  have hh : hdr v = hdr e := by
    unfold hdr; rw [heq.name, heq.kind]
  exact everyNode_updateAt gq hdrLocal_gq (fun _ => v) e (fun he => gq_of_equiv e v heq hr he) hh path root h.1.u hp hg h.2

omit env in
theorem gq_dropKids (pr : Entry → Bool) (b1 b2 : Bool) (x : Entry) (h : everyNode gq x = true) :
    everyNode gq (dropKids pr b1 b2 x) = true := by
  cases x with | mk d c i o =>
  simp only [dropKids]
  rw [everyNode_mk] at h ⊢
  have hg := (gq_mk _ _ _ _).1 h.1
  have hi : ∀ z ∈ (if b1 = true then [] else i), z ∈ i := by intro z hz; split at hz <;> simp_all
  have ho : ∀ z ∈ (if b2 = true then [] else o), z ∈ o := by intro z hz; split at hz <;> simp_all
  refine ⟨?_, fun z hz => h.2.1 z (List.mem_filter.mp hz).1, fun z hz => h.2.2.1 z (hi z hz),
    fun z hz => h.2.2.2 z (ho z hz)⟩
  rw [gq_mk]
  refine ⟨fun k hk => hg.1 k (List.mem_filter.mp hk).1, ?_⟩
  have := hg.2
  split at this
  · rename_i hr; simp only [hr, if_true]; rw [this]; rfl
  · rename_i hr
    simp only [hr, if_false]
    obtain ⟨rfl, rfl⟩ := this
    constructor <;> split <;> rfl

theorem dpg_removeAt (root : Entry) (p : Path) (h : DPG root) : DPG (removeAt root p) := by
  refine ⟨dp_removeAt (localOK_wf env) root p h.1, ?_⟩
  have gen : ∀ (pr : Entry → Bool) (b1 b2 : Bool) (path : Path),
      everyNode gq (root.updateAt path (dropKids pr b1 b2)) = true := fun pr b1 b2 path =>
    (everyNode_updateAt_all gq hdrLocal_gq (dropKids pr b1 b2) (fun x hx => gq_dropKids pr b1 b2 x hx)
      (fun x => by cases x; rfl) path root h.2).1
  unfold removeAt
  split
  · rename_i k _
    have := gen (fun x => x.name != k) false false p.dropLast
    have heq : dropKids (fun x => x.name != k) false false =
        (fun pe : Entry => pe.withDir (pe.dir.filter (·.name != k))) := by
      funext x; cases x; rfl
    rw [heq] at this; exact this
  · have := gen (fun _ => true) true false p.dropLast
    have heq : dropKids (fun _ => true) true false =
        (fun pe : Entry => match pe with | .mk d c _ o => .mk d c [] o) := by
      funext x; cases x; simp [dropKids]
    rw [heq] at this; exact this
  · have := gen (fun _ => true) false true p.dropLast
    have heq : dropKids (fun _ => true) false true =
        (fun pe : Entry => match pe with | .mk d c i _ => .mk d c i []) := by
      funext x; cases x; simp [dropKids]
    rw [heq] at this; exact this
  · exact h.2

/-- The deviations of one module keep the tree invariant, unless they return an error. -/
theorem dpg_applyDeviations (reg : Registry) (opts : Opts) (m : Mod) (devs : List (Stmt × List (String × Entry)))
    (f : Forest) (hf : ForestAll DPG f) (hclean : (applyDeviations reg opts m devs f).2 = []) :
    ForestAll DPG (applyDeviations reg opts m devs f).1 := by
  revert hclean
  unfold applyDeviations
  refine foldl_inv (fun acc : Forest × List Err => acc.2 = [] → ForestAll DPG acc.1) _ devs (f, []) (fun _ => hf) ?_
  rintro ⟨f, errs⟩ ⟨dstmt, deviates⟩ _ hP
  dsimp only at hP ⊢
  have hfind := fun h => dpg_find env reg f (m.seq, []) m.seq dstmt.arg h pathOK_nil
  generalize find reg f (m.seq, []) m.seq dstmt.arg = r at hfind
  obtain ⟨target, f'⟩ := r
  dsimp only at hfind ⊢
  split
  · intro h; simp at h
  · rename_i t path
    split
    · intro h; simp at h
    · rename_i node0 hn0
      dsimp only
      have key := foldl_inv (fun acc : Forest × Entry × Bool × List Err =>
          (∃ l, acc.2.2.2 = errs ++ l) ∧ (errs = [] → ForestAll DPG acc.1 ∧
            (acc.2.2.1 = false → ∃ root, acc.1.tree? t = some root ∧ root.getAt path = some acc.2.1)))
        (fun (acc : Forest × Entry × Bool × List Err) (ds : String × Entry) =>
          let (f, node, detached, errs) := acc
          let (node', remove, es) := applyOneDeviate opts m.stmt ds.1 ds.2 (!path.isEmpty) node
          let es := if remove && detached then es ++ [Err.at_ m.stmt "deviate-already-removed"] else es
          let f := if detached then f else
            match f.tree? t with
            | none => f
            | some root =>
              let root := root.updateAt path fun _ => node'
              f.setTree t (if remove then removeAt root path else root)
          (f, node', detached || remove, errs ++ es))
        deviates (f', node0, false, errs) ⟨⟨[], by simp⟩, ?_⟩ ?_
      · intro hfin
        obtain ⟨⟨l, hl⟩, hk⟩ := key
        have he : errs = [] := by
          have := hl.symm.trans hfin
          simp only [List.append_eq_nil_iff] at this; exact this.1
        exact (hk he).1
      · intro he
        have hf' := (hfind (hP he)).1 (by simp)
        refine ⟨hf', fun _ => ?_⟩
        cases ht : f'.tree? t with
        | none => simp [ht] at hn0
        | some root =>
          simp only [ht, Option.bind_some] at hn0
          exact ⟨root, rfl, hn0⟩
      · rintro ⟨f2, node, detached, errs2⟩ ds _ ⟨⟨l, hl⟩, hk⟩
        dsimp only at hl hk ⊢
        refine ⟨⟨l ++ _, by rw [hl, List.append_assoc]⟩, ?_⟩
        intro he
        obtain ⟨hf2, hnode⟩ := hk he
        have hpath : PathOK path := (hfind (hP he)).2 t path rfl
        have heq := applyOneDeviate_equiv opts m.stmt ds.1 ds.2 (!path.isEmpty) node
        have hrpc := applyOneDeviate_isRpc opts m.stmt ds.1 ds.2 (!path.isEmpty) node
        cases detached with
        | true =>
          simp only [if_true, Bool.true_or]
          exact ⟨hf2, fun h => absurd h (by simp)⟩
        | false =>
          simp only [Bool.false_eq_true, if_false, Bool.false_or]
          obtain ⟨root, hroot, hg⟩ := hnode rfl
          simp only [hroot]
          have hrep := dpg_replace env root path node _ (forestAll_tree? _ _ _ hf2 hroot) hpath hg heq hrpc
          refine ⟨?_, ?_⟩
          · apply forestAll_setTree _ _ _ hf2
            split
            · exact dpg_removeAt env _ _ hrep.1
            · exact hrep.1
          · intro hrem
            simp only [hrem, Bool.false_eq_true, if_false]
            refine ⟨_, ?_, hrep.2⟩
            rw [tree?_setTree]; simp [hroot]

theorem dpg_devStage (reg : Registry) (opts : Opts) (plug : Plug)
    (f0 : Forest) (h : ForestAll DPG f0) (hclean : (devStage reg opts plug f0).2.1 = []) :
    ForestAll DPG (devStage reg opts plug f0).1 := by
  revert hclean
  unfold devStage
  refine foldl_inv (fun acc : Forest × List Err × List String => acc.2.1 = [] → ForestAll DPG acc.1) _ _ _
    (fun _ => h) ?_
  rintro ⟨f, errs, done⟩ m _ hP
  dsimp only at hP ⊢
  split
  · exact hP
  · dsimp only
    intro he
    simp only [List.append_eq_nil_iff] at he
    exact dpg_applyDeviations env _ _ _ _ _ (hP he.1) he.2

end DPG

/-- **Every tree a clean `Process` leaves behind has `gq` at every node** (spellable child names;
an rpc / action has no `Dir` children, nothing else an rpc input / output), when the names written
in the loaded statements are spellable. -/
theorem process_clean_gq (reg : Registry) (opts : Opts) (plug : Plug) (hnp : NamesPlain reg)
    (h : (processAll reg opts plug).errors = []) :
    ∀ t ∈ (processAll reg opts plug).forest.trees, everyNode gq t.2 = true := by
  obtain ⟨_, _, h3, h4, h5⟩ := processAll_clean reg opts plug h
  rw [h5]
  have hpre : ForestAll DPG (preDev reg opts plug).forest := by
    intro t ht
    obtain ⟨a, b, c, d⟩ := preDev_clean reg opts plug (localOK_wf (envOf reg opts plug)) (wfqB_fixChoice false) h t ht
    have hne := (forestErrs_eq_nil _).1 h3
    exact ⟨⟨a, b, c, d, preDev_choiceCases reg opts plug h t ht⟩,
      ((ainvG_preDev reg opts plug hnp).trees t ht).2 (hne t ht)⟩
  intro t ht
  exact (dpg_devStage (envOf reg opts plug) reg opts plug _ hpre h4 t ht).2

end Goyang.Lemmas.Bridge
