import Goyang.Lemmas.Registry
import Goyang.Lemmas.FuelProcess
/-
Bridge lemmas: `Fuel.LoadedShape` (sequence numbers distinct, no (sub)module bound in both tables)
really is the shape loading produces — of every registry obtained from the empty one by
`Registry.add` (`loadFrom`, `loadAll`), whatever is loaded and whether or not a load is rejected.
-/
set_option linter.unusedVariables false
namespace Goyang.Lemmas.Bridge
open Goyang.Model
open Goyang.Lemmas.Registry (SeqOk seqOk_snoc kmOf_withKm mods_withKm kmOf_withUm mods_withUm)

theorem mem_bind {m : KeyMap} {k : String} {v : Nat} {kv : String × Nat} (h : kv ∈ m.bind k v) :
    kv ∈ m ∨ kv = (k, v) := by
  unfold KeyMap.bind at h
  split at h
  · obtain ⟨x, hx, rfl⟩ := List.mem_map.mp h
    split
    · exact Or.inr rfl
    · exact Or.inl hx
  · rcases List.mem_append.mp h with h | h
    · exact Or.inl h
    · exact Or.inr (by simpa using h)

/-- Sequence numbers are positions, and every id bound in the table of a kind is the sequence
number of a loaded module of that kind. -/
structure TablesOK (r : Registry) : Prop where
  seq : SeqOk r.mods
  kinds : ∀ sub, ∀ kv ∈ r.kmOf sub, ∃ m ∈ r.mods, m.seq = kv.2 ∧ m.isSub = sub

theorem tablesOK_empty : TablesOK {} :=
  ⟨fun i h => by simp at h, fun sub kv h => by cases sub <;> simp [Registry.kmOf] at h⟩

/-- What `add` does to the tables: the list of modules grows by the new one, the table of its kind
gets bindings of its sequence number only, the other table is unchanged. -/
theorem tablesOK_step (r r' : Registry) (s : Stmt) (h : TablesOK r)
    (hmods : r'.mods = r.mods ++ [⟨r.mods.length, s⟩])
    (hkm : ∀ sub, ∀ kv ∈ r'.kmOf sub, kv ∈ r.kmOf sub ∨ (kv.2 = r.mods.length ∧ sub = (⟨r.mods.length, s⟩ : Mod).isSub)) :
    TablesOK r' := by
  refine ⟨by rw [hmods]; exact seqOk_snoc h.seq s, ?_⟩
  intro sub kv hkv
  rcases hkm sub kv hkv with h1 | ⟨h1, h2⟩
  · obtain ⟨m, hm, e1, e2⟩ := h.kinds sub kv h1
    exact ⟨m, by rw [hmods]; exact List.mem_append_left _ hm, e1, e2⟩
  · exact ⟨⟨r.mods.length, s⟩, by rw [hmods]; simp, h1.symm, h2.symm⟩

theorem tablesOK_add {r r' : Registry} {s : Stmt} (h : TablesOK r) (ha : r.add s = .ok r') : TablesOK r' := by
  have ha := (Registry.add_ok ha).2
  unfold Registry.addChecked at ha
  simp only at ha
  -- facts about tables built from `r.kmOf sub` by binding the new sequence number
  have hb1 : ∀ (km : KeyMap) (k : String) sub', (∀ kv ∈ km, kv ∈ r.kmOf sub' ∨ kv.2 = r.mods.length) →
      ∀ kv ∈ km.bind k r.mods.length, kv ∈ r.kmOf sub' ∨ kv.2 = r.mods.length := by
    intro km k sub' hkm kv hkv
    rcases mem_bind hkv with h1 | h1
    · exact hkm kv h1
    · exact Or.inr (by rw [h1])
  have h0 : ∀ sub', ∀ kv ∈ r.kmOf sub', kv ∈ r.kmOf sub' ∨ kv.2 = r.mods.length := fun _ _ h => Or.inl h
  -- the final step: a registry whose module list grew by the new module and whose table of the
  -- new module's kind is `km`
  have fin : ∀ (r1 : Registry) (km : KeyMap), r1.mods = r.mods ++ [⟨r.mods.length, s⟩] →
      (∀ b, r1.kmOf b = r.kmOf b) →
      (∀ kv ∈ km, kv ∈ r.kmOf (⟨r.mods.length, s⟩ : Mod).isSub ∨ kv.2 = r.mods.length) →
      TablesOK (r1.withKm (⟨r.mods.length, s⟩ : Mod).isSub km) := by
    intro r1 km hm hk hkm
    refine tablesOK_step r _ s h (by rw [mods_withKm, hm]) ?_
    intro sub kv hkv
    rw [kmOf_withKm] at hkv
    split at hkv
    · rename_i hs
      rcases hkm kv hkv with h1 | h1
      · exact Or.inl (by rw [hs]; exact h1)
      · exact Or.inr ⟨h1, hs⟩
    · rw [hk] at hkv; exact Or.inl hkv
  split at ha
  · split at ha
    · cases ha
    · split at ha
      · cases ha
        refine fin _ _ (by rw [mods_withUm]) (fun b => by rw [kmOf_withUm]; cases b <;> rfl) (h0 _)
      · cases ha
        refine fin _ _ (by rw [mods_withUm]) (fun b => by rw [kmOf_withUm]; cases b <;> rfl) (hb1 _ _ _ (h0 _))
  · split at ha
    · cases ha
    · cases ha
      refine fin _ _ rfl (fun b => by cases b <;> rfl) ?_
      split
      · exact hb1 _ _ _ (hb1 _ _ _ (h0 _))
      · split
        · exact hb1 _ _ _ (h0 _)
        · split
          · exact hb1 _ _ _ (hb1 _ _ _ (h0 _))
          · exact hb1 _ _ _ (h0 _)

theorem tablesOK_loadFrom : ∀ (ss : List Stmt) (r : Registry), TablesOK r → TablesOK (r.loadFrom ss).1
  | [], r, h => h
  | s :: rest, r, h => by
    unfold Registry.loadFrom
    cases ha : r.add s with
    | ok r' => exact tablesOK_loadFrom rest r' (tablesOK_add h ha)
    | error e => exact tablesOK_loadFrom rest r h

theorem seqs_nodup_of_seqOk (mods : List Mod) (h : SeqOk mods) : (mods.map (·.seq)).Nodup := by
  rw [List.nodup_iff_pairwise_ne, List.pairwise_iff_getElem]
  intro i j hi hj hij
  simp only [List.length_map] at hi hj
  simp only [List.getElem_map]
  rw [h i hi, h j hj]
  omega

theorem loadedShape_of_tablesOK {r : Registry} (h : TablesOK r) : Fuel.LoadedShape r := by
  have hn := seqs_nodup_of_seqOk r.mods h.seq
  refine ⟨hn, ?_⟩
  rintro m hm ⟨h1, h2⟩
  obtain ⟨kv1, hk1, e1⟩ := List.any_eq_true.mp h1
  obtain ⟨kv2, hk2, e2⟩ := List.any_eq_true.mp h2
  obtain ⟨m1, hm1, s1, b1⟩ := h.kinds false kv1 hk1
  obtain ⟨m2, hm2, s2, b2⟩ := h.kinds true kv2 hk2
  have e1' : kv1.2 = m.seq := by simpa using e1
  have e2' : kv2.2 = m.seq := by simpa using e2
  have x1 : m1 = m := Fuel.eq_of_nodup_map (·.seq) r.mods hn m1 hm1 m hm (by rw [s1, e1'])
  have x2 : m2 = m := Fuel.eq_of_nodup_map (·.seq) r.mods hn m2 hm2 m hm (by rw [s2, e2'])
  rw [x1] at b1; rw [x2] at b2
  rw [b1] at b2; cases b2

/-- **Loading produces `LoadedShape`**: whatever statements are loaded into a fresh registry, in
whatever order, with or without rejected loads. -/
theorem loadedShape_loadAll (ss : List Stmt) : Fuel.LoadedShape (Registry.loadAll ss).1 :=
  loadedShape_of_tablesOK (tablesOK_loadFrom ss {} tablesOK_empty)

/-- … and loading more into a registry of that kind keeps it. -/
theorem loadedShape_loadFrom (ss : List Stmt) (r : Registry) (h : TablesOK r) : Fuel.LoadedShape (r.loadFrom ss).1 :=
  loadedShape_of_tablesOK (tablesOK_loadFrom ss r h)

/-- What is loaded is what was given: every loaded module's statement is one of the loaded texts'. -/
theorem loadFrom_src : ∀ (ss : List Stmt) (r : Registry) (m : Mod), m ∈ (r.loadFrom ss).1.mods →
    m ∈ r.mods ∨ m.stmt ∈ ss
  | [], r, m, h => Or.inl h
  | s :: rest, r, m, h => by
    unfold Registry.loadFrom at h
    cases ha : r.add s with
    | ok r' =>
      rw [ha] at h
      rcases loadFrom_src rest r' m h with h1 | h1
      · have hmods : r'.mods = r.mods ++ [⟨r.mods.length, s⟩] := by
          have ha := (Registry.add_ok ha).2
          unfold Registry.addChecked at ha
          simp only at ha
          split at ha
          · split at ha
            · cases ha
            · cases ha; rw [mods_withKm, mods_withUm]
          · split at ha
            · cases ha
            · cases ha; rw [mods_withKm]
        rw [hmods] at h1
        rcases List.mem_append.mp h1 with h2 | h2
        · exact Or.inl h2
        · simp only [List.mem_singleton] at h2; subst h2; exact Or.inr (by simp)
      · exact Or.inr (by simp [h1])
    | error e =>
      rw [ha] at h
      rcases loadFrom_src rest r m h with h1 | h1
      · exact Or.inl h1
      · exact Or.inr (by simp [h1])

end Goyang.Lemmas.Bridge
