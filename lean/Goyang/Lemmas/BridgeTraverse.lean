import Goyang.Lemmas.Tree
import Goyang.Lemmas.Fuel
/-
Bridge lemmas, part 1: the traversal of `toEntry` of Lemmas/Tree.lean (C04) once more, this time
with the knowledge of WHERE `toEntry` is called (`InvT`: the root is a loaded module, the node and
its scope are statements of that module, a node with a module keyword is the module statement
itself).  C04's `Closed` asks the base cases (`e0`, `errorEntry`, `leafEntry`) for every statement
whatsoever; an invariant that relates entries to the *statements of the registry* (node names are
arguments of loaded statements, a pending-augment row lists the augment statements of its module,
a module entry records the errors of its deviations) only holds for the calls `processAll` really
makes.  Everything else (the fold lemmas, the step analysis) follows Lemmas/Tree.lean line by line.

A `Frame` bundles what is tracked: an entry invariant `PE`, an invariant `PR` of the rows of
`TState.augs`, an invariant `PC` of the rows of the module cache and a per-call postcondition
`PX root scope n e` ("`e` is what the conversion of `n` returned").  `ClosedT` is what the traversal
needs of a frame; `toEntry_okT` is the traversal.  Compared with C04's `Closed`: the base cases, `add`
and the rpc-flag step know the call site; `add` / `merge` know that the node under construction is not
an rpc / action, `setInp` / `setOut` that its `Dir` is still empty (`Evolve`, `stepFn_io_dir`).

A second, smaller traversal (`RelFrame`, `toEntry_rel`) is for relations between the conversion
state before and after a call that may depend on the `visiting` list (the module cache only grows;
its keys stay distinct).
-/
set_option linter.unusedVariables false
set_option linter.unusedSimpArgs false
namespace Goyang.Lemmas.Bridge
open Goyang.Model Goyang.Spec.Tree Goyang.Lemmas.Tree

/-! ### where `toEntry` is called -/

def isModKw (n : Stmt) : Bool := n.kw == "module" || n.kw == "submodule"

/-- The calls of `toEntry` that `processAll` makes, directly or by recursion. -/
structure InvT (env : Env) (root : Mod) (sc : List Stmt) (n : Stmt) : Prop where
  root_mem : root ∈ env.reg.mods
  node : Fuel.Sub n root.stmt
  scope : ∀ s ∈ sc, Fuel.Sub s root.stmt
  top : isModKw n = true → n = root.stmt
  topScope : isModKw n = true → sc = []

theorem InvT.ofMod {env : Env} {m : Mod} (hm : m ∈ env.reg.mods) : InvT env m [] m.stmt :=
  ⟨hm, .refl _, fun _ h => (by cases h), fun _ => rfl, fun _ => rfl⟩

theorem InvT.child {env : Env} {root : Mod} {scope : List Stmt} {n c : Stmt} (inv : InvT env root scope n)
    (hc : c ∈ n.subs) (hk : isModKw c = false) : InvT env root (n :: scope) c := by
  refine ⟨inv.root_mem, Fuel.Sub.child hc inv.node, ?_, fun h => (by rw [hk] at h; cases h),
    fun h => (by rw [hk] at h; cases h)⟩
  intro s hs
  cases hs with
  | head => exact inv.node
  | tail _ h => exact inv.scope s h

theorem InvT.all {env : Env} {root : Mod} {scope : List Stmt} {n c : Stmt} (inv : InvT env root scope n)
    (kw : String) (hkw : kw ≠ "module" ∧ kw ≠ "submodule") (hc : c ∈ n.all kw) : InvT env root (n :: scope) c := by
  have hk := mem_all_kw n kw c hc
  exact inv.child (Fuel.mem_all_subs hc) (by simp [isModKw, hk, hkw.1, hkw.2])

theorem InvT.one {env : Env} {root : Mod} {scope : List Stmt} {n c : Stmt} (inv : InvT env root scope n)
    (kw : String) (hkw : kw ≠ "module" ∧ kw ≠ "submodule") (hc : n.one? kw = some c) : InvT env root (n :: scope) c := by
  have hk := one?_kw n kw c hc
  exact inv.child (Fuel.mem_one_subs hc) (by simp [isModKw, hk, hkw.1, hkw.2])

theorem InvT.uses {env : Env} {root : Mod} {scope : List Stmt} {n : Stmt} (inv : InvT env root scope n)
    {fuel : Nat} {name : String} {seen : List String} {g : Stmt} {groot : Mod} {gscope : List Stmt}
    (h : (findGrouping env.reg env.linked fuel root scope name seen).1 = some (g, groot, gscope)) :
    InvT env groot gscope g := by
  obtain ⟨hkw, ⟨n0, up, hgs, hgm⟩, hloc⟩ := Fuel.findGrouping_sound h
  have hnm : isModKw g = true → g = groot.stmt := by
    intro hm; simp [isModKw, hkw] at hm
  have hnm2 : isModKw g = true → gscope = [] := by
    intro hm; simp [isModKw, hkw] at hm
  rcases hloc with ⟨hroot, pre, hpre⟩ | ⟨hmem, hgs'⟩
  · subst hroot
    have hsc : ∀ s ∈ gscope, Fuel.Sub s groot.stmt := fun s hs =>
      inv.scope s (by rw [hpre]; exact List.mem_append_right _ hs)
    have hn0 : Fuel.Sub n0 groot.stmt := hsc n0 (by rw [hgs]; exact List.mem_cons_self ..)
    exact ⟨inv.root_mem, Fuel.Sub.child hgm hn0, hsc, hnm, hnm2⟩
  · have hn0 : n0 = groot.stmt := by
      rw [hgs'] at hgs
      cases hgs; rfl
    subst hn0
    refine ⟨hmem, Fuel.Sub.child hgm (.refl _), ?_, hnm, hnm2⟩
    intro s hs
    rw [hgs'] at hs
    cases hs with
    | head => exact .refl _
    | tail _ h => cases h

theorem InvT.include_ {env : Env} {root im : Mod} {a : Stmt} (h : env.includeTarget root a = some im) :
    InvT env im [] im.stmt := InvT.ofMod (Fuel.includeTarget_mem h)

/-! ### how the steps of `toEntry` can change the node under construction -/

/-- A change of the node's own data that touches none of the listed fields. -/
def StableD (f : EData → EData) : Prop :=
  ∀ d, (f d).node = d.node ∧ (f d).nodeMod = d.nodeMod ∧ (f d).name = d.name ∧ (f d).kind = d.kind ∧
    (f d).hasDir = d.hasDir ∧ (f d).errors = d.errors ∧ (f d).ns = d.ns ∧ (f d).nodeKw = d.nodeKw ∧
    (f d).isRpc = d.isRpc

/-- `Evolve io a b`: `b` is `a` after some steps of `toEntry`'s directory case; `io` says whether
the `input` / `output` steps (which set the rpc flag) may be among them. -/
inductive Evolve : Bool → Entry → Entry → Prop
  | refl (io : Bool) (e : Entry) : Evolve io e e
  | trans {io : Bool} {a b c : Entry} : Evolve io a b → Evolve io b c → Evolve io a c
  | withD (io : Bool) (e : Entry) (f : EData → EData) : StableD f → Evolve io e (e.withD f)
  | addErrs (io : Bool) (e : Entry) (xs : List Err) : Evolve io e (e.addErrs xs)
  | withDir (io : Bool) (e : Entry) (c : List Entry) : Evolve io e (e.withDir c)
  | setIO (d : EData) (c i o i' o' : List Entry) : Evolve true (.mk d c i o) (.mk { d with isRpc := true } c i' o')

theorem Evolve.addErr {io : Bool} (e : Entry) (x : Err) : Evolve io e (e.addErr x) := Evolve.addErrs io e [x]
theorem Evolve.importErrors {io : Bool} (e c : Entry) : Evolve io e (e.importErrors c) := Evolve.addErrs io e _

theorem Evolve.add {io : Bool} (e : Entry) (k : String) (v : Entry) : Evolve io e (e.add k v) := by
  unfold Entry.add; split
  · exact Evolve.addErr _ _
  · exact Evolve.withDir _ _ _

theorem Evolve.merge {io : Bool} (e : Entry) (ns : Option String) (oe : Entry) : Evolve io e (e.merge ns oe) := by
  unfold Entry.merge
  refine foldl_inv (fun x => Evolve io e x) _ _ _ (Evolve.importErrors _ _) ?_
  intro b a _ hb
  dsimp only
  split
  · exact hb.trans (Evolve.addErr _ _)
  · exact hb.trans (Evolve.withDir _ _ _)

theorem Evolve.foldl {io : Bool} {α} (g : Entry × TState → α → Entry × TState) (l : List α) (acc : Entry × TState)
    (h : ∀ acc a, Evolve io acc.1 (g acc a).1) : Evolve io acc.1 (l.foldl g acc).1 :=
  foldl_inv (fun x => Evolve io acc.1 x.1) g l acc (Evolve.refl _ _) (fun b a _ hb => hb.trans (h b a))

theorem Evolve.withD_addErrs {io : Bool} (e : Entry) (f : EData → EData) (xs : List Err) (hf : StableD f) :
    Evolve io e ((e.withD f).addErrs xs) := (Evolve.withD io e f hf).trans (Evolve.addErrs _ _ _)

theorem Evolve.withD2_addErrs {io : Bool} (e : Entry) (f g : EData → EData) (xs : List Err) (hf : StableD f) (hg : StableD g) :
    Evolve io e (((e.withD f).withD g).addErrs xs) :=
  (Evolve.withD io e f hf).trans ((Evolve.withD io _ g hg).trans (Evolve.addErrs _ _ _))

/-- What `Evolve` keeps. -/
theorem Evolve.keeps {io : Bool} {a b : Entry} (h : Evolve io a b) :
    b.d.node = a.d.node ∧ b.d.nodeMod = a.d.nodeMod ∧ b.d.name = a.d.name ∧ b.d.kind = a.d.kind ∧
    b.d.hasDir = a.d.hasDir ∧ b.d.ns = a.d.ns ∧ b.d.nodeKw = a.d.nodeKw ∧ ∃ xs, b.d.errors = a.d.errors ++ xs := by
  induction h with
  | refl io e => exact ⟨rfl, rfl, rfl, rfl, rfl, rfl, rfl, [], by simp⟩
  | trans _ _ ih1 ih2 =>
    obtain ⟨a1, a2, a3, a4, a5, a6, a7, xs, a8⟩ := ih1
    obtain ⟨b1, b2, b3, b4, b5, b6, b7, ys, b8⟩ := ih2
    exact ⟨b1.trans a1, b2.trans a2, b3.trans a3, b4.trans a4, b5.trans a5, b6.trans a6, b7.trans a7,
      xs ++ ys, by rw [b8, a8, List.append_assoc]⟩
  | withD io e f hf =>
    cases e with | mk d c i o =>
    obtain ⟨h1, h2, h3, h4, h5, h6, h7, h8, _⟩ := hf d
    exact ⟨h1, h2, h3, h4, h5, h7, h8, [], by simp [Entry.withD, Entry.d, h6]⟩
  | addErrs io e xs =>
    cases e with | mk d c i o =>
    exact ⟨rfl, rfl, rfl, rfl, rfl, rfl, rfl, xs, rfl⟩
  | withDir io e c =>
    cases e with | mk d c' i o =>
    exact ⟨rfl, rfl, rfl, rfl, rfl, rfl, rfl, [], by simp [Entry.withDir, Entry.d]⟩
  | setIO d c i o i' o' => exact ⟨rfl, rfl, rfl, rfl, rfl, rfl, rfl, [], by simp [Entry.d]⟩

/-- Without the `input` / `output` steps the rpc flag and the rpc input and output stay. -/
theorem Evolve.keepsRpc {io : Bool} {a b : Entry} (h : Evolve io a b) (hio : io = false) :
    b.d.isRpc = a.d.isRpc ∧ b.inp = a.inp ∧ b.out = a.out := by
  induction h with
  | refl io e => exact ⟨rfl, rfl, rfl⟩
  | trans _ _ ih1 ih2 =>
    obtain ⟨a1, a2, a3⟩ := ih1 hio
    obtain ⟨b1, b2, b3⟩ := ih2 hio
    exact ⟨b1.trans a1, b2.trans a2, b3.trans a3⟩
  | withD io e f hf => cases e with | mk d c i o => exact ⟨(hf d).2.2.2.2.2.2.2.2, rfl, rfl⟩
  | addErrs io e xs => cases e with | mk d c i o => exact ⟨rfl, rfl, rfl⟩
  | withDir io e c => cases e with | mk d c' i o => exact ⟨rfl, rfl, rfl⟩
  | setIO d c i o i' o' => cases hio

theorem Evolve.ownMono {io : Bool} {a b : Entry} (h : Evolve io a b) : OwnMono a b := by
  obtain ⟨_, _, _, _, _, _, _, xs, hx⟩ := h.keeps
  intro ha hb
  rw [hx] at hb
  exact ha (List.append_eq_nil_iff.mp hb).1

theorem evolve_stepFn (io : Bool) (env : Env) (rec : Rec) (root : Mod) (n : Stmt) (sub : List Stmt) (visiting : List NodeId)
    (isMod : Bool) (acc : Entry × TState) (f : String) (hio : io = false → f ≠ "input" ∧ f ≠ "output") :
    Evolve io acc.1 (stepFn env rec root n sub visiting isMod acc f).1 := by
  obtain ⟨e, st⟩ := acc
  unfold stepFn
  dsimp only
  split
  all_goals try dsimp only
  all_goals first
    | exact Evolve.refl _ _
    | exact Evolve.withD_addErrs _ _ _ (fun d => ⟨rfl, rfl, rfl, rfl, rfl, rfl, rfl, rfl, rfl⟩)
    | (unfold addAllFn; refine Evolve.foldl _ _ (e, st) ?_; intro acc a; exact Evolve.add _ _ _)
    | (refine Evolve.foldl _ _ (e, st) ?_; intro acc a; try dsimp only
       first
         | exact Evolve.add _ _ _
         | exact Evolve.importErrors _ _
         | exact Evolve.merge _ _ _
         | (split <;> first | exact Evolve.importErrors _ _ | exact (Evolve.importErrors _ _).trans (Evolve.addErr _ _))
         | (repeat' split
            all_goals try dsimp only
            all_goals first
              | exact Evolve.refl _ _
              | exact Evolve.addErr _ _
              | exact Evolve.merge _ _ _))
    | skip
  case h_18 =>
    cases io with
    | false => exact absurd rfl (hio rfl).1
    | true =>
      repeat' split
      all_goals try dsimp only
      all_goals first
        | exact Evolve.refl _ _
        | exact Evolve.setIO _ _ _ _ _ _
  case h_19 =>
    cases io with
    | false => exact absurd rfl (hio rfl).2
    | true =>
      repeat' split
      all_goals try dsimp only
      all_goals first
        | exact Evolve.refl _ _
        | exact Evolve.setIO _ _ _ _ _ _
  all_goals
    (repeat' split
     all_goals try dsimp only
     all_goals first
       | exact Evolve.refl _ _
       | exact Evolve.addErr _ _
       | exact Evolve.withD _ _ _ (fun d => ⟨rfl, rfl, rfl, rfl, rfl, rfl, rfl, rfl, rfl⟩)
       | exact Evolve.withD2_addErrs _ _ _ _ (fun d => ⟨rfl, rfl, rfl, rfl, rfl, rfl, rfl, rfl, rfl⟩)
           (fun d => ⟨rfl, rfl, rfl, rfl, rfl, rfl, rfl, rfl, rfl⟩))

theorem evolve_fold_steps (env : Env) (rec : Rec) (root : Mod) (n : Stmt) (sub : List Stmt) (visiting : List NodeId)
    (isMod : Bool) (l : List String) (acc : Entry × TState) :
    Evolve true acc.1 (l.foldl (stepFn env rec root n sub visiting isMod) acc).1 :=
  Evolve.foldl _ _ _ (fun acc f => evolve_stepFn true env rec root n sub visiting isMod acc f (fun h => by cases h))

/-- The fields of an rpc / action statement. -/
def ioList : List String := ["output", "input", "grouping", "description"]

/-- The four steps of an rpc / action leave the `Dir` children alone. -/
theorem stepFn_io_dir (env : Env) (rec : Rec) (root : Mod) (n : Stmt) (sub : List Stmt) (visiting : List NodeId)
    (isMod : Bool) (acc : Entry × TState) (f : String) (hf : f ∈ ioList) :
    (stepFn env rec root n sub visiting isMod acc f).1.dir = acc.1.dir := by
  obtain ⟨e, st⟩ := acc
  unfold stepFn
  dsimp only
  split
  all_goals first
    | exact absurd hf (by decide)
    | rfl
    | (split <;> first | rfl | (cases e; rfl))
    | (refine foldl_inv (fun a : Entry × TState => a.1.dir = e.dir) _ _ _ rfl ?_
       intro b g _ hb
       dsimp only
       rw [← hb]
       generalize (rec root sub g visiting b.2).1 = ge
       cases b.1; rfl)

/-! ### the source statement of the entry made from a statement -/

/-- The entry made from statement `n` of module `root` records `n` as its node and `root` as the
module of that node — unless it is the result of a `uses` (the grouping's entry) or a cached
grouping / module entry. -/
def Shape3 (root : Mod) (n : Stmt) (e : Entry) : Prop :=
  n.kw ≠ "uses" → n.kw ≠ "grouping" → n.kw ≠ "module" → n.kw ≠ "submodule" → e.d.node = n ∧ e.d.nodeMod = root.seq

theorem e0_nodeMod (root : Mod) (n : Stmt) : (e0 root n).d.nodeMod = root.seq := by
  unfold e0 baseData
  dsimp only [Entry.d]
  split
  · rfl
  · split <;> rfl

theorem leafEntry_nodeMod (env : Env) (root : Mod) (scope : List Stmt) (n : Stmt) (syn : Bool) :
    (leafEntry env root scope n syn).d.nodeMod = root.seq := by
  unfold leafEntry
  dsimp only
  rfl

theorem toEntryBody_shape3 (env : Env) (fuel : Nat) (rec : Rec) (root : Mod) (scope : List Stmt) (n : Stmt)
    (visiting : List NodeId) (st : TState) : Shape3 root n (toEntryBody env fuel rec root scope n visiting st).1 := by
  intro h1 h2 h3 h4
  have hm : (n.kw == "module" || n.kw == "submodule") = false := by simp [h3, h4]
  have hg : (n.kw == "grouping") = false := by simp [h2]
  have hu : (n.kw == "uses") = false := by simp [h1]
  unfold toEntryBody
  simp only [hm, hg, hu, Bool.false_eq_true, if_false, Bool.or_self, Bool.false_and]
  by_cases hl : n.kw = "leaf"
  · simp only [hl, beq_self_eq_true, if_true]
    exact ⟨(leafEntry_data env root scope n false).2.2.2.1, leafEntry_nodeMod env root scope n false⟩
  · by_cases hll : n.kw = "leaf-list"
    · simp only [hll, beq_self_eq_true, if_true]
      simp only [show ("leaf-list" == "leaf") = false by decide, Bool.false_eq_true, if_false]
      have := leafEntry_data env root scope n true
      have hnm := leafEntry_nodeMod env root scope n true
      generalize leafEntry env root scope n true = le at this hnm ⊢
      cases le with | mk d c i o =>
      exact ⟨this.2.2.2.1, hnm⟩
    · have hl' : (n.kw == "leaf") = false := by simp [hl]
      have hll' : (n.kw == "leaf-list") = false := by simp [hll]
      simp only [hl', hll', Bool.false_eq_true, if_false, dirBody, hg]
      have hk := (evolve_fold_steps env rec root n (n :: scope) visiting false (fieldOrder n.kw) (e0 root n, st)).keeps
      exact ⟨hk.1.trans (e0_data root n).2.2.2.1, hk.2.1.trans (e0_nodeMod root n)⟩

theorem toEntry_shape3 (env : Env) (fuel : Nat) (root : Mod) (scope : List Stmt) (n : Stmt)
    (visiting : List NodeId) (st : TState) : Shape3 root n (toEntry env fuel root scope n visiting st).1 := by
  cases fuel with
  | zero => intro _ _ _ _; exact ⟨rfl, rfl⟩
  | succ fuel => rw [toEntry_succ]; exact toEntryBody_shape3 _ _ _ _ _ _ _ _

/-! ### what is tracked -/

structure Frame where
  /-- every entry made -/
  PE : Entry → Prop
  /-- every row of `TState.augs` -/
  PR : Nat × List Entry → Prop := fun _ => True
  /-- every row of the module cache -/
  PC : Nat × Entry → Prop := fun _ => True
  /-- what the conversion of `n` (in module `root`, below `scope`) returned -/
  PX : Mod → List Stmt → Stmt → Entry → Prop := fun _ _ _ _ => True

structure StOKT (F : Frame) (S : List Nat) (st : TState) : Prop where
  base : StOK F.PE S st
  rows : ∀ p ∈ st.augs, F.PR p
  crows : ∀ p ∈ st.cache, F.PC p

def RecOKT (env : Env) (F : Frame) (rec : Rec) : Prop :=
  ∀ root scope n visiting st S, InvT env root scope n → StOKT F S st →
    F.PE (rec root scope n visiting st).1 ∧ StOKT F S (rec root scope n visiting st).2 ∧
      Shape n (rec root scope n visiting st).1 ∧ Shape2 n (rec root scope n visiting st).1 ∧
      Shape3 root n (rec root scope n visiting st).1 ∧ F.PX root scope n (rec root scope n visiting st).1

/-- `Closed` of Lemmas/Tree.lean with the call site known where it matters. -/
structure ClosedT (env : Env) (F : Frame) : Prop where
  /-- a change of the node's data that keeps what `NeutralD` lists and the rpc flag -/
  withD : ∀ (e : Entry) (f : EData → EData), (∀ d, NeutralD d (f d)) → (∀ d, (f d).isRpc = d.isRpc) →
    (∀ d, ∃ xs, (f d).errors = d.errors ++ xs) → F.PE e → F.PE (e.withD f)
  addErrs : ∀ (e : Entry) (xs : List Err), F.PE e → F.PE (e.addErrs xs)
  addErr : ∀ (e : Entry) (x : Err), F.PE e → F.PE (e.addErr x)
  importErrors : ∀ (e c : Entry), F.PE e → F.PE (e.importErrors c)
  /-- `c` is a substatement of `n` with one of the keywords whose entries become children; the
  node under construction is not an rpc / action -/
  add : ∀ (root : Mod) (scope : List Stmt) (n : Stmt) (kw : String) (c : Stmt) (e v : Entry),
    InvT env root scope n → kw ∈ addKws → c ∈ n.all kw → e.d.isRpc = false → F.PE e → F.PE v →
    (NoErrors v → v.name = c.arg ∧ v.d.kind ≠ .deviate) → (v.name = c.arg ∨ v.name = "") → F.PE (e.add c.arg v)
  /-- the entry made from an rpc / action statement gets its `RPC` set -/
  rpcFlag : ∀ (root : Mod) (scope : List Stmt) (n : Stmt) (kw : String) (c : Stmt) (v : Entry),
    InvT env root scope n → (kw = "rpc" ∨ kw = "action") → c ∈ n.all kw → F.PE v → F.PX root (n :: scope) c v →
    F.PE (v.withD fun d => { d with isRpc := true })
  /-- `uses` and `include`: the node under construction is not an rpc / action -/
  merge : ∀ (e : Entry) (oe : Entry), e.d.isRpc = false → F.PE e → F.PE oe → F.PE (e.merge none oe)
  /-- the input of an rpc / action is set before anything could have been added to its `Dir` -/
  setInp : ∀ (d : EData) (o : List Entry) (ie : Entry), F.PE (.mk d [] [] o) → F.PE ie →
    (ie.d.errors = [] → ie.d.kind = .input) →
    F.PE (.mk { d with isRpc := true } [] [ie.withD fun d => { d with name := "input", kind := .input }] o)
  setOut : ∀ (d : EData) (i : List Entry) (oe : Entry), F.PE (.mk d [] i []) → F.PE oe →
    (oe.d.errors = [] → oe.d.kind = .output) →
    F.PE (.mk { d with isRpc := true } [] i [oe.withD fun d => { d with name := "output", kind := .output }])
  typeSet : ∀ (e : Entry) (ty : Option TypeInfo), F.PE e → e.d.kind ≠ .leaf → F.PE (e.withD fun d => { d with type := ty })
  laSet : ∀ (e : Entry) (f : EData → EData), F.PE e → e.d.kind = .deviate → (∀ d, LaOnlyD d (f d)) →
    (∀ d, (f d).isRpc = d.isRpc) → (∀ d, ∃ xs, (f d).errors = d.errors ++ xs) → F.PE (e.withD f)
  base0 : ∀ (root : Mod) (scope : List Stmt) (n : Stmt), InvT env root scope n → F.PE (e0 root n)
  errE : ∀ (root : Mod) (scope : List Stmt) (n : Stmt) (cls : String), InvT env root scope n → F.PE (errorEntry root n cls)
  leafE : ∀ (root : Mod) (scope : List Stmt) (n : Stmt) (syn : Bool), InvT env root scope n →
    F.PE (leafEntry env root scope n syn)
  leafL : ∀ (root : Mod) (scope : List Stmt) (n : Stmt) (la : ListAttr) (xs : List Err) (dl : List String),
    InvT env root scope n →
    F.PE ((leafEntry env root scope n true).withD fun d =>
      { d with listAttr := some la, errors := d.errors ++ xs, default := dl })
  /-- the row a (sub)module files for its augment statements -/
  row : ∀ (root : Mod) (scope : List Stmt) (n : Stmt) (as : List Entry), InvT env root scope n → isModKw n = true →
    (∀ a ∈ as, F.PE a) → as.map (·.d.node) = n.all "augment" → (∀ a ∈ as, a.d.nodeMod = root.seq) →
    (∀ a ∈ as, a.name = a.d.node.arg ∨ a.name = "") → F.PR (root.seq, as)
  /-- the cache row a (sub)module files for itself -/
  pc : ∀ (root : Mod) (scope : List Stmt) (n : Stmt) (e : Entry), InvT env root scope n → isModKw n = true →
    F.PE e → F.PX root scope n e → F.PC (root.seq, e)
  pxCache : ∀ (root : Mod) (scope : List Stmt) (n : Stmt) (p : Nat × Entry), InvT env root scope n → isModKw n = true →
    F.PC p → p.1 = root.seq → F.PX root scope n p.2
  pxTriv : ∀ (root : Mod) (scope : List Stmt) (n : Stmt) (e : Entry),
    (n.kw = "grouping" ∨ n.kw = "leaf" ∨ n.kw = "leaf-list" ∨ n.kw = "uses") → F.PX root scope n e
  pxErr : ∀ (root : Mod) (scope : List Stmt) (n : Stmt) (cls : String), InvT env root scope n →
    F.PX root scope n (errorEntry root n cls)
  /-- the directory case, for the recursion as it is (`rec = toEntry env fuel`) -/
  pxDir : ∀ (fuel : Nat) (root : Mod) (scope : List Stmt) (n : Stmt) (visiting : List NodeId) (st : TState) (S : List Nat)
    (isMod : Bool), InvT env root scope n → RecOKT env F (toEntry env fuel) → StOKT F S st → isMod = isModKw n →
    F.PX root scope n ((fieldOrder n.kw).foldl (stepFn env (toEntry env fuel) root n (n :: scope) visiting isMod) (e0 root n, st)).1

/-- A `Closed` entry invariant is a `ClosedT` frame with nothing else tracked. -/
theorem closedT_of_closed {env : Env} {PE : Entry → Prop} (h : Closed env PE) : ClosedT env { PE := PE } where
  withD e f h1 _ h2 he := h.withD e f h1 h2 he
  addErrs := h.addErrs
  addErr := h.addErr
  importErrors := h.importErrors
  add root scope n kw c e v _ _ _ _ he hv hs hs2 := h.add e c.arg v he hv hs hs2
  rpcFlag root scope n kw c v _ _ _ hv _ := h.withD v _ (fun d => ⟨rfl, rfl, rfl, rfl, rfl, rfl⟩) (fun d => ⟨[], by simp⟩) hv
  merge e oe _ he ho := h.merge e none oe he ho
  setInp d o ie := h.setInp d [] o ie
  setOut d i oe := h.setOut d [] i oe
  typeSet := h.typeSet
  laSet e f he hk h1 _ h2 := h.laSet e f he hk h1 h2
  base0 root scope n _ := h.base0 root n
  errE root scope n cls _ := h.errE root n cls
  leafE root scope n syn _ := h.leafE root n scope syn
  leafL root scope n la xs dl _ := h.leafL root n scope la xs dl
  row _ _ _ _ _ _ _ _ _ _ := trivial
  pc _ _ _ _ _ _ _ _ := trivial
  pxCache _ _ _ _ _ _ _ _ := trivial
  pxTriv _ _ _ _ _ := trivial
  pxErr _ _ _ _ _ := trivial
  pxDir _ _ _ _ _ _ _ _ _ _ _ _ := trivial

/-- The invariant of the accumulator of `toEntry`'s folds. -/
def AccOKT (F : Frame) (S : List Nat) (acc : Entry × TState) : Prop := F.PE acc.1 ∧ StOKT F S acc.2

theorem addKws_nm : ∀ kw ∈ addKws, kw ≠ "module" ∧ kw ≠ "submodule" := by decide

section Step
variable {env : Env} {F : Frame} (hC : ClosedT env F) {rec : Rec} (hrec : RecOKT env F rec)
  (root : Mod) (scope : List Stmt) (n : Stmt) (visiting : List NodeId) (S : List Nat) (inv : InvT env root scope n)
include hC hrec inv

omit hC hrec inv in
theorem add_isRpc (e : Entry) (k : String) (v : Entry) : (e.add k v).d.isRpc = e.d.isRpc :=
  ((Evolve.add (io := false) e k v).keepsRpc rfl).1

omit hC hrec inv in
theorem merge_isRpc (e : Entry) (ns : Option String) (oe : Entry) : (e.merge ns oe).d.isRpc = e.d.isRpc :=
  ((Evolve.merge (io := false) e ns oe).keepsRpc rfl).1

theorem addFold_okT (kw : String) (hkw : kw ∈ addKws) (acc : Entry × TState) (h : AccOKT F S acc)
    (hr : acc.1.d.isRpc = false) :
    AccOKT F S ((n.all kw).foldl (fun (acc : Entry × TState) c =>
      (acc.1.add c.arg (rec root (n :: scope) c visiting acc.2).1, (rec root (n :: scope) c visiting acc.2).2)) acc) := by
  refine (foldl_inv (fun a : Entry × TState => AccOKT F S a ∧ a.1.d.isRpc = false) _ _ _ ⟨h, hr⟩ ?_).1
  rintro ⟨e, st⟩ c hC' ⟨⟨he, hst⟩, hre⟩
  obtain ⟨r1, r2, r3, r4, _, _⟩ := hrec root (n :: scope) c visiting st S (inv.all kw (addKws_nm kw hkw) hC') hst
  exact ⟨⟨hC.add root scope n kw c _ _ inv hkw hC' hre he r1 (shape_child n kw c _ hkw hC' r3)
    (shape2_child n kw c _ hkw hC' r4), r2⟩, by rw [add_isRpc]; exact hre⟩

theorem rpcFold_okT (kw : String) (hkw : kw ∈ addKws) (hrpc : kw = "rpc" ∨ kw = "action") (acc : Entry × TState)
    (h : AccOKT F S acc) (hr : acc.1.d.isRpc = false) :
    AccOKT F S ((n.all kw).foldl (fun (acc : Entry × TState) c =>
      (acc.1.add c.arg ((rec root (n :: scope) c visiting acc.2).1.withD fun d => { d with isRpc := true }),
        (rec root (n :: scope) c visiting acc.2).2)) acc) := by
  refine (foldl_inv (fun a : Entry × TState => AccOKT F S a ∧ a.1.d.isRpc = false) _ _ _ ⟨h, hr⟩ ?_).1
  rintro ⟨e, st⟩ c hC' ⟨⟨he, hst⟩, hre⟩
  obtain ⟨r1, r2, r3, r4, _, r6⟩ := hrec root (n :: scope) c visiting st S (inv.all kw (addKws_nm kw hkw) hC') hst
  refine ⟨⟨hC.add root scope n kw c e ((rec root (n :: scope) c visiting st).1.withD fun d => { d with isRpc := true }) inv hkw hC' hre he
    (hC.rpcFlag root scope n kw c _ inv hrpc hC' r1 r6) ?_ ?_, r2⟩, by rw [add_isRpc]; exact hre⟩
  · intro hv
    generalize rec root (n :: scope) c visiting st = r at r3 hv ⊢
    obtain ⟨v, st'⟩ := r
    cases v with | mk d c' i o =>
    have : NoErrors (Entry.mk d c' i o) := by
      simp only [Entry.withD] at hv
      rw [noErrors_mk] at hv ⊢; exact hv
    exact shape_child n kw c _ hkw hC' r3 this
  · have := shape2_child n kw c _ hkw hC' r4
    generalize rec root (n :: scope) c visiting st = r at this ⊢
    obtain ⟨v, st'⟩ := r
    cases v with | mk d c' i o => exact this

theorem importFold_okT (kw : String) (hk : kw ≠ "module" ∧ kw ≠ "submodule") (acc : Entry × TState) (h : AccOKT F S acc) :
    AccOKT F S ((n.all kw).foldl (fun (acc : Entry × TState) g =>
      (acc.1.importErrors (rec root (n :: scope) g visiting acc.2).1, (rec root (n :: scope) g visiting acc.2).2)) acc) := by
  refine foldl_inv (AccOKT F S) _ _ _ h ?_
  rintro ⟨e, st⟩ c hC' ⟨he, hst⟩
  obtain ⟨r1, r2, _⟩ := hrec root (n :: scope) c visiting st S (inv.all kw hk hC') hst
  exact ⟨hC.importErrors _ _ he, r2⟩

theorem deviateFold_okT (kw : String) (hk : kw ≠ "module" ∧ kw ≠ "submodule") (acc : Entry × TState) (h : AccOKT F S acc) :
    AccOKT F S ((n.all kw).foldl (fun (acc : Entry × TState) dv =>
      (if deviateKinds.contains dv.arg = true then acc.1.importErrors (rec root (n :: scope) dv visiting acc.2).1
        else (acc.1.importErrors (rec root (n :: scope) dv visiting acc.2).1).addErr (Err.at_ n "deviate-unknown-kind"),
       (rec root (n :: scope) dv visiting acc.2).2)) acc) := by
  refine foldl_inv (AccOKT F S) _ _ _ h ?_
  rintro ⟨e, st⟩ c hC' ⟨he, hst⟩
  obtain ⟨r1, r2, _⟩ := hrec root (n :: scope) c visiting st S (inv.all kw hk hC') hst
  refine ⟨?_, r2⟩
  dsimp only
  split
  · exact hC.importErrors _ _ he
  · exact hC.addErr _ _ (hC.importErrors _ _ he)

theorem usesFold_okT (kw : String) (hk : kw ≠ "module" ∧ kw ≠ "submodule") (acc : Entry × TState) (h : AccOKT F S acc)
    (hr : acc.1.d.isRpc = false) :
    AccOKT F S ((n.all kw).foldl (fun (acc : Entry × TState) u =>
      (acc.1.merge none (rec root (n :: scope) u visiting acc.2).1, (rec root (n :: scope) u visiting acc.2).2)) acc) := by
  refine (foldl_inv (fun a : Entry × TState => AccOKT F S a ∧ a.1.d.isRpc = false) _ _ _ ⟨h, hr⟩ ?_).1
  rintro ⟨e, st⟩ c hC' ⟨⟨he, hst⟩, hre⟩
  obtain ⟨r1, r2, _⟩ := hrec root (n :: scope) c visiting st S (inv.all kw hk hC') hst
  exact ⟨⟨hC.merge _ _ hre he r1, r2⟩, by rw [merge_isRpc]; exact hre⟩

omit hC hrec inv in
theorem stOKT_merged (st : TState) (m : List String) (h : StOKT F S st) : StOKT F S { st with merged := m } :=
  ⟨⟨h.base.cache, h.base.gcache, h.base.augs, h.base.keys, h.base.ckind⟩, h.rows, h.crows⟩

omit inv in
theorem includeFold_okT (l : List Stmt) (acc : Entry × TState) (h : AccOKT F S acc) (hr : acc.1.d.isRpc = false) :
    AccOKT F S (l.foldl (fun (acc : Entry × TState) a =>
      match env.includeTarget root a with
      | none => (acc.1.addErr (Err.at_ a "other"), acc.2)
      | some im =>
        if acc.2.merged.contains (im.name ++ ":" ++ n.arg) = true then (acc.1, acc.2)
        else if (!acc.2.merged.contains (n.arg ++ ":" ++ im.name) && im.name != n.arg) = true then
          if acc.2.merged.contains (im.name ++ ":" ++ (im.belongsTo?.getD "")) = true then (acc.1, acc.2)
          else
            (acc.1.merge none (rec im [] im.stmt visiting
                { acc.2 with merged := acc.2.merged ++ [im.name ++ ":" ++ n.arg, im.name ++ ":" ++ (im.belongsTo?.getD "")] }).1,
             (rec im [] im.stmt visiting
                { acc.2 with merged := acc.2.merged ++ [im.name ++ ":" ++ n.arg, im.name ++ ":" ++ (im.belongsTo?.getD "")] }).2)
        else if env.opts.ignoreCircular = true then (acc.1, acc.2)
        else (acc.1.addErr (Err.bare "cycle"), acc.2)) acc) := by
  refine (foldl_inv (fun a : Entry × TState => AccOKT F S a ∧ a.1.d.isRpc = false) _ _ _ ⟨h, hr⟩ ?_).1
  rintro ⟨e, st⟩ a ha ⟨⟨he, hst⟩, hre⟩
  have hae : ∀ x, (e.addErr x).d.isRpc = false := fun x => by
    rw [((Evolve.addErr (io := false) e x).keepsRpc rfl).1]; exact hre
  dsimp only at hre ⊢
  repeat' split
  all_goals first
    | exact ⟨⟨he, hst⟩, hre⟩
    | exact ⟨⟨hC.addErr _ _ he, hst⟩, hae _⟩
    | (rename_i im him _ _ _
       obtain ⟨r1, r2, _⟩ := hrec im [] im.stmt visiting _ S (InvT.include_ him) (stOKT_merged S st _ hst)
       exact ⟨⟨hC.merge _ _ hre he r1, r2⟩, by rw [merge_isRpc]; exact hre⟩)

omit hC in
theorem augFold_okT : ∀ (l : List Stmt), (∀ a ∈ l, a ∈ n.all "augment") → ∀ (as0 : List Entry) (st : TState), StOKT F S st →
    ∃ new, (l.foldl (fun (acc : List Entry × TState) a =>
        (acc.1 ++ [(rec root (n :: scope) a visiting acc.2).1], (rec root (n :: scope) a visiting acc.2).2)) (as0, st)).1 = as0 ++ new ∧
      (∀ a ∈ new, F.PE a) ∧ new.map (·.d.node) = l ∧ (∀ a ∈ new, a.d.nodeMod = root.seq) ∧
      (∀ a ∈ new, a.name = a.d.node.arg ∨ a.name = "") ∧
      StOKT F S (l.foldl (fun (acc : List Entry × TState) a =>
        (acc.1 ++ [(rec root (n :: scope) a visiting acc.2).1], (rec root (n :: scope) a visiting acc.2).2)) (as0, st)).2
  | [], _, as0, st, hst => ⟨[], by simp, by simp, rfl, by simp, by simp, hst⟩
  | a :: l, hl, as0, st, hst => by
    have ha : a ∈ n.all "augment" := hl a (by simp)
    obtain ⟨r1, r2, _, r4, r5, _⟩ := hrec root (n :: scope) a visiting st S (inv.all "augment" (by decide) ha) hst
    have hk := mem_all_kw n "augment" a ha
    have h5 := r5 (by rw [hk]; decide) (by rw [hk]; decide) (by rw [hk]; decide) (by rw [hk]; decide)
    have h4 := r4 (by rw [hk]; decide) (by rw [hk]; decide) (by rw [hk]; decide) (by rw [hk]; decide)
    obtain ⟨new, e1, e2, e3, e4, e5, e6⟩ := augFold_okT l (fun x hx => hl x (by simp [hx]))
      (as0 ++ [(rec root (n :: scope) a visiting st).1]) (rec root (n :: scope) a visiting st).2 r2
    refine ⟨(rec root (n :: scope) a visiting st).1 :: new, ?_, ?_, ?_, ?_, ?_, ?_⟩
    · simp only [List.foldl_cons]; rw [e1]; simp
    · intro x hx
      rcases List.mem_cons.mp hx with hx | hx
      · subst hx; exact r1
      · exact e2 x hx
    · simp only [List.map_cons, e3, h5.1]
    · intro x hx
      rcases List.mem_cons.mp hx with hx | hx
      · subst hx; exact h5.2
      · exact e4 x hx
    · intro x hx
      rcases List.mem_cons.mp hx with hx | hx
      · subst hx; rw [h5.1]; exact h4
      · exact e5 x hx
    · simpa only [List.foldl_cons] using e6

omit hC hrec inv in
theorem notRpc_of_field {kw g : String} {e : Entry} (hr : e.d.isRpc = true → fieldOrder kw = ioList)
    (hf : g ∈ fieldOrder kw) (hg : g ∉ ioList) : e.d.isRpc = false := by
  cases h : e.d.isRpc
  · rfl
  · exact absurd (hr h ▸ hf) hg

theorem stepFn_okT (isMod : Bool) (hm : isMod = isModKw n) (hS : isMod = true → root.seq ∈ S) (acc : Entry × TState) (f : String)
    (h : AccOKT F S acc) (hkind : acc.1.d.kind ≠ .leaf)
    (hin : f = "input" → acc.1.inp = []) (hout : f = "output" → acc.1.out = [])
    (hf : f ∈ fieldOrder n.kw) (hr : acc.1.d.isRpc = true → fieldOrder n.kw = ioList)
    (hd : fieldOrder n.kw = ioList → acc.1.dir = []) :
    AccOKT F S (stepFn env rec root n (n :: scope) visiting isMod acc f) := by
  obtain ⟨e, st⟩ := acc
  obtain ⟨he, hst⟩ := h
  dsimp only at he hst hkind hin hout hr hd
  have hneu : ∀ (x : Entry) (g : EData → EData), (∀ d, NeutralD d (g d)) → (∀ d, (g d).isRpc = d.isRpc) →
      (∀ d, (g d).errors = d.errors) → F.PE x → F.PE (x.withD g) :=
    fun x g h1 h3 h2 hx => hC.withD x g h1 h3 (fun d => ⟨[], by simp [h2 d]⟩) hx
  unfold stepFn
  dsimp only
  split
  all_goals try dsimp only
  all_goals first
    | exact ⟨he, hst⟩
    | exact ⟨hC.addErrs _ _ (hneu _ _ (fun d => ⟨rfl, rfl, rfl, rfl, rfl, rfl⟩) (fun d => rfl) (fun d => rfl) he), hst⟩
    | (refine ⟨?_, hst⟩; split
       · exact hneu _ _ (fun d => ⟨rfl, rfl, rfl, rfl, rfl, rfl⟩) (fun d => rfl) (fun d => rfl) he
       · exact he)
    | exact addFold_okT hC hrec root scope n visiting S inv _ (by decide) (e, st) ⟨he, hst⟩ (notRpc_of_field hr hf (by decide))
    | exact rpcFold_okT hC hrec root scope n visiting S inv _ (by decide) (by decide) (e, st) ⟨he, hst⟩
        (notRpc_of_field hr hf (by decide))
    | exact importFold_okT hC hrec root scope n visiting S inv _ (by decide) (e, st) ⟨he, hst⟩
    | exact usesFold_okT hC hrec root scope n visiting S inv _ (by decide) (e, st) ⟨he, hst⟩ (notRpc_of_field hr hf (by decide))
    | exact includeFold_okT hC hrec root n visiting S _ (e, st) ⟨he, hst⟩ (notRpc_of_field hr hf (by decide))
    | exact deviateFold_okT hC hrec root scope n visiting S inv _ (by decide) (e, st) ⟨he, hst⟩
    | skip
  case h_18 =>
    split
    · exact ⟨he, hst⟩
    · rename_i i hi
      obtain ⟨r1, r2, r3, _⟩ := hrec root (n :: scope) i visiting st S (inv.one "input" (by decide) hi) hst
      have hdir : e.dir = [] := hd (fieldOrder_io _ (Or.inl hf))
      cases e with | mk d c i' o' =>
      have hi0 : i' = [] := hin rfl
      subst hi0
      simp only [Entry.dir] at hdir
      subst hdir
      refine ⟨hC.setInp d o' _ he r1 ?_, r2⟩
      intro herr
      have hkw : i.kw = "input" := one?_kw n _ i hi
      exact (r3 herr (by rw [hkw]; decide) (by rw [hkw]; decide) (by rw [hkw]; decide)
        (by rw [hkw]; decide)).2.1.trans (by rw [hkw]; rfl)
  case h_19 =>
    split
    · exact ⟨he, hst⟩
    · rename_i o ho
      obtain ⟨r1, r2, r3, _⟩ := hrec root (n :: scope) o visiting st S (inv.one "output" (by decide) ho) hst
      have hdir : e.dir = [] := hd (fieldOrder_io _ (Or.inr hf))
      cases e with | mk d c i' o' =>
      have ho0 : o' = [] := hout rfl
      subst ho0
      simp only [Entry.dir] at hdir
      subst hdir
      refine ⟨hC.setOut d i' _ he r1 ?_, r2⟩
      intro herr
      have hkw : o.kw = "output" := one?_kw n _ o ho
      exact (r3 herr (by rw [hkw]; decide) (by rw [hkw]; decide) (by rw [hkw]; decide)
        (by rw [hkw]; decide)).2.1.trans (by rw [hkw]; rfl)
  case h_23 =>
    split
    · exact ⟨he, hst⟩
    · split
      · exact ⟨hC.typeSet e _ he hkind, hst⟩
      · exact ⟨hC.addErr _ _ he, hst⟩
  case h_24 =>
    split
    · refine ⟨?_, hst⟩
      split
      · exact hneu _ _ (fun d => ⟨rfl, rfl, rfl, rfl, rfl, rfl⟩) (fun d => rfl) (fun d => rfl) he
      · exact he
    · exact ⟨he, hst⟩
  case h_26 =>
    split
    · exact ⟨he, hst⟩
    · rename_i hk
      have hk' : e.d.kind = .deviate := by simpa using hk
      refine ⟨?_, hst⟩
      have h1 := hC.laSet e (fun d => { d with listAttr := some (d.listAttr.getD {}) }) he hk'
        (fun d => ⟨rfl, rfl, rfl, rfl, rfl⟩) (fun d => rfl) (fun d => ⟨[], by simp⟩)
      split
      · exact h1
      · exact hC.addErrs _ _ (hC.laSet _ _ h1 (by cases e; exact hk')
          (fun d => ⟨rfl, rfl, rfl, rfl, rfl⟩) (fun d => rfl) (fun d => ⟨[], by simp⟩))
  case h_27 =>
    split
    · exact ⟨he, hst⟩
    · rename_i hk
      have hk' : e.d.kind = .deviate := by simpa using hk
      refine ⟨?_, hst⟩
      have h1 := hC.laSet e (fun d => { d with listAttr := some (d.listAttr.getD {}) }) he hk'
        (fun d => ⟨rfl, rfl, rfl, rfl, rfl⟩) (fun d => rfl) (fun d => ⟨[], by simp⟩)
      split
      · exact h1
      · exact hC.addErrs _ _ (hC.laSet _ _ h1 (by cases e; exact hk')
          (fun d => ⟨rfl, rfl, rfl, rfl, rfl⟩) (fun d => rfl) (fun d => ⟨[], by simp⟩))
  case h_28 =>
    split
    · exact ⟨he, hst⟩
    · rename_i hmm
      have hm' : isMod = true := by simpa using hmm
      obtain ⟨new, e1, e2, e3, e4, e5, e6⟩ := augFold_okT hrec root scope n visiting S inv (n.all "augment") (fun _ h => h) [] st hst
      simp only [List.nil_append] at e1
      refine ⟨he, ⟨⟨e6.base.cache, e6.base.gcache, ?_, ?_, e6.base.ckind⟩, ?_, e6.crows⟩⟩
      · intro p hp
        rcases List.mem_append.mp hp with hp | hp
        · exact e6.base.augs p hp
        · simp only [List.mem_singleton] at hp; subst hp; rw [e1]; exact e2
      · intro p hp
        rcases List.mem_append.mp hp with hp | hp
        · exact e6.base.keys p hp
        · simp only [List.mem_singleton] at hp; subst hp; exact Or.inr (hS hm')
      · intro p hp
        rcases List.mem_append.mp hp with hp | hp
        · exact e6.rows p hp
        · simp only [List.mem_singleton] at hp; subst hp; rw [e1]
          exact hC.row root scope n new inv (by rw [← hm, hm']) e2 e3 e4 e5

end Step

section Body
variable {env : Env} {F : Frame} (hC : ClosedT env F) {rec : Rec} (hrec : RecOKT env F rec)
  (root : Mod) (scope : List Stmt) (n : Stmt) (visiting : List NodeId) (S : List Nat) (inv : InvT env root scope n)
include hC inv

omit hC inv in
theorem e0_isRpc (root : Mod) (n : Stmt) : (e0 root n).d.isRpc = false := by
  unfold e0 baseData
  dsimp only [Entry.d]
  split
  · rfl
  · split <;> rfl

omit hC inv in
theorem e0_dir (root : Mod) (n : Stmt) : (e0 root n).dir = [] := rfl

include hrec in
theorem steps_okT (isMod : Bool) (hm : isMod = isModKw n) (hS : isMod = true → root.seq ∈ S) (st : TState) (hst : StOKT F S st) :
    AccOKT F S ((fieldOrder n.kw).foldl (stepFn env rec root n (n :: scope) visiting isMod) (e0 root n, st)) := by
  by_cases hio : "input" ∈ fieldOrder n.kw ∨ "output" ∈ fieldOrder n.kw
  · have hfo : fieldOrder n.kw = ioList := fieldOrder_io _ hio
    have hmem : ∀ g ∈ ioList, g ∈ fieldOrder n.kw := fun g hg => hfo ▸ hg
    rw [fieldOrder_io _ hio]
    simp only [List.foldl]
    have k0 : (e0 root n).d.kind ≠ .leaf := e0_kind root n
    have d0 : (e0 root n, st).1.dir = [] := rfl
    have s1 := stepFn_okT hC hrec root scope n visiting S inv isMod hm hS (e0 root n, st) "output" ⟨hC.base0 root scope n inv, hst⟩ k0
      (fun h => absurd h (by decide)) (fun _ => rfl) (hmem _ (by decide)) (fun _ => hfo) (fun _ => d0)
    have k1 := rootKeep_stepFn env rec root n (n :: scope) visiting isMod (e0 root n, st) "output"
    have i1 := stepFn_output_inp env rec root n (n :: scope) visiting isMod (e0 root n, st)
    have d1 := (stepFn_io_dir env rec root n (n :: scope) visiting isMod (e0 root n, st) "output" (by decide)).trans d0
    generalize stepFn env rec root n (n :: scope) visiting isMod (e0 root n, st) "output" = a1 at s1 k1 i1 d1 ⊢
    have k1' : a1.1.d.kind ≠ .leaf := by rw [k1.2.1]; exact k0
    have s2 := stepFn_okT hC hrec root scope n visiting S inv isMod hm hS a1 "input" s1 k1'
      (fun _ => i1) (fun h => absurd h (by decide)) (hmem _ (by decide)) (fun _ => hfo) (fun _ => d1)
    have k2 := rootKeep_stepFn env rec root n (n :: scope) visiting isMod a1 "input"
    have d2 := (stepFn_io_dir env rec root n (n :: scope) visiting isMod a1 "input" (by decide)).trans d1
    generalize stepFn env rec root n (n :: scope) visiting isMod a1 "input" = a2 at s2 k2 d2 ⊢
    have k2' : a2.1.d.kind ≠ .leaf := by rw [k2.2.1]; exact k1'
    have s3 := stepFn_okT hC hrec root scope n visiting S inv isMod hm hS a2 "grouping" s2 k2'
      (fun h => absurd h (by decide)) (fun h => absurd h (by decide)) (hmem _ (by decide)) (fun _ => hfo) (fun _ => d2)
    have k3 := rootKeep_stepFn env rec root n (n :: scope) visiting isMod a2 "grouping"
    have d3 := (stepFn_io_dir env rec root n (n :: scope) visiting isMod a2 "grouping" (by decide)).trans d2
    generalize stepFn env rec root n (n :: scope) visiting isMod a2 "grouping" = a3 at s3 k3 d3 ⊢
    have k3' : a3.1.d.kind ≠ .leaf := by rw [k3.2.1]; exact k2'
    exact stepFn_okT hC hrec root scope n visiting S inv isMod hm hS a3 "description" s3 k3'
      (fun h => absurd h (by decide)) (fun h => absurd h (by decide)) (hmem _ (by decide)) (fun _ => hfo) (fun _ => d3)
  · have hni : "input" ∉ fieldOrder n.kw := fun h => hio (Or.inl h)
    have hno : "output" ∉ fieldOrder n.kw := fun h => hio (Or.inr h)
    have hnio : fieldOrder n.kw ≠ ioList := fun h => hni (h ▸ (by decide : "input" ∈ ioList))
    refine (foldl_inv (fun acc : Entry × TState => AccOKT F S acc ∧ acc.1.d.kind ≠ .leaf ∧ acc.1.d.isRpc = false) _ _ _
      ⟨⟨hC.base0 root scope n inv, hst⟩, e0_kind root n, e0_isRpc root n⟩ ?_).1
    rintro acc f hf ⟨ha, hk, hrf⟩
    refine ⟨stepFn_okT hC hrec root scope n visiting S inv isMod hm hS acc f ha hk
      (fun h => absurd (h ▸ hf) hni) (fun h => absurd (h ▸ hf) hno) hf
      (fun h => absurd h (by rw [hrf]; simp)) (fun h => absurd h hnio), ?_, ?_⟩
    · rw [(rootKeep_stepFn env rec root n (n :: scope) visiting isMod acc f).2.1]; exact hk
    · rw [((evolve_stepFn false env rec root n (n :: scope) visiting isMod acc f
        (fun _ => ⟨fun h => hni (h ▸ hf), fun h => hno (h ▸ hf)⟩)).keepsRpc rfl).1]; exact hrf

omit hC inv in
theorem stOKT_weaken (x : Nat) (st : TState) (h : StOKT F S st) : StOKT F (x :: S) st :=
  ⟨stOK_weaken S x st h.base, h.rows, h.crows⟩

include hrec in
theorem dirBody_okT (st : TState) (hst : StOKT F S st) (isMod : Bool) (hm : isMod = isModKw n)
    (hmk : isMod = true → kindOfKw n.kw = .directory)
    (hpxd : F.PX root scope n ((fieldOrder n.kw).foldl (stepFn env rec root n (n :: scope) visiting isMod) (e0 root n, st)).1) :
    F.PE (dirBody env rec root scope n visiting st isMod).1 ∧
      StOKT F S (dirBody env rec root scope n visiting st isMod).2 ∧
      F.PX root scope n (dirBody env rec root scope n visiting st isMod).1 := by
  unfold dirBody
  dsimp only
  cases isMod with
  | true =>
    simp only [if_true]
    have hrec' : RecOKT env F rec := hrec
    have := steps_okT hC hrec root scope n visiting (root.seq :: S) inv true hm (fun _ => List.mem_cons_self)
      st (stOKT_weaken S _ st hst)
    have hpx := hpxd
    have hkind := (rootKeep_fold_steps env rec root n (n :: scope) visiting true (fieldOrder n.kw) (e0 root n, st)).2.1
    refine ⟨this.1, ⟨⟨?_, this.2.base.gcache, this.2.base.augs, ?_, ?_⟩, this.2.rows, ?_⟩, hpx⟩
    · intro p hp
      rcases List.mem_append.mp hp with hp | hp
      · exact this.2.base.cache p hp
      · simp only [List.mem_singleton] at hp; subst hp; exact this.1
    · intro p hp
      simp only [List.map_append, List.map_cons, List.map_nil, List.mem_append, List.mem_singleton]
      rcases this.2.base.keys p hp with h | h
      · exact Or.inl (Or.inl h)
      · rcases List.mem_cons.mp h with h | h
        · exact Or.inl (Or.inr h)
        · exact Or.inr h
    · intro p hp
      rcases List.mem_append.mp hp with hp | hp
      · exact this.2.base.ckind p hp
      · simp only [List.mem_singleton] at hp; subst hp
        exact hkind.trans ((e0_data root n).2.1.trans (hmk rfl))
    · intro p hp
      rcases List.mem_append.mp hp with hp | hp
      · exact this.2.crows p hp
      · simp only [List.mem_singleton] at hp; subst hp
        exact hC.pc root scope n _ inv hm.symm this.1 hpx
  | false =>
    simp only [Bool.false_eq_true, if_false]
    have hrec' : RecOKT env F rec := hrec
    have := steps_okT hC hrec root scope n visiting S inv false hm (fun h => absurd h (by simp)) st hst
    have hpx := hpxd
    split
    · exact ⟨this.1, ⟨⟨this.2.base.cache, fun p hp => by
        rcases List.mem_append.mp hp with hp | hp
        · exact this.2.base.gcache p hp
        · simp only [List.mem_singleton] at hp; subst hp; exact this.1, this.2.base.augs, this.2.base.keys,
          this.2.base.ckind⟩, this.2.rows, this.2.crows⟩, hpx⟩
    · exact ⟨this.1, this.2, hpx⟩

include hrec in
/-- One level of `toEntry` keeps the invariant, given that the recursive calls do. -/
theorem toEntryBody_okT (fuel : Nat) (st : TState) (hst : StOKT F S st)
    (hpxd : ∀ (isMod : Bool) (vis : List NodeId), isMod = isModKw n →
      F.PX root scope n ((fieldOrder n.kw).foldl (stepFn env rec root n (n :: scope) vis isMod) (e0 root n, st)).1) :
    F.PE (toEntryBody env fuel rec root scope n visiting st).1 ∧
      StOKT F S (toEntryBody env fuel rec root scope n visiting st).2 ∧
      F.PX root scope n (toEntryBody env fuel rec root scope n visiting st).1 := by
  unfold toEntryBody
  dsimp only
  split
  · rename_i k e hfind
    split at hfind
    · rename_i hmod
      have hmem := List.mem_of_find?_eq_some hfind
      have hkey : k = root.seq := by simpa using List.find?_some hfind
      exact ⟨hst.base.cache _ hmem, hst, hC.pxCache root scope n (k, e) inv hmod (hst.crows _ hmem) hkey⟩
    · exact absurd hfind (by simp)
  · split
    · rename_i k e hfind
      split at hfind
      · rename_i hg
        exact ⟨hst.base.gcache _ (List.mem_of_find?_eq_some hfind), hst,
          hC.pxTriv root scope n e (Or.inl (by simpa using hg))⟩
      · exact absurd hfind (by simp)
    · split
      · exact ⟨hC.errE _ scope _ _ inv, hst, hC.pxErr root scope n _ inv⟩
      · split
        · rename_i hl
          exact ⟨hC.leafE root scope n false inv, hst, hC.pxTriv root scope n _ (Or.inr (Or.inl (by simpa using hl)))⟩
        · split
          · rename_i hl
            exact ⟨hC.leafL root scope n _ _ _ inv, hst,
              hC.pxTriv root scope n _ (Or.inr (Or.inr (Or.inl (by simpa using hl))))⟩
          · split
            · rename_i hu
              split
              · exact ⟨hC.errE _ scope _ _ inv, hst, hC.pxErr root scope n _ inv⟩
              · rename_i g groot gscope hfg
                obtain ⟨r1, r2, _⟩ := hrec _ _ _ _ st S (inv.uses hfg) hst
                exact ⟨r1, r2, hC.pxTriv root scope n _ (Or.inr (Or.inr (Or.inr (by simpa using hu))))⟩
            · refine dirBody_okT hC hrec root scope n _ S inv st hst _ rfl ?_ (hpxd _ _ rfl)
              intro hm
              simp only [Bool.or_eq_true, beq_iff_eq] at hm
              rcases hm with hm | hm <;> rw [hm] <;> decide

end Body

/-- The invariant of `toEntry`: from a good state, at a call site `processAll` can reach, it
produces a good entry and a good state. -/
theorem toEntry_okT {env : Env} {F : Frame} (hC : ClosedT env F) (fuel : Nat) : RecOKT env F (toEntry env fuel) := by
  induction fuel with
  | zero =>
    intro root scope n visiting st S inv hst
    exact ⟨hC.errE _ scope _ _ inv, hst, toEntry_shape env 0 root scope n visiting st,
      toEntry_shape2 env 0 root scope n visiting st, toEntry_shape3 env 0 root scope n visiting st,
      hC.pxErr root scope n _ inv⟩
  | succ fuel ih =>
    intro root scope n visiting st S inv hst
    have := toEntryBody_okT hC ih root scope n visiting S inv fuel st hst
      (fun isMod vis hm => hC.pxDir fuel root scope n vis st S isMod inv ih hst hm)
    rw [toEntry_succ]
    exact ⟨this.1, this.2.1, toEntryBody_shape _ _ _ _ _ _ _ _, toEntryBody_shape2 _ _ _ _ _ _ _ _,
      toEntryBody_shape3 _ _ _ _ _ _ _ _, this.2.2⟩


/-! ### relations between the conversion state before and after a call -/

/-- A relation between the state a call of `toEntry` starts from and the state it returns, which
may depend on the `visiting` list of the call. -/
structure RelFrame (env : Env) where
  R : List NodeId → TState → TState → Prop
  refl : ∀ v st, R v st st
  trans : ∀ v a b c, R v a b → R v b c → R v a c
  /-- a nested call is made with a longer `visiting` list -/
  weaken : ∀ v x a b, R (x :: v) a b → R v a b
  merged : ∀ v (st : TState) m, R v st { st with merged := m }
  gcache : ∀ v (st : TState) x, R v st { st with gcache := st.gcache ++ [x] }
  augs : ∀ v (st : TState) x, R v st { st with augs := st.augs ++ [x] }
  /-- a (sub)module that was not in the cache and is not being converted files its entry -/
  cache : ∀ root scope n v (st st1 : TState) e, InvT env root scope n → isModKw n = true →
    st.cache.find? (·.1 == root.seq) = none → v.contains (nodeId root n) = false →
    R (nodeId root n :: v) st st1 → R v st { st1 with cache := st1.cache ++ [(root.seq, e)] }

def RecRel {env : Env} (F : RelFrame env) (rec : Rec) : Prop :=
  ∀ root scope n visiting st, InvT env root scope n → F.R visiting st (rec root scope n visiting st).2

section Rel
variable {env : Env} (F : RelFrame env) {rec : Rec} (hrec : RecRel F rec)
  (root : Mod) (scope : List Stmt) (n : Stmt) (visiting : List NodeId) (inv : InvT env root scope n)
include hrec inv

theorem stepFn_rel (isMod : Bool) (acc : Entry × TState) (f : String) :
    F.R visiting acc.2 (stepFn env rec root n (n :: scope) visiting isMod acc f).2 := by
  obtain ⟨e, st⟩ := acc
  have fold : ∀ {β : Type} (kw : String) (hk : kw ≠ "module" ∧ kw ≠ "submodule") (g : β × TState → Stmt → β × TState) (b : β),
      (∀ acc c, c ∈ n.all kw → (g acc c).2 = (rec root (n :: scope) c visiting acc.2).2) →
      F.R visiting st ((n.all kw).foldl g (b, st)).2 := by
    intro β kw hk g b hg
    refine foldl_inv (fun acc : β × TState => F.R visiting st acc.2) _ _ _ (F.refl _ _) ?_
    intro acc c hc hacc
    rw [hg acc c hc]
    exact F.trans _ _ _ _ hacc (hrec root (n :: scope) c visiting acc.2 (inv.all kw hk hc))
  unfold stepFn
  dsimp only
  split
  all_goals try dsimp only
  all_goals first
    | exact F.refl _ _
    | (unfold addAllFn; exact fold _ (by decide) _ e (fun _ _ _ => rfl))
    | exact fold _ (by decide) _ e (fun _ _ _ => rfl)
    | skip
  -- input
  case h_18 =>
    split
    · exact F.refl _ _
    · rename_i i hi
      exact hrec root (n :: scope) i visiting st (inv.one "input" (by decide) hi)
  case h_19 =>
    split
    · exact F.refl _ _
    · rename_i o ho
      exact hrec root (n :: scope) o visiting st (inv.one "output" (by decide) ho)
  -- include
  case h_20 =>
    refine foldl_inv (fun acc : Entry × TState => F.R visiting st acc.2) _ _ _ (F.refl _ _) ?_
    rintro ⟨e', st'⟩ a _ hacc
    dsimp only at hacc ⊢
    repeat' split
    all_goals first
      | exact hacc
      | (rename_i im him _ _ _
         exact F.trans _ _ _ _ hacc (F.trans _ _ _ _ (F.merged _ _ _) (hrec im [] im.stmt visiting _ (InvT.include_ him))))
  case h_23 =>
    split
    · exact F.refl _ _
    · split <;> exact F.refl _ _
  case h_24 => split <;> exact F.refl _ _
  case h_26 => split <;> exact F.refl _ _
  case h_27 => split <;> exact F.refl _ _
  case h_28 =>
    split
    · exact F.refl _ _
    · exact F.trans _ _ _ _ (fold "augment" (by decide) _ [] (fun _ _ _ => rfl)) (F.augs _ _ _)

theorem steps_rel (isMod : Bool) (l : List String) (acc : Entry × TState) :
    F.R visiting acc.2 (l.foldl (stepFn env rec root n (n :: scope) visiting isMod) acc).2 := by
  refine foldl_inv (fun a : Entry × TState => F.R visiting acc.2 a.2) _ _ _ (F.refl _ _) ?_
  intro b f _ hb
  exact F.trans _ _ _ _ hb (stepFn_rel F hrec root scope n visiting inv isMod b f)

end Rel

theorem toEntryBody_rel {env : Env} (F : RelFrame env) {rec : Rec} (hrec : RecRel F rec)
    (root : Mod) (scope : List Stmt) (n : Stmt) (visiting : List NodeId) (inv : InvT env root scope n)
    (fuel : Nat) (st : TState) : F.R visiting st (toEntryBody env fuel rec root scope n visiting st).2 := by
  unfold toEntryBody
  dsimp only
  split
  · exact F.refl _ _
  · rename_i hmiss
    split
    · exact F.refl _ _
    · split
      · exact F.refl _ _
      · rename_i hcyc
        split
        · exact F.refl _ _
        · split
          · exact F.refl _ _
          · split
            · split
              · exact F.refl _ _
              · rename_i g groot gscope hfg
                by_cases ht : ((n.kw == "module" || n.kw == "submodule") || n.kw == "grouping") = true
                · simp only [ht, if_true]
                  exact F.weaken _ _ _ _ (hrec groot gscope g _ st (inv.uses hfg))
                · simp only [ht, if_false]
                  exact hrec groot gscope g _ st (inv.uses hfg)
            · unfold dirBody
              dsimp only
              by_cases hm : (n.kw == "module" || n.kw == "submodule") = true
              · simp only [hm, if_true, Bool.true_or]
                have hmiss' : st.cache.find? (·.1 == root.seq) = none := by simpa [hm] using hmiss
                have hc : visiting.contains (nodeId root n) = false := by
                  cases h : visiting.contains (nodeId root n)
                  · rfl
                  · exact absurd (by rw [h, hm]; rfl) hcyc
                exact F.cache root scope n visiting st _ _ inv hm hmiss' hc
                  (steps_rel F hrec root scope n (nodeId root n :: visiting) inv true (fieldOrder n.kw) (e0 root n, st))
              · simp only [hm, Bool.false_eq_true, if_false, Bool.false_or]
                by_cases hg : (n.kw == "grouping") = true
                · simp only [hg, if_true]
                  exact F.trans _ _ _ _ (F.weaken _ _ _ _
                    (steps_rel F hrec root scope n (nodeId root n :: visiting) inv false (fieldOrder n.kw) (e0 root n, st))) (F.gcache _ _ _)
                · simp only [hg, Bool.false_eq_true, if_false]
                  exact steps_rel F hrec root scope n visiting inv false (fieldOrder n.kw) (e0 root n, st)

theorem toEntry_rel {env : Env} (F : RelFrame env) (fuel : Nat) : RecRel F (toEntry env fuel) := by
  induction fuel with
  | zero => intro root scope n visiting st _; exact F.refl _ _
  | succ fuel ih =>
    intro root scope n visiting st inv
    rw [toEntry_succ]
    exact toEntryBody_rel F ih root scope n visiting inv fuel st

end Goyang.Lemmas.Bridge
