import Goyang.Lemmas.SortUnique
import Goyang.Lemmas.ErrorSort
import Goyang.Model.Cli
/-
Lemmas for the formatter model (Model/Cli.lean): every place where the command walks a map it
sorts the keys first, so the output is a function of the map as a set.  Core Lean only.
-/
namespace Goyang.Lemmas.Cli
open Goyang.Model Goyang.Model.Cli Goyang.Lemmas.SortUnique Goyang.Lemmas.ErrorSort

theorem nodup_eraseDups {α} [BEq α] [LawfulBEq α] (l : List α) : l.eraseDups.Nodup := by
  generalize h : l.length = n
  induction n using Nat.strongRecOn generalizing l with
  | _ n ih =>
    cases l with
    | nil => simp
    | cons a t =>
      rw [List.eraseDups_cons, List.nodup_cons]
      refine ⟨?_, ih _ ?_ _ rfl⟩
      · intro hm
        have := List.mem_filter.mp (List.mem_eraseDups.mp hm)
        simp at this
      · subst h
        exact Nat.lt_succ_of_le (List.length_filter_le _ _)

theorem writeKids_eq_map (l : List Tree) :
    writeKids l = l.map fun c => (c.n.name, Indent.indent (str "  ") (write c)) := by
  induction l with
  | nil => rfl
  | cons a t ih => simp [writeKids, ih]

theorem keyLt_irrefl (a : Indent.Bytes × Indent.Bytes) : keyLt a a = false := bytesLt_irrefl _

theorem keyLt_trans (a b c : Indent.Bytes × Indent.Bytes) : keyLt a b = true → keyLt b c = true → keyLt a c = true :=
  bytesLt_trans

theorem eq_of_map_eq {α β} (f : α → β) {l : List α} (hnd : (l.map f).Nodup) {a b : α} (ha : a ∈ l) (hb : b ∈ l)
    (e : f a = f b) : a = b := by
  induction l with
  | nil => cases ha
  | cons x t ih =>
    rw [List.map_cons, List.nodup_cons] at hnd
    rcases List.mem_cons.mp ha with ha' | ha' <;> rcases List.mem_cons.mp hb with hb' | hb'
    · rw [ha', hb']
    · subst ha'; exact absurd (e ▸ List.mem_map_of_mem hb') hnd.1
    · subst hb'; exact absurd (e ▸ List.mem_map_of_mem ha') hnd.1
    · exact ih hnd.2 ha' hb'

/-- Sorting (key, value) pairs by key is order-independent when the keys are unique. -/
theorem sortBy_keyLt_perm {l₁ l₂ : List (Indent.Bytes × Indent.Bytes)} (h : l₁.Perm l₂) (hnd : (l₁.map (·.1)).Nodup) :
    sortBy keyLt l₁ = sortBy keyLt l₂ := by
  refine sortBy_perm_invariant keyLt keyLt_irrefl keyLt_trans h ?_
  intro a ha b hb hne
  have : a.1 ≠ b.1 := by
    intro e
    exact hne (eq_of_map_eq (·.1) hnd ha hb e)
  exact bytesLt_total this

/-- Sorting strings is order-independent. -/
theorem sortBy_bytes_perm {l₁ l₂ : List Indent.Bytes} (h : l₁.Perm l₂) :
    sortBy ErrorSort.bytesLt l₁ = sortBy ErrorSort.bytesLt l₂ :=
  sortBy_perm_invariant _ bytesLt_irrefl (fun _ _ _ => bytesLt_trans) h (fun _ _ _ _ hne => bytesLt_total hne)

/-- Sorting the distinct elements is a function of the set. -/
theorem sortBy_eraseDups_ext {l₁ l₂ : List Indent.Bytes} (h : ∀ x, x ∈ l₁ ↔ x ∈ l₂) :
    sortBy ErrorSort.bytesLt l₁.eraseDups = sortBy ErrorSort.bytesLt l₂.eraseDups := by
  apply sortBy_bytes_perm
  rw [List.perm_ext_iff_of_nodup (nodup_eraseDups _) (nodup_eraseDups _)]
  intro a
  rw [List.mem_eraseDups, List.mem_eraseDups]
  exact h a

end Goyang.Lemmas.Cli
