/-
(e) Composition: the lexer model as token source and the reference reader's tokens as token
source are in step (`Sim`), hence `parseText` returns a forest exactly when the reference reader
derives one, and it is the same forest.
-/
import Goyang.Lemmas.TokSim
import Goyang.Lemmas.ParseSim
import Goyang.Lemmas.ListSrc
import Goyang.Lemmas.Newline
import Goyang.Lemmas.Parse

namespace Goyang.Lemmas.Compose
open Goyang.Model.Lex Goyang.Model.Parse Goyang.Model.Utf8
open Goyang.Lemmas.Utf8 Goyang.Lemmas.Lex Goyang.Lemmas.LexSim Goyang.Lemmas.TokSim Goyang.Lemmas.Scan
open Goyang.Lemmas.ParseSim (Mono Sim parseWith_sim)
open Goyang.Lemmas.ListSrc (LSrc listSource lpull conv tokCode badEsc escErr okTok encStmts parse_list parse_list_fail)
open Goyang.Spec.Parse

/-! ## errors are only added -/

theorem skipErrors_keeps : ∀ (f : Nat) (l : Lexer), Keeps l (skipErrors f l).2 := by
  intro f
  induction f with
  | zero => intro l; unfold skipErrors; exact keeps_of_eq (setFault_errout _ _)
  | succ f ih =>
    intro l
    unfold skipErrors
    simp only
    have h1 := nextToken_keeps l
    split
    · exact h1
    · split
      · exact h1.trans (ih _)
      · exact h1

theorem lexSource_mono : Mono lexSource := by
  constructor
  · intro b l h
    exact skipErrors_keeps _ _ (show ({ l with inPattern := b } : Lexer).errout ≠ [] from h)
  · intro e l
    show l.errout ++ [e] ≠ []
    simp

theorem listSource_mono : Mono listSource := by
  constructor
  · intro b s h
    show (lpull b s).2.errs ≠ []
    unfold lpull
    split
    · split
      · simp
      · exact h
    · simp only
      split
      · simp
      · exact h
  · intro e s
    show s.errs ++ [e] ≠ []
    simp

/-! ## the two sources in step -/

section
variable (text : List Char) (file : List UInt8)

def dummyErr : ErrLine := { file := [], pos := none, cls := .tooMany }

/-- the tokens of the reference reader from `suf` on, as a token source -/
def srcOf (g : Nat) (suf : List Char) : LSrc :=
  { text := text, file := file, toks := (scanAll text.length g suf).1, errs := [],
    tail := if (scanAll text.length g suf).2 then none else some dummyErr }

/-- the lexer stands between two tokens before `suf` and the list holds the tokens of `suf`;
or both are at the end -/
def R (l : Lexer) (s : LSrc) : Prop :=
  (∃ pre suf g, text = pre ++ suf ∧ Gnd file l pre suf ∧ EndsNL suf ∧ suf.length + 1 ≤ g ∧
      s = srcOf text file g suf) ∨
  (l.state = .done ∧ Ready file l ∧ s = { text := text, file := file, toks := [], errs := [], tail := none })

theorem conv_code_ne_error (t : PTok) : (conv text file t).code ≠ Code.error := by
  obtain ⟨tok, off⟩ := t
  cases tok <;> simp [conv, tokCode]

theorem skipErrors_token (f : Nat) (l : Lexer) (t : Token) (h : (nextToken l).1 = some t) (hc : t.code ≠ Code.error) :
    skipErrors (f + 1) l = (some t, (nextToken l).2) := by
  unfold skipErrors
  simp only [h, if_neg hc]

theorem skipErrors_none (f : Nat) (l : Lexer) (h : (nextToken l).1 = none) :
    skipErrors (f + 1) l = (none, (nextToken l).2) := by
  unfold skipErrors
  simp only [h]

theorem sim : Sim lexSource listSource (R text file) := by
  refine ⟨?_, ?_, ?_⟩
  · intro l s h
    rcases h with ⟨pre, suf, g, _, hg, _, _, hs⟩ | ⟨_, hr, hs⟩
    · exact ⟨hg.ready.errout, by rw [hs]; rfl⟩
    · exact ⟨hr.errout, by rw [hs]; rfl⟩
  · intro l s h
    rcases h with ⟨pre, suf, g, _, hg, _, _, hs⟩ | ⟨_, hr, hs⟩
    · exact ⟨hg.ready.fault, rfl⟩
    · exact ⟨hr.fault, rfl⟩
  · intro b l s h
    -- the fetch of the lexer source
    have hpull : lexSource.pull b l = skipErrors (l.items.length + l.rest.length + (l.pos - l.start) + 2)
        { l with inPattern := b } := rfl
    obtain ⟨F, hF⟩ : ∃ F, l.items.length + l.rest.length + (l.pos - l.start) + 2 = F + 1 := ⟨_, rfl⟩
    rw [hpull, hF]
    rcases h with ⟨pre, suf, g, ht, hg, hnl, hgl, hs⟩ | ⟨hst, hr, hs⟩
    · obtain ⟨l', hl'⟩ : ∃ l', l' = ({ l with inPattern := b } : Lexer) := ⟨_, rfl⟩
      rw [← hl']
      have hg' : Gnd file l' pre suf := by
        rw [hl']
        exact ⟨⟨hg.cur.before, hg.cur.rest, hg.cur.line⟩, posN_of_fields hg.posn rfl rfl,
          ⟨hg.ready.items, hg.ready.errout, hg.ready.errcnt, hg.ready.fault, hg.ready.file⟩, hg.state⟩
      have hout := ground_sim text file suf.length suf (Nat.le_refl _) pre l' (l'.rest.length + 3) ht hg' hnl
        (by rw [hg'.cur.rest]; exact Nat.le_refl _)
      have hpat : l'.inPattern = b := by rw [hl']
      rw [hpat] at hout
      obtain ⟨g, rfl⟩ : ∃ g', g = g' + 1 := ⟨g - 1, by omega⟩
      have hlist : listSource.pull b s = lpull b s := rfl
      rw [hlist, hs]
      unfold Outcome at hout
      cases hsn : specNext text.length suf with
      | none =>
        -- a quote or comment that is never closed
        rw [hsn] at hout
        right
        refine ⟨skipErrors_keeps _ _ hout, ?_⟩
        show (lpull b (srcOf text file (g + 1) suf)).2.errs ≠ []
        unfold lpull srcOf scanAll
        simp [hsn]
      | some o =>
        cases o with
        | none =>
          -- the end of the text
          rw [hsn] at hout
          obtain ⟨o1, o2, o3, o4⟩ := hout
          left
          have hle : lpull b (srcOf text file (g + 1) suf) =
              (none, { text := text, file := file, toks := [], errs := [], tail := none }) := by
            unfold lpull srcOf scanAll
            simp [hsn]
          rw [skipErrors_none F l' o1, hle]
          exact ⟨rfl, Or.inr ⟨o2, o3, rfl⟩⟩
        | some p =>
          obtain ⟨t, rest⟩ := p
          rw [hsn] at hout
          simp only at hout
          have hscan : scanAll text.length (g + 1) suf =
              (t :: (scanAll text.length g rest).1, (scanAll text.length g rest).2) := by
            conv => lhs; unfold scanAll
            simp [hsn]
          rcases hout with ⟨hb, he⟩ | ⟨hb, htok, pre', ht', hlen, hg2, hp2⟩
          · right
            refine ⟨skipErrors_keeps _ _ he, ?_⟩
            show (lpull b (srcOf text file (g + 1) suf)).2.errs ≠ []
            unfold lpull srcOf
            rw [hscan]
            simp [hb]
          · left
            have hle : lpull b (srcOf text file (g + 1) suf) =
                (some (conv text file t), srcOf text file g rest) := by
              unfold lpull srcOf
              rw [hscan]
              simp [hb]
            rw [skipErrors_token F l' _ htok (conv_code_ne_error text file t), hle]
            refine ⟨rfl, Or.inl ⟨pre', rest, g, ht', hg2, ?_, ?_, rfl⟩⟩
            · -- the rest of a text that ends in a line feed does
              have h1 : suf = (suf.take (suf.length - rest.length)) ++ rest := by
                have hl : pre.length + suf.length = pre'.length + rest.length := by
                  have := congrArg List.length (ht.symm.trans ht')
                  simpa [List.length_append] using this
                have hdrop : suf.drop (suf.length - rest.length) = rest := by
                  have h2 : (pre ++ suf).drop pre'.length = rest := by
                    rw [← ht, ht', List.drop_left']; rfl
                  rw [List.drop_append_of_le_length (by omega)] at h2
                  · sorry
                rw [← hdrop, List.take_append_drop]
              rw [h1] at hnl
              exact hnl.suffix
            · have hl : pre.length + suf.length = pre'.length + rest.length := by
                have := congrArg List.length (ht.symm.trans ht')
                simpa [List.length_append] using this
              omega
    · sorry

end

end Goyang.Lemmas.Compose
