/-
(e) Composition: the lexer model as token source and the reference reader's tokens as token
source are in step (`Sim`), hence `parseText` returns a forest exactly when the reference reader
derives one, and it is the same forest.
-/
import Goyang.Lemmas.TokSim
import Goyang.Lemmas.ParseSim
import Goyang.Lemmas.ListSrc
import Goyang.Lemmas.Newline
import Goyang.Lemmas.Parse

namespace Goyang.Lemmas.Compose
open Goyang.Model.Lex Goyang.Model.Parse Goyang.Model.Utf8
open Goyang.Lemmas.Utf8 Goyang.Lemmas.Lex Goyang.Lemmas.LexSim Goyang.Lemmas.TokSim Goyang.Lemmas.Scan
open Goyang.Lemmas.ParseSim (Mono Sim parseWith_sim)
open Goyang.Lemmas.ListSrc (LSrc listSource lpull conv tokCode badEsc escErr okTok encStmts parse_list parse_list_fail)
open Goyang.Spec.Parse

/-! ## errors are only added -/

theorem skipErrors_keeps : ∀ (f : Nat) (l : Lexer), Keeps l (skipErrors f l).2 := by
  intro f
  induction f with
  | zero => intro l; unfold skipErrors; exact keeps_of_eq (setFault_errout _ _)
  | succ f ih =>
    intro l
    unfold skipErrors
    simp only
    have h1 := nextToken_keeps l
    split
    · exact h1
    · split
      · exact h1.trans (ih _)
      · exact h1

theorem lexSource_mono : Mono lexSource := by
  constructor
  · intro b l h
    exact skipErrors_keeps _ _ (show ({ l with inPattern := b } : Lexer).errout ≠ [] from h)
  · intro e l
    show l.errout ++ [e] ≠ []
    simp

theorem listSource_mono : Mono listSource := by
  constructor
  · intro b s h
    show (lpull b s).2.errs ≠ []
    unfold lpull
    split
    · split
      · simp
      · exact h
    · simp only
      split
      · simp
      · exact h
  · intro e s
    show s.errs ++ [e] ≠ []
    simp

/-! ## the two sources in step -/

section
variable (text : List Char) (file : List UInt8)

def dummyErr : ErrLine := { file := [], pos := none, cls := .tooMany }

/-- the tokens of the reference reader from `suf` on, as a token source -/
def srcOf (g : Nat) (suf : List Char) : LSrc :=
  { text := text, file := file, toks := (scanAll text.length g suf).1, errs := [],
    tail := if (scanAll text.length g suf).2 then none else some dummyErr }

/-- the lexer stands between two tokens before `suf` and the list holds the tokens of `suf`;
or both are at the end -/
def R (l : Lexer) (s : LSrc) : Prop :=
  (∃ pre suf g, text = pre ++ suf ∧ Gnd file l pre suf ∧ EndsNL suf ∧ suf.length + 1 ≤ g ∧
      s = srcOf text file g suf) ∨
  (l.state = .done ∧ Ready file l ∧ s = { text := text, file := file, toks := [], errs := [], tail := none })

theorem conv_code_ne_error (t : PTok) : (conv text file t).code ≠ Code.error := by
  obtain ⟨tok, off⟩ := t
  cases tok <;> simp [conv, tokCode]

theorem skipErrors_token (f : Nat) (l : Lexer) (t : Token) (h : (nextToken l).1 = some t) (hc : t.code ≠ Code.error) :
    skipErrors (f + 1) l = (some t, (nextToken l).2) := by
  unfold skipErrors
  simp only [h, if_neg hc]

theorem skipErrors_none (f : Nat) (l : Lexer) (h : (nextToken l).1 = none) :
    skipErrors (f + 1) l = (none, (nextToken l).2) := by
  unfold skipErrors
  simp only [h]

theorem skipErrors_bad_after (f : Nat) (l : Lexer) (h : (nextToken l).2.errout ≠ []) :
    (skipErrors (f + 1) l).2.errout ≠ [] := by
  unfold skipErrors
  simp only
  split
  · exact h
  · split
    · exact skipErrors_keeps _ _ h
    · exact h

theorem suffix_of_append_eq (pre suf pre' rest : List Char) (h : pre ++ suf = pre' ++ rest)
    (hl : pre.length < pre'.length) : ∃ a, suf = a ++ rest ∧ rest.length + 1 ≤ suf.length := by
  rcases List.append_eq_append_iff.mp h with ⟨a, h1, h2⟩ | ⟨c, h1, h2⟩
  · refine ⟨a, h2, ?_⟩
    rw [h1] at hl
    rw [h2]
    simp only [List.length_append] at hl ⊢
    omega
  · rw [h1] at hl
    simp only [List.length_append] at hl
    omega

theorem sim : Sim lexSource listSource (R text file) := by
  refine ⟨?_, ?_, ?_⟩
  · intro l s h
    rcases h with ⟨pre, suf, g, _, hg, _, _, hs⟩ | ⟨_, hr, hs⟩
    · exact ⟨hg.ready.errout, by rw [hs]; rfl⟩
    · exact ⟨hr.errout, by rw [hs]; rfl⟩
  · intro l s h
    rcases h with ⟨pre, suf, g, _, hg, _, _, hs⟩ | ⟨_, hr, hs⟩
    · exact ⟨hg.ready.fault, rfl⟩
    · exact ⟨hr.fault, rfl⟩
  · intro b l s h
    -- the fetch of the lexer source
    have hpull : lexSource.pull b l = skipErrors (l.items.length + l.rest.length + (l.pos - l.start) + 2)
        { l with inPattern := b } := rfl
    obtain ⟨F, hF⟩ : ∃ F, l.items.length + l.rest.length + (l.pos - l.start) + 2 = F + 1 := ⟨_, rfl⟩
    rw [hpull, hF]
    rcases h with ⟨pre, suf, g, ht, hg, hnl, hgl, hs⟩ | ⟨hst, hr, hs⟩
    · obtain ⟨l', hl'⟩ : ∃ l', l' = ({ l with inPattern := b } : Lexer) := ⟨_, rfl⟩
      rw [← hl']
      have hg' : Gnd file l' pre suf := by
        rw [hl']
        exact ⟨⟨hg.cur.before, hg.cur.rest, hg.cur.line⟩, posN_of_fields hg.posn rfl rfl,
          ⟨hg.ready.items, hg.ready.errout, hg.ready.errcnt, hg.ready.fault, hg.ready.file⟩, hg.state⟩
      have hout := ground_sim text file suf.length suf (Nat.le_refl _) pre l' (l'.rest.length + 3) ht hg' hnl
        (by rw [hg'.cur.rest]; exact Nat.le_refl _)
      have hpat : l'.inPattern = b := by rw [hl']
      rw [hpat] at hout
      obtain ⟨g, rfl⟩ : ∃ g', g = g' + 1 := ⟨g - 1, by omega⟩
      have hlist : listSource.pull b s = lpull b s := rfl
      rw [hlist, hs]
      unfold Outcome at hout
      cases hsn : specNext text.length suf with
      | none =>
        -- a quote or comment that is never closed
        rw [hsn] at hout
        right
        refine ⟨skipErrors_bad_after F l' hout, ?_⟩
        show (lpull b (srcOf text file (g + 1) suf)).2.errs ≠ []
        unfold lpull srcOf scanAll
        simp [hsn]
      | some o =>
        cases o with
        | none =>
          -- the end of the text
          rw [hsn] at hout
          obtain ⟨o1, o2, o3, o4⟩ := hout
          left
          have hle : lpull b (srcOf text file (g + 1) suf) =
              (none, { text := text, file := file, toks := [], errs := [], tail := none }) := by
            unfold lpull srcOf scanAll
            simp [hsn]
          rw [skipErrors_none F l' o1, hle]
          exact ⟨rfl, Or.inr ⟨o2, o3, rfl⟩⟩
        | some p =>
          obtain ⟨t, rest⟩ := p
          rw [hsn] at hout
          simp only at hout
          have hscan : scanAll text.length (g + 1) suf =
              (t :: (scanAll text.length g rest).1, (scanAll text.length g rest).2) := by
            conv => lhs; unfold scanAll
            simp [hsn]
          rcases hout with ⟨hb, he⟩ | ⟨hb, htok, pre', ht', hlen, hg2, hp2⟩
          · right
            refine ⟨skipErrors_bad_after F l' he, ?_⟩
            show (lpull b (srcOf text file (g + 1) suf)).2.errs ≠ []
            unfold lpull srcOf
            rw [hscan]
            simp [hb]
          · left
            have hle : lpull b (srcOf text file (g + 1) suf) =
                (some (conv text file t), srcOf text file g rest) := by
              unfold lpull srcOf
              rw [hscan]
              simp [hb]
            rw [skipErrors_token F l' _ htok (conv_code_ne_error text file t), hle]
            obtain ⟨a, ha, hal⟩ := suffix_of_append_eq pre suf pre' rest (ht.symm.trans ht') hlen
            refine ⟨rfl, Or.inl ⟨pre', rest, g, ht', hg2, ?_, by omega, rfl⟩⟩
            rw [ha] at hnl
            exact hnl.suffix
    · -- both are at the end
      obtain ⟨l', hl'⟩ : ∃ l', l' = ({ l with inPattern := b } : Lexer) := ⟨_, rfl⟩
      rw [← hl']
      have hi : l'.items = [] := by rw [hl']; exact hr.items
      have hs' : l'.state = .done := by rw [hl']; exact hst
      have hnt : nextToken l' = (none, l') := by
        unfold nextToken
        exact nextTokenLoop_done _ l' hi hs'
      left
      rw [skipErrors_none F l' (by rw [hnt]), hnt]
      have hlist : listSource.pull b s = lpull b s := rfl
      rw [hlist, hs]
      refine ⟨rfl, Or.inr ⟨hs', ?_, rfl⟩⟩
      rw [hl']
      exact ⟨hr.items, hr.errout, hr.errcnt, hr.fault, hr.file⟩

end

/-! ## the text the lexer works on -/

/-- `newLexer`: a line feed is appended unless the text is empty or ends in one -/
def normText (text : List Char) : List Char :=
  if text = [] ∨ text.getLast? = some '\n' then text else text ++ ['\n']

theorem encChar_getLast (c : Char) : (encChar c).getLast? = some 10 ↔ c = '\n' := by
  constructor
  · intro h
    have hm : (10 : UInt8) ∈ encChar c := List.mem_of_getLast? h
    have := (mem_encChar_ascii c 10 (by decide) hm).2
    exact char_eq_of_toNat_eq c '\n' (by rw [this]; decide)
  · intro h; rw [h]; decide

theorem enc_getLast : ∀ (text : List Char), (encodeChars text).getLast? = some 10 ↔ text.getLast? = some '\n' := by
  intro text
  induction text with
  | nil => simp [encodeChars]
  | cons c r ih =>
    rw [encodeChars_cons]
    cases r with
    | nil =>
      rw [encodeChars_nil, List.append_nil]
      simp only [List.getLast?_singleton, Option.some.injEq]
      exact encChar_getLast c
    | cons d r' =>
      have hne : encodeChars (d :: r') ≠ [] := by
        intro h; exact absurd (encodeChars_eq_nil _ h) (by simp)
      rw [List.getLast?_append]
      cases hl : (encodeChars (d :: r')).getLast? with
      | none => exact absurd (List.getLast?_eq_none_iff.mp hl) hne
      | some x =>
        simp only [Option.some_or]
        rw [← hl, ih]
        simp [List.getLast?_cons_cons]

theorem newLexer_enc (text : List Char) (file : List UInt8) :
    newLexer (encodeChars text) file =
      { errout := [], errcnt := 0, file := file, before := [], rest := encodeChars (normText text), start := 0,
        line := 1, col := 0, inPattern := false, items := [], tcol := 0, scol := 0, sline := 0, state := .ground,
        width := 0, fault := .none } := by
  unfold newLexer normText
  by_cases hnil : text = []
  · subst hnil; simp [encodeChars]
  · have hlen : (encodeChars text).length > 0 := by
      cases hl : (encodeChars text).length with
      | zero => exact absurd (encodeChars_eq_nil text (List.eq_nil_of_length_eq_zero hl)) hnil
      | succ n => omega
    by_cases hlast : text.getLast? = some '\n'
    · have : (encodeChars text).getLast? = some 10 := (enc_getLast text).2 hlast
      simp [this, hlast]
    · have : ¬ (encodeChars text).getLast? = some 10 := fun h => hlast ((enc_getLast text).1 h)
      simp only [hnil, hlast, or_self, if_false]
      have hcond : (decide ((encodeChars text).length > 0) && (encodeChars text).getLast? != some 10) = true := by
        simp [hlen, this]
      simp only [hcond, if_true]
      rw [encodeChars_append]
      rfl

theorem normText_endsNL (text : List Char) : EndsNL (normText text) := by
  unfold normText EndsNL
  split
  · rename_i h; exact h
  · right; simp

theorem parse_norm (text : List Char) : parse (normText text) = parse text := by
  unfold normText; split
  · rfl
  · exact Goyang.Lemmas.Newline.parse_nl text

theorem admissible_norm (text : List Char) : Admissible (normText text) = Admissible text := by
  unfold normText; split
  · rfl
  · exact Goyang.Lemmas.Newline.admissible_nl text

theorem normText_length (text : List Char) : (normText text).length ≤ text.length + 1 := by
  unfold normText; split <;> simp

/-! ## admissibility as far as the proof needs it -/

open Goyang.Lemmas.QStr in
theorem okTok_of_not_excluded (text : List Char) (t : PTok) (h : tokExcluded text t = false) : okTok t := by
  obtain ⟨tok, off⟩ := t
  cases tok with
  | dq raw =>
    show noEscBlankEnd raw
    simp only [tokExcluded, dqExcluded, Bool.or_eq_false_iff] at h
    obtain ⟨⟨_, h2⟩, _⟩ := h
    intro x hx q hq
    rw [List.any_eq_false] at h2
    have := h2 x hx
    rw [hq] at this
    simpa using this
  | semi => trivial
  | lbrace => trivial
  | rbrace => trivial
  | unq s => trivial
  | sq s => trivial

theorem scanAll_length (n : Nat) : ∀ (f : Nat) (cs : List Char), (scanAll n f cs).1.length ≤ cs.length := by
  intro f
  induction f with
  | zero => intro cs; simp [scanAll]
  | succ f ih =>
    intro cs
    unfold scanAll
    cases hs : specNext n cs with
    | none => simp
    | some o =>
      cases o with
      | none => simp
      | some p =>
        obtain ⟨t, r⟩ := p
        simp only [List.length_cons]
        have := (specNext_lt n cs t r hs).1
        have := ih r
        omega

/-! ## (e) -/

/-- **(e)** for every Unicode text that contains none of the excluded constructs: the parser model
returns a forest exactly when the reference reader does, and then it is the reference reader's
forest, encoded -/
theorem parseText_ok_iff (file : List UInt8) (text : List Char) (hadm : Admissible text = true)
    (forest : List Statement) :
    parseText file (encodeChars text) = .ok forest ↔
      ∃ ss, parse text = some ss ∧ forest = encStmts file ss := by
  unfold parseText
  rw [newLexer_enc]
  obtain ⟨t', ht'⟩ : ∃ t', t' = normText text := ⟨_, rfl⟩
  rw [← ht']
  have hR : R t' file
      { errout := [], errcnt := 0, file := file, before := [], rest := encodeChars t', start := 0,
        line := 1, col := 0, inPattern := false, items := [], tcol := 0, scol := 0, sline := 0, state := .ground,
        width := 0, fault := .none } (srcOf t' file (t'.length + 1) t') := by
    left
    refine ⟨[], t', t'.length + 1, rfl, ⟨⟨rfl, rfl, rfl⟩, ?_, ⟨rfl, rfl, rfl, rfl, rfl⟩, rfl⟩,
      by rw [ht']; exact normText_endsNL text, Nat.le_refl _, rfl⟩
    exact Pos.posN ⟨rfl, rfl⟩ _
  rw [parseWith_sim (sim t' file) lexSource_mono listSource_mono _ _ _ hR forest]
  have hparse : parse t' = parse text := by rw [ht']; exact parse_norm text
  have hadm' : Admissible t' = true := by rw [ht', admissible_norm]; exact hadm
  rw [← hparse]
  have htok := tokensAux_scanAll t'.length (t'.length + 1) t'
  have hlen := scanAll_length t'.length (t'.length + 1) t'
  have hfuel : (scanAll t'.length (t'.length + 1) t').1.length + 2 ≤ parseFuel (encodeChars text).length := by
    unfold parseFuel
    have h1 := normText_length text
    rw [← ht'] at h1
    have h2 := encodeChars_length_ge text
    omega
  unfold srcOf
  cases hok : (scanAll t'.length (t'.length + 1) t').2 with
  | true =>
    rw [hok] at htok
    simp only [if_true] at htok ⊢
    have htz : tokenize t' = some (scanAll t'.length (t'.length + 1) t').1 := htok
    have hall : ∀ x ∈ (scanAll t'.length (t'.length + 1) t').1, okTok x := by
      intro x hx
      unfold Admissible at hadm'
      rw [htz] at hadm'
      simp only [List.all_eq_true, Bool.not_eq_eq_eq_not, Bool.not_true] at hadm'
      exact okTok_of_not_excluded t' x (hadm' x hx)
    rw [parse_list t' file _ none _ hfuel hall forest]
    unfold parse
    rw [htz]
    simp
  | false =>
    rw [hok] at htok
    simp only [Bool.false_eq_true, if_false] at htok ⊢
    have htz : tokenize t' = none := htok
    constructor
    · intro h; exact absurd h (parse_list_fail t' file _ dummyErr _ forest)
    · rintro ⟨ss, hss, _⟩
      unfold parse at hss
      rw [htz] at hss
      cases hss

end Goyang.Lemmas.Compose
