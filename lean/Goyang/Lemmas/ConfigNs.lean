import Goyang.Spec.ConfigNs
/-
Helper lemmas for C12 (Props/C12.lean): the model's accumulator walks (`readOnlyAt`, `stampAt`)
against the declarative readings of Spec/ConfigNs.lean, what `merge` / `updateAt` / `fixChoice` do
to children, stamps and config inheritance.
-/
namespace Goyang.Lemmas.ConfigNs
open Goyang.Model Goyang.Spec.ConfigNs

/-! ### derived `==` on the small enumerations is equality -/

instance : LawfulBEq Tri where
  eq_of_beq := by intro a b h; cases a <;> cases b <;> first | rfl | cases h
  rfl := by intro a; cases a <;> rfl

instance : LawfulBEq Kind where
  eq_of_beq := by intro a b h; cases a <;> cases b <;> first | rfl | cases h
  rfl := by intro a; cases a <;> rfl

theorem tri_beq (a b : Tri) : (a == b) = decide (a = b) := by cases a <;> cases b <;> rfl
theorem kind_beq (a b : Kind) : (a == b) = decide (a = b) := by cases a <;> cases b <;> rfl

/-! ### the step function -/

theorem next_child (e : Entry) (k : String) : next e (.child k) = e.child? k := rfl
theorem next_input (e : Entry) : next e .input = e.inp.head? := rfl
theorem next_output (e : Entry) : next e .output = e.out.head? := rfl

theorem getAt_cons (e : Entry) (s : Step) (p : Path) :
    e.getAt (s :: p) = (next e s).bind (·.getAt p) := by
  cases s <;> rfl

theorem getAt_append (e : Entry) (p q : Path) :
    e.getAt (p ++ q) = (e.getAt p).bind (·.getAt q) := by
  induction p generalizing e with
  | nil => simp [Entry.getAt]
  | cons s p ih =>
    rw [List.cons_append, getAt_cons, getAt_cons]
    cases next e s with
    | none => rfl
    | some c => simp [ih]

/-! ### (a) read-only -/

/-- The nearest decisive node decides, `inh` when there is none. -/
def settle (cs : List CK) (inh : Bool) : Bool := ((cs.reverse.find? decisive).map verdict).getD inh

theorem settle_nil (inh : Bool) : settle [] inh = inh := rfl

theorem settle_cons (c : CK) (cs : List CK) (inh : Bool) :
    settle (c :: cs) inh = settle cs (if decisive c then verdict c else inh) := by
  unfold settle
  rw [List.reverse_cons, List.find?_append]
  cases h : cs.reverse.find? decisive with
  | some x => simp
  | none =>
    by_cases hd : decisive c <;> simp [List.find?, hd]

theorem readOnlyExact_eq_settle (cs : List CK) : readOnlyExact cs = settle cs false := rfl

/-- What `ReadOnly()` answers at one node, given the parent's answer. -/
theorem here_eq (e : Entry) (inh : Bool) :
    (if e.d.kind == .output then true
      else match e.d.config with
        | .unset => inh
        | .true_ => false
        | .false_ => true) = (if decisive (ck e) then verdict (ck e) else inh) := by
  unfold decisive verdict ck
  by_cases hk : e.d.kind = .output
  · simp [hk]
  · cases hc : e.d.config <;> simp [hk]

theorem readOnlyGo_eq (e : Entry) (p : Path) (inh : Bool) :
    Entry.readOnlyAt.go e p inh = settle (configsAlong e p) inh := by
  induction p generalizing e inh with
  | nil =>
    unfold Entry.readOnlyAt.go configsAlong
    rw [settle_cons, settle_nil]; exact here_eq e inh
  | cons s rest ih =>
    unfold Entry.readOnlyAt.go configsAlong
    rw [settle_cons, ← here_eq e inh]
    cases s with
    | child k => simp only [next]; cases e.child? k <;> simp [settle_nil, ih] <;> cases e.d.config <;> rfl
    | input => simp only [next]; cases e.inp.head? <;> simp [settle_nil, ih] <;> cases e.d.config <;> rfl
    | output => simp only [next]; cases e.out.head? <;> simp [settle_nil, ih] <;> cases e.d.config <;> rfl

/-- The model's `readOnlyAt` is "the nearest decisive node decides". -/
theorem readOnlyAt_exact (root : Entry) (p : Path) :
    root.readOnlyAt p = readOnlyExact (configsAlong root p) := by
  unfold Entry.readOnlyAt
  exact readOnlyGo_eq root p false

/-! ### the two readings of the read-only rule, and the rule against what the code computes -/

theorem split_reverse {α} {cs as bs : List α} {c : α} (h : cs.reverse = as ++ c :: bs) :
    cs = bs.reverse ++ c :: as.reverse := by
  have := congrArg List.reverse h
  simpa using this

theorem reverse_split {α} {cs pre post : List α} {c : α} (h : cs = pre ++ c :: post) :
    cs.reverse = post.reverse ++ c :: pre.reverse := by
  subst h; simp

theorem nearestExplicit_false_iff (cs : List CK) :
    nearestExplicit cs = some .false_ ↔
      ∃ pre c post, cs = pre ++ c :: post ∧ c.1 = .false_ ∧ ∀ y ∈ post, y.1 = .unset := by
  unfold nearestExplicit
  constructor
  · intro h
    cases hf : cs.reverse.find? (·.1 != .unset) with
    | none => simp [hf] at h
    | some c =>
      rw [hf] at h
      simp only [Option.map_some, Option.some.injEq] at h
      obtain ⟨_, as, bs, hsplit, hall⟩ := List.find?_eq_some_iff_append.mp hf
      refine ⟨bs.reverse, c, as.reverse, split_reverse hsplit, h, ?_⟩
      intro y hy
      have := hall y (List.mem_reverse.mp hy)
      simpa using this
  · rintro ⟨pre, c, post, hcs, hc, hpost⟩
    have hf : cs.reverse.find? (·.1 != .unset) = some c := by
      rw [List.find?_eq_some_iff_append]
      refine ⟨by simp [hc], post.reverse, pre.reverse, reverse_split hcs, ?_⟩
      intro a ha
      simp [hpost a (List.mem_reverse.mp ha)]
    simp [hf, hc]

theorem inOutput_iff (cs : List CK) : inOutput cs = true ↔ ∃ c ∈ cs, c.2 = .output := by
  unfold inOutput
  simp [List.any_eq_true]

/-- The executable rule and the sentence with the decomposition written out say the same. -/
theorem readOnly_iff (cs : List CK) : readOnly cs = true ↔ ReadOnly cs := by
  unfold readOnly ReadOnly
  rw [Bool.or_eq_true, inOutput_iff, ← nearestExplicit_false_iff]
  simp

/-- No config statement and no output on the path: read-write. -/
theorem readOnly_none (cs : List CK) (h : ∀ c ∈ cs, c.1 = .unset ∧ c.2 ≠ .output) : readOnly cs = false := by
  cases hr : readOnly cs with
  | false => rfl
  | true =>
    rcases (readOnly_iff cs).mp hr with ⟨pre, c, post, hcs, hc, _⟩ | ⟨c, hc, ho⟩
    · have := (h c (by simp [hcs])).1
      rw [hc] at this; cases this
    · exact absurd ho (h c hc).2

/-- On reversed lists (nearest node first): the property's rule and the code's rule agree when
no output has a `config true` nearer to the node. -/
theorem rules_agree_rev (r : List CK)
    (h : ∀ a c b, r = a ++ c :: b → c.2 = .output → ∀ y ∈ a, y.1 ≠ .true_) :
    (((r.find? (·.1 != .unset)).map (·.1)) == some .false_ || r.any (·.2 == .output)) =
      ((r.find? decisive).map verdict).getD false := by
  induction r with
  | nil => rfl
  | cons x r ih =>
    have h' : ∀ a c b, r = a ++ c :: b → c.2 = .output → ∀ y ∈ a, y.1 ≠ .true_ := by
      intro a c b hr hc y hy
      exact h (x :: a) c b (by simp [hr]) hc y (List.mem_cons_of_mem _ hy)
    have ih := ih h'
    by_cases ho : x.2 = .output
    · simp [List.find?, decisive, verdict, ho]
    · cases hx : x.1 with
      | false_ => simp [List.find?, decisive, verdict, ho, hx, bne, tri_beq, kind_beq]
      | true_ =>
        have hno : r.any (·.2 == .output) = false := by
          rw [Bool.eq_false_iff]
          intro hany
          obtain ⟨c, hc, hco⟩ := List.any_eq_true.mp hany
          obtain ⟨a, b, hab⟩ := List.append_of_mem hc
          exact h (x :: a) c b (by simp [hab]) (by simpa using hco) x (by simp) hx
        simp only [List.any_cons, hno]
        simp [List.find?, decisive, verdict, ho, hx, bne, tri_beq, kind_beq]
      | unset =>
        simpa [List.find?, decisive, verdict, ho, hx, bne, tri_beq, kind_beq] using ih

/-- Under the property's exclusion the property's rule is what the code computes. -/
theorem readOnly_eq_exact (cs : List CK) (h : NoConfigTrueBelowOutput cs) :
    readOnly cs = readOnlyExact cs := by
  unfold readOnly readOnlyExact nearestExplicit inOutput
  have := rules_agree_rev cs.reverse (by
    intro a c b hr hc y hy
    exact h b.reverse c a.reverse (split_reverse hr) hc y (List.mem_reverse.mpr hy))
  simpa using this

/-! ### `configsAlong` really lists the nodes on the path -/

theorem configsAlong_getElem? (e : Entry) (p : Path) (h : (e.getAt p).isSome) (i : Nat) (hi : i ≤ p.length) :
    (configsAlong e p)[i]? = (e.getAt (p.take i)).map ck := by
  induction p generalizing e i with
  | nil =>
    have : i = 0 := by simpa using hi
    subst this; simp [configsAlong, Entry.getAt]
  | cons s rest ih =>
    cases i with
    | zero => simp [configsAlong, Entry.getAt]
    | succ i =>
      rw [getAt_cons] at h
      unfold configsAlong
      rw [List.take_succ_cons, getAt_cons, List.getElem?_cons_succ]
      cases hn : next e s with
      | none => simp [hn] at h
      | some c =>
        simp only [hn, Option.bind_some] at h ⊢
        exact ih c h i (by simpa using hi)

theorem configsAlong_length (e : Entry) (p : Path) (h : (e.getAt p).isSome) :
    (configsAlong e p).length = p.length + 1 := by
  induction p generalizing e with
  | nil => simp [configsAlong]
  | cons s rest ih =>
    rw [getAt_cons] at h
    unfold configsAlong
    cases hn : next e s with
    | none => simp [hn] at h
    | some c =>
      simp only [hn, Option.bind_some] at h
      simp [ih c h]

/-! ### (b) stamps: the accumulator walk is "the deepest graft root decides" -/

theorem deepestGraft_cons (x : Option String) (l : List (Option String)) :
    deepestGraft (x :: l) = (deepestGraft l).or x := by
  unfold deepestGraft
  rw [List.reverse_cons, List.findSome?_append]
  cases x <;> simp [List.findSome?]

theorem stampGo_eq (e : Entry) (p : Path) (acc : Option String) :
    Entry.stampAt.go e p acc = (deepestGraft (stampsAlong e p)).or acc := by
  induction p generalizing e acc with
  | nil => unfold Entry.stampAt.go stampsAlong; simp [deepestGraft]
  | cons s rest ih =>
    unfold Entry.stampAt.go stampsAlong
    cases s with
    | child k =>
      simp only [next]
      cases e.child? k with
      | none => simp [deepestGraft]
      | some c => simp only [ih, deepestGraft_cons]; cases c.d.ns <;> cases deepestGraft (stampsAlong c rest) <;> rfl
    | input =>
      simp only [next]
      cases e.inp.head? with
      | none => simp [deepestGraft]
      | some c => simp only [ih, deepestGraft_cons]; cases c.d.ns <;> cases deepestGraft (stampsAlong c rest) <;> rfl
    | output =>
      simp only [next]
      cases e.out.head? with
      | none => simp [deepestGraft]
      | some c => simp only [ih, deepestGraft_cons]; cases c.d.ns <;> cases deepestGraft (stampsAlong c rest) <;> rfl

theorem stampAt_eq (root : Entry) (p : Path) : root.stampAt p = deepestGraft (stampsAlong root p) := by
  unfold Entry.stampAt
  rw [stampGo_eq]; simp

/-- One step of the walk. -/
theorem stampGo_cons (e : Entry) (s : Step) (p : Path) (acc : Option String) :
    Entry.stampAt.go e (s :: p) acc =
      match next e s with
      | some c => Entry.stampAt.go c p (c.d.ns.or acc)
      | none => acc := by
  rw [Entry.stampAt.go.eq_def]
  cases s with
  | child k => simp only [next]; cases e.child? k with
    | none => rfl
    | some c => simp only; cases c.d.ns <;> rfl
  | input => simp only [next]; cases e.inp.head? with
    | none => rfl
    | some c => simp only; cases c.d.ns <;> rfl
  | output => simp only [next]; cases e.out.head? with
    | none => rfl
    | some c => simp only; cases c.d.ns <;> rfl

theorem stampGo_nil (e : Entry) (acc : Option String) : Entry.stampAt.go e [] acc = acc := by
  rw [Entry.stampAt.go.eq_def]

theorem stampGo_append (e : Entry) (p q : Path) (acc : Option String) (te : Entry) (h : e.getAt p = some te) :
    Entry.stampAt.go e (p ++ q) acc = Entry.stampAt.go te q (Entry.stampAt.go e p acc) := by
  induction p generalizing e acc with
  | nil => simp [Entry.getAt] at h; subst h; simp [stampGo_nil]
  | cons s p ih =>
    rw [getAt_cons] at h
    rw [List.cons_append, stampGo_cons, stampGo_cons]
    cases hn : next e s with
    | none => simp [hn] at h
    | some c =>
      simp only [hn, Option.bind_some] at h ⊢
      exact ih c _ h

theorem namespaceAt_eq_spec (reg : Registry) (f : Forest) (loc : Loc) :
    namespaceAt reg f loc = namespaceOf reg f loc := by
  unfold namespaceAt namespaceOf ownerNs
  cases f.tree? loc.1 with
  | none => rfl
  | some root =>
    simp only [stampAt_eq]
    cases deepestGraft (stampsAlong root loc.2) with
    | some n => rfl
    | none =>
      simp only
      cases reg.byId loc.1 with
      | none => rfl
      | some m => simp only; cases reg.owner m <;> rfl

/-- The root of a tree reports its module's (owner's) namespace: this is what an augment stamps. -/
theorem namespaceAt_root (reg : Registry) (f : Forest) (id : Nat) (root : Entry) (h : f.tree? id = some root) :
    namespaceAt reg f (id, []) = ownerNs reg id := by
  rw [namespaceAt_eq_spec]; unfold namespaceOf
  simp [h, stampsAlong, deepestGraft]

/-! ### stamp-free trees -/

theorem noStampL_iff (l : List Entry) : noStampL l = true ↔ ∀ x ∈ l, noStamp x = true := by
  induction l with
  | nil => simp [noStampL]
  | cons a l ih => simp [noStampL, ih]

theorem noStamp_iff (e : Entry) : noStamp e = true ↔ e.d.ns = none ∧ noStampBelow e = true := by
  cases e with
  | mk d c i o => simp [noStamp, noStampBelow, Entry.d, Entry.dir, Entry.inp, Entry.out, Bool.and_assoc]

theorem next_mem (e c : Entry) (s : Step) (h : next e s = some c) : c ∈ e.dir ∨ c ∈ e.inp ∨ c ∈ e.out := by
  cases s with
  | child k => exact Or.inl (List.mem_of_find?_eq_some h)
  | input => exact Or.inr (Or.inl (List.mem_of_mem_head? h))
  | output => exact Or.inr (Or.inr (List.mem_of_mem_head? h))

theorem noStamp_next (e c : Entry) (s : Step) (hb : noStampBelow e = true) (h : next e s = some c) :
    noStamp c = true := by
  unfold noStampBelow at hb
  simp only [Bool.and_eq_true] at hb
  rcases next_mem e c s h with hm | hm | hm
  · exact (noStampL_iff _).mp hb.1.1 c hm
  · exact (noStampL_iff _).mp hb.1.2 c hm
  · exact (noStampL_iff _).mp hb.2 c hm

/-- Below a node under which nothing is stamped, the walk finds nothing new. -/
theorem stampGo_noStampBelow (e : Entry) (p : Path) (acc : Option String) (h : noStampBelow e = true) :
    Entry.stampAt.go e p acc = acc := by
  induction p generalizing e acc with
  | nil => exact stampGo_nil e acc
  | cons s p ih =>
    rw [stampGo_cons]
    cases hn : next e s with
    | none => rfl
    | some c =>
      have hc := (noStamp_iff c).mp (noStamp_next e c s h hn)
      simp only [hc.1, Option.none_or]
      exact ih c acc hc.2

/-! ### what `merge` does to the receiver -/

/-- The part of a node's data that config inheritance and namespace attribution read. -/
def sameCN (a b : Entry) : Prop :=
  a.d.name = b.d.name ∧ a.d.config = b.d.config ∧ a.d.kind = b.d.kind ∧ a.d.ns = b.d.ns

theorem sameCN_refl (a : Entry) : sameCN a a := ⟨rfl, rfl, rfl, rfl⟩

@[simp] theorem addErr_dir (e : Entry) (x : Err) : (e.addErr x).dir = e.dir := by cases e; rfl
@[simp] theorem addErr_inp (e : Entry) (x : Err) : (e.addErr x).inp = e.inp := by cases e; rfl
@[simp] theorem addErr_out (e : Entry) (x : Err) : (e.addErr x).out = e.out := by cases e; rfl
@[simp] theorem addErr_child? (e : Entry) (x : Err) (k : String) : (e.addErr x).child? k = e.child? k := by
  cases e; rfl
theorem addErr_sameCN (e : Entry) (x : Err) : sameCN (e.addErr x) e := by cases e; exact ⟨rfl, rfl, rfl, rfl⟩
@[simp] theorem addErrs_dir (e : Entry) (x : List Err) : (e.addErrs x).dir = e.dir := by cases e; rfl
@[simp] theorem addErrs_inp (e : Entry) (x : List Err) : (e.addErrs x).inp = e.inp := by cases e; rfl
@[simp] theorem addErrs_out (e : Entry) (x : List Err) : (e.addErrs x).out = e.out := by cases e; rfl
@[simp] theorem addErrs_child? (e : Entry) (x : List Err) (k : String) : (e.addErrs x).child? k = e.child? k := by
  cases e; rfl
theorem addErrs_sameCN (e : Entry) (x : List Err) : sameCN (e.addErrs x) e := by cases e; exact ⟨rfl, rfl, rfl, rfl⟩
@[simp] theorem withDir_dir (e : Entry) (c : List Entry) : (e.withDir c).dir = c := by cases e; rfl
@[simp] theorem withDir_inp (e : Entry) (c : List Entry) : (e.withDir c).inp = e.inp := by cases e; rfl
@[simp] theorem withDir_out (e : Entry) (c : List Entry) : (e.withDir c).out = e.out := by cases e; rfl
@[simp] theorem withDir_d (e : Entry) (c : List Entry) : (e.withDir c).d = e.d := by cases e; rfl
theorem withDir_sameCN (e : Entry) (c : List Entry) : sameCN (e.withDir c) e := by cases e; exact ⟨rfl, rfl, rfl, rfl⟩
@[simp] theorem importErrors_dir (e c : Entry) : (e.importErrors c).dir = e.dir := by simp [Entry.importErrors]
@[simp] theorem importErrors_inp (e c : Entry) : (e.importErrors c).inp = e.inp := by simp [Entry.importErrors]
@[simp] theorem importErrors_out (e c : Entry) : (e.importErrors c).out = e.out := by simp [Entry.importErrors]
@[simp] theorem importErrors_child? (e c : Entry) (k : String) : (e.importErrors c).child? k = e.child? k := by
  simp [Entry.importErrors]
theorem importErrors_sameCN (e c : Entry) : sameCN (e.importErrors c) e := addErrs_sameCN _ _

theorem sameCN_trans {a b c : Entry} (h1 : sameCN a b) (h2 : sameCN b c) : sameCN a c :=
  ⟨h1.1.trans h2.1, h1.2.1.trans h2.2.1, h1.2.2.1.trans h2.2.2.1, h1.2.2.2.trans h2.2.2.2⟩

@[simp] theorem stamp_name (ns : Option String) (v : Entry) : (stamp ns v).name = v.name := by
  cases ns <;> cases v <;> rfl
@[simp] theorem stamp_dir (ns : Option String) (v : Entry) : (stamp ns v).dir = v.dir := by
  cases ns <;> cases v <;> rfl
@[simp] theorem stamp_inp (ns : Option String) (v : Entry) : (stamp ns v).inp = v.inp := by
  cases ns <;> cases v <;> rfl
@[simp] theorem stamp_out (ns : Option String) (v : Entry) : (stamp ns v).out = v.out := by
  cases ns <;> cases v <;> rfl
theorem stamp_some_ns (n : String) (v : Entry) : (stamp (some n) v).d.ns = some n := by cases v; rfl
@[simp] theorem stamp_none (v : Entry) : stamp none v = v := rfl
theorem stamp_config (ns : Option String) (v : Entry) : (stamp ns v).d.config = v.d.config := by
  cases ns <;> cases v <;> rfl
theorem stamp_kind (ns : Option String) (v : Entry) : (stamp ns v).d.kind = v.d.kind := by
  cases ns <;> cases v <;> rfl

/-- One iteration of `merge`'s loop. -/
def mstep (ns : Option String) (pos : Stmt) (e v : Entry) : Entry :=
  match e.child? (stamp ns v).name with
  | some _ => e.addErr (Err.at_ pos "duplicate-node")
  | none => e.withDir (e.dir ++ [stamp ns v])

theorem merge_eq (e : Entry) (ns : Option String) (oe : Entry) :
    e.merge ns oe = oe.dir.foldl (mstep ns oe.d.node) (e.importErrors oe) := by
  unfold Entry.merge mstep stamp
  cases ns <;> rfl

theorem mstep_sameCN (ns : Option String) (pos : Stmt) (e v : Entry) : sameCN (mstep ns pos e v) e := by
  unfold mstep; split
  · exact addErr_sameCN _ _
  · exact withDir_sameCN _ _

theorem mstep_inp (ns : Option String) (pos : Stmt) (e v : Entry) : (mstep ns pos e v).inp = e.inp := by
  unfold mstep; split <;> simp
theorem mstep_out (ns : Option String) (pos : Stmt) (e v : Entry) : (mstep ns pos e v).out = e.out := by
  unfold mstep; split <;> simp

theorem child?_withDir_append (e : Entry) (v : Entry) (k : String) :
    (e.withDir (e.dir ++ [v])).child? k = (e.child? k).or (if v.name == k then some v else none) := by
  unfold Entry.child?
  rw [withDir_dir, List.find?_append]
  simp [List.find?]
  split <;> simp_all

theorem foldl_mstep_child? (ns : Option String) (pos : Stmt) (l : List Entry) (e : Entry) (k : String) :
    (l.foldl (mstep ns pos) e).child? k =
      match e.child? k with
      | some c => some c
      | none => (l.find? (·.name == k)).map (stamp ns) := by
  induction l generalizing e with
  | nil => simp; cases e.child? k <;> rfl
  | cons v l ih =>
    rw [List.foldl_cons, ih]
    unfold mstep
    rw [stamp_name]
    cases hv : e.child? v.name with
    | some x =>
      simp only [addErr_child?]
      cases hk : e.child? k with
      | some c => rfl
      | none =>
        have : (v.name == k) = false := by
          rw [Bool.eq_false_iff]; intro h
          have := eq_of_beq h
          rw [this, hk] at hv; cases hv
        simp [List.find?, this]
    | none =>
      simp only [child?_withDir_append, stamp_name]
      cases hk : e.child? k with
      | some c => simp
      | none =>
        by_cases hvk : (v.name == k) = true
        · simp [List.find?, hvk]
        · have : (v.name == k) = false := by simpa using hvk
          simp [List.find?, this]

/-- The children of the receiver after `merge`: its own, then the (stamped) children of the
merged entry whose names were free. -/
theorem merge_child? (e : Entry) (ns : Option String) (oe : Entry) (k : String) :
    (e.merge ns oe).child? k =
      match e.child? k with
      | some c => some c
      | none => (oe.child? k).map (stamp ns) := by
  rw [merge_eq, foldl_mstep_child?, importErrors_child?]; rfl

theorem foldl_mstep_keep (ns : Option String) (pos : Stmt) (l : List Entry) (e : Entry) :
    sameCN (l.foldl (mstep ns pos) e) e ∧ (l.foldl (mstep ns pos) e).inp = e.inp ∧
      (l.foldl (mstep ns pos) e).out = e.out := by
  induction l generalizing e with
  | nil => exact ⟨sameCN_refl e, rfl, rfl⟩
  | cons v l ih =>
    rw [List.foldl_cons]
    obtain ⟨h1, h2, h3⟩ := ih (mstep ns pos e v)
    exact ⟨sameCN_trans h1 (mstep_sameCN ..), h2.trans (mstep_inp ..), h3.trans (mstep_out ..)⟩

/-- `merge` leaves the receiver's own config, kind, name, stamp and rpc input/output alone. -/
theorem merge_keep (e : Entry) (ns : Option String) (oe : Entry) :
    sameCN (e.merge ns oe) e ∧ (e.merge ns oe).inp = e.inp ∧ (e.merge ns oe).out = e.out := by
  rw [merge_eq]
  obtain ⟨h1, h2, h3⟩ := foldl_mstep_keep ns oe.d.node oe.dir (e.importErrors oe)
  exact ⟨sameCN_trans h1 (importErrors_sameCN ..), by simpa using h2, by simpa using h3⟩

theorem merge_next (e : Entry) (ns : Option String) (oe : Entry) (s : Step) :
    next (e.merge ns oe) s =
      match s with
      | .child k => (match e.child? k with | some c => some c | none => (oe.child? k).map (stamp ns))
      | .input => next e .input
      | .output => next e .output := by
  cases s with
  | child k => exact merge_child? e ns oe k
  | input => simp [next, (merge_keep e ns oe).2.1]
  | output => simp [next, (merge_keep e ns oe).2.2]

/-! ### `updateAt` -/

theorem updateAt_nil (e : Entry) (g : Entry → Entry) : e.updateAt [] g = g e := by
  rw [Entry.updateAt]

theorem updateAt_sameCN (e : Entry) (p : Path) (g : Entry → Entry) (hg : ∀ x, sameCN (g x) x) :
    sameCN (e.updateAt p g) e := by
  cases p with
  | nil => rw [updateAt_nil]; exact hg e
  | cons s p =>
    cases e with
    | mk d c i o => cases s <;> (rw [Entry.updateAt]; exact ⟨rfl, rfl, rfl, rfl⟩)

theorem updateAt_name (e : Entry) (p : Path) (g : Entry → Entry) (hg : ∀ x, sameCN (g x) x) :
    (e.updateAt p g).name = e.name := (updateAt_sameCN e p g hg).1

/-- One step below an updated node: only the step towards the updated place sees a change. -/
theorem updateAt_next (e : Entry) (s : Step) (p : Path) (g : Entry → Entry) (hg : ∀ x, sameCN (g x) x)
    (s' : Step) :
    next (e.updateAt (s :: p) g) s' =
      if s' = s then (next e s).map (·.updateAt p g) else next e s' := by
  cases e with
  | mk d c i o =>
    cases s with
    | child k =>
      rw [Entry.updateAt]
      cases s' with
      | child k' =>
        simp only [next, Entry.child?, Entry.dir]
        rw [List.find?_map]
        have hcomp : ((fun x : Entry => x.name == k') ∘ fun x => if x.name == k then x.updateAt p g else x) =
            (fun x : Entry => x.name == k') := by
          funext x; simp only [Function.comp]
          split
          · rw [updateAt_name x p g hg]
          · rfl
        rw [hcomp]
        by_cases hk : k' = k
        · subst hk
          simp only [if_true]
          cases hf : c.find? (fun x => x.name == k') with
          | none => rfl
          | some x =>
            have : (x.name == k') = true := List.find?_some (p := fun x : Entry => x.name == k') hf
            have h2 : x.name = k' := eq_of_beq this
            simp [h2]
        · have hne : ¬ (Step.child k' = Step.child k) := by intro h; cases h; exact hk rfl
          simp only [hne, if_false]
          cases hf : c.find? (fun x => x.name == k') with
          | none => rfl
          | some x =>
            have h1 : (x.name == k') = true := List.find?_some (p := fun x : Entry => x.name == k') hf
            have : (x.name == k) = false := by
              rw [Bool.eq_false_iff]; intro h2
              exact hk ((eq_of_beq h1).symm.trans (eq_of_beq h2))
            have h3 : ¬ x.name = k := by intro h; simp [h] at this
            simp [h3]
      | input => simp [next, Entry.inp]
      | output => simp [next, Entry.out]
    | input =>
      rw [Entry.updateAt]
      cases s' with
      | child k' => simp [next, Entry.child?, Entry.dir]
      | input => simp [next, Entry.inp, List.head?_map]
      | output => simp [next, Entry.out]
    | output =>
      rw [Entry.updateAt]
      cases s' with
      | child k' => simp [next, Entry.child?, Entry.dir]
      | input => simp [next, Entry.inp]
      | output => simp [next, Entry.out, List.head?_map]

/-- The walk down to the updated place and on: stamps collected on the way are the old ones. -/
theorem stampGo_updateAt_through (e : Entry) (p q : Path) (g : Entry → Entry) (hg : ∀ x, sameCN (g x) x)
    (te : Entry) (h : e.getAt p = some te) (acc : Option String) :
    Entry.stampAt.go (e.updateAt p g) (p ++ q) acc = Entry.stampAt.go (g te) q (Entry.stampAt.go e p acc) := by
  induction p generalizing e acc with
  | nil =>
    simp only [Entry.getAt, Option.some.injEq] at h; subst h
    simp [updateAt_nil, stampGo_nil]
  | cons s p ih =>
    rw [getAt_cons] at h
    rw [List.cons_append, stampGo_cons, stampGo_cons, updateAt_next e s p g hg]
    cases hn : next e s with
    | none => simp [hn] at h
    | some c =>
      simp only [hn, Option.bind_some, if_true, Option.map_some] at h ⊢
      rw [(updateAt_sameCN c p g hg).2.2.2]
      exact ih c h _

/-- A walk that leaves the way to the updated place (or stops before reaching it) sees no change. -/
theorem stampGo_updateAt_off (e : Entry) (p q : Path) (g : Entry → Entry) (hg : ∀ x, sameCN (g x) x)
    (hoff : ¬ p <+: q) (acc : Option String) :
    Entry.stampAt.go (e.updateAt p g) q acc = Entry.stampAt.go e q acc := by
  induction p generalizing e q acc with
  | nil => exact absurd (List.nil_prefix) hoff
  | cons s p ih =>
    cases q with
    | nil => simp [stampGo_nil]
    | cons s' q =>
      rw [stampGo_cons, stampGo_cons, updateAt_next e s p g hg]
      by_cases hs : s' = s
      · subst hs
        simp only [if_true]
        cases hn : next e s' with
        | none => rfl
        | some c =>
          simp only [Option.map_some]
          rw [(updateAt_sameCN c p g hg).2.2.2]
          apply ih
          intro hpre
          exact hoff ((List.cons_prefix_cons).mpr ⟨rfl, hpre⟩)
      · simp only [hs, if_false]

theorem getAt_updateAt_through (e : Entry) (p q : Path) (g : Entry → Entry) (hg : ∀ x, sameCN (g x) x)
    (te : Entry) (h : e.getAt p = some te) :
    (e.updateAt p g).getAt (p ++ q) = (g te).getAt q := by
  induction p generalizing e with
  | nil =>
    simp only [Entry.getAt, Option.some.injEq] at h; subst h
    simp [updateAt_nil]
  | cons s p ih =>
    rw [getAt_cons] at h
    rw [List.cons_append, getAt_cons, updateAt_next e s p g hg]
    cases hn : next e s with
    | none => simp [hn] at h
    | some c =>
      simp only [hn, Option.bind_some, if_true, Option.map_some] at h ⊢
      exact ih c h

/-! ### graft: what an augment stamps, and what it leaves alone -/

theorem merge_sameCN (ns : Option String) (a : Entry) : ∀ x, sameCN (x.merge ns a) x :=
  fun x => (merge_keep x ns a).1

/-- The root of every grafted child carries the stamp. -/
theorem graft_root (root : Entry) (path : Path) (te a : Entry) (n k : String) (v : Entry)
    (h : root.getAt path = some te) (hfree : te.child? k = none) (hv : a.child? k = some v) :
    (root.updateAt path fun te => te.merge (some n) a).getAt (path ++ [.child k]) = some (stamp (some n) v) := by
  rw [getAt_updateAt_through root path _ _ (merge_sameCN _ a) te h, getAt_cons, merge_next]
  simp [hfree, hv, Entry.getAt]

/-- At and below a grafted child everything reports the stamp, as long as the grafted subtree
itself is stamp-free below its root. -/
theorem graft_new (root : Entry) (path : Path) (te a : Entry) (n k : String) (v : Entry) (r : Path)
    (h : root.getAt path = some te) (hfree : te.child? k = none) (hv : a.child? k = some v)
    (hns : noStampBelow v = true) :
    (root.updateAt path fun te => te.merge (some n) a).stampAt (path ++ .child k :: r) = some n := by
  unfold Entry.stampAt
  rw [stampGo_updateAt_through root path _ _ (merge_sameCN _ a) te h, stampGo_cons, merge_next]
  simp only [hfree, hv, Option.map_some]
  rw [stampGo_noStampBelow _ _ _ (by simpa [noStampBelow] using hns), stamp_some_ns]
  rfl

/-- Frame: a path that does not enter a grafted child sees the stamps it saw before. -/
theorem graft_frame (root : Entry) (path : Path) (te a : Entry) (ns : Option String) (q : Path)
    (h : root.getAt path = some te)
    (hq : ¬ ∃ k r, q = path ++ Step.child k :: r ∧ te.child? k = none ∧ (a.child? k).isSome) :
    (root.updateAt path fun te => te.merge ns a).stampAt q = root.stampAt q := by
  unfold Entry.stampAt
  by_cases hpre : path <+: q
  · obtain ⟨r, rfl⟩ := hpre
    rw [stampGo_updateAt_through root path _ _ (merge_sameCN _ a) te h, stampGo_append root path r none te h]
    cases r with
    | nil => simp [stampGo_nil]
    | cons s r =>
      rw [stampGo_cons, stampGo_cons, merge_next]
      cases s with
      | child k =>
        simp only [next]
        cases hk : te.child? k with
        | some c => rfl
        | none =>
          cases ha : a.child? k with
          | none => rfl
          | some v => exact absurd ⟨k, r, rfl, hk, by simp [ha]⟩ hq
      | input => rfl
      | output => rfl
  · exact stampGo_updateAt_off root path q _ (merge_sameCN _ a) hpre none

/-- `merge` without a namespace (uses, include) changes no stamp anywhere: the copied children
keep what they had (nothing, for grouping and submodule content), so they report the namespace
of the place they are used in. -/
theorem merge_none_stampGo (e oe : Entry) (s : Step) (r : Path) (acc : Option String) :
    Entry.stampAt.go (e.merge none oe) (s :: r) acc =
      match next e s with
      | some c => Entry.stampAt.go c r (c.d.ns.or acc)
      | none =>
        match s with
        | .child k => (match oe.child? k with | some v => Entry.stampAt.go v r (v.d.ns.or acc) | none => acc)
        | _ => acc := by
  rw [stampGo_cons, merge_next]
  cases s with
  | child k =>
    simp only [next]
    cases e.child? k with
    | some c => rfl
    | none => cases oe.child? k <;> rfl
  | input => rfl
  | output => rfl

/-! ### `FixChoice` -/

/-- What `wrapCases` does to one child. -/
def wrap1 (ce : Entry) : Entry :=
  if ce.d.kind == .case_ then ce
  else .mk { name := ce.d.name, kind := .case_, hasDir := true, config := ce.d.config, node := ce.d.node,
             nodeMod := ce.d.nodeMod, nodeKw := "case" } [ce] [] []

/-- The choice inserts cases (Go: `e.Kind == ChoiceEntry && len(e.Errors) == 0`). -/
def wraps (e : Entry) : Bool := e.d.kind == .choice && e.d.errors.isEmpty

theorem wrapCases_eq_map (l : List Entry) : wrapCases l = l.map wrap1 := by
  induction l with
  | nil => rfl
  | cons a l ih => rw [wrapCases, ih]; rfl

theorem fixChoiceL_eq_map (l : List Entry) : fixChoiceL l = l.map fixChoice := by
  induction l with
  | nil => rw [fixChoiceL]; rfl
  | cons a l ih => rw [fixChoiceL, ih]; rfl

theorem fixChoice_d (e : Entry) : (fixChoice e).d = e.d := by cases e; rw [fixChoice]; rfl
theorem fixChoice_name (e : Entry) : (fixChoice e).name = e.name := by
  unfold Entry.name; rw [fixChoice_d]
theorem fixChoice_inp (e : Entry) : (fixChoice e).inp = e.inp.map fixChoice := by
  cases e; rw [fixChoice]; simp only [Entry.inp, fixChoiceL_eq_map]
theorem fixChoice_out (e : Entry) : (fixChoice e).out = e.out.map fixChoice := by
  cases e; rw [fixChoice]; simp only [Entry.out, fixChoiceL_eq_map]
theorem fixChoice_dir (e : Entry) :
    (fixChoice e).dir = if wraps e then (e.dir.map fixChoice).map wrap1 else e.dir.map fixChoice := by
  cases e with
  | mk d c i o =>
    rw [fixChoice, fixChoiceL_eq_map, wrapCases_eq_map]
    simp only [Entry.dir, wraps, Entry.d]
    split <;> simp_all

theorem wrap1_name (e : Entry) : (wrap1 e).name = e.name := by
  unfold wrap1; split <;> rfl

theorem wrap1_of_case (e : Entry) (h : e.d.kind = .case_) : wrap1 e = e := by
  unfold wrap1; simp [h]

/-- The child named `k` after `FixChoice`. -/
theorem fixChoice_child? (e : Entry) (k : String) :
    (fixChoice e).child? k =
      (e.child? k).map fun x => if wraps e then wrap1 (fixChoice x) else fixChoice x := by
  unfold Entry.child?
  rw [fixChoice_dir]
  by_cases hw : wraps e = true
  · simp only [hw, if_true, List.map_map, List.find?_map]
    have : ((fun x : Entry => x.name == k) ∘ (wrap1 ∘ fixChoice)) = (fun x : Entry => x.name == k) := by
      funext x; simp [Function.comp, wrap1_name, fixChoice_name]
    rw [this]; rfl
  · have hw' : wraps e = false := by simpa using hw
    simp only [hw', Bool.false_eq_true, if_false, List.find?_map]
    have : ((fun x : Entry => x.name == k) ∘ fixChoice) = (fun x : Entry => x.name == k) := by
      funext x; simp [Function.comp, fixChoice_name]
    rw [this]

theorem fixChoice_next_input (e : Entry) : next (fixChoice e) .input = (next e .input).map fixChoice := by
  simp [next, fixChoice_inp, List.head?_map]
theorem fixChoice_next_output (e : Entry) : next (fixChoice e) .output = (next e .output).map fixChoice := by
  simp [next, fixChoice_out, List.head?_map]

theorem child?_name (e x : Entry) (k : String) (h : e.child? k = some x) : x.name = k :=
  eq_of_beq (List.find?_some (p := fun x : Entry => x.name == k) h)

/-- The inserted case: kind, no stamp, the member's config, the member as only child. -/
theorem wrap1_next (x : Entry) (h : x.d.kind ≠ .case_) :
    (wrap1 x).d.kind = .case_ ∧ (wrap1 x).d.ns = none ∧ (wrap1 x).d.config = x.d.config ∧
      next (wrap1 x) (.child x.name) = some x := by
  unfold wrap1
  simp only [kind_beq, h, decide_false, Bool.false_eq_true, if_false]
  refine ⟨rfl, rfl, rfl, ?_⟩
  simp [next, Entry.child?, Entry.dir]

theorem liftPath_nil (e : Entry) : liftPath e [] = [] := by rw [liftPath]

theorem liftPath_child (e : Entry) (k : String) (rest : Path) :
    liftPath e (.child k :: rest) =
      match e.child? k with
      | none => .child k :: rest
      | some x =>
        (if wraps e && x.d.kind != .case_ then [Step.child k, Step.child k] else [Step.child k]) ++ liftPath x rest := by
  rw [liftPath]; cases e.child? k <;> simp [wraps]

theorem liftPath_input (e : Entry) (rest : Path) :
    liftPath e (.input :: rest) = .input :: (match next e .input with | some x => liftPath x rest | none => rest) := by
  rw [liftPath]; rfl

theorem liftPath_output (e : Entry) (rest : Path) :
    liftPath e (.output :: rest) = .output :: (match next e .output with | some x => liftPath x rest | none => rest) := by
  rw [liftPath]; rfl

/-- Stamps seen along the translated path in the fixed tree are those seen along the original
path in the original tree: inserted cases carry no stamp. -/
theorem stampGo_fix (e : Entry) (p : Path) (acc : Option String) :
    Entry.stampAt.go (fixChoice e) (liftPath e p) acc = Entry.stampAt.go e p acc := by
  induction p generalizing e acc with
  | nil => rw [liftPath_nil, stampGo_nil, stampGo_nil]
  | cons s rest ih =>
    cases s with
    | child k =>
      rw [liftPath_child, stampGo_cons e]
      simp only [next]
      cases hx : e.child? k with
      | none =>
        simp only
        rw [stampGo_cons]; simp [next, fixChoice_child?, hx]
      | some x =>
        simp only
        have hname := child?_name e x k hx
        by_cases hw : (wraps e && x.d.kind != .case_) = true
        · have hwe : wraps e = true := by simp only [Bool.and_eq_true] at hw; exact hw.1
          have hxk : x.d.kind ≠ .case_ := by
            simp only [Bool.and_eq_true, bne_iff_ne] at hw; exact hw.2
          simp only [hw, if_true, List.cons_append, List.nil_append]
          have hfk : (fixChoice x).d.kind ≠ .case_ := by rw [fixChoice_d]; exact hxk
          obtain ⟨_, hns, _, hnext⟩ := wrap1_next (fixChoice x) hfk
          rw [stampGo_cons]
          simp only [next, fixChoice_child?, hx, Option.map_some, hwe, if_true]
          rw [stampGo_cons, hns]
          rw [fixChoice_name, hname] at hnext
          simp only [hnext, Option.none_or]
          rw [ih x, fixChoice_d]
        · have hw' : (wraps e && x.d.kind != .case_) = false := by simpa using hw
          simp only [hw', Bool.false_eq_true, if_false, List.cons_append, List.nil_append]
          rw [stampGo_cons]
          simp only [next, fixChoice_child?, hx, Option.map_some]
          have : (if wraps e = true then wrap1 (fixChoice x) else fixChoice x) = fixChoice x := by
            by_cases hwe : wraps e = true
            · simp only [hwe, if_true]
              apply wrap1_of_case
              rw [fixChoice_d]
              simp only [hwe, Bool.true_and, bne_eq_false_iff_eq] at hw'
              exact hw'
            · simp [hwe]
          rw [this, ih x, fixChoice_d]
    | input =>
      rw [liftPath_input, stampGo_cons, stampGo_cons e, fixChoice_next_input]
      cases next e .input with
      | none => rfl
      | some x => simp only [Option.map_some]; rw [ih x, fixChoice_d]
    | output =>
      rw [liftPath_output, stampGo_cons, stampGo_cons e, fixChoice_next_output]
      cases next e .output with
      | none => rfl
      | some x => simp only [Option.map_some]; rw [ih x, fixChoice_d]

theorem stampAt_fix (root : Entry) (p : Path) :
    (fixChoice root).stampAt (liftPath root p) = root.stampAt p := stampGo_fix root p none

/-- What `ReadOnly()` answers at node `e` when its parent answers `inh`. -/
def hereB (e : Entry) (inh : Bool) : Bool := if decisive (ck e) then verdict (ck e) else inh

theorem readOnlyGo_nil (e : Entry) (inh : Bool) : Entry.readOnlyAt.go e [] inh = hereB e inh := by
  rw [readOnlyGo_eq]; unfold configsAlong; rw [settle_cons, settle_nil]; rfl

theorem readOnlyGo_cons (e : Entry) (s : Step) (p : Path) (inh : Bool) :
    Entry.readOnlyAt.go e (s :: p) inh =
      match next e s with
      | some c => Entry.readOnlyAt.go c p (hereB e inh)
      | none => hereB e inh := by
  rw [readOnlyGo_eq]; unfold configsAlong; rw [settle_cons]
  cases next e s with
  | none => rfl
  | some c => simp only; rw [readOnlyGo_eq]; rfl

/-- `hereB` only reads config and kind. -/
theorem hereB_congr (a b : Entry) (h : a.d = b.d) (inh : Bool) : hereB a inh = hereB b inh := by
  unfold hereB ck; rw [h]

/-- The inserted case copies the member's config, so the member answers as it did before. -/
theorem hereB_wrap (x : Entry) (w : Entry) (hk : w.d.kind = .case_) (hc : w.d.config = x.d.config) (inh : Bool) :
    hereB x (hereB w inh) = hereB x inh := by
  unfold hereB decisive verdict ck
  simp only [hk, hc, kind_beq, tri_beq, bne]
  by_cases ho : x.d.kind = .output
  · simp [ho]
  · cases hx : x.d.config <;> simp [ho]

/-- Read-only answers along the translated path in the fixed tree are those along the original
path in the original tree. -/
theorem readOnlyGo_fix (e : Entry) (p : Path) (inh : Bool) :
    Entry.readOnlyAt.go (fixChoice e) (liftPath e p) inh = Entry.readOnlyAt.go e p inh := by
  induction p generalizing e inh with
  | nil =>
    rw [liftPath_nil, readOnlyGo_nil, readOnlyGo_nil]; exact hereB_congr _ _ (fixChoice_d e) inh
  | cons s rest ih =>
    have hh : hereB (fixChoice e) inh = hereB e inh := hereB_congr _ _ (fixChoice_d e) inh
    cases s with
    | child k =>
      rw [liftPath_child, readOnlyGo_cons e]
      simp only [next]
      cases hx : e.child? k with
      | none =>
        simp only
        rw [readOnlyGo_cons]; simp [next, fixChoice_child?, hx, hh]
      | some x =>
        simp only
        have hname := child?_name e x k hx
        by_cases hw : (wraps e && x.d.kind != .case_) = true
        · have hwe : wraps e = true := by simp only [Bool.and_eq_true] at hw; exact hw.1
          have hxk : x.d.kind ≠ .case_ := by
            simp only [Bool.and_eq_true, bne_iff_ne] at hw; exact hw.2
          simp only [hw, if_true, List.cons_append, List.nil_append]
          have hfk : (fixChoice x).d.kind ≠ .case_ := by rw [fixChoice_d]; exact hxk
          obtain ⟨hwk, _, hwc, hnext⟩ := wrap1_next (fixChoice x) hfk
          rw [readOnlyGo_cons]
          simp only [next, fixChoice_child?, hx, Option.map_some, hwe, if_true]
          rw [fixChoice_name, hname] at hnext
          cases rest with
          | nil =>
            rw [liftPath_nil, readOnlyGo_cons, hnext]
            simp only
            rw [readOnlyGo_nil, readOnlyGo_nil, hh, hereB_wrap _ _ hwk hwc]
            exact hereB_congr _ _ (fixChoice_d x) _
          | cons s' rest' =>
            rw [readOnlyGo_cons, hnext]
            simp only
            rw [ih x, hh]
            -- the member's answer does not depend on the wrapper's
            rw [readOnlyGo_cons, readOnlyGo_cons x]
            have : hereB x (hereB (wrap1 (fixChoice x)) (hereB e inh)) = hereB x (hereB e inh) :=
              hereB_wrap x _ hwk (hwc.trans (by rw [fixChoice_d])) _
            rw [this]
        · have hw' : (wraps e && x.d.kind != .case_) = false := by simpa using hw
          simp only [hw', Bool.false_eq_true, if_false, List.cons_append, List.nil_append]
          rw [readOnlyGo_cons]
          simp only [next, fixChoice_child?, hx, Option.map_some]
          have : (if wraps e = true then wrap1 (fixChoice x) else fixChoice x) = fixChoice x := by
            by_cases hwe : wraps e = true
            · simp only [hwe, if_true]
              apply wrap1_of_case
              rw [fixChoice_d]
              simp only [hwe, Bool.true_and, bne_eq_false_iff_eq] at hw'
              exact hw'
            · simp [hwe]
          rw [this, ih x, hh]
    | input =>
      rw [liftPath_input, readOnlyGo_cons, readOnlyGo_cons e, fixChoice_next_input]
      cases next e .input with
      | none => exact hh
      | some x => simp only [Option.map_some]; rw [ih x, hh]
    | output =>
      rw [liftPath_output, readOnlyGo_cons, readOnlyGo_cons e, fixChoice_next_output]
      cases next e .output with
      | none => exact hh
      | some x => simp only [Option.map_some]; rw [ih x, hh]

theorem readOnlyAt_fix (root : Entry) (p : Path) :
    (fixChoice root).readOnlyAt (liftPath root p) = root.readOnlyAt p := readOnlyGo_fix root p false

/-- Every node of the original tree is found again at its translated path (itself fixed). -/
theorem getAt_fix (e : Entry) (p : Path) :
    (fixChoice e).getAt (liftPath e p) = (e.getAt p).map fixChoice := by
  induction p generalizing e with
  | nil => rw [liftPath_nil]; simp [Entry.getAt]
  | cons s rest ih =>
    cases s with
    | child k =>
      rw [liftPath_child, getAt_cons e]
      simp only [next]
      cases hx : e.child? k with
      | none => simp only; rw [getAt_cons]; simp [next, fixChoice_child?, hx]
      | some x =>
        simp only [Option.bind_some]
        have hname := child?_name e x k hx
        by_cases hw : (wraps e && x.d.kind != .case_) = true
        · have hwe : wraps e = true := by simp only [Bool.and_eq_true] at hw; exact hw.1
          have hxk : x.d.kind ≠ .case_ := by
            simp only [Bool.and_eq_true, bne_iff_ne] at hw; exact hw.2
          simp only [hw, if_true, List.cons_append, List.nil_append]
          have hfk : (fixChoice x).d.kind ≠ .case_ := by rw [fixChoice_d]; exact hxk
          obtain ⟨_, _, _, hnext⟩ := wrap1_next (fixChoice x) hfk
          rw [fixChoice_name, hname] at hnext
          rw [getAt_cons]
          simp only [next, fixChoice_child?, hx, Option.map_some, hwe, if_true, Option.bind_some]
          rw [getAt_cons, hnext]
          simp only [Option.bind_some]
          exact ih x
        · have hw' : (wraps e && x.d.kind != .case_) = false := by simpa using hw
          simp only [hw', Bool.false_eq_true, if_false, List.cons_append, List.nil_append]
          rw [getAt_cons]
          simp only [next, fixChoice_child?, hx, Option.map_some, Option.bind_some]
          have : (if wraps e = true then wrap1 (fixChoice x) else fixChoice x) = fixChoice x := by
            by_cases hwe : wraps e = true
            · simp only [hwe, if_true]
              apply wrap1_of_case
              rw [fixChoice_d]
              simp only [hwe, Bool.true_and, bne_eq_false_iff_eq] at hw'
              exact hw'
            · simp [hwe]
          rw [this]; exact ih x
    | input =>
      rw [liftPath_input, getAt_cons, getAt_cons e, fixChoice_next_input]
      cases next e .input with
      | none => rfl
      | some x => simp only [Option.map_some, Option.bind_some]; exact ih x
    | output =>
      rw [liftPath_output, getAt_cons, getAt_cons e, fixChoice_next_output]
      cases next e .output with
      | none => rfl
      | some x => simp only [Option.map_some, Option.bind_some]; exact ih x

theorem liftPath_append (e : Entry) (p q : Path) (te : Entry) (h : e.getAt p = some te) :
    liftPath e (p ++ q) = liftPath e p ++ liftPath te q := by
  induction p generalizing e with
  | nil => simp only [Entry.getAt, Option.some.injEq] at h; subst h; simp [liftPath_nil]
  | cons s p ih =>
    rw [getAt_cons] at h
    cases s with
    | child k =>
      rw [List.cons_append, liftPath_child, liftPath_child]
      simp only [next] at h
      cases hx : e.child? k with
      | none => simp [hx] at h
      | some x =>
        simp only [hx, Option.bind_some] at h
        simp only [ih x h, List.append_assoc]
    | input =>
      rw [List.cons_append, liftPath_input, liftPath_input]
      cases hx : next e .input with
      | none => simp [hx] at h
      | some x =>
        simp only [hx, Option.bind_some] at h
        simp only [ih x h, List.cons_append]
    | output =>
      rw [List.cons_append, liftPath_output, liftPath_output]
      cases hx : next e .output with
      | none => simp [hx] at h
      | some x =>
        simp only [hx, Option.bind_some] at h
        simp only [ih x h, List.cons_append]

theorem readOnlyGo_snoc (e : Entry) (p : Path) (s : Step) (inh : Bool) (te c : Entry)
    (h : e.getAt p = some te) (hn : next te s = some c) :
    Entry.readOnlyAt.go e (p ++ [s]) inh = hereB c (Entry.readOnlyAt.go e p inh) := by
  induction p generalizing e inh with
  | nil =>
    simp only [Entry.getAt, Option.some.injEq] at h; subst h
    rw [List.nil_append, readOnlyGo_cons, hn, readOnlyGo_nil]
    simp only
    rw [readOnlyGo_nil]
  | cons s0 p ih =>
    rw [getAt_cons] at h
    rw [List.cons_append, readOnlyGo_cons, readOnlyGo_cons e]
    cases h0 : next e s0 with
    | none => simp [h0] at h
    | some c0 =>
      simp only [h0, Option.bind_some] at h ⊢
      exact ih c0 _ h

/-- What the library-inserted case of a shorthand member reports (DESIGN D39): the stamp seen at
the *choice* (so, for a member grafted by an augment, the augmented module's namespace), while
the member below it reports its own stamp (the augmenting module's); its read-only answer is the
member's. -/
theorem impliedCase_reports (root : Entry) (p : Path) (e x : Entry) (k : String)
    (he : root.getAt p = some e) (hw : wraps e = true) (hx : e.child? k = some x) (hk : x.d.kind ≠ .case_) :
    let pc := liftPath root p ++ [Step.child k]
    ((fixChoice root).getAt pc).map (·.d.kind) = some .case_ ∧
    (fixChoice root).stampAt pc = root.stampAt p ∧
    (fixChoice root).stampAt (pc ++ [Step.child k]) = x.d.ns.or (root.stampAt p) ∧
    (x.d.kind ≠ .output → (fixChoice root).readOnlyAt pc = root.readOnlyAt (p ++ [Step.child k])) := by
  intro pc
  have hlift : liftPath root (p ++ [Step.child k]) = pc ++ [Step.child k] := by
    rw [liftPath_append root p _ e he, liftPath_child, hx]
    simp [hw, hk, liftPath_nil, pc]
  have hfe : (fixChoice root).getAt (liftPath root p) = some (fixChoice e) := by
    rw [getAt_fix, he]; rfl
  have hfk : (fixChoice x).d.kind ≠ .case_ := by rw [fixChoice_d]; exact hk
  obtain ⟨hwk, hwns, hwc, _⟩ := wrap1_next (fixChoice x) hfk
  have hnext : next (fixChoice e) (.child k) = some (wrap1 (fixChoice x)) := by
    simp [next, fixChoice_child?, hx, hw]
  refine ⟨?_, ?_, ?_, ?_⟩
  · rw [getAt_append, hfe]
    simp only [Option.bind_some]
    rw [getAt_cons, hnext]
    simp [Entry.getAt, hwk]
  · unfold Entry.stampAt
    rw [stampGo_append _ _ _ none _ hfe, stampGo_cons, hnext]
    simp only
    rw [stampGo_nil, hwns, stampGo_fix]; rfl
  · rw [← hlift, stampAt_fix]
    unfold Entry.stampAt
    rw [stampGo_append _ _ _ none _ he, stampGo_cons]
    simp only [next, hx]
    rw [stampGo_nil]
  · intro hout
    unfold Entry.readOnlyAt
    rw [readOnlyGo_snoc _ _ _ false _ _ hfe hnext, readOnlyGo_fix,
      readOnlyGo_snoc _ _ _ false _ _ he (by simpa [next] using hx)]
    unfold hereB decisive verdict ck
    rw [hwk, hwc, fixChoice_d]
    simp [kind_beq, hout]

/-! ### forests -/

theorem find?_key_map (l : List (Nat × Entry)) (g : Nat × Entry → Nat × Entry) (hg : ∀ x, (g x).1 = x.1)
    (id : Nat) : (l.map g).find? (·.1 == id) = (l.find? (·.1 == id)).map g := by
  rw [List.find?_map]
  have : ((fun x : Nat × Entry => x.1 == id) ∘ g) = (fun x : Nat × Entry => x.1 == id) := by
    funext x; simp [Function.comp, hg]
  rw [this]

theorem tree?_setTree (f : Forest) (t id : Nat) (e : Entry) :
    (f.setTree t e).tree? id = if id = t then (f.tree? t).map (fun _ => e) else f.tree? id := by
  unfold Forest.setTree Forest.tree?
  simp only
  rw [find?_key_map _ _ (by intro x; obtain ⟨i, tr⟩ := x; simp only; split <;> rfl)]
  by_cases hid : id = t
  · subst hid
    simp only [if_true]
    cases hf : f.trees.find? (·.1 == id) with
    | none => rfl
    | some x =>
      have : (x.1 == id) = true := List.find?_some (p := fun x : Nat × Entry => x.1 == id) hf
      obtain ⟨i, tr⟩ := x
      simp only [beq_iff_eq] at this
      subst this
      simp
  · simp only [hid, if_false]
    cases hf : f.trees.find? (·.1 == id) with
    | none => rfl
    | some x =>
      have : (x.1 == id) = true := List.find?_some (p := fun x : Nat × Entry => x.1 == id) hf
      obtain ⟨i, tr⟩ := x
      simp only [beq_iff_eq] at this
      subst this
      simp [hid]

theorem tree?_fixAll (f : Forest) (id : Nat) : (fixAll f).tree? id = (f.tree? id).map fixChoice := by
  unfold fixAll Forest.tree?
  simp only
  rw [find?_key_map _ _ (by intro x; rfl)]
  cases f.trees.find? (·.1 == id) <;> rfl

/-- The namespace of a location, given its tree. -/
def nsOfTree (reg : Registry) (id : Nat) (root : Entry) (p : Path) : String :=
  match root.stampAt p with
  | some n => n
  | none => ownerNs reg id

theorem namespaceAt_tree (reg : Registry) (f : Forest) (loc : Loc) (root : Entry) (h : f.tree? loc.1 = some root) :
    namespaceAt reg f loc = nsOfTree reg loc.1 root loc.2 := by
  rw [namespaceAt_eq_spec]; unfold namespaceOf nsOfTree
  simp only [h, stampAt_eq]
  cases deepestGraft (stampsAlong root loc.2) <;> rfl

/-! ### provenance: the namespace is that of the placing module -/

/-- **Provenance theorem.** In a forest built by conversion, grafts and `FixChoice`, every node
that some module's text placed reports the namespace of that module (of the module it belongs
to, for a submodule). -/
theorem built_namespace {reg : Registry} {f : Forest} {prov : Loc → Option Nat} (hb : Built reg f prov) :
    ∀ (loc : Loc) (m : Nat) (root : Entry), f.tree? loc.1 = some root → prov loc = some m →
      namespaceAt reg f loc = ownerNs reg m := by
  induction hb with
  | init hfree =>
    intro loc m root hroot hp
    simp only [Option.some.injEq] at hp; subst hp
    rw [namespaceAt_tree reg _ loc root hroot]; unfold nsOfTree Entry.stampAt
    rw [stampGo_noStampBelow root loc.2 none (hfree _ _ hroot)]
  | @graft f prov prov' by_ t path root te a _ hroot hte hfree hnew hold ih =>
    intro loc m root' hroot' hp
    by_cases hnb : NewBelow t path te a loc
    · rw [hnew loc hnb] at hp
      simp only [Option.some.injEq] at hp; subst hp
      obtain ⟨hl, k, r, hpath, hk, hak⟩ := hnb
      rw [tree?_setTree, if_pos hl, hroot] at hroot'
      simp only [Option.map_some, Option.some.injEq] at hroot'
      rw [namespaceAt_tree reg _ loc root' (by rw [tree?_setTree, if_pos hl, hroot]; simp [hroot'])]
      obtain ⟨v, hv⟩ := Option.isSome_iff_exists.mp hak
      have hvs : noStamp v = true := (noStampL_iff _).mp hfree v (List.mem_of_find?_eq_some hv)
      unfold nsOfTree
      rw [← hroot', hpath, graft_new root path te a _ k v r hte hk hv ((noStamp_iff v).mp hvs).2]
    · rw [hold loc hnb] at hp
      by_cases hl : loc.1 = t
      · have hroot0 : f.tree? loc.1 = some root := by rw [hl]; exact hroot
        have := ih loc m root hroot0 hp
        rw [namespaceAt_tree reg _ loc root hroot0] at this
        rw [tree?_setTree, if_pos hl, hroot] at hroot'
        simp only [Option.map_some, Option.some.injEq] at hroot'
        rw [namespaceAt_tree reg _ loc root' (by rw [tree?_setTree, if_pos hl, hroot]; simp [hroot'])]
        rw [← this]; unfold nsOfTree
        rw [← hroot', graft_frame root path te a _ loc.2 hte (by
          rintro ⟨k, r, h1, h2, h3⟩; exact hnb ⟨hl, k, r, h1, h2, h3⟩)]
      · rw [tree?_setTree, if_neg hl] at hroot'
        have := ih loc m root' hroot' hp
        rw [namespaceAt_tree reg _ loc root' hroot'] at this
        rw [namespaceAt_tree reg _ loc root' (by rw [tree?_setTree, if_neg hl]; exact hroot')]
        exact this
  | @fix f prov prov' _ hkeep hnone ih =>
    intro loc m root' hroot' hp
    by_cases hex : ∃ root p, f.tree? loc.1 = some root ∧ (root.getAt p).isSome ∧ loc.2 = liftPath root p
    · obtain ⟨root, p, hroot, hsome, hlp⟩ := hex
      have hp' : prov (loc.1, p) = some m := by
        rw [← hkeep loc.1 root p hroot hsome, ← hlp]; exact hp
      have := ih (loc.1, p) m root hroot hp'
      rw [namespaceAt_tree reg _ (loc.1, p) root hroot] at this
      rw [tree?_fixAll, hroot] at hroot'
      simp only [Option.map_some, Option.some.injEq] at hroot'
      rw [namespaceAt_tree reg _ loc root' (by rw [tree?_fixAll, hroot]; simp [hroot'])]
      rw [← this]; unfold nsOfTree
      rw [← hroot', hlp, stampAt_fix]
    · rw [hnone loc hex] at hp; cases hp

/-! ### instantiating module -/

/-- The namespace a module declares. -/
def nsOfMod (m : Mod) : String := (m.stmt.argOf? "namespace").getD ""

/-- `InstantiatingModule()` answers `n` exactly when some loaded module with the node's
namespace is called `n` and every loaded module with that namespace is called `n` (several
revisions of one module are one module). -/
theorem instantiatingModuleAt_eq_some_iff (reg : Registry) (f : Forest) (loc : Loc) (n : String) :
    instantiatingModuleAt reg f loc = some n ↔
      (∃ m ∈ reg.distinctModules, nsOfMod m = namespaceAt reg f loc ∧ m.name = n) ∧
      (∀ m ∈ reg.distinctModules, nsOfMod m = namespaceAt reg f loc → m.name = n) := by
  unfold instantiatingModuleAt
  simp only
  have hmem : ∀ m, m ∈ reg.distinctModules.filter (fun m => (m.stmt.argOf? "namespace").getD "" == namespaceAt reg f loc) ↔
      m ∈ reg.distinctModules ∧ nsOfMod m = namespaceAt reg f loc := by
    intro m; simp [List.mem_filter, nsOfMod]
  generalize reg.distinctModules.filter (fun m => (m.stmt.argOf? "namespace").getD "" == namespaceAt reg f loc) = l at hmem
  cases l with
  | nil =>
    constructor
    · intro h; cases h
    · rintro ⟨⟨m, hm, hns, _⟩, _⟩
      exact absurd ((hmem m).mpr ⟨hm, hns⟩) (by simp)
  | cons m0 rest =>
    simp only
    constructor
    · intro h
      split at h
      · rename_i hall
        simp only [Option.some.injEq] at h
        have h0 := (hmem m0).mp (by simp)
        refine ⟨⟨m0, h0.1, h0.2, h⟩, ?_⟩
        intro m hm hns
        have := (hmem m).mpr ⟨hm, hns⟩
        rcases List.mem_cons.mp this with rfl | hr
        · exact h
        · have := List.all_eq_true.mp hall m hr
          simp only [beq_iff_eq] at this
          rw [this, h]
      · cases h
    · rintro ⟨_, hall⟩
      have h0 := (hmem m0).mp (by simp)
      have hn0 := hall m0 h0.1 h0.2
      have : rest.all (fun x => x.name == m0.name) = true := by
        rw [List.all_eq_true]
        intro x hx
        have hx' := (hmem x).mp (List.mem_cons_of_mem _ hx)
        simp [hall x hx'.1 hx'.2, hn0]
      rw [if_pos this, hn0]

/-- … and it fails exactly when no loaded module declares the namespace or two with different
names do. -/
theorem instantiatingModuleAt_eq_none_iff (reg : Registry) (f : Forest) (loc : Loc) :
    instantiatingModuleAt reg f loc = none ↔
      (¬ ∃ m ∈ reg.distinctModules, nsOfMod m = namespaceAt reg f loc) ∨
      (∃ m ∈ reg.distinctModules, ∃ m' ∈ reg.distinctModules,
        nsOfMod m = namespaceAt reg f loc ∧ nsOfMod m' = namespaceAt reg f loc ∧ m.name ≠ m'.name) := by
  constructor
  · intro h
    by_cases hex : ∃ m ∈ reg.distinctModules, nsOfMod m = namespaceAt reg f loc
    · right
      obtain ⟨m, hm, hns⟩ := hex
      by_cases hall : ∀ m' ∈ reg.distinctModules, nsOfMod m' = namespaceAt reg f loc → m'.name = m.name
      · have := (instantiatingModuleAt_eq_some_iff reg f loc m.name).mpr ⟨⟨m, hm, hns, rfl⟩, hall⟩
        rw [h] at this; cases this
      · have : ∃ m' ∈ reg.distinctModules, nsOfMod m' = namespaceAt reg f loc ∧ m'.name ≠ m.name :=
          Classical.byContradiction fun hno => hall fun m' hm' hns' =>
            Classical.byContradiction fun hne => hno ⟨m', hm', hns', hne⟩
        obtain ⟨m', hm', hns', hne⟩ := this
        exact ⟨m, hm, m', hm', hns, hns', fun e => hne e.symm⟩
    · exact Or.inl hex
  · intro h
    cases hr : instantiatingModuleAt reg f loc with
    | none => rfl
    | some n =>
      obtain ⟨⟨m0, hm0, hns0, _⟩, hall⟩ := (instantiatingModuleAt_eq_some_iff reg f loc n).mp hr
      rcases h with h | ⟨m, hm, m', hm', hns, hns', hne⟩
      · exact absurd ⟨m0, hm0, hns0⟩ h
      · exact absurd ((hall m hm hns).trans (hall m' hm' hns').symm) hne

/-! ### `merge` without a namespace keeps trees stamp-free -/

theorem foldl_mstep_mem (ns : Option String) (pos : Stmt) (l : List Entry) (e : Entry) :
    ∀ x ∈ (l.foldl (mstep ns pos) e).dir, x ∈ e.dir ∨ ∃ v ∈ l, x = stamp ns v := by
  induction l generalizing e with
  | nil => intro x hx; exact Or.inl hx
  | cons v l ih =>
    intro x hx
    rw [List.foldl_cons] at hx
    rcases ih _ x hx with h | ⟨w, hw, rfl⟩
    · unfold mstep at h
      split at h
      · rw [addErr_dir] at h; exact Or.inl h
      · rw [withDir_dir, List.mem_append, List.mem_singleton] at h
        rcases h with h | h
        · exact Or.inl h
        · exact Or.inr ⟨v, by simp, h⟩
    · exact Or.inr ⟨w, List.mem_cons_of_mem _ hw, rfl⟩

theorem merge_mem (e : Entry) (ns : Option String) (oe : Entry) :
    ∀ x ∈ (e.merge ns oe).dir, x ∈ e.dir ∨ ∃ v ∈ oe.dir, x = stamp ns v := by
  rw [merge_eq]
  intro x hx
  rcases foldl_mstep_mem ns oe.d.node oe.dir _ x hx with h | h
  · rw [importErrors_dir] at h; exact Or.inl h
  · exact Or.inr h

/-- uses / include: merging stamp-free content into a stamp-free node leaves it stamp-free. -/
theorem noStampBelow_merge_none (e oe : Entry) (he : noStampBelow e = true) (ho : noStampL oe.dir = true) :
    noStampBelow (e.merge none oe) = true := by
  unfold noStampBelow at he ⊢
  simp only [Bool.and_eq_true] at he ⊢
  obtain ⟨_, hi, hout⟩ := merge_keep e none oe
  rw [hi, hout]
  refine ⟨⟨?_, he.1.2⟩, he.2⟩
  rw [noStampL_iff]
  intro x hx
  rcases merge_mem e none oe x hx with h | ⟨v, hv, hxe⟩
  · exact (noStampL_iff _).mp he.1.1 x h
  · rw [hxe, stamp_none]; exact (noStampL_iff _).mp ho v hv

/-! ### the augment step of `Process` is the `graft` constructor -/

/-- One successful augment of tree `id` (the only pending one, to keep the loop out of the
statement): the resulting forest is the target's tree with the augment's entry merged at the target
under the namespace that the root of tree `id` reports. -/
theorem augmentStep_eq (reg : Registry) (id : Nat) (addErrors : Bool) (s : PState) (a : Entry)
    (t : Nat) (path : Path) (f1 : Forest) (root te : Entry)
    (hp : s.pendingOf id = [a])
    (hfind : find reg s.forest (id, []) a.d.nodeMod a.d.name = (some (t, path), f1))
    (hroot : f1.tree? t = some root) (hte : root.getAt path = some te) (hok : cannotHaveChildren te = false) :
    (augmentTree reg id addErrors s).1.forest =
      f1.setTree t (root.updateAt path fun te => te.merge (some (namespaceAt reg s.forest (id, []))) a) := by
  unfold augmentTree
  simp only [hp, List.foldl_cons, List.foldl_nil, hfind, hroot, hte, Option.bind_some, hok]
  rfl

/-- … and therefore a `Built` forest stays `Built`, the new nodes being placed by module `id`
(when `Find` did not have to create an absent rpc input/output on the way). -/
theorem augmentStep_built (reg : Registry) (id : Nat) (addErrors : Bool) (s : PState) (a : Entry)
    (t : Nat) (path : Path) (root te r0 : Entry) (prov : Loc → Option Nat)
    (hb : Built reg s.forest prov)
    (hid : s.forest.tree? id = some r0)
    (hp : s.pendingOf id = [a]) (ha : noStampL a.dir = true)
    (hfind : find reg s.forest (id, []) a.d.nodeMod a.d.name = (some (t, path), s.forest))
    (hroot : s.forest.tree? t = some root) (hte : root.getAt path = some te) (hok : cannotHaveChildren te = false) :
    ∃ prov', Built reg (augmentTree reg id addErrors s).1.forest prov' ∧
      (∀ loc, NewBelow t path te a loc → prov' loc = some id) ∧
      (∀ loc, ¬ NewBelow t path te a loc → prov' loc = prov loc) := by
  classical
  rw [augmentStep_eq reg id addErrors s a t path s.forest root te hp hfind hroot hte hok,
    namespaceAt_root reg s.forest id r0 hid]
  refine ⟨fun loc => if NewBelow t path te a loc then some id else prov loc, ?_, ?_, ?_⟩
  · exact Built.graft hb hroot hte ha (fun loc h => by simp only [h, if_true]) (fun loc h => by simp only [h, if_false])
  · intro loc h; simp only [h, if_true]
  · intro loc h; simp only [h, if_false]

/-! ### the tree-building operations of `ToEntry` keep trees stamp-free -/

theorem noStamp_mk (d : EData) (c i o : List Entry) :
    noStamp (.mk d c i o) = (d.ns.isNone && noStampL c && noStampL i && noStampL o) := by rw [noStamp]

theorem noStamp_withD (e : Entry) (f : EData → EData) (h : ∀ d, (f d).ns = d.ns) :
    noStamp (e.withD f) = noStamp e := by
  cases e with
  | mk d c i o => simp only [Entry.withD, noStamp_mk, h]

theorem noStamp_addErr (e : Entry) (x : Err) : noStamp (e.addErr x) = noStamp e :=
  noStamp_withD e _ (fun _ => rfl)
theorem noStamp_addErrs (e : Entry) (x : List Err) : noStamp (e.addErrs x) = noStamp e :=
  noStamp_withD e _ (fun _ => rfl)
theorem noStamp_importErrors (e c : Entry) : noStamp (e.importErrors c) = noStamp e :=
  noStamp_addErrs e _

theorem noStampL_append (a b : List Entry) : noStampL (a ++ b) = (noStampL a && noStampL b) := by
  induction a with
  | nil => simp [noStampL]
  | cons x a ih => simp [noStampL, ih, Bool.and_assoc]

theorem noStamp_withDir (e : Entry) (c : List Entry) (he : noStamp e = true) (hc : noStampL c = true) :
    noStamp (e.withDir c) = true := by
  cases e with
  | mk d c0 i o =>
    simp only [Entry.withDir, noStamp_mk, Bool.and_eq_true] at he ⊢
    exact ⟨⟨⟨he.1.1.1, hc⟩, he.1.2⟩, he.2⟩

theorem noStamp_dir (e : Entry) (he : noStamp e = true) : noStampL e.dir = true := by
  cases e with
  | mk d c0 i o =>
    simp only [noStamp_mk, Bool.and_eq_true] at he
    exact he.1.1.2

theorem noStamp_add (e : Entry) (key : String) (v : Entry) (he : noStamp e = true) (hv : noStamp v = true) :
    noStamp (e.add key v) = true := by
  unfold Entry.add
  split
  · rw [noStamp_addErr]; exact he
  · apply noStamp_withDir _ _ he
    rw [noStampL_append, noStamp_dir e he]; simp [noStampL, hv]

theorem noStamp_merge_none (e oe : Entry) (he : noStamp e = true) (ho : noStamp oe = true) :
    noStamp (e.merge none oe) = true := by
  rw [noStamp_iff] at he ⊢
  refine ⟨?_, noStampBelow_merge_none e oe he.2 (noStamp_dir oe ho)⟩
  rw [(merge_keep e none oe).1.2.2.2]; exact he.1

/-! ### `FindModuleByNamespace` asked directly -/

theorem instantiatingModuleAt_eq_findByNamespace (reg : Registry) (f : Forest) (loc : Loc) :
    instantiatingModuleAt reg f loc = findByNamespace reg (namespaceAt reg f loc) := rfl

/-- The answer is `n` exactly when some loaded module declares exactly the string `ns` and is
called `n`, and every loaded module declaring exactly `ns` is called `n`. -/
theorem findByNamespace_eq_some_iff (reg : Registry) (ns n : String) :
    findByNamespace reg ns = some n ↔
      (∃ m ∈ reg.distinctModules, nsOfMod m = ns ∧ m.name = n) ∧
      (∀ m ∈ reg.distinctModules, nsOfMod m = ns → m.name = n) := by
  unfold findByNamespace
  have hmem : ∀ m, m ∈ reg.distinctModules.filter (fun m => (m.stmt.argOf? "namespace").getD "" == ns) ↔
      m ∈ reg.distinctModules ∧ nsOfMod m = ns := by
    intro m; simp [List.mem_filter, nsOfMod]
  generalize reg.distinctModules.filter (fun m => (m.stmt.argOf? "namespace").getD "" == ns) = l at hmem
  cases l with
  | nil =>
    constructor
    · intro h; cases h
    · rintro ⟨⟨m, hm, hns, _⟩, _⟩
      exact absurd ((hmem m).mpr ⟨hm, hns⟩) (by simp)
  | cons m0 rest =>
    simp only
    constructor
    · intro h
      split at h
      · rename_i hall
        simp only [Option.some.injEq] at h
        have h0 := (hmem m0).mp (by simp)
        refine ⟨⟨m0, h0.1, h0.2, h⟩, ?_⟩
        intro m hm hns
        have := (hmem m).mpr ⟨hm, hns⟩
        rcases List.mem_cons.mp this with rfl | hr
        · exact h
        · have := List.all_eq_true.mp hall m hr
          simp only [beq_iff_eq] at this
          rw [this, h]
      · cases h
    · rintro ⟨_, hall⟩
      have h0 := (hmem m0).mp (by simp)
      have hn0 := hall m0 h0.1 h0.2
      have : rest.all (fun x => x.name == m0.name) = true := by
        rw [List.all_eq_true]
        intro x hx
        have hx' := (hmem x).mp (List.mem_cons_of_mem _ hx)
        simp [hall x hx'.1 hx'.2, hn0]
      rw [if_pos this, hn0]

/-- A spelling that no loaded module declares exactly finds nothing. -/
theorem findByNamespace_undeclared (reg : Registry) (ns : String)
    (h : ∀ m ∈ reg.distinctModules, nsOfMod m ≠ ns) : findByNamespace reg ns = none := by
  cases hr : findByNamespace reg ns with
  | none => rfl
  | some n =>
    obtain ⟨⟨m, hm, hns, _⟩, _⟩ := (findByNamespace_eq_some_iff reg ns n).mp hr
    exact absurd hns (h m hm)

end Goyang.Lemmas.ConfigNs
