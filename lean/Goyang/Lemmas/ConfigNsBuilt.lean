import Goyang.Lemmas.ConfigNsComm
/-
C12: closing the composition gap — the forest of an error-free, deviation-free `processAll` run is
`Spec.ConfigNs.Built` itself (not only `Bridge.Built'`).

`BuiltU` is `Built` with the side conditions of the commutation lemmas recorded at each step (the tree a
graft goes into and the grafted entry satisfy `U`, the graft path is proper, the target is no rpc; the
trees `FixChoice` is applied to satisfy `U`).  It is closed under the two stamp-free steps the augment
loop takes on an error-free run:
  `builtU_store`    — storing a tree back unchanged (`Find` does so after every walk);
  `builtU_implicit` — `Find` creating an absent rpc input / output: the creation is moved back through
                      every earlier graft (into the tree grafted into, or into the grafted entry) and
                      every earlier `FixChoice`, down to the conversion, where it meets a stamp-free tree.
Recording an error on a root is the third extra step of `Built'`; errors on roots are never removed, so
the threaded invariant is "`BuiltU`, or some root carries an error" (`Dirty`), and an error-free result
excludes the second alternative.
-/
set_option linter.unusedVariables false
set_option linter.unusedSimpArgs false
namespace Goyang.Lemmas.ConfigNsBuilt
open Goyang.Model Goyang.Spec.ConfigNs Goyang.Lemmas.ConfigNs Goyang.Lemmas.Bridge Goyang.Lemmas.ConfigNsComm
open Goyang.Spec.Find (addImplicit)
open Goyang.Lemmas.Tree (U PathOK U_mk)

/-! ### forests, literally -/

theorem setTree_setTree (f : Forest) (t : Nat) (a b : Entry) : (f.setTree t a).setTree t b = f.setTree t b := by
  unfold Forest.setTree
  simp only [List.map_map]
  congr 1
  apply List.map_congr_left
  rintro ⟨i, x⟩ _
  simp only [Function.comp]
  by_cases h : (i == t) = true <;> simp [h]

theorem setTree_comm (f : Forest) (t t' : Nat) (a b : Entry) (h : t ≠ t') :
    (f.setTree t a).setTree t' b = (f.setTree t' b).setTree t a := by
  unfold Forest.setTree
  simp only [List.map_map]
  congr 1
  apply List.map_congr_left
  rintro ⟨i, x⟩ _
  simp only [Function.comp]
  by_cases h1 : i = t
  · subst h1
    have : ¬ i = t' := h
    simp [this]
  · by_cases h2 : i = t'
    · subst h2; simp [h1]
    · simp [h1, h2]

theorem fixAll_setTree (f : Forest) (t : Nat) (r : Entry) : (fixAll f).setTree t (fixChoice r) = fixAll (f.setTree t r) := by
  unfold fixAll Forest.setTree
  simp only [List.map_map]
  congr 1
  apply List.map_congr_left
  rintro ⟨i, x⟩ _
  simp only [Function.comp]
  by_cases h : (i == t) = true <;> simp [h]

/-! ### `BuiltU` -/

/-- `Spec.ConfigNs.Built` with the side conditions of the commutation lemmas recorded. -/
inductive BuiltU (reg : Registry) : Forest → (Loc → Option Nat) → Prop
  | init {f : Forest} :
      (∀ id t, f.tree? id = some t → noStampBelow t = true) →
      BuiltU reg f (fun loc => some loc.1)
  | graft {f : Forest} {prov prov' : Loc → Option Nat} {by_ t : Nat} {path : Path} {root te a : Entry} :
      BuiltU reg f prov →
      f.tree? t = some root → root.getAt path = some te →
      noStampL a.dir = true →
      U root → PathOK path → te.d.isRpc = false → U a →
      (∀ loc, NewBelow t path te a loc → prov' loc = some by_) →
      (∀ loc, ¬ NewBelow t path te a loc → prov' loc = prov loc) →
      BuiltU reg (f.setTree t (root.updateAt path fun te => te.merge (some (ownerNs reg by_)) a)) prov'
  | fix {f : Forest} {prov prov' : Loc → Option Nat} :
      BuiltU reg f prov →
      (∀ id root, f.tree? id = some root → U root) →
      (∀ id root p, f.tree? id = some root → (root.getAt p).isSome →
          prov' (id, liftPath root p) = prov (id, p)) →
      (∀ loc', (¬ ∃ root p, f.tree? loc'.1 = some root ∧ (root.getAt p).isSome ∧ loc'.2 = liftPath root p) →
          prov' loc' = none) →
      BuiltU reg (fixAll f) prov'

theorem BuiltU.toBuilt {reg : Registry} {f : Forest} {prov : Loc → Option Nat} (h : BuiltU reg f prov) :
    Built reg f prov := by
  induction h with
  | init h => exact Built.init h
  | graft _ h1 h2 h3 _ _ _ _ h4 h5 ih => exact Built.graft ih h1 h2 h3 h4 h5
  | fix _ _ h1 h2 ih => exact Built.fix ih h1 h2

/-! ### storing a tree back unchanged -/

theorem builtU_store {reg : Registry} {f : Forest} {prov : Loc → Option Nat} (hb : BuiltU reg f prov) :
    ∀ (t : Nat) (root : Entry), f.tree? t = some root → BuiltU reg (f.setTree t root) prov := by
  induction hb with
  | @init f h =>
    intro t root ht
    refine BuiltU.init ?_
    intro id tr htr
    rw [tree?_setTree_self f t root ht] at htr
    exact h id tr htr
  | @graft f prov prov' by_ t0 path root0 te a hb0 h1 h2 h3 hU hP hrpc hUa h4 h5 ih =>
    intro t root ht
    by_cases htt : t = t0
    · subst htt
      rw [tree?_setTree, if_pos rfl, h1] at ht
      simp only [Option.map_some, Option.some.injEq] at ht
      subst ht
      rw [setTree_setTree]
      exact BuiltU.graft hb0 h1 h2 h3 hU hP hrpc hUa h4 h5
    · rw [tree?_setTree, if_neg htt] at ht
      rw [setTree_comm f t0 t _ _ (Ne.symm htt)]
      exact BuiltU.graft (ih t root ht) (by rw [tree?_setTree, if_neg (Ne.symm htt)]; exact h1) h2 h3 hU hP hrpc hUa h4 h5
  | @fix f prov prov' hb0 hU h1 h2 ih =>
    intro t root ht
    rw [tree?_fixAll] at ht
    cases h0 : f.tree? t with
    | none => simp [h0] at ht
    | some root0 =>
      simp only [h0, Option.map_some, Option.some.injEq] at ht
      subst ht
      rw [fixAll_setTree]
      have hsame := tree?_setTree_self f t root0 h0
      refine BuiltU.fix (ih t root0 h0) ?_ ?_ ?_
      · intro id root hr; rw [hsame] at hr; exact hU id root hr
      · intro id root p hr; rw [hsame] at hr; exact h1 id root p hr
      · intro loc' hno
        apply h2 loc'
        rintro ⟨root, p, hr, hs, hl⟩
        exact hno ⟨root, p, by rw [hsame]; exact hr, hs, hl⟩

/-! ### small facts for the commutation -/

theorem merge_isRpc (te : Entry) (ns : Option String) (a : Entry) : (te.merge ns a).d.isRpc = te.d.isRpc := by
  cases te; rw [merge_struct]; rfl

theorem merge_name (ns : Option String) (a : Entry) (x : Entry) : (x.merge ns a).name = x.name :=
  (merge_sameCN ns a x).1

theorem slotEmpty_updateAt_cons (b : Bool) (x : Entry) (s : Step) (q : Path) (g : Entry → Entry) :
    SlotEmpty b (x.updateAt (s :: q) g) ↔ SlotEmpty b x := by
  cases x with
  | mk d c i o =>
    cases b <;> cases s <;> simp [SlotEmpty, Entry.updateAt, Entry.inp, Entry.out]

theorem slotEmpty_fix (b : Bool) (e0 : Entry) (h : SlotEmpty b (fixChoice e0)) : SlotEmpty b e0 := by
  cases b with
  | true => simp only [SlotEmpty, if_true, fixChoice_inp, List.map_eq_nil_iff] at h ⊢; exact h
  | false => simp only [SlotEmpty, Bool.false_eq_true, if_false, fixChoice_out, List.map_eq_nil_iff] at h ⊢; exact h

theorem slotEmpty_stamp (b : Bool) (ns : Option String) (v : Entry) (h : SlotEmpty b (stamp ns v)) : SlotEmpty b v := by
  cases b with
  | true => simpa [SlotEmpty] using h
  | false => simpa [SlotEmpty] using h

theorem child?_isSome_updateAt_cons {g : Entry → Entry} (hg : ∀ x, (g x).name = x.name) (x : Entry) (s : Step) (q : Path)
    (k' : String) : ((x.updateAt (s :: q) g).child? k').isSome = (x.child? k').isSome := by
  cases x with
  | mk d c i o =>
    cases s with
    | child k =>
      simp only [Entry.updateAt, Entry.child?, Entry.dir]
      rw [child?_any, child?_any, map_if_names c k _ (fun y => updateAt_name_keep hg y q)]
    | input => rfl
    | output => rfl

theorem child?_none_updateAt_cons {g : Entry → Entry} (hg : ∀ x, (g x).name = x.name) (x : Entry) (s : Step) (q : Path)
    (k' : String) : (x.updateAt (s :: q) g).child? k' = none ↔ x.child? k' = none := by
  have := child?_isSome_updateAt_cons hg x s q k'
  cases h1 : (x.updateAt (s :: q) g).child? k' <;> cases h2 : x.child? k' <;> simp_all

theorem newBelow_congr {t : Nat} {path : Path} {te te' a a' : Entry}
    (h1 : ∀ k, te'.child? k = none ↔ te.child? k = none) (h2 : ∀ k, (a'.child? k).isSome = (a.child? k).isSome) (loc : Loc) :
    NewBelow t path te' a' loc ↔ NewBelow t path te a loc := by
  unfold NewBelow
  constructor
  · rintro ⟨hl, k, r, hp, hk, ha⟩; exact ⟨hl, k, r, hp, (h1 k).mp hk, by rw [← h2]; exact ha⟩
  · rintro ⟨hl, k, r, hp, hk, ha⟩; exact ⟨hl, k, r, hp, (h1 k).mpr hk, by rw [h2]; exact ha⟩

theorem pathOK_right (p r : Path) (h : PathOK (p ++ r)) : PathOK r := fun k hk => h k (List.mem_append_right p hk)
theorem pathOK_left (p r : Path) (h : PathOK (p ++ r)) : PathOK p := fun k hk => h k (List.mem_append_left r hk)

theorem noStampL_dir_updateAt (b : Bool) (a : Entry) (s : Step) (q : Path) (h : noStampL a.dir = true) :
    noStampL (a.updateAt (s :: q) (addImplicit b)).dir = true := by
  cases a with
  | mk d c i o =>
    cases s with
    | child k =>
      simp only [Entry.updateAt, Entry.dir] at h ⊢
      refine noStampL_map c _ (fun y _ hy => ?_) h
      split
      · exact noStamp_updateAt _ (noStamp_addImplicit b) q y hy
      · exact hy
    | input => exact h
    | output => exact h

/-! ### `Find` creating an absent rpc input / output -/

/-- **`BuiltU` is closed under the creation of an absent rpc input / output** at a proper existing path
of any tree: the creation commutes back through every graft and every `FixChoice` of the derivation. -/
theorem builtU_implicit {reg : Registry} {f : Forest} {prov : Loc → Option Nat} (hb : BuiltU reg f prov) :
    ∀ (t : Nat) (root e : Entry) (p : Path) (b : Bool), f.tree? t = some root → root.getAt p = some e →
      e.d.isRpc = true → PathOK p → SlotEmpty b e →
      ∃ prov', BuiltU reg (f.setTree t (root.updateAt p (addImplicit b))) prov' := by
  classical
  induction hb with
  | @init f h =>
    intro t root e p b ht hg hr hp he
    refine ⟨_, BuiltU.init ?_⟩
    intro id tr htr
    rw [tree?_setTree] at htr
    split at htr
    · rw [ht] at htr
      simp only [Option.map_some, Option.some.injEq] at htr
      subst htr
      exact noStampBelow_updateAt_addImplicit b p root (h t root ht)
    · exact h id tr htr
  | @graft f prov prov' by_ t0 path root0 te a hb0 h1 h2 h3 hU hP hrpc hUa h4 h5 ih =>
    intro t root e p b ht hg hr hp he
    have hA : ∀ x, (addImplicit b x).name = x.name := addImplicit_name b
    have hM : ∀ x : Entry, (x.merge (some (ownerNs reg by_)) a).name = x.name := merge_name _ a
    by_cases htt : t = t0
    · subst htt
      rw [tree?_setTree, if_pos rfl, h1] at ht
      simp only [Option.map_some, Option.some.injEq] at ht
      subst ht
      rw [setTree_setTree]
      rcases Deviate.path_trichotomy path p with hpre | ⟨r, hrne, hpath⟩ | ⟨c, s2, s1, q2, q1, hne, hpath, hpp⟩
      · -- the creation is at or below the graft target
        obtain ⟨r, rfl⟩ := hpre
        rw [getAt_updateAt_through root0 path r _ (merge_sameCN _ a) te h2] at hg
        cases r with
        | nil =>
          simp only [Entry.getAt, Option.some.injEq] at hg
          rw [← hg, merge_isRpc, hrpc] at hr; cases hr
        | cons s r' =>
          have hbelow := updateAt_below (g := fun te : Entry => te.merge (some (ownerNs reg by_)) a) hM
            (addImplicit b) path (s :: r') root0
          rw [hbelow]
          by_cases hnew : ∃ k, s = .child k ∧ te.child? k = none
          · -- … inside a child the graft added: it becomes a creation in the grafted entry
            obtain ⟨k, rfl, hk⟩ := hnew
            rw [getAt_cons, next_child, merge_child?, hk] at hg
            simp only [] at hg
            cases hv : a.child? k with
            | none => simp [hv] at hg
            | some v =>
              simp only [hv, Option.map_some, Option.bind_some] at hg
              have hPa : PathOK (.child k :: r') := pathOK_right path _ hp
              obtain ⟨e0, hga, he0⟩ : ∃ e0, a.getAt (.child k :: r') = some e0 ∧ SlotEmpty b e0 := by
                cases r' with
                | nil =>
                  simp only [Entry.getAt, Option.some.injEq] at hg
                  refine ⟨v, by simp [Entry.getAt, hv], slotEmpty_stamp b _ v (by rw [hg]; exact he)⟩
                | cons s'' r'' =>
                  refine ⟨e, ?_, he⟩
                  simp only [Entry.getAt, hv, Option.bind_some]
                  rw [← hg]
                  cases hns : (some (ownerNs reg by_) : Option String) with
                  | none => cases hns
                  | some n => exact (Deviate.getAt_withD v _ s'' r'').symm
              have himp := (sameErrs_updateAt_addImplicit b e0 he0 (.child k :: r') a hUa hPa hga).imp
              have hfun := merge_updateAt_new (some (ownerNs reg by_)) b a te k r' hk himp
              rw [updateAt_congr_unique _ (fun te : Entry => te.merge (some (ownerNs reg by_)) (a.updateAt (.child k :: r') (addImplicit b)))
                te hfun path root0 hU hP h2]
              have hiff := fun loc => newBelow_congr (t := t) (path := path) (te := te) (te' := te)
                (a := a) (a' := a.updateAt (.child k :: r') (addImplicit b)) (fun _ => Iff.rfl)
                (fun k' => child?_isSome_updateAt_cons hA a (.child k) r' k') loc
              exact ⟨prov', BuiltU.graft hb0 h1 h2 (noStampL_dir_updateAt b a _ r' h3) hU hP hrpc
                (U_addImplicit b a _ e0 hUa hPa hga he0)
                (fun loc hl => h4 loc ((hiff loc).mp hl)) (fun loc hl => h5 loc (fun h' => hl ((hiff loc).mpr h')))⟩
          · -- … in the part of the target that was there before: it becomes a creation before the graft
            have hold : ∀ k, s = .child k → (te.child? k).isSome = true := by
              intro k hs
              cases hk : te.child? k with
              | none => exact absurd ⟨k, hs, hk⟩ hnew
              | some _ => rfl
            have hfun := merge_updateAt_old hA (some (ownerNs reg by_)) a te s r' hold
            rw [updateAt_congr_unique _ (fun y : Entry => (y.updateAt (s :: r') (addImplicit b)).merge (some (ownerNs reg by_)) a)
              te hfun path root0 hU hP h2]
            rw [← updateAt_same (g := fun y : Entry => y.updateAt (s :: r') (addImplicit b))
              (fun y => updateAt_name_keep hA y _) (fun te : Entry => te.merge (some (ownerNs reg by_)) a) path root0,
              ← updateAt_append (addImplicit b) path (s :: r') root0]
            -- the node exists before the graft
            have hg0 : root0.getAt (path ++ s :: r') = some e := by
              rw [ConfigNs.getAt_append, h2]
              simp only [Option.bind_some]
              rw [getAt_cons] at hg ⊢
              rw [merge_next] at hg
              cases s with
              | input => exact hg
              | output => exact hg
              | child k =>
                have := hold k rfl
                cases hk : te.child? k with
                | none => simp [hk] at this
                | some x => simpa [hk, next_child] using hg
            obtain ⟨prov1, hb1⟩ := ih t root0 e (path ++ s :: r') b h1 hg0 hr hp he
            have hte' : (root0.updateAt (path ++ s :: r') (addImplicit b)).getAt path = some (te.updateAt (s :: r') (addImplicit b)) := by
              rw [updateAt_append (addImplicit b) path (s :: r') root0]
              have := getAt_updateAt_through root0 path [] (fun y : Entry => y.updateAt (s :: r') (addImplicit b))
                (fun y => by rw [sameCN, updateAt_d_cons]; exact ⟨rfl, rfl, rfl, rfl⟩) te h2
              simpa [Entry.getAt] using this
            have hiff := fun loc => newBelow_congr (t := t) (path := path) (te := te)
              (te' := te.updateAt (s :: r') (addImplicit b)) (a := a) (a' := a)
              (fun k' => child?_none_updateAt_cons hA te s r' k') (fun _ => rfl) loc
            rw [← setTree_setTree f t (root0.updateAt (path ++ s :: r') (addImplicit b))]
            refine ⟨fun loc => if NewBelow t path te a loc then some by_ else prov1 loc,
              BuiltU.graft hb1 (by rw [tree?_setTree, if_pos rfl, h1]; rfl) hte' h3
                (U_addImplicit b root0 _ e hU hp hg0 he) hP (by rw [updateAt_d_cons]; exact hrpc) hUa ?_ ?_⟩
            · intro loc hl; simp only [(hiff loc).mp hl, if_true]
            · intro loc hl
              have : ¬ NewBelow t path te a loc := fun h' => hl ((hiff loc).mpr h')
              simp only [this, if_false]
      · -- the creation is strictly above the graft target
        subst hpath
        cases r with
        | nil => exact absurd rfl hrne
        | cons s r' =>
          have hst : Deviate.NameStable (p ++ s :: r') (fun te : Entry => te.merge (some (ownerNs reg by_)) a) :=
            Deviate.NameStable.of_forall hM
          rw [Deviate.getAt_updateAt_prefix _ p (s :: r') hst root0] at hg
          cases hg0 : root0.getAt p with
          | none => simp [hg0] at hg
          | some e0 =>
            simp only [hg0, Option.map_some, Option.some.injEq] at hg
            subst hg
            rw [updateAt_d_cons] at hr
            rw [slotEmpty_updateAt_cons] at he
            have hs : s ≠ slot b := by
              intro hs; subst hs
              rw [ConfigNs.getAt_append, hg0] at h2
              simp only [Option.bind_some] at h2
              rw [getAt_slot_none b e0 he r'] at h2; cases h2
            rw [updateAt_comm_above hA p s r' (fun x => addImplicit_comm_step b s hs r' _ x) root0]
            obtain ⟨prov1, hb1⟩ := ih t root0 e0 p b h1 hg0 hr hp he
            have hte' : (root0.updateAt p (addImplicit b)).getAt (p ++ s :: r') = some te := by
              rw [Deviate.getAt_updateAt_append _ p (Deviate.NameStable.of_forall hA) root0 (s :: r'), hg0]
              simp only [Option.map_some, Option.bind_some]
              rw [addImplicit_getAt b s hs r' e0]
              rw [ConfigNs.getAt_append, hg0] at h2
              simpa using h2
            rw [← setTree_setTree f t (root0.updateAt p (addImplicit b))]
            refine ⟨fun loc => if NewBelow t (p ++ s :: r') te a loc then some by_ else prov1 loc,
              BuiltU.graft hb1 (by rw [tree?_setTree, if_pos rfl, h1]; rfl) hte' h3
                (U_addImplicit b root0 _ e0 hU hp hg0 he) hP hrpc hUa ?_ ?_⟩
            · intro loc hl; simp only [hl, if_true]
            · intro loc hl; simp only [hl, if_false]
      · -- the two places lie apart
        subst hpath; subst hpp
        have hst : Deviate.NameStable (c ++ s2 :: q2) (fun te : Entry => te.merge (some (ownerNs reg by_)) a) :=
          Deviate.NameStable.of_forall hM
        rw [Deviate.getAt_updateAt_diverge _ hne q2 q1 c hst root0] at hg
        rw [updateAt_comm_diverge hA hM (Ne.symm hne) c q1 q2 root0]
        obtain ⟨prov1, hb1⟩ := ih t root0 e (c ++ s1 :: q1) b h1 hg hr hp he
        have hte' : (root0.updateAt (c ++ s1 :: q1) (addImplicit b)).getAt (c ++ s2 :: q2) = some te := by
          rw [Deviate.getAt_updateAt_diverge _ (Ne.symm hne) q1 q2 c (Deviate.NameStable.of_forall hA) root0]
          exact h2
        rw [← setTree_setTree f t (root0.updateAt (c ++ s1 :: q1) (addImplicit b))]
        refine ⟨fun loc => if NewBelow t (c ++ s2 :: q2) te a loc then some by_ else prov1 loc,
          BuiltU.graft hb1 (by rw [tree?_setTree, if_pos rfl, h1]; rfl) hte' h3
            (U_addImplicit b root0 _ e hU hp hg he) hP hrpc hUa ?_ ?_⟩
        · intro loc hl; simp only [hl, if_true]
        · intro loc hl; simp only [hl, if_false]
    · -- another tree
      rw [tree?_setTree, if_neg htt] at ht
      obtain ⟨prov1, hb1⟩ := ih t root e p b ht hg hr hp he
      rw [setTree_comm f t0 t _ _ (Ne.symm htt)]
      refine ⟨fun loc => if NewBelow t0 path te a loc then some by_ else prov1 loc,
        BuiltU.graft hb1 (by rw [tree?_setTree, if_neg (Ne.symm htt)]; exact h1) h2 h3 hU hP hrpc hUa ?_ ?_⟩
      · intro loc hl; simp only [hl, if_true]
      · intro loc hl; simp only [hl, if_false]
  | @fix f prov prov' hb0 hU h1 h2 ih =>
    intro t root e p b ht hg hr hp he
    rw [tree?_fixAll] at ht
    cases h0 : f.tree? t with
    | none => simp [h0] at ht
    | some root0 =>
      simp only [h0, Option.map_some, Option.some.injEq] at ht
      subst ht
      obtain ⟨p0, e0, hg0, hlp, hee, hsub⟩ := fix_preimage p root0 e hg hr
      subst hee
      rw [fixChoice_d] at hr
      have he0 := slotEmpty_fix b e0 he
      have hp0 : PathOK p0 := fun k hk => hp k (hsub k hk)
      obtain ⟨prov1, hb1⟩ := ih t root0 e0 p0 b h0 hg0 hr hp0 he0
      have hU0 := hU t root0 h0
      rw [← hlp, fix_updateAt_addImplicit b p0 root0 e0 hU0 hp0 hg0, fixAll_setTree]
      -- the provenance after FixChoice, as in `fixAll_bi`
      let f1 := f.setTree t (root0.updateAt p0 (addImplicit b))
      let P : Loc → Path → Prop := fun loc' q =>
        ∃ root, f1.tree? loc'.1 = some root ∧ (root.getAt q).isSome = true ∧ loc'.2 = liftPath root q
      refine ⟨fun loc' => if hex : ∃ q, P loc' q then prov1 (loc'.1, Classical.choose hex) else none, ?_⟩
      refine BuiltU.fix hb1 ?_ ?_ ?_
      · intro id root hroot
        rw [tree?_setTree] at hroot
        split at hroot
        · rw [h0] at hroot
          simp only [Option.map_some, Option.some.injEq] at hroot
          subst hroot
          exact U_addImplicit b root0 p0 e0 hU0 hp0 hg0 he0
        · exact hU id root hroot
      · intro id root q hroot hsome
        have hex : ∃ q', P (id, liftPath root q) q' := ⟨q, root, hroot, hsome, rfl⟩
        rw [dif_pos hex]
        obtain ⟨root2, hr2, hs2, hl2⟩ := Classical.choose_spec hex
        simp only at hr2 hl2
        rw [hroot] at hr2
        simp only [Option.some.injEq] at hr2
        subst hr2
        have e := liftPath_inj q root _ hsome hs2 hl2
        exact congrArg (fun q' => prov1 (id, q')) e.symm
      · intro loc' hno
        have : ¬ ∃ q, P loc' q := by
          rintro ⟨q, root, h1', h2', h3'⟩
          exact hno ⟨root, q, h1', h2', h3'⟩
        rw [dif_neg this]

/-! ### an error recorded on a root stays -/

/-- Some visible root carries an error. -/
def Dirty (f : Forest) : Prop := ∃ t root, f.tree? t = some root ∧ root.d.errors ≠ []

/-- The threaded alternative: built by conversion, grafts and `FixChoice` — or a root carries an error. -/
def BD (reg : Registry) (f : Forest) : Prop := (∃ prov, BuiltU reg f prov) ∨ Dirty f

theorem dirty_setTree (f : Forest) (t : Nat) (root r' : Entry) (hroot : f.tree? t = some root)
    (himp : root.d.errors ≠ [] → r'.d.errors ≠ []) (h : Dirty f) : Dirty (f.setTree t r') := by
  obtain ⟨t1, r1, h1, e1⟩ := h
  by_cases htt : t1 = t
  · subst htt
    rw [hroot] at h1; cases h1
    exact ⟨t1, r', by rw [tree?_setTree, if_pos rfl, hroot]; rfl, himp e1⟩
  · exact ⟨t1, r1, by rw [tree?_setTree, if_neg htt]; exact h1, e1⟩

theorem dirty_addErr (f : Forest) (t : Nat) (root : Entry) (x : Err) (hroot : f.tree? t = some root) :
    Dirty (f.setTree t (root.addErr x)) := by
  refine ⟨t, root.addErr x, by rw [tree?_setTree, if_pos rfl, hroot]; rfl, ?_⟩
  cases root; simp [Entry.addErr, Entry.withD, Entry.d]

theorem dirty_fixAll (f : Forest) (h : Dirty f) : Dirty (fixAll f) := by
  obtain ⟨t, r, h1, e1⟩ := h
  exact ⟨t, fixChoice r, by rw [tree?_fixAll, h1]; rfl, by rw [fixChoice_d]; exact e1⟩

theorem updateAt_errors_mono (root : Entry) (path : Path) (g : Entry → Entry)
    (hg : root.d.errors ≠ [] → (g root).d.errors ≠ []) (h : root.d.errors ≠ []) :
    (root.updateAt path g).d.errors ≠ [] := by
  cases path with
  | nil => rw [updateAt_nil]; exact hg h
  | cons s p => rw [updateAt_d_cons]; exact h

theorem grown_errors {root root' : Entry} (hg : Goyang.Spec.Find.Grown root root') : root'.d.errors = root.d.errors := by
  induction hg with
  | refl e => rfl
  | @step a b c hs _ ih =>
    rw [ih]
    cases hs with
    | input p e _ _ _ => cases p with
      | nil => rw [updateAt_nil, ConfigNsDev.addImplicit_d]
      | cons s p => rw [updateAt_d_cons]
    | output p e _ _ _ => cases p with
      | nil => rw [updateAt_nil, ConfigNsDev.addImplicit_d]
      | cons s p => rw [updateAt_d_cons]

theorem dirty_find (reg : Registry) (f : Forest) (start : Loc) (ctx : Nat) (name : String) (h : Dirty f) :
    Dirty (find reg f start ctx name).2 := by
  rcases Find.frame reg f start ctx name with h1 | ⟨t, root, root', hr, hg, h1⟩ | ⟨_, h1⟩
  · rw [h1]; exact h
  · rw [h1]; exact dirty_setTree f t root root' hr (by rw [grown_errors hg]; exact id) h
  · rw [h1]
    unfold Goyang.Spec.Find.withPrefixError
    split
    · rename_i root hroot; exact dirty_addErr f _ root _ hroot
    · exact h

/-! ### `Find` -/

theorem setImplicitIn_eq : Tree.setImplicitIn = addImplicit true := by funext e; cases e; rfl
theorem setImplicitOut_eq : Tree.setImplicitOut = addImplicit false := by funext e; cases e; rfl

/-- `Tree.walkParts_inv2` with the fact that the node is an rpc / action. -/
theorem walkParts_inv3 (P : Entry → Prop)
    (hstep : ∀ root p e b, P root → PathOK p → root.getAt p = some e → e.d.isRpc = true → SlotEmpty b e →
      P (root.updateAt p (addImplicit b))) :
    ∀ (parts : List String) (root : Entry) (cur : Option Path), P root → (∀ p, cur = some p → PathOK p) →
      P (walkParts parts root cur).2 ∧ (∀ p, (walkParts parts root cur).1 = some p → PathOK p) := by
  intro parts
  induction parts with
  | nil => intro root cur h hc; exact ⟨h, hc⟩
  | cons part rest ih =>
    intro root cur h hc
    unfold walkParts
    dsimp only
    split
    · exact ⟨h, fun p hp => absurd hp (by simp)⟩
    · rename_i p
      have hp : PathOK p := hc p rfl
      split
      · exact ⟨h, fun p hp => absurd hp (by simp)⟩
      · rename_i e he
        split
        · exact ih root _ h (fun q hq => by cases hq; exact hp)
        · split
          · refine ih root _ h (fun q hq => ?_)
            split at hq
            · exact absurd hq (by simp)
            · cases hq; exact Tree.pathOK_dropLast p hp
          · split
            · rename_i hrpc
              split
              · refine ih _ _ ?_ (fun q hq => by cases hq; exact Tree.pathOK_append_input p hp)
                split
                · rename_i hemp
                  have := hstep root p e true h hp he hrpc (by simpa [SlotEmpty] using hemp)
                  rw [← setImplicitIn_eq] at this
                  exact this
                · exact h
              · split
                · refine ih _ _ ?_ (fun q hq => by cases hq; exact Tree.pathOK_append_output p hp)
                  split
                  · rename_i hemp
                    have := hstep root p e false h hp he hrpc (by simpa [SlotEmpty] using hemp)
                    rw [← setImplicitOut_eq] at this
                    exact this
                  · exact h
                · exact ⟨h, fun p hp => absurd hp (by simp)⟩
            · split
              · exact ih root _ h (fun q hq => by cases hq; exact hp)
              · split
                · exact ⟨h, fun p hp => absurd hp (by simp)⟩
                · rename_i hnm
                  split
                  · refine ih root _ h (fun q hq => ?_)
                    cases hq
                    refine Tree.pathOK_append_child p _ hp ?_
                    intro h0; apply hnm; simp [h0]
                  · exact ih root _ h (fun q hq => absurd hq (by simp))

theorem startOf_cur (reg : Registry) (start : Loc) (ctx : Nat) (parts : List String) (t : Nat) (cur : Path)
    (ps : List String) (h : Find.startOf reg start ctx parts = some (t, cur, ps)) : cur = [] ∨ cur = start.2 := by
  unfold Find.startOf at h
  split at h
  · simp only [Option.map_eq_some_iff, Prod.mk.injEq] at h
    obtain ⟨_, _, _, h2, _⟩ := h
    exact Or.inl h2.symm
  · simp only [Option.some.injEq, Prod.mk.injEq] at h
    exact Or.inr h.2.1.symm

/-- **`Find` keeps the alternative** "`BuiltU`, or a root carries an error" — for a forest whose trees
satisfy `U` and a proper start path. -/
theorem find_bd (reg : Registry) (f : Forest) (start : Loc) (ctx : Nat) (name : String)
    (hU : ∀ id root, f.tree? id = some root → U root) (hs : PathOK start.2) (h : BD reg f) :
    BD reg (find reg f start ctx name).2 := by
  rcases h with ⟨prov, hb⟩ | hd
  · by_cases h0 : name = ""
    · subst h0; left; simp only [find]; exact ⟨prov, hb⟩
    · rw [Find.find_eq_findParts _ _ _ _ _ h0]
      unfold Find.findParts
      cases hso : Find.startOf reg start ctx (name.splitOn "/") with
      | none =>
        simp only
        unfold Goyang.Spec.Find.withPrefixError
        split
        · rename_i root hroot; right; exact dirty_addErr f _ root _ hroot
        · left; exact ⟨prov, hb⟩
      | some r =>
        obtain ⟨t, cur, ps⟩ := r
        simp only
        cases htr : f.tree? t with
        | none => left; exact ⟨prov, hb⟩
        | some root =>
          simp only
          left
          have hcur : PathOK cur := by
            rcases startOf_cur reg start ctx _ t cur ps hso with rfl | rfl
            · exact Tree.pathOK_nil
            · exact hs
          have key := walkParts_inv3 (fun root' => (∃ prov', BuiltU reg (f.setTree t root') prov') ∧ U root')
            (fun root1 p e b hP hp hg hr he => by
              obtain ⟨⟨prov1, hb1⟩, hu1⟩ := hP
              refine ⟨?_, U_addImplicit b root1 p e hu1 hp hg he⟩
              have h1 : (f.setTree t root1).tree? t = some root1 := by rw [tree?_setTree, if_pos rfl, htr]; rfl
              obtain ⟨prov2, hb2⟩ := builtU_implicit hb1 t root1 e p b h1 hg hr hp he
              rw [setTree_setTree] at hb2
              exact ⟨prov2, hb2⟩)
            ps root (some cur) ⟨⟨prov, builtU_store hb t root htr⟩, hU t root htr⟩
            (fun p hp => by cases hp; exact hcur)
          exact key.1.1
  · right; exact dirty_find reg f start ctx name hd

/-! ### the augment stage -/

section Stage
variable {env : Env} {q : Entry → Bool} (hq : Tree.LocalOK env q)

/-- The invariant of the augment stage. -/
structure BJ (reg : Registry) (q : Entry → Bool) (s : PState) : Prop where
  main : BD reg s.forest
  pend : ∀ p ∈ s.pending, ∀ a ∈ p.2, noStampL a.dir = true
  trees : Tree.InvB s
  ainv : Tree.AInv (Tree.TreeInv q) (Tree.TInv q) s

theorem forestAll_U {q : Entry → Bool} {f : Forest} (h : Goyang.Spec.Tree.ForestAll (Tree.TreeInv q) f) :
    ∀ id root, f.tree? id = some root → U root :=
  fun id root hr => (Tree.forestAll_tree? f id root h hr).1.1

theorem augFail_bd {reg : Registry} (id : Nat) (addErrors : Bool) (a : Entry) (s : PState) (un : List Entry) (p k : Nat)
    (hb : BD reg s.forest) : BD reg (Tree.augFail id addErrors a s un p k).1.forest := by
  unfold Tree.augFail
  dsimp only
  split
  · split
    · rename_i root hroot
      exact Or.inr (dirty_addErr _ _ root _ hroot)
    · exact hb
  · exact hb

include hq in
theorem augStep_bd (reg : Registry) (id : Nat) (addErrors : Bool) (nsOf : String) (hns : nsOf = ownerNs reg id)
    (acc : PState × List Entry × Nat × Nat) (a : Entry) (hb : BD reg acc.1.forest)
    (hf : Goyang.Spec.Tree.ForestAll (Tree.TreeInv q) acc.1.forest)
    (ha : noStampL a.dir = true) (hUa : U a) : BD reg (Tree.augStep reg id addErrors nsOf acc a).1.forest := by
  classical
  obtain ⟨s, un, p, k⟩ := acc
  dsimp only at hb hf
  have hfind : BD reg (find reg s.forest (id, []) a.d.nodeMod a.d.name).2 ∧
      Goyang.Spec.Tree.ForestAll (Tree.TreeInv q) (find reg s.forest (id, []) a.d.nodeMod a.d.name).2 ∧
      ∀ t path, (find reg s.forest (id, []) a.d.nodeMod a.d.name).1 = some (t, path) → PathOK path := by
    have h2 := (Tree.augClosed_treeInv hq).find reg s.forest (id, []) a.d.nodeMod a.d.name hf Tree.pathOK_nil
    exact ⟨find_bd reg s.forest (id, []) a.d.nodeMod a.d.name (forestAll_U hf) Tree.pathOK_nil hb, h2.1, h2.2⟩
  unfold Tree.augStep
  dsimp only
  generalize find reg s.forest (id, []) a.d.nodeMod a.d.name = r at hfind
  obtain ⟨target, forest⟩ := r
  dsimp only at hfind ⊢
  obtain ⟨hbd, hfa, hpo⟩ := hfind
  have fail := augFail_bd id addErrors a { s with forest := forest } un p k hbd
  split
  · exact fail
  · rename_i t path
    have hpath : PathOK path := hpo t path rfl
    split
    · exact fail
    · rename_i te hte
      split
      · exact fail
      · rename_i hcan
        split
        · exact fail
        · rename_i root hroot
          dsimp only at hroot hte ⊢
          simp only [hroot, Option.bind_some] at hte
          subst hns
          have hrpc : te.d.isRpc = false := by
            simp only [cannotHaveChildren, Bool.or_eq_true, not_or, Bool.not_eq_true] at hcan
            exact hcan.2
          rcases hbd with ⟨prov, hb1⟩ | hd
          · left
            exact ⟨fun loc => if NewBelow t path te a loc then some id else prov loc,
              BuiltU.graft hb1 hroot hte ha (forestAll_U hfa t root hroot) hpath hrpc hUa
                (fun loc h => by simp only [h, if_true]) (fun loc h => by simp only [h, if_false])⟩
          · right
            refine dirty_setTree forest t root _ hroot ?_ hd
            apply updateAt_errors_mono
            intro hne hm
            obtain ⟨xs, hxs⟩ := Tree.merge_root_errors root (some (ownerNs reg id)) a
            rw [hxs] at hm
            simp only [List.append_eq_nil_iff] at hm
            exact hne hm.1.1

include hq in
theorem augmentTree_bj (reg : Registry) (id : Nat) (addErrors : Bool) (s : PState) (h : BJ reg q s) :
    BJ reg q (augmentTree reg id addErrors s).1 := by
  have hA := Tree.augClosed_treeInv hq
  obtain ⟨un, _, hp, hsub, _, _, _⟩ := Tree.augmentTree_ok reg id addErrors s
  refine ⟨?_, ?_, Tree.invB_augmentTree reg id addErrors s h.trees, Tree.augmentTree_ainv hA reg id addErrors s h.ainv⟩
  · rw [Tree.augmentTree_eq]
    dsimp only
    refine (Tree.foldl_inv (fun acc : PState × List Entry × Nat × Nat =>
        BD reg acc.1.forest ∧ Goyang.Spec.Tree.ForestAll (Tree.TreeInv q) acc.1.forest) _ _ _
      ⟨h.main, h.ainv.trees⟩ ?_).1
    · intro acc a ha hacc
      obtain ⟨p, hp', hap⟩ := Tree.pendingOf_mem s id a ha
      obtain ⟨p0, hp0, h1, h2⟩ := Tree.pendingOf_ne_nil s id (List.ne_nil_of_mem ha)
      have hkey : id ∈ Tree.fkeys s.forest := by rw [← h1]; exact h.trees p0 hp0 h2
      obtain ⟨r0, hr0⟩ := Option.isSome_iff_exists.mp ((Tree.tree?_isSome _ _).2 hkey)
      exact ⟨augStep_bd hq reg id addErrors _ (namespaceAt_root reg s.forest id r0 hr0) acc a hacc.1 hacc.2
          (h.pend p hp' a hap) (h.ainv.pend p hp' a hap).1,
        Tree.augStep_inv hA reg id addErrors _ acc a hacc.2 (h.ainv.pend p hp' a hap)⟩
  · rw [hp]
    intro p hp' a ha
    simp only [List.mem_map] at hp'
    obtain ⟨ip, hip, rfl⟩ := hp'
    split at ha
    · obtain ⟨p0, hp0, h0⟩ := Tree.pendingOf_mem s id a (hsub a ha)
      exact h.pend p0 hp0 a h0
    · exact h.pend ip hip a ha

include hq in
theorem augmentPass_bj (reg : Registry) : ∀ (fuel : Nat) (mods : Array Nat) (i processed : Nat) (s : PState),
    BJ reg q s → BJ reg q (augmentPass reg fuel mods i processed s).2.2 := by
  intro fuel
  induction fuel with
  | zero => intro mods i processed s h; exact h
  | succ fuel ih =>
    intro mods i processed s h
    unfold augmentPass
    split
    · have := augmentTree_bj hq reg mods[i] false s h
      generalize augmentTree reg mods[i] false s = r at this ⊢
      obtain ⟨s', p, k⟩ := r
      dsimp only at this ⊢
      split
      · exact ih _ _ _ _ this
      · exact ih _ _ _ _ this
    · exact h

include hq in
theorem augmentLoop_bj (reg : Registry) : ∀ (fuel : Nat) (mods : Array Nat) (s : PState),
    BJ reg q s → BJ reg q (augmentLoop reg fuel mods s).2 := by
  intro fuel
  induction fuel with
  | zero => intro mods s h; exact h
  | succ fuel ih =>
    intro mods s h
    unfold augmentLoop
    split
    · exact h
    · have := augmentPass_bj hq reg (mods.size + 1) mods 0 0 s h
      generalize augmentPass reg (mods.size + 1) mods 0 0 s = r at this ⊢
      obtain ⟨mods', processed, s'⟩ := r
      dsimp only at this ⊢
      split
      · exact this
      · exact ih _ _ this

include hq in
theorem leftover_bj (reg : Registry) (left : Array Nat) (s : PState) (h : BJ reg q s) :
    BJ reg q (left.foldl (fun (acc : PState × Nat) id =>
      let (s, p, _) := augmentTree reg id true acc.1
      (s, acc.2 + p)) (s, 0)).1 := by
  rw [← Array.foldl_toList]
  refine Tree.foldl_inv (fun acc : PState × Nat => BJ reg q acc.1) _ _ _ h ?_
  rintro ⟨s, cnt⟩ id _ hs
  have := augmentTree_bj hq reg id true s hs
  generalize augmentTree reg id true s = r at this ⊢
  obtain ⟨s', p, k⟩ := r
  exact this

theorem fixAll_bj (reg : Registry) (hfix : ∀ e, Goyang.Spec.Tree.everyNode q e = true → Goyang.Spec.Tree.everyNode q (fixChoice e) = true)
    (s : PState) (h : BJ reg q s) : BJ reg q (Tree.fixAll s) := by
  classical
  refine ⟨?_, h.pend, Tree.invB_fixAll s h.trees, Tree.ainv_fixAll hfix s h.ainv⟩
  rcases h.main with ⟨prov, hb⟩ | hd
  · left
    let P : Loc → Path → Prop := fun loc' p =>
      ∃ root, s.forest.tree? loc'.1 = some root ∧ (root.getAt p).isSome = true ∧ loc'.2 = liftPath root p
    refine ⟨fun loc' => if hex : ∃ p, P loc' p then prov (loc'.1, Classical.choose hex) else none, ?_⟩
    show BuiltU reg (fixAll s.forest) _
    refine BuiltU.fix hb (forestAll_U h.ainv.trees) ?_ ?_
    · intro id root p hroot hsome
      have hex : ∃ p', P (id, liftPath root p) p' := ⟨p, root, hroot, hsome, rfl⟩
      rw [dif_pos hex]
      obtain ⟨root2, hr2, hs2, hl2⟩ := Classical.choose_spec hex
      simp only at hr2 hl2
      rw [hroot] at hr2
      simp only [Option.some.injEq] at hr2
      subst hr2
      have e := liftPath_inj p root _ hsome hs2 hl2
      exact congrArg (fun q => prov (id, q)) e.symm
    · intro loc' hno
      have : ¬ ∃ p, P loc' p := by
        rintro ⟨p, root, h1, h2, h3⟩
        exact hno ⟨root, p, h1, h2, h3⟩
      rw [dif_neg this]
  · right
    show Dirty (fixAll s.forest)
    exact dirty_fixAll _ hd

end Stage

/-! ### the state before the deviations -/

theorem bj_pstate0 (reg : Registry) (opts : Opts) (plug : Plug) {q : Entry → Bool}
    (hq : Tree.LocalOK (Tree.envOf reg opts plug) q) : BJ reg q (Tree.pstate0 reg opts plug) := by
  have hst := ConfigNsToEntry.conversion_stOK (Tree.envOf reg opts plug) (entryFuel reg) (Tree.keyOrder reg)
  have hbi := bi_pstate0 reg opts plug
  refine ⟨Or.inl ⟨fun loc => some loc.1, BuiltU.init ?_⟩, hbi.pend, hbi.trees, Tree.ainv_pstate0 reg opts plug hq⟩
  intro id t ht
  unfold Forest.tree? at ht
  cases hf : List.find? (fun x => x.1 == id) (Tree.pstate0 reg opts plug).forest.trees with
  | none => rw [hf] at ht; cases ht
  | some x =>
    rw [hf] at ht
    simp only [Option.map_some, Option.some.injEq] at ht
    have := hst.1 x (List.mem_of_find?_eq_some hf)
    rw [ht] at this
    exact ((noStamp_iff t).mp this).2

/-- **The forest `processAll` applies its deviations to is `BuiltU` — or a root carries an error.** -/
theorem bj_preDev (reg : Registry) (opts : Opts) (plug : Plug) :
    BJ reg (Tree.wfqB false) (Tree.preDev reg opts plug) := by
  have hq : Tree.LocalOK (Tree.envOf reg opts plug) (Tree.wfqB false) :=
    Tree.localOK_wfqB _ false (fun h => by cases h)
  have hfix := Tree.wfqB_fixChoice false
  have h1 := Tree.afterRounds_state reg opts plug (BJ reg (Tree.wfqB false))
    (fun fuel mods s h => augmentLoop_bj hq reg fuel mods s h) (fun s h => fixAll_bj reg hfix s h)
    (bj_pstate0 reg opts plug hq)
  have h2 := leftover_bj hq reg (Tree.afterRounds reg opts plug).1 (Tree.afterRounds reg opts plug).2 h1
  unfold Tree.preDev
  split
  · exact fixAll_bj reg hfix _ h2
  · exact h2

/-- **On an error-free run, the forest before the deviations is `Built`.** -/
theorem preDev_built_of_clean (reg : Registry) (opts : Opts) (plug : Plug)
    (hclean : Tree.forestErrs (Tree.preDev reg opts plug).forest = []) :
    ∃ prov, Built reg (Tree.preDev reg opts plug).forest prov := by
  rcases (bj_preDev reg opts plug).main with ⟨prov, hb⟩ | ⟨t, root, hroot, herr⟩
  · exact ⟨prov, hb.toBuilt⟩
  · exfalso
    have hne := (Tree.forestErrs_eq_nil _).1 hclean
    exact herr (Tree.noErrors_own root (Tree.forestAll_tree? _ t root hne hroot))

end Goyang.Lemmas.ConfigNsBuilt
